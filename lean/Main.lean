import LyModel.Drv
/-!
Line-protocol driver (`lydrv`): `<id> <component> <op> <arg>*` → `<id> ok <field>*` | `<id> err <Enum>`.
Imports model files only (no Mathlib, no proof files) so that it links as a `lean_exe`.
-/
open LyModel

partial def loop (h : IO.FS.Stream) (out : IO.FS.Stream) : IO Unit := do
  let line ← h.getLine
  if line.isEmpty then return ()
  let toks := (line.trimAscii.toString.splitOn " ").filter (· ≠ "")
  match toks with
  | id :: comp :: op :: args =>
    out.putStrLn (id ++ " " ++ Drv.dispatch comp op args)
  | _ => out.putStrLn "? err BadLine"
  loop h out

def main : IO Unit := do
  let out ← IO.getStdout
  loop (← IO.getStdin) out
  out.flush
