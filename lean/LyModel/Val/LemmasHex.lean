import LyModel.Val.HexStr
import LyModel.Val.LemmasOrder
import LyModel.Val.LemmasUnion
import LyModel.XsdRe.Lemmas
/-! Lemmas about the hex-string model (`Val/HexStr.lean`): the byte map `tolower`, `lower` on strings, values that differ in case only,
    the store function. -/
namespace LyModel.Val.HexStr
open LyModel LyModel.Val LyModel.XsdRe LyModel.XsdRe.Regex

/-! ### `tolower` on a byte -/

theorem isUpper_iff (b : UInt8) : isUpper b = true ↔ 65 ≤ b.toNat ∧ b.toNat ≤ 90 := by
  unfold isUpper
  simp only [Bool.and_eq_true, decide_eq_true_eq]

theorem lowerByte_toNat (b : UInt8) : (lowerByte b).toNat = if isUpper b = true then b.toNat + 32 else b.toNat := by
  unfold lowerByte
  by_cases h : isUpper b = true
  · rw [if_pos h, if_pos h]
    have := (isUpper_iff b).mp h
    rw [UInt8.toNat_ofNat']
    omega
  · rw [if_neg h, if_neg h]

theorem isUpper_lowerByte (b : UInt8) : isUpper (lowerByte b) = false := by
  cases hu : isUpper (lowerByte b) with
  | false => rfl
  | true =>
    have h1 := (isUpper_iff _).mp hu
    rw [lowerByte_toNat] at h1
    by_cases h : isUpper b = true
    · rw [if_pos h] at h1
      have := (isUpper_iff b).mp h
      omega
    · rw [if_neg h] at h1
      exact absurd ((isUpper_iff b).mpr h1) h

theorem lowerByte_of_not_upper {b : UInt8} (h : isUpper b = false) : lowerByte b = b := by
  unfold lowerByte
  rw [h]
  rfl

theorem lowerByte_idem (b : UInt8) : lowerByte (lowerByte b) = lowerByte b :=
  lowerByte_of_not_upper (isUpper_lowerByte b)

theorem lowerByte_eq_self_iff (b : UInt8) : lowerByte b = b ↔ isUpper b = false := by
  constructor
  · intro h
    rw [← h]
    exact isUpper_lowerByte b
  · exact lowerByte_of_not_upper

theorem lowerByte_ne_zero (b : UInt8) : (lowerByte b != 0) = (b != 0) := by
  have key : lowerByte b = 0 ↔ b = 0 := by
    rw [← UInt8.toNat_inj, ← UInt8.toNat_inj (a := b), lowerByte_toNat]
    by_cases h : isUpper b = true
    · rw [if_pos h]
      have := (isUpper_iff b).mp h
      show b.toNat + 32 = 0 ↔ b.toNat = 0
      omega
    · rw [if_neg h]
  by_cases hb : b = 0
  · subst hb
    rfl
  · have : lowerByte b ≠ 0 := fun h => hb (key.mp h)
    rw [bne_iff_ne.mpr this, bne_iff_ne.mpr hb]

/-- two bytes are the same letter in possibly different case, or the same byte -/
def SameCase (a b : UInt8) : Prop :=
  a = b ∨ (isUpper a = true ∧ b.toNat = a.toNat + 32) ∨ (isUpper b = true ∧ a.toNat = b.toNat + 32)

theorem sameCase_iff (a b : UInt8) : SameCase a b ↔ lowerByte a = lowerByte b := by
  rw [← UInt8.toNat_inj, lowerByte_toNat, lowerByte_toNat]
  unfold SameCase
  by_cases ha : isUpper a = true <;> by_cases hb : isUpper b = true
  · rw [if_pos ha, if_pos hb]
    have h1 := (isUpper_iff a).mp ha
    have h2 := (isUpper_iff b).mp hb
    rw [← UInt8.toNat_inj]
    omega
  · rw [if_pos ha, if_neg hb]
    have h1 := (isUpper_iff a).mp ha
    have h2 : ¬ (65 ≤ b.toNat ∧ b.toNat ≤ 90) := fun h => hb ((isUpper_iff b).mpr h)
    rw [← UInt8.toNat_inj]
    simp only [ha, hb, true_and, Bool.false_eq_true, false_and, or_false]
    omega
  · rw [if_neg ha, if_pos hb]
    have h2 := (isUpper_iff b).mp hb
    have h1 : ¬ (65 ≤ a.toNat ∧ a.toNat ≤ 90) := fun h => ha ((isUpper_iff a).mpr h)
    rw [← UInt8.toNat_inj]
    simp only [ha, hb, true_and, Bool.false_eq_true, false_and, false_or]
    omega
  · rw [if_neg ha, if_neg hb]
    rw [← UInt8.toNat_inj]
    simp only [ha, hb, Bool.false_eq_true, false_and, or_false]

/-! ### `lower` on strings -/

theorem lower_length (s : Bytes) : (lower s).length = s.length := by
  unfold lower
  exact List.length_map _

theorem lower_idem (s : Bytes) : lower (lower s) = lower s := by
  unfold lower
  rw [List.map_map]
  apply List.map_congr_left
  intro b _
  exact lowerByte_idem b

theorem lower_no_upper (s : Bytes) : ∀ b ∈ lower s, isUpper b = false := by
  intro b hb
  unfold lower at hb
  obtain ⟨a, _, rfl⟩ := List.mem_map.mp hb
  exact isUpper_lowerByte a

theorem lower_eq_self_iff : ∀ (s : Bytes), lower s = s ↔ ∀ b ∈ s, isUpper b = false
  | [] => by simp [lower]
  | a :: r => by
    have ih := lower_eq_self_iff r
    unfold lower at ih ⊢
    simp only [List.map_cons, List.cons.injEq, List.mem_cons, forall_eq_or_imp]
    rw [ih, lowerByte_eq_self_iff]

theorem cstr_lower : ∀ (s : Bytes), cstr (lower s) = lower (cstr s)
  | [] => rfl
  | a :: r => by
    have ih := cstr_lower r
    unfold cstr lower at ih ⊢
    simp only [List.map_cons, List.takeWhile_cons, lowerByte_ne_zero]
    by_cases h : (a != 0) = true
    · rw [if_pos h, if_pos h, List.map_cons, ih]
    · rw [if_neg h, if_neg h]
      rfl

theorem cstr_idem : ∀ (s : Bytes), cstr (cstr s) = cstr s
  | [] => rfl
  | a :: r => by
    have ih := cstr_idem r
    unfold cstr at ih ⊢
    simp only [List.takeWhile_cons]
    by_cases h : (a != 0) = true
    · rw [if_pos h, List.takeWhile_cons, if_pos h, ih]
    · rw [if_neg h]
      rfl

theorem cstr_eq_self_of_no_nul : ∀ (s : Bytes), (∀ b ∈ s, b ≠ 0) → cstr s = s
  | [], _ => rfl
  | a :: r, h => by
    have ih := cstr_eq_self_of_no_nul r (fun b hb => h b (List.mem_cons_of_mem _ hb))
    unfold cstr at ih ⊢
    have ha : (a != 0) = true := by simpa using h a (List.mem_cons_self)
    rw [List.takeWhile_cons, if_pos ha, ih]

/-- the stored form is a fixed point of the two steps the plug-in applies to its input -/
theorem cstr_lower_cstr (s : Bytes) : cstr (lower (cstr s)) = lower (cstr s) := by
  rw [cstr_lower, cstr_idem]

/-- values that differ only in the case of ASCII letters, position by position -/
def CaseEq : Bytes → Bytes → Prop
  | [], [] => True
  | a :: r, b :: s => SameCase a b ∧ CaseEq r s
  | [], _ :: _ => False
  | _ :: _, [] => False

theorem caseEq_iff : ∀ (s1 s2 : Bytes), CaseEq s1 s2 ↔ lower s1 = lower s2
  | [], [] => by simp [CaseEq, lower]
  | [], _ :: _ => by simp [CaseEq, lower]
  | _ :: _, [] => by simp [CaseEq, lower]
  | a :: r, b :: s => by
    have ih := caseEq_iff r s
    unfold lower at ih ⊢
    simp only [CaseEq, List.map_cons, List.cons.injEq, sameCase_iff, ih]

theorem caseEq_refl (s : Bytes) : CaseEq s s := (caseEq_iff s s).mpr rfl
theorem caseEq_symm {s1 s2 : Bytes} (h : CaseEq s1 s2) : CaseEq s2 s1 := (caseEq_iff _ _).mpr ((caseEq_iff _ _).mp h).symm
theorem caseEq_lower (s : Bytes) : CaseEq s (lower s) := (caseEq_iff _ _).mpr (lower_idem s).symm

/-- the case variants of one value have the same C string, lower-cased -/
theorem caseEq_lower_cstr {s1 s2 : Bytes} (h : CaseEq s1 s2) : lower (cstr s1) = lower (cstr s2) := by
  rw [← cstr_lower, ← cstr_lower, (caseEq_iff _ _).mp h]

/-! ### the pattern array -/

theorem validate_iff (ps : List (Regex Char × Bool)) (cs : List Char) :
    validatePatterns ps cs = true ↔ ∀ p ∈ ps, (L p.1 cs ↔ p.2 = false) := by
  unfold validatePatterns
  simp only [List.all_eq_true]
  constructor
  · intro h p hp
    have := h p hp
    unfold satisfies at this
    rw [← matches_iff_L]
    cases hm : p.1.matches cs <;> cases hi : p.2 <;> simp [hm, hi] at this ⊢
  · intro h p hp
    have := h p hp
    rw [← matches_iff_L] at this
    unfold satisfies
    cases hm : p.1.matches cs <;> cases hi : p.2 <;> simp [hm, hi] at this ⊢

/-- the verdict of `lyplg_type_validate_patterns` under `PCRE2_UTF` -/
def PatsHold (pats : List (Regex Char × Bool)) (v : Bytes) : Prop :=
  pats = [] ∨ ∃ cs, decodeUtf8 v = some cs ∧ ∀ p ∈ pats, (L p.1 cs ↔ p.2 = false)

theorem checkPatterns_ok_iff (pats : List (Regex Char × Bool)) (v : Bytes) : checkPatterns pats v = .ok () ↔ PatsHold pats v := by
  unfold checkPatterns PatsHold
  cases pats with
  | nil => simp
  | cons p ps =>
    simp only [List.isEmpty_cons, Bool.false_eq_true, if_false, reduceCtorEq, false_or]
    cases hd : decodeUtf8 v with
    | none => simp
    | some cs =>
      simp only [Option.some.injEq, exists_eq_left']
      rw [← validate_iff]
      by_cases hv : validatePatterns (p :: ps) cs = true
      · simp [hv]
      · simp [hv]

/-! ### store -/

/-- the length restriction on the stored form -/
def LengthHolds (t : PStrTy) (v : Bytes) : Prop :=
  validateRange (rangeIsUnsigned "string") t.length (utf8Len (v.length + 1) v : Nat) = true

theorem store_ok_iff (t : PStrTy) (hints : Nat) (s x : Bytes) :
    store t hints s = .ok x ↔
      (checkHints hints "string").isSome = true ∧ x = lower (cstr s) ∧ LengthHolds t x ∧ PatsHold t.pats x := by
  unfold store LengthHolds
  cases hh : checkHints hints "string" with
  | none => simp
  | some e =>
    simp only [Option.isSome_some, true_and]
    by_cases hl : validateRange (rangeIsUnsigned "string") t.length (utf8Len ((lower (cstr s)).length + 1) (lower (cstr s)) : Nat) = true
    · simp only [hl, Bool.not_true, Bool.false_eq_true, if_false]
      cases hp : checkPatterns t.pats (lower (cstr s)) with
      | error e =>
        have : ¬ PatsHold t.pats (lower (cstr s)) := fun h => by
          rw [(checkPatterns_ok_iff _ _).mpr h] at hp; cases hp
        simp only [reduceCtorEq, false_iff]
        rintro ⟨rfl, _, h⟩
        exact this h
      | ok u =>
        have hp' := (checkPatterns_ok_iff _ _).mp hp
        simp only [Except.ok.injEq]
        constructor
        · intro h
          subst h
          exact ⟨rfl, hl, hp'⟩
        · rintro ⟨rfl, _, _⟩
          rfl
    · simp only [hl, Bool.not_false, if_true, reduceCtorEq, false_iff]
      rintro ⟨rfl, h, _⟩
      exact hl h

/-- the store function looks at its input only through the lower-cased C string -/
theorem store_congr (t : PStrTy) (hints : Nat) {s1 s2 : Bytes} (h : lower (cstr s1) = lower (cstr s2)) :
    store t hints s1 = store t hints s2 := by
  unfold store
  rw [h]

/-- whether a value is stored does not depend on the hint set, as long as the hint set admits a string -/
theorem store_hints (t : PStrTy) {h1 h2 : Nat} (s : Bytes) (a : (checkHints h1 "string").isSome = true) (b : (checkHints h2 "string").isSome = true) :
    store t h1 s = store t h2 s := by
  unfold store
  cases e1 : checkHints h1 "string" with
  | none => rw [e1] at a; cases a
  | some _ =>
    cases e2 : checkHints h2 "string" with
    | none => rw [e2] at b; cases b
    | some _ => rfl

/-! ### relation to the `string` plug-in (`storePStr`) -/

/-- what the `string` plug-in stores when it is given the lower-cased C string, the hex-string plug-in stores from the input -/
theorem store_of_storePStr {t : PStrTy} {hints : Nat} {s x : Bytes} (h : storePStr t hints (lower (cstr s)) = .ok x) :
    store t hints s = .ok x := by
  obtain ⟨rfl, _⟩ := storePStr_ok h
  unfold storePStr at h
  cases hs : storeStr t.length hints (lower (cstr s)) with
  | error e => rw [hs] at h; cases h
  | ok y =>
    rw [hs] at h
    simp only at h
    unfold storeStr at hs
    split at hs
    · cases hs
    · cases hh : checkHints hints "string" with
      | none => rw [hh] at hs; cases hs
      | some e =>
        rw [hh] at hs
        simp only at hs
        split at hs
        · rename_i hl
          cases hd : decodeUtf8 (lower (cstr s)) with
          | none => rw [hd] at h; cases h
          | some cs =>
            rw [hd] at h
            simp only at h
            by_cases hv : validatePatterns t.pats cs = true
            · refine (store_ok_iff t hints s _).mpr ⟨by rw [hh]; rfl, rfl, hl, Or.inr ⟨cs, hd, (validate_iff _ _).mp hv⟩⟩
            · rw [if_neg hv] at h; cases h
        · cases hs

/-- conversely a value the hex-string plug-in stores (type with at least one pattern) is a value of the `string` type with the same
    restrictions, provided it passes the character check of the `string` plug-in, which the hex-string plug-in does not make -/
theorem storePStr_of_store {t : PStrTy} {hints : Nat} {s x : Bytes} (h : store t hints s = .ok x) (hp : t.pats ≠ [])
    (hc : checkChars (x.length + 1) x = true) : storePStr t hints x = .ok x := by
  obtain ⟨hh, _, hl, hpat⟩ := (store_ok_iff t hints s x).mp h
  obtain ⟨cs, hd, hall⟩ := hpat.resolve_left hp
  unfold storePStr storeStr
  rw [hc]
  cases hh' : checkHints hints "string" with
  | none => rw [hh'] at hh; cases hh
  | some e =>
    simp only [Bool.not_true, Bool.false_eq_true, if_false]
    unfold LengthHolds at hl
    rw [if_pos hl]
    simp only [hd, (validate_iff _ _).mpr hall, if_true]

end LyModel.Val.HexStr
