import LyModel.Val.LemmasStoreInt
import LyModel.Val.LemmasDecArith
/-! `lyplg_type_parse_dec64` against the RFC 7950 §9.3.1 lexical space (`DecLexWs`). -/
set_option linter.unusedSimpArgs false
namespace LyModel.Val
open LyModel

theorem IntLexWs.unique {s : Bytes} {v v' : Int} (h : IntLexWs s v) (h' : IntLexWs s v') : v = v' := by
  obtain ⟨l, core, r, hs, hl, hr, sg, ds, hcore, hsg, hne, hd, hv⟩ := h
  obtain ⟨l', core', r', hs', hl', hr', sg', ds', hcore', hsg', hne', hd', hv'⟩ := h'
  subst hcore; subst hcore'
  have e1 := strtoCore10_of_layout (r := r) hl hsg hne hd (allSpace_head_not_digit hr)
  have e2 := strtoCore10_of_layout (r := r') hl' hsg' hne' hd' (allSpace_head_not_digit hr')
  rw [show l ++ sg ++ ds ++ r = s by rw [hs]; simp] at e1
  rw [show l' ++ sg' ++ ds' ++ r' = s by rw [hs']; simp] at e2
  rw [e1] at e2
  injection e2 with hneg hmag _ _
  rw [hv, hv', applySign_beq, applySign_beq, hneg, hmag]

theorem no_nul_of_digits {sg ds : Bytes} (hs : IsSign sg) (hd : ds.all isDigit = true) : (0 : UInt8) ∉ sg ++ ds := by
  intro h
  rcases List.mem_append.mp h with h | h
  · rcases hs with rfl | rfl | rfl <;> simp at h
  · have := List.all_eq_true.mp hd 0 h
    simp [isDigit] at this

/-- the inner `lyplg_type_parse_int` call of `lyplg_type_parse_dec64`: its argument is a sign and digits only -/
theorem parseInt10_signed_digits {sg ds : Bytes} (hs : IsSign sg) (hne : ds ≠ []) (hd : ds.all isDigit = true)
    (min max k : Int) (hmin : -(2 ^ 63) ≤ min) (hmax : max ≤ 2 ^ 63 - 1) :
    parseInt 10 min max (sg ++ ds) = .ok k ↔ k = applySign sg (valOf 10 ds) ∧ min ≤ k ∧ k ≤ max := by
  rw [parseInt10_iff _ _ _ _ (no_nul_of_digits hs hd) hmin hmax]
  have hlex : IntLexWs (sg ++ ds) (applySign sg (valOf 10 ds)) :=
    ⟨[], sg ++ ds, [], by simp, rfl, rfl, sg, ds, rfl, hs, hne, hd, rfl⟩
  constructor
  · rintro ⟨h, hlo, hhi⟩
    exact ⟨h.unique hlex, hlo, hhi⟩
  · rintro ⟨h, hlo, hhi⟩
    rw [h] at hlo hhi ⊢
    exact ⟨hlex, hlo, hhi⟩

theorem dec64_consts : Generated.dec64ParseBase = 10 ∧ Generated.dec64Min = -(2 ^ 63) ∧ Generated.dec64Max = 2 ^ 63 - 1 := by decide

/-- `final frs` of the model: what the scaled digit string parses to -/
theorem dec64_final {sg ip frs : Bytes} {fd : Nat} (hfd : 1 ≤ fd) (hs : IsSign sg) (hip : ip.all isDigit = true) (hfr : frs.all isDigit = true)
    (k : Int) :
    decFinal fd sg ip frs = .ok k ↔
      k = applySign sg (valOf 10 (ip ++ frs) * 10 ^ (fd - frs.length)) ∧ -(2 ^ 63) ≤ k ∧ k ≤ 2 ^ 63 - 1 := by
  obtain ⟨h1, h2, h3⟩ := dec64_consts
  unfold decFinal
  rw [h1, h2, h3]
  have hd : (ip ++ frs ++ zeros (fd - frs.length)).all isDigit = true := by
    simp [List.all_append, hip, hfr, zeros_all_digit]
  have hne : ip ++ frs ++ zeros (fd - frs.length) ≠ [] := by
    intro h
    have := congrArg List.length h
    simp only [List.length_append, zeros_length, List.length_nil] at this
    omega
  rw [show sg ++ ip ++ frs ++ zeros (fd - frs.length) = sg ++ (ip ++ frs ++ zeros (fd - frs.length)) by simp]
  rw [parseInt10_signed_digits hs hne hd _ _ _ (Int.le_refl _) (Int.le_refl _), valOf_append_zeros]

/-- the decimal64 equation with the fraction split into its significant part and its trailing zeros -/
theorem dec_equation {sg ip frs : Bytes} {z fd : Nat} {k : Int} (hle : frs.length ≤ fd) :
    k * 10 ^ (frs ++ zeros z).length = applySign sg (valOf 10 (ip ++ (frs ++ zeros z))) * 10 ^ fd ↔
      k = applySign sg (valOf 10 (ip ++ frs) * 10 ^ (fd - frs.length)) := by
  rw [← List.append_assoc, valOf_append_zeros, applySign_mul, applySign_mul, List.length_append, zeros_length]
  have hc : ∀ n : Nat, (((10 : Nat) ^ n : Nat) : Int) = (10 : Int) ^ n := fun n => by simp
  rw [hc, hc, Int.pow_add, ← Int.mul_assoc, Int.mul_assoc _ (10 ^ z) (10 ^ fd), Int.mul_comm (10 ^ z) (10 ^ fd), ← Int.mul_assoc,
    Int.mul_eq_mul_right_iff (pow10_ne_zero z)]
  exact mul_pow10_le hle

/-- more significant fraction digits than `fd`: no mantissa satisfies the equation -/
theorem dec_equation_none {sg ip frs : Bytes} {z fd : Nat} {k : Int} (hgt : fd < frs.length) (hd : frs.all isDigit = true)
    (hlast : frs.getLast? ≠ some 48) :
    ¬ (k * 10 ^ (frs ++ zeros z).length = applySign sg (valOf 10 (ip ++ (frs ++ zeros z))) * 10 ^ fd) := by
  intro h
  rw [← List.append_assoc, valOf_append_zeros, applySign_mul, List.length_append, zeros_length] at h
  have hc : ∀ n : Nat, (((10 : Nat) ^ n : Nat) : Int) = (10 : Int) ^ n := fun n => by simp
  rw [hc, Int.pow_add, ← Int.mul_assoc, Int.mul_assoc _ (10 ^ z) (10 ^ fd), Int.mul_comm (10 ^ z) (10 ^ fd), ← Int.mul_assoc,
    Int.mul_eq_mul_right_iff (pow10_ne_zero z)] at h
  have hdvd := mul_pow10_gt hgt h
  have hne : frs ≠ [] := by intro h0; rw [h0] at hgt; simp at hgt
  exact valOf_mod10_of_last (x := ip) hd hne hlast (applySign_dvd hdvd)

/-- what follows the integer digits in a decimal64 lexical value -/
def decTail (point : Bool) (fr r : Bytes) : Bytes := (if point then 46 :: fr else []) ++ r

theorem decTail_head_not_digit {point : Bool} {fr r : Bytes} (hr : r.all isSpace = true) :
    ∀ c, (decTail point fr r).head? = some c → isDigit c = false := by
  intro c hc
  unfold decTail at hc
  cases point
  · simp only [Bool.false_eq_true, if_false, List.nil_append] at hc
    exact allSpace_head_not_digit hr c hc
  · simp at hc; subst hc; decide

theorem decBody_ok_iff (fd : Nat) (hfd : 1 ≤ fd) {sg : Bytes} (hs : IsSign sg) (t : Bytes) (k : Int) :
    decBody fd sg t = .ok k ↔
      (∃ ip fr r, ∃ point : Bool, t = ip ++ decTail point fr r ∧ r.all isSpace = true ∧ ip.all isDigit = true ∧ fr.all isDigit = true ∧
        (point = true → fr ≠ []) ∧ (point = false → fr = []) ∧
        k * 10 ^ fr.length = applySign sg (valOf 10 (ip ++ fr)) * 10 ^ fd) ∧ -(2 ^ 63) ≤ k ∧ k ≤ 2 ^ 63 - 1 := by
  have hip := all_takeWhile isDigit t
  have ht : t = t.takeWhile isDigit ++ t.dropWhile isDigit := List.takeWhile_append_dropWhile.symm
  -- the no-fraction outcome, shared by two branches
  have hnofrac : ∀ ip, ip.all isDigit = true → (decFinal fd sg ip [] = .ok k ↔
      (k * 10 ^ ([] : Bytes).length = applySign sg (valOf 10 (ip ++ [])) * 10 ^ fd) ∧ -(2 ^ 63) ≤ k ∧ k ≤ 2 ^ 63 - 1) := by
    intro ip hipd
    rw [dec64_final hfd hs hipd rfl]
    have := dec_equation (sg := sg) (ip := ip) (frs := []) (z := 0) (fd := fd) (k := k) (Nat.zero_le _)
    simp only [zeros, List.replicate_zero, List.append_nil, List.length_nil] at this ⊢
    rw [this]
  constructor
  · intro h
    unfold decBody at h
    simp only at h
    split at h
    · rename_i hr1
      obtain ⟨heq, hb⟩ := (hnofrac _ hip).mp h
      refine ⟨⟨t.takeWhile isDigit, [], [], false, ?_, rfl, hip, rfl, by simp, by simp, heq⟩, hb⟩
      rw [hr1] at ht; simpa [decTail] using ht
    · rename_i d r2 hr1
      split at h
      · rename_i hdot
        simp only [Bool.and_eq_true, beq_iff_eq] at hdot
        have hd46 : d = 46 := by rw [← UInt8.toNat_inj]; exact hdot.1
        split at h
        · cases h
        · rename_i hlen
          split at h
          · cases h
          · rename_i hsp
            have hfrd := all_takeWhile isDigit r2
            have hfrs := stripTrailingZeros_all_digit hfrd
            obtain ⟨hk, hb⟩ := (dec64_final hfd hs hip hfrs k).mp h
            obtain ⟨z, hz, hlast⟩ := stripTrailingZeros_spec (r2.takeWhile isDigit)
            refine ⟨⟨t.takeWhile isDigit, r2.takeWhile isDigit, r2.dropWhile isDigit, true, ?_, ?_, hip, hfrd, ?_, by simp, ?_⟩, hb⟩
            · rw [hr1, hd46] at ht
              simp only [decTail, if_true, List.cons_append]
              rw [List.takeWhile_append_dropWhile]; exact ht
            · simpa [allSpace] using hsp
            · intro _ h0
              -- a digit follows the point, so the fraction is not empty
              cases r2 with
              | nil => simp at hdot
              | cons a r => simp at hdot; simp [List.takeWhile_cons, hdot.2] at h0
            · rw [hz]
              exact (dec_equation (by omega)).mpr hk
      · rename_i hdot
        split at h
        · cases h
        · rename_i hsp
          obtain ⟨heq, hb⟩ := (hnofrac _ hip).mp h
          refine ⟨⟨t.takeWhile isDigit, [], d :: r2, false, ?_, ?_, hip, rfl, by simp, by simp, heq⟩, hb⟩
          · rw [hr1] at ht; simpa [decTail] using ht
          · have hsp' : allSpace (d :: r2) = true := by rw [← hr1]; simpa using hsp
            exact hsp'
  · rintro ⟨⟨ip, fr, r, point, ht', hr, hipd, hfrd, hp1, hp0, heq⟩, hb⟩
    have htw : t.takeWhile isDigit = ip := by rw [ht']; exact takeWhile_append_stop hipd (decTail_head_not_digit hr)
    have hdw : t.dropWhile isDigit = decTail point fr r := by rw [ht']; exact dropWhile_append_stop hipd (decTail_head_not_digit hr)
    unfold decBody
    simp only [htw, hdw]
    cases point
    · have hfr0 := hp0 rfl
      subst hfr0
      simp only [decTail, Bool.false_eq_true, if_false, List.nil_append]
      cases r with
      | nil => exact (hnofrac ip hipd).mpr ⟨heq, hb⟩
      | cons d r2 =>
        simp only
        have hdsp : isSpace d = true := by
          simp only [List.all_cons, Bool.and_eq_true] at hr; exact hr.1
        have hd46 : (d.toNat == 46) = false := by
          have := (isSpace_iff d).mp hdsp
          cases h : (d.toNat == 46)
          · rfl
          · simp at h; omega
        rw [hd46]
        simp only [Bool.false_and, Bool.false_eq_true, if_false]
        have : allSpace (d :: r2) = true := hr
        rw [this]
        simp only [Bool.not_true, Bool.false_eq_true, if_false]
        exact (hnofrac ip hipd).mpr ⟨heq, hb⟩
    · have hfrne := hp1 rfl
      simp only [decTail, if_true, List.cons_append]
      have hhead : ((fr ++ r).head?.map isDigit).getD false = true := by
        cases fr with
        | nil => exact absurd rfl hfrne
        | cons a f =>
          simp only [List.all_cons, Bool.and_eq_true] at hfrd
          simp [hfrd.1]
      have h46 : ((46 : UInt8).toNat == 46) = true := by decide
      simp only [h46, hhead, Bool.and_self, if_true]
      have htw2 : (fr ++ r).takeWhile isDigit = fr := takeWhile_append_stop hfrd (allSpace_head_not_digit hr)
      have hdw2 : (fr ++ r).dropWhile isDigit = r := dropWhile_append_stop hfrd (allSpace_head_not_digit hr)
      rw [htw2, hdw2]
      obtain ⟨z, hz, hlast⟩ := stripTrailingZeros_spec fr
      have hfrs := stripTrailingZeros_all_digit hfrd
      rw [hz] at heq
      have hle : (stripTrailingZeros fr).length ≤ fd := by
        cases Nat.lt_or_ge fd (stripTrailingZeros fr).length with
        | inl hgt => exact absurd heq (dec_equation_none hgt hfrs hlast)
        | inr h => exact h
      rw [if_neg (by omega)]
      have : allSpace r = true := hr
      rw [this]
      simp only [Bool.not_true, Bool.false_eq_true, if_false]
      exact (dec64_final hfd hs hipd hfrs k).mpr ⟨(dec_equation hle).mp heq, hb⟩

theorem parseDec64_ok_iff (nd : Bool) (fd : Nat) (hfd : 1 ≤ fd) (s : Bytes) (k : Int) :
    parseDec64With nd fd s = .ok k ↔ DecLexWs nd fd s k ∧ -(2 ^ 63) ≤ k ∧ k ≤ 2 ^ 63 - 1 := by
  constructor
  · intro h
    have hs : s = s.takeWhile isSpace ++ s.dropWhile isSpace := List.takeWhile_append_dropWhile.symm
    have hl := all_takeWhile isSpace s
    unfold parseDec64With at h
    simp only at h
    generalize s.takeWhile isSpace = l at hs hl
    generalize s.dropWhile isSpace = v at hs h
    cases v with
    | nil => cases h
    | cons c v' =>
      simp only at h
      split at h
      · cases h
      · rename_i hbad
        split at h
        · rename_i hsign
          by_cases hnd : (nd && !(v'.head?.map isDigit).getD false) = true
          · rw [if_pos hnd] at h; cases h
          rw [if_neg hnd] at h
          have hsg : IsSign [c] := by
            simp only [Bool.or_eq_true, beq_iff_eq] at hsign
            rcases hsign with h45 | h43
            · right; right; congr 1; rw [← UInt8.toNat_inj]; exact h45
            · right; left; congr 1; rw [← UInt8.toNat_inj]; exact h43
          obtain ⟨⟨ip, fr, r, point, ht, hr, hipd, hfrd, hp1, hp0, heq⟩, hb⟩ := (decBody_ok_iff fd hfd hsg _ k).mp h
          refine ⟨⟨l, [c], ip, fr, r, point, ?_, hl, hr, hsg, hipd, hfrd, hp1, hp0, ?_, heq⟩, hb⟩
          · rw [hs, ht]; simp [decTail]
          · cases nd
            · simp
            · simp only [if_true]
              -- the repaired code looked at the character after the sign: it is a digit, so `ip` is not empty
              intro hip0
              subst hip0
              simp only [Bool.true_and, Bool.not_eq_true', Bool.not_eq_true, Bool.not_eq_false, Bool.not_not] at hnd
              rw [ht, List.nil_append] at hnd
              cases hh : (decTail point fr r).head? with
              | none => rw [hh] at hnd; simp at hnd
              | some c' =>
                rw [hh] at hnd
                have := decTail_head_not_digit (point := point) (fr := fr) hr c' hh
                simp [this] at hnd
        · rename_i hsign
          have hsg : IsSign [] := Or.inl rfl
          obtain ⟨⟨ip, fr, r, point, ht, hr, hipd, hfrd, hp1, hp0, heq⟩, hb⟩ := (decBody_ok_iff fd hfd hsg _ k).mp h
          have hcd : isDigit c = true := by
            simp only [Bool.or_eq_true, beq_iff_eq, not_or] at hsign
            cases hc : isDigit c
            · exfalso; apply hbad
              simp [hc, hsign.1, hsign.2]
            · rfl
          refine ⟨⟨l, [], ip, fr, r, point, ?_, hl, hr, hsg, hipd, hfrd, hp1, hp0, ?_, heq⟩, hb⟩
          · rw [hs, ht]; simp [decTail]
          · have hgoal : ip ≠ [] := ?_
            · cases nd
              · exact Or.inl hgoal
              · exact hgoal
            intro hip0
            subst hip0
            have := decTail_head_not_digit (point := point) (fr := fr) hr c (by rw [List.nil_append] at ht; rw [← ht]; rfl)
            rw [hcd] at this; cases this
  · rintro ⟨⟨l, sg, ip, fr, r, point, hs', hl', hr, hsg, hipd, hfrd, hp1, hp0, hcond, heq⟩, hb⟩
    have hcond' : ip ≠ [] ∨ sg ≠ [] := by
      cases nd
      · simpa using hcond
      · exact Or.inl (by simpa using hcond)
    have hipnd : nd = true → ip ≠ [] := by
      intro h; subst h; simpa using hcond
    have hbody : ∀ sg', IsSign sg' → sg' = sg → decBody fd sg' (ip ++ decTail point fr r) = .ok k := by
      intro sg' hsg' he
      subst he
      exact (decBody_ok_iff fd hfd hsg' _ k).mpr ⟨⟨ip, fr, r, point, rfl, hr, hipd, hfrd, hp1, hp0, heq⟩, hb⟩
    have hv : s = l ++ (sg ++ (ip ++ decTail point fr r)) := by rw [hs']; simp [decTail]
    unfold parseDec64With
    rcases hsg with rfl | rfl | rfl
    · -- no sign: the integer part is not empty and starts with a digit
      have hipne : ip ≠ [] := by rcases hcond' with h | h; exact h; exact absurd rfl h
      cases ip with
      | nil => exact absurd rfl hipne
      | cons c ip' =>
        simp only [List.all_cons, Bool.and_eq_true] at hipd
        have hcd := hipd.1
        have hdrop : s.dropWhile isSpace = c :: (ip' ++ decTail point fr r) := by
          rw [hv]
          rw [dropWhile_append_stop hl']
          · simp
          · intro c' hc'; simp at hc'; subst hc'; exact digit_not_space hcd
        simp only [hdrop]
        have hc' := (isDigit_iff c).mp hcd
        have h1 : (!isDigit c && c.toNat != 45 && c.toNat != 43) = false := by simp [hcd]
        have h2 : (c.toNat == 45 || c.toNat == 43) = false := by
          simp only [Bool.or_eq_false_iff, beq_eq_false_iff_ne, ne_eq]; omega
        rw [h1, h2]
        simp only [Bool.false_eq_true, if_false]
        exact hbody [] (Or.inl rfl) rfl
    · have hdrop : s.dropWhile isSpace = 43 :: (ip ++ decTail point fr r) := by
        rw [hv, dropWhile_append_stop hl']
        · simp
        · intro c' hc'; simp at hc'; subst hc'; decide
      simp only [hdrop]
      have h1 : (!isDigit (43 : UInt8) && (43 : UInt8).toNat != 45 && (43 : UInt8).toNat != 43) = false := by decide
      have h2 : ((43 : UInt8).toNat == 45 || (43 : UInt8).toNat == 43) = true := by decide
      rw [h1, h2]
      simp only [Bool.false_eq_true, if_false, if_true]
      have hnd : (nd && !((ip ++ decTail point fr r).head?.map isDigit).getD false) = false := by
        cases hn : nd
        · rfl
        · have hne := hipnd hn
          cases ip with
          | nil => exact absurd rfl hne
          | cons a ip' =>
            simp only [List.all_cons, Bool.and_eq_true] at hipd
            simp [hipd.1]
      rw [if_neg (by rw [hnd]; simp)]
      exact hbody [43] (Or.inr (Or.inl rfl)) rfl
    · have hdrop : s.dropWhile isSpace = 45 :: (ip ++ decTail point fr r) := by
        rw [hv, dropWhile_append_stop hl']
        · simp
        · intro c' hc'; simp at hc'; subst hc'; decide
      simp only [hdrop]
      have h1 : (!isDigit (45 : UInt8) && (45 : UInt8).toNat != 45 && (45 : UInt8).toNat != 43) = false := by decide
      have h2 : ((45 : UInt8).toNat == 45 || (45 : UInt8).toNat == 43) = true := by decide
      rw [h1, h2]
      simp only [Bool.false_eq_true, if_false, if_true]
      have hnd : (nd && !((ip ++ decTail point fr r).head?.map isDigit).getD false) = false := by
        cases hn : nd
        · rfl
        · have hne := hipnd hn
          cases ip with
          | nil => exact absurd rfl hne
          | cons a ip' =>
            simp only [List.all_cons, Bool.and_eq_true] at hipd
            simp [hipd.1]
      rw [if_neg (by rw [hnd]; simp)]
      exact hbody [45] (Or.inr (Or.inr rfl)) rfl

end LyModel.Val
