import LyModel.Val.Inet
/-! lemmas about the IPv4 part of `Val/Inet.lean`: `inet_pton4` ∘ `inet_ntop4` = id, and `inet_pton4` accepts canonical text only -/
namespace LyModel.Val.Inet
open LyModel LyModel.Val

theorem digitCh_toNat (k : Nat) (h : k < 10) : (digitCh k).toNat = 48 + k := by
  simp only [digitCh, UInt8.toNat_ofNat']; omega

theorem isDigit_digitCh (k : Nat) (h : k < 10) : isDigit (digitCh k) = true := by
  simp only [isDigit, digitCh_toNat k h]; simp; omega

theorem digitCh_ne_dot (k : Nat) (h : k < 10) : (digitCh k == 46) = false := by
  have := digitCh_toNat k h
  rw [beq_eq_false_iff_ne]; intro e; rw [e] at this; simp at this; omega

/-- one digit of an octet: the loop goes on with `cur * 10 + k` -/
theorem pton4Loop_digit (k : Nat) (hk : k < 10) (rest done : Bytes) (cur : Nat) (saw : Bool)
    (h0 : ¬ (saw = true ∧ cur = 0)) (h255 : cur * 10 + k ≤ 255) (hd : done.length ≤ 3) :
    pton4Loop (digitCh k :: rest) done cur saw = pton4Loop rest done (cur * 10 + k) true := by
  rw [pton4Loop]
  simp only [isDigit_digitCh k hk, digitCh_toNat k hk, if_true]
  have e : 48 + k - 48 = k := by omega
  rw [e]
  have c1 : (saw && cur == 0) = false := by
    cases saw <;> simp_all
  have c3 : (!saw && decide (done.length ≥ 4)) = false := by
    have : decide (done.length ≥ 4) = false := by simp; omega
    simp [this]
  simp only [c1, c3, Bool.false_eq_true, if_false]
  have c2 : ¬ (cur * 10 + k > 255) := by omega
  simp only [c2, if_false]

/-- the printed octet read back -/
theorem pton4Loop_dec8 (n : Nat) (hn : n < 256) (rest done : Bytes) (hd : done.length ≤ 3) :
    pton4Loop (dec8 n ++ rest) done 0 false = pton4Loop rest done n true := by
  unfold dec8
  by_cases h1 : n < 10
  · simp only [h1, if_true, List.cons_append, List.nil_append]
    rw [pton4Loop_digit n h1 rest done 0 false (by simp) (by omega) hd]; simp
  · by_cases h2 : n < 100
    · simp only [h1, h2, if_true, if_false, List.cons_append, List.nil_append]
      rw [pton4Loop_digit (n / 10) (by omega) _ done 0 false (by simp) (by omega) hd]
      rw [pton4Loop_digit (n % 10) (by omega) rest done _ true (by omega) (by omega) hd]
      congr 1; omega
    · simp only [h1, h2, if_false, List.cons_append, List.nil_append]
      rw [pton4Loop_digit (n / 100) (by omega) _ done 0 false (by simp) (by omega) hd]
      rw [pton4Loop_digit (n / 10 % 10) (by omega) _ done _ true (by omega) (by omega) hd]
      rw [pton4Loop_digit (n % 10) (by omega) rest done _ true (by omega) (by omega) hd]
      congr 1; omega

theorem pton4Loop_dot (rest done : Bytes) (cur : Nat) (hd : done.length + 1 ≠ 4) :
    pton4Loop (46 :: rest) done cur true = pton4Loop rest (done ++ [UInt8.ofNat cur]) 0 false := by
  rw [pton4Loop]
  have : isDigit 46 = false := by decide
  have hd' : ¬ done.length = 3 := by omega
  simp [this, hd']

theorem ofNat_toNat8 (b : UInt8) : UInt8.ofNat b.toNat = b := by
  apply UInt8.toNat_inj.mp; simp

/-- `inet_pton(AF_INET, inet_ntop(AF_INET, a)) = a` for every four bytes -/
theorem pton4_ntop4 (a : Bytes) (h : a.length = 4) : pton4 (ntop4 a) = some a := by
  match a, h with
  | [a0, a1, a2, a3], _ =>
    have l0 := a0.toNat_lt; have l1 := a1.toNat_lt; have l2 := a2.toNat_lt; have l3 := a3.toNat_lt
    simp only [pton4, ntop4, List.getD_cons_zero, List.getD_cons_succ, List.append_assoc, List.cons_append, List.nil_append]
    rw [pton4Loop_dec8 _ (by omega) _ [] (by simp), pton4Loop_dot _ _ _ (by simp)]
    rw [pton4Loop_dec8 _ (by omega) _ _ (by simp), pton4Loop_dot _ _ _ (by simp)]
    rw [pton4Loop_dec8 _ (by omega) _ _ (by simp), pton4Loop_dot _ _ _ (by simp)]
    have := pton4Loop_dec8 a3.toNat (by omega) [] ([] ++ [UInt8.ofNat a0.toNat] ++ [UInt8.ofNat a1.toNat] ++ [UInt8.ofNat a2.toNat]) (by simp)
    rw [List.append_nil] at this
    rw [this, pton4Loop]
    simp

/-! ### `inet_pton4` accepts the canonical text only -/

/-- the text the loop has read when it is in state (`done`, `cur`, `saw`) -/
def pre4 (done : Bytes) (cur : Nat) (saw : Bool) : Bytes :=
  done.flatMap (fun b => dec8 b.toNat ++ [46]) ++ (if saw then dec8 cur else [])

theorem digitCh_of_isDigit (ch : UInt8) (h : isDigit ch = true) : ch = digitCh (ch.toNat - 48) ∧ ch.toNat - 48 < 10 := by
  simp only [isDigit, Bool.and_eq_true, decide_eq_true_eq] at h
  refine ⟨?_, by omega⟩
  apply UInt8.toNat_inj.mp
  rw [digitCh_toNat _ (by omega)]; omega

theorem dec8_snoc (cur d : Nat) (h1 : 1 ≤ cur) (hd : d < 10) (h : cur * 10 + d ≤ 255) :
    dec8 cur ++ [digitCh d] = dec8 (cur * 10 + d) := by
  unfold dec8
  by_cases c1 : cur < 10
  · have e1 : ¬ (cur * 10 + d < 10) := by omega
    have e2 : cur * 10 + d < 100 := by omega
    have e3 : (cur * 10 + d) / 10 = cur := by omega
    have e4 : (cur * 10 + d) % 10 = d := by omega
    simp [c1, e1, e2, e3, e4]
  · have c2 : cur < 100 := by omega
    have e1 : ¬ (cur * 10 + d < 10) := by omega
    have e2 : ¬ (cur * 10 + d < 100) := by omega
    have e3 : (cur * 10 + d) / 100 = cur / 10 := by omega
    have e4 : (cur * 10 + d) / 10 % 10 = cur % 10 := by omega
    have e5 : (cur * 10 + d) % 10 = d := by omega
    simp [c1, c2, e1, e2, e3, e4, e5]

theorem dec8_digit (d : Nat) (hd : d < 10) : dec8 d = [digitCh d] := by simp [dec8, hd]

theorem ofNat_toNat_of_lt (n : Nat) (h : n < 256) : (UInt8.ofNat n).toNat = n := by
  simp only [UInt8.toNat_ofNat']; omega

theorem pton4Loop_sound : ∀ (src done : Bytes) (cur : Nat) (saw : Bool) (a : Bytes),
    cur ≤ 255 → (saw = false → cur = 0) → done.length ≤ 3 → pton4Loop src done cur saw = some a →
    pre4 done cur saw ++ src = ntop4 a ∧ a.length = 4
  | [], done, cur, saw, a, hc, _, hd, h => by
    rw [pton4Loop] at h
    by_cases c : (saw && done.length == 3) = true
    · simp only [c, if_true, Option.some.injEq] at h
      simp only [Bool.and_eq_true, beq_iff_eq] at c
      obtain ⟨hs, hl⟩ := c
      subst h
      match done, hl with
      | [d0, d1, d2], _ =>
        simp [pre4, ntop4, hs, ofNat_toNat_of_lt cur (by omega)]
    · simp [c] at h
  | ch :: src, done, cur, saw, a, hc, hz, hd, h => by
    rw [pton4Loop] at h
    by_cases dg : isDigit ch = true
    · simp only [dg, if_true] at h
      obtain ⟨ech, hlt⟩ := digitCh_of_isDigit ch dg
      by_cases c1 : (saw && cur == 0) = true
      · simp [c1] at h
      · by_cases c2 : cur * 10 + (ch.toNat - 48) > 255
        · simp [c1, c2] at h
        · by_cases c3 : (!saw && decide (done.length ≥ 4)) = true
          · simp [c1, c2, c3] at h
          · simp only [c1, c2, c3, if_false, Bool.false_eq_true] at h
            have ih := pton4Loop_sound src done (cur * 10 + (ch.toNat - 48)) true a (by omega) (by simp) hd h
            refine ⟨?_, ih.2⟩
            rw [← ih.1]
            simp only [pre4, if_true, List.append_assoc]
            congr 1
            cases saw with
            | false =>
              have := hz rfl
              subst this
              simp only [Bool.false_eq_true, if_false, List.nil_append, Nat.zero_mul, Nat.zero_add]
              rw [dec8_digit _ hlt]; rw [← ech]; rfl
            | true =>
              have hne : cur ≠ 0 := by
                intro e; subst e; simp at c1
              simp only [if_true]
              rw [← dec8_snoc cur (ch.toNat - 48) (by omega) hlt (by omega), ← ech]; simp
    · have dg' : isDigit ch = false := by simpa using dg
      simp only [dg', Bool.false_eq_true, if_false] at h
      by_cases c : (ch == 46 && saw) = true
      · simp only [c, if_true] at h
        simp only [Bool.and_eq_true, beq_iff_eq] at c
        obtain ⟨e46, hs⟩ := c
        subst e46; subst hs
        by_cases c4 : done.length + 1 = 4
        · simp [c4] at h
        · simp only [beq_iff_eq, c4, if_false] at h
          have ih := pton4Loop_sound src (done ++ [UInt8.ofNat cur]) 0 false a (by omega) (by simp) (by simp; omega) h
          refine ⟨?_, ih.2⟩
          rw [← ih.1]
          simp [pre4, ofNat_toNat_of_lt cur (by omega)]
      · simp [c] at h

/-- `inet_pton4` accepts only what `inet_ntop4` prints: the four octets in decimal without leading zeros, separated by dots -/
theorem ntop4_of_pton4 (s a : Bytes) (h : pton4 s = some a) : ntop4 a = s ∧ a.length = 4 := by
  have := pton4Loop_sound s [] 0 false a (by omega) (by simp) (by simp) h
  exact ⟨by simpa [pre4] using this.1.symm, this.2⟩

/-- the two functions are inverse bijections between canonical texts and four-byte addresses -/
theorem pton4_eq_some_iff (s a : Bytes) : pton4 s = some a ↔ (a.length = 4 ∧ s = ntop4 a) :=
  ⟨fun h => ⟨(ntop4_of_pton4 s a h).2, (ntop4_of_pton4 s a h).1.symm⟩, fun ⟨hl, e⟩ => e ▸ pton4_ntop4 a hl⟩

end LyModel.Val.Inet
