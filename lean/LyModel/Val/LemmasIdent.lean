import LyModel.Val.LemmasOrder
import LyModel.Val.LemmasBasic
import LyModel.Val.Ident
/-! Lemmas about the identityref model (`Val/Ident.lean`): the derived-from relation and the recursion that decides it, the store
    function, canonical form, compare / sort. -/
namespace LyModel.Val.Ident
open LyModel LyModel.Val

/-- `d` names `b` in one of its `base` statements -/
def Direct (c : IdCtx) (b d : Ident) : Prop := ∃ df ∈ c.defs, df.id = d ∧ b ∈ df.bases

/-- "derived from" (RFC 7950 §7.18.2): the transitive closure of `Direct` -/
inductive Derived (c : IdCtx) : Ident → Ident → Prop
  | direct {b d : Ident} : Direct c b d → Derived c b d
  | step {b x d : Ident} : Direct c b x → Derived c x d → Derived c b d

/-- the identity definitions are acyclic (YANG refuses cycles): some rank below the number of identities grows along every `base`
    statement — e.g. the position in an order in which bases come first -/
def IdCtx.WF (c : IdCtx) : Prop :=
  ∃ rank : Ident → Nat, (∀ df ∈ c.defs, rank df.id < c.defs.length) ∧ ∀ df ∈ c.defs, ∀ b ∈ df.bases, rank b < rank df.id

theorem mem_children {c : IdCtx} {b x : Ident} : x ∈ children c b ↔ Direct c b x := by
  unfold children Direct
  simp only [List.mem_map, List.mem_filter, List.contains_iff_mem]
  constructor
  · rintro ⟨df, ⟨hm, hb⟩, rfl⟩; exact ⟨df, hm, rfl, hb⟩
  · rintro ⟨df, hm, rfl, hb⟩; exact ⟨df, ⟨hm, hb⟩, rfl⟩

theorem isDerivedF_sound (c : IdCtx) : ∀ (f : Nat) (b d : Ident), isDerivedF c f b d = true → Derived c b d
  | 0, _, _, h => by simp [isDerivedF] at h
  | f + 1, b, d, h => by
    simp only [isDerivedF, List.any_eq_true, Bool.or_eq_true, beq_iff_eq] at h
    obtain ⟨x, hx, h⟩ := h
    rcases h with rfl | h
    · exact .direct (mem_children.mp hx)
    · exact .step (mem_children.mp hx) (isDerivedF_sound c f x d h)

theorem derived_rank {c : IdCtx} {rank : Ident → Nat} (hr : ∀ df ∈ c.defs, ∀ b ∈ df.bases, rank b < rank df.id) {b d : Ident}
    (h : Derived c b d) : rank b < rank d := by
  induction h with
  | direct hd => obtain ⟨df, hm, rfl, hb⟩ := hd; exact hr df hm _ hb
  | step hd _ ih => obtain ⟨df, hm, rfl, hb⟩ := hd; exact Nat.lt_trans (hr df hm _ hb) ih

theorem derived_lt_length {c : IdCtx} {rank : Ident → Nat} (hl : ∀ df ∈ c.defs, rank df.id < c.defs.length) {b d : Ident}
    (h : Derived c b d) : rank d < c.defs.length := by
  induction h with
  | direct hd => obtain ⟨df, hm, rfl, _⟩ := hd; exact hl df hm
  | step _ _ ih => exact ih

theorem isDerivedF_complete {c : IdCtx} {rank : Ident → Nat} (hl : ∀ df ∈ c.defs, rank df.id < c.defs.length)
    (hr : ∀ df ∈ c.defs, ∀ b ∈ df.bases, rank b < rank df.id) {b d : Ident} (h : Derived c b d) :
    ∀ f, c.defs.length ≤ f + rank b → isDerivedF c f b d = true := by
  induction h with
  | @direct b d hd =>
    intro f hf
    have h1 : rank b < rank d := derived_rank hr (.direct hd)
    have h2 : rank d < c.defs.length := derived_lt_length hl (.direct hd)
    cases f with
    | zero => omega
    | succ f =>
      simp only [isDerivedF, List.any_eq_true, Bool.or_eq_true, beq_iff_eq]
      exact ⟨d, mem_children.mpr hd, Or.inl rfl⟩
  | @step b x d hd hrest ih =>
    intro f hf
    have h1 : rank b < rank x := derived_rank hr (.direct hd)
    have h2 : rank x < c.defs.length := by
      obtain ⟨df, hm, rfl, _⟩ := hd; exact hl df hm
    cases f with
    | zero => omega
    | succ f =>
      simp only [isDerivedF, List.any_eq_true, Bool.or_eq_true, beq_iff_eq]
      exact ⟨x, mem_children.mpr hd, Or.inr (ih f (by omega))⟩

theorem isDerived_iff' {c : IdCtx} (hwf : c.WF) (b d : Ident) : isDerived c b d = true ↔ Derived c b d := by
  obtain ⟨rank, hl, hr⟩ := hwf
  constructor
  · exact isDerivedF_sound c _ b d
  · intro h; exact isDerivedF_complete hl hr h _ (Nat.le_add_right _ _)

/-- more fuel changes nothing -/
theorem isDerivedF_fuel {c : IdCtx} (hwf : c.WF) (b d : Ident) (f : Nat) (hf : c.defs.length ≤ f) :
    isDerivedF c f b d = isDerived c b d := by
  obtain ⟨rank, hl, hr⟩ := hwf
  cases h : isDerived c b d with
  | true => exact isDerivedF_complete hl hr (isDerivedF_sound c _ b d h) f (by omega)
  | false =>
    cases h2 : isDerivedF c f b d with
    | false => rfl
    | true =>
      have := isDerivedF_complete hl hr (isDerivedF_sound c f b d h2) c.defs.length (Nat.le_add_right _ _)
      unfold isDerived at h
      rw [h] at this; cases this

/-! ### store -/

theorem checkBase_iff {c : IdCtx} (hwf : c.WF) (ab : Bool) (bases : List Ident) (d : Ident) :
    checkBase ab c bases d = true ↔ if ab = true then ∀ b ∈ bases, Derived c b d else ∃ b ∈ bases, Derived c b d := by
  unfold checkBase
  cases ab
  · simp only [Bool.false_eq_true, if_false, List.any_eq_true, isDerived_iff' hwf]
  · simp only [if_true, List.all_eq_true, isDerived_iff' hwf]

theorem find_id {c : IdCtx} {m name : Bytes} {df : IdDef}
    (h : (c.defs.find? fun d => d.id.mod == m && d.id.name == name) = some df) : df ∈ c.defs ∧ df.id = ⟨m, name⟩ := by
  have h1 := List.find?_some h
  have h2 := List.mem_of_find?_eq_some h
  simp only [Bool.and_eq_true, beq_iff_eq] at h1
  refine ⟨h2, ?_⟩
  cases df with | mk id bases => cases id with | mk mod nm => simp only at h1; rw [h1.1, h1.2]

theorem find_none {c : IdCtx} {m name : Bytes}
    (h : (c.defs.find? fun d => d.id.mod == m && d.id.name == name) = none) : ¬ ∃ df ∈ c.defs, df.id = ⟨m, name⟩ := by
  rintro ⟨df, hm, hid⟩
  have := List.find?_eq_none.mp h df hm
  rw [hid] at this
  simp at this

theorem storeIdWith_ok_iff {c : IdCtx} (hwf : c.WF) (ab : Bool) (bases : List Ident) (pm : PrefixMap) (hints : Nat) (s : Bytes) (i : Ident) :
    storeIdWith ab c bases pm hints s = .ok i ↔
      (checkHints hints "ident").isSome = true ∧ (splitPrefix s).2 ≠ [] ∧ resolve pm (splitPrefix s).1 = some i.mod ∧
      i.name = (splitPrefix s).2 ∧ (∃ df ∈ c.defs, df.id = i) ∧ i ∉ c.disabled ∧
      (if ab = true then ∀ b ∈ bases, Derived c b i else ∃ b ∈ bases, Derived c b i) := by
  unfold storeIdWith
  cases hh : checkHints hints "ident" with
  | none =>
    simp only [Option.isSome_none, Bool.false_eq_true, false_and, iff_false]
    intro h; cases h
  | some _ =>
    simp only [Option.isSome_some, true_and]
    cases hsp : splitPrefix s with | mk pfx name =>
    simp only
    by_cases hn : name.isEmpty = true
    · rw [if_pos hn]
      have : name = [] := List.isEmpty_iff.mp hn
      simp only [this, ne_eq, not_true_eq_false, false_and, iff_false]
      intro h; cases h
    · rw [if_neg hn]
      have hne : name ≠ [] := fun h => hn (List.isEmpty_iff.mpr h)
      cases hr : resolve pm pfx with
      | none =>
        simp only [ne_eq, hne, not_false_eq_true, true_and, reduceCtorEq, false_and]
      | some m =>
        simp only
        cases hf : (c.defs.find? fun d => d.id.mod == m && d.id.name == name) with
        | none =>
          simp only
          constructor
          · intro h; cases h
          · rintro ⟨_, hm, hnm, ⟨df, hdm, hid⟩, _⟩
            exfalso
            apply find_none hf
            refine ⟨df, hdm, ?_⟩
            rw [hid]; cases i; simp only at hm hnm
            injection hm with hm
            rw [hm, hnm]
        | some df =>
          obtain ⟨hdm, hid⟩ := find_id hf
          simp only
          have hidi : ∀ {hm : some m = some i.mod} {hnm : i.name = name}, df.id = i := by
            intro hm hnm
            rw [hid]; cases i; simp only at hm hnm
            injection hm with hm
            rw [hm, hnm]
          by_cases hdis : c.disabled.contains df.id = true
          · rw [if_pos hdis]
            constructor
            · intro h; cases h
            · rintro ⟨_, hm, hnm, _, hnd, _⟩
              exfalso
              apply hnd
              rw [← @hidi hm hnm]
              exact List.contains_iff_mem.mp hdis
          · rw [if_neg hdis]
            have hnd : df.id ∉ c.disabled := fun h => hdis (List.contains_iff_mem.mpr h)
            by_cases hcb : checkBase ab c bases df.id = true
            · rw [if_pos hcb]
              constructor
              · intro h
                injection h with h
                subst h
                rw [hid]
                refine ⟨hne, rfl, rfl, ⟨df, hdm, hid⟩, ?_, ?_⟩
                · rw [← hid]; exact hnd
                · rw [← hid]; exact (checkBase_iff hwf ab bases df.id).mp hcb
              · rintro ⟨_, hm, hnm, _, _, _⟩
                rw [@hidi hm hnm]
            · rw [if_neg hcb]
              constructor
              · intro h; cases h
              · rintro ⟨_, hm, hnm, _, _, hder⟩
                exfalso
                apply hcb
                rw [checkBase_iff hwf, @hidi hm hnm]
                exact hder

/-! ### canonical form -/

theorem takeWhile_no_colon {m rest : Bytes} (h : (58 : UInt8) ∉ m) : (m ++ 58 :: rest).takeWhile (· != 58) = m := by
  apply takeWhile_append_stop
  · rw [List.all_eq_true]
    intro x hx
    simp only [bne_iff_ne, ne_eq]
    intro he; rw [he] at hx; exact h hx
  · intro c hc
    simp only [List.head?_cons, Option.some.injEq] at hc
    subst hc
    rfl

theorem splitPrefix_canon {i : Ident} (h : (58 : UInt8) ∉ i.mod) : splitPrefix (canonId i) = (some i.mod, i.name) := by
  unfold splitPrefix canonId
  simp only [takeWhile_no_colon h]
  have : i.mod.length < (i.mod ++ 58 :: i.name).length := by simp
  rw [if_pos this]
  simp

theorem canonId_injective {a b : Ident} (ha : (58 : UInt8) ∉ a.mod) (hb : (58 : UInt8) ∉ b.mod) (h : canonId a = canonId b) : a = b := by
  have h1 := splitPrefix_canon ha
  rw [h, splitPrefix_canon hb] at h1
  injection h1 with hm hn
  injection hm with hm
  cases a; cases b; simp only at hm hn; rw [hm, hn]

/-! ### sort -/

theorem sortIdWith_false_zero (a b : Ident) : sortIdWith false a b = 0 ↔ a.name = b.name := by
  simp only [sortIdWith, Bool.false_and, Bool.false_eq_true, if_false]
  exact strcmp_zero _ _

theorem sortIdWith_true_zero (a b : Ident) : sortIdWith true a b = 0 ↔ a = b := by
  simp only [sortIdWith, Bool.true_and, beq_iff_eq]
  by_cases h : strcmp a.name b.name = 0
  · rw [if_pos h, strcmp_zero]
    rw [strcmp_zero] at h
    constructor
    · intro hm; cases a; cases b; simp only at h hm; rw [h, hm]
    · intro he; rw [he]
  · rw [if_neg h]
    constructor
    · intro h0; exact absurd h0 h
    · intro he; rw [he, strcmp_zero] at h; exact absurd rfl h

theorem sortIdWith_antisymm (bm : Bool) (a b : Ident) : sortIdWith bm a b = -sortIdWith bm b a := by
  simp only [sortIdWith]
  have hn := strcmp_antisymm a.name b.name
  have hm := strcmp_antisymm a.mod b.mod
  cases bm
  · simpa using hn
  · simp only [Bool.true_and, beq_iff_eq]
    by_cases h : strcmp a.name b.name = 0
    · have h' : strcmp b.name a.name = 0 := by omega
      rw [if_pos h, if_pos h']; exact hm
    · have h' : ¬ strcmp b.name a.name = 0 := by omega
      rw [if_neg h, if_neg h']; exact hn

theorem strcmp_lt_trans {a b c : Bytes} (h1 : strcmp a b ≤ 0) (h2 : strcmp b c ≤ 0) (hs : strcmp a b < 0 ∨ strcmp b c < 0) : strcmp a c < 0 := by
  have ht := strcmp_trans a b c h1 h2
  rcases Int.lt_or_eq_of_le ht with h | h
  · exact h
  · rw [strcmp_zero] at h
    subst h
    have := strcmp_antisymm a b
    have h3 : strcmp a b = 0 := by omega
    have h4 : strcmp b a = 0 := by omega
    omega

theorem sortIdWith_trans (bm : Bool) (a b c : Ident) (h1 : sortIdWith bm a b ≤ 0) (h2 : sortIdWith bm b c ≤ 0) : sortIdWith bm a c ≤ 0 := by
  cases bm
  · simp only [sortIdWith, Bool.false_and, Bool.false_eq_true, if_false] at *
    exact strcmp_trans _ _ _ h1 h2
  · simp only [sortIdWith, Bool.true_and, beq_iff_eq] at *
    by_cases hab : strcmp a.name b.name = 0
    · rw [if_pos hab] at h1
      have eab := (strcmp_zero _ _).mp hab
      by_cases hbc : strcmp b.name c.name = 0
      · rw [if_pos hbc] at h2
        have ebc := (strcmp_zero _ _).mp hbc
        have : strcmp a.name c.name = 0 := by rw [eab, ebc]; exact (strcmp_zero _ _).mpr rfl
        rw [if_pos this]
        exact strcmp_trans _ _ _ h1 h2
      · rw [if_neg hbc] at h2
        have : strcmp a.name c.name = strcmp b.name c.name := by rw [eab]
        rw [this, if_neg hbc]; exact h2
    · rw [if_neg hab] at h1
      by_cases hbc : strcmp b.name c.name = 0
      · rw [if_pos hbc] at h2
        have ebc := (strcmp_zero _ _).mp hbc
        have : strcmp a.name c.name = strcmp a.name b.name := by rw [ebc]
        rw [this, if_neg hab]; exact h1
      · rw [if_neg hbc] at h2
        have hlt := strcmp_lt_trans h1 h2 (Or.inl (by omega))
        have : ¬ strcmp a.name c.name = 0 := by omega
        rw [if_neg this]; omega

end LyModel.Val.Ident
