import LyModel.Val.LemmasInet4
import LyModel.Val.LemmasOrder
set_option linter.unusedSimpArgs false
/-! lemmas about the plug-in part of `Val/Inet.lean`: host-bit masking, order, LYB form, the conversion step -/
namespace LyModel.Val.Inet
open LyModel LyModel.Val

/-! ### host bits -/

theorem zeroHost_length : ∀ (p : Nat) (a : Bytes), (zeroHost p a).length = a.length
  | _, [] => rfl
  | p, b :: r => by simp [zeroHost, zeroHost_length (p - 8) r]

theorem and_and_self8 (b m : UInt8) : (b &&& m) &&& m = b &&& m := by
  rw [UInt8.and_assoc, UInt8.and_self]

theorem zeroHost_idem : ∀ (p : Nat) (a : Bytes), zeroHost p (zeroHost p a) = zeroHost p a
  | _, [] => rfl
  | p, b :: r => by simp [zeroHost, and_and_self8, zeroHost_idem (p - 8) r]

theorem maskByte_ge8 (k : Nat) (h : 8 ≤ k) : maskByte k = 255 := by simp [maskByte, h]

theorem and_255 (b : UInt8) : b &&& 255 = b := by
  apply UInt8.toNat_inj.mp
  simp only [UInt8.toNat_and]
  have := b.toNat_lt
  show b.toNat &&& 255 = b.toNat
  have e : (255 : Nat) = 2 ^ 8 - 1 := by decide
  rw [e, Nat.and_two_pow_sub_one_eq_mod]; omega

/-- a prefix length that covers the whole address keeps every bit -/
theorem zeroHost_full : ∀ (a : Bytes) (p : Nat), 8 * a.length ≤ p → zeroHost p a = a
  | [], _, _ => rfl
  | b :: r, p, h => by
    simp only [List.length_cons] at h
    simp [zeroHost, maskByte_ge8 p (by omega), and_255, zeroHost_full r (p - 8) (by omega)]

theorem maskByte_zero : maskByte 0 = 0 := by decide

/-- prefix length 0 clears every bit -/
theorem zeroHost_zero : ∀ (a : Bytes), zeroHost 0 a = List.replicate a.length 0
  | [] => rfl
  | b :: r => by simp [zeroHost, maskByte_zero, zeroHost_zero r, List.replicate_succ]

/-! ### `ly_strnchr` -/

theorem tw_dw (c : UInt8) : ∀ s : Bytes, c ∈ s →
    s = s.takeWhile (· != c) ++ c :: (s.dropWhile (· != c)).drop 1 ∧ c ∉ s.takeWhile (· != c)
  | [], h => by simp at h
  | x :: r, h => by
    by_cases e : x = c
    · subst e; simp [List.takeWhile_cons, List.dropWhile_cons]
    · have hr : c ∈ r := by
        rcases List.mem_cons.mp h with h1 | h1
        · exact absurd h1.symm e
        · exact h1
      have ih := tw_dw c r hr
      have hx : (x != c) = true := by simpa using e
      simp only [List.takeWhile_cons, List.dropWhile_cons, hx, if_true, List.cons_append, List.mem_cons, not_or]
      exact ⟨by rw [← ih.1], fun e' => e e'.symm, ih.2⟩

theorem splitAt_spec (c : UInt8) (s a z : Bytes) (h : splitAt c s = some (a, z)) : s = a ++ c :: z ∧ c ∉ a := by
  unfold splitAt at h
  by_cases hc : s.contains c = true
  · rw [if_pos hc] at h
    simp only [Option.some.injEq, Prod.mk.injEq] at h
    obtain ⟨ha, hz⟩ := h
    subst ha; subst hz
    exact tw_dw c s (by simpa using hc)
  · rw [if_neg hc] at h; exact absurd h (by simp)

theorem splitAt_none (c : UInt8) (s : Bytes) (h : c ∉ s) : splitAt c s = none := by
  unfold splitAt
  have : ¬ (s.contains c = true) := by simpa using h
  rw [if_neg this]

theorem tw_all (c : UInt8) : ∀ (l r : Bytes), c ∉ l →
    (l ++ c :: r).takeWhile (· != c) = l ∧ (l ++ c :: r).dropWhile (· != c) = c :: r
  | [], r, _ => by simp [List.takeWhile_cons, List.dropWhile_cons]
  | x :: l, r, h => by
    have hx : (x != c) = true := by
      simp only [bne_iff_ne, ne_eq]; intro e; exact h (by simp [e])
    have ih := tw_all c l r (fun hh => h (List.mem_cons_of_mem _ hh))
    simp [List.takeWhile_cons, List.dropWhile_cons, hx, ih.1, ih.2]

theorem splitAt_append (c : UInt8) (l r : Bytes) (h : c ∉ l) : splitAt c (l ++ c :: r) = some (l, r) := by
  unfold splitAt
  have hc : (l ++ c :: r).contains c = true := by simp
  rw [if_pos hc, (tw_all c l r h).1, (tw_all c l r h).2]; simp

theorem cstr_of_no_nul : ∀ (l : Bytes), (0 : UInt8) ∉ l → cstr l = l
  | [], _ => rfl
  | x :: l, h => by
    have hx : (x != 0) = true := by
      simp only [bne_iff_ne, ne_eq]; intro e; exact h (by simp [e])
    have ih := cstr_of_no_nul l (fun hh => h (List.mem_cons_of_mem _ hh))
    unfold cstr at ih ⊢
    simp [List.takeWhile_cons, hx, ih]

/-! ### order -/

theorem memcmp_refl : ∀ (a : Bytes), memcmp a a = 0
  | [] => by simp [memcmp]
  | x :: r => by simp [memcmp, memcmp_refl r]

theorem strcmp_refl (a : Bytes) : strcmp a a = 0 := (strcmp_zero a a).mpr rfl

/-! ### sizes -/

theorem wordBytes_length (v : Nat) : (wordBytes v).length = 2 := rfl

theorem pton6Loop_len : ∀ (src curtok out : Bytes) (cp : Option Nat) (xd val : Nat) (r : Bytes × Option Nat × Nat × Nat),
    out.length ≤ 16 → pton6Loop src curtok out cp xd val = some r → r.1.length ≤ 16
  | [], _, out, cp, xd, val, r, ho, h => by
    simp only [pton6Loop, Option.some.injEq] at h; subst h; exact ho
  | ch :: src, curtok, out, cp, xd, val, r, ho, h => by
    rw [pton6Loop] at h
    split at h
    · split at h
      · exact absurd h (by simp)
      · split at h
        · exact absurd h (by simp)
        · exact pton6Loop_len src curtok out cp _ _ r ho h
    · split at h
      · split at h
        · split at h
          · exact absurd h (by simp)
          · exact pton6Loop_len src src out _ 0 val r ho h
        · split at h
          · exact absurd h (by simp)
          · split at h
            · exact absurd h (by simp)
            · rename_i hlen
              exact pton6Loop_len src src (out ++ wordBytes val) cp 0 0 r (by simp [wordBytes_length] at hlen ⊢; omega) h
      · split at h
        · rename_i hq
          split at h
          · rename_i q hp4
            simp only [Option.some.injEq] at h; subst h
            have := (ntop4_of_pton4 curtok q hp4).2
            simp only [Bool.and_eq_true, decide_eq_true_eq] at hq
            simp [this]; omega
          · exact absurd h (by simp)
        · exact absurd h (by simp)

theorem pton6Finish_len (st : Bytes × Option Nat × Nat × Nat) (a : Bytes) (hl : st.1.length ≤ 16) (h : pton6Finish st = some a) :
    a.length = 16 := by
  obtain ⟨out, cp, xd, val⟩ := st
  simp only [pton6Finish] at h
  split at h
  · exact absurd h (by simp)
  · rename_i hg
    have hg' : ¬ (xd > 0 ∧ out.length + 2 > 16) := by simpa using hg
    have h1 : (if xd > 0 then out ++ wordBytes val else out).length ≤ 16 := by
      by_cases c : xd > 0
      · simp only [c, if_true, List.length_append, wordBytes_length]
        have : ¬ out.length + 2 > 16 := fun h' => hg' ⟨c, h'⟩
        omega
      · simp only [c, if_false]; exact hl
    generalize (if xd > 0 then out ++ wordBytes val else out) = out1 at h h1
    cases cp with
    | none =>
      simp only at h
      split at h
      · rename_i e; simp only [Option.some.injEq] at h; subst h; simpa using e
      · exact absurd h (by simp)
    | some k =>
      simp only at h
      split at h
      · exact absurd h (by simp)
      · simp only [Option.some.injEq] at h; subst h
        simp only [List.length_append, List.length_take, List.length_replicate, List.length_drop]
        omega

/-- `inet_pton(AF_INET6)` fills exactly sixteen bytes -/
theorem pton6_length (s a : Bytes) (h : pton6 s = some a) : a.length = 16 := by
  cases s with
  | nil => simp [pton6] at h
  | cons c r =>
    simp only [pton6] at h
    split at h
    · exact absurd h (by simp)
    · generalize (if (c == 58) = true then r else c :: r) = src at h
      cases hst : pton6Loop src src [] none 0 0 with
      | none => simp [hst] at h
      | some st =>
        simp only [hst] at h
        exact pton6Finish_len st a (pton6Loop_len _ _ [] none 0 0 st (by simp) hst) h

theorem pton_length (t : ITy) (hs : t.size = 4 ∨ t.size = 16) (s a : Bytes) (h : pton t s = some a) : a.length = t.size := by
  unfold pton at h
  rcases hs with e | e
  · rw [e] at h ⊢; simp only [beq_self_eq_true, if_true] at h; exact (ntop4_of_pton4 s a h).2
  · rw [e] at h ⊢
    have : ((16 : Nat) == 4) = false := by decide
    simp only [this, Bool.false_eq_true, if_false] at h; exact pton6_length s a h

theorem strntou8_lt (l : Bytes) : (strntou8 l).getD 0 < 256 := by
  unfold strntou8
  by_cases h1 : l.length > 3
  · simp [h1]
  · by_cases h2 : l.all isDigit = true
    · simp only [h1, h2, if_true, if_false]
      by_cases h3 : List.foldl (fun acc c => acc * 10 + (c.toNat - 48)) 0 l > 255
      · simp [h3]
      · simp [h3]; omega
    · simp [h1, h2]

/-! ### order of the zones -/

theorem ofNat8_inj (x y : Nat) (hx : x < 256) (hy : y < 256) (h : UInt8.ofNat x = UInt8.ofNat y) : x = y := by
  have := congrArg UInt8.toNat h
  rwa [ofNat_toNat_of_lt x hx, ofNat_toNat_of_lt y hy] at this

theorem zoneOrd_antisymm (a b : Option Bytes) : zoneOrd a b = -zoneOrd b a := by
  cases a <;> cases b <;> first | rfl | exact strcmp_antisymm _ _

theorem zoneOrd_trans (a b c : Option Bytes) (h1 : zoneOrd a b ≤ 0) (h2 : zoneOrd b c ≤ 0) : zoneOrd a c ≤ 0 := by
  cases a <;> cases b <;> cases c <;> simp_all [zoneOrd]
  · rename_i x y z; exact strcmp_trans x y z h1 h2

end LyModel.Val.Inet
