import LyModel.Val.Model
import LyModel.Val.Spec
/-! `lyplg_type_validate_range` on an ascending disjoint part list decides membership in the union. -/
set_option linter.unusedSimpArgs false
namespace LyModel.Val
open LyModel

theorem PartsWF.tail {lo hi : Int} {p : Int × Int} {rest : List (Int × Int)} (h : PartsWF lo hi (p :: rest)) : PartsWF lo hi rest := by
  cases rest with
  | nil => trivial
  | cons q r => obtain ⟨a, b⟩ := p; obtain ⟨c, d⟩ := q; exact h.2.2.2

/-- in a well-formed list every part starts at or after the first one and lies inside the bounds -/
theorem PartsWF.all_ge {lo hi : Int} : ∀ {parts : List (Int × Int)} {a b : Int}, PartsWF lo hi ((a, b) :: parts) →
    ∀ p ∈ (a, b) :: parts, a ≤ p.1 ∧ p.1 ≤ p.2 ∧ lo ≤ p.1 ∧ p.2 ≤ hi
  | [], a, b, h, p, hp => by
    simp at hp; subst hp
    obtain ⟨h1, h2, h3⟩ := h
    exact ⟨Int.le_refl _, h2, h1, h3⟩
  | (c, d) :: rest, a, b, h, p, hp => by
    obtain ⟨h1, h2, h3, h4⟩ := h
    rcases List.mem_cons.mp hp with rfl | hp'
    · have := PartsWF.all_ge h4 (c, d) (List.mem_cons_self)
      exact ⟨Int.le_refl _, h2, h1, by simp at this ⊢; omega⟩
    · have := PartsWF.all_ge h4 p hp'
      exact ⟨by omega, this.2.1, this.2.2.1, this.2.2.2⟩

theorem validateRange_signed_iff {lo hi : Int} : ∀ (parts : List (Int × Int)) (v : Int), PartsWF lo hi parts →
    (validateRange false parts v = true ↔ InParts parts v)
  | [], v, _ => by simp [validateRange, InParts]
  | [(a, b)], v, h => by
    simp only [validateRange, InParts, Bool.false_eq_true, if_false, List.isEmpty_nil, if_true]
    by_cases h1 : v < a
    · simp [h1] <;> omega
    · by_cases h2 : v ≤ b
      · simp [h1, h2] <;> omega
      · simp [h1, h2] <;> omega
  | (a, b) :: (c, d) :: rest, v, h => by
    have ih := validateRange_signed_iff ((c, d) :: rest) v h.2.2.2
    have hge := PartsWF.all_ge h.2.2.2
    obtain ⟨h1, h2, h3, h4⟩ := h
    rw [validateRange]
    simp only [Bool.false_eq_true, if_false, List.isEmpty_cons]
    by_cases hlt : v < a
    · simp only [hlt, decide_true, if_true, Bool.false_eq_true, false_iff]
      rintro (hnil | ⟨p, hp, hp1, hp2⟩)
      · cases hnil
      · rcases List.mem_cons.mp hp with rfl | hp'
        · simp at hp1; omega
        · have := hge p hp'; omega
    · by_cases hle : v ≤ b
      · simp only [hlt, hle, decide_false, decide_true, if_true, Bool.false_eq_true, if_false, true_iff]
        exact Or.inr ⟨(a, b), List.mem_cons_self, by simp; omega, by simpa using hle⟩
      · simp only [hlt, hle, decide_false, Bool.false_eq_true, if_false]
        rw [ih]
        constructor
        · rintro (hnil | ⟨p, hp, hp1, hp2⟩)
          · cases hnil
          · exact Or.inr ⟨p, List.mem_cons_of_mem _ hp, hp1, hp2⟩
        · rintro (hnil | ⟨p, hp, hp1, hp2⟩)
          · cases hnil
          · rcases List.mem_cons.mp hp with rfl | hp'
            · simp at hp2; omega
            · exact Or.inr ⟨p, hp', hp1, hp2⟩

theorem u64_id {v : Int} (h0 : 0 ≤ v) (h1 : v < 2 ^ 64) : u64 v = v := by
  unfold u64; exact Int.emod_eq_of_lt h0 h1

/-- inside `[0, 2⁶⁴)` the unsigned branch makes the same decisions as the signed one -/
theorem validateRange_unsigned_eq {lo hi : Int} (hlo : 0 ≤ lo) (hhi : hi < 2 ^ 64) : ∀ (parts : List (Int × Int)) (v : Int),
    PartsWF lo hi parts → 0 ≤ v → v < 2 ^ 64 → validateRange true parts v = validateRange false parts v
  | [], _, _, _, _ => rfl
  | (a, b) :: rest, v, h, h0, h1 => by
    have hab := PartsWF.all_ge h (a, b) List.mem_cons_self
    simp only at hab
    have ih := validateRange_unsigned_eq hlo hhi rest v h.tail h0 h1
    rw [validateRange, validateRange]
    simp only [if_true, Bool.false_eq_true, if_false]
    rw [u64_id h0 h1, u64_id (by omega : 0 ≤ a) (by omega), u64_id (by omega : 0 ≤ b) (by omega), ih]

end LyModel.Val
