import LyModel.Val.Union
import LyModel.Generated.ValHex
/-!
# `hex-string`, `mac-address`, `phys-address`, `uuid` of ietf-yang-types (component `Val`, property C03)

Executable model of `plugins_types/hex_string.c` (`lyplg_type_store_hex_string`, registered for the four typedefs; compare / sort /
print / duplicate are the `_simple` callbacks of `plugins_types.c`):

* hints check (`lyplg_type_check_hints` for the base type `string`);
* `strndup(value, value_len)`: the copy ends at the first NUL byte of the value;
* every byte of the copy through `tolower` ("C" locale: only `A`–`Z` change, bytes ≥ 0x80 are left alone); the lower-cased copy is the
  canonical value (`lydict_insert_zc`);
* unless `LYPLG_TYPE_STORE_ONLY`: the length restriction in characters (`ly_utf8len`), then `lyplg_type_validate_patterns` over the
  compiled pattern array — both on the LOWER-CASED value.  There is no `string_check_chars` call: a value that is not UTF-8 reaches
  PCRE2, whose patterns are compiled with `PCRE2_UTF`; `pcre2_match` then checks the subject first and answers
  `PCRE2_ERROR_UTF8_ERR…`, which `ly_pattern_code_match` turns into `LY_ESYS` with the PCRE2 text "UTF-8 error: …" (`PcreUtf8`),
  whatever the pattern is.  With an empty pattern array nothing looks at the bytes.
* `lyplg_type_compare_simple`: same canonical string (same dictionary pointer); `lyplg_type_sort_simple`: `strcmp`;
  `lyplg_type_print_simple`: the canonical string for every format, so the LYB form is the string; storing from LYB is the same
  function (the format only matters for `LY_VALUE_CANON`), an upper-case LYB value is lower-cased as well.

The matcher is the specification matcher of `XsdRe` (as for `storePStr`); the patterns and lengths of the four typedefs are read from
`models/ietf-yang-types@2013-07-15.yang` (`Generated/ValHex.lean`).  Core Lean only (linked into `lydrv`).
-/
namespace LyModel.Val.HexStr
open LyModel LyModel.Val

/-- error kinds of the plug-in -/
inductive HErr
  | Hint        -- `lyplg_type_check_hints`
  | Length      -- "Unsatisfied length"
  | PcreUtf8    -- `LY_ESYS`, "UTF-8 error: …" of `pcre2_match`
  | Pattern     -- "Unsatisfied pattern"
  deriving DecidableEq, Repr

def HErr.name : HErr → String
  | .Hint => "Hint" | .Length => "Length" | .PcreUtf8 => "PcreUtf8" | .Pattern => "Pattern"

/-- `A`–`Z` -/
def isUpper (b : UInt8) : Bool := 65 ≤ b.toNat && b.toNat ≤ 90

/-- `tolower` of the "C" locale on one byte -/
def lowerByte (b : UInt8) : UInt8 := if isUpper b then UInt8.ofNat (b.toNat + 32) else b

/-- the loop `for (i = 0; i < value_len && value[i]; ++i) value[i] = tolower(value[i]);` on the copy (which has no NUL) -/
def lower (s : Bytes) : Bytes := s.map lowerByte

/-- `lyplg_type_validate_patterns` with PCRE2 in UTF mode: the subject is checked before the first match -/
def checkPatterns (pats : List (XsdRe.Regex Char × Bool)) (v : Bytes) : Except HErr Unit :=
  if pats.isEmpty then .ok ()
  else match XsdRe.decodeUtf8 v with
    | none => .error .PcreUtf8
    | some cs => if XsdRe.Regex.validatePatterns pats cs then .ok () else .error .Pattern

/-- `lyplg_type_store_hex_string` for every format but `LY_VALUE_CANON`; the stored value is its canonical string -/
def store (t : PStrTy) (hints : Nat) (s : Bytes) : Except HErr Bytes :=
  match checkHints hints "string" with
  | none => .error .Hint
  | some _ =>
    let v := lower (cstr s)
    if !validateRange (rangeIsUnsigned "string") t.length (utf8Len (v.length + 1) v : Nat) then .error .Length
    else match checkPatterns t.pats v with
      | .error e => .error e
      | .ok () => .ok v

/-- The store callback of the tree the model was generated from, errors as reply kinds: on a repaired tree (`fixes/F423.diff`,
    `Generated.hexNulRefused`) a value with an embedded NUL byte is refused ("Invalid character 0x00") right after the hints check;
    otherwise `store` (the theorems of `Props/C03Hex.lean` are about `store`; `hex_accept_whole_input_partial` is the NUL-free part the
    two variants share). -/
def storeCur (t : PStrTy) (hints : Nat) (s : Bytes) : Except String Bytes :=
  match checkHints hints "string" with
  | none => .error "Hint"
  | some _ =>
    if Generated.hexNulRefused && s.contains 0 then .error "BadUtf8"
    else match store t hints s with
      | .ok v => .ok v
      | .error e => .error e.name

/-- `value->_canonical` -/
def canon (v : Bytes) : Bytes := v
/-- `lyplg_type_compare_simple`: `true` = `LY_SUCCESS` -/
def cmpEq (a b : Bytes) : Bool := a == b
/-- `lyplg_type_sort_simple` -/
def sort (a b : Bytes) : Int := strcmp a b
/-- `lyplg_type_print_simple`, `LY_VALUE_LYB` -/
def lyb (v : Bytes) : Bytes := v
/-- the store callback with `LY_VALUE_LYB` (hints of data) -/
def unlyb (t : PStrTy) (b : Bytes) : Except HErr Bytes := store t Generated.LYD_HINT_DATA b

/-! ## the four typedefs -/

/-- `lys_compile_type_patterns`: the arguments of the typedef as regular expressions -/
def compilePats (ps : List (List UInt8 × Bool)) : Option (List (XsdRe.Regex Char × Bool)) :=
  ps.mapM fun p =>
    match XsdRe.parseXsd p.1 with
    | .ok pat => some (pat.toRegex, p.2)
    | .error _ => none

/-- the compiled type of a typedef the plug-in is registered for -/
def tyOf (name : String) : Option PStrTy :=
  match Generated.hexTypedefs.lookup name with
  | none => none
  | some (len, ps) => (compilePats ps).map fun pats => { length := len, pats := pats }

end LyModel.Val.HexStr
