import LyModel.Val.Model
/-! The comparison functions behind the `sort` callbacks are total orders. -/
set_option linter.unusedSimpArgs false
namespace LyModel.Val
open LyModel

theorem cmpInt_antisymm (a b : Int) : cmpInt a b = -cmpInt b a := by
  unfold cmpInt; split <;> split <;> (try split) <;> (try split) <;> omega

theorem cmpInt_zero (a b : Int) : cmpInt a b = 0 ↔ a = b := by
  unfold cmpInt; split <;> (try split) <;> omega

theorem cmpInt_le (a b : Int) : cmpInt a b ≤ 0 ↔ a ≤ b := by
  unfold cmpInt; split <;> (try split) <;> omega

theorem cmpInt_trans (a b c : Int) (h1 : cmpInt a b ≤ 0) (h2 : cmpInt b c ≤ 0) : cmpInt a c ≤ 0 := by
  rw [cmpInt_le] at *; omega

theorem toNat_eq_iff (a b : UInt8) : a.toNat = b.toNat ↔ a = b := UInt8.toNat_inj

theorem strcmp_antisymm : ∀ (a b : Bytes), strcmp a b = -strcmp b a
  | [], [] => rfl
  | [], _ :: _ => rfl
  | _ :: _, [] => rfl
  | x :: r, y :: s => by
    have ih := strcmp_antisymm r s
    simp only [strcmp]
    split <;> split <;> (try split) <;> (try split) <;> first | omega | exact ih

theorem strcmp_zero : ∀ (a b : Bytes), strcmp a b = 0 ↔ a = b
  | [], [] => by simp [strcmp]
  | [], _ :: _ => by simp [strcmp]
  | _ :: _, [] => by simp [strcmp]
  | x :: r, y :: s => by
    have ih := strcmp_zero r s
    simp only [strcmp, List.cons.injEq]
    split
    · rename_i h; constructor
      · intro h0; omega
      · rintro ⟨rfl, _⟩; omega
    · split
      · rename_i h; constructor
        · intro h0; omega
        · rintro ⟨rfl, _⟩; omega
      · rename_i h1 h2
        have : x = y := (toNat_eq_iff x y).mp (by omega)
        rw [ih]; simp [this]

theorem strcmp_trans : ∀ (a b c : Bytes), strcmp a b ≤ 0 → strcmp b c ≤ 0 → strcmp a c ≤ 0
  | [], _, [], _, _ => by simp [strcmp]
  | [], _, _ :: _, _, _ => by simp [strcmp]
  | _ :: _, [], _, h1, _ => by simp [strcmp] at h1
  | _ :: _, _ :: _, [], _, h2 => by simp [strcmp] at h2
  | x :: r, y :: s, z :: t, h1, h2 => by
    have ih := strcmp_trans r s t
    simp only [strcmp] at h1 h2 ⊢
    split at h1 <;> split at h2 <;> (try split at h1) <;> (try split at h2) <;> (try omega) <;>
      (split <;> (try split) <;> first | omega | (apply ih <;> assumption))

theorem memcmp_antisymm : ∀ (a b : Bytes), memcmp a b = -memcmp b a
  | [], [] => rfl
  | [], _ :: _ => rfl
  | _ :: _, [] => rfl
  | x :: r, y :: s => by
    have ih := memcmp_antisymm r s
    simp only [memcmp]
    split <;> split <;> (try split) <;> (try split) <;> first | omega | exact ih

theorem memcmp_zero : ∀ (a b : Bytes), a.length = b.length → (memcmp a b = 0 ↔ a = b)
  | [], [], _ => by simp [memcmp]
  | [], _ :: _, h => by simp at h
  | _ :: _, [], h => by simp at h
  | x :: r, y :: s, h => by
    have ih := memcmp_zero r s (by simpa using h)
    simp only [memcmp, List.cons.injEq]
    split
    · rename_i h; constructor
      · intro h0; omega
      · rintro ⟨rfl, _⟩; omega
    · split
      · rename_i h; constructor
        · intro h0; omega
        · rintro ⟨rfl, _⟩; omega
      · rename_i h1 h2
        have : x = y := (toNat_eq_iff x y).mp (by omega)
        rw [ih]; simp [this]

theorem memcmp_trans : ∀ (a b c : Bytes), a.length = b.length → b.length = c.length → memcmp a b ≤ 0 → memcmp b c ≤ 0 → memcmp a c ≤ 0
  | [], _, _, _, _, _, _ => by simp [memcmp]
  | _ :: _, [], _, h, _, _, _ => by simp at h
  | _ :: _, _ :: _, [], _, h, _, _ => by simp at h
  | x :: r, y :: s, z :: t, hl1, hl2, h1, h2 => by
    have ih := memcmp_trans r s t (by simpa using hl1) (by simpa using hl2)
    simp only [memcmp] at h1 h2 ⊢
    split at h1 <;> split at h2 <;> (try split at h1) <;> (try split at h2) <;> (try omega) <;>
      (split <;> (try split) <;> first | omega | (apply ih <;> assumption))

end LyModel.Val
