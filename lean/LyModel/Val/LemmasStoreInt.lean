import LyModel.Val.LemmasParse
/-! `lyplg_type_parse_int/uint` and `lyplg_type_store_int/uint` against the RFC lexical space. -/
set_option linter.unusedSimpArgs false
namespace LyModel.Val
open LyModel

theorem cstr_of_no_nul {s : Bytes} (h : (0 : UInt8) ∉ s) : cstr s = s := by
  unfold cstr
  apply takeWhile_all
  rw [List.all_eq_true]
  intro x hx
  have : x ≠ 0 := fun h0 => h (h0 ▸ hx)
  simpa using this

theorem no_nul_dropWhile {s : Bytes} (p : UInt8 → Bool) (h : (0 : UInt8) ∉ s) : (0 : UInt8) ∉ s.dropWhile p :=
  fun h0 => h ((List.dropWhile_sublist p).subset h0)

/-- the first character of an integer lexical value is a sign or a digit -/
theorem IntLex.head {core : Bytes} {v : Int} (h : IntLex core v) :
    ∃ c t, core = c :: t ∧ isSpace c = false ∧ c ≠ 0 := by
  obtain ⟨sg, ds, hcore, hsg, hne, hd, _⟩ := h
  rcases hsg with rfl | rfl | rfl
  · cases ds with
    | nil => exact absurd rfl hne
    | cons a t =>
      simp only [List.all_cons, Bool.and_eq_true] at hd
      refine ⟨a, t, by simpa using hcore, digit_not_space hd.1, ?_⟩
      intro h0; subst h0; simp [isDigit] at hd
  · exact ⟨43, ds, by simpa using hcore, by decide, by decide⟩
  · exact ⟨45, ds, by simpa using hcore, by decide, by decide⟩

theorem IntLexWs_dropWhile (s : Bytes) (v : Int) : IntLexWs (s.dropWhile isSpace) v ↔ IntLexWs s v := by
  constructor
  · rintro ⟨l, core, r, hs, hl, hr, hc⟩
    refine ⟨s.takeWhile isSpace ++ l, core, r, ?_, ?_, hr, hc⟩
    · rw [List.append_assoc, List.append_assoc, ← List.append_assoc l, ← hs, List.takeWhile_append_dropWhile]
    · rw [List.all_append, all_takeWhile, hl]; rfl
  · rintro ⟨l, core, r, hs, hl, hr, hc⟩
    obtain ⟨c, t, hcore, hsp, _⟩ := hc.head
    refine ⟨[], core, r, ?_, rfl, hr, hc⟩
    rw [hs, List.append_assoc]
    rw [dropWhile_append_stop hl]
    · simp
    · intro c' hc'
      rw [hcore] at hc'; simp at hc'; subst hc'; exact hsp

theorem IntLexWs.dropWhile_head {s : Bytes} {v : Int} (h : IntLexWs s v) :
    ∃ c t, s.dropWhile isSpace = c :: t ∧ isSpace c = false ∧ c ≠ 0 := by
  obtain ⟨l, core, r, hs, hl, hr, hc⟩ := h
  obtain ⟨c, t, hcore, hsp, h0⟩ := hc.head
  refine ⟨c, t ++ r, ?_, hsp, h0⟩
  rw [hs, List.append_assoc, dropWhile_append_stop hl]
  · rw [hcore]; rfl
  · intro c' hc'
    rw [hcore] at hc'; simp at hc'; subst hc'; exact hsp

theorem parseInt10_iff (value : Bytes) (min max v : Int) (h0 : (0 : UInt8) ∉ value) (hmin : -(2 ^ 63) ≤ min) (hmax : max ≤ 2 ^ 63 - 1) :
    parseInt 10 min max value = .ok v ↔ IntLexWs value v ∧ min ≤ v ∧ v ≤ max := by
  unfold parseInt
  have hc := cstr_of_no_nul (no_nul_dropWhile isSpace h0)
  constructor
  · intro h
    simp only at h
    split at h
    · cases h
    · rw [hc, lyParseInt10_iff _ _ _ _ hmin hmax, IntLexWs_dropWhile] at h
      exact h
  · rintro ⟨hl, hlo, hhi⟩
    obtain ⟨c, t, hd, _, hc0⟩ := hl.dropWhile_head
    simp only
    rw [hc, hd]
    have : ((c :: t).isEmpty || (c :: t).head? == some 0) = false := by simp [hc0]
    rw [if_neg (by rw [this]; simp)]
    rw [← hd, lyParseInt10_iff _ _ _ _ hmin hmax, IntLexWs_dropWhile]
    exact ⟨hl, hlo, hhi⟩

theorem parseUint10_iff (value : Bytes) (max : Nat) (v : Int) (h0 : (0 : UInt8) ∉ value) (hmax : max ≤ 2 ^ 64 - 1) :
    parseUint 10 max value = .ok v ↔ IntLexWs value v ∧ 0 ≤ v ∧ v ≤ max := by
  unfold parseUint
  have hc := cstr_of_no_nul (no_nul_dropWhile isSpace h0)
  have hhead : ∀ c, (value.dropWhile isSpace).head? = some c → isSpace c = false := head_dropWhile isSpace value
  constructor
  · intro h
    simp only at h
    split at h
    · cases h
    · rw [hc, lyParseUint10_iff _ _ _ hmax hhead, IntLexWs_dropWhile] at h
      exact h
  · rintro ⟨hl, hlo, hhi⟩
    obtain ⟨c, t, hd, _, hc0⟩ := hl.dropWhile_head
    simp only
    rw [hc]
    have : ((value.dropWhile isSpace).isEmpty || (value.dropWhile isSpace).head? == some 0) = false := by rw [hd]; simp [hc0]
    rw [if_neg (by rw [this]; simp)]
    rw [lyParseUint10_iff _ _ _ hmax hhead, IntLexWs_dropWhile]
    exact ⟨hl, hlo, hhi⟩

/-! ### bounds of the integer types (read from the generated table) -/

theorem IntTy.min_max_values (t : IntTy) :
    t.min = (if t.signed then -(2 ^ (t.bits - 1) : Int) else 0) ∧ t.max = (if t.signed then 2 ^ (t.bits - 1) - 1 else 2 ^ t.bits - 1 : Int) := by
  cases t <;> decide

theorem IntTy.lybSize_bits (t : IntTy) : 8 * t.lybSize = t.bits := by
  cases t <;> decide

theorem wrap_id (t : IntTy) (v : Int) (hlo : t.min ≤ v) (hhi : v ≤ t.max) : wrap t v = v := by
  have := IntTy.min_max_values t
  cases t <;> simp [IntTy.signed, IntTy.bits] at this <;> simp [wrap, IntTy.signed, IntTy.bits] <;> omega

theorem rangeIsUnsigned_int (t : IntTy) : rangeIsUnsigned t.name = !t.signed := by
  cases t <;> decide

end LyModel.Val

namespace LyModel.Val
open LyModel

theorem IntTy.bounds_in_int64 (t : IntTy) (hs : t.signed = true) : -(2 ^ 63) ≤ t.min ∧ t.max ≤ 2 ^ 63 - 1 := by
  cases t <;> first | (exfalso; revert hs; decide) | decide

theorem IntTy.umax (t : IntTy) (hs : t.signed = false) : t.max.toNat ≤ 2 ^ 64 - 1 ∧ (t.max.toNat : Int) = t.max ∧ t.min = 0 := by
  cases t <;> first | (exfalso; revert hs; decide) | decide

theorem storeInt_accept_iff (t : IntTy) (range : List (Int × Int)) (hints : Nat) (s : Bytes) (v : Int)
    (h0 : (0 : UInt8) ∉ s) (hb : checkHints hints t.name = some 10) (hwf : PartsWF t.min t.max range) :
    storeInt t range hints s = .ok v ↔ IntLexWs s v ∧ t.min ≤ v ∧ v ≤ t.max ∧ InParts range v := by
  -- what the lexical parser accepts, for either signedness
  have hparse : ∀ num, (if t.signed then parseInt 10 t.min t.max s else parseUint 10 t.max.toNat s) = .ok num ↔
      IntLexWs s num ∧ t.min ≤ num ∧ num ≤ t.max := by
    intro num
    cases hs : t.signed
    · obtain ⟨h1, h2, h3⟩ := IntTy.umax t hs
      simp only [Bool.false_eq_true, if_false]
      rw [parseUint10_iff s _ num h0 h1, h2, h3]
    · obtain ⟨h1, h2⟩ := IntTy.bounds_in_int64 t hs
      simp only [if_true]
      rw [parseInt10_iff s _ _ num h0 h1 h2]
  -- what the range check decides on an in-bounds value
  have hrange : ∀ num, t.min ≤ num → num ≤ t.max → (validateRange (rangeIsUnsigned t.name) range num = true ↔ InParts range num) := by
    intro num hlo hhi
    rw [rangeIsUnsigned_int]
    cases hs : t.signed
    · obtain ⟨_, _, h3⟩ := IntTy.umax t hs
      have hmm := IntTy.min_max_values t
      rw [hs] at hmm
      have hmax64 : t.max < 2 ^ 64 := by
        rw [hmm.2]; cases t <;> first | (exfalso; revert hs; decide) | decide
      show validateRange true range num = true ↔ _
      rw [validateRange_unsigned_eq (by omega : (0 : Int) ≤ t.min) hmax64 range num hwf (by omega) (by omega)]
      exact validateRange_signed_iff range num hwf
    · exact validateRange_signed_iff range num hwf
  unfold storeInt
  rw [hb]
  simp only
  cases hp : (if t.signed then parseInt 10 t.min t.max s else parseUint 10 t.max.toNat s) with
  | error e =>
    simp only [reduceCtorEq, false_iff]
    rintro ⟨hl, hlo, hhi, _⟩
    have := (hparse v).mpr ⟨hl, hlo, hhi⟩
    rw [hp] at this; cases this
  | ok num =>
    obtain ⟨hl, hlo, hhi⟩ := (hparse num).mp hp
    simp only [wrap_id t num hlo hhi]
    constructor
    · intro h
      split at h
      · rename_i hv
        injection h with h; subst h
        exact ⟨hl, hlo, hhi, (hrange num hlo hhi).mp hv⟩
      · cases h
    · rintro ⟨hl', hlo', hhi', hin⟩
      have := (hparse v).mpr ⟨hl', hlo', hhi'⟩
      rw [hp] at this; injection this with this; subst this
      rw [if_pos ((hrange num hlo hhi).mpr hin)]

end LyModel.Val
