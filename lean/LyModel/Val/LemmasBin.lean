import LyModel.Val.Binary
import LyModel.Val.LemmasBasic
import LyModel.Val.LemmasOrder
set_option linter.unusedSimpArgs false
/-!
# lemmas about the `binary` model (`Val/Binary.lean`): RFC 4648 §4 as a relation (`IsB64`), the 64-column layout (`Lines64`), the
decoder on base64 texts, the encoder's output, `binary_base64_validate` ⇔ `IsB64`, `binary_base64_newlines` ⇔ `Lines64`, the store
function as a conjunction, the order of the sort callback
-/
namespace LyModel.Val.Bin
open LyModel LyModel.Val

theorem dVal_eChar : ∀ s, s < 64 → dVal (eChar s) = s := by decide
theorem isAlpha_eChar : ∀ s, s < 64 → isAlpha (eChar s) = true := by decide
theorem eChar_ne_pad : ∀ s, s < 64 → (eChar s == PAD) = false := by decide
theorem alpha_inv_nat : ∀ n, n < 256 → isAlpha (UInt8.ofNat n) = true → dVal (UInt8.ofNat n) < 64 ∧ eChar (dVal (UInt8.ofNat n)) = UInt8.ofNat n := by decide +kernel
theorem alpha_inv (c : UInt8) (h : isAlpha c = true) : dVal c < 64 ∧ eChar (dVal c) = c := by
  have := alpha_inv_nat c.toNat c.toNat_lt
  rw [UInt8.ofNat_toNat] at this
  exact this h
theorem pad_not_alpha : isAlpha PAD = false := by decide
theorem nl_not_alpha : isAlpha NL = false := by decide

theorem ofNat_eq_of_mod {n : Nat} {x : UInt8} (h : n % 256 = x.toNat) : UInt8.ofNat n = x := by
  apply UInt8.toNat_inj.mp
  rw [UInt8.toNat_ofNat']
  exact h

/-! ## the lexical space of RFC 4648 §4 -/

/-- `IsB64 t o k`: the text `t` is base64 (RFC 4648 §4) of the octets `o`; `k` = the value of the bits of the last sextet that belong to
    no octet (0 when the length is a multiple of three).  Every 24-bit group is the concatenation of three octets and of four sextets,
    each sextet written as its character of Table 1 (`eChar`); a final group of 16 bits is three characters (18 bits, `k < 4` the two
    surplus bits) and one `=`, a final group of 8 bits two characters (12 bits, `k < 16`) and `==`. -/
inductive IsB64 : Bytes → Bytes → Nat → Prop
  | nil : IsB64 [] [] 0
  | quantum {s0 s1 s2 s3 : Nat} {x y z : UInt8} {t o : Bytes} {k : Nat} (h0 : s0 < 64) (h1 : s1 < 64) (h2 : s2 < 64) (h3 : s3 < 64)
      (h : s0 * 262144 + s1 * 4096 + s2 * 64 + s3 = x.toNat * 65536 + y.toNat * 256 + z.toNat) (rest : IsB64 t o k) :
      IsB64 (eChar s0 :: eChar s1 :: eChar s2 :: eChar s3 :: t) (x :: y :: z :: o) k
  | final16 {s0 s1 s2 : Nat} {x y : UInt8} {k : Nat} (h0 : s0 < 64) (h1 : s1 < 64) (h2 : s2 < 64) (hk : k < 4)
      (h : s0 * 4096 + s1 * 64 + s2 = (x.toNat * 256 + y.toNat) * 4 + k) : IsB64 [eChar s0, eChar s1, eChar s2, PAD] [x, y] k
  | final8 {s0 s1 : Nat} {x : UInt8} {k : Nat} (h0 : s0 < 64) (h1 : s1 < 64) (hk : k < 16)
      (h : s0 * 64 + s1 = x.toNat * 16 + k) : IsB64 [eChar s0, eChar s1, PAD, PAD] [x] k

/-- the layout `binary_base64_newlines` removes: lines of exactly 64 bytes, each followed by a newline, and a last line of at most 64
    bytes without one; `Lines64 s t`: `t` is `s` without those newlines -/
inductive Lines64 : Bytes → Bytes → Prop
  | last {r : Bytes} (h : r.length ≤ 64) : Lines64 r r
  | line {l r t : Bytes} (hl : l.length = 64) (rest : Lines64 r t) : Lines64 (l ++ NL :: r) (l ++ t)

/-! ## decode -/

theorem decode_quantum {s0 s1 s2 s3 : Nat} (h0 : s0 < 64) (h1 : s1 < 64) (h2 : s2 < 64) (h3 : s3 < 64) (t : Bytes) :
    decode (eChar s0 :: eChar s1 :: eChar s2 :: eChar s3 :: t) =
      UInt8.ofNat ((s0 * 262144 + s1 * 4096 + s2 * 64 + s3) / 65536) :: UInt8.ofNat ((s0 * 262144 + s1 * 4096 + s2 * 64 + s3) / 256) ::
        UInt8.ofNat (s0 * 262144 + s1 * 4096 + s2 * 64 + s3) :: decode t := by
  simp only [decode, eChar_ne_pad s3 h3, Bool.and_false, Bool.false_eq_true, if_false, grp, dVal_eChar _ h0, dVal_eChar _ h1, dVal_eChar _ h2, dVal_eChar _ h3]

theorem decode_final16 {s0 s1 s2 : Nat} (h0 : s0 < 64) (h1 : s1 < 64) (h2 : s2 < 64) :
    decode [eChar s0, eChar s1, eChar s2, PAD] =
      [UInt8.ofNat ((s0 * 262144 + s1 * 4096) / 65536), UInt8.ofNat ((s0 * 262144 + s1 * 4096 + s2 * 64) / 256)] := by
  simp [decode, eChar_ne_pad s2 h2, dVal_eChar _ h0, dVal_eChar _ h1, dVal_eChar _ h2]

theorem decode_final8 {s0 s1 : Nat} (h0 : s0 < 64) (h1 : s1 < 64) :
    decode [eChar s0, eChar s1, PAD, PAD] = [UInt8.ofNat ((s0 * 262144 + s1 * 4096) / 65536)] := by
  simp [decode, dVal_eChar _ h0, dVal_eChar _ h1]

/-- a base64 text decodes to its octets, whatever the surplus bits are -/
theorem decode_of_isB64 {t o : Bytes} {k : Nat} (h : IsB64 t o k) : decode t = o := by
  induction h with
  | nil => rfl
  | @quantum s0 s1 s2 s3 x y z t o k h0 h1 h2 h3 h _ ih =>
    rw [decode_quantum h0 h1 h2 h3, ih, h]
    have hx := x.toNat_lt; have hy := y.toNat_lt; have hz := z.toNat_lt
    rw [ofNat_eq_of_mod (x := x) (by omega), ofNat_eq_of_mod (x := y) (by omega), ofNat_eq_of_mod (x := z) (by omega)]
  | @final16 s0 s1 s2 x y k h0 h1 h2 hk h =>
    rw [decode_final16 h0 h1 h2]
    have hx := x.toNat_lt; have hy := y.toNat_lt
    rw [ofNat_eq_of_mod (x := x) (by omega), ofNat_eq_of_mod (x := y) (by omega)]
  | @final8 s0 s1 x k h0 h1 hk h =>
    rw [decode_final8 h0 h1]
    have hx := x.toNat_lt
    rw [ofNat_eq_of_mod (x := x) (by omega)]

/-! ## encode -/

theorem encode_isB64 : ∀ (o : Bytes), IsB64 (encode o) o 0
  | [] => IsB64.nil
  | [x] => by
    have hx := x.toNat_lt
    exact IsB64.final8 (by omega) (by omega) (by omega) (by omega)
  | [x, y] => by
    have hx := x.toNat_lt; have hy := y.toNat_lt
    exact IsB64.final16 (by omega) (by omega) (by omega) (by omega) (by omega)
  | x :: y :: z :: r => by
    have hx := x.toNat_lt; have hy := y.toNat_lt; have hz := z.toNat_lt
    exact IsB64.quantum (by omega) (by omega) (by omega) (by omega) (by omega) (encode_isB64 r)

theorem decode_encode (o : Bytes) : decode (encode o) = o := decode_of_isB64 (encode_isB64 o)


/-- the canonical text (zero surplus bits) of an octet string is unique: it is the encoder's output -/
theorem eq_encode_of_isB64_zero {t o : Bytes} {k : Nat} (h : IsB64 t o k) (hk : k = 0) : t = encode o := by
  induction h with
  | nil => rfl
  | @quantum s0 s1 s2 s3 x y z t o k h0 h1 h2 h3 h _ ih =>
    have hx := x.toNat_lt; have hy := y.toNat_lt; have hz := z.toNat_lt
    have e0 : s0 = x.toNat / 4 := by omega
    have e1 : s1 = x.toNat % 4 * 16 + y.toNat / 16 := by omega
    have e2 : s2 = y.toNat % 16 * 4 + z.toNat / 64 := by omega
    have e3 : s3 = z.toNat % 64 := by omega
    rw [e0, e1, e2, e3, ih hk]; rfl
  | @final16 s0 s1 s2 x y k h0 h1 h2 hk' h =>
    have hx := x.toNat_lt; have hy := y.toNat_lt
    have e0 : s0 = x.toNat / 4 := by omega
    have e1 : s1 = x.toNat % 4 * 16 + y.toNat / 16 := by omega
    have e2 : s2 = y.toNat % 16 * 4 := by omega
    rw [e0, e1, e2]; rfl
  | @final8 s0 s1 x k h0 h1 hk' h =>
    have hx := x.toNat_lt
    have e0 : s0 = x.toNat / 4 := by omega
    have e1 : s1 = x.toNat % 4 * 16 := by omega
    rw [e0, e1]; rfl

theorem isB64_chars {t o : Bytes} {k : Nat} (h : IsB64 t o k) : ∀ c ∈ t, isAlpha c = true ∨ c = PAD := by
  induction h with
  | nil => intro c hc; cases hc
  | quantum h0 h1 h2 h3 _ _ ih =>
    intro c hc
    simp only [List.mem_cons] at hc
    rcases hc with rfl | rfl | rfl | rfl | hc
    · exact Or.inl (isAlpha_eChar _ h0)
    · exact Or.inl (isAlpha_eChar _ h1)
    · exact Or.inl (isAlpha_eChar _ h2)
    · exact Or.inl (isAlpha_eChar _ h3)
    · exact ih c hc
  | final16 h0 h1 h2 _ _ =>
    intro c hc
    simp only [List.mem_cons, List.not_mem_nil, or_false] at hc
    rcases hc with rfl | rfl | rfl | rfl
    · exact Or.inl (isAlpha_eChar _ h0)
    · exact Or.inl (isAlpha_eChar _ h1)
    · exact Or.inl (isAlpha_eChar _ h2)
    · exact Or.inr rfl
  | final8 h0 h1 _ _ =>
    intro c hc
    simp only [List.mem_cons, List.not_mem_nil, or_false] at hc
    rcases hc with rfl | rfl | rfl | rfl
    · exact Or.inl (isAlpha_eChar _ h0)
    · exact Or.inl (isAlpha_eChar _ h1)
    · exact Or.inr rfl
    · exact Or.inr rfl

theorem isB64_length {t o : Bytes} {k : Nat} (h : IsB64 t o k) : t.length % 4 = 0 ∧ t.length = (o.length + 2) / 3 * 4 := by
  induction h with
  | nil => exact ⟨rfl, rfl⟩
  | quantum _ _ _ _ _ _ ih => simp only [List.length_cons]; omega
  | final16 _ _ _ _ _ => simp
  | final8 _ _ _ _ => simp

/-! ## validate -/

theorem validate_cons4 {a b c d : UInt8} (ha : isAlpha a = true) (hb : isAlpha b = true) (hc : isAlpha c = true) (hd : isAlpha d = true) (t : Bytes) :
    validate (a :: b :: c :: d :: t) = validate t := by
  simp only [validate, List.dropWhile, ha, hb, hc, hd, List.length_cons]
  have : (t.length + 1 + 1 + 1 + 1) % 4 = t.length % 4 := by omega
  simp only [this]

theorem validate_of_isB64 {t o : Bytes} {k : Nat} (h : IsB64 t o k) : validate t = .ok () := by
  induction h with
  | nil => rfl
  | quantum h0 h1 h2 h3 _ _ ih => rw [validate_cons4 (isAlpha_eChar _ h0) (isAlpha_eChar _ h1) (isAlpha_eChar _ h2) (isAlpha_eChar _ h3)]; exact ih
  | final16 h0 h1 h2 _ _ =>
    simp [validate, List.dropWhile, isAlpha_eChar _ h0, isAlpha_eChar _ h1, isAlpha_eChar _ h2, pad_not_alpha, padCount, Generated.b64MaxPad, List.takeWhile]
  | final8 h0 h1 _ _ =>
    simp [validate, List.dropWhile, isAlpha_eChar _ h0, isAlpha_eChar _ h1, pad_not_alpha, padCount, Generated.b64MaxPad, List.takeWhile]

theorem validate_ok_iff (t : Bytes) :
    validate t = .ok () ↔ (t.dropWhile isAlpha).length = padCount (t.dropWhile isAlpha) ∧ t.length % 4 = 0 := by
  simp only [validate]
  by_cases h1 : (t.dropWhile isAlpha).length = padCount (t.dropWhile isAlpha) <;> by_cases h2 : t.length % 4 = 0 <;> simp [h1, h2]

theorem validate_len {t : Bytes} (h : validate t = .ok ()) : t.length % 4 = 0 := ((validate_ok_iff t).mp h).2

theorem mem_takeWhile_sat {α : Type} (p : α → Bool) : ∀ (l : List α) (c : α), c ∈ l.takeWhile p → p c = true
  | [], _, h => by cases h
  | a :: l, c, h => by
    by_cases ha : p a = true
    · rw [List.takeWhile_cons_of_pos ha] at h
      rcases List.mem_cons.mp h with rfl | h
      · exact ha
      · exact mem_takeWhile_sat p l c h
    · rw [List.takeWhile_cons_of_neg ha] at h; cases h

theorem padCount_cases (rest : Bytes) (h : rest.length = padCount rest) : rest = [] ∨ rest = [PAD] ∨ rest = [PAD, PAD] := by
  match rest, h with
  | [], _ => exact Or.inl rfl
  | [p], h =>
    by_cases hp : (p == PAD) = true
    · exact Or.inr (Or.inl (by rw [beq_iff_eq.mp hp]))
    · simp [padCount, Generated.b64MaxPad, List.takeWhile, hp] at h
  | [p, q], h =>
    by_cases hp : (p == PAD) = true
    · by_cases hq : (q == PAD) = true
      · exact Or.inr (Or.inr (by rw [beq_iff_eq.mp hp, beq_iff_eq.mp hq]))
      · simp [padCount, Generated.b64MaxPad, List.takeWhile, hp, hq] at h
    · simp [padCount, Generated.b64MaxPad, List.takeWhile, hp] at h
  | p :: q :: r :: u, h =>
    exfalso
    have : padCount (p :: q :: r :: u) ≤ 2 := by
      unfold padCount
      refine Nat.le_trans (List.takeWhile_sublist _).length_le ?_
      simp [Generated.b64MaxPad]
    simp only [List.length_cons] at h
    omega

theorem validate_split {t : Bytes} (h : validate t = .ok ()) :
    ∃ body pad, t = body ++ pad ∧ (∀ c ∈ body, isAlpha c = true) ∧ (pad = [] ∨ pad = [PAD] ∨ pad = [PAD, PAD]) := by
  refine ⟨t.takeWhile isAlpha, t.dropWhile isAlpha, (List.takeWhile_append_dropWhile).symm, fun c hc => mem_takeWhile_sat _ _ c hc, ?_⟩
  exact padCount_cases _ ((validate_ok_iff t).mp h).1


theorem toNat_ofNat_lt {n : Nat} (h : n < 256) : (UInt8.ofNat n).toNat = n := by
  rw [UInt8.toNat_ofNat']; exact Nat.mod_eq_of_lt h

/-- alphabet characters followed by the padding that makes the length a multiple of four are a base64 text -/
theorem isB64_of_body : ∀ (n : Nat) (body pad : Bytes), body.length ≤ n → (∀ c ∈ body, isAlpha c = true) →
    (pad = [] ∨ pad = [PAD] ∨ pad = [PAD, PAD]) → (body.length + pad.length) % 4 = 0 → ∃ o k, IsB64 (body ++ pad) o k := by
  intro n
  induction n with
  | zero =>
    intro body pad hn _ hp h4
    have : body = [] := List.eq_nil_of_length_eq_zero (by omega)
    subst this
    rcases hp with rfl | rfl | rfl
    · exact ⟨[], 0, IsB64.nil⟩
    · simp at h4
    · simp at h4
  | succ n ih =>
    intro body pad hn ha hp h4
    match body, hn, ha, h4 with
    | [], _, _, h4 =>
      rcases hp with rfl | rfl | rfl
      · exact ⟨[], 0, IsB64.nil⟩
      · simp at h4
      · simp at h4
    | [a], _, _, h4 => rcases hp with rfl | rfl | rfl <;> simp at h4
    | [a, b], _, ha, h4 =>
      rcases hp with rfl | rfl | rfl
      · simp at h4
      · simp at h4
      · obtain ⟨a1, a2⟩ := alpha_inv a (ha a (by simp))
        obtain ⟨b1, b2⟩ := alpha_inv b (ha b (by simp))
        refine ⟨[UInt8.ofNat ((dVal a * 64 + dVal b) / 16)], (dVal a * 64 + dVal b) % 16, ?_⟩
        have := IsB64.final8 (s0 := dVal a) (s1 := dVal b) (x := UInt8.ofNat ((dVal a * 64 + dVal b) / 16)) (k := (dVal a * 64 + dVal b) % 16) a1 b1
          (by omega) (by rw [toNat_ofNat_lt (by omega)]; omega)
        rw [a2, b2] at this
        exact this
    | [a, b, c], _, ha, h4 =>
      rcases hp with rfl | rfl | rfl
      · simp at h4
      · obtain ⟨a1, a2⟩ := alpha_inv a (ha a (by simp))
        obtain ⟨b1, b2⟩ := alpha_inv b (ha b (by simp))
        obtain ⟨c1, c2⟩ := alpha_inv c (ha c (by simp))
        refine ⟨[UInt8.ofNat ((dVal a * 4096 + dVal b * 64 + dVal c) / 1024), UInt8.ofNat ((dVal a * 4096 + dVal b * 64 + dVal c) / 4 % 256)],
          (dVal a * 4096 + dVal b * 64 + dVal c) % 4, ?_⟩
        have := IsB64.final16 (s0 := dVal a) (s1 := dVal b) (s2 := dVal c) (x := UInt8.ofNat ((dVal a * 4096 + dVal b * 64 + dVal c) / 1024))
          (y := UInt8.ofNat ((dVal a * 4096 + dVal b * 64 + dVal c) / 4 % 256)) (k := (dVal a * 4096 + dVal b * 64 + dVal c) % 4) a1 b1 c1
          (by omega) (by rw [toNat_ofNat_lt (by omega), toNat_ofNat_lt (by omega)]; omega)
        rw [a2, b2, c2] at this
        exact this
      · simp at h4
    | a :: b :: c :: d :: r, hn, ha, h4 =>
      obtain ⟨a1, a2⟩ := alpha_inv a (ha a (by simp))
      obtain ⟨b1, b2⟩ := alpha_inv b (ha b (by simp))
      obtain ⟨c1, c2⟩ := alpha_inv c (ha c (by simp))
      obtain ⟨d1, d2⟩ := alpha_inv d (ha d (by simp))
      obtain ⟨o, k, hr⟩ := ih r pad (by simp only [List.length_cons] at hn; omega) (fun x hx => ha x (by simp [hx])) hp
        (by simp only [List.length_cons] at h4; omega)
      refine ⟨UInt8.ofNat ((dVal a * 262144 + dVal b * 4096 + dVal c * 64 + dVal d) / 65536) ::
        UInt8.ofNat ((dVal a * 262144 + dVal b * 4096 + dVal c * 64 + dVal d) / 256 % 256) ::
        UInt8.ofNat ((dVal a * 262144 + dVal b * 4096 + dVal c * 64 + dVal d) % 256) :: o, k, ?_⟩
      have := IsB64.quantum (s0 := dVal a) (s1 := dVal b) (s2 := dVal c) (s3 := dVal d)
        (x := UInt8.ofNat ((dVal a * 262144 + dVal b * 4096 + dVal c * 64 + dVal d) / 65536))
        (y := UInt8.ofNat ((dVal a * 262144 + dVal b * 4096 + dVal c * 64 + dVal d) / 256 % 256))
        (z := UInt8.ofNat ((dVal a * 262144 + dVal b * 4096 + dVal c * 64 + dVal d) % 256)) a1 b1 c1 d1
        (by rw [toNat_ofNat_lt (by omega), toNat_ofNat_lt (by omega), toNat_ofNat_lt (by omega)]; omega) hr
      rw [a2, b2, c2, d2] at this
      exact this

/-- `binary_base64_validate` accepts exactly the lexical space of RFC 4648 §4, surplus bits unchecked -/
theorem validate_iff_isB64 (t : Bytes) : validate t = .ok () ↔ ∃ o k, IsB64 t o k := by
  constructor
  · intro h
    obtain ⟨body, pad, rfl, ha, hp⟩ := validate_split h
    exact isB64_of_body body.length body pad (Nat.le_refl _) ha hp (by rw [← List.length_append]; exact validate_len h)
  · rintro ⟨o, k, h⟩
    exact validate_of_isB64 h

/-! ## newlines -/

theorem stripLoop_succ (f : Nat) (s : Bytes) : stripLoop (f + 1) s =
    if s.length > 64 then
      if s.getD 64 0 != NL then .error .Newline
      else match stripLoop f (s.drop 65) with
        | .error e => .error e
        | .ok t => .ok (s.take 64 ++ t)
    else .ok s := rfl

theorem stripNl_eq (s : Bytes) : stripNl s = if s.length < 65 || s.getD 64 0 != NL then .ok s else stripLoop s.length s := rfl

theorem stripLoop_of_lines {s t : Bytes} (h : Lines64 s t) : ∀ f, s.length ≤ f → stripLoop f s = .ok t := by
  induction h with
  | @last r hr =>
    intro f _
    cases f with
    | zero => rfl
    | succ f => rw [stripLoop_succ, if_neg (by omega)]
  | @line l r t hl _ ih =>
    intro f hf
    simp only [List.length_append, List.length_cons, hl] at hf
    cases f with
    | zero => omega
    | succ f =>
      have h1 : (l ++ NL :: r).length > 64 := by simp only [List.length_append, List.length_cons, hl]; omega
      have h2 : (l ++ NL :: r).getD 64 0 = NL := by simp [List.getD_eq_getElem?_getD, hl]
      have h3 : (l ++ NL :: r).drop 65 = r := by simp [List.drop_append, hl, List.drop_eq_nil_of_le]
      have h4 : (l ++ NL :: r).take 64 = l := by simp [hl]
      rw [stripLoop_succ, if_pos h1, h2, h3, h4, ih f (by omega)]
      simp

theorem lines_of_stripLoop : ∀ (f : Nat) (s t : Bytes), s.length ≤ f → stripLoop f s = .ok t → Lines64 s t := by
  intro f
  induction f with
  | zero =>
    intro s t hs h
    have : s = [] := List.eq_nil_of_length_eq_zero (by omega)
    subst this
    simp only [stripLoop, Except.ok.injEq] at h
    subst h
    exact Lines64.last (by simp)
  | succ f ih =>
    intro s t hs h
    rw [stripLoop_succ] at h
    by_cases h1 : s.length > 64
    · rw [if_pos h1] at h
      by_cases h2 : (s.getD 64 0 != NL) = true
      · rw [if_pos h2] at h; cases h
      · rw [if_neg h2] at h
        have h2' : s.getD 64 0 = NL := by simpa using h2
        cases hr : stripLoop f (s.drop 65) with
        | error e => rw [hr] at h; cases h
        | ok u =>
          rw [hr] at h
          simp only [Except.ok.injEq] at h
          subst h
          have hs' : s = s.take 64 ++ NL :: s.drop 65 := by
            have e1 : s.drop 64 = s.getD 64 0 :: s.drop 65 := by
              simp [List.getD_eq_getElem?_getD, List.getElem?_eq_getElem h1]
            rw [← h2', ← e1, List.take_append_drop]
          have := Lines64.line (l := s.take 64) (r := s.drop 65) (t := u) (by rw [List.length_take]; omega)
            (ih (s.drop 65) u (by rw [List.length_drop]; omega) hr)
          rw [← hs'] at this
          exact this
    · rw [if_neg h1] at h
      simp only [Except.ok.injEq] at h
      subst h
      exact Lines64.last (by omega)

/-- `binary_base64_newlines` succeeds with `t` ⇔ the layout is not looked at (fewer than 65 bytes, or byte 64 is no newline) and `t`
    is the value, or the value is in lines of 64 and `t` is the value without the line ends -/
theorem stripNl_ok_iff (s t : Bytes) :
    stripNl s = .ok t ↔ ((s.length < 65 ∨ s.getD 64 0 ≠ NL) ∧ t = s) ∨ (65 ≤ s.length ∧ s.getD 64 0 = NL ∧ Lines64 s t) := by
  rw [stripNl_eq]
  by_cases h : (decide (s.length < 65) || s.getD 64 0 != NL) = true
  · rw [if_pos h]
    have h' : s.length < 65 ∨ s.getD 64 0 ≠ NL := by simpa using h
    constructor
    · intro e; cases e; exact Or.inl ⟨h', rfl⟩
    · rintro (⟨_, rfl⟩ | ⟨a, b, _⟩)
      · rfl
      · rcases h' with h' | h'
        · omega
        · exact absurd b h'
  · rw [if_neg h]
    have h' : 65 ≤ s.length ∧ s.getD 64 0 = NL := by
      simp only [Bool.or_eq_true, decide_eq_true_eq, bne_iff_ne, ne_eq, not_or, Decidable.not_not] at h
      exact ⟨by omega, h.2⟩
    constructor
    · intro e; exact Or.inr ⟨h'.1, h'.2, lines_of_stripLoop _ s t (Nat.le_refl _) e⟩
    · rintro (⟨a, _⟩ | ⟨_, _, c⟩)
      · rcases a with a | a
        · omega
        · exact absurd h'.2 a
      · exact stripLoop_of_lines c _ (Nat.le_refl _)

/-- a text without a newline is left alone -/
theorem stripNl_of_no_nl {t : Bytes} (h : ∀ c ∈ t, c ≠ NL) : stripNl t = .ok t := by
  rw [stripNl_ok_iff]
  refine Or.inl ⟨?_, rfl⟩
  by_cases hl : t.length < 65
  · exact Or.inl hl
  · refine Or.inr ?_
    rw [List.getD_eq_getElem?_getD, List.getElem?_eq_getElem (by omega)]
    exact h _ (List.getElem_mem _)

theorem stripNl_of_validate {t : Bytes} (h : validate t = .ok ()) : stripNl t = .ok t := by
  obtain ⟨o, k, hb⟩ := (validate_iff_isB64 t).mp h
  apply stripNl_of_no_nl
  intro c hc e
  subst e
  rcases isB64_chars hb _ hc with h1 | h1
  · rw [nl_not_alpha] at h1; cases h1
  · exact absurd h1 (by decide)


/-! ## store -/

/-- what `binary_base64_newlines` does to a value, as a relation -/
def Unfold64 (s t : Bytes) : Prop :=
  ((s.length < 65 ∨ s.getD 64 0 ≠ NL) ∧ t = s) ∨ (65 ≤ s.length ∧ s.getD 64 0 = NL ∧ Lines64 s t)

theorem storeWith_ok_iff (r : Bool) (len : List (Int × Int)) (hints : Nat) (s : Bytes) (v : BVal) :
    storeWith r len hints s = .ok v ↔
      (checkHints hints "binary").isSome = true ∧ ∃ t, stripNl s = .ok t ∧ validate t = .ok () ∧ v.data = decode t ∧
        v.canon = (if r then encode v.data else t) ∧ validateRange (rangeIsUnsigned "binary") len (v.data.length : Nat) = true := by
  cases hh : checkHints hints "binary" with
  | none => simp [storeWith, hh]
  | some b =>
    cases hs : stripNl s with
    | error e => simp [storeWith, hh, hs]
    | ok t =>
      cases hv : validate t with
      | error e =>
        have e1 : storeWith r len hints s = .error e := by simp [storeWith, hh, hs, hv]
        rw [e1]
        constructor
        · intro h; cases h
        · rintro ⟨_, t', h2, h3, _⟩
          simp only [Except.ok.injEq] at h2
          rw [← h2, hv] at h3; cases h3
      | ok u =>
        have e1 : storeWith r len hints s =
            if validateRange (rangeIsUnsigned "binary") len ((decode t).length : Nat) = true then .ok ⟨decode t, if r then encode (decode t) else t⟩
            else .error .Length := by
          simp [storeWith, hh, hs, hv]
        rw [e1]
        simp only [Option.isSome_some, true_and, Except.ok.injEq]
        by_cases hr : validateRange (rangeIsUnsigned "binary") len ((decode t).length : Nat) = true
        · rw [if_pos hr]
          constructor
          · intro h
            simp only [Except.ok.injEq] at h
            subst h
            exact ⟨t, rfl, hv, rfl, rfl, hr⟩
          · rintro ⟨t', h2, _, hd, hc, _⟩
            subst h2
            cases v with
            | mk d c =>
              simp only at hd hc
              subst hd; subst hc; rfl
        · rw [if_neg hr]
          constructor
          · intro h; cases h
          · rintro ⟨t', h2, _, hd, _, h⟩
            subst h2
            rw [hd] at h; exact absurd h hr

theorem storeWith_hints (r : Bool) (len : List (Int × Int)) (s : Bytes) {h1 h2 : Nat} (a : (checkHints h1 "binary").isSome = true)
    (b : (checkHints h2 "binary").isSome = true) : storeWith r len h1 s = storeWith r len h2 s := by
  unfold storeWith
  cases e1 : checkHints h1 "binary" with
  | none => rw [e1] at a; cases a
  | some x =>
    cases e2 : checkHints h2 "binary" with
    | none => rw [e2] at b; cases b
    | some y => rfl

/-- a text of at most 64 bytes is left alone by `binary_base64_newlines` -/
theorem unfold64_short {s t : Bytes} (hs : s.length < 65) (h : Unfold64 s t) : t = s := by
  rcases h with ⟨_, e⟩ | ⟨h1, _⟩
  · exact e
  · omega

theorem unlybWith_ok_iff (c : Bool) (len : List (Int × Int)) (o : Bytes) (w : BVal) :
    unlybWith c len o = .ok w ↔ w = ⟨o, encode o⟩ ∧ (c = false ∨ validateRange (rangeIsUnsigned "binary") len (o.length : Nat) = true) := by
  unfold unlybWith
  cases c <;> cases hr : validateRange (rangeIsUnsigned "binary") len (o.length : Nat) <;> simp [eq_comm]

/-! ## compare and sort -/

theorem cmpEq_iff (a b : BVal) : cmpEq a b = true ↔ a.data = b.data := by
  unfold cmpEq
  constructor
  · intro h
    simp only [Bool.and_eq_true, beq_iff_eq] at h
    exact (memcmp_zero _ _ h.1).mp h.2
  · intro h
    rw [h]
    simp only [Bool.and_eq_true, beq_iff_eq, true_and]
    exact (memcmp_zero _ _ rfl).mpr rfl

theorem sort_antisymm (a b : BVal) : sort a b = -sort b a := by
  unfold sort
  by_cases h1 : a.data.length < b.data.length
  · rw [if_pos h1, if_neg (by omega), if_pos (by omega)]
  · by_cases h2 : a.data.length > b.data.length
    · rw [if_neg h1, if_pos h2, if_pos (by omega)]; decide
    · rw [if_neg h1, if_neg h2, if_neg (by omega), if_neg (by omega)]
      exact memcmp_antisymm _ _

theorem memcmp_range (a b : Bytes) : memcmp a b = -1 ∨ memcmp a b = 0 ∨ memcmp a b = 1 := by
  induction a generalizing b with
  | nil => simp [memcmp]
  | cons x r ih =>
    cases b with
    | nil => simp [memcmp]
    | cons y s =>
      simp only [memcmp]
      split
      · exact Or.inl rfl
      · split
        · exact Or.inr (Or.inr rfl)
        · exact ih s

theorem sort_zero_iff (a b : BVal) : sort a b = 0 ↔ a.data = b.data := by
  unfold sort
  by_cases h1 : a.data.length < b.data.length
  · rw [if_pos h1]
    constructor
    · intro h; cases h
    · intro h; rw [h] at h1; omega
  · by_cases h2 : a.data.length > b.data.length
    · rw [if_neg h1, if_pos h2]
      constructor
      · intro h; cases h
      · intro h; rw [h] at h2; omega
    · rw [if_neg h1, if_neg h2]
      exact memcmp_zero _ _ (by omega)

theorem sort_trans (a b c : BVal) (h1 : sort a b ≤ 0) (h2 : sort b c ≤ 0) : sort a c ≤ 0 := by
  unfold sort at *
  by_cases ab : a.data.length < b.data.length
  · by_cases bc : b.data.length < c.data.length
    · rw [if_pos (by omega)]; decide
    · by_cases bc' : b.data.length > c.data.length
      · rw [if_neg bc, if_pos bc'] at h2; exact absurd h2 (by decide)
      · rw [if_pos (by omega)]; decide
  · by_cases ab' : a.data.length > b.data.length
    · rw [if_neg ab, if_pos ab'] at h1; exact absurd h1 (by decide)
    · rw [if_neg ab, if_neg ab'] at h1
      by_cases bc : b.data.length < c.data.length
      · rw [if_pos (by omega)]; decide
      · by_cases bc' : b.data.length > c.data.length
        · rw [if_neg bc, if_pos bc'] at h2; exact absurd h2 (by decide)
        · rw [if_neg bc, if_neg bc'] at h2
          rw [if_neg (by omega), if_neg (by omega)]
          exact memcmp_trans _ _ _ (by omega) (by omega) h1 h2

theorem sort_total (a b : BVal) : sort a b ≤ 0 ∨ sort b a ≤ 0 := by
  rw [sort_antisymm b a]
  omega

end LyModel.Val.Bin
