import LyModel.Val.Model
import LyModel.Generated.ValExt
/-!
# `identityref` (component `Val`, property C03)

Executable model of `plugins_types/identityref.c` and of the pieces of `plugins_types.c` it uses:
* `identityref_str2ident`: the value is split at the FIRST `:`; without a colon the whole value is the name; an empty name
  is refused; the prefix is mapped to a module per format (`lyplg_type_identity_module` / `ly_resolve_prefix`):
  JSON / LYB / canonical — module names, no prefix = the module of the context node; XML — prefixes of the namespace
  declarations in scope, no prefix = the default namespace; schema — the import prefixes of the module that contains the
  value (and its own prefix), no prefix = that module; then the identity is searched by name in that module;
* `identityref_check_base` with `lyplg_type_identity_isderived`: recursion through the `derived` arrays (identities that
  name the identity in a `base` statement), i.e. "derived from" is the transitive, irreflexive closure;
  **the loop stops at the first base the identity is derived from** — a value is accepted when it is derived from SOME
  base of the type, where RFC 7950 §9.10.2 requires ALL (finding F410; `allBases = true` is the repaired reading);
* `identityref_check_ident`: an identity disabled by `if-feature` is refused (before the bases are looked at); all modules of the
  model are implemented;
* canonical value `module-name:identity-name` (the JSON form), LYB form = the same string, compare = same identity,
  `lyplg_type_sort_identityref` = `strcmp` of the identity NAMES only (finding F411: two identities with the same name in
  different modules are unequal but sort-equal).

A module set is a list of identity definitions in an order in which every base precedes the identities derived from it
(YANG forbids cycles, so such an order exists; `IdCtx.WF`).  Core Lean only (linked into `lydrv`).
-/
namespace LyModel.Val.Ident
open LyModel LyModel.Val

structure Ident where
  mod : Bytes
  name : Bytes
  deriving DecidableEq, Repr

/-- one `identity` statement with its `base` statements -/
structure IdDef where
  id : Ident
  bases : List Ident
  deriving DecidableEq, Repr

/-- how the prefixes of a value are resolved -/
structure PrefixMap where
  /-- prefix ↦ module name -/
  table : List (Bytes × Bytes)
  /-- module of a value without prefix -/
  dflt : Option Bytes

structure IdCtx where
  defs : List IdDef
  /-- identities whose `if-feature` is false (`lys_identity_iffeature_value` = `LY_ENOT`): they exist, other identities may be derived
      from them, but they are not values -/
  disabled : List Ident := []

inductive IErr
  | Hint | Empty | NoPrefix | NotFound | Disabled | NotDerived
  deriving DecidableEq, Repr

def IErr.name : IErr → String
  | .Hint => "Hint" | .Empty => "Empty" | .NoPrefix => "NoPrefix" | .NotFound => "NotFound" | .Disabled => "Disabled" | .NotDerived => "NotDerived"

/-- `base->derived`: the identities that have `b` in a `base` statement -/
def children (c : IdCtx) (b : Ident) : List Ident :=
  (c.defs.filter fun d => d.bases.contains b).map (·.id)

/-- `lyplg_type_identity_isderived(base, der)`; `fuel` bounds the depth of the recursion (the number of identities
    suffices: `isDerived`) -/
def isDerivedF (c : IdCtx) : Nat → Ident → Ident → Bool
  | 0, _, _ => false
  | f + 1, b, d => (children c b).any fun x => x == d || isDerivedF c f x d

def isDerived (c : IdCtx) (b d : Ident) : Bool := isDerivedF c c.defs.length b d

/-- split at the first `:` (`identityref_str2ident`): (prefix, name); no colon: (none, value) -/
def splitPrefix (s : Bytes) : Option Bytes × Bytes :=
  let p := s.takeWhile (· != 58)
  if p.length < s.length then (some p, s.drop (p.length + 1)) else (none, s)

/-- `lyplg_type_identity_module`: an empty prefix (value `:x`) counts as no prefix (`prefix_len == 0`) -/
def resolve (pm : PrefixMap) (pfx : Option Bytes) : Option Bytes :=
  match pfx with
  | some p => if p.isEmpty then pm.dflt else pm.table.lookup p
  | none => pm.dflt

/-- `identityref_check_base`; `allBases = false` is the code (stop at the first base the identity is derived from) -/
def checkBase (allBases : Bool) (c : IdCtx) (bases : List Ident) (d : Ident) : Bool :=
  if allBases then bases.all fun b => isDerived c b d else bases.any fun b => isDerived c b d

/-- `lyplg_type_store_identityref` -/
def storeIdWith (allBases : Bool) (c : IdCtx) (bases : List Ident) (pm : PrefixMap) (hints : Nat) (s : Bytes) : Except IErr Ident :=
  match checkHints hints "ident" with
  | none => .error .Hint
  | some _ =>
    let (pfx, name) := splitPrefix s
    if name.isEmpty then .error .Empty
    else match resolve pm pfx with
      | none => .error .NoPrefix
      | some m =>
        match c.defs.find? fun d => d.id.mod == m && d.id.name == name with
        | none => .error .NotFound
        | some d =>
          -- `identityref_check_ident` (enabled?) comes before `identityref_check_base`
          if c.disabled.contains d.id then .error .Disabled
          else if checkBase allBases c bases d.id then .ok d.id else .error .NotDerived

/-- the tree the model was generated from (`Generated.identBaseAll` is read off `identityref_check_base`) -/
def storeId := storeIdWith Generated.identBaseAll

/-- canonical value and LYB value: `module:name` -/
def canonId (i : Ident) : Bytes := i.mod ++ 58 :: i.name

/-- print in a format: the prefix the format has for the module (`lyplg_type_get_prefix`), `name` alone when there is none -/
def printId (rev : List (Bytes × Bytes)) (i : Ident) : Bytes :=
  match rev.lookup i.mod with
  | some p => p ++ 58 :: i.name
  | none => i.name

/-- `lyplg_type_compare_identityref`: same `lysc_ident` -/
def cmpEqId (a b : Ident) : Bool := a == b

/-- `lyplg_type_sort_identityref`: `strcmp(ident->name)`; `byModule = false` (the pinned tree) does not look at the module, the
    repaired code compares the module names when the identity names are equal -/
def sortIdWith (byModule : Bool) (a b : Ident) : Int :=
  let c := strcmp a.name b.name
  if byModule && c == 0 then strcmp a.mod b.mod else c

def sortId := sortIdWith Generated.identSortModule

end LyModel.Val.Ident
