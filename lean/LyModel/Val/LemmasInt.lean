import LyModel.Val.LemmasBasic
import LyModel.Val.Spec
/-! `strtoll`/`strtoull` in base 10 and the integer lexical parsers against the RFC lexical space. -/
set_option linter.unusedSimpArgs false
namespace LyModel.Val
open LyModel

theorem hasHexPrefix10 (t : Bytes) : hasHexPrefix 10 t = false := by
  unfold hasHexPrefix
  split <;> simp

/-- the result of scanning a number in base 10, as a function of the three pieces the scan computes -/
theorem strtoCore10 (s : Bytes) :
    strtoCore 10 s =
      (let t := s.dropWhile isSpace
       let t1 := if t.head? == some 45 || t.head? == some 43 then t.tail else t
       if (t1.takeWhile isDigit).isEmpty then { neg := t.head? == some 45, mag := 0, rest := s, conv := false }
       else { neg := t.head? == some 45, mag := valOf 10 (t1.takeWhile isDigit), rest := t1.dropWhile isDigit, conv := true }) := by
  unfold strtoCore
  simp only [hasHexPrefix10]
  simp [isDigitB10_fun]

theorem sign_head_not_space {sg x : Bytes} (hs : IsSign sg) (hx : ∀ c, x.head? = some c → isSpace c = false) :
    ∀ c, (sg ++ x).head? = some c → isSpace c = false := by
  rcases hs with rfl | rfl | rfl
  · simpa using hx
  · intro c hc; simp at hc; subst hc; decide
  · intro c hc; simp at hc; subst hc; decide

theorem digits_head {ds r : Bytes} (hne : ds ≠ []) (hd : ds.all isDigit = true) : ∀ c, (ds ++ r).head? = some c → isDigit c = true := by
  cases ds with
  | nil => exact absurd rfl hne
  | cons a t =>
    intro c hc
    simp at hc; subst hc
    simp only [List.all_cons, Bool.and_eq_true] at hd
    exact hd.1

/-- computing on a string that is laid out as whitespace, sign, digits, remainder -/
theorem strtoCore10_of_layout {l sg ds r : Bytes} (hl : l.all isSpace = true) (hs : IsSign sg) (hne : ds ≠ [])
    (hd : ds.all isDigit = true) (hr : ∀ c, r.head? = some c → isDigit c = false) :
    strtoCore 10 (l ++ sg ++ ds ++ r) = { neg := sg == [45], mag := valOf 10 ds, rest := r, conv := true } := by
  have hdh := digits_head (r := r) hne hd
  have hcore : ∀ c, (sg ++ (ds ++ r)).head? = some c → isSpace c = false :=
    sign_head_not_space hs (fun c hc => digit_not_space (hdh c hc))
  have ht : (l ++ sg ++ ds ++ r).dropWhile isSpace = sg ++ (ds ++ r) := by
    rw [List.append_assoc, List.append_assoc]
    exact dropWhile_append_stop hl hcore
  rw [strtoCore10]
  simp only [ht]
  have htw : (ds ++ r).takeWhile isDigit = ds := takeWhile_append_stop hd hr
  have hdw : (ds ++ r).dropWhile isDigit = r := dropWhile_append_stop hd hr
  have hne' : ds.isEmpty = false := by cases ds <;> simp_all
  have hd0 : ∀ c, (ds ++ r).head? = some c → c ≠ 45 ∧ c ≠ 43 := by
    intro c hc
    have := (isDigit_iff c).mp (hdh c hc)
    constructor <;> (intro h; subst h; simp at this)
  generalize ds ++ r = x at ht htw hdw hd0
  rcases hs with rfl | rfl | rfl
  · have h1 : (x.head? == some 45) = false := by
      cases hh : x.head? with
      | none => rfl
      | some c => have := (hd0 c hh).1; simp [this]
    have h2 : (x.head? == some 43) = false := by
      cases hh : x.head? with
      | none => rfl
      | some c => have := (hd0 c hh).2; simp [this]
    simp only [List.nil_append, h1, h2, Bool.or_self, Bool.false_eq_true, if_false, htw, hdw, hne']
    simp
  · simp [htw, hdw, hne']
  · simp [htw, hdw, hne']

theorem strtoCore10_eq (s t t1 : Bytes) (ht : s.dropWhile isSpace = t)
    (ht1 : (if t.head? == some 45 || t.head? == some 43 then t.tail else t) = t1) :
    strtoCore 10 s =
      if (t1.takeWhile isDigit).isEmpty then { neg := t.head? == some 45, mag := 0, rest := s, conv := false }
      else { neg := t.head? == some 45, mag := valOf 10 (t1.takeWhile isDigit), rest := t1.dropWhile isDigit, conv := true } := by
  rw [strtoCore10]; subst ht; subst ht1; rfl

/-- every successful scan comes from such a layout -/
theorem layout_of_strtoCore10 (s : Bytes) (h : (strtoCore 10 s).conv = true) :
    ∃ l sg ds, s = l ++ sg ++ ds ++ (strtoCore 10 s).rest ∧ l.all isSpace = true ∧ IsSign sg ∧ ds ≠ [] ∧ ds.all isDigit = true ∧
      (∀ c, (strtoCore 10 s).rest.head? = some c → isDigit c = false) ∧
      (strtoCore 10 s).neg = (sg == [45]) ∧ (strtoCore 10 s).mag = valOf 10 ds := by
  have hs : s = s.takeWhile isSpace ++ s.dropWhile isSpace := List.takeWhile_append_dropWhile.symm
  have hl := all_takeWhile isSpace s
  generalize s.takeWhile isSpace = l at hs hl
  generalize ht : s.dropWhile isSpace = t at hs
  -- split off the sign
  obtain ⟨sg, t1, hsg, htt, hneg, ht1⟩ : ∃ sg t1, IsSign sg ∧ t = sg ++ t1 ∧ (t.head? == some 45) = (sg == [45]) ∧
      (if t.head? == some 45 || t.head? == some 43 then t.tail else t) = t1 := by
    cases t with
    | nil => exact ⟨[], [], Or.inl rfl, rfl, rfl, rfl⟩
    | cons a r =>
      by_cases h45 : a = 45
      · subst h45; exact ⟨[45], r, Or.inr (Or.inr rfl), rfl, by simp, by simp⟩
      · by_cases h43 : a = 43
        · subst h43; exact ⟨[43], r, Or.inr (Or.inl rfl), rfl, by simp, by simp⟩
        · exact ⟨[], a :: r, Or.inl rfl, rfl, by simp [h45], by simp [h45, h43]⟩
  rw [strtoCore10_eq s t t1 ht ht1] at h ⊢
  by_cases hem : (t1.takeWhile isDigit).isEmpty = true
  · rw [if_pos hem] at h; cases h
  · rw [if_neg hem]
    refine ⟨l, sg, t1.takeWhile isDigit, ?_, hl, hsg, ?_, all_takeWhile isDigit t1, head_dropWhile isDigit t1, hneg, rfl⟩
    · show s = l ++ sg ++ t1.takeWhile isDigit ++ t1.dropWhile isDigit
      rw [List.append_assoc, List.append_assoc, List.takeWhile_append_dropWhile, ← htt]; exact hs
    · intro h0; rw [h0] at hem; simp at hem

end LyModel.Val
