import LyModel.Base
import LyModel.Generated.Consts
import LyModel.Generated.ValBounds
import LyModel.Text.Utf8
/-!
# Typed values (component `Val`, property C03)

Executable model of
* `ly_common.c`: `ly_parse_int`, `ly_parse_uint` and the libc `strtoll` / `strtoull` they rely on,
* `plugins_types.c`: `lyplg_type_parse_int`, `lyplg_type_parse_uint`, `lyplg_type_parse_dec64`,
  `lyplg_type_validate_range`, `lyplg_type_check_hints` (through the *generated* table),
* `plugins_types/integer.c`, `decimal64.c` (incl. `decimal64_num2str`), `boolean.c`, `enumeration.c`, `bits.c`,
  the length check of `string.c`: store (text and LYB), canonical print, compare, sort, LYB print.

Values are `Int` / `Nat` with explicit bounds; 64-bit edges are handled the way the C does (ERANGE from
`strtoll`/`strtoull`, two's-complement reinterpretation in the unsigned range branch and in LYB decode).
The code's quirks are kept: whitespace around numbers is accepted, decimal64 needs no digit after a sign (finding F2),
the enumeration sort callback orders by *descending* value, and a JSON string carrying a 64-bit integer is parsed in
base 0 (the generated hint table says so).  Core Lean only (linked into `lydrv`).
-/
namespace LyModel.Val
open LyModel

/-! ## characters (C locale) -/

/-- `isspace` -/
def isSpace (c : UInt8) : Bool := c.toNat == 32 || (9 ≤ c.toNat && c.toNat ≤ 13)
/-- `isdigit` -/
def isDigit (c : UInt8) : Bool := 48 ≤ c.toNat && c.toNat ≤ 57

/-- value of `c` as a digit (glibc: `0-9`, `a-z`, `A-Z`), 255 when it is none -/
def digitRaw (c : UInt8) : Nat :=
  let n := c.toNat
  if 48 ≤ n ∧ n ≤ 57 then n - 48 else if 97 ≤ n ∧ n ≤ 122 then n - 87 else if 65 ≤ n ∧ n ≤ 90 then n - 55 else 255

def isDigitB (base : Nat) (c : UInt8) : Bool := digitRaw c < base

/-- positional value of a digit string, most significant first -/
def valOf (base : Nat) (ds : Bytes) : Nat := ds.foldl (fun a c => a * base + digitRaw c) 0

/-- the C string inside a buffer: bytes before the first NUL (`strndup`) -/
def cstr (s : Bytes) : Bytes := s.takeWhile (· != 0)

/-! ## `strtoll` / `strtoull` (glibc 2.36, "C" locale) -/

structure Strto where
  neg : Bool          -- a '-' sign was read
  mag : Nat           -- magnitude of the digit run, unbounded
  rest : Bytes        -- `*endptr`
  conv : Bool         -- false: no conversion was performed (`endptr == nptr`)

def hasHexPrefix (base : Nat) (t : Bytes) : Bool :=
  match t with
  | a :: b :: _ => a.toNat == 48 && (b.toNat == 120 || b.toNat == 88) && (base == 0 || base == 16)
  | _ => false

/-- Common part of `strtoll`/`strtoull`: leading `isspace`, optional sign, optional `0x`/`0` prefix (base 0 / 16),
    the maximal run of digits of the base.  `0x` not followed by a hex digit converts the `0` and stops at the `x`. -/
def strtoCore (base : Nat) (s : Bytes) : Strto :=
  let t := s.dropWhile isSpace
  let neg := t.head? == some 45
  let t1 := if t.head? == some 45 || t.head? == some 43 then t.tail else t
  if hasHexPrefix base t1 then
    let body := t1.drop 2
    let ds := body.takeWhile (isDigitB 16)
    if ds.isEmpty then { neg := neg, mag := 0, rest := t1.drop 1, conv := true }
    else { neg := neg, mag := valOf 16 ds, rest := body.dropWhile (isDigitB 16), conv := true }
  else
    let b := if base == 0 then (if t1.head? == some 48 then 8 else 10) else base
    let ds := t1.takeWhile (isDigitB b)
    if ds.isEmpty then { neg := neg, mag := 0, rest := s, conv := false }
    else { neg := neg, mag := valOf b ds, rest := t1.dropWhile (isDigitB b), conv := true }

/-- error kinds of the value plug-ins (what the harness maps the messages to) -/
inductive VErr
  | Hint | Empty | Bounds | Invalid | BadChar | FracDigits | Range | Length | BadBit | DupBit | BadUtf8 | LybSize
  deriving DecidableEq, Repr

def VErr.name : VErr → String
  | .Hint => "Hint" | .Empty => "Empty" | .Bounds => "Bounds" | .Invalid => "Invalid" | .BadChar => "BadChar"
  | .FracDigits => "FracDigits" | .Range => "Range" | .Length => "Length" | .BadBit => "BadBit" | .DupBit => "DupBit"
  | .BadUtf8 => "BadUtf8" | .LybSize => "LybSize"

def allSpace (s : Bytes) : Bool := s.all isSpace

/-- `ly_parse_int(str, …, min, max, base)` on the duplicated C string: `LY_EVALID` ↦ `Invalid`, `LY_EDENIED` ↦ `Bounds`.
    `strtoll` sets `ERANGE` when the magnitude exceeds 2⁶³−1 (2⁶³ after a '-'). -/
def lyParseInt (str : Bytes) (min max : Int) (base : Nat) : Except VErr Int :=
  let r := strtoCore base str
  let erange := if r.neg then r.mag > 2 ^ 63 else r.mag > 2 ^ 63 - 1
  if erange || !r.conv then .error .Invalid
  else
    let i : Int := if r.neg then -(r.mag : Int) else (r.mag : Int)
    if i < min || i > max then .error .Bounds
    else if allSpace r.rest then .ok i else .error .Invalid

/-- `ly_parse_uint`: `strtoull` negates modulo 2⁶⁴ after a '-', `ERANGE` above 2⁶⁴−1; a non-zero value of a string that
    starts with '-' is `LY_EDENIED`. -/
def lyParseUint (str : Bytes) (max : Nat) (base : Nat) : Except VErr Int :=
  let r := strtoCore base str
  if r.mag > 2 ^ 64 - 1 || !r.conv then .error .Invalid
  else
    let u : Nat := if r.neg then (2 ^ 64 - r.mag) % 2 ^ 64 else r.mag
    if u > max || (u != 0 && str.head? == some 45) then .error .Bounds
    else if allSpace r.rest then .ok (u : Int) else .error .Invalid

/-- `lyplg_type_parse_int` -/
def parseInt (base : Nat) (min max : Int) (value : Bytes) : Except VErr Int :=
  let v := value.dropWhile isSpace
  if v.isEmpty || v.head? == some 0 then .error .Empty
  else lyParseInt (cstr v) min max base

/-- `lyplg_type_parse_uint` -/
def parseUint (base : Nat) (max : Nat) (value : Bytes) : Except VErr Int :=
  let v := value.dropWhile isSpace
  if v.isEmpty || v.head? == some 0 then .error .Empty
  else lyParseUint (cstr v) max base

/-! ## decimal64 lexical parser -/

def zeros (n : Nat) : Bytes := List.replicate n 48

/-- remove the trailing `'0'` characters (`trailing_zeros` of `lyplg_type_parse_dec64`) -/
def stripTrailingZeros (ds : Bytes) : Bytes := (ds.reverse.dropWhile (· == 48)).reverse

/-- the tail of `lyplg_type_parse_dec64`: the digits without the point, zero-padded to `fd` fraction digits, go to
    `lyplg_type_parse_int("decimal64", …)` -/
def decFinal (fd : Nat) (sg ip frs : Bytes) : Except VErr Int :=
  parseInt Generated.dec64ParseBase Generated.dec64Min Generated.dec64Max (sg ++ ip ++ frs ++ zeros (fd - frs.length))

/-- `lyplg_type_parse_dec64` after the optional sign `sg`: integer digits, optional `.` + digits (only if a digit
    follows the point), trailing whitespace.  The fraction-digits check precedes the trailing-garbage check. -/
def decBody (fd : Nat) (sg t : Bytes) : Except VErr Int :=
  let ip := t.takeWhile isDigit
  let r1 := t.dropWhile isDigit
  match r1 with
  | [] => decFinal fd sg ip []
  | d :: r2 =>
    if d.toNat == 46 && (r2.head?.map isDigit).getD false then
      let fr := r2.takeWhile isDigit
      let r3 := r2.dropWhile isDigit
      let frs := stripTrailingZeros fr
      if frs.length > fd then .error .FracDigits
      else if !allSpace r3 then .error .BadChar
      else decFinal fd sg ip frs
    else if !allSpace r1 then .error .BadChar
    else decFinal fd sg ip []

/-- `lyplg_type_parse_dec64(fraction_digits, value, value_len)`; `value[value_len]` is the terminating NUL.
    `needDigit`: whether the code refuses a sign that is not followed by a digit — the pinned tree does not (finding F2),
    the repaired one does; the translator derives the flag by executing the C function (`Generated.dec64SignNeedsDigit`). -/
def parseDec64With (needDigit : Bool) (fd : Nat) (value : Bytes) : Except VErr Int :=
  let v := value.dropWhile isSpace
  match v with
  | [] => .error .Empty
  | c :: t =>
    if !isDigit c && c.toNat != 45 && c.toNat != 43 then .error .BadChar
    else if c.toNat == 45 || c.toNat == 43 then
      if needDigit && !(t.head?.map isDigit).getD false then .error .BadChar
      else decBody fd [c] t
    else decBody fd [] (c :: t)

/-- the parser of the tree the model was generated from -/
def parseDec64 (fd : Nat) (value : Bytes) : Except VErr Int := parseDec64With Generated.dec64SignNeedsDigit fd value

/-! ## hints -/

/-- `lyplg_type_check_hints(hints, …, basetype, &base)`: `none` = rejected, `some base` otherwise
    (254 for the types that take no base).  Read from the table the translator produced by executing the C. -/
def checkHints (hints : Nat) (basetype : String) : Option Nat :=
  match Generated.checkHintsTable.lookup basetype with
  | none => none
  | some row =>
    let e := row.getD (hints % 128) 255
    if e == 255 then none else some e

/-! ## range / length check -/

/-- `(uint64_t)x` for a 64-bit pattern given as an integer -/
def u64 (v : Int) : Int := v % 2 ^ 64

/-- `lyplg_type_validate_range` over the compiled parts (`min`, `max` as mathematical integers): `true` = `LY_SUCCESS`.
    The unsigned branch compares the 64-bit patterns as `uint64_t`. -/
def validateRange (unsigned : Bool) : List (Int × Int) → Int → Bool
  | [], _ => true
  | (lo, hi) :: rest, v =>
    let lt := if unsigned then u64 v < u64 lo else v < lo
    let le := if unsigned then u64 v ≤ u64 hi else v ≤ hi
    if lt then false
    else if le then true
    else if rest.isEmpty then false
    else validateRange unsigned rest v

def rangeIsUnsigned (basetype : String) : Bool := (Generated.rangeUnsigned.lookup basetype).getD 0 == 1

/-! ## integer types -/

inductive IntTy | int8 | int16 | int32 | int64 | uint8 | uint16 | uint32 | uint64
  deriving DecidableEq, Repr

namespace IntTy
def name : IntTy → String
  | int8 => "int8" | int16 => "int16" | int32 => "int32" | int64 => "int64"
  | uint8 => "uint8" | uint16 => "uint16" | uint32 => "uint32" | uint64 => "uint64"
def signed : IntTy → Bool
  | int8 | int16 | int32 | int64 => true
  | _ => false
def bits : IntTy → Nat
  | int8 | uint8 => 8 | int16 | uint16 => 16 | int32 | uint32 => 32 | int64 | uint64 => 64
/-- lower bound handed to the parser (generated; 0 for the unsigned types, which have none) -/
def min (t : IntTy) : Int := if t.signed then ((Generated.intBounds.lookup t.name).getD (0, 0)).1 else 0
/-- upper bound handed to the parser (generated) -/
def max (t : IntTy) : Int :=
  if t.signed then ((Generated.intBounds.lookup t.name).getD (0, 0)).2 else ((Generated.uintBounds.lookup t.name).getD 0 : Nat)
/-- `integer_lyb_size[]` (generated) -/
def lybSize (t : IntTy) : Nat := (Generated.integerLybSize.lookup t.name).getD 0
end IntTy

/-- `storage->int8 = num; num = storage->int8` etc.: truncation to the width of the type -/
def wrap (t : IntTy) (n : Int) : Int :=
  if t.signed then (n + 2 ^ (t.bits - 1)) % 2 ^ t.bits - 2 ^ (t.bits - 1) else n % 2 ^ t.bits

/-- the character of a decimal digit -/
def digitChar (d : Nat) : UInt8 := UInt8.ofNat (48 + d)

/-- decimal digits of a natural number (what `printf("%u")` prints); `fuel` bounds the number of digits -/
def natDecF : Nat → Nat → Bytes
  | 0, _ => []
  | f + 1, n => if n < 10 then [digitChar n] else natDecF f (n / 10) ++ [digitChar (n % 10)]

def natDec (n : Nat) : Bytes := natDecF (n + 1) n

/-- `printf("%d")` -/
def intDec (v : Int) : Bytes := if v < 0 then 45 :: natDec v.natAbs else natDec v.natAbs

/-- `lyplg_type_store_int` / `lyplg_type_store_uint`, text formats. -/
def storeInt (t : IntTy) (range : List (Int × Int)) (hints : Nat) (s : Bytes) : Except VErr Int :=
  match checkHints hints t.name with
  | none => .error .Hint
  | some base =>
    match (if t.signed then parseInt base t.min t.max s else parseUint base t.max.toNat s) with
    | .error e => .error e
    | .ok num =>
      let num := wrap t num
      if validateRange (rangeIsUnsigned t.name) range num then .ok num else .error .Range

def canonInt (v : Int) : Bytes := intDec v

/-- little-endian bytes -/
def leBytes : Nat → Nat → Bytes
  | 0, _ => []
  | n + 1, v => UInt8.ofNat (v % 256) :: leBytes n (v / 256)

def ofLe : Bytes → Nat
  | [] => 0
  | b :: r => b.toNat + 256 * ofLe r

/-- `lyplg_type_print_int/uint` with `LY_VALUE_LYB` -/
def lybInt (t : IntTy) (v : Int) : Bytes := leBytes t.lybSize (v % 2 ^ (8 * t.lybSize)).toNat

/-- `lyplg_type_store_int/uint` with `LY_VALUE_LYB` -/
def unlybInt (t : IntTy) (range : List (Int × Int)) (b : Bytes) : Except VErr Int :=
  if b.length != t.lybSize then .error .LybSize
  else
    let num := wrap t (ofLe b : Nat)
    if validateRange (rangeIsUnsigned t.name) range num then .ok num else .error .Range

/-- sort callbacks: sign of the comparison -/
def cmpInt (a b : Int) : Int := if a < b then -1 else if a > b then 1 else 0

/-! ## decimal64 -/

/-- `sprintf("%0*lld", width, num)`: zero padding between the sign and the digits up to `width` characters -/
def sprintf0D (width : Nat) (num : Int) : Bytes :=
  let ds := natDec num.natAbs
  if num < 0 then 45 :: (zeros (width - 1 - ds.length) ++ ds) else zeros (width - ds.length) ++ ds

/-- The shuffle loop of `decimal64_num2str` as a zipper over the buffer: `left` is `ret[0 .. count-1)` reversed (its head is
    `ret[count-2]`), `right` is the finished text after the hole at `ret[count-1]`.  `i+1` is the C loop variable `i`,
    `j` its flag.  Skipping branch: `ret[count-1] = '\0'`; shifting branch: `ret[count-1] = ret[count-2]`; then `count--`. -/
def shuffle : Nat → Bool → Bytes → Bytes → Bytes × Bytes
  | 0, _, l, r => (l, r)
  | i + 1, j, l, r =>
    match l with
    | [] => (l, r)
    | c :: l' =>
      if j && (i + 1 > 1) && c.toNat == 48 then shuffle i true l' []
      else shuffle i false l' (c :: r)

/-- `decimal64_num2str` -/
def num2str (fd : Nat) (num : Int) : Bytes :=
  if num == 0 then [48, 46, 48]
  else
    let s0 := intDec num
    let count := s0.length + 1                 -- `sprintf("%lld ")` counts the trailing space
    let s := if (num > 0 && count - 1 ≤ fd) || count - 2 ≤ fd then sprintf0D (if num > 0 then fd + 1 else fd + 2) num else s0
    let (l, r) := shuffle fd true s.reverse []
    l.reverse ++ [46] ++ r

/-- bytes `decimal64_num2str` needs in its `LY_NUMBER_MAXLEN` buffer: the longer `sprintf` output plus the NUL -/
def num2strBufNeed (fd : Nat) (num : Int) : Nat :=
  if num == 0 then 4
  else
    let s0 := intDec num
    let count := s0.length + 1
    let s := if (num > 0 && count - 1 ≤ fd) || count - 2 ≤ fd then sprintf0D (if num > 0 then fd + 1 else fd + 2) num else s0
    s.length + 2

/-- `lyplg_type_store_decimal64`, text formats -/
def storeDec64With (needDigit : Bool) (fd : Nat) (range : List (Int × Int)) (hints : Nat) (s : Bytes) : Except VErr Int :=
  match checkHints hints "dec64" with
  | none => .error .Hint
  | some _ =>
    match parseDec64With needDigit fd s with
    | .error e => .error e
    | .ok num => if validateRange (rangeIsUnsigned "dec64") range num then .ok num else .error .Range

def storeDec64 (fd : Nat) (range : List (Int × Int)) (hints : Nat) (s : Bytes) : Except VErr Int :=
  storeDec64With Generated.dec64SignNeedsDigit fd range hints s

def lybDec64 (v : Int) : Bytes := leBytes 8 (v % 2 ^ 64).toNat

def unlybDec64 (range : List (Int × Int)) (b : Bytes) : Except VErr Int :=
  if b.length != 8 then .error .LybSize
  else
    let num := ((ofLe b : Nat) + 2 ^ 63 : Int) % 2 ^ 64 - 2 ^ 63
    if validateRange (rangeIsUnsigned "dec64") range num then .ok num else .error .Range

/-! ## boolean -/

def strTrue : Bytes := [116, 114, 117, 101]
def strFalse : Bytes := [102, 97, 108, 115, 101]

def storeBool (hints : Nat) (s : Bytes) : Except VErr Bool :=
  match checkHints hints "bool" with
  | none => .error .Hint
  | some _ => if s == strTrue then .ok true else if s == strFalse then .ok false else .error .Invalid

def canonBool (b : Bool) : Bytes := if b then strTrue else strFalse
def lybBool (b : Bool) : Bytes := [if b then 1 else 0]
def unlybBool (b : Bytes) : Except VErr Bool :=
  match b with
  | [x] => .ok (x != 0)
  | _ => .error .LybSize
/-- `lyplg_type_sort_boolean` -/
def sortBool (a b : Bool) : Int := cmpInt (if a then 1 else 0) (if b then 1 else 0)

/-! ## enumeration -/

structure EnumItem where
  name : Bytes
  value : Int
  deriving DecidableEq, Repr

/-- first item whose name is the whole value (`ly_strncmp`) -/
def findEnum (items : List EnumItem) (s : Bytes) : Option EnumItem := items.find? (·.name == s)

def storeEnum (items : List EnumItem) (hints : Nat) (s : Bytes) : Except VErr EnumItem :=
  match checkHints hints "enum" with
  | none => .error .Hint
  | some _ => match findEnum items s with
    | some it => .ok it
    | none => .error .Invalid

def lybEnum (it : EnumItem) : Bytes := leBytes 4 (it.value % 2 ^ 32).toNat

def unlybEnum (items : List EnumItem) (b : Bytes) : Except VErr EnumItem :=
  if b.length != 4 then .error .LybSize
  else
    let v : Int := ((ofLe b : Nat) + 2 ^ 31 : Int) % 2 ^ 32 - 2 ^ 31
    match items.find? (·.value == v) with
    | some it => .ok it
    | none => .error .Invalid

/-- `lyplg_type_sort_enum`: −1 when the first value is the *greater* one (descending order by value) -/
def sortEnum (a b : EnumItem) : Int := if a.value > b.value then -1 else if a.value < b.value then 1 else 0

/-! ## bits -/

structure BitItem where
  name : Bytes
  pos : Nat
  deriving DecidableEq, Repr

def lastBitPos (items : List BitItem) : Nat := (items.getLast?.map (·.pos)).getD 0

/-- `lyplg_type_bits_bitmap_size` -/
def bitmapSize (items : List BitItem) : Nat :=
  let n := lastBitPos items + 1
  let needed := n / 8 + (if n % 8 != 0 then 1 else 0)
  if needed == 1 || needed == 2 then needed else if needed < 5 then 4 else if needed < 9 then 8 else needed

/-- whitespace-separated tokens, in order (the scanning loop of `bits_str2bitmap`) -/
def tokensAux : Bytes → Bytes → List Bytes
  | [], cur => if cur.isEmpty then [] else [cur.reverse]
  | c :: r, cur =>
    if isSpace c then (if cur.isEmpty then tokensAux r [] else cur.reverse :: tokensAux r [])
    else tokensAux r (c :: cur)

def tokens (s : Bytes) : List Bytes := tokensAux s []

/-- `bits_str2bitmap` over the token list; the bitmap is the natural number whose bit `p` is position `p` -/
def str2bitmap (items : List BitItem) : List Bytes → Nat → Except VErr Nat
  | [], m => .ok m
  | tok :: r, m =>
    match items.find? (·.name == tok) with
    | none => .error .BadBit
    | some it =>
      if m.testBit it.pos then .error .DupBit
      else str2bitmap items r (m ||| (1 <<< it.pos))

def storeBits (items : List BitItem) (hints : Nat) (s : Bytes) : Except VErr Nat :=
  match checkHints hints "bits" with
  | none => .error .Hint
  | some _ => str2bitmap items (tokens s) 0

/-- `bits_bitmap2items`: walk the positions `0 ..= last`, look every set one up by position -/
def bitmap2items (items : List BitItem) (m : Nat) : List BitItem :=
  (List.range (lastBitPos items + 1)).filterMap fun p => if m.testBit p then items.find? (·.pos == p) else none

def joinSp : List Bytes → Bytes
  | [] => []
  | [a] => a
  | a :: r => a ++ 32 :: joinSp r

/-- `bits_items2canon` -/
def canonBits (items : List BitItem) (m : Nat) : Bytes := joinSp ((bitmap2items items m).map (·.name))

def lybBits (items : List BitItem) (m : Nat) : Bytes := leBytes (bitmapSize items) m

def unlybBits (items : List BitItem) (b : Bytes) : Except VErr Nat :=
  if b.length != bitmapSize items then .error .LybSize else .ok (ofLe b)

/-- `memcmp` sign -/
def memcmp : Bytes → Bytes → Int
  | a :: r, b :: s => if a.toNat < b.toNat then -1 else if a.toNat > b.toNat then 1 else memcmp r s
  | _, _ => 0

def sortBits (items : List BitItem) (a b : Nat) : Int := memcmp (lybBits items a) (lybBits items b)

/-! ## string -/

/-- `string_check_chars`: every character passes `ly_checkutf8` -/
def checkChars : Nat → Bytes → Bool
  | 0, s => s.isEmpty
  | f + 1, s =>
    if s.isEmpty then true
    else match Utf8.checkUtf8 s s.length with
      | none => false
      | some n => checkChars f (s.drop n)

/-- `utf8_char_length_table` by lead byte -/
def utf8CharLen (b : UInt8) : Nat :=
  let n := b.toNat
  if n < 0xC0 then 1 else if n < 0xE0 then 2 else if n < 0xF0 then 3 else if n < 0xF8 then 4 else if n < 0xFC then 5
  else if n < 0xFE then 6 else 1

/-- `ly_utf8len` -/
def utf8Len : Nat → Bytes → Nat
  | 0, _ => 0
  | _, [] => 0
  | f + 1, b :: r => if b == 0 then 0 else 1 + utf8Len f ((b :: r).drop (utf8CharLen b))

def storeStr (length : List (Int × Int)) (hints : Nat) (s : Bytes) : Except VErr Bytes :=
  if !checkChars (s.length + 1) s then .error .BadUtf8
  else match checkHints hints "string" with
    | none => .error .Hint
    | some _ =>
      if validateRange (rangeIsUnsigned "string") length (utf8Len (s.length + 1) s : Nat) then .ok s else .error .Length

/-- `strcmp` sign (`lyplg_type_sort_simple`) -/
def strcmp : Bytes → Bytes → Int
  | [], [] => 0
  | [], _ :: _ => -1
  | _ :: _, [] => 1
  | a :: r, b :: s => if a.toNat < b.toNat then -1 else if a.toNat > b.toNat then 1 else strcmp r s

/-! ## the uniform interface (DESIGN Appendix A) -/

inductive Ty
  | int (t : IntTy) (range : List (Int × Int))
  | dec64 (fd : Nat) (range : List (Int × Int))
  | bool
  | enum (items : List EnumItem)
  | bits (items : List BitItem)
  | str (length : List (Int × Int))
  deriving Repr

inductive Value
  | num (v : Int)
  | bool (b : Bool)
  | enum (it : EnumItem)
  | bits (m : Nat)
  | str (s : Bytes)
  deriving DecidableEq, Repr

def store (ty : Ty) (hints : Nat) (s : Bytes) : Except VErr Value :=
  match ty with
  | .int t r => (storeInt t r hints s).map .num
  | .dec64 fd r => (storeDec64 fd r hints s).map .num
  | .bool => (storeBool hints s).map .bool
  | .enum items => (storeEnum items hints s).map .enum
  | .bits items => (storeBits items hints s).map .bits
  | .str len => (storeStr len hints s).map .str

def canon (ty : Ty) (v : Value) : Bytes :=
  match ty, v with
  | .int _ _, .num n => canonInt n
  | .dec64 fd _, .num n => num2str fd n
  | _, .bool b => canonBool b
  | _, .enum it => it.name
  | .bits items, .bits m => canonBits items m
  | _, .str s => s
  | _, _ => []

/-- the plug-in `compare` callback: `true` = `LY_SUCCESS` -/
def cmpEq (ty : Ty) (a b : Value) : Bool :=
  match ty, a, b with
  | _, .num x, .num y => x == y
  | _, .bool x, .bool y => x == y
  | _, .enum x, .enum y => x.name == y.name          -- `lyplg_type_compare_simple`: same dictionary string
  | _, .bits x, .bits y => x == y                    -- `memcmp` of bitmaps of equal size
  | _, .str x, .str y => x == y
  | _, _, _ => false

/-- the plug-in `sort` callback, as a sign -/
def sort (ty : Ty) (a b : Value) : Int :=
  match ty, a, b with
  | _, .num x, .num y => cmpInt x y
  | _, .bool x, .bool y => sortBool x y
  | _, .enum x, .enum y => sortEnum x y
  | .bits items, .bits x, .bits y => sortBits items x y
  | _, .str x, .str y => strcmp x y
  | _, _, _ => 0

def lyb (ty : Ty) (v : Value) : Bytes :=
  match ty, v with
  | .int t _, .num n => lybInt t n
  | .dec64 _ _, .num n => lybDec64 n
  | _, .bool b => lybBool b
  | _, .enum it => lybEnum it
  | .bits items, .bits m => lybBits items m
  | _, .str s => s
  | _, _ => []

def unlyb (ty : Ty) (b : Bytes) : Except VErr Value :=
  match ty with
  | .int t r => (unlybInt t r b).map .num
  | .dec64 _ r => (unlybDec64 r b).map .num
  | .bool => (unlybBool b).map .bool
  | .enum items => (unlybEnum items b).map .enum
  | .bits items => (unlybBits items b).map .bits
  | .str len => (storeStr len Generated.LYD_HINT_DATA b).map .str

end LyModel.Val
