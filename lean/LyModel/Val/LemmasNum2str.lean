import LyModel.Val.LemmasDecArith
/-! `decimal64_num2str`: the buffer shuffle computes sign, integer digits, point, fraction digits without superfluous zeros. -/
set_option linter.unusedSimpArgs false
namespace LyModel.Val
open LyModel

/-- shifting phase (`j == 0`): the remaining `i` characters move one place to the right -/
theorem shuffle_shift : ∀ (i : Nat) (X rest r : Bytes), X.length = i → shuffle i false (X.reverse ++ rest) r = (rest, X ++ r)
  | 0, X, rest, r, h => by
    have : X = [] := List.length_eq_zero_iff.mp h
    subst this; rfl
  | i + 1, X, rest, r, h => by
    rcases List.eq_nil_or_concat X with h0 | ⟨X', c, hc⟩
    · subst h0; simp at h
    · rw [List.concat_eq_append] at hc; subst hc
      have hl : X'.length = i := by simp at h; omega
      rw [List.reverse_append, List.reverse_singleton, List.singleton_append, List.cons_append]
      unfold shuffle
      simp only [Bool.false_and, Bool.false_eq_true, if_false]
      rw [shuffle_shift i X' rest (c :: r) hl]
      simp

/-- skipping phase (`j == 1`): trailing zeros are dropped as long as more than one fraction digit remains -/
theorem shuffle_skip : ∀ (i : Nat) (F rest : Bytes), F.length = i → 1 ≤ i →
    ∃ F' z, F = F' ++ zeros z ∧ F' ≠ [] ∧ (F'.getLast? = some 48 → F'.length = 1) ∧ shuffle i true (F.reverse ++ rest) [] = (rest, F')
  | 0, _, _, _, h1 => by omega
  | i + 1, F, rest, h, _ => by
    rcases List.eq_nil_or_concat F with h0 | ⟨G, c, hc⟩
    · subst h0; simp at h
    · rw [List.concat_eq_append] at hc; subst hc
      have hl : G.length = i := by simp at h; omega
      rw [List.reverse_append, List.reverse_singleton, List.singleton_append, List.cons_append]
      have hstep : shuffle (i + 1) true (c :: (G.reverse ++ rest)) [] =
          if (true && decide (i + 1 > 1) && c.toNat == 48) = true then shuffle i true (G.reverse ++ rest) []
          else shuffle i false (G.reverse ++ rest) [c] := rfl
      rw [hstep]
      by_cases hskip : (true && decide (i + 1 > 1) && c.toNat == 48) = true
      · rw [if_pos hskip]
        simp only [Bool.true_and, Bool.and_eq_true, decide_eq_true_eq, beq_iff_eq] at hskip
        have hc48 : c = 48 := by rw [← UInt8.toNat_inj]; exact hskip.2
        obtain ⟨F', z, hG, hne, hlast, hsh⟩ := shuffle_skip i G rest hl (by omega)
        refine ⟨F', z + 1, ?_, hne, hlast, hsh⟩
        rw [hG, hc48, zeros_succ', List.append_assoc]
      · rw [if_neg hskip]
        rw [shuffle_shift i G rest [c] hl]
        refine ⟨G ++ [c], 0, by simp [zeros], by simp, ?_, rfl⟩
        intro hlast
        simp only [List.getLast?_append, List.getLast?_singleton, Option.some_or, Option.some.injEq] at hlast
        subst hlast
        simp only [Bool.true_and, Bool.and_eq_true, decide_eq_true_eq, beq_iff_eq, not_and] at hskip
        by_cases hi : i + 1 > 1
        · exact absurd (by decide) (hskip hi)
        · have hG0 : G.length = 0 := by omega
          rw [List.length_append, hG0]; rfl

/-- sign characters printed by `%lld` -/
def sgnOf (n : Int) : Bytes := if n < 0 then [45] else []

theorem intDec_eq (n : Int) : intDec n = sgnOf n ++ natDec n.natAbs := by
  unfold intDec sgnOf; split <;> rfl

/-- the text that enters the shuffle loop: sign, then the digits zero-padded to at least `fd + 1` characters -/
theorem num2str_padded (fd : Nat) (n : Int) (hn : n ≠ 0) :
    (if (decide (n > 0) && decide ((intDec n).length + 1 - 1 ≤ fd) || decide ((intDec n).length + 1 - 2 ≤ fd)) = true then
        sprintf0D (if n > 0 then fd + 1 else fd + 2) n else intDec n) =
      sgnOf n ++ zeros (fd + 1 - (natDec n.natAbs).length) ++ natDec n.natAbs := by
  have hpos := natDec_length_pos n.natAbs
  rw [intDec_eq]
  unfold sprintf0D sgnOf
  by_cases hneg : n < 0
  · have hn0 : ¬ n > 0 := by omega
    simp only [hneg, hn0, if_true, if_false, decide_false, Bool.false_and, Bool.false_or, List.length_append, List.length_cons,
      List.length_nil, decide_eq_true_eq]
    by_cases hc : 0 + 1 + (natDec n.natAbs).length + 1 - 2 ≤ fd
    · rw [if_pos hc]
      have : fd + 2 - 1 - (natDec n.natAbs).length = fd + 1 - (natDec n.natAbs).length := by omega
      rw [this]; simp
    · rw [if_neg hc]
      have : fd + 1 - (natDec n.natAbs).length = 0 := by omega
      rw [this]; simp [zeros]
  · have hn0 : n > 0 := by omega
    simp only [hneg, hn0, if_true, if_false, decide_true, Bool.true_and, List.nil_append, Bool.or_eq_true, decide_eq_true_eq]
    by_cases hc : (natDec n.natAbs).length + 1 - 1 ≤ fd ∨ (natDec n.natAbs).length + 1 - 2 ≤ fd
    · rw [if_pos hc]
    · rw [if_neg hc]
      have : fd + 1 - (natDec n.natAbs).length = 0 := by omega
      rw [this]; simp [zeros]

/-- Structure of the canonical decimal64 string for a non-zero mantissa. -/
theorem num2str_struct (fd : Nat) (hfd : 1 ≤ fd) (n : Int) (hn : n ≠ 0) :
    ∃ P F' z, num2str fd n = sgnOf n ++ P ++ [46] ++ F' ∧ P ≠ [] ∧ F' ≠ [] ∧ F'.length + z = fd ∧
      (P ++ F' ++ zeros z).all isDigit = true ∧ valOf 10 (P ++ F' ++ zeros z) = n.natAbs ∧
      (P.head? = some 48 → P = [48]) ∧ (F'.getLast? = some 48 → F'.length = 1) := by
  have hnd := natDec_length_pos n.natAbs
  -- D: the zero-padded digits
  generalize hD : zeros (fd + 1 - (natDec n.natAbs).length) ++ natDec n.natAbs = D
  have hDlen : fd + 1 ≤ D.length := by rw [← hD]; simp [zeros_length]; omega
  have hDdig : D.all isDigit = true := by rw [← hD]; simp [List.all_append, zeros_all_digit, natDec_all_digits]
  have hDval : valOf 10 D = n.natAbs := by rw [← hD, valOf_zeros_append, valOf_natDec]
  -- split D into integer part P and the last fd digits F
  let P := D.take (D.length - fd)
  let F := D.drop (D.length - fd)
  have hPF : P ++ F = D := List.take_append_drop _ _
  have hFlen : F.length = fd := by simp [F, List.length_drop]; omega
  have hPlen : P.length = D.length - fd := by simp [P, List.length_take]
  have hPne : P ≠ [] := by intro h; rw [h] at hPlen; simp at hPlen; omega
  obtain ⟨F', z, hF, hF'ne, hF'last, hsh⟩ := shuffle_skip fd F (P.reverse ++ (sgnOf n).reverse) hFlen hfd
  have hzlen : F'.length + z = fd := by rw [← hFlen, hF]; simp [zeros_length]
  refine ⟨P, F', z, ?_, hPne, hF'ne, hzlen, ?_, ?_, ?_, hF'last⟩
  · unfold num2str
    have hn' : (n == 0) = false := by simpa using hn
    simp only [hn', Bool.false_eq_true, if_false]
    have hpad : sgnOf n ++ zeros (fd + 1 - (natDec n.natAbs).length) ++ natDec n.natAbs = sgnOf n ++ (P ++ F) := by
      rw [List.append_assoc, hD, hPF]
    rw [num2str_padded fd n hn, hpad]
    have hrev : (sgnOf n ++ (P ++ F)).reverse = F.reverse ++ (P.reverse ++ (sgnOf n).reverse) := by
      simp only [List.reverse_append, List.append_assoc]
    rw [hrev, hsh]
    simp
  · rw [List.append_assoc, ← hF, hPF]; exact hDdig
  · rw [List.append_assoc, ← hF, hPF]; exact hDval
  · -- leading zero of the integer part only when it is the single padding zero
    intro hhead
    by_cases hcase : (natDec n.natAbs).length ≤ fd
    · have hDl : D.length = fd + 1 := by rw [← hD]; simp [zeros_length]; omega
      have hP1 : P.length = 1 := by rw [hPlen, hDl]; omega
      match P, hP1, hhead with
      | [c], _, hh => simp at hh; rw [hh]
    · exfalso
      have hz0 : fd + 1 - (natDec n.natAbs).length = 0 := by omega
      rw [hz0] at hD
      simp only [zeros, List.replicate_zero, List.nil_append] at hD
      have hh : D.head? = some 48 := by
        rw [← hPF]
        cases hP : P with
        | nil => exact absurd hP hPne
        | cons a t => rw [hP] at hhead; simpa using hhead
      rw [← hD] at hh
      have := (natDec_head n.natAbs 48 hh).mp rfl
      omega

end LyModel.Val
