import LyModel.Val.LemmasBasic
import LyModel.Val.LemmasMisc
/-! bits: the canonical string lists the set bits in position (= declaration) order, independently of the input order. -/
set_option linter.unusedSimpArgs false
namespace LyModel.Val
open LyModel

/-- a compiled bits type: positions strictly ascending, names distinct, non-empty and free of whitespace -/
structure BitsWF (items : List BitItem) : Prop where
  sorted : items.Pairwise (fun a b => a.pos < b.pos)
  names : items.Pairwise (fun a b => a.name ≠ b.name)
  clean : ∀ it ∈ items, it.name ≠ [] ∧ ∀ c ∈ it.name, isSpace c = false

theorem one_shiftLeft_testBit (k p : Nat) : (1 <<< k).testBit p = decide (k = p) := by
  rw [Nat.one_shiftLeft, Nat.testBit_two_pow]

theorem filterMap_none {α β : Type} {f : α → Option β} : ∀ {l : List α}, (∀ x ∈ l, f x = none) → l.filterMap f = []
  | [], _ => rfl
  | a :: r, h => by
    rw [List.filterMap_cons, h a List.mem_cons_self]
    exact filterMap_none (fun x hx => h x (List.mem_cons_of_mem _ hx))

theorem filterMap_congr' {α β : Type} {f g : α → Option β} : ∀ {l : List α}, (∀ x ∈ l, f x = g x) → l.filterMap f = l.filterMap g
  | [], _ => rfl
  | a :: r, h => by
    rw [List.filterMap_cons, List.filterMap_cons, h a List.mem_cons_self,
      filterMap_congr' (fun x hx => h x (List.mem_cons_of_mem _ hx))]

/-- walking the positions `a .. a+n-1` and looking each set one up by position yields the items whose bit is set, in order -/
theorem walk_positions (m : Nat) : ∀ (items : List BitItem) (a n : Nat), items.Pairwise (fun x y => x.pos < y.pos) →
    (∀ it ∈ items, a ≤ it.pos ∧ it.pos < a + n) →
    (List.range' a n).filterMap (fun p => if m.testBit p then items.find? (·.pos == p) else none) =
      items.filter (fun it => m.testBit it.pos)
  | [], a, n, _, _ => by
    apply filterMap_none
    intro p _; simp
  | it :: rest, a, n, hs, hb => by
    rw [List.pairwise_cons] at hs
    obtain ⟨ha, hn⟩ := hb it List.mem_cons_self
    -- split the walk at the position of the first item
    have hsplit : List.range' a n = List.range' a (it.pos - a) ++ (it.pos :: List.range' (it.pos + 1) (a + n - it.pos - 1)) := by
      have h1 : n = (it.pos - a) + ((a + n - it.pos - 1) + 1) := by omega
      have h2 : List.range' a n = List.range' a (it.pos - a) ++ List.range' (a + (it.pos - a)) ((a + n - it.pos - 1) + 1) := by
        conv => lhs; rw [h1]
        exact (List.range'_append (step := 1) (s := a) (m := it.pos - a) (n := (a + n - it.pos - 1) + 1) |> fun h => by simpa using h.symm)
      rw [h2, List.range'_succ]
      have : a + (it.pos - a) = it.pos := by omega
      rw [this]
    rw [hsplit, List.filterMap_append, List.filterMap_cons]
    -- before the first item: nothing is found
    have hbefore : (List.range' a (it.pos - a)).filterMap (fun p => if m.testBit p then (it :: rest).find? (·.pos == p) else none) = [] := by
      apply filterMap_none
      intro p hp
      have hp' := List.mem_range'_1.mp hp
      have : (it :: rest).find? (·.pos == p) = none := by
        rw [List.find?_eq_none]
        intro x hx
        rcases List.mem_cons.mp hx with rfl | hx'
        · simp; omega
        · have := hs.1 x hx'; simp; omega
      simp [this]
    -- after it: the first item no longer matches
    have hafter : (List.range' (it.pos + 1) (a + n - it.pos - 1)).filterMap (fun p => if m.testBit p then (it :: rest).find? (·.pos == p) else none) =
        rest.filter (fun x => m.testBit x.pos) := by
      rw [← walk_positions m rest (it.pos + 1) (a + n - it.pos - 1) hs.2 (fun x hx => by
        have := hs.1 x hx; have := (hb x (List.mem_cons_of_mem _ hx)).2; omega)]
      apply filterMap_congr'
      intro p hp
      have hp' := List.mem_range'_1.mp hp
      have : (it.pos == p) = false := by simp; omega
      simp [List.find?_cons, this]
    rw [hbefore, hafter, List.nil_append]
    simp only [List.find?_cons, beq_self_eq_true, List.filter_cons]
    cases m.testBit it.pos <;> simp

theorem lastBitPos_bound {items : List BitItem} (hs : items.Pairwise (fun x y => x.pos < y.pos)) :
    ∀ it ∈ items, it.pos < lastBitPos items + 1 := by
  intro it hit
  unfold lastBitPos
  induction items with
  | nil => simp at hit
  | cons a r ih =>
    rw [List.pairwise_cons] at hs
    cases r with
    | nil => simp at hit; subst hit; simp
    | cons b r' =>
      rcases List.mem_cons.mp hit with rfl | hit'
      · have hlast : ((it :: b :: r').getLast?.map (·.pos)).getD 0 = ((b :: r').getLast?.map (·.pos)).getD 0 := by
          simp [List.getLast?_cons_cons]
        rw [hlast]
        -- the last element is some element of the tail, hence greater
        have : ∃ l ∈ b :: r', ((b :: r').getLast?.map (·.pos)).getD 0 = l.pos := by
          have hne : b :: r' ≠ [] := by simp
          refine ⟨(b :: r').getLast hne, List.getLast_mem hne, ?_⟩
          rw [List.getLast?_eq_some_getLast hne]; rfl
        obtain ⟨l, hl, hlp⟩ := this
        rw [hlp]; have := hs.1 l hl; omega
      · have hlast : ((a :: b :: r').getLast?.map (·.pos)).getD 0 = ((b :: r').getLast?.map (·.pos)).getD 0 := by
          simp [List.getLast?_cons_cons]
        rw [hlast]; exact ih hs.2 hit'

/-- `bits_bitmap2items` returns the items whose bit is set, in declaration order -/
theorem bitmap2items_eq_filter {items : List BitItem} (hwf : BitsWF items) (m : Nat) :
    bitmap2items items m = items.filter (fun it => m.testBit it.pos) := by
  unfold bitmap2items
  rw [List.range_eq_range']
  exact walk_positions m items 0 _ hwf.sorted (fun it hit => ⟨Nat.zero_le _, by have := lastBitPos_bound hwf.sorted it hit; omega⟩)

/-- the bitmap built by `bits_str2bitmap` has exactly the bits of the named items (on top of the initial ones) -/
theorem str2bitmap_testBit (items : List BitItem) : ∀ (toks : List Bytes) (m0 m : Nat), str2bitmap items toks m0 = .ok m →
    ∀ p, m.testBit p = (m0.testBit p || toks.any (fun tok => match items.find? (·.name == tok) with | some it => it.pos == p | none => false))
  | [], m0, m, h, p => by
    simp only [str2bitmap] at h; injection h with h; subst h; simp
  | tok :: r, m0, m, h, p => by
    simp only [str2bitmap] at h
    split at h
    · cases h
    · rename_i it hf
      split at h
      · cases h
      · have := str2bitmap_testBit items r _ m h p
        rw [this, Nat.testBit_or, one_shiftLeft_testBit, List.any_cons, hf]
        simp only [Bool.or_assoc]
        by_cases hp : it.pos = p
        · simp [hp]
        · have hpb : (it.pos == p) = false := by simpa using hp
          have hpd : decide (it.pos = p) = false := by simpa using hp
          simp [hpb, hpd]

/-- The stored bitmap, hence the canonical string, depends only on the *set* of names in the value, not on their order
    or on the whitespace between them. -/
theorem storeBits_order_independent {items : List BitItem} {hints1 hints2 : Nat} {s1 s2 : Bytes} {m1 m2 : Nat}
    (h1 : storeBits items hints1 s1 = .ok m1) (h2 : storeBits items hints2 s2 = .ok m2)
    (hsame : ∀ tok, tok ∈ tokens s1 ↔ tok ∈ tokens s2) : m1 = m2 := by
  unfold storeBits at h1 h2
  split at h1
  · cases h1
  split at h2
  · cases h2
  apply Nat.eq_of_testBit_eq
  intro p
  rw [str2bitmap_testBit items _ 0 m1 h1 p, str2bitmap_testBit items _ 0 m2 h2 p]
  simp only [Nat.zero_testBit, Bool.false_or]
  rw [Bool.eq_iff_iff, List.any_eq_true, List.any_eq_true]
  constructor
  · rintro ⟨tok, ht, hp⟩; exact ⟨tok, (hsame tok).mp ht, hp⟩
  · rintro ⟨tok, ht, hp⟩; exact ⟨tok, (hsame tok).mpr ht, hp⟩

/-! ### canonical idempotence -/

theorem tokensAux_clean : ∀ (n rest cur : Bytes), (∀ c ∈ n, isSpace c = false) → tokensAux (n ++ rest) cur = tokensAux rest (n.reverse ++ cur)
  | [], _, _, _ => rfl
  | c :: n', rest, cur, h => by
    have hc : isSpace c = false := h c List.mem_cons_self
    rw [List.cons_append, tokensAux]
    simp only [hc, Bool.false_eq_true, if_false]
    rw [tokensAux_clean n' rest (c :: cur) (fun x hx => h x (List.mem_cons_of_mem _ hx))]
    simp

/-- splitting the space-joined list of clean names gives the names back -/
theorem tokens_joinSp : ∀ (names : List Bytes), (∀ n ∈ names, n ≠ [] ∧ ∀ c ∈ n, isSpace c = false) → tokens (joinSp names) = names
  | [], _ => rfl
  | [a], h => by
    obtain ⟨hne, hcl⟩ := h a List.mem_cons_self
    unfold tokens
    rw [joinSp]
    have := tokensAux_clean a [] [] hcl
    rw [List.append_nil] at this
    rw [this, tokensAux]
    have : (a.reverse ++ []).isEmpty = false := by cases a <;> simp_all
    simp [this, hne]
  | a :: b :: r, h => by
    obtain ⟨hne, hcl⟩ := h a List.mem_cons_self
    have ih := tokens_joinSp (b :: r) (fun n hn => h n (List.mem_cons_of_mem _ hn))
    unfold tokens at ih ⊢
    rw [joinSp]
    · rw [tokensAux_clean a _ [] hcl, tokensAux]
      have hsp : isSpace 32 = true := by decide
      have hemp : (a.reverse ++ []).isEmpty = false := by cases a <;> simp_all
      simp only [hsp, if_true, hemp, Bool.false_eq_true, if_false]
      rw [ih]; simp
    · simp

/-- every set bit of the bitmap is the position of an item -/
def BitsValid (items : List BitItem) (m : Nat) : Prop := ∀ p, m.testBit p = true → ∃ it ∈ items, it.pos = p

theorem storeBits_valid {items : List BitItem} {hints : Nat} {s : Bytes} {m : Nat} (h : storeBits items hints s = .ok m) :
    BitsValid items m := by
  unfold storeBits at h
  split at h
  · cases h
  intro p hp
  rw [str2bitmap_testBit items _ 0 m h p] at hp
  simp only [Nat.zero_testBit, Bool.false_or, List.any_eq_true] at hp
  obtain ⟨tok, _, hm⟩ := hp
  split at hm
  · rename_i it hf
    exact ⟨it, List.mem_of_find?_eq_some hf, by simpa using hm⟩
  · cases hm

/-- OR of the bits of a list of items -/
def orBits (m0 : Nat) (L : List BitItem) : Nat := L.foldl (fun acc x => acc ||| 1 <<< x.pos) m0

theorem orBits_testBit : ∀ (L : List BitItem) (m0 p : Nat), (orBits m0 L).testBit p = (m0.testBit p || L.any (·.pos == p))
  | [], m0, p => by simp [orBits]
  | x :: r, m0, p => by
    have := orBits_testBit r (m0 ||| 1 <<< x.pos) p
    unfold orBits at this ⊢
    rw [List.foldl_cons, this, Nat.testBit_or, one_shiftLeft_testBit, List.any_cons, Bool.or_assoc]
    by_cases hp : x.pos = p
    · simp [hp]
    · have h1 : decide (x.pos = p) = false := by simpa using hp
      have h2 : (x.pos == p) = false := by simpa using hp
      rw [h1, h2]

theorem str2bitmap_names {items : List BitItem} (hn : items.Pairwise (fun a b => a.name ≠ b.name)) :
    ∀ (L : List BitItem) (m0 : Nat), (∀ x ∈ L, x ∈ items) → L.Pairwise (fun a b => a.pos ≠ b.pos) → (∀ x ∈ L, m0.testBit x.pos = false) →
      str2bitmap items (L.map (·.name)) m0 = .ok (orBits m0 L)
  | [], m0, _, _, _ => rfl
  | x :: r, m0, hsub, hd, hfree => by
    rw [List.pairwise_cons] at hd
    have hfind := find?_of_mem_pairwise (key := BitItem.name) hn (hsub x List.mem_cons_self)
    simp only [List.map_cons, str2bitmap, hfind, hfree x List.mem_cons_self, Bool.false_eq_true, if_false]
    rw [str2bitmap_names hn r (m0 ||| 1 <<< x.pos) (fun y hy => hsub y (List.mem_cons_of_mem _ hy)) hd.2]
    · rfl
    · intro y hy
      rw [Nat.testBit_or, one_shiftLeft_testBit, hfree y (List.mem_cons_of_mem _ hy)]
      have := hd.1 y hy
      simpa using this

/-- storing the canonical string of a stored bits value returns the same bitmap -/
theorem storeBits_canon {items : List BitItem} (hwf : BitsWF items) (hints : Nat) (m : Nat)
    (hh : (checkHints hints "bits").isSome = true) (hv : BitsValid items m) :
    storeBits items hints (canonBits items m) = .ok m := by
  unfold storeBits
  cases hc : checkHints hints "bits" with
  | none => rw [hc] at hh; cases hh
  | some _ =>
    simp only
    unfold canonBits
    rw [bitmap2items_eq_filter hwf]
    generalize hL : items.filter (fun it => m.testBit it.pos) = L
    have hsub : ∀ x ∈ L, x ∈ items := by
      intro x hx; rw [← hL] at hx; exact (List.mem_filter.mp hx).1
    have hLs : L.Sublist items := by rw [← hL]; exact List.filter_sublist
    rw [tokens_joinSp]
    · rw [str2bitmap_names hwf.names L 0 hsub ((hwf.sorted.sublist hLs).imp (fun h => by omega)) (fun _ _ => Nat.zero_testBit _)]
      congr 1
      apply Nat.eq_of_testBit_eq
      intro p
      rw [orBits_testBit, Nat.zero_testBit, Bool.false_or, Bool.eq_iff_iff, List.any_eq_true]
      constructor
      · rintro ⟨x, hx, hp⟩
        rw [← hL] at hx
        have := (List.mem_filter.mp hx).2
        have hp' : x.pos = p := by simpa using hp
        rw [← hp']; exact this
      · intro hp
        obtain ⟨it, hit, hpos⟩ := hv p hp
        refine ⟨it, ?_, by simpa using hpos⟩
        rw [← hL]; exact List.mem_filter.mpr ⟨hit, by rw [hpos]; exact hp⟩
    · intro n hn
      obtain ⟨x, hx, rfl⟩ := List.mem_map.mp hn
      exact hwf.clean x (hsub x hx)

/-- hence the canonical string determines the bitmap: equality ⇔ canonical equality for stored bits values -/
theorem canonBits_injective {items : List BitItem} (hwf : BitsWF items) {a b : Nat} (ha : BitsValid items a) (hb : BitsValid items b)
    (h : canonBits items a = canonBits items b) : a = b := by
  have h1 := storeBits_canon hwf Generated.LYD_HINT_DATA a (by decide) ha
  have h2 := storeBits_canon hwf Generated.LYD_HINT_DATA b (by decide) hb
  rw [h, h2] at h1
  injection h1 with h1; exact h1.symm

/-! ### LYB -/

theorem bitmapSize_covers (items : List BitItem) : lastBitPos items < 8 * bitmapSize items := by
  unfold bitmapSize
  generalize lastBitPos items = l
  simp only
  generalize hneed : (l + 1) / 8 + (if ((l + 1) % 8 != 0) = true then 1 else 0) = needed
  have hn : l + 1 ≤ 8 * needed := by
    rw [← hneed]; split
    · omega
    · rename_i h; simp at h; omega
  by_cases h1 : (needed == 1 || needed == 2) = true
  · rw [if_pos h1]; omega
  · rw [if_neg h1]
    by_cases h2 : needed < 5
    · rw [if_pos h2]; omega
    · rw [if_neg h2]
      by_cases h3 : needed < 9
      · rw [if_pos h3]; omega
      · rw [if_neg h3]; omega

theorem unlybBits_lybBits {items : List BitItem} (hwf : BitsWF items) (m : Nat) (hv : BitsValid items m) :
    unlybBits items (lybBits items m) = .ok m := by
  unfold unlybBits lybBits
  rw [leBytes_length]
  simp only [bne_self_eq_false, Bool.false_eq_true, if_false, ofLe_leBytes]
  have hlt : m < 2 ^ (8 * bitmapSize items) := by
    apply Nat.lt_pow_two_of_testBit
    intro i hi
    cases hb : m.testBit i
    · rfl
    · obtain ⟨it, hit, hp⟩ := hv i hb
      have := lastBitPos_bound hwf.sorted it hit
      have := bitmapSize_covers items
      omega
  have h256 : 256 ^ bitmapSize items = 2 ^ (8 * bitmapSize items) := by
    rw [Nat.pow_mul]
  rw [h256, Nat.mod_eq_of_lt hlt]

end LyModel.Val
