import LyModel.Val.Binary
import LyModel.Val.DrvBase
/-! driver ops of the `binary` model: same request lines as `harness/api_types.c` with the type descriptors `bin` and
    `bin:<lo>..<hi>,<lo>..<hi>` = `type binary { length "lo..hi | lo..hi"; }` (`validate`, `store`, `cmp`, `lybrt`, `unlyb`) -/
namespace LyModel.Val.DrvBin
open LyModel LyModel.Val

def sgn (i : Int) : String := if i < 0 then "-1" else if i > 0 then "1" else "0"

def isDesc (d : String) : Bool := d == "bin" || d.startsWith "bin:"

/-- the compiled `length` parts of the descriptor -/
def lengthOfDesc (d : String) : Option (List (Int × Int)) :=
  match d.splitOn ":" with
  | ["bin"] => some []
  | ["bin", spec] => Drv.parseParts spec
  | _ => none

def bit (b : Bool) : String := if b then "1" else "0"

def handleTy (len : List (Int × Int)) (op : String) (args : List String) : String :=
  match op, args with
  | "store", [_, h, x] =>
    match h.toNat?, Hex.dec x with
    | some hints, some s =>
      match Bin.store len hints s with
      | .ok v => "ok " ++ Hex.enc (Bin.canon v) ++ " " ++ Hex.enc (Bin.lyb v)
      | .error e => "err " ++ e.name
    | _, _ => "err BadArg"
  | "validate", [_, x] =>
    match Hex.dec x with
    | some s =>
      match Bin.store len Generated.LYD_HINT_DATA s with
      | .ok v => "ok " ++ Hex.enc (Bin.canon v)
      | .error e => "err " ++ e.name
    | none => "err BadArg"
  | "cmp", [_, x1, x2] =>
    match Hex.dec x1, Hex.dec x2 with
    | some s1, some s2 =>
      match Bin.store len Generated.LYD_HINT_DATA s1, Bin.store len Generated.LYD_HINT_DATA s2 with
      | .error _, _ => "err Reject1"
      | .ok _, .error _ => "err Reject2"
      | .ok a, .ok b =>
        let so := Bin.sort a b
        -- lyd_compare_single (canonical texts) against lyd_value_compare / the compare callback (octets): 2 = they disagree
        let eq := if Bin.nodeEq a b == Bin.cmpEq a b then bit (Bin.cmpEq a b) else "2"
        "ok " ++ eq ++ " " ++ sgn so ++ " " ++ bit (Bin.canon a == Bin.canon b) ++ " " ++ (if so ≤ 0 then "a" else "b") ++ " " ++ (if so < 0 then "a" else "b")
    | _, _ => "err BadArg"
  | "lybrt", [_, x] =>
    match Hex.dec x with
    | some s =>
      match Bin.store len Generated.LYD_HINT_DATA s with
      | .error e => "err " ++ e.name
      | .ok v =>
        match Bin.unlyb len (Bin.lyb v) with
        | .error e => "err Unlyb" ++ e.name
        | .ok w =>
          let d := Bin.dup v
          -- the parsed-back tree is compared with lyd_compare_single and by the text of the value
          "ok " ++ Hex.enc (Bin.lyb v) ++ " " ++ Hex.enc (Bin.canon w) ++ " " ++ bit (Bin.cmpEq v w) ++ " " ++
            bit (Bin.cmpEq v d && Bin.canon d == Bin.canon v) ++ " " ++ bit (Bin.nodeEq v w)
    | none => "err BadArg"
  | "unlyb", [_, x] =>
    match Hex.dec x with
    | some b =>
      match Bin.unlyb len b with
      | .ok v => "ok " ++ Hex.enc (Bin.canon v)
      | .error e => "err " ++ e.name
    | none => "err BadArg"
  | _, _ => "err BadOp"

def handle (op : String) (args : List String) : String :=
  match args with
  | d :: _ =>
    match lengthOfDesc d with
    | some len => handleTy len op args
    | none => "err BadArg"
  | [] => "err BadArg"

end LyModel.Val.DrvBin
