import LyModel.Val.Model
import LyModel.XsdRe.Parse
import LyModel.Generated.ValExt
import LyModel.Val.Ident
/-!
# `union` and string `pattern` restrictions (component `Val`, property C03)

Executable model of
* `plugins_types/string.c`: `lyplg_type_store_string` with the pattern restrictions of the whole typedef chain
  (`lyplg_type_validate_patterns` over the compiled `patterns` array: the patterns of the base typedefs come first, every
  one is applied, `invert-match` negates) — the matcher is the spec matcher of `XsdRe` (derivatives, proved equal to
  the denotation in C18), not PCRE2;
* `schema_compile_node.c`: `lys_compile_type_union` — a member that is itself a union is replaced by its members
  (`UTy.flatten`);
* `plugins_types/union.c`: `union_find_type` (the members are tried in order, the first one whose `store` succeeds
  wins), `lyplg_type_store_union` for the text formats and for LYB (`lyb_union_validate`, `lyb_parse_union`: 4-byte
  little-endian member index followed by the member's LYB value), `lyplg_type_compare_union` (same member AND the
  member's compare), `lyplg_type_sort_union` (same member: the member's sort; else by member position, the value of
  the EARLIER member is the greater one), `lyplg_type_print_union` (canonical = the member's canonical value;
  LYB = index + member LYB), `lyplg_type_dup_union`.

Member types are the types of `Val/Model.lean` plus strings with patterns (`MTy`), seen by the union as plug-in records (`Plug`);
identityref is available as a member as well (`idrefPlug`).  Core Lean only (linked into `lydrv`).
-/
namespace LyModel.Val
open LyModel

/-! ## strings with patterns -/

/-- compiled `lysc_type_str`: length parts and the pattern array (regular expression, `inverted`) of the whole typedef chain -/
structure PStrTy where
  length : List (Int × Int)
  pats : List (XsdRe.Regex Char × Bool)

/-- error kinds of the member and union plug-ins -/
inductive MErr
  | val (e : VErr)      -- an error of the types of `Val/Model.lean`
  | Pattern             -- "Unsatisfied pattern"
  | NoMember            -- "Invalid union value … no matching subtype found"
  | ident (e : Ident.IErr)   -- an error of the identityref plug-in (member of a union)
  deriving DecidableEq, Repr

def MErr.name : MErr → String
  | .val e => e.name
  | .Pattern => "Pattern"
  | .NoMember => "NoMember"
  | .ident e => e.name

/-- `lyplg_type_store_string`: UTF-8 check, hints, length, then every pattern on the whole value.  (A value that passes
    `ly_checkutf8` but is not a sequence of Unicode scalar values cannot be given to the matcher: `BadUtf8`.) -/
def storePStr (t : PStrTy) (hints : Nat) (s : Bytes) : Except MErr Bytes :=
  match storeStr t.length hints s with
  | .error e => .error (.val e)
  | .ok _ =>
    match XsdRe.decodeUtf8 s with
    | none => .error (.val .BadUtf8)
    | some cs => if XsdRe.Regex.validatePatterns t.pats cs then .ok s else .error .Pattern

/-! ## member types -/

inductive MTy
  | base (t : Ty)
  | pstr (t : PStrTy)

namespace MTy

def store (m : MTy) (hints : Nat) (s : Bytes) : Except MErr Value :=
  match m with
  | .base t => match Val.store t hints s with
    | .ok v => .ok v
    | .error e => .error (.val e)
  | .pstr t => (storePStr t hints s).map .str

def canon (m : MTy) (v : Value) : Bytes :=
  match m with
  | .base t => Val.canon t v
  | .pstr _ => match v with
    | .str s => s
    | _ => []

def cmpEq (m : MTy) (a b : Value) : Bool :=
  match m with
  | .base t => Val.cmpEq t a b
  | .pstr _ => match a, b with
    | .str x, .str y => x == y
    | _, _ => false

def sort (m : MTy) (a b : Value) : Int :=
  match m with
  | .base t => Val.sort t a b
  | .pstr _ => match a, b with
    | .str x, .str y => strcmp x y
    | _, _ => 0

def lyb (m : MTy) (v : Value) : Bytes :=
  match m with
  | .base t => Val.lyb t v
  | .pstr _ => match v with
    | .str s => s
    | _ => []

def unlyb (m : MTy) (b : Bytes) : Except MErr Value :=
  match m with
  | .base t => match Val.unlyb t b with
    | .ok v => .ok v
    | .error e => .error (.val e)
  | .pstr t => (storePStr t Generated.LYD_HINT_DATA b).map .str

end MTy

/-! ## type plug-ins as records (`struct lyplg_type`): what a union sees of a member type -/

/-- the callbacks of a compiled member type: `store` (text formats, with the hints), `print` canonical, `compare`, `sort`, `print` LYB,
    `store` LYB -/
structure Plug where
  store : Nat → Bytes → Except MErr Value
  canon : Value → Bytes
  cmpEq : Value → Value → Bool
  sort : Value → Value → Int
  lyb : Value → Bytes
  unlyb : Bytes → Except MErr Value
  /-- does a stored value carry THIS type as its `realtype`?  (`false` for leafref: `lyplg_type_store_leafref` stores the value with the
      plug-in of the target's type, so `value.realtype` is the target's type, which is not an element of the union's `types` array) -/
  ownRealtype : Bool := true
  /-- does `store` answer `LY_EINCOMPLETE`, i.e. must the value be resolved against the data tree by the `validate` callback?
      (leafref with `require-instance true`: an instance of the target with the same canonical value must exist) -/
  reqInst : Bool := false

/-- the plug-in of a modelled member type -/
def MTy.plug (m : MTy) : Plug :=
  { store := m.store, canon := m.canon, cmpEq := m.cmpEq, sort := m.sort, lyb := m.lyb, unlyb := m.unlyb }

/-- `plugins_types/leafref.c` with `require-instance false`: store / compare / sort / print / dup are the callbacks of the target's type
    (`type_lr->realtype->plugin->…`), the stored value has the TARGET's type as `realtype` -/
def lrefPlug (target : Plug) : Plug := { target with ownRealtype := false }

/-- leafref with `require-instance true` (the default): `store` is the target's and answers `LY_EINCOMPLETE`; `lyplg_type_validate_leafref`
    → `lyplg_type_resolve_leafref` looks for a target instance whose canonical value is the value's (`path[.='canonical']`) -/
def lrefrPlug (target : Plug) : Plug := { target with ownRealtype := false, reqInst := true }

/-- `lyplg_type_resolve_leafref` over the canonical values of the existing target instances -/
def Plug.resolves (p : Plug) (targets : List Bytes) (v : Value) : Bool :=
  !p.reqInst || targets.contains (p.canon v)

/-- module part / name part of a canonical identityref value `module:name` -/
def identMod (s : Bytes) : Bytes := s.takeWhile (· != 58)
def identName (s : Bytes) : Bytes := (s.dropWhile (· != 58)).drop 1

/-- The identityref plug-in as a union member.  `pm` resolves the prefixes of the format the value arrives in (the union hands its
    format and prefix data on to the member: `union_store_type`), `pmJson` the module names of the LYB / canonical form.  The stored
    identity is represented by its canonical string `module:name` (module names contain no colon).  `allBases` / `byModule`: the two
    variants of the C code (`storeIdWith`, `sortIdWith`). -/
def idrefPlugWith (allBases byModule : Bool) (c : Ident.IdCtx) (bases : List Ident.Ident) (pm pmJson : Ident.PrefixMap) : Plug :=
  let st := fun (p : Ident.PrefixMap) (hints : Nat) (s : Bytes) =>
    match Ident.storeIdWith allBases c bases p hints s with
    | .ok i => (.ok (.str (Ident.canonId i)) : Except MErr Value)
    | .error e => .error (.ident e)
  let cn := fun (v : Value) => match v with
    | .str s => s
    | _ => []
  { store := st pm
    canon := cn
    cmpEq := fun a b => match a, b with
      | .str x, .str y => x == y
      | _, _ => false
    sort := fun a b => match a, b with
      | .str x, .str y => Ident.sortIdWith byModule ⟨identMod x, identName x⟩ ⟨identMod y, identName y⟩
      | _, _ => 0
    lyb := cn
    unlyb := st pmJson Generated.LYD_HINT_DATA }

/-- the plug-in of the tree the model was generated from -/
def idrefPlug := idrefPlugWith Generated.identBaseAll Generated.identSortModule

/-! ## union -/

/-- a `type` statement: a modelled member type, another member plug-in (identityref), or a union of `type` statements -/
inductive UTy
  | mem (m : MTy)
  | ext (p : Plug)
  | union (ms : List UTy)

mutual
/-- `lys_compile_type_union`: the compiled `types` array — nested unions are replaced by their members, in place -/
def UTy.flatten : UTy → List Plug
  | .mem m => [m.plug]
  | .ext p => [p]
  | .union ms => UTy.flattenList ms
def UTy.flattenList : List UTy → List Plug
  | [] => []
  | u :: r => u.flatten ++ UTy.flattenList r
end

/-- `lyd_value_union` reduced to what decides the observable behaviour: the index of the member type whose plug-in stored
    the value (`subvalue->value.realtype`) and that value -/
structure UVal where
  idx : Nat
  val : Value
  deriving DecidableEq, Repr

/-- `union_find_type`: the loop `for (u = 0; u < count; ++u) if (store(types[u]) succeeds) break;` from index `i` on -/
def findType : List Plug → Nat → Nat → Bytes → Option UVal
  | [], _, _, _ => none
  | m :: r, i, hints, s =>
    match m.store hints s with
    | .ok v => some ⟨i, v⟩
    | .error _ => findType r (i + 1) hints s

/-- `lyplg_type_store_union`, text formats -/
def storeU (ms : List Plug) (hints : Nat) (s : Bytes) : Except MErr UVal :=
  match findType ms 0 hints s with
  | some u => .ok u
  | none => .error .NoMember

/-- `lyplg_type_validate_union` (text formats) = `union_find_type(…, resolve = 1, …)`: the members are tried again, in order, on the ORIGINAL
    text with the original hints; a member is taken when its `store` succeeds and — if it answered `LY_EINCOMPLETE` — its `validate`
    callback succeeds too.  `targets` are the canonical values of the instances the leafref members may point to.  The member may be a
    DIFFERENT one than at store time (`storeU` takes the first that stores, resolvable or not). -/
def findTypeV (targets : List Bytes) : List Plug → Nat → Nat → Bytes → Option UVal
  | [], _, _, _ => none
  | m :: r, i, hints, s =>
    match m.store hints s with
    | .ok v => if m.resolves targets v then some ⟨i, v⟩ else findTypeV targets r (i + 1) hints s
    | .error _ => findTypeV targets r (i + 1) hints s

/-- the same with the target instances given per member (each leafref member has a target of its own) -/
def findTypeVM (targetsOf : Plug → List Bytes) : List Plug → Nat → Nat → Bytes → Option UVal
  | [], _, _, _ => none
  | m :: r, i, hints, s =>
    match m.store hints s with
    | .ok v => if m.resolves (targetsOf m) v then some ⟨i, v⟩ else findTypeVM targetsOf r (i + 1) hints s
    | .error _ => findTypeVM targetsOf r (i + 1) hints s

def validateU (ms : List Plug) (targets : List Bytes) (hints : Nat) (s : Bytes) : Except MErr UVal :=
  match findTypeV targets ms 0 hints s with
  | some u => .ok u
  | none => .error .NoMember

/-- canonical value: `subvalue->value._canonical` -/
def canonU (ms : List Plug) (u : UVal) : Bytes :=
  match ms[u.idx]? with
  | some m => m.canon u.val
  | none => []

/-- `lyplg_type_compare_union` -/
def cmpEqU (ms : List Plug) (a b : UVal) : Bool :=
  if a.idx != b.idx then false
  else match ms[a.idx]? with
    | some m => m.cmpEq a.val b.val
    | none => false

/-- `lyplg_type_sort_union`: values of different members are ordered by the position of the member; the one stored by the
    earlier member is reported as the GREATER one (`rc = 1` when `types[u] == val1->…realtype` is met first) -/
def sortU (ms : List Plug) (a b : UVal) : Int :=
  if a.idx == b.idx then
    match ms[a.idx]? with
    | some m => m.sort a.val b.val
    | none => 0
  else if a.idx < b.idx then 1 else -1

/-- `lyplg_type_sort_union` as the C code runs it when some member does not store its own type as `realtype` (leafref): the loop
    `LY_ARRAY_FOR(types, u) { if (types[u] == val1->…realtype) {rc = 1; break;} else if (types[u] == val2->…realtype) {rc = -1; break;} }`
    never meets the value of such a member; when it meets neither value `rc` stays 0 (`assert(rc != 0)` is compiled out with NDEBUG).
    For member lists without leafref — and for all member lists with the repaired loop — this is `sortU` (`sortUV_eq_sortU`). -/
def sortUVWith (lrefFound : Bool) (ms : List Plug) (a b : UVal) : Int :=
  if a.idx == b.idx then
    match ms[a.idx]? with
    | some m => m.sort a.val b.val
    | none => 0
  else
    let va := lrefFound || (ms[a.idx]?.map Plug.ownRealtype).getD true
    let vb := lrefFound || (ms[b.idx]?.map Plug.ownRealtype).getD true
    if a.idx < b.idx then (if va then 1 else if vb then -1 else 0)
    else (if vb then -1 else if va then 1 else 0)

/-- the sort callback of the tree the model was generated from (`lrefFound` = the repaired loop, `fixes/F424.diff`, which looks a leafref
    member up by its target's type) -/
def sortUV := sortUVWith Generated.unionSortLeafrefTarget

/-- `lyb_union_print`: the member is looked up again (`union_find_type` on the original text — the same member), then
    4-byte little-endian index + the member's LYB value -/
def lybU (ms : List Plug) (u : UVal) : Bytes :=
  match ms[u.idx]? with
  | some m => leBytes Generated.unionIdxSize u.idx ++ m.lyb u.val
  | none => []

/-- `lyplg_type_store_union` with `LY_VALUE_LYB`: `lyb_union_validate` (size ≥ 4, index < count), then the member named by
    the index stores the rest in LYB format — no other member is tried -/
def unlybU (ms : List Plug) (b : Bytes) : Except MErr UVal :=
  if b.length < Generated.unionIdxSize then .error (.val .LybSize)
  else
    let idx := ofLe (b.take Generated.unionIdxSize)
    match ms[idx]? with
    | none => .error (.val .LybSize)
    | some m =>
      match m.unlyb (b.drop Generated.unionIdxSize) with
      | .ok v => .ok ⟨idx, v⟩
      | .error e => .error e

end LyModel.Val
