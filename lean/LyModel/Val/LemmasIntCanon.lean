import LyModel.Val.LemmasStoreInt
import LyModel.Val.LemmasDec64Canon
/-! Integers: canonical form, injectivity of the printer, bounds of stored values, LYB encode/decode. -/
set_option linter.unusedSimpArgs false
namespace LyModel.Val
open LyModel

theorem intDec_lex (v : Int) : IntLex (intDec v) v := by
  rw [intDec_eq]
  exact ⟨sgnOf v, natDec v.natAbs, rfl, sgnOf_isSign v, natDec_ne_nil _, natDec_all_digits _, by rw [valOf_natDec, applySign_sgnOf]⟩

theorem intDec_lexws (v : Int) : IntLexWs (intDec v) v :=
  ⟨[], intDec v, [], by simp, rfl, rfl, intDec_lex v⟩

theorem intDec_no_nul (v : Int) : (0 : UInt8) ∉ intDec v := by
  rw [intDec_eq]; exact no_nul_of_digits (sgnOf_isSign v) (natDec_all_digits _)

theorem intDec_injective {a b : Int} (h : intDec a = intDec b) : a = b :=
  (intDec_lexws a).unique (h ▸ intDec_lexws b)

theorem intDec_canonical (v : Int) : IsCanonInt (intDec v) := by
  rw [intDec_eq]
  refine ⟨sgnOf v, natDec v.natAbs, rfl, ?_, natDec_ne_nil _, natDec_all_digits _, ?_⟩
  · unfold sgnOf; split
    · exact Or.inr rfl
    · exact Or.inl rfl
  · intro hh
    have h0 := (natDec_head v.natAbs 48 hh).mp rfl
    have hv : v = 0 := by omega
    subst hv
    exact ⟨by decide, by decide⟩

/-- `store (canon v) = v` for every value of the type (any range) under hints that select base 10 -/
theorem storeInt_canon (t : IntTy) (range : List (Int × Int)) (hints : Nat) (v : Int)
    (hb : checkHints hints t.name = some 10) (hwf : PartsWF t.min t.max range)
    (hlo : t.min ≤ v) (hhi : v ≤ t.max) (hin : InParts range v) :
    storeInt t range hints (canonInt v) = .ok v :=
  (storeInt_accept_iff t range hints _ v (intDec_no_nul v) hb hwf).mpr ⟨intDec_lexws v, hlo, hhi, hin⟩

/-! ### bounds of stored values (any hints, any base) -/

theorem parseInt_ok_bounds {base : Nat} {min max : Int} {s : Bytes} {v : Int} (h : parseInt base min max s = .ok v) : min ≤ v ∧ v ≤ max := by
  unfold parseInt at h
  simp only at h
  split at h
  · cases h
  · have := (lyParseInt_ok _ _ _ _ _).mp h
    exact ⟨this.2.2.2.1, this.2.2.2.2.1⟩

theorem parseUint_ok_bounds {base max : Nat} {s : Bytes} {v : Int} (h : parseUint base max s = .ok v) : 0 ≤ v ∧ v ≤ max := by
  unfold parseUint at h
  simp only at h
  split at h
  · cases h
  · have := (lyParseUint_ok _ _ _ _).mp h
    refine ⟨?_, this.2.2.2.1⟩
    rw [this.2.2.1]; exact Int.natCast_nonneg _

theorem storeInt_ok_bounds {t : IntTy} {range : List (Int × Int)} {hints : Nat} {s : Bytes} {v : Int}
    (h : storeInt t range hints s = .ok v) :
    t.min ≤ v ∧ v ≤ t.max ∧ validateRange (rangeIsUnsigned t.name) range v = true := by
  unfold storeInt at h
  split at h
  · cases h
  · split at h
    · cases h
    · rename_i num hp
      have hb : t.min ≤ num ∧ num ≤ t.max := by
        cases hs : t.signed
        · rw [hs] at hp
          simp only [Bool.false_eq_true, if_false] at hp
          have := parseUint_ok_bounds hp
          obtain ⟨_, h2, h3⟩ := IntTy.umax t hs
          rw [h3, ← h2]; exact this
        · rw [hs] at hp
          simp only [if_true] at hp
          exact parseInt_ok_bounds hp
      simp only [wrap_id t num hb.1 hb.2] at h
      split at h
      · rename_i hv
        injection h with h; subst h
        exact ⟨hb.1, hb.2, hv⟩
      · cases h

theorem storeDec64_ok_bounds {nd : Bool} {fd : Nat} {range : List (Int × Int)} {hints : Nat} {s : Bytes} {v : Int}
    (h : storeDec64With nd fd range hints s = .ok v) :
    -(2 ^ 63) ≤ v ∧ v ≤ 2 ^ 63 - 1 ∧ validateRange (rangeIsUnsigned "dec64") range v = true := by
  unfold storeDec64With at h
  split at h
  · cases h
  · split at h
    · cases h
    · rename_i num hp
      split at h
      · rename_i hv
        injection h with h; subst h
        -- the scaled value went through `lyplg_type_parse_int` with the int64 bounds
        unfold parseDec64With at hp
        simp only at hp
        have hfin : ∀ sg ip frs, decFinal fd sg ip frs = .ok num → -(2 ^ 63) ≤ num ∧ num ≤ 2 ^ 63 - 1 := by
          intro sg ip frs hf
          unfold decFinal at hf
          have := parseInt_ok_bounds hf
          obtain ⟨_, h2, h3⟩ := dec64_consts
          rw [h2, h3] at this; exact this
        have hbody : ∀ sg t, decBody fd sg t = .ok num → -(2 ^ 63) ≤ num ∧ num ≤ 2 ^ 63 - 1 := by
          intro sg t hb
          unfold decBody at hb
          simp only at hb
          split at hb
          · exact hfin _ _ _ hb
          · split at hb
            · split at hb
              · cases hb
              · split at hb
                · cases hb
                · exact hfin _ _ _ hb
            · split at hb
              · cases hb
              · exact hfin _ _ _ hb
        split at hp
        · cases hp
        · split at hp
          · cases hp
          · split at hp
            · split at hp
              · cases hp
              · exact ⟨(hbody _ _ hp).1, (hbody _ _ hp).2, hv⟩
            · exact ⟨(hbody _ _ hp).1, (hbody _ _ hp).2, hv⟩
      · cases h

/-! ### LYB: fixed-size little-endian two's complement -/

theorem leBytes_length : ∀ (n v : Nat), (leBytes n v).length = n
  | 0, _ => rfl
  | n + 1, v => by simp [leBytes, leBytes_length n]

theorem ofLe_leBytes : ∀ (n v : Nat), ofLe (leBytes n v) = v % 256 ^ n
  | 0, v => by simp [leBytes, ofLe, Nat.mod_one]
  | n + 1, v => by
    have hb : (UInt8.ofNat (v % 256)).toNat = v % 256 := by
      simp only [UInt8.toNat_ofNat']; omega
    rw [leBytes, ofLe, ofLe_leBytes n (v / 256), hb, Nat.pow_succ, Nat.mul_comm (256 ^ n) 256, Nat.mod_mul]

theorem ofLe_lt : ∀ (b : Bytes), ofLe b < 256 ^ b.length
  | [] => by simp [ofLe]
  | a :: r => by
    have := ofLe_lt r
    have ha := toNat_lt256 a
    simp only [ofLe, List.length_cons, Nat.pow_succ]
    omega

theorem leBytes_ofLe : ∀ (b : Bytes), leBytes b.length (ofLe b) = b
  | [] => rfl
  | a :: r => by
    have ha := toNat_lt256 a
    have h1 : (a.toNat + 256 * ofLe r) % 256 = a.toNat := by omega
    have h2 : (a.toNat + 256 * ofLe r) / 256 = ofLe r := by omega
    simp only [List.length_cons, leBytes, ofLe, h1, h2, leBytes_ofLe r, UInt8.ofNat_toNat]

theorem unlybInt_lybInt (t : IntTy) (range : List (Int × Int)) (v : Int) (hlo : t.min ≤ v) (hhi : v ≤ t.max)
    (hr : validateRange (rangeIsUnsigned t.name) range v = true) : unlybInt t range (lybInt t v) = .ok v := by
  unfold unlybInt lybInt
  rw [leBytes_length]
  simp only [bne_self_eq_false, Bool.false_eq_true, if_false, ofLe_leBytes]
  have hmm := IntTy.min_max_values t
  have hw : wrap t (((v % 2 ^ (8 * t.lybSize)).toNat % 256 ^ t.lybSize : Nat) : Int) = v := by
    cases t <;> simp [IntTy.signed, IntTy.bits] at hmm <;>
      simp only [wrap, IntTy.signed, IntTy.bits, IntTy.lybSize, IntTy.name, Generated.integerLybSize, List.lookup] <;>
      simp <;> omega
  rw [hw, if_pos hr]

end LyModel.Val
