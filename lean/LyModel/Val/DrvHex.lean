import LyModel.Val.HexStr
/-! driver ops of the hex-string model: same request lines as `harness/api_types.c` with the type descriptors
    `t:ietf-yang-types:hex-string|mac-address|phys-address|uuid` (`validate`, `store`, `cmp`, `lybrt`, `unlyb`) -/
namespace LyModel.Val.DrvHex
open LyModel LyModel.Val

def sgn (i : Int) : String := if i < 0 then "-1" else if i > 0 then "1" else "0"

/-- the descriptors the model answers for: the typedefs of `Generated.hexTypedefs` -/
def isDesc (d : String) : Bool :=
  match d.splitOn ":" with
  | ["t", "ietf-yang-types", n] => (Generated.hexTypedefs.lookup n).isSome
  | _ => false

def tyOfDesc (d : String) : Option PStrTy :=
  match d.splitOn ":" with
  | ["t", "ietf-yang-types", n] => HexStr.tyOf n
  | _ => none

def handleTy (t : PStrTy) (op : String) (args : List String) : String :=
  match op, args with
  | "store", [_, h, x] =>
    match h.toNat?, Hex.dec x with
    | some hints, some s =>
      match HexStr.storeCur t hints s with
      | .ok v => "ok " ++ Hex.enc (HexStr.canon v) ++ " " ++ Hex.enc (HexStr.lyb v)
      | .error e => "err " ++ e
    | _, _ => "err BadArg"
  | "validate", [_, x] =>
    match Hex.dec x with
    | some s =>
      match HexStr.storeCur t Generated.LYD_HINT_DATA s with
      | .ok v => "ok " ++ Hex.enc (HexStr.canon v)
      | .error e => "err " ++ e
    | none => "err BadArg"
  | "cmp", [_, x1, x2] =>
    match Hex.dec x1, Hex.dec x2 with
    | some s1, some s2 =>
      -- `lyd_new_term` takes C strings: the harness hands over the part before a NUL
      match HexStr.storeCur t Generated.LYD_HINT_DATA (cstr s1), HexStr.storeCur t Generated.LYD_HINT_DATA (cstr s2) with
      | .error _, _ => "err Reject1"
      | .ok _, .error _ => "err Reject2"
      | .ok a, .ok b =>
        let so := HexStr.sort a b
        "ok " ++ (if HexStr.cmpEq a b then "1" else "0") ++ " " ++ sgn so ++ " " ++
          (if HexStr.canon a == HexStr.canon b then "1" else "0") ++ " " ++ (if so ≤ 0 then "a" else "b") ++ " " ++ (if so < 0 then "a" else "b")
    | _, _ => "err BadArg"
  | "lybrt", [_, x] =>
    match Hex.dec x with
    | some s =>
      match HexStr.storeCur t Generated.LYD_HINT_DATA s with
      | .error e => "err " ++ e
      | .ok v =>
        match HexStr.storeCur t Generated.LYD_HINT_DATA (HexStr.lyb v) with
        | .error e => "err Unlyb" ++ e
        | .ok w => "ok " ++ Hex.enc (HexStr.lyb v) ++ " " ++ Hex.enc (HexStr.canon w) ++ " " ++ (if HexStr.cmpEq v w then "1" else "0") ++ " 1 1"
    | none => "err BadArg"
  | "unlyb", [_, x] =>
    match Hex.dec x with
    | some b =>
      match HexStr.storeCur t Generated.LYD_HINT_DATA b with
      | .ok v => "ok " ++ Hex.enc (HexStr.canon v)
      | .error e => "err " ++ e
    | none => "err BadArg"
  | _, _ => "err BadOp"

def handle (op : String) (args : List String) : String :=
  match args with
  | d :: _ =>
    match tyOfDesc d with
    | some t => handleTy t op args
    | none => "err BadArg"
  | [] => "err BadArg"

end LyModel.Val.DrvHex
