import LyModel.Val.LemmasIntCanon
import LyModel.Val.SpecBase0
/-! `strtoll`/`strtoull` with base 0 (`LYD_HINT_SCHEMA`: schema defaults) and the integer store against the lexical space of
    C integer constants (`IntLexWs0`, `Val/SpecBase0.lean`). -/
set_option linter.unusedSimpArgs false
namespace LyModel.Val
open LyModel

/-! ### digits of base 8 and 16 -/

theorem isOctDigit_iff (c : UInt8) : isOctDigit c = true ↔ 48 ≤ c.toNat ∧ c.toNat ≤ 55 := by
  simp [isOctDigit]

theorem isHexDigit_iff (c : UInt8) : isHexDigit c = true ↔
    (48 ≤ c.toNat ∧ c.toNat ≤ 57) ∨ (97 ≤ c.toNat ∧ c.toNat ≤ 102) ∨ (65 ≤ c.toNat ∧ c.toNat ≤ 70) := by
  simp [isHexDigit, or_assoc]

theorem isDigitB8 (c : UInt8) : isDigitB 8 c = isOctDigit c := by
  have := toNat_lt256 c
  rw [Bool.eq_iff_iff, isOctDigit_iff]
  unfold isDigitB digitRaw
  simp only [decide_eq_true_eq]
  split
  · omega
  · split
    · omega
    · split <;> omega

theorem isDigitB16 (c : UInt8) : isDigitB 16 c = isHexDigit c := by
  have := toNat_lt256 c
  rw [Bool.eq_iff_iff, isHexDigit_iff]
  unfold isDigitB digitRaw
  simp only [decide_eq_true_eq]
  split
  · omega
  · split
    · omega
    · split <;> omega

theorem isDigitB8_fun : isDigitB 8 = isOctDigit := funext isDigitB8
theorem isDigitB16_fun : isDigitB 16 = isHexDigit := funext isDigitB16

theorem oct_is_digit {c : UInt8} (h : isOctDigit c = true) : isDigit c = true := by
  have := (isOctDigit_iff c).mp h
  rw [isDigit_iff]; omega

theorem space_not_oct {c : UInt8} (h : isSpace c = true) : isOctDigit c = false := by
  cases ho : isOctDigit c
  · rfl
  · have := oct_is_digit ho; rw [space_not_digit h] at this; cases this

theorem space_not_hex {c : UInt8} (h : isSpace c = true) : isHexDigit c = false := by
  cases hx : isHexDigit c
  · rfl
  · have h1 := (isSpace_iff c).mp h
    have h2 := (isHexDigit_iff c).mp hx
    omega

theorem allSpace_head {r : Bytes} (h : r.all isSpace = true) : ∀ c, r.head? = some c → isSpace c = true := by
  intro c hc
  cases r with
  | nil => simp at hc
  | cons a t =>
    simp at hc; subst hc
    simp only [List.all_cons, Bool.and_eq_true] at h
    exact h.1

theorem u8_eq_of_toNat {a : UInt8} {n : Nat} (hn : n < 256) (h : a.toNat = n) : a = UInt8.ofNat n :=
  (toNat_eq_of_eq_lit hn).mpr h

/-! ### the scan after white space and sign -/

/-- the part of `strtoCore 0` that follows white space and sign: `none` = no conversion, `some (magnitude, rest)` -/
def scan0 (t1 : Bytes) : Option (Nat × Bytes) :=
  if hasHexPrefix 0 t1 then
    if ((t1.drop 2).takeWhile isHexDigit).isEmpty then some (0, t1.drop 1)
    else some (valOf 16 ((t1.drop 2).takeWhile isHexDigit), (t1.drop 2).dropWhile isHexDigit)
  else if t1.head? == some 48 then
    if (t1.takeWhile isOctDigit).isEmpty then none
    else some (valOf 8 (t1.takeWhile isOctDigit), t1.dropWhile isOctDigit)
  else
    if (t1.takeWhile isDigit).isEmpty then none
    else some (valOf 10 (t1.takeWhile isDigit), t1.dropWhile isDigit)

theorem strtoCore0_eq (s t t1 : Bytes) (ht : s.dropWhile isSpace = t)
    (ht1 : (if t.head? == some 45 || t.head? == some 43 then t.tail else t) = t1) :
    strtoCore 0 s =
      match scan0 t1 with
      | none => { neg := t.head? == some 45, mag := 0, rest := s, conv := false }
      | some (m, r) => { neg := t.head? == some 45, mag := m, rest := r, conv := true } := by
  subst ht
  unfold strtoCore
  simp only [ht1]
  unfold scan0
  simp only [isDigitB16_fun, beq_self_eq_true, if_true]
  by_cases hp : hasHexPrefix 0 t1 = true
  · simp only [hp, if_true]; split <;> rfl
  · simp only [hp, if_false, Bool.false_eq_true]
    by_cases h48 : (t1.head? == some 48) = true
    · simp only [h48, if_true, isDigitB8_fun]; split <;> rfl
    · simp only [h48, if_false, Bool.false_eq_true, isDigitB10_fun]; split <;> rfl

theorem hasHexPrefix_true {base : Nat} {t1 : Bytes} (h : hasHexPrefix base t1 = true) :
    ∃ x rest, t1 = 48 :: x :: rest ∧ (x = 120 ∨ x = 88) := by
  unfold hasHexPrefix at h
  split at h
  · rename_i a b rest
    simp only [Bool.and_eq_true, Bool.or_eq_true, beq_iff_eq] at h
    obtain ⟨⟨ha, hb⟩, _⟩ := h
    refine ⟨b, rest, ?_, ?_⟩
    · rw [u8_eq_of_toNat (by decide) ha]; rfl
    · rcases hb with hb | hb
      · left; exact u8_eq_of_toNat (by decide) hb
      · right; exact u8_eq_of_toNat (by decide) hb
  · cases h

theorem hasHexPrefix_false_of_head {base : Nat} {t1 : Bytes} (h : t1.head? ≠ some 48) : hasHexPrefix base t1 = false := by
  cases hh : hasHexPrefix base t1
  · rfl
  · obtain ⟨x, rest, ht, _⟩ := hasHexPrefix_true hh
    rw [ht] at h; simp at h

theorem hasHexPrefix_false_of_second {base : Nat} {a : UInt8} {t : Bytes} (h : ∀ c, t.head? = some c → c ≠ 120 ∧ c ≠ 88) :
    hasHexPrefix base (a :: t) = false := by
  cases hh : hasHexPrefix base (a :: t)
  · rfl
  · obtain ⟨x, rest, ht, hx⟩ := hasHexPrefix_true hh
    injection ht with _ ht
    have := h x (by rw [ht]; rfl)
    rcases hx with hx | hx
    · exact absurd hx this.1
    · exact absurd hx this.2

/-- an integer constant starts with a decimal digit -/
theorem NatLex0.head {body : Bytes} {n : Nat} (h : NatLex0 body n) : ∃ c t, body = c :: t ∧ isDigit c = true := by
  rcases h with ⟨x, ds, hb, _⟩ | ⟨hh, _⟩ | ⟨hne, _, hd, _⟩
  · exact ⟨48, x :: ds, hb, by decide⟩
  · cases body with
    | nil => simp at hh
    | cons a t => simp at hh; subst hh; exact ⟨48, t, rfl, by decide⟩
  · cases body with
    | nil => exact absurd rfl hne
    | cons a t =>
      simp only [List.all_cons, Bool.and_eq_true] at hd
      exact ⟨a, t, rfl, hd.1⟩

/-- scanning an integer constant followed by white space reads all of it -/
theorem scan0_of_lex {body r : Bytes} {n : Nat} (hb : NatLex0 body n) (hr : r.all isSpace = true) :
    scan0 (body ++ r) = some (n, r) := by
  have hrs := allSpace_head hr
  rcases hb with ⟨x, ds, hb, hx, hne, hd, hn⟩ | ⟨hh, hd, hn⟩ | ⟨hne, hh, hd, hn⟩
  · subst hb
    have hp : hasHexPrefix 0 (48 :: x :: ds ++ r) = true := by
      rcases hx with rfl | rfl <;> rfl
    have htw : (ds ++ r).takeWhile isHexDigit = ds := takeWhile_append_stop hd (fun c hc => space_not_hex (hrs c hc))
    have hdw : (ds ++ r).dropWhile isHexDigit = r := dropWhile_append_stop hd (fun c hc => space_not_hex (hrs c hc))
    have hne' : ds.isEmpty = false := by cases ds <;> simp_all
    have e2 : List.drop 2 (48 :: x :: ds ++ r) = ds ++ r := rfl
    unfold scan0
    rw [if_pos hp, e2, htw, hdw, hne', hn]
    rfl
  · cases body with
    | nil => simp at hh
    | cons a ds =>
      simp at hh; subst hh
      have hd' : ds.all isOctDigit = true := by
        simp only [List.all_cons, Bool.and_eq_true] at hd; exact hd.2
      have hp : hasHexPrefix 0 (48 :: ds ++ r) = false := by
        show hasHexPrefix 0 (48 :: (ds ++ r)) = false
        apply hasHexPrefix_false_of_second
        intro c hc
        cases ds with
        | nil =>
          have := hrs c (by simpa using hc)
          constructor <;> (intro h; subst h; revert this; decide)
        | cons b t =>
          simp at hc; subst hc
          simp only [List.all_cons, Bool.and_eq_true] at hd'
          have := hd'.1
          constructor <;> (intro h; subst h; revert this; decide)
      have htw : ((48 :: ds) ++ r).takeWhile isOctDigit = 48 :: ds :=
        takeWhile_append_stop hd (fun c hc => space_not_oct (hrs c hc))
      have hdw : ((48 :: ds) ++ r).dropWhile isOctDigit = r :=
        dropWhile_append_stop hd (fun c hc => space_not_oct (hrs c hc))
      unfold scan0
      rw [if_neg (by rw [hp]; simp)]
      rw [if_pos (by rfl : (((48 : UInt8) :: ds ++ r).head? == some 48) = true)]
      rw [htw, hdw, hn]
      rfl
  · have hp : hasHexPrefix 0 (body ++ r) = false := by
      apply hasHexPrefix_false_of_head
      cases body with
      | nil => exact absurd rfl hne
      | cons a t => simpa using hh
    have h48 : ((body ++ r).head? == some 48) = false := by
      cases body with
      | nil => exact absurd rfl hne
      | cons a t => simpa using hh
    have htw : (body ++ r).takeWhile isDigit = body := takeWhile_append_stop hd (fun c hc => space_not_digit (hrs c hc))
    have hdw : (body ++ r).dropWhile isDigit = r := dropWhile_append_stop hd (fun c hc => space_not_digit (hrs c hc))
    have hne' : body.isEmpty = false := by cases body <;> simp_all
    unfold scan0
    rw [if_neg (by rw [hp]; simp), if_neg (by rw [h48]; simp), htw, hdw, hne', hn]
    rfl

/-- every scan that converts something and stops before white space (or the end) read an integer constant -/
theorem lex_of_scan0 {t1 r : Bytes} {n : Nat} (h : scan0 t1 = some (n, r)) (hr : r.all isSpace = true) :
    ∃ body, t1 = body ++ r ∧ NatLex0 body n := by
  unfold scan0 at h
  split at h
  · rename_i hp
    obtain ⟨x, rest, ht, hx⟩ := hasHexPrefix_true hp
    subst ht
    simp only [List.drop_succ_cons, List.drop_zero] at h
    split at h
    · -- `0x` without a digit: the rest starts with the `x`
      injection h with h; injection h with _ h
      subst h
      have := allSpace_head hr x rfl
      rcases hx with rfl | rfl <;> exact absurd this (by decide)
    · rename_i hem
      injection h with h; injection h with hn hrest
      refine ⟨48 :: x :: rest.takeWhile isHexDigit, ?_, Or.inl ⟨x, _, rfl, hx, ?_, all_takeWhile _ _, hn.symm⟩⟩
      · rw [← hrest]; simp [List.takeWhile_append_dropWhile]
      · intro h0; rw [h0] at hem; simp at hem
  · split at h
    · rename_i _ h48
      split at h
      · cases h
      · injection h with h; injection h with hn hrest
        refine ⟨t1.takeWhile isOctDigit, ?_, Or.inr (Or.inl ⟨?_, all_takeWhile _ _, hn.symm⟩)⟩
        · rw [← hrest, List.takeWhile_append_dropWhile]
        · cases t1 with
          | nil => simp at h48
          | cons a t =>
            simp at h48; subst h48
            rw [List.takeWhile_cons, if_pos (by decide)]; rfl
    · rename_i _ h48
      split at h
      · cases h
      · rename_i hem
        injection h with h; injection h with hn hrest
        refine ⟨t1.takeWhile isDigit, ?_, Or.inr (Or.inr ⟨?_, ?_, all_takeWhile _ _, hn.symm⟩)⟩
        · rw [← hrest, List.takeWhile_append_dropWhile]
        · intro h0; rw [h0] at hem; simp at hem
        · cases t1 with
          | nil => simp
          | cons a t =>
            by_cases ha : isDigit a = true
            · rw [List.takeWhile_cons, if_pos ha]; simpa using h48
            · rw [List.takeWhile_cons, if_neg ha]; simp

/-! ### `strtoCore 0` on a laid-out string, and the layout of every string it converts -/

theorem strtoCore0_of_layout {l sg body r : Bytes} {n : Nat} (hl : l.all isSpace = true) (hs : IsSign sg)
    (hb : NatLex0 body n) (hr : r.all isSpace = true) :
    strtoCore 0 (l ++ sg ++ body ++ r) = { neg := sg == [45], mag := n, rest := r, conv := true } := by
  obtain ⟨c, tl, hbody, hc⟩ := hb.head
  have hc45 : c ≠ 45 ∧ c ≠ 43 := by
    have := (isDigit_iff c).mp hc
    constructor <;> (intro h; subst h; simp at this)
  have hcore : ∀ c', (sg ++ (body ++ r)).head? = some c' → isSpace c' = false :=
    sign_head_not_space hs (fun c' hc' => by
      rw [hbody] at hc'; simp at hc'; subst hc'; exact digit_not_space hc)
  have ht : (l ++ sg ++ body ++ r).dropWhile isSpace = sg ++ (body ++ r) := by
    rw [List.append_assoc, List.append_assoc]
    exact dropWhile_append_stop hl hcore
  have ht1 : (if (sg ++ (body ++ r)).head? == some 45 || (sg ++ (body ++ r)).head? == some 43
      then (sg ++ (body ++ r)).tail else sg ++ (body ++ r)) = body ++ r := by
    rcases hs with rfl | rfl | rfl
    · rw [hbody]; simp [hc45.1, hc45.2]
    · simp
    · simp
  have hneg : ((sg ++ (body ++ r)).head? == some 45) = (sg == [45]) := by
    rcases hs with rfl | rfl | rfl
    · rw [hbody]; simp [hc45.1]
    · simp
    · simp
  rw [strtoCore0_eq _ _ _ ht ht1, scan0_of_lex hb hr]
  simp only [hneg]

theorem layout_of_strtoCore0 (s : Bytes) {neg : Bool} {mag : Nat} {rest : Bytes}
    (h : strtoCore 0 s = { neg := neg, mag := mag, rest := rest, conv := true }) (hsp : rest.all isSpace = true) :
    ∃ l sg body, s = l ++ sg ++ body ++ rest ∧ l.all isSpace = true ∧ IsSign sg ∧ NatLex0 body mag ∧ neg = (sg == [45]) := by
  have hs : s = s.takeWhile isSpace ++ s.dropWhile isSpace := List.takeWhile_append_dropWhile.symm
  have hl := all_takeWhile isSpace s
  generalize s.takeWhile isSpace = l at hs hl
  generalize ht : s.dropWhile isSpace = t at hs
  -- split off the sign
  obtain ⟨sg, t1, hsg, htt, hneg, ht1⟩ : ∃ sg t1, IsSign sg ∧ t = sg ++ t1 ∧ (t.head? == some 45) = (sg == [45]) ∧
      (if t.head? == some 45 || t.head? == some 43 then t.tail else t) = t1 := by
    cases t with
    | nil => exact ⟨[], [], Or.inl rfl, rfl, rfl, rfl⟩
    | cons a r =>
      by_cases h45 : a = 45
      · subst h45; exact ⟨[45], r, Or.inr (Or.inr rfl), rfl, by simp, by simp⟩
      · by_cases h43 : a = 43
        · subst h43; exact ⟨[43], r, Or.inr (Or.inl rfl), rfl, by simp, by simp⟩
        · exact ⟨[], a :: r, Or.inl rfl, rfl, by simp [h45], by simp [h45, h43]⟩
  rw [strtoCore0_eq s t t1 ht ht1] at h
  cases hsc : scan0 t1 with
  | none => rw [hsc] at h; simp only at h; injection h with _ _ _ h; cases h
  | some p =>
    obtain ⟨m, r⟩ := p
    rw [hsc] at h
    simp only at h
    injection h with h1 h2 h3 _
    subst h2; subst h3
    obtain ⟨body, hb, hlex⟩ := lex_of_scan0 hsc hsp
    refine ⟨l, sg, body, ?_, hl, hsg, hlex, ?_⟩
    · rw [List.append_assoc, List.append_assoc, ← hb, ← htt]; exact hs
    · rw [← h1]; exact hneg

/-! ### `ly_parse_int` / `ly_parse_uint` with base 0 -/

theorem IntLexWs0.of_layout {l sg body r : Bytes} {n : Nat} (hl : l.all isSpace = true) (hs : IsSign sg)
    (hb : NatLex0 body n) (hr : r.all isSpace = true) :
    IntLexWs0 (l ++ sg ++ body ++ r) (applySign sg n) :=
  ⟨l, sg ++ body, r, by simp, hl, hr, sg, body, n, rfl, hs, hb, rfl⟩

theorem lyParseInt0_iff (str : Bytes) (min max v : Int) (hmin : -(2 ^ 63) ≤ min) (hmax : max ≤ 2 ^ 63 - 1) :
    lyParseInt str min max 0 = .ok v ↔ IntLexWs0 str v ∧ min ≤ v ∧ v ≤ max := by
  rw [lyParseInt_ok]
  constructor
  · rcases hsc : strtoCore 0 str with ⟨neg, mag, rest, conv⟩
    rintro ⟨hconv, _, hv, hlo, hhi, hsp⟩
    simp only at hconv hv hsp
    subst hconv
    obtain ⟨l, sg, body, hstr, hl, hsg, hlex, hneg⟩ := layout_of_strtoCore0 str hsc hsp
    have hv' : v = applySign sg mag := by rw [applySign_beq, ← hneg]; exact hv
    refine ⟨?_, hlo, hhi⟩
    rw [hstr, hv']
    exact IntLexWs0.of_layout hl hsg hlex hsp
  · rintro ⟨⟨l, core, r, hstr, hl, hr, sg, body, n, hcore, hsg, hlex, hv⟩, hlo, hhi⟩
    subst hcore
    have hlay := strtoCore0_of_layout hl hsg hlex hr
    rw [show l ++ sg ++ body ++ r = str by rw [hstr]; simp] at hlay
    rw [hlay]
    rw [applySign_beq] at hv
    refine ⟨rfl, ?_, hv, hlo, hhi, hr⟩
    by_cases hn : (sg == [45]) = true
    · simp only [hn, if_true] at hv ⊢
      have : ((n : Nat) : Int) ≤ 2 ^ 63 := by omega
      exact_mod_cast this
    · simp only [hn, if_false, Bool.false_eq_true] at hv ⊢
      have : ((n : Nat) : Int) ≤ 2 ^ 63 - 1 := by omega
      omega

theorem lyParseUint0_iff (str : Bytes) (max : Nat) (v : Int) (hmax : max ≤ 2 ^ 64 - 1)
    (hstr0 : ∀ c, str.head? = some c → isSpace c = false) :
    lyParseUint str max 0 = .ok v ↔ IntLexWs0 str v ∧ 0 ≤ v ∧ v ≤ max := by
  rw [lyParseUint_ok]
  constructor
  · rcases hsc : strtoCore 0 str with ⟨neg, mag, rest, conv⟩
    rintro ⟨hconv, hmag64, hv, hhi, hminus, hsp⟩
    simp only at hconv hmag64 hv hsp
    subst hconv
    obtain ⟨l, sg, body, hstr, hl, hsg, hlex, hneg⟩ := layout_of_strtoCore0 str hsc hsp
    -- no leading whitespace: `l = []`
    have hl0 : l = [] := by
      cases l with
      | nil => rfl
      | cons a t =>
        have h1 := hstr0 a (by rw [hstr]; simp)
        simp only [List.all_cons, Bool.and_eq_true] at hl
        rw [hl.1] at h1; cases h1
    subst hl0
    have hv0 : 0 ≤ v := by rw [hv]; exact Int.natCast_nonneg _
    refine ⟨?_, hv0, hhi⟩
    have hv' : v = applySign sg mag := by
      rw [applySign_beq, ← hneg]
      by_cases hn : neg = true
      · simp only [hn, if_true] at hv ⊢
        -- a '-' sign: the string starts with it, so the value must be 0
        have hsg45 : sg = [45] := by rw [hn] at hneg; simpa using hneg.symm
        have hhead : str.head? = some 45 := by rw [hstr, hsg45]; simp
        have hv00 : v = 0 := by
          cases Decidable.em (v = 0) with
          | inl h => exact h
          | inr h => exact absurd ⟨h, hhead⟩ hminus
        rw [hv00] at hv
        have : (2 ^ 64 - mag) % 2 ^ 64 = 0 := by exact_mod_cast hv.symm
        have hm0 : mag = 0 := by omega
        rw [hv00, hm0]; rfl
      · simp only [hn, if_false, Bool.false_eq_true] at hv ⊢
        exact hv
    rw [hstr, hv']
    exact IntLexWs0.of_layout hl hsg hlex hsp
  · rintro ⟨⟨l, core, r, hstr, hl, hr, sg, body, n, hcore, hsg, hlex, hv⟩, hlo, hhi⟩
    subst hcore
    have hlay := strtoCore0_of_layout hl hsg hlex hr
    rw [show l ++ sg ++ body ++ r = str by rw [hstr]; simp] at hlay
    rw [hlay]
    rw [applySign_beq] at hv
    by_cases hn : (sg == [45]) = true
    · simp only [hn, if_true] at hv ⊢
      have hm0 : n = 0 := by omega
      rw [hm0] at hv ⊢
      refine ⟨trivial, by omega, by simp [hv], hhi, ?_, hr⟩
      intro h; exact h.1 (by simp [hv])
    · simp only [hn, if_false, Bool.false_eq_true] at hv ⊢
      refine ⟨trivial, by omega, hv, hhi, ?_, hr⟩
      rintro ⟨_, hh⟩
      -- the string does not start with '-'
      have hl0 : l = [] := by
        cases l with
        | nil => rfl
        | cons a t =>
          have h1 := hstr0 a (by rw [hstr]; simp)
          simp only [List.all_cons, Bool.and_eq_true] at hl
          rw [hl.1] at h1; cases h1
      subst hl0
      obtain ⟨c, tl, hbody, hc⟩ := hlex.head
      rcases hsg with rfl | rfl | rfl
      · rw [hstr, hbody] at hh; simp at hh; subst hh; simp [isDigit] at hc
      · rw [hstr] at hh; simp at hh
      · simp at hn

/-! ### `lyplg_type_parse_int` / `lyplg_type_parse_uint` with base 0 -/

/-- the first character of an integer constant with sign is a sign or a digit -/
theorem IntLex0.head {core : Bytes} {v : Int} (h : IntLex0 core v) :
    ∃ c t, core = c :: t ∧ isSpace c = false ∧ c ≠ 0 := by
  obtain ⟨sg, body, n, hcore, hsg, hlex, _⟩ := h
  obtain ⟨a, tl, hbody, ha⟩ := hlex.head
  rcases hsg with rfl | rfl | rfl
  · refine ⟨a, tl, by simpa [hbody] using hcore, digit_not_space ha, ?_⟩
    intro h0; subst h0; simp [isDigit] at ha
  · exact ⟨43, body, by simpa using hcore, by decide, by decide⟩
  · exact ⟨45, body, by simpa using hcore, by decide, by decide⟩

theorem IntLexWs0_dropWhile (s : Bytes) (v : Int) : IntLexWs0 (s.dropWhile isSpace) v ↔ IntLexWs0 s v := by
  constructor
  · rintro ⟨l, core, r, hs, hl, hr, hc⟩
    refine ⟨s.takeWhile isSpace ++ l, core, r, ?_, ?_, hr, hc⟩
    · rw [List.append_assoc, List.append_assoc, ← List.append_assoc l, ← hs, List.takeWhile_append_dropWhile]
    · rw [List.all_append, all_takeWhile, hl]; rfl
  · rintro ⟨l, core, r, hs, hl, hr, hc⟩
    obtain ⟨c, t, hcore, hsp, _⟩ := hc.head
    refine ⟨[], core, r, ?_, rfl, hr, hc⟩
    rw [hs, List.append_assoc]
    rw [dropWhile_append_stop hl]
    · simp
    · intro c' hc'
      rw [hcore] at hc'; simp at hc'; subst hc'; exact hsp

theorem IntLexWs0.dropWhile_head {s : Bytes} {v : Int} (h : IntLexWs0 s v) :
    ∃ c t, s.dropWhile isSpace = c :: t ∧ isSpace c = false ∧ c ≠ 0 := by
  obtain ⟨l, core, r, hs, hl, hr, hc⟩ := h
  obtain ⟨c, t, hcore, hsp, h0⟩ := hc.head
  refine ⟨c, t ++ r, ?_, hsp, h0⟩
  rw [hs, List.append_assoc, dropWhile_append_stop hl]
  · rw [hcore]; rfl
  · intro c' hc'
    rw [hcore] at hc'; simp at hc'; subst hc'; exact hsp

theorem parseInt0_iff (value : Bytes) (min max v : Int) (h0 : (0 : UInt8) ∉ value) (hmin : -(2 ^ 63) ≤ min) (hmax : max ≤ 2 ^ 63 - 1) :
    parseInt 0 min max value = .ok v ↔ IntLexWs0 value v ∧ min ≤ v ∧ v ≤ max := by
  unfold parseInt
  have hc := cstr_of_no_nul (no_nul_dropWhile isSpace h0)
  constructor
  · intro h
    simp only at h
    split at h
    · cases h
    · rw [hc, lyParseInt0_iff _ _ _ _ hmin hmax, IntLexWs0_dropWhile] at h
      exact h
  · rintro ⟨hl, hlo, hhi⟩
    obtain ⟨c, t, hd, _, hc0⟩ := hl.dropWhile_head
    simp only
    rw [hc, hd]
    have : ((c :: t).isEmpty || (c :: t).head? == some 0) = false := by simp [hc0]
    rw [if_neg (by rw [this]; simp)]
    rw [← hd, lyParseInt0_iff _ _ _ _ hmin hmax, IntLexWs0_dropWhile]
    exact ⟨hl, hlo, hhi⟩

theorem parseUint0_iff (value : Bytes) (max : Nat) (v : Int) (h0 : (0 : UInt8) ∉ value) (hmax : max ≤ 2 ^ 64 - 1) :
    parseUint 0 max value = .ok v ↔ IntLexWs0 value v ∧ 0 ≤ v ∧ v ≤ max := by
  unfold parseUint
  have hc := cstr_of_no_nul (no_nul_dropWhile isSpace h0)
  have hhead : ∀ c, (value.dropWhile isSpace).head? = some c → isSpace c = false := head_dropWhile isSpace value
  constructor
  · intro h
    simp only at h
    split at h
    · cases h
    · rw [hc, lyParseUint0_iff _ _ _ hmax hhead, IntLexWs0_dropWhile] at h
      exact h
  · rintro ⟨hl, hlo, hhi⟩
    obtain ⟨c, t, hd, _, hc0⟩ := hl.dropWhile_head
    simp only
    rw [hc]
    have : ((value.dropWhile isSpace).isEmpty || (value.dropWhile isSpace).head? == some 0) = false := by rw [hd]; simp [hc0]
    rw [if_neg (by rw [this]; simp)]
    rw [lyParseUint0_iff _ _ _ hmax hhead, IntLexWs0_dropWhile]
    exact ⟨hl, hlo, hhi⟩

/-! ### the store -/

/-- `lyplg_type_store_int/uint` for any base, given what the lexical parser of that base accepts (`Lex`): the value is
    not changed by the truncation to the type's width and the range check decides membership in the parts. -/
theorem storeInt_accept_iff_of_parse (t : IntTy) (range : List (Int × Int)) (hints : Nat) (s : Bytes) (v : Int) (base : Nat)
    (Lex : Bytes → Int → Prop) (hb : checkHints hints t.name = some base) (hwf : PartsWF t.min t.max range)
    (hparse : ∀ num, (if t.signed then parseInt base t.min t.max s else parseUint base t.max.toNat s) = .ok num ↔
      Lex s num ∧ t.min ≤ num ∧ num ≤ t.max) :
    storeInt t range hints s = .ok v ↔ Lex s v ∧ t.min ≤ v ∧ v ≤ t.max ∧ InParts range v := by
  -- what the range check decides on an in-bounds value
  have hrange : ∀ num, t.min ≤ num → num ≤ t.max → (validateRange (rangeIsUnsigned t.name) range num = true ↔ InParts range num) := by
    intro num hlo hhi
    rw [rangeIsUnsigned_int]
    cases hs : t.signed
    · obtain ⟨_, _, h3⟩ := IntTy.umax t hs
      have hmm := IntTy.min_max_values t
      rw [hs] at hmm
      have hmax64 : t.max < 2 ^ 64 := by
        rw [hmm.2]; cases t <;> first | (exfalso; revert hs; decide) | decide
      show validateRange true range num = true ↔ _
      rw [validateRange_unsigned_eq (by omega : (0 : Int) ≤ t.min) hmax64 range num hwf (by omega) (by omega)]
      exact validateRange_signed_iff range num hwf
    · exact validateRange_signed_iff range num hwf
  unfold storeInt
  rw [hb]
  simp only
  cases hp : (if t.signed then parseInt base t.min t.max s else parseUint base t.max.toNat s) with
  | error e =>
    simp only [reduceCtorEq, false_iff]
    rintro ⟨hl, hlo, hhi, _⟩
    have := (hparse v).mpr ⟨hl, hlo, hhi⟩
    rw [hp] at this; cases this
  | ok num =>
    obtain ⟨hl, hlo, hhi⟩ := (hparse num).mp hp
    simp only [wrap_id t num hlo hhi]
    constructor
    · intro h
      split at h
      · rename_i hv
        injection h with h; subst h
        exact ⟨hl, hlo, hhi, (hrange num hlo hhi).mp hv⟩
      · cases h
    · rintro ⟨hl', hlo', hhi', hin⟩
      have := (hparse v).mpr ⟨hl', hlo', hhi'⟩
      rw [hp] at this; injection this with this; subst this
      rw [if_pos ((hrange num hlo hhi).mpr hin)]

/-- Acceptance under hints that select base 0 ⇔ the string is a C integer constant with optional sign and surrounding
    white space, its value is inside the bounds of the type and in the union of the range parts. -/
theorem storeInt_accept_iff_base0 (t : IntTy) (range : List (Int × Int)) (hints : Nat) (s : Bytes) (v : Int)
    (h0 : (0 : UInt8) ∉ s) (hb : checkHints hints t.name = some 0) (hwf : PartsWF t.min t.max range) :
    storeInt t range hints s = .ok v ↔ IntLexWs0 s v ∧ t.min ≤ v ∧ v ≤ t.max ∧ InParts range v := by
  apply storeInt_accept_iff_of_parse t range hints s v 0 IntLexWs0 hb hwf
  intro num
  cases hs : t.signed
  · obtain ⟨h1, h2, h3⟩ := IntTy.umax t hs
    simp only [Bool.false_eq_true, if_false]
    rw [parseUint0_iff s _ num h0 h1, h2, h3]
  · obtain ⟨h1, h2⟩ := IntTy.bounds_in_int64 t hs
    simp only [if_true]
    rw [parseInt0_iff s _ _ num h0 h1 h2]

/-! ### the canonical (decimal, no leading zero) form is read back unchanged with base 0 -/

theorem natDec_lex0 (n : Nat) : NatLex0 (natDec n) n := by
  by_cases h0 : n = 0
  · subst h0; exact Or.inr (Or.inl ⟨by decide, by decide, by decide⟩)
  · refine Or.inr (Or.inr ⟨natDec_ne_nil n, ?_, natDec_all_digits n, (valOf_natDec n).symm⟩)
    intro hh; exact h0 ((natDec_head n 48 hh).mp rfl)

theorem intDec_lexws0 (v : Int) : IntLexWs0 (intDec v) v := by
  refine ⟨[], intDec v, [], by simp, rfl, rfl, ?_⟩
  rw [intDec_eq]
  exact ⟨sgnOf v, natDec v.natAbs, v.natAbs, rfl, sgnOf_isSign v, natDec_lex0 _, by rw [applySign_sgnOf]⟩

/-- `store (canon v) = v` for every value of the type (any range) under hints that select base 0 -/
theorem storeInt_canon_base0 (t : IntTy) (range : List (Int × Int)) (hints : Nat) (v : Int)
    (hb : checkHints hints t.name = some 0) (hwf : PartsWF t.min t.max range)
    (hlo : t.min ≤ v) (hhi : v ≤ t.max) (hin : InParts range v) :
    storeInt t range hints (canonInt v) = .ok v :=
  (storeInt_accept_iff_base0 t range hints _ v (intDec_no_nul v) hb hwf).mpr ⟨intDec_lexws0 v, hlo, hhi, hin⟩

end LyModel.Val
