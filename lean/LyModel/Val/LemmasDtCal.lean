import LyModel.Val.DateTime
/-! calendar arithmetic of the date-and-time model: `timegm (gmtime t) = t`, ranges of the fields `gmtime` produces -/
namespace LyModel.Val.DateTime

/-- the year of the 400-year era a day belongs to, and the day of that year (March-based): the heart of civil-from-days -/
theorem yoe_doy_range (doe : Int) (h0 : 0 ≤ doe) (h1 : doe ≤ 146096) :
    let yoe := (doe - doe / 1460 + doe / 36524 - doe / 146096) / 365
    0 ≤ yoe ∧ yoe ≤ 399 ∧ 0 ≤ doe - (365 * yoe + yoe / 4 - yoe / 100) ∧ doe - (365 * yoe + yoe / 4 - yoe / 100) ≤ 365 := by
  intro yoe
  have hc : doe / 36524 = 0 ∨ doe / 36524 = 1 ∨ doe / 36524 = 2 ∨ doe / 36524 = 3 ∨ doe / 36524 = 4 := by omega
  have hy : yoe / 100 = 0 ∨ yoe / 100 = 1 ∨ yoe / 100 = 2 ∨ yoe / 100 = 3 := by omega
  rcases hc with hc | hc | hc | hc | hc <;> rcases hy with hy | hy | hy | hy <;> omega

theorem civil_aux (era doe yoe doy mp : Int) (h0 : 0 ≤ doe) (h1 : doe ≤ 146096)
    (hyoe : yoe = (doe - doe / 1460 + doe / 36524 - doe / 146096) / 365)
    (hdoy : doy = doe - (365 * yoe + yoe / 4 - yoe / 100)) (hmp : mp = (5 * doy + 2) / 153) :
    daysFromCivil (if (if mp < 10 then mp + 3 else mp - 9) ≤ 2 then yoe + era * 400 + 1 else yoe + era * 400)
        (if mp < 10 then mp + 3 else mp - 9) (doy - (153 * mp + 2) / 5 + 1) = era * 146097 + doe - 719468 ∧
      1 ≤ (if mp < 10 then mp + 3 else mp - 9) ∧ (if mp < 10 then mp + 3 else mp - 9) ≤ 12 ∧
      1 ≤ doy - (153 * mp + 2) / 5 + 1 ∧ doy - (153 * mp + 2) / 5 + 1 ≤ 31 := by
  have hk := yoe_doy_range doe h0 h1
  simp only at hk
  rw [← hyoe] at hk
  obtain ⟨k1, k2, k3, k4⟩ := hk
  rw [← hdoy] at k3 k4
  have hmp2 : 0 ≤ mp ∧ mp ≤ 11 := by omega
  have e1 : (yoe + era * 400) / 400 = era := by omega
  have e2 : yoe + era * 400 + 1 - 1 = yoe + era * 400 := by omega
  have e3 : yoe + era * 400 - era * 400 = yoe := by omega
  have e4 : mp + 3 - 3 = mp := by omega
  have e5 : mp - 9 + 9 = mp := by omega
  simp only [daysFromCivil]
  refine ⟨?_, ?_, ?_, ?_, ?_⟩
  · split <;> split <;> split <;> simp only [e1, e2, e3, e4, e5] <;> omega
  all_goals (try split) <;> omega

/-- month and day produced by `civilFromDays` are a month and a day number -/
theorem civil_range (z : Int) :
    1 ≤ (civilFromDays z).2.1 ∧ (civilFromDays z).2.1 ≤ 12 ∧ 1 ≤ (civilFromDays z).2.2 ∧ (civilFromDays z).2.2 ≤ 31 :=
  (civil_aux ((z + 719468) / 146097) (z + 719468 - (z + 719468) / 146097 * 146097) _ _ _ (by omega) (by omega) rfl rfl rfl).2

/-- days-from-civil inverts civil-from-days -/
theorem days_civil_inv (z : Int) :
    daysFromCivil (civilFromDays z).1 (civilFromDays z).2.1 (civilFromDays z).2.2 = z :=
  (civil_aux ((z + 719468) / 146097) (z + 719468 - (z + 719468) / 146097 * 146097) _ _ _ (by omega) (by omega) rfl rfl rfl).1.trans
    (by omega)

theorem yoe_recover_common (yoe doy : Int) (h0 : 0 ≤ yoe) (h1 : yoe ≤ 399) (h2 : 0 ≤ doy) (h3 : doy ≤ 364) :
    (365 * yoe + yoe / 4 - yoe / 100 + doy - (365 * yoe + yoe / 4 - yoe / 100 + doy) / 1460 + (365 * yoe + yoe / 4 - yoe / 100 + doy) / 36524 -
      (365 * yoe + yoe / 4 - yoe / 100 + doy) / 146096) / 365 = yoe := by
  generalize hdoe : 365 * yoe + yoe / 4 - yoe / 100 + doy = doe
  have hy : yoe / 100 = 0 ∨ yoe / 100 = 1 ∨ yoe / 100 = 2 ∨ yoe / 100 = 3 := by omega
  have hc : doe / 36524 = 0 ∨ doe / 36524 = 1 ∨ doe / 36524 = 2 ∨ doe / 36524 = 3 ∨ doe / 36524 = 4 := by omega
  rcases hc with hc | hc | hc | hc | hc <;> rcases hy with hy | hy | hy | hy <;> omega

theorem yoe_recover_leap (yoe : Int) (h0 : 0 ≤ yoe) (h1 : yoe ≤ 399) (h4 : (yoe + 1) % 4 = 0) (h5 : (yoe + 1) % 100 ≠ 0 ∨ yoe = 399) :
    (365 * yoe + yoe / 4 - yoe / 100 + 365 - (365 * yoe + yoe / 4 - yoe / 100 + 365) / 1460 + (365 * yoe + yoe / 4 - yoe / 100 + 365) / 36524 -
      (365 * yoe + yoe / 4 - yoe / 100 + 365) / 146096) / 365 = yoe := by
  obtain ⟨k, hk⟩ : ∃ k, yoe = 4 * k + 3 := ⟨(yoe + 1) / 4 - 1, by omega⟩
  subst hk
  generalize hc : (4 * k + 3) / 100 = c
  have hq : (4 * k + 3) / 4 = k := by omega
  rw [hq]
  generalize hdoe : 365 * (4 * k + 3) + k - c + 365 = doe
  have e1 : doe / 1460 = k + 1 := by omega
  by_cases h399 : k = 99
  · subst h399; omega
  · have hm : (k + 1) % 25 ≠ 0 := by omega
    have hb : 25 * c < k + 1 ∧ k + 1 < 25 * (c + 1) := by omega
    have e2 : doe / 36524 = c := by
      have hy : c = 0 ∨ c = 1 ∨ c = 2 ∨ c = 3 := by omega
      rcases hy with hy | hy | hy | hy <;> subst hy <;> omega
    have e3 : doe / 146096 = 0 := by omega
    rw [e1, e2, e3]
    omega

/-- leap year of the proleptic Gregorian calendar -/
def isLeap (y : Int) : Bool := y % 4 == 0 && (y % 100 != 0 || y % 400 == 0)

/-- number of days of month `m` (1..12) of year `y` -/
def daysInMonth (y m : Int) : Int :=
  if m = 2 then (if isLeap y then 29 else 28) else if m = 4 ∨ m = 6 ∨ m = 9 ∨ m = 11 then 30 else 31

theorem civil_of_parts (era doe yoe doy mp d : Int) (_hyoe : 0 ≤ yoe ∧ yoe ≤ 399) (hdoe : doe = 365 * yoe + yoe / 4 - yoe / 100 + doy)
    (hrec : (doe - doe / 1460 + doe / 36524 - doe / 146096) / 365 = yoe) (hr : 0 ≤ doe ∧ doe ≤ 146096)
    (hdoy : doy = (153 * mp + 2) / 5 + d - 1) (hmprec : (5 * doy + 2) / 153 = mp) :
    civilFromDays (era * 146097 + doe - 719468) =
      (if (if mp < 10 then mp + 3 else mp - 9) ≤ 2 then yoe + era * 400 + 1 else yoe + era * 400, if mp < 10 then mp + 3 else mp - 9, d) := by
  have e0 : era * 146097 + doe - 719468 + 719468 = era * 146097 + doe := by omega
  have e1 : (era * 146097 + doe) / 146097 = era := by omega
  have e2 : era * 146097 + doe - era * 146097 = doe := by omega
  have e3 : doe - (365 * yoe + yoe / 4 - yoe / 100) = doy := by omega
  have e4 : doy - (153 * mp + 2) / 5 + 1 = d := by omega
  simp only [civilFromDays, e0, e1, e2, hrec, e3, hmprec, e4]

/-- civil-from-days inverts days-from-civil on the dates that exist -/
theorem civil_days_inv (y m d : Int) (hm : 1 ≤ m ∧ m ≤ 12) (hd : 1 ≤ d ∧ d ≤ daysInMonth y m) :
    civilFromDays (daysFromCivil y m d) = (y, m, d) := by
  -- the pieces `daysFromCivil` computes
  generalize hy' : (if m ≤ 2 then y - 1 else y) = y'
  generalize hera : y' / 400 = era
  generalize hyoe : y' - era * 400 = yoe
  generalize hmp : (if m > 2 then m - 3 else m + 9) = mp
  generalize hdoy : (153 * mp + 2) / 5 + d - 1 = doy
  have hyr : 0 ≤ yoe ∧ yoe ≤ 399 := by omega
  have hmpr : 0 ≤ mp ∧ mp ≤ 11 := by split at hmp <;> omega
  have hdays : daysFromCivil y m d = era * 146097 + (365 * yoe + yoe / 4 - yoe / 100 + doy) - 719468 := by
    simp only [daysFromCivil, hy', hera, hyoe, hmp, hdoy]
    omega
  have hmcases : m = 1 ∨ m = 2 ∨ m = 3 ∨ m = 4 ∨ m = 5 ∨ m = 6 ∨ m = 7 ∨ m = 8 ∨ m = 9 ∨ m = 10 ∨ m = 11 ∨ m = 12 := by omega
  -- the day of the (March-based) year and the month it falls in
  have hkey : 0 ≤ doy ∧ (5 * doy + 2) / 153 = mp ∧
      (doy ≤ 364 ∨ (doy = 365 ∧ (yoe + 1) % 4 = 0 ∧ ((yoe + 1) % 100 ≠ 0 ∨ yoe = 399))) := by
    simp only [daysInMonth, isLeap] at hd
    rcases hmcases with h | h | h | h | h | h | h | h | h | h | h | h <;> subst h <;> simp at hmp hy' hd <;> subst hmp <;> subst hy'
    case inr.inl =>
      -- February
      by_cases hl : (y % 4 = 0 ∧ (y % 100 ≠ 0 ∨ y % 400 = 0))
      · have : d ≤ 29 := by
          have := hd.2; split at this <;> omega
        refine ⟨by omega, by omega, ?_⟩
        by_cases h29 : d = 29
        · right; omega
        · left; omega
      · have : d ≤ 28 := by
          have := hd.2
          split at this
          · rename_i hc; exact absurd (by simpa using hc) hl
          · omega
        exact ⟨by omega, by omega, Or.inl (by omega)⟩
    all_goals exact ⟨by omega, by omega, Or.inl (by omega)⟩
  obtain ⟨k0, k1, k2⟩ := hkey
  have hrec : ((365 * yoe + yoe / 4 - yoe / 100 + doy) - (365 * yoe + yoe / 4 - yoe / 100 + doy) / 1460 +
      (365 * yoe + yoe / 4 - yoe / 100 + doy) / 36524 - (365 * yoe + yoe / 4 - yoe / 100 + doy) / 146096) / 365 = yoe := by
    rcases k2 with k2 | ⟨k2, k3, k4⟩
    · exact yoe_recover_common yoe doy hyr.1 hyr.2 k0 k2
    · subst k2; exact yoe_recover_leap yoe hyr.1 hyr.2 k3 k4
  have hrange : 0 ≤ 365 * yoe + yoe / 4 - yoe / 100 + doy ∧ 365 * yoe + yoe / 4 - yoe / 100 + doy ≤ 146096 := by
    rcases k2 with k2 | ⟨k2, k3, k4⟩ <;> omega
  rw [hdays, civil_of_parts era _ yoe doy mp d hyr rfl hrec hrange hdoy.symm k1]
  have hm' : (if mp < 10 then mp + 3 else mp - 9) = m := by
    split at hmp <;> split <;> omega
  rw [hm']
  have hyy : (if m ≤ 2 then yoe + era * 400 + 1 else yoe + era * 400) = y := by
    split at hy' <;> simp only [*, ↓reduceIte] <;> omega
  rw [hyy]

/-- `gmtime_r` inverts `timegm` on the broken-down times that denote an existing date and time of day -/
theorem gmtime_timegm (tm : Tm) (hm : 1 ≤ tm.mon ∧ tm.mon ≤ 12) (hd : 1 ≤ tm.mday ∧ tm.mday ≤ daysInMonth tm.year tm.mon)
    (hh : 0 ≤ tm.hour ∧ tm.hour ≤ 23) (hmi : 0 ≤ tm.min ∧ tm.min ≤ 59) (hs : 0 ≤ tm.sec ∧ tm.sec ≤ 59) : gmtime (timegm tm) = tm := by
  obtain ⟨y, mo, d, h, mi, se⟩ := tm
  simp only at hm hd hh hmi hs
  have e1 : timegm ⟨y, mo, d, h, mi, se⟩ / 86400 = daysFromCivil y mo d := by simp only [timegm]; omega
  have e2 : timegm ⟨y, mo, d, h, mi, se⟩ % 86400 = h * 3600 + mi * 60 + se := by simp only [timegm]; omega
  simp only [gmtime, e1, e2, civil_days_inv y mo d hm hd, Tm.mk.injEq, true_and]
  omega

/-- `timegm` inverts `gmtime` -/
theorem timegm_gmtime (t : Int) : timegm (gmtime t) = t := by
  simp only [timegm, gmtime, days_civil_inv]
  omega

theorem gmtime_range (t : Int) :
    1 ≤ (gmtime t).mon ∧ (gmtime t).mon ≤ 12 ∧ 1 ≤ (gmtime t).mday ∧ (gmtime t).mday ≤ 31 ∧ 0 ≤ (gmtime t).hour ∧ (gmtime t).hour ≤ 23 ∧
      0 ≤ (gmtime t).min ∧ (gmtime t).min ≤ 59 ∧ 0 ≤ (gmtime t).sec ∧ (gmtime t).sec ≤ 59 := by
  have h := civil_range (t / 86400)
  simp only [gmtime]
  omega

/-- two instants with the same broken-down time are the same instant -/
theorem gmtime_inj {t u : Int} (h : gmtime t = gmtime u) : t = u := by
  rw [← timegm_gmtime t, ← timegm_gmtime u, h]

end LyModel.Val.DateTime
