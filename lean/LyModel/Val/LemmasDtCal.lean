import LyModel.Val.DateTime
/-! calendar arithmetic of the date-and-time model: `timegm (gmtime t) = t`, ranges of the fields `gmtime` produces -/
namespace LyModel.Val.DateTime

/-- the year of the 400-year era a day belongs to, and the day of that year (March-based): the heart of civil-from-days -/
theorem yoe_doy_range (doe : Int) (h0 : 0 ≤ doe) (h1 : doe ≤ 146096) :
    let yoe := (doe - doe / 1460 + doe / 36524 - doe / 146096) / 365
    0 ≤ yoe ∧ yoe ≤ 399 ∧ 0 ≤ doe - (365 * yoe + yoe / 4 - yoe / 100) ∧ doe - (365 * yoe + yoe / 4 - yoe / 100) ≤ 365 := by
  intro yoe
  have hc : doe / 36524 = 0 ∨ doe / 36524 = 1 ∨ doe / 36524 = 2 ∨ doe / 36524 = 3 ∨ doe / 36524 = 4 := by omega
  have hy : yoe / 100 = 0 ∨ yoe / 100 = 1 ∨ yoe / 100 = 2 ∨ yoe / 100 = 3 := by omega
  rcases hc with hc | hc | hc | hc | hc <;> rcases hy with hy | hy | hy | hy <;> omega

theorem civil_aux (era doe yoe doy mp : Int) (h0 : 0 ≤ doe) (h1 : doe ≤ 146096)
    (hyoe : yoe = (doe - doe / 1460 + doe / 36524 - doe / 146096) / 365)
    (hdoy : doy = doe - (365 * yoe + yoe / 4 - yoe / 100)) (hmp : mp = (5 * doy + 2) / 153) :
    daysFromCivil (if (if mp < 10 then mp + 3 else mp - 9) ≤ 2 then yoe + era * 400 + 1 else yoe + era * 400)
        (if mp < 10 then mp + 3 else mp - 9) (doy - (153 * mp + 2) / 5 + 1) = era * 146097 + doe - 719468 ∧
      1 ≤ (if mp < 10 then mp + 3 else mp - 9) ∧ (if mp < 10 then mp + 3 else mp - 9) ≤ 12 ∧
      1 ≤ doy - (153 * mp + 2) / 5 + 1 ∧ doy - (153 * mp + 2) / 5 + 1 ≤ 31 := by
  have hk := yoe_doy_range doe h0 h1
  simp only at hk
  rw [← hyoe] at hk
  obtain ⟨k1, k2, k3, k4⟩ := hk
  rw [← hdoy] at k3 k4
  have hmp2 : 0 ≤ mp ∧ mp ≤ 11 := by omega
  have e1 : (yoe + era * 400) / 400 = era := by omega
  have e2 : yoe + era * 400 + 1 - 1 = yoe + era * 400 := by omega
  have e3 : yoe + era * 400 - era * 400 = yoe := by omega
  have e4 : mp + 3 - 3 = mp := by omega
  have e5 : mp - 9 + 9 = mp := by omega
  simp only [daysFromCivil]
  refine ⟨?_, ?_, ?_, ?_, ?_⟩
  · split <;> split <;> split <;> simp only [e1, e2, e3, e4, e5] <;> omega
  all_goals (try split) <;> omega

/-- month and day produced by `civilFromDays` are a month and a day number -/
theorem civil_range (z : Int) :
    1 ≤ (civilFromDays z).2.1 ∧ (civilFromDays z).2.1 ≤ 12 ∧ 1 ≤ (civilFromDays z).2.2 ∧ (civilFromDays z).2.2 ≤ 31 :=
  (civil_aux ((z + 719468) / 146097) (z + 719468 - (z + 719468) / 146097 * 146097) _ _ _ (by omega) (by omega) rfl rfl rfl).2

/-- days-from-civil inverts civil-from-days -/
theorem days_civil_inv (z : Int) :
    daysFromCivil (civilFromDays z).1 (civilFromDays z).2.1 (civilFromDays z).2.2 = z :=
  (civil_aux ((z + 719468) / 146097) (z + 719468 - (z + 719468) / 146097 * 146097) _ _ _ (by omega) (by omega) rfl rfl rfl).1.trans
    (by omega)

/-- `timegm` inverts `gmtime` -/
theorem timegm_gmtime (t : Int) : timegm (gmtime t) = t := by
  simp only [timegm, gmtime, days_civil_inv]
  omega

theorem gmtime_range (t : Int) :
    1 ≤ (gmtime t).mon ∧ (gmtime t).mon ≤ 12 ∧ 1 ≤ (gmtime t).mday ∧ (gmtime t).mday ≤ 31 ∧ 0 ≤ (gmtime t).hour ∧ (gmtime t).hour ≤ 23 ∧
      0 ≤ (gmtime t).min ∧ (gmtime t).min ≤ 59 ∧ 0 ≤ (gmtime t).sec ∧ (gmtime t).sec ≤ 59 := by
  have h := civil_range (t / 86400)
  simp only [gmtime]
  omega

/-- two instants with the same broken-down time are the same instant -/
theorem gmtime_inj {t u : Int} (h : gmtime t = gmtime u) : t = u := by
  rw [← timegm_gmtime t, ← timegm_gmtime u, h]

end LyModel.Val.DateTime
