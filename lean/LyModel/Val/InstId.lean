import LyModel.Path.Eval
import LyModel.Path.Print
import LyModel.Val.Model
/-!
# `instance-identifier` (`src/plugins_types/instanceid.c`)

`lyplg_type_store_instanceid` (value format JSON / LYB) =
  `lyplg_type_lypath_new` = `ly_path_parse(…, lref = 0, LY_PATH_BEGIN_ABSOLUTE, LY_PATH_PREFIX_STRICT_INHERIT, LY_PATH_PRED_SIMPLE)`
                          + `ly_path_compile(…, LY_PATH_OPER_INPUT, LY_PATH_TARGET_SINGLE, limit_access_tree = 1, LY_VALUE_JSON, …)`,
  then `instanceid_path2str(path, LY_VALUE_JSON, …)` for the canonical string.

The path lexer / parser / compiler are those of component `Path` (property C15).  `lyd_find_path`, which `Path.compilePath`
models, parses with `LY_PATH_BEGIN_EITHER` and `LY_PATH_PREFIX_FIRST`; the instance-identifier options differ in two places, both
of which only *reject more*:
  * `LY_PATH_BEGIN_ABSOLUTE`: a relative path is a syntax error;
  * `LY_PATH_PREFIX_STRICT_INHERIT`: a node prefix equal to the prefix written last ("Duplicate prefix") and any prefix on a
    predicate key ("Redundant prefix") are syntax errors (`strictSteps`).
The compilation is `Path.compileSteps single := true` (JSON format: a node without prefix belongs to the module of the
previous node; `LY_PATH_TARGET_SINGLE`).  Scope: data nodes only (no rpc / action / notification in the schema, the
`limit_access_tree` test never fires), keys and leaf-lists of type `string` (predicate values are stored through the string
plug-in: `Val.checkChars`, canonical = the bytes).

A key predicate with a variable reference (`[k=$v]`) passes the parser and the compiler (`LY_PATH_PREDTYPE_LIST_VAR`) and then
makes `instanceid_path2str` fail with `LOGINT` / `LY_EINT`: kind `Internal` (`devar` compiles such a predicate as if an
empty literal had been written, which passes every other test of the compiler that a variable reference passes).
Core Lean only.
-/
namespace LyModel.Val.InstId
open LyModel LyModel.Path

inductive IErr where
  /-- "Invalid instance-identifier … - syntax error" (`ly_path_parse` failed) -/
  | Syntax
  /-- "Invalid instance-identifier … - semantic error" (`ly_path_compile` failed) -/
  | Semantic
  /-- `LOGINT` in `instanceid_path2str` (`LY_PATH_PREDTYPE_LIST_VAR`) -/
  | Internal
  /-- `lyplg_type_check_hints` -/
  | Hint
  deriving DecidableEq, Repr

def IErr.name : IErr → String
  | .Syntax => "Syntax" | .Semantic => "Semantic" | .Internal => "Internal" | .Hint => "Hint"

/-- `LY_PATH_PREFIX_STRICT_INHERIT` in `ly_path_check_predicate`: a key NameTest with a prefix -/
def keyHasPrefix : Pred → Bool
  | .keys kv => kv.any (fun p => hasPrefix p.1)
  | _ => false

/-- the `LY_PATH_PREFIX_STRICT_INHERIT` tests of `ly_path_parse`; `prev` = `prev_prefix` (the prefix written last) -/
def strictSteps : Option Bytes → List Step → Bool
  | _, [] => true
  | prev, st :: rest =>
    if keyHasPrefix st.pred then false
    else
      match (splitName st.name).1 with
      | none => strictSteps prev rest
      | some p => if prev == some p then false else strictSteps (some p) rest

def PVal.isVar : PVal → Bool
  | .var _ => true
  | _ => false

def predHasVar : Pred → Bool
  | .keys kv => kv.any (fun p => PVal.isVar p.2)
  | _ => false

def devarVal : PVal → PVal
  | .var _ => .lit []
  | v => v

def devarPred : Pred → Pred
  | .keys kv => .keys (kv.map fun p => (p.1, devarVal p.2))
  | p => p

def devar (steps : List Step) : List Step := steps.map fun st => { st with pred := devarPred st.pred }

/-- `ly_path_parse(…, LY_PATH_BEGIN_ABSOLUTE, LY_PATH_PREFIX_STRICT_INHERIT, LY_PATH_PRED_SIMPLE)` -/
def parseInst (s : Bytes) : Option (List Step) :=
  match parsePath s with
  | some (true, steps) => if strictSteps none steps then some steps else none
  | _ => none

/-- the predicate values are stored through the type plug-in of the key / leaf-list: `string` -/
def predValuesOk : CPred → Bool
  | .keys kv => kv.all fun p => checkChars (p.2.length + 1) p.2
  | .dot v => checkChars (v.length + 1) v
  | _ => true

/-- `lyplg_type_store_instanceid` without the hints test: the stored value is the compiled path -/
def storeInstId (schema : List SNode) (s : Bytes) : Except IErr (List CStep) :=
  match parseInst s with
  | none => .error .Syntax
  | some steps =>
    match compileSteps true schema none none (devar steps) with
    | .error _ => .error .Semantic
    | .ok cs =>
      if !cs.all (fun c => predValuesOk c.pred) then .error .Semantic
      else if steps.any (fun st => predHasVar st.pred) then .error .Internal
      else .ok cs

/-- the store callback: `lyplg_type_check_hints` first -/
def store (schema : List SNode) (hints : Nat) (s : Bytes) : Except IErr (List CStep) :=
  match checkHints hints "inst" with
  | none => .error .Hint
  | some _ => storeInstId schema s

/-- `quot = '\''; if (strchr(strval, quot)) quot = '"';` -/
def quoteOf (v : Bytes) : UInt8 := if v.contains 39 then 34 else 39

/-- `[%s=%c%s%c]` -/
def canonKey (k v : Bytes) : Bytes := [91] ++ k ++ [61, quoteOf v] ++ v ++ [quoteOf v, 93]

def canonKeys : List (Bytes × Bytes) → Bytes
  | [] => []
  | (k, v) :: r => canonKey k v ++ canonKeys r

/-- the predicates of one segment, `inherit_prefix = 1` -/
def canonPred : CPred → Bytes
  | .none => []
  | .keys kv => canonKeys kv
  | .dot v => [91, 46, 61, quoteOf v] ++ v ++ [quoteOf v, 93]
  | .pos n => [91] ++ toDec n ++ [93]

/-- `/%s:%s` when the module differs from the one printed last (`mod != path[u].node->module`, `mod` initially NULL), else `/%s` -/
def canonName (prev : Option Bytes) (c : CStep) : Bytes :=
  if prev == some c.mod then [47] ++ c.name else [47] ++ c.mod ++ [58] ++ c.name

/-- the `LY_ARRAY_FOR(path, u)` loop of `instanceid_path2str`, formats CANON / JSON / LYB -/
def canonSteps : Option Bytes → List CStep → Bytes
  | _, [] => []
  | prev, c :: r => canonName prev c ++ canonPred c.pred ++ canonSteps (some c.mod) r

/-- `instanceid_path2str(path, LY_VALUE_JSON, NULL, &canon)` -/
def canonInstId (cs : List CStep) : Bytes := canonSteps none cs

/-- `lyplg_type_compare_simple`: the canonical strings are the same dictionary entry -/
def cmpEqInstId (a b : List CStep) : Bool := canonInstId a == canonInstId b

/-- `lyplg_type_sort_simple`: `strcmp` of the canonical strings -/
def sortInstId (a b : List CStep) : Int := strcmp (canonInstId a) (canonInstId b)

/-- `lyplg_type_print_instanceid(…, LY_VALUE_LYB, …)`: the canonical string -/
def lybInstId (cs : List CStep) : Bytes := canonInstId cs

/-- the store callback with `LY_VALUE_LYB`: "value in LYB format is the same as in JSON format" -/
def unlybInstId (schema : List SNode) (b : Bytes) : Except IErr (List CStep) := storeInstId schema b

end LyModel.Val.InstId
