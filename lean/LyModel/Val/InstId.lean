import LyModel.Path.Eval
import LyModel.Path.Print
import LyModel.Val.Model
import LyModel.Generated.ValInst
/-!
# `instance-identifier` (`src/plugins_types/instanceid.c`)

`lyplg_type_store_instanceid` (value format JSON / LYB) =
  `lyplg_type_lypath_new` = `ly_path_parse(…, lref = 0, LY_PATH_BEGIN_ABSOLUTE, LY_PATH_PREFIX_STRICT_INHERIT, LY_PATH_PRED_SIMPLE)`
                          + `ly_path_compile(…, LY_PATH_OPER_INPUT, LY_PATH_TARGET_SINGLE, limit_access_tree = 1, LY_VALUE_JSON, …)`,
  then `instanceid_path2str(path, LY_VALUE_JSON, …)` for the canonical string.

The path lexer / parser / compiler are those of component `Path` (property C15).  `lyd_find_path`, which `Path.compilePath`
models, parses with `LY_PATH_BEGIN_EITHER` and `LY_PATH_PREFIX_FIRST`; the instance-identifier options differ in two places, both
of which only *reject more*:
  * `LY_PATH_BEGIN_ABSOLUTE`: a relative path is a syntax error;
  * `LY_PATH_PREFIX_STRICT_INHERIT`: a node prefix equal to the prefix written last ("Duplicate prefix") and any prefix on a
    predicate key ("Redundant prefix") are syntax errors (`strictSteps`).
The compilation is `Path.compileSteps single := true` (JSON format: a node without prefix belongs to the module of the
previous node; `LY_PATH_TARGET_SINGLE`).  `ly_path_compile_predicate` stores every predicate value through the type plug-in of
the key / leaf-list (`lyd_value_store`, `LYD_HINT_DATA`) and the canonical string prints the stored value in its canonical form:
`typeSteps` does that on the compiled path with the types of a typed schema (`TNode`: the schema of `Path` plus the type of
every leaf / leaf-list, the types being those of `Val/Model.lean`: integers, decimal64, boolean, enumeration, bits, string).
Scope: data nodes only (no rpc / action / notification, the `limit_access_tree` test never fires); a predicate on a node whose
type is not one of the modelled ones is outside the model.

Two switches read from the source (`Generated/ValInst.lean`), each with the pinned and the repaired behaviour:
  * `varRefused` (F421): a key predicate with a variable reference (`[k=$v]`) passes the parser and the compiler
    (`LY_PATH_PREDTYPE_LIST_VAR`) and then makes `instanceid_path2str` fail with `LOGINT` / `LY_EINT`: kind `Internal` (`devar`
    compiles such a predicate as if an empty literal had been written, which passes every other test of the compiler that a
    variable reference passes; the value of a variable is not stored).  Repaired: a syntax error.
  * `keysSchema` (F422): the key predicates are printed in the order they were written; repaired: in the order of the keys.
Core Lean only.
-/
namespace LyModel.Val.InstId
open LyModel LyModel.Path

inductive IErr where
  /-- "Invalid instance-identifier … - syntax error" (`ly_path_parse` failed) -/
  | Syntax
  /-- "Invalid instance-identifier … - semantic error" (`ly_path_compile` failed) -/
  | Semantic
  /-- `LOGINT` in `instanceid_path2str` (`LY_PATH_PREDTYPE_LIST_VAR`) -/
  | Internal
  /-- `lyplg_type_check_hints` -/
  | Hint
  deriving DecidableEq, Repr

def IErr.name : IErr → String
  | .Syntax => "Syntax" | .Semantic => "Semantic" | .Internal => "Internal" | .Hint => "Hint"

/-! ### typed schema -/

/-- schema node with the type of a leaf / leaf-list (`none`: not a terminal node, or a type outside the model) -/
inductive TNode where
  | mk (mod name : Bytes) (kind : Kind) (ty : Option Ty) (children : List TNode)

namespace TNode
def mod : TNode → Bytes | mk m _ _ _ _ => m
def name : TNode → Bytes | mk _ n _ _ _ => n
def kind : TNode → Kind | mk _ _ k _ _ => k
def ty : TNode → Option Ty | mk _ _ _ t _ => t
def children : TNode → List TNode | mk _ _ _ _ c => c
end TNode

mutual
/-- the schema as `Path` sees it -/
def TNode.toS : TNode → SNode
  | .mk m n k _ ch => .mk m n k (TNode.toSs ch)
def TNode.toSs : List TNode → List SNode
  | [] => []
  | t :: r => TNode.toS t :: TNode.toSs r
end

def findT (sibs : List TNode) (mod name : Bytes) : Option TNode :=
  sibs.find? (fun t => t.mod == mod && t.name == name)

/-! ### parsing -/

/-- `LY_PATH_PREFIX_STRICT_INHERIT` in `ly_path_check_predicate`: a key NameTest with a prefix -/
def keyHasPrefix : Pred → Bool
  | .keys kv => kv.any (fun p => hasPrefix p.1)
  | _ => false

/-- the `LY_PATH_PREFIX_STRICT_INHERIT` tests of `ly_path_parse`; `prev` = `prev_prefix` (the prefix written last) -/
def strictSteps : Option Bytes → List Step → Bool
  | _, [] => true
  | prev, st :: rest =>
    if keyHasPrefix st.pred then false
    else
      match (splitName st.name).1 with
      | none => strictSteps prev rest
      | some p => if prev == some p then false else strictSteps (some p) rest

def PVal.isVar : PVal → Bool
  | .var _ => true
  | _ => false

def predHasVar : Pred → Bool
  | .keys kv => kv.any (fun p => PVal.isVar p.2)
  | _ => false

def devarVal : PVal → PVal
  | .var _ => .lit []
  | v => v

def devarPred : Pred → Pred
  | .keys kv => .keys (kv.map fun p => (p.1, devarVal p.2))
  | p => p

def devar (steps : List Step) : List Step := steps.map fun st => { st with pred := devarPred st.pred }

/-- `ly_path_parse(…, LY_PATH_BEGIN_ABSOLUTE, LY_PATH_PREFIX_STRICT_INHERIT, LY_PATH_PRED_SIMPLE)` -/
def parseInst (s : Bytes) : Option (List Step) :=
  match parsePath s with
  | some (true, steps) => if strictSteps none steps then some steps else none
  | _ => none

/-! ### predicate values -/

/-- `lyd_value_store(…, type, val, val_len, …, LYD_HINT_DATA, …)` + the canonical value the printer asks for -/
def canonVal (ty : Option Ty) (v : Bytes) : Except IErr Bytes :=
  match ty with
  | none => .error .Semantic
  | some t =>
    match Val.store t Generated.LYD_HINT_DATA v with
    | .error _ => .error .Semantic
    | .ok x => .ok (Val.canon t x)

/-- the key leaf `k` of the list `t` (keys carry no prefix: they belong to the module of the list) -/
def keyType (t : TNode) (k : Bytes) : Option Ty :=
  match t.children.find? (fun c => c.mod == t.mod && c.name == k) with
  | some c => c.ty
  | none => none

def typeKeys (t : TNode) : List (Bytes × Bytes) → Except IErr (List (Bytes × Bytes))
  | [] => .ok []
  | (k, v) :: r =>
    match canonVal (keyType t k) v with
    | .error e => .error e
    | .ok c =>
      match typeKeys t r with
      | .error e => .error e
      | .ok cr => .ok ((k, c) :: cr)

def typePred (t : TNode) : CPred → Except IErr CPred
  | .keys kv =>
    match typeKeys t kv with
    | .error e => .error e
    | .ok ckv => .ok (.keys ckv)
  | .dot v =>
    match canonVal t.ty v with
    | .error e => .error e
    | .ok c => .ok (.dot c)
  | p => .ok p

/-- the value stores of `ly_path_compile_predicate` along a compiled path: every predicate value replaced by the canonical
    form of the value its type stores -/
def typeSteps : List TNode → List CStep → Except IErr (List CStep)
  | _, [] => .ok []
  | sibs, c :: r =>
    match findT sibs c.mod c.name with
    | none => .error .Semantic
    | some t =>
      match typePred t c.pred with
      | .error e => .error e
      | .ok p =>
        match typeSteps t.children r with
        | .error e => .error e
        | .ok cr => .ok ({ c with pred := p } :: cr)

/-! ### the same value stores when some key values are variable references (pinned F421 only: the verdict is all that matters,
the value of a variable is not stored) -/

def varFlags : Pred → List Bool
  | .keys kv => kv.map (fun p => PVal.isVar p.2)
  | _ => []

def typeKeysV (t : TNode) : List Bool → List (Bytes × Bytes) → Except IErr Unit
  | _, [] => .ok ()
  | fl, (k, v) :: r =>
    if fl.headD false then typeKeysV t fl.tail r
    else
      match canonVal (keyType t k) v with
      | .error e => .error e
      | .ok _ => typeKeysV t fl.tail r

def typePredV (t : TNode) (fl : List Bool) : CPred → Except IErr Unit
  | .keys kv => typeKeysV t fl kv
  | .dot v =>
    match canonVal t.ty v with
    | .error e => .error e
    | .ok _ => .ok ()
  | _ => .ok ()

def typeStepsV : List TNode → List Step → List CStep → Except IErr Unit
  | _, _, [] => .ok ()
  | sibs, sts, c :: r =>
    match findT sibs c.mod c.name with
    | none => .error .Semantic
    | some t =>
      match typePredV t (varFlags ((sts.head?.map (·.pred)).getD .none)) c.pred with
      | .error e => .error e
      | .ok _ => typeStepsV t.children sts.tail r

/-! ### store -/

/-- `lyplg_type_store_instanceid` without the hints test: the stored value is the compiled path (predicate values in their
    canonical form) -/
def storeInstIdWith (varRefused : Bool) (schema : List TNode) (s : Bytes) : Except IErr (List CStep) :=
  match parseInst s with
  | none => .error .Syntax
  | some steps =>
    if varRefused && steps.any (fun st => predHasVar st.pred) then .error .Syntax
    else
      match compileSteps true (TNode.toSs schema) none none (devar steps) with
      | .error _ => .error .Semantic
      | .ok cs =>
        if steps.any (fun st => predHasVar st.pred) then
          match typeStepsV schema steps cs with
          | .error e => .error e
          | .ok _ => .error .Internal
        else typeSteps schema cs

def storeInstId (schema : List TNode) (s : Bytes) : Except IErr (List CStep) :=
  storeInstIdWith Generated.instVarRefused schema s

/-- the store callback: `lyplg_type_check_hints` first -/
def store (schema : List TNode) (hints : Nat) (s : Bytes) : Except IErr (List CStep) :=
  match checkHints hints "inst" with
  | none => .error .Hint
  | some _ => storeInstId schema s

/-! ### canonical form -/

/-- `quot = '\''; if (strchr(strval, quot)) quot = '"';` -/
def quoteOf (v : Bytes) : UInt8 := if v.contains Generated.instQuoteDefault then Generated.instQuoteAlt else Generated.instQuoteDefault

/-- `[%s=%c%s%c]` -/
def canonKey (k v : Bytes) : Bytes := [91] ++ k ++ [61, quoteOf v] ++ v ++ [quoteOf v, 93]

def canonKeys : List (Bytes × Bytes) → Bytes
  | [] => []
  | (k, v) :: r => canonKey k v ++ canonKeys r

/-- the key predicates in the order they are printed: as written, or (repaired) the predicate of every key in schema order
    (`instanceid_key_predicate`) -/
def orderKeys (keysSchema : Bool) (keyNames : List Bytes) (kv : List (Bytes × Bytes)) : List (Bytes × Bytes) :=
  if keysSchema then keyNames.filterMap (fun k => kv.find? (fun p => p.1 == k)) else kv

/-- the predicates of one segment, `inherit_prefix = 1` -/
def canonPredWith (keysSchema : Bool) (keyNames : List Bytes) : CPred → Bytes
  | .none => []
  | .keys kv => canonKeys (orderKeys keysSchema keyNames kv)
  | .dot v => [91, 46, 61, quoteOf v] ++ v ++ [quoteOf v, 93]
  | .pos n => [91] ++ toDec n ++ [93]

/-- `/%s:%s` when the module differs from the one printed last (`mod != path[u].node->module`, `mod` initially NULL), else `/%s` -/
def canonName (prev : Option Bytes) (c : CStep) : Bytes :=
  if prev == some c.mod then [47] ++ c.name else [47] ++ c.mod ++ [58] ++ c.name

/-- the `LY_ARRAY_FOR(path, u)` loop of `instanceid_path2str`, formats CANON / JSON / LYB -/
def canonStepsWith (keysSchema : Bool) : Option Bytes → List CStep → Bytes
  | _, [] => []
  | prev, c :: r => canonName prev c ++ canonPredWith keysSchema c.keyNames c.pred ++ canonStepsWith keysSchema (some c.mod) r

/-- `instanceid_path2str(path, LY_VALUE_JSON, NULL, &canon)` -/
def canonInstIdWith (keysSchema : Bool) (cs : List CStep) : Bytes := canonStepsWith keysSchema none cs

def canonInstId (cs : List CStep) : Bytes := canonInstIdWith Generated.instKeysSchemaOrder cs

/-- `lyplg_type_compare_simple`: the canonical strings are the same dictionary entry -/
def cmpEqInstIdWith (keysSchema : Bool) (a b : List CStep) : Bool := canonInstIdWith keysSchema a == canonInstIdWith keysSchema b

def cmpEqInstId (a b : List CStep) : Bool := cmpEqInstIdWith Generated.instKeysSchemaOrder a b

/-- `lyplg_type_sort_simple`: `strcmp` of the canonical strings -/
def sortInstId (a b : List CStep) : Int := strcmp (canonInstId a) (canonInstId b)

/-- `lyplg_type_print_instanceid(…, LY_VALUE_LYB, …)`: the canonical string -/
def lybInstId (cs : List CStep) : Bytes := canonInstId cs

/-- the store callback with `LY_VALUE_LYB`: "value in LYB format is the same as in JSON format" -/
def unlybInstId (schema : List TNode) (b : Bytes) : Except IErr (List CStep) := storeInstId schema b

end LyModel.Val.InstId
