import LyModel.Val.LemmasBasic
import LyModel.Val.Spec
/-! Arithmetic of digit strings used by the decimal64 proofs: zero padding, trailing-zero stripping, powers of ten. -/
set_option linter.unusedSimpArgs false
namespace LyModel.Val
open LyModel

theorem digitRaw_48 : digitRaw 48 = 0 := by decide

theorem snoc_induction {P : Bytes → Prop} (h0 : P []) (h1 : ∀ y c, P y → P (y ++ [c])) : ∀ y, P y := by
  intro y
  have : ∀ n, ∀ y : Bytes, y.length = n → P y := by
    intro n
    induction n with
    | zero => intro y hy; have : y = [] := List.length_eq_zero_iff.mp hy; subst this; exact h0
    | succ n ih =>
      intro y hy
      rcases List.eq_nil_or_concat y with h | ⟨y', c, h⟩
      · subst h; simp at hy
      · rw [List.concat_eq_append] at h; subst h
        apply h1; apply ih; simp at hy; omega
  exact this _ y rfl

theorem zeros_succ' (n : Nat) : zeros (n + 1) = zeros n ++ [48] := List.replicate_succ'

theorem zeros_add (a b : Nat) : zeros (a + b) = zeros a ++ zeros b := by
  simp [zeros, List.replicate_append_replicate]

theorem zeros_length (n : Nat) : (zeros n).length = n := List.length_replicate

theorem zeros_all_digit (n : Nat) : (zeros n).all isDigit = true := by
  simp [zeros, List.all_replicate]; exact Or.inr (by decide)

theorem valOf_nil (b : Nat) : valOf b [] = 0 := rfl

theorem valOf_append_zeros (x : Bytes) : ∀ n, valOf 10 (x ++ zeros n) = valOf 10 x * 10 ^ n
  | 0 => by simp [zeros]
  | n + 1 => by
    rw [zeros_succ', ← List.append_assoc, valOf_snoc, valOf_append_zeros x n, digitRaw_48, Nat.pow_succ, Nat.add_zero, Nat.mul_assoc]

theorem valOf_zeros_append (x : Bytes) : ∀ n, valOf 10 (zeros n ++ x) = valOf 10 x
  | 0 => by simp [zeros]
  | n + 1 => by
    have : zeros (n + 1) ++ x = 48 :: (zeros n ++ x) := by simp [zeros, List.replicate_succ]
    rw [this]
    have h := valOf_zeros_append x n
    simp only [valOf, List.foldl_cons, digitRaw_48] at h ⊢
    simpa using h

/-- positional value of a concatenation of digit strings -/
theorem valOf_append_digits (x : Bytes) : ∀ (y : Bytes), valOf 10 (x ++ y) = valOf 10 x * 10 ^ y.length + valOf 10 y := by
  apply snoc_induction
  · simp [valOf_nil]
  · intro y c ih
    rw [← List.append_assoc, valOf_snoc, valOf_snoc, ih]
    simp only [List.length_append, List.length_singleton, Nat.pow_succ]
    rw [Nat.add_mul, Nat.mul_assoc, Nat.add_assoc]

theorem valOf_lt_pow : ∀ (y : Bytes), y.all isDigit = true → valOf 10 y < 10 ^ y.length := by
  apply snoc_induction
  · intro _; simp [valOf_nil]
  · intro y c ih h
    rw [List.all_append, Bool.and_eq_true] at h
    have hc : isDigit c = true := by simpa using h.2
    have := ih h.1
    rw [valOf_snoc, digitRaw_of_digit hc]
    have hc' := (isDigit_iff c).mp hc
    simp only [List.length_append, List.length_singleton, Nat.pow_succ]
    omega

/-! ### trailing zeros -/

theorem stripTrailingZeros_spec (ds : Bytes) :
    ∃ z, ds = stripTrailingZeros ds ++ zeros z ∧ (stripTrailingZeros ds).getLast? ≠ some 48 := by
  unfold stripTrailingZeros
  refine ⟨(ds.reverse.takeWhile (· == 48)).length, ?_, ?_⟩
  · have h := List.takeWhile_append_dropWhile (p := (· == 48)) (l := ds.reverse)
    have h2 : ds = (ds.reverse.dropWhile (· == 48)).reverse ++ (ds.reverse.takeWhile (· == 48)).reverse := by
      rw [← List.reverse_append, h, List.reverse_reverse]
    have h3 : (ds.reverse.takeWhile (· == 48)).reverse = zeros (ds.reverse.takeWhile (· == 48)).length := by
      have hall := all_takeWhile (· == 48) ds.reverse
      generalize ds.reverse.takeWhile (· == 48) = w at hall
      unfold zeros
      rw [List.eq_replicate_iff]
      refine ⟨by simp, ?_⟩
      intro b hb
      have := (List.all_eq_true.mp hall) b (by simpa using hb)
      simpa using this
    rw [← h3]; exact h2
  · rw [List.getLast?_reverse]
    intro h
    have := head_dropWhile (· == 48) ds.reverse 48 h
    simp at this

theorem stripTrailingZeros_all_digit {ds : Bytes} (h : ds.all isDigit = true) : (stripTrailingZeros ds).all isDigit = true := by
  obtain ⟨z, hz, _⟩ := stripTrailingZeros_spec ds
  rw [hz, List.all_append, Bool.and_eq_true] at h
  exact h.1

/-- a digit string is `frs ++ zeros z` with `frs` not ending in `0` in only one way -/
theorem strip_unique {frs : Bytes} {z : Nat} (h : frs.getLast? ≠ some 48) : stripTrailingZeros (frs ++ zeros z) = frs := by
  unfold stripTrailingZeros
  rw [List.reverse_append]
  have hz : (zeros z).reverse = zeros z := List.reverse_replicate
  rw [hz]
  have hall : (zeros z).all (· == 48) = true := by simp [zeros, List.all_replicate]
  rw [dropWhile_append_stop hall]
  · exact List.reverse_reverse _
  · intro c hc
    rw [List.head?_reverse] at hc
    cases hcc : (c == 48)
    · rfl
    · exfalso; apply h; rw [hc]; simp at hcc; rw [hcc]

/-- the last digit of a string that does not end in `0` makes its value indivisible by ten -/
theorem valOf_mod10_of_last {x frs : Bytes} (hd : frs.all isDigit = true) (hne : frs ≠ []) (h : frs.getLast? ≠ some 48) :
    valOf 10 (x ++ frs) % 10 ≠ 0 := by
  rcases List.eq_nil_or_concat frs with h0 | ⟨f, c, hfc⟩
  · exact absurd h0 hne
  · rw [List.concat_eq_append] at hfc
    subst hfc
    rw [List.all_append, Bool.and_eq_true] at hd
    have hc : isDigit c = true := by simpa using hd.2
    have hc' := (isDigit_iff c).mp hc
    have hc48 : c.toNat ≠ 48 := by
      intro h48; apply h
      have : c = 48 := by rw [← UInt8.toNat_inj]; simpa using h48
      simp [this]
    rw [← List.append_assoc, valOf_snoc, digitRaw_of_digit hc]
    omega

/-! ### signs and powers of ten -/

theorem applySign_mul (sg : Bytes) (a b : Nat) : applySign sg (a * b) = applySign sg a * (b : Int) := by
  unfold applySign
  split <;> simp [Int.neg_mul]

theorem applySign_dvd {sg : Bytes} {n : Nat} (h : (10 : Int) ∣ applySign sg n) : n % 10 = 0 := by
  unfold applySign at h
  split at h
  · have : (10 : Int) ∣ (n : Int) := (Int.dvd_neg).mp h
    omega
  · omega

theorem pow10_ne_zero (n : Nat) : (10 : Int) ^ n ≠ 0 := by
  have : (0 : Int) < 10 ^ n := Int.pow_pos (by decide)
  omega

theorem mul_pow10_le {k W : Int} {a b : Nat} (hab : a ≤ b) : k * 10 ^ a = W * 10 ^ b ↔ k = W * 10 ^ (b - a) := by
  have hb : (10 : Int) ^ b = 10 ^ (b - a) * 10 ^ a := by rw [← Int.pow_add]; congr 1; omega
  rw [hb, ← Int.mul_assoc]
  exact Int.mul_eq_mul_right_iff (pow10_ne_zero a)

theorem mul_pow10_gt {k W : Int} {a b : Nat} (hab : b < a) (h : k * 10 ^ a = W * 10 ^ b) : (10 : Int) ∣ W := by
  have ha : (10 : Int) ^ a = 10 ^ (a - b - 1) * 10 * 10 ^ b := by
    rw [← Int.pow_succ, ← Int.pow_add]; congr 1; omega
  rw [ha, ← Int.mul_assoc, ← Int.mul_assoc] at h
  have := (Int.mul_eq_mul_right_iff (pow10_ne_zero b)).mp h
  exact ⟨k * 10 ^ (a - b - 1), by rw [← this]; simp [Int.mul_comm]⟩

end LyModel.Val
