import LyModel.Val.InstId
import LyModel.Val.DrvBase
import LyModel.Path.Drv
/-! driver ops of the instance-identifier model: same request lines as `harness/api_types.c` with the type descriptor
    `instid:<tschema>:<yang-hex>[,<yang-hex>…]` — `<tschema>` is the schema serialisation of the `path` protocol
    (`LyModel/Path/Drv.lean`) with one more field per node, the type of a leaf / leaf-list:
      tnode := '(' hex ',' hex ',' kind ',' tyhex ',' tnode* ')'     tyhex = hex of a type descriptor of `DrvBase.parseTy`
                                                                    (`i8:1..10`, `bool`, `enum:<hex>=<v>,…`, `str`), `-` = none;
                                                                    a descriptor the model does not know (`inst`, `?`) = no type
    The harness checks it against the `lysc_node` trees it compiled from the YANG modules (`err Schema` if they differ); the
    model reads `<tschema>` only.  Ops `validate`, `store`, `cmp`, `lybrt`, `unlyb`. -/
namespace LyModel.Val.DrvInst
open LyModel LyModel.Val LyModel.Val.InstId

def isDesc (d : String) : Bool := d.startsWith "instid:"

def tyOfHex (b : Bytes) : Option Ty :=
  if b.isEmpty then none else
  match String.fromUTF8? ⟨b.toArray⟩ with
  | some d => LyModel.Val.Drv.parseTy d
  | none => none

def parseTNodes : Nat → List Char → Option (List TNode × List Char)
  | 0, _ => none
  | f + 1, '(' :: r =>
    match Path.Drv.hexField r with
    | none => none
    | some (m, r) =>
      match Path.Drv.hexField r with
      | none => none
      | some (n, r) =>
        match r with
        | kc :: ',' :: r =>
          match Path.Drv.kindOfChar kc, Path.Drv.hexField r with
          | some k, some (t, r) =>
            match parseTNodes f r with
            | some (ch, ')' :: r) =>
              match parseTNodes f r with
              | some (sibs, r) => some (TNode.mk m n k (tyOfHex t) ch :: sibs, r)
              | none => none
            | _ => none
          | _, _ => none
        | _ => none
  | _ + 1, cs => some ([], cs)

def readTSchema (s : String) : Option (List TNode) :=
  if s == "-" then some [] else
  match parseTNodes (s.length + 1) s.toList with
  | some (f, []) => some f
  | _ => none

def schemaOfDesc (d : String) : Option (List TNode) :=
  match d.splitOn ":" with
  | ["instid", s, _] => readTSchema s
  | _ => none

def sgn (i : Int) : String := if i < 0 then "-1" else if i > 0 then "1" else "0"

def cmpFields (eq : Bool) (so : Int) (ceq : Bool) : String :=
  "ok " ++ (if eq then "1" else "0") ++ " " ++ sgn so ++ " " ++ (if ceq then "1" else "0") ++ " " ++
    (if so ≤ 0 then "a" else "b") ++ " " ++ (if so < 0 then "a" else "b")

def handleSchema (sc : List TNode) (op : String) (args : List String) : String :=
  match op, args with
  | "store", [_, h, x] =>
    match h.toNat?, Hex.dec x with
    | some hints, some s =>
      match InstId.store sc hints s with
      | .ok v => "ok " ++ Hex.enc (canonInstId v) ++ " " ++ Hex.enc (lybInstId v)
      | .error e => "err " ++ e.name
    | _, _ => "err BadArg"
  | "validate", [_, x] =>
    match Hex.dec x with
    | some s =>
      match InstId.store sc Generated.LYD_HINT_DATA s with
      | .ok v => "ok " ++ Hex.enc (canonInstId v)
      | .error e => "err " ++ e.name
    | none => "err BadArg"
  | "cmp", [_, x1, x2] =>
    match Hex.dec x1, Hex.dec x2 with
    | some s1, some s2 =>
      match InstId.store sc Generated.LYD_HINT_DATA s1, InstId.store sc Generated.LYD_HINT_DATA s2 with
      | .error _, _ => "err Reject1"
      | .ok _, .error _ => "err Reject2"
      | .ok a, .ok b => cmpFields (cmpEqInstId a b) (sortInstId a b) (canonInstId a == canonInstId b)
    | _, _ => "err BadArg"
  | "lybrt", [_, x] =>
    match Hex.dec x with
    | some s =>
      match InstId.store sc Generated.LYD_HINT_DATA s with
      | .error e => "err " ++ e.name
      | .ok v =>
        match unlybInstId sc (lybInstId v) with
        | .error e => "err Unlyb" ++ e.name
        | .ok w => "ok " ++ Hex.enc (lybInstId v) ++ " " ++ Hex.enc (canonInstId w) ++ " " ++ (if cmpEqInstId v w then "1" else "0") ++ " 1 1"
    | none => "err BadArg"
  | "unlyb", [_, x] =>
    match Hex.dec x with
    | some b =>
      match unlybInstId sc b with
      | .ok v => "ok " ++ Hex.enc (canonInstId v)
      | .error e => "err " ++ e.name
    | none => "err BadArg"
  | _, _ => "err BadOp"

def handle (op : String) (args : List String) : String :=
  match args with
  | d :: _ =>
    match schemaOfDesc d with
    | some sc => handleSchema sc op args
    | none => "err Schema"
  | [] => "err BadArg"

end LyModel.Val.DrvInst
