import LyModel.Val.LemmasNum2str
import LyModel.Val.LemmasDec64Parse
/-! decimal64: canonical form, round trip through the lexical parser, store with ranges, buffer need. -/
set_option linter.unusedSimpArgs false
namespace LyModel.Val
open LyModel

theorem sgnOf_isSign (n : Int) : IsSign (sgnOf n) := by
  unfold sgnOf; split
  · exact Or.inr (Or.inr rfl)
  · exact Or.inl rfl

theorem applySign_sgnOf (n : Int) : applySign (sgnOf n) n.natAbs = n := by
  unfold applySign sgnOf
  by_cases h : n < 0
  · simp [h]; omega
  · simp [h]; omega

theorem all_digit_append {x y : Bytes} : (x ++ y).all isDigit = true ↔ x.all isDigit = true ∧ y.all isDigit = true := by
  rw [List.all_append, Bool.and_eq_true]

/-- the canonical string is an RFC 7950 lexical value whose denotation is the mantissa -/
theorem num2str_lex (fd : Nat) (hfd : 1 ≤ fd) (n : Int) : DecLexWs true fd (num2str fd n) n := by
  by_cases hn : n = 0
  · subst hn
    refine ⟨[], [], [48], [48], [], true, rfl, rfl, rfl, Or.inl rfl, by decide, by decide, by simp, by simp, by simp, ?_⟩
    have : valOf 10 ([48] ++ [48]) = 0 := by decide
    rw [this]; simp [applySign]
  · obtain ⟨P, F', z, hstr, hPne, hFne, hlen, hdig, hval, _, _⟩ := num2str_struct fd hfd n hn
    rw [all_digit_append, all_digit_append] at hdig
    refine ⟨[], sgnOf n, P, F', [], true, ?_, rfl, rfl, sgnOf_isSign n, hdig.1.1, hdig.1.2, fun _ => hFne, by simp, hPne, ?_⟩
    · rw [hstr]; simp
    · rw [valOf_append_zeros] at hval
      have hn' : n = applySign (sgnOf n) (valOf 10 (P ++ F')) * ((10 ^ z : Nat) : Int) := by
        rw [← applySign_mul, hval, applySign_sgnOf]
      have hc : (((10 : Nat) ^ z : Nat) : Int) = (10 : Int) ^ z := by simp
      rw [hc] at hn'
      generalize applySign (sgnOf n) (valOf 10 (P ++ F')) = W at hn'
      rw [hn', ← hlen, Int.pow_add, Int.mul_assoc, Int.mul_comm (10 ^ z) (10 ^ F'.length)]

theorem DecLexWs.weaken {fd : Nat} {s : Bytes} {k : Int} (nd : Bool) (h : DecLexWs true fd s k) : DecLexWs nd fd s k := by
  cases nd
  · obtain ⟨l, sg, ip, fr, r, point, h1, h2, h3, h4, h5, h6, h7, h8, h9, h10⟩ := h
    exact ⟨l, sg, ip, fr, r, point, h1, h2, h3, h4, h5, h6, h7, h8, Or.inl (by simpa using h9), h10⟩
  · exact h

/-- `parse (print n) = n` for every mantissa in the int64 range and every fraction-digits value -/
theorem parseDec64_num2str (nd : Bool) (fd : Nat) (hfd : 1 ≤ fd) (n : Int) (hlo : -(2 ^ 63) ≤ n) (hhi : n ≤ 2 ^ 63 - 1) :
    parseDec64With nd fd (num2str fd n) = .ok n :=
  (parseDec64_ok_iff nd fd hfd _ n).mpr ⟨(num2str_lex fd hfd n).weaken nd, hlo, hhi⟩

theorem num2str_canonical (fd : Nat) (hfd : 1 ≤ fd) (n : Int) : IsCanonDec (num2str fd n) := by
  by_cases hn : n = 0
  · subst hn
    exact ⟨[], [48], [48], rfl, Or.inl rfl, by simp, by simp, by decide, by decide, fun _ => rfl, fun _ => rfl⟩
  · obtain ⟨P, F', z, hstr, hPne, hFne, hlen, hdig, hval, hPhead, hFlast⟩ := num2str_struct fd hfd n hn
    rw [all_digit_append, all_digit_append] at hdig
    refine ⟨sgnOf n, P, F', hstr, ?_, hPne, hFne, hdig.1.1, hdig.1.2, hPhead, ?_⟩
    · unfold sgnOf; split
      · exact Or.inr rfl
      · exact Or.inl rfl
    · intro hl
      have h1 := hFlast hl
      match F', h1, hl with
      | [c], _, hl => simp at hl; rw [hl]

theorem dec64_range_signed : rangeIsUnsigned "dec64" = false := by decide

theorem dec64_hints_ok_of (hints : Nat) : (checkHints hints "dec64").isSome = true ↔ hints % 2 = 1 := by
  have : ∀ h : Fin 128, (checkHints h.val "dec64").isSome = true ↔ h.val % 2 = 1 := by decide
  have hm : hints % 128 < 128 := Nat.mod_lt _ (by decide)
  have h1 := this ⟨hints % 128, hm⟩
  have h2 : checkHints (hints % 128) "dec64" = checkHints hints "dec64" := by
    unfold checkHints; simp [Nat.mod_mod]
  simp only at h1
  rw [h2] at h1
  rw [h1]; omega

theorem storeDec64_accept_iff (nd : Bool) (fd : Nat) (hfd : 1 ≤ fd) (range : List (Int × Int)) (hints : Nat) (s : Bytes) (k : Int)
    (hh : (checkHints hints "dec64").isSome = true) (hwf : PartsWF (-(2 ^ 63)) (2 ^ 63 - 1) range) :
    storeDec64With nd fd range hints s = .ok k ↔ DecLexWs nd fd s k ∧ -(2 ^ 63) ≤ k ∧ k ≤ 2 ^ 63 - 1 ∧ InParts range k := by
  unfold storeDec64With
  cases hc : checkHints hints "dec64" with
  | none => rw [hc] at hh; cases hh
  | some b =>
    simp only [dec64_range_signed]
    cases hp : parseDec64With nd fd s with
    | error e =>
      simp only [reduceCtorEq, false_iff]
      rintro ⟨hl, hlo, hhi, _⟩
      have := (parseDec64_ok_iff nd fd hfd s k).mpr ⟨hl, hlo, hhi⟩
      rw [hp] at this; cases this
    | ok num =>
      obtain ⟨hl, hlo, hhi⟩ := (parseDec64_ok_iff nd fd hfd s num).mp hp
      simp only
      constructor
      · intro h
        split at h
        · rename_i hv
          injection h with h; subst h
          exact ⟨hl, hlo, hhi, (validateRange_signed_iff range num hwf).mp hv⟩
        · cases h
      · rintro ⟨hl', hlo', hhi', hin⟩
        have := (parseDec64_ok_iff nd fd hfd s k).mpr ⟨hl', hlo', hhi'⟩
        rw [hp] at this; injection this with this; subst this
        rw [if_pos ((validateRange_signed_iff range num hwf).mpr hin)]

/-- the `sprintf` output of `decimal64_num2str` plus its NUL fits the `LY_NUMBER_MAXLEN` buffer -/
theorem num2str_fits (fd : Nat) (hfd : fd ≤ 18) (n : Int) (hlo : -(2 ^ 63) ≤ n) (hhi : n ≤ 2 ^ 63 - 1) :
    num2strBufNeed fd n ≤ Generated.LY_NUMBER_MAXLEN := by
  have hmax : Generated.LY_NUMBER_MAXLEN = 22 := by decide
  rw [hmax]
  unfold num2strBufNeed
  by_cases hn : n = 0
  · subst hn; simp
  · have hn' : (n == 0) = false := by simpa using hn
    simp only [hn', Bool.false_eq_true, if_false]
    rw [num2str_padded fd n hn]
    have hnd : (natDec n.natAbs).length ≤ 19 := natDec_length_le 19 _ (by decide) (by omega)
    have hsg : (sgnOf n).length ≤ 1 := by unfold sgnOf; split <;> simp
    simp only [List.length_append, zeros_length]
    omega

end LyModel.Val
