import LyModel.Val.Spec
/-!
# Specification side of C03, integers read with base 0 (schema defaults: `LYD_HINT_SCHEMA`)

The lexical space of `strtoll(…, 0)` / `strtoull(…, 0)` as ISO C 7.22.1.4 describes it — the forms of a C integer constant
(6.4.4.1) without suffix, optionally preceded by a sign — written from that grammar, not from the model's scanner:

    decimal-constant      nonzero-digit digit*
    octal-constant        "0" octal-digit*
    hexadecimal-constant  ("0x" | "0X") hexadecimal-digit+

with libyang's tolerance of surrounding white space.  The denotation is positional (`valOf`, as in `IntLex`).
-/
namespace LyModel.Val
open LyModel

/-- `0`–`7` -/
def isOctDigit (c : UInt8) : Bool := 48 ≤ c.toNat && c.toNat ≤ 55

/-- `0`–`9`, `a`–`f`, `A`–`F` -/
def isHexDigit (c : UInt8) : Bool :=
  (48 ≤ c.toNat && c.toNat ≤ 57) || (97 ≤ c.toNat && c.toNat ≤ 102) || (65 ≤ c.toNat && c.toNat ≤ 70)

/-- An unsuffixed C integer constant `body` and the number `n` it denotes. -/
def NatLex0 (body : Bytes) (n : Nat) : Prop :=
  -- hexadecimal: `0x` / `0X` and at least one hexadecimal digit
  (∃ x ds, body = 48 :: x :: ds ∧ (x = 120 ∨ x = 88) ∧ ds ≠ [] ∧ ds.all isHexDigit = true ∧ n = valOf 16 ds) ∨
  -- octal: a leading `0`, octal digits only (the string `0` itself is of this form)
  (body.head? = some 48 ∧ body.all isOctDigit = true ∧ n = valOf 8 body) ∨
  -- decimal: does not start with `0`
  (body ≠ [] ∧ body.head? ≠ some 48 ∧ body.all isDigit = true ∧ n = valOf 10 body)

/-- Optional sign followed by an integer constant; `v` is the denotation. -/
def IntLex0 (core : Bytes) (v : Int) : Prop :=
  ∃ sg body n, core = sg ++ body ∧ IsSign sg ∧ NatLex0 body n ∧ v = applySign sg n

/-- … with surrounding white space ignored (as `IntLexWs` for base 10). -/
def IntLexWs0 (s : Bytes) (v : Int) : Prop :=
  ∃ l core r, s = l ++ core ++ r ∧ l.all isSpace = true ∧ r.all isSpace = true ∧ IntLex0 core v

end LyModel.Val
