import LyModel.Val.Model
import LyModel.Generated.ValBin
/-!
# the built-in `binary` type (component `Val`, property C03; RFC 7950 §9.8, base64 of RFC 4648 §4)

Executable model of `plugins_types/binary.c`:

* `lyplg_type_store_binary`, text formats (everything but `LY_VALUE_LYB`; `LY_VALUE_CANON`, which skips the two checks, is not reachable
  through the value API and is not modelled):
  1. hints check (`lyplg_type_check_hints` for the base type `binary`: a string-encoded value);
  2. `binary_base64_newlines`: nothing happens unless the value has more than 64 bytes AND byte 64 is `\n`; then, while more than 64 bytes
     remain, byte 64 of the rest MUST be `\n` ("Newlines are expected every 64 Base64 characters.") and is removed — the PEM layout with
     lines of exactly 64 characters, `\n` only (no CR), the last line may be shorter but then has no newline after it.  No other white space
     is ever removed: any blank, tab, CR, or newline elsewhere is an "Invalid Base64 character";
  3. `binary_base64_validate`: the longest prefix over `A-Z a-z 0-9 + /`, then at most two `=`, then the value must end; then the length
     must be a multiple of 4.  Together: `alphabet^(4k)`, `alphabet^(4k+2) ==` or `alphabet^(4k+3) =` — the lexical space of RFC 4648 §4
     EXCEPT that the bits of the last sextet that do not belong to an octet are not looked at;
  4. `binary_base64_decode`: groups of four through `b64_dtable` (generated), the last group by its number of `=`; the surplus bits of the
     last sextet are dropped (`QQ==` and `QR==` are both the one octet 0x41);
  5. the canonical value is the INPUT TEXT (after step 2) — not `binary_base64_encode` of the octets (finding F418; with the repair,
     `Generated.binCanonReencoded`, it is the encoding);
  6. the `length` restriction on the number of decoded octets (`lyplg_type_validate_range`, unsigned).
* `LY_VALUE_LYB`: the bytes are the octets; neither the hints nor the `length` restriction are checked (`goto cleanup`; finding F420, with
  the repair, `Generated.binLybLengthChecked`, the `length` restriction is).  No canonical
  value is stored; `lyplg_type_print_binary` generates it on first use as `binary_base64_encode` of the octets (no line breaks).
* `lyplg_type_compare_binary`: same size and `memcmp` = 0; `lyplg_type_sort_binary`: by SIZE first, then `memcmp` (short-lex, not
  lexicographic); `lyplg_type_print_binary`: LYB = the octets, otherwise the (cached) canonical value; `lyplg_type_dup_binary` copies both.

A value is therefore a pair (octets, canonical text).  `lyd_compare_single` compares data nodes by their canonical TEXT
(`lyd_compare_single_value`: `strcmp` of `lyd_get_value`), the plug-in's compare callback by the octets.

Not modelled (undefined behaviour of the C, finding F419): a NUL byte in a value that takes the newline path — `binary_base64_newlines` copies
the value with `strndup`, which stops at the NUL, and then works on `value_len` bytes of the shorter copy.  With the repair
(`Generated.binNewlinesMemcpy`) the copy has `value_len` bytes and the model is the code for every input.

Core Lean only (linked into `lydrv`).
-/
namespace LyModel.Val.Bin
open LyModel LyModel.Val

/-- error kinds of the plug-in -/
inductive BErr
  | Hint        -- `lyplg_type_check_hints`
  | Newline     -- "Newlines are expected every 64 Base64 characters."
  | Char        -- "Invalid Base64 character …"
  | Len         -- "Base64 encoded value length must be divisible by 4."
  | Length      -- "Unsatisfied length"
  deriving DecidableEq, Repr

def BErr.name : BErr → String
  | .Hint => "Hint" | .Newline => "B64Newline" | .Char => "B64Char" | .Len => "B64Len" | .Length => "Length"

/-- `=` -/
def PAD : UInt8 := 61
/-- `\n` -/
def NL : UInt8 := 10

/-- `b64_etable[i]` -/
def eChar (i : Nat) : UInt8 := Generated.b64Etable.getD i 0
/-- `b64_dtable[c]` -/
def dVal (c : UInt8) : Nat := Generated.b64Dtable.getD c.toNat 0

/-! ## `binary_base64_encode` -/

/-- three octets -> four characters of the table; the last group of one / two octets is filled with zero bits and padded with `=`.
    (`(x >> 2) & 0x3F = x / 4`, `((x & 3) << 4) | ((y & 0xF0) >> 4) = x % 4 * 16 + y / 16`, … for bytes.) -/
def encode : Bytes → Bytes
  | [] => []
  | [x] => [eChar (x.toNat / 4), eChar (x.toNat % 4 * 16), PAD, PAD]
  | [x, y] => [eChar (x.toNat / 4), eChar (x.toNat % 4 * 16 + y.toNat / 16), eChar (y.toNat % 16 * 4), PAD]
  | x :: y :: z :: r =>
    eChar (x.toNat / 4) :: eChar (x.toNat % 4 * 16 + y.toNat / 16) :: eChar (y.toNat % 16 * 4 + z.toNat / 64) :: eChar (z.toNat % 64) :: encode r

/-! ## `binary_base64_decode` -/

/-- `b64_dtable[a] << 18 | b64_dtable[b] << 12 | b64_dtable[c] << 6 | b64_dtable[d]` (the table values are below 64, so `|` is `+`) -/
def grp (a b c d : UInt8) : Nat := dVal a * 262144 + dVal b * 4096 + dVal c * 64 + dVal d

/-- groups of four; the last group is decoded by its trailing `=` (`pad_chars`): `xx==` gives one octet, `xxx=` two — `n >> 16` and
    `n >> 8` cut to a `char`, the remaining bits of `n` are dropped.  (On a validated value `=` occurs in the last group only, which is
    how the C finds it: by the last bytes of the whole value.) -/
def decode : Bytes → Bytes
  | a :: b :: c :: d :: r =>
    if r.isEmpty && d == PAD then
      let n := dVal a * 262144 + dVal b * 4096
      if c == PAD then [UInt8.ofNat (n / 65536)]
      else [UInt8.ofNat (n / 65536), UInt8.ofNat ((n + dVal c * 64) / 256)]
    else
      let n := grp a b c d
      UInt8.ofNat (n / 65536) :: UInt8.ofNat (n / 256) :: UInt8.ofNat n :: decode r
  | _ => []

/-! ## `binary_base64_validate` -/

/-- the condition of the first loop: `A`–`Z`, `a`–`z`, `0`–`9`, `+`, `/` -/
def isAlpha (c : UInt8) : Bool :=
  let n := c.toNat
  (65 ≤ n && n ≤ 90) || (97 ≤ n && n ≤ 122) || (48 ≤ n && n ≤ 57) || n == 43 || n == 47

/-- `pad`: the `=` at the front of the rest, at most `b64MaxPad` -/
def padCount (rest : Bytes) : Nat := ((rest.take Generated.b64MaxPad).takeWhile (· == PAD)).length

def validate (s : Bytes) : Except BErr Unit :=
  let rest := s.dropWhile isAlpha
  if rest.length != padCount rest then .error .Char
  else if s.length % 4 != 0 then .error .Len
  else .ok ()

/-! ## `binary_base64_newlines` -/

/-- the `while (len > 64)` loop: byte 64 must be a newline, which is removed; fuel = the length -/
def stripLoop : Nat → Bytes → Except BErr Bytes
  | 0, s => .ok s
  | f + 1, s =>
    if s.length > Generated.b64NlColumn then
      if s.getD Generated.b64NlColumn 0 != NL then .error .Newline
      else match stripLoop f (s.drop (Generated.b64NlColumn + 1)) with
        | .error e => .error e
        | .ok t => .ok (s.take Generated.b64NlColumn ++ t)
    else .ok s

def stripNl (s : Bytes) : Except BErr Bytes :=
  if s.length < Generated.b64NlColumn + 1 || s.getD Generated.b64NlColumn 0 != NL then .ok s else stripLoop s.length s

/-! ## the value and the callbacks -/

/-- `struct lyd_value_binary` + `_canonical` (for a value stored from LYB: the text `lyplg_type_print_binary` generates on first use) -/
structure BVal where
  data : Bytes
  canon : Bytes
  deriving DecidableEq, Repr

/-- `lyplg_type_store_binary` for the text formats (`length` = the compiled parts, `[]` = no restriction).  `reenc` = the canonical value
    is `binary_base64_encode` of the octets (`Generated.binCanonReencoded`, the repair of F418) instead of the text that was read. -/
def storeWith (reenc : Bool) (length : List (Int × Int)) (hints : Nat) (s : Bytes) : Except BErr BVal :=
  match checkHints hints "binary" with
  | none => .error .Hint
  | some _ =>
    match stripNl s with
    | .error e => .error e
    | .ok t =>
      match validate t with
      | .error e => .error e
      | .ok () =>
        let d := decode t
        if validateRange (rangeIsUnsigned "binary") length (d.length : Nat) then .ok ⟨d, if reenc then encode d else t⟩ else .error .Length

/-- the store callback of the tree the model was generated from -/
def store (length : List (Int × Int)) (hints : Nat) (s : Bytes) : Except BErr BVal := storeWith Generated.binCanonReencoded length hints s

/-- `lyplg_type_store_binary` with `LY_VALUE_LYB`: no hints, no base64; `chk` = the `length` restriction is applied
    (`Generated.binLybLengthChecked`, the repair of F420), otherwise nothing is checked at all -/
def unlybWith (chk : Bool) (length : List (Int × Int)) (b : Bytes) : Except BErr BVal :=
  if chk && !validateRange (rangeIsUnsigned "binary") length (b.length : Nat) then .error .Length else .ok ⟨b, encode b⟩

def unlyb (length : List (Int × Int)) (b : Bytes) : Except BErr BVal := unlybWith Generated.binLybLengthChecked length b

/-- `value->_canonical` / `lyplg_type_print_binary` for the text formats -/
def canon (v : BVal) : Bytes := v.canon
/-- `lyplg_type_print_binary`, `LY_VALUE_LYB` -/
def lyb (v : BVal) : Bytes := v.data
/-- `lyplg_type_compare_binary`: `true` = `LY_SUCCESS` -/
def cmpEq (a b : BVal) : Bool := a.data.length == b.data.length && memcmp a.data b.data == 0
/-- `lyplg_type_sort_binary` -/
def sort (a b : BVal) : Int :=
  if a.data.length < b.data.length then -1 else if a.data.length > b.data.length then 1 else memcmp a.data b.data
/-- `lyplg_type_dup_binary` -/
def dup (v : BVal) : BVal := ⟨v.data, v.canon⟩
/-- `lyd_compare_single` of two term nodes: `strcmp` of the canonical texts -/
def nodeEq (a b : BVal) : Bool := a.canon == b.canon

end LyModel.Val.Bin
