import LyModel.Val.DateTime
/-! driver ops of the date-and-time model: same request lines as `harness/api_types.c` with the type descriptor
    `t:ietf-yang-types:date-and-time` (`validate`, `cmp`, `lybrt`, `unlyb`, `store`) -/
namespace LyModel.Val.DrvDt
open LyModel LyModel.Val

def handle (_op : String) (_args : List String) : String := "err NoModel"

end LyModel.Val.DrvDt
