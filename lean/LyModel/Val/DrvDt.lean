import LyModel.Val.DateTime
/-! driver ops of the date-and-time model: same request lines as `harness/api_types.c` with the type descriptor
    `t:ietf-yang-types:date-and-time` (`validate`, `cmp`, `lybrt`, `unlyb`, `store`) -/
namespace LyModel.Val.DrvDt
open LyModel LyModel.Val

def sgn (i : Int) : String := if i < 0 then "-1" else if i > 0 then "1" else "0"

def handle (op : String) (args : List String) : String :=
  match op, args with
  | "store", [_, h, x] =>
    match h.toNat?, Hex.dec x with
    | some hints, some s =>
      match DateTime.store hints s with
      | .ok v => "ok " ++ Hex.enc (DateTime.canon v) ++ " " ++ Hex.enc (DateTime.lyb v)
      | .error e => "err " ++ e.name
    | _, _ => "err BadArg"
  | "validate", [_, x] =>
    match Hex.dec x with
    | some s =>
      match DateTime.store Generated.LYD_HINT_DATA s with
      | .ok v => "ok " ++ Hex.enc (DateTime.canon v)
      | .error e => "err " ++ e.name
    | _ => "err BadArg"
  | "cmp", [_, x1, x2] =>
    match Hex.dec x1, Hex.dec x2 with
    | some s1, some s2 =>
      match DateTime.store Generated.LYD_HINT_DATA s1, DateTime.store Generated.LYD_HINT_DATA s2 with
      | .error _, _ => "err Reject1"
      | .ok _, .error _ => "err Reject2"
      | .ok a, .ok b =>
        let so := DateTime.sort a b
        -- a system-ordered leaf-list keeps sort-equal values in insertion order
        "ok " ++ (if DateTime.cmpEq a b then "1" else "0") ++ " " ++ sgn so ++ " " ++
          (if DateTime.canon a == DateTime.canon b then "1" else "0") ++ " " ++ (if so ≤ 0 then "a" else "b") ++ " " ++ (if so < 0 then "a" else "b")
    | _, _ => "err BadArg"
  | "lybrt", [_, x] =>
    match Hex.dec x with
    | some s =>
      match DateTime.store Generated.LYD_HINT_DATA s with
      | .error e => "err " ++ e.name
      | .ok v =>
        match DateTime.unlyb (DateTime.lyb v) with
        | .error e => "err Unlyb" ++ e.name
        | .ok w => "ok " ++ Hex.enc (DateTime.lyb v) ++ " " ++ Hex.enc (DateTime.canon w) ++ " " ++ (if DateTime.cmpEq v w then "1" else "0") ++ " 1 1"
    | _ => "err BadArg"
  | "unlyb", [_, x] =>
    match Hex.dec x with
    | some b =>
      match DateTime.unlyb b with
      | .ok v => "ok " ++ Hex.enc (DateTime.canon v)
      | .error e => "err " ++ e.name
    | _ => "err BadArg"
  | _, _ => "err BadOp"

end LyModel.Val.DrvDt
