import LyModel.Val.DateTime
import LyModel.Val.LemmasOrder
import LyModel.Val.LemmasIntCanon
import LyModel.Val.LemmasDtCal
/-! lemmas on the date-and-time value callbacks: LYB round trip, equality, the sort callback -/
namespace LyModel.Val.DateTime
open LyModel LyModel.Val

instance {ε α : Type} [DecidableEq ε] [DecidableEq α] : DecidableEq (Except ε α)
  | .ok a, .ok b => if h : a = b then isTrue (by rw [h]) else isFalse (by intro e; cases e; exact h rfl)
  | .error a, .error b => if h : a = b then isTrue (by rw [h]) else isFalse (by intro e; cases e; exact h rfl)
  | .ok _, .error _ => isFalse (by intro e; cases e)
  | .error _, .ok _ => isFalse (by intro e; cases e)

/-- a value as the store callbacks build it: `time_t` is 64 bits, a fraction is a non-empty digit string -/
def WfVal (v : DtVal) : Prop :=
  -(2 ^ 63 : Int) ≤ v.time ∧ v.time < 2 ^ 63 ∧ ∀ f, v.frac = some f → f ≠ [] ∧ f.all isDigit = true

theorem time_le_roundtrip (t : Int) (h1 : -(2 ^ 63 : Int) ≤ t) (h2 : t < 2 ^ 63) :
    (if ofLe (leBytes 8 (t % 2 ^ 64).toNat) < 2 ^ 63 then (ofLe (leBytes 8 (t % 2 ^ 64).toNat) : Int)
     else (ofLe (leBytes 8 (t % 2 ^ 64).toNat) : Int) - 2 ^ 64) = t := by
  rw [ofLe_leBytes]
  have hn : (((t % 2 ^ 64).toNat : Nat) : Int) = t % 2 ^ 64 := Int.toNat_of_nonneg (Int.emod_nonneg _ (by decide))
  have h256 : (256 : Nat) ^ 8 = 2 ^ 64 := by decide
  rw [h256]
  have hlt : (t % 2 ^ 64).toNat < 2 ^ 64 := by omega
  rw [Nat.mod_eq_of_lt hlt]
  split <;> omega

theorem len8 (tb : Bytes) (hl : tb.length = 8) : ∃ b0 b1 b2 b3 b4 b5 b6 b7, tb = [b0, b1, b2, b3, b4, b5, b6, b7] := by
  match tb, hl with
  | [b0, b1, b2, b3, b4, b5, b6, b7], _ => exact ⟨_, _, _, _, _, _, _, _, rfl⟩

/-- the signed value of 8 little-endian bytes -/
def timeOf (tb : Bytes) : Int := if ofLe tb < 2 ^ 63 then (ofLe tb : Int) else (ofLe tb : Int) - 2 ^ 64

theorem unlyb_8 (tb : Bytes) (hl : tb.length = 8) : unlyb tb = .ok ⟨timeOf tb, none, false⟩ := by
  obtain ⟨b0, b1, b2, b3, b4, b5, b6, b7, rfl⟩ := len8 tb hl
  rfl

theorem unlyb_9 (tb : Bytes) (flag : UInt8) (hl : tb.length = 8) : unlyb (tb ++ [flag]) = .ok ⟨timeOf tb, none, flag != 0⟩ := by
  obtain ⟨b0, b1, b2, b3, b4, b5, b6, b7, rfl⟩ := len8 tb hl
  rfl

theorem unlyb_long (tb f : Bytes) (flag : UInt8) (hl : tb.length = 8) (hne : f ≠ []) (hd : f.all isDigit = true) :
    unlyb (tb ++ [flag] ++ f) = .ok ⟨timeOf tb, some f, flag != 0⟩ := by
  obtain ⟨b0, b1, b2, b3, b4, b5, b6, b7, rfl⟩ := len8 tb hl
  have hpos : 0 < f.length := List.length_pos_iff.mpr hne
  have h9 : ¬ (f.length + 1 + 8 < 8) := by omega
  have h10 : f.length + 1 + 8 > 9 := by omega
  have h11 : f.length + 1 + 8 > 8 := by omega
  have hd' : (f.all fun x => isDigit x) = true := hd
  simp only [unlyb, timeOf, List.cons_append, List.nil_append, List.length_cons, h9, h10, h11, ↓reduceIte, List.drop_succ_cons, List.drop_zero, hd',
    Bool.not_true, List.take_succ_cons, List.take_zero, List.getD_cons_succ, List.getD_cons_zero, decide_true, Bool.true_and, Bool.false_eq_true]
  rfl

theorem unlyb_lyb (v : DtVal) (h : WfVal v) : unlyb (lyb v) = .ok v := by
  obtain ⟨h1, h2, h3⟩ := h
  obtain ⟨t, fr, tz⟩ := v
  have hl : (leBytes 8 (t % 2 ^ 64).toNat).length = 8 := leBytes_length _ _
  have ht : timeOf (leBytes 8 (t % 2 ^ 64).toNat) = t := time_le_roundtrip t h1 h2
  have e1 : lyb ⟨t, none, false⟩ = leBytes 8 (t % 2 ^ 64).toNat := by simp [lyb]
  have e2 : lyb ⟨t, none, true⟩ = leBytes 8 (t % 2 ^ 64).toNat ++ [1] := by simp [lyb]
  have e3 : ∀ f z, lyb ⟨t, some f, z⟩ = leBytes 8 (t % 2 ^ 64).toNat ++ [if z then 1 else 0] ++ f := by intro f z; simp [lyb]
  cases fr with
  | none =>
    cases tz with
    | false => rw [e1, unlyb_8 _ hl, ht]
    | true => rw [e2, unlyb_9 _ _ hl, ht]; rfl
  | some f =>
    obtain ⟨hne, hd⟩ := h3 f rfl
    rw [e3, unlyb_long _ _ _ hl hne hd, ht]
    cases tz <;> rfl

/-- `strtol` of a string that starts with `-` is not positive -/
theorem strtol_minus (rest : Bytes) : (strtol (45 :: rest)).1 ≤ 0 := by
  have e : (45 :: rest : Bytes).dropWhile isSpace = 45 :: rest := by
    simp [List.dropWhile, show isSpace 45 = false by decide]
  have hn : (strtoCore 10 (45 :: rest)).neg = true := by
    simp only [strtoCore, e, List.head?_cons]
    repeat' split
    all_goals rfl
  simp only [strtol, hn]
  split
  · simp
  · simp only [↓reduceIte]
    split <;> omega

/-! ## equality -/

theorem cmpEq_iff (a b : DtVal) : cmpEq a b = true ↔ a = b := by
  obtain ⟨t, f, z⟩ := a
  obtain ⟨u, g, w⟩ := b
  cases f <;> cases g <;> simp [cmpEq, strcmp_zero] <;> grind

/-! ## the sort callback -/

theorem sortFrac_antisymm (f g : Option Bytes) : sortFrac f g = -sortFrac g f := by
  have h := strcmp_antisymm (f.getD []) (g.getD [])
  simp only [sortFrac]
  cases fracIsZero f <;> cases fracIsZero g <;> simp <;> split <;> split <;> omega

theorem sortFrac_trans (f g h : Option Bytes) (h1 : sortFrac f g ≤ 0) (h2 : sortFrac g h ≤ 0) : sortFrac f h ≤ 0 := by
  have ht := strcmp_trans (f.getD []) (g.getD []) (h.getD [])
  simp only [sortFrac] at h1 h2 ⊢
  cases hf : fracIsZero f <;> cases hg : fracIsZero g <;> cases hh : fracIsZero h <;> simp [hf, hg, hh] at h1 h2 ⊢ <;>
    (try omega)
  all_goals (repeat' split at h1) <;> (repeat' split at h2) <;> (repeat' split) <;> omega

theorem sortFrac_zero_iff (f g : Option Bytes) :
    sortFrac f g = 0 ↔ (fracIsZero f = true ∧ fracIsZero g = true) ∨ (fracIsZero f = false ∧ fracIsZero g = false ∧ f.getD [] = g.getD []) := by
  have hz := strcmp_zero (f.getD []) (g.getD [])
  simp only [sortFrac]
  cases hf : fracIsZero f <;> cases hg : fracIsZero g <;> simp
  constructor
  · intro h
    apply hz.mp
    split at h <;> (try split at h) <;> omega
  · intro h
    rw [hz.mpr h]; simp

theorem sort_near (a b : DtVal) (h1 : -(2 ^ 31 : Int) < a.time - b.time) (h2 : a.time - b.time < 2 ^ 31) :
    sortWith false a b = if a.time - b.time ≠ 0 then a.time - b.time else sortFrac a.frac b.frac := by
  simp only [sortWith]
  by_cases h : a.time - b.time = 0
  · simp [h]
  · simp [h]
    intro hh
    omega

theorem sort_clamped (a b : DtVal) :
    sortWith true a b = if a.time - b.time ≠ 0 then (if a.time - b.time < 0 then -1 else 1) else sortFrac a.frac b.frac := by
  simp only [sortWith]
  by_cases h : a.time - b.time = 0
  · simp [h]
  · simp [h]

theorem sort_zero_iff (c : Bool) (a b : DtVal) : sortWith c a b = 0 ↔ a.time = b.time ∧ sortFrac a.frac b.frac = 0 := by
  simp only [sortWith]
  by_cases h : a.time - b.time = 0
  · have : a.time = b.time := by omega
    simp [this]
  · have hne : a.time ≠ b.time := by omega
    simp only [bne_iff_ne, ne_eq, h, not_false_eq_true, ↓reduceIte, hne, false_and, iff_false]
    cases c <;> simp only [Bool.false_eq_true, ↓reduceIte] <;> split <;> omega

end LyModel.Val.DateTime
