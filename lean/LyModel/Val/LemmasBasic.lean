import LyModel.Val.Model
/-! Helper lemmas for component `Val`: characters, list scanning, decimal printing. Core Lean only. -/
set_option linter.unusedSimpArgs false
namespace LyModel.Val
open LyModel

instance instDecidableEqExcept {ε α : Type} [DecidableEq ε] [DecidableEq α] : DecidableEq (Except ε α) := fun a b =>
  match a, b with
  | .ok x, .ok y => if h : x = y then isTrue (h ▸ rfl) else isFalse (fun h' => h (Except.ok.inj h'))
  | .error x, .error y => if h : x = y then isTrue (h ▸ rfl) else isFalse (fun h' => h (Except.error.inj h'))
  | .ok _, .error _ => isFalse (fun h => nomatch h)
  | .error _, .ok _ => isFalse (fun h => nomatch h)

/-! ### lists -/

theorem all_iff {p : UInt8 → Bool} {l : Bytes} : l.all p = true ↔ ∀ x ∈ l, p x = true := List.all_eq_true

theorem dropWhile_eq_self_of_head {p : UInt8 → Bool} : ∀ {l : Bytes}, (∀ c, l.head? = some c → p c = false) → l.dropWhile p = l
  | [], _ => rfl
  | c :: r, h => by simp [List.dropWhile_cons, h c rfl]

theorem takeWhile_eq_nil_of_head {p : UInt8 → Bool} : ∀ {l : Bytes}, (∀ c, l.head? = some c → p c = false) → l.takeWhile p = []
  | [], _ => rfl
  | c :: r, h => by simp [List.takeWhile_cons, h c rfl]

theorem takeWhile_all {p : UInt8 → Bool} : ∀ {l : Bytes}, l.all p = true → l.takeWhile p = l
  | [], _ => rfl
  | c :: r, h => by
    simp only [List.all_cons, Bool.and_eq_true] at h
    simp [List.takeWhile_cons, h.1, takeWhile_all h.2]

theorem dropWhile_all {p : UInt8 → Bool} : ∀ {l : Bytes}, l.all p = true → l.dropWhile p = []
  | [], _ => rfl
  | c :: r, h => by
    simp only [List.all_cons, Bool.and_eq_true] at h
    simp [List.dropWhile_cons, h.1, dropWhile_all h.2]

theorem all_takeWhile (p : UInt8 → Bool) : ∀ (l : Bytes), (l.takeWhile p).all p = true
  | [] => rfl
  | c :: r => by
    by_cases h : p c = true
    · simp [List.takeWhile_cons, h, all_takeWhile p r]
    · simp [List.takeWhile_cons, h]

theorem head_dropWhile (p : UInt8 → Bool) : ∀ (l : Bytes) (c : UInt8), (l.dropWhile p).head? = some c → p c = false
  | [], _, h => by simp at h
  | a :: r, c, h => by
    by_cases ha : p a = true
    · simp only [List.dropWhile_cons, ha, if_true] at h; exact head_dropWhile p r c h
    · simp only [List.dropWhile_cons, ha] at h
      simp at h; subst h; simpa using ha

/-- scanning `l ++ x` where `l` satisfies `p` throughout and `x` does not start with a `p` character -/
theorem takeWhile_append_stop {p : UInt8 → Bool} {l x : Bytes} (hl : l.all p = true) (hx : ∀ c, x.head? = some c → p c = false) :
    (l ++ x).takeWhile p = l := by
  rw [List.takeWhile_append_of_pos (all_iff.mp hl), takeWhile_eq_nil_of_head hx, List.append_nil]

theorem dropWhile_append_stop {p : UInt8 → Bool} {l x : Bytes} (hl : l.all p = true) (hx : ∀ c, x.head? = some c → p c = false) :
    (l ++ x).dropWhile p = x := by
  rw [List.dropWhile_append_of_pos (all_iff.mp hl), dropWhile_eq_self_of_head hx]

/-! ### characters -/

theorem toNat_lt256 (c : UInt8) : c.toNat < 256 := UInt8.toNat_lt c

theorem isDigit_iff (c : UInt8) : isDigit c = true ↔ 48 ≤ c.toNat ∧ c.toNat ≤ 57 := by
  simp [isDigit]

theorem isSpace_iff (c : UInt8) : isSpace c = true ↔ c.toNat = 32 ∨ (9 ≤ c.toNat ∧ c.toNat ≤ 13) := by
  simp [isSpace]

theorem isDigitB10 (c : UInt8) : isDigitB 10 c = isDigit c := by
  have := toNat_lt256 c
  rw [Bool.eq_iff_iff, isDigit_iff]
  unfold isDigitB digitRaw
  by_cases h1 : 48 ≤ c.toNat ∧ c.toNat ≤ 57
  · simp only [h1, and_self, if_true, decide_eq_true_eq, iff_true]; omega
  · by_cases h2 : 97 ≤ c.toNat ∧ c.toNat ≤ 122
    · simp only [h1, h2, and_self, if_true, if_false, decide_eq_true_eq, iff_false]; omega
    · by_cases h3 : 65 ≤ c.toNat ∧ c.toNat ≤ 90
      · simp only [h1, h2, h3, and_self, if_true, if_false, decide_eq_true_eq, iff_false]; omega
      · simp only [h1, h2, h3, if_false, decide_eq_true_eq, iff_false]; omega

theorem isDigitB10_fun : isDigitB 10 = isDigit := funext isDigitB10

theorem digitRaw_of_digit {c : UInt8} (h : isDigit c = true) : digitRaw c = c.toNat - 48 := by
  have := (isDigit_iff c).mp h
  simp [digitRaw, this]

theorem digit_not_space {c : UInt8} (h : isDigit c = true) : isSpace c = false := by
  have := (isDigit_iff c).mp h
  cases hs : isSpace c
  · rfl
  · have := (isSpace_iff c).mp hs; omega

theorem space_not_digit {c : UInt8} (h : isSpace c = true) : isDigit c = false := by
  cases hd : isDigit c
  · rfl
  · rw [digit_not_space hd] at h; cases h

theorem toNat_eq_of_eq_lit {c : UInt8} {n : Nat} (hn : n < 256) : c = UInt8.ofNat n ↔ c.toNat = n := by
  constructor
  · intro h; subst h; simp [UInt8.toNat_ofNat']; omega
  · intro h; rw [← h]; exact UInt8.ofNat_toNat.symm

/-! ### decimal printing -/

theorem natDecF_fuel : ∀ (f n : Nat), n < f → natDecF f n = natDecF (n + 1) n
  | 0, n, h => by omega
  | f + 1, n, h => by
    unfold natDecF
    by_cases h10 : n < 10
    · simp [h10]
    · simp only [h10, if_false]
      have hd : n / 10 < n := by omega
      rw [natDecF_fuel f (n / 10) (by omega), natDecF_fuel n (n / 10) hd]

theorem natDec_lt10 {n : Nat} (h : n < 10) : natDec n = [digitChar n] := by
  simp [natDec, natDecF, h]

theorem natDec_ge10 {n : Nat} (h : ¬ n < 10) : natDec n = natDec (n / 10) ++ [digitChar (n % 10)] := by
  have hd : n / 10 < n := by omega
  show natDecF (n + 1) n = natDecF (n / 10 + 1) (n / 10) ++ _
  rw [natDecF]
  simp only [h, if_false]
  rw [natDecF_fuel n (n / 10) hd]

theorem digitChar_toNat {d : Nat} (h : d < 10) : (digitChar d).toNat = 48 + d := by
  simp only [digitChar, UInt8.toNat_ofNat']; omega

theorem digitChar_isDigit {d : Nat} (h : d < 10) : isDigit (digitChar d) = true := by
  rw [isDigit_iff, digitChar_toNat h]; omega

theorem digitChar_raw {d : Nat} (h : d < 10) : digitRaw (digitChar d) = d := by
  rw [digitRaw_of_digit (digitChar_isDigit h), digitChar_toNat h]; omega

theorem valOf_append (b : Nat) (x y : Bytes) : valOf b (x ++ y) = y.foldl (fun a c => a * b + digitRaw c) (valOf b x) := by
  simp [valOf, List.foldl_append]

theorem valOf_snoc (b : Nat) (x : Bytes) (c : UInt8) : valOf b (x ++ [c]) = valOf b x * b + digitRaw c := by
  simp [valOf_append]

theorem natDec_all_digits (n : Nat) : (natDec n).all isDigit = true := by
  induction n using Nat.strongRecOn with
  | _ n ih =>
    by_cases h : n < 10
    · rw [natDec_lt10 h]; simp [digitChar_isDigit h]
    · rw [natDec_ge10 h]
      simp [List.all_append, ih (n / 10) (by omega), digitChar_isDigit (Nat.mod_lt n (by decide : 10 > 0))]

theorem valOf_natDec (n : Nat) : valOf 10 (natDec n) = n := by
  induction n using Nat.strongRecOn with
  | _ n ih =>
    by_cases h : n < 10
    · rw [natDec_lt10 h]; simp [valOf, digitChar_raw h]
    · rw [natDec_ge10 h, valOf_snoc, ih (n / 10) (by omega), digitChar_raw (Nat.mod_lt n (by decide : 10 > 0))]
      omega

theorem natDec_ne_nil (n : Nat) : natDec n ≠ [] := by
  by_cases h : n < 10
  · rw [natDec_lt10 h]; simp
  · rw [natDec_ge10 h]; simp

/-- no leading zero, except for the number 0 itself -/
theorem natDec_head (n : Nat) : ∀ c, (natDec n).head? = some c → (c.toNat = 48 ↔ n = 0) := by
  induction n using Nat.strongRecOn with
  | _ n ih =>
    intro c hc
    by_cases h : n < 10
    · rw [natDec_lt10 h] at hc
      simp at hc; subst hc; rw [digitChar_toNat h]; omega
    · rw [natDec_ge10 h] at hc
      have hne := natDec_ne_nil (n / 10)
      have : (natDec (n / 10) ++ [digitChar (n % 10)]).head? = (natDec (n / 10)).head? := by
        cases hx : natDec (n / 10) with
        | nil => exact absurd hx hne
        | cons a r => rfl
      rw [this] at hc
      have := ih (n / 10) (by omega) c hc
      omega

theorem natDec_length_pos (n : Nat) : 0 < (natDec n).length := by
  have := natDec_ne_nil n
  cases h : natDec n with
  | nil => exact absurd h this
  | cons a r => simp

/-- `natDec n` has at most `k` digits when `n < 10^k` -/
theorem natDec_length_le : ∀ (k n : Nat), 0 < k → n < 10 ^ k → (natDec n).length ≤ k
  | 0, _, hk, _ => by omega
  | k + 1, n, _, h => by
    by_cases h10 : n < 10
    · rw [natDec_lt10 h10]; simp
    · rw [natDec_ge10 h10]
      have hk : 0 < k := by
        rcases k with _ | k
        · simp at h; omega
        · omega
      have : n / 10 < 10 ^ k := by
        rw [Nat.pow_succ] at h
        exact Nat.div_lt_of_lt_mul (by omega)
      have := natDec_length_le k (n / 10) hk this
      simp; omega

/-- `natDec n` has more than `k` digits when `n ≥ 10^k` -/
theorem natDec_length_gt : ∀ (k n : Nat), 10 ^ k ≤ n → k < (natDec n).length
  | 0, n, _ => natDec_length_pos n
  | k + 1, n, h => by
    have h10 : ¬ n < 10 := by
      have : 10 ^ (k + 1) ≥ 10 := by
        rw [Nat.pow_succ]; have := Nat.one_le_two_pow (n := 0); have : 1 ≤ 10 ^ k := Nat.one_le_pow _ _ (by decide); omega
      omega
    rw [natDec_ge10 h10]
    have : 10 ^ k ≤ n / 10 := by
      rw [Nat.pow_succ] at h
      exact (Nat.le_div_iff_mul_le (by decide)).mpr h
    have := natDec_length_gt k (n / 10) this
    simp; omega

end LyModel.Val
