import LyModel.Val.InstId
import LyModel.Val.LemmasOrder
/-! Lemmas about the canonical form of `instance-identifier` (`LyModel/Val/InstId.lean`). -/
namespace LyModel.Val.InstId
open LyModel LyModel.Path

/-- one printed segment: `/`, the module prefix and `:` if `p`, the node name, the predicates -/
def seg (c : CStep) (p : Bool) : Bytes :=
  [47] ++ (if p then c.mod ++ [58] else []) ++ c.name ++ canonPred c.pred

/-- per segment: does its module differ from the module printed last (`prev`; `none` before the first segment) -/
def modChanges : Option Bytes → List CStep → List Bool
  | _, [] => []
  | prev, c :: r => (prev != some c.mod) :: modChanges (some c.mod) r

theorem modChanges_length : ∀ (cs : List CStep) (prev : Option Bytes), (modChanges prev cs).length = cs.length
  | [], _ => rfl
  | _ :: r, _ => by simp [modChanges, modChanges_length r]

theorem canonName_eq (prev : Option Bytes) (c : CStep) :
    canonName prev c = [47] ++ (if (prev != some c.mod) then c.mod ++ [58] else []) ++ c.name := by
  unfold canonName
  by_cases h : prev = some c.mod <;> simp [h]

theorem canonSteps_eq_segs : ∀ (cs : List CStep) (prev : Option Bytes),
    canonSteps prev cs = (List.zipWith seg cs (modChanges prev cs)).flatten
  | [], _ => rfl
  | c :: r, prev => by
    simp only [canonSteps, modChanges, List.zipWith_cons_cons, List.flatten_cons, canonSteps_eq_segs r, canonName_eq, seg,
      List.append_assoc]

theorem modChanges_head (c : CStep) (r : List CStep) (prev : Option Bytes) :
    (modChanges prev (c :: r))[0]? = some (prev != some c.mod) := rfl

theorem modChanges_succ : ∀ (cs : List CStep) (prev : Option Bytes) (i : Nat) (a b : CStep),
    cs[i]? = some a → cs[i + 1]? = some b → (modChanges prev cs)[i + 1]? = some (a.mod != b.mod)
  | [], _, _, _, _, h, _ => by simp at h
  | c :: r, prev, 0, a, b, ha, hb => by
    simp only [List.getElem?_cons_zero, Option.some.injEq] at ha
    subst ha
    cases r with
    | nil => simp at hb
    | cons d r' =>
      simp only [List.getElem?_cons_succ, List.getElem?_cons_zero, Option.some.injEq] at hb
      subst hb
      simp only [modChanges, List.getElem?_cons_succ, List.getElem?_cons_zero, Option.some.injEq]
      by_cases h : c.mod = d.mod
      · simp [h]
      · simp [bne, h]
  | c :: r, prev, i + 1, a, b, ha, hb => by
    simp only [List.getElem?_cons_succ] at ha hb
    simpa [modChanges] using modChanges_succ r (some c.mod) i a b ha hb

/-- verdict of a store as a value with decidable equality -/
def result (r : Except IErr (List CStep)) : Sum IErr (List CStep) :=
  match r with
  | .ok v => .inr v
  | .error e => .inl e

theorem cmpEq_iff (a b : List CStep) : cmpEqInstId a b = true ↔ canonInstId a = canonInstId b := by
  simp [cmpEqInstId]

theorem sort_zero_iff (a b : List CStep) : sortInstId a b = 0 ↔ canonInstId a = canonInstId b :=
  strcmp_zero _ _

theorem sort_antisymm (a b : List CStep) : sortInstId a b = -sortInstId b a := strcmp_antisymm _ _

theorem sort_trans (a b c : List CStep) (h1 : sortInstId a b ≤ 0) (h2 : sortInstId b c ≤ 0) : sortInstId a c ≤ 0 :=
  strcmp_trans _ _ _ h1 h2

/-- the canonical string of a non-empty path starts with `/` -/
theorem canonSteps_head (c : CStep) (r : List CStep) (prev : Option Bytes) : (canonSteps prev (c :: r)).head? = some 47 := by
  simp only [canonSteps, canonName]
  split <;> rfl

/-- every step the compiler produces carries the module and name of a schema node it found -/
theorem compileSteps_ne_nil : ∀ (steps : List Step) (cur : List SNode) (pm : Option Bytes) (prev : Option CStep) (cs : List CStep),
    steps ≠ [] → compileSteps true cur pm prev steps = .ok cs → cs ≠ []
  | [], _, _, _, _, h, _ => absurd rfl h
  | st :: rest, cur, pm, prev, cs, _, h => by
    unfold compileSteps at h
    split at h
    · cases h
    · split at h
      · cases h
      · split at h
        · cases h
        · split at h
          · cases h
          · split at h
            · cases h
            · cases h; simp

end LyModel.Val.InstId
