import LyModel.Val.InstId
import LyModel.Val.LemmasOrder
/-! Lemmas about the canonical form of `instance-identifier` (`LyModel/Val/InstId.lean`). -/
namespace LyModel.Val.InstId
open LyModel LyModel.Path

/-- one printed segment: `/`, the module prefix and `:` if `p`, the node name, the predicates -/
def seg (ks : Bool) (c : CStep) (p : Bool) : Bytes :=
  [47] ++ (if p then c.mod ++ [58] else []) ++ c.name ++ canonPredWith ks c.keyNames c.pred

/-- per segment: does its module differ from the module printed last (`prev`; `none` before the first segment) -/
def modChanges : Option Bytes → List CStep → List Bool
  | _, [] => []
  | prev, c :: r => (prev != some c.mod) :: modChanges (some c.mod) r

theorem modChanges_length : ∀ (cs : List CStep) (prev : Option Bytes), (modChanges prev cs).length = cs.length
  | [], _ => rfl
  | _ :: r, _ => by simp [modChanges, modChanges_length r]

theorem canonName_eq (prev : Option Bytes) (c : CStep) :
    canonName prev c = [47] ++ (if (prev != some c.mod) then c.mod ++ [58] else []) ++ c.name := by
  unfold canonName
  by_cases h : prev = some c.mod <;> simp [h]

theorem canonSteps_eq_segs (ks : Bool) : ∀ (cs : List CStep) (prev : Option Bytes),
    canonStepsWith ks prev cs = (List.zipWith (seg ks) cs (modChanges prev cs)).flatten
  | [], _ => rfl
  | c :: r, prev => by
    simp only [canonStepsWith, modChanges, List.zipWith_cons_cons, List.flatten_cons, canonSteps_eq_segs ks r, canonName_eq, seg,
      List.append_assoc]

theorem modChanges_head (c : CStep) (r : List CStep) (prev : Option Bytes) :
    (modChanges prev (c :: r))[0]? = some (prev != some c.mod) := rfl

theorem modChanges_succ : ∀ (cs : List CStep) (prev : Option Bytes) (i : Nat) (a b : CStep),
    cs[i]? = some a → cs[i + 1]? = some b → (modChanges prev cs)[i + 1]? = some (a.mod != b.mod)
  | [], _, _, _, _, h, _ => by simp at h
  | c :: r, prev, 0, a, b, ha, hb => by
    simp only [List.getElem?_cons_zero, Option.some.injEq] at ha
    subst ha
    cases r with
    | nil => simp at hb
    | cons d r' =>
      simp only [List.getElem?_cons_succ, List.getElem?_cons_zero, Option.some.injEq] at hb
      subst hb
      simp only [modChanges, List.getElem?_cons_succ, List.getElem?_cons_zero, Option.some.injEq]
      by_cases h : c.mod = d.mod
      · simp [h]
      · simp [bne, h]
  | c :: r, prev, i + 1, a, b, ha, hb => by
    simp only [List.getElem?_cons_succ] at ha hb
    simpa [modChanges] using modChanges_succ r (some c.mod) i a b ha hb

/-- verdict of a store as a value with decidable equality -/
def result (r : Except IErr (List CStep)) : Sum IErr (List CStep) :=
  match r with
  | .ok v => .inr v
  | .error e => .inl e

theorem cmpEqWith_iff (ks : Bool) (a b : List CStep) : cmpEqInstIdWith ks a b = true ↔ canonInstIdWith ks a = canonInstIdWith ks b := by
  simp [cmpEqInstIdWith]

theorem cmpEq_iff (a b : List CStep) : cmpEqInstId a b = true ↔ canonInstId a = canonInstId b := by
  simp [cmpEqInstId, cmpEqInstIdWith, canonInstId]

theorem sort_zero_iff (a b : List CStep) : sortInstId a b = 0 ↔ canonInstId a = canonInstId b :=
  strcmp_zero _ _

theorem sort_antisymm (a b : List CStep) : sortInstId a b = -sortInstId b a := strcmp_antisymm _ _

theorem sort_trans (a b c : List CStep) (h1 : sortInstId a b ≤ 0) (h2 : sortInstId b c ≤ 0) : sortInstId a c ≤ 0 :=
  strcmp_trans _ _ _ h1 h2

/-- the canonical string of a non-empty path starts with `/` -/
theorem canonSteps_head (ks : Bool) (c : CStep) (r : List CStep) (prev : Option Bytes) :
    (canonStepsWith ks prev (c :: r)).head? = some 47 := by
  simp only [canonStepsWith, canonName]
  split <;> rfl

/-! ### the value stores fail with `Semantic` only -/

theorem canonVal_err {ty : Option Ty} {v : Bytes} {e : IErr} (h : canonVal ty v = .error e) : e = .Semantic := by
  unfold canonVal at h
  split at h
  · cases h; rfl
  · split at h
    · cases h; rfl
    · cases h

theorem typeKeys_err (t : TNode) : ∀ (kv : List (Bytes × Bytes)) (e : IErr), typeKeys t kv = .error e → e = .Semantic
  | [], _, h => by cases h
  | (k, v) :: r, e, h => by
    unfold typeKeys at h
    split at h
    · rename_i e' hc; cases h; exact canonVal_err hc
    · split at h
      · rename_i e' hr; cases h; exact typeKeys_err t r _ hr
      · cases h

theorem typePred_err (t : TNode) (p : CPred) (e : IErr) (h : typePred t p = .error e) : e = .Semantic := by
  unfold typePred at h
  split at h
  · split at h
    · rename_i e' hk; cases h; exact typeKeys_err t _ _ hk
    · cases h
  · split at h
    · rename_i e' hc; cases h; exact canonVal_err hc
    · cases h
  · cases h

theorem typeSteps_err : ∀ (cs : List CStep) (sibs : List TNode) (e : IErr), typeSteps sibs cs = .error e → e = .Semantic
  | [], _, _, h => by cases h
  | c :: r, sibs, e, h => by
    unfold typeSteps at h
    split at h
    · cases h; rfl
    · split at h
      · rename_i e' hp; cases h; exact typePred_err _ _ _ hp
      · split at h
        · rename_i e' hr; cases h; exact typeSteps_err r _ _ hr
        · cases h

/-- every step the compiler produces carries the module and name of a schema node it found -/
theorem compileSteps_ne_nil : ∀ (steps : List Step) (cur : List SNode) (pm : Option Bytes) (prev : Option CStep) (cs : List CStep),
    steps ≠ [] → compileSteps true cur pm prev steps = .ok cs → cs ≠ []
  | [], _, _, _, _, h, _ => absurd rfl h
  | st :: rest, cur, pm, prev, cs, _, h => by
    unfold compileSteps at h
    split at h
    · cases h
    · split at h
      · cases h
      · split at h
        · cases h
        · split at h
          · cases h
          · split at h
            · cases h
            · cases h; simp

/-! ### key predicates in schema order: the order they were written in does not matter (F422 repaired) -/

/-- the key names of a predicate are pairwise different (`ly_path_check_predicate`: "Duplicate predicate key") -/
def KeysDistinct : List CStep → Prop
  | [] => True
  | c :: r => (match c.pred with | .keys kv => (kv.map (·.1)).Nodup | _ => True) ∧ KeysDistinct r

theorem find_key_mem : ∀ (l : List (Bytes × Bytes)) (k : Bytes) (x : Bytes × Bytes), (l.map (·.1)).Nodup → x ∈ l → x.1 = k →
    l.find? (fun p => p.1 == k) = some x
  | [], _, _, _, hx, _ => by cases hx
  | y :: r, k, x, hn, hx, hk => by
    simp only [List.map_cons, List.nodup_cons] at hn
    simp only [List.find?_cons]
    rcases List.mem_cons.mp hx with rfl | hx'
    · simp [hk]
    · have hne : (y.1 == k) = false := by
        apply Bool.eq_false_iff.mpr
        intro h
        have : y.1 = x.1 := by rw [hk]; exact eq_of_beq h
        exact hn.1 (this ▸ List.mem_map_of_mem hx')
      rw [hne]
      exact find_key_mem r k x hn.2 hx' hk

theorem find_key_perm {l1 l2 : List (Bytes × Bytes)} (hp : l1.Perm l2) (hn : (l1.map (·.1)).Nodup) (k : Bytes) :
    l1.find? (fun p => p.1 == k) = l2.find? (fun p => p.1 == k) := by
  have hn2 : (l2.map (·.1)).Nodup := (hp.map _).nodup_iff.mp hn
  cases h1 : l1.find? (fun p => p.1 == k) with
  | some x =>
    have hx := List.mem_of_find?_eq_some h1
    have hk : x.1 = k := eq_of_beq (by simpa using List.find?_some h1)
    exact (find_key_mem l2 k x hn2 (hp.mem_iff.mp hx) hk).symm
  | none =>
    cases h2 : l2.find? (fun p => p.1 == k) with
    | none => rfl
    | some x =>
      have hx := List.mem_of_find?_eq_some h2
      have hk : x.1 = k := eq_of_beq (by simpa using List.find?_some h2)
      rw [find_key_mem l1 k x hn (hp.mem_iff.mpr hx) hk] at h1
      cases h1

theorem orderKeys_perm {l1 l2 : List (Bytes × Bytes)} (hp : l1.Perm l2) (hn : (l1.map (·.1)).Nodup) (names : List Bytes) :
    orderKeys true names l1 = orderKeys true names l2 := by
  simp only [orderKeys, if_true]
  congr 1
  funext k
  exact find_key_perm hp hn k

/-! ### a path without variable references is compiled as it is -/

theorem devarPred_noVar (p : Pred) (h : predHasVar p = false) : devarPred p = p := by
  cases p with
  | keys kv =>
    simp only [predHasVar, List.any_eq_false] at h
    simp only [devarPred]
    congr 1
    have : ∀ (l : List (Bytes × PVal)), (∀ x ∈ l, ¬ PVal.isVar x.2 = true) → l.map (fun p => (p.1, devarVal p.2)) = l := by
      intro l
      induction l with
      | nil => intro _; rfl
      | cons x r ih =>
        intro hl
        have hx := hl x (List.mem_cons_self ..)
        have hr := ih (fun y hy => hl y (List.mem_cons_of_mem _ hy))
        obtain ⟨k, v⟩ := x
        cases v <;> simp_all [devarVal, PVal.isVar]
    exact this kv h
  | none => rfl
  | dot v => rfl
  | pos n => rfl

theorem devar_noVar : ∀ (steps : List Step), (∀ st ∈ steps, predHasVar st.pred = false) → devar steps = steps
  | [], _ => rfl
  | st :: r, h => by
    have h1 := devarPred_noVar st.pred (h st (List.mem_cons_self ..))
    have h2 := devar_noVar r (fun y hy => h y (List.mem_cons_of_mem _ hy))
    unfold devar at h2 ⊢
    simp only [List.map_cons, h1, h2]

end LyModel.Val.InstId
