import LyModel.Val.Inet
/-! driver ops of the ietf-inet-types address / prefix model: same request lines as `harness/api_types.c` with the type descriptors
    `t:ietf-inet-types:ipv4-address|ipv4-address-no-zone|ipv4-prefix|ipv6-address|ipv6-address-no-zone|ipv6-prefix`
    (`validate`, `store`, `cmp`, `lybrt`, `unlyb`) -/
namespace LyModel.Val.DrvInet
open LyModel LyModel.Val

def sgn (i : Int) : String := if i < 0 then "-1" else if i > 0 then "1" else "0"

/-- the descriptors the model answers for: the typedefs of `Generated.inetTypedefs` -/
def isDesc (d : String) : Bool :=
  match d.splitOn ":" with
  | ["t", "ietf-inet-types", n] => (Generated.inetTypedefs.lookup n).isSome && (Generated.inetShape.lookup n).isSome
  | _ => false

def tyOfDesc (d : String) : Option Inet.ITy :=
  match d.splitOn ":" with
  | ["t", "ietf-inet-types", n] => Inet.tyOf n
  | _ => none

/-- repaired tree (`fixes/F425.diff`, `Generated.inetNoZoneNulRefused`): the plug-ins that check nothing but `inet_pton` refuse a value
    with an embedded NUL byte right after the hints check ("Invalid character 0x00"); the theorems of `Props/C03Inet.lean` are about
    `Inet.store`, i.e. the pinned variant (`inet_nul_refused_fails`), and the NUL-free inputs the two variants share -/
def storeCur (t : Inet.ITy) (hints : Nat) (s : Bytes) : Except String Inet.IVal :=
  match checkHints hints "string" with
  | none => .error "Hint"
  | some _ =>
    if Generated.inetNoZoneNulRefused && !t.checks && s.contains 0 then .error "BadUtf8"
    else match Inet.store t hints s with
      | .ok v => .ok v
      | .error e => .error e.name

def handleTy (t : Inet.ITy) (op : String) (args : List String) : String :=
  match op, args with
  | "store", [_, h, x] =>
    match h.toNat?, Hex.dec x with
    | some hints, some s =>
      match storeCur t hints s with
      | .ok v => "ok " ++ Hex.enc (Inet.canon t v) ++ " " ++ Hex.enc (Inet.lyb t v)
      | .error e => "err " ++ e
    | _, _ => "err BadArg"
  | "validate", [_, x] =>
    match Hex.dec x with
    | some s =>
      match storeCur t Generated.LYD_HINT_DATA s with
      | .ok v => "ok " ++ Hex.enc (Inet.canon t v)
      | .error e => "err " ++ e
    | none => "err BadArg"
  | "cmp", [_, x1, x2] =>
    match Hex.dec x1, Hex.dec x2 with
    | some s1, some s2 =>
      -- `lyd_new_term` takes C strings: the harness hands over the part before a NUL
      match Inet.store t Generated.LYD_HINT_DATA (cstr s1), Inet.store t Generated.LYD_HINT_DATA (cstr s2) with
      | .error _, _ => "err Reject1"
      | .ok _, .error _ => "err Reject2"
      | .ok a, .ok b =>
        let so := Inet.sort t a b
        "ok " ++ (if Inet.cmpEq t a b then "1" else "0") ++ " " ++ sgn so ++ " " ++
          (if Inet.canon t a == Inet.canon t b then "1" else "0") ++ " " ++ (if so ≤ 0 then "a" else "b") ++ " " ++ (if so < 0 then "a" else "b")
    | _, _ => "err BadArg"
  | "lybrt", [_, x] =>
    match Hex.dec x with
    | some s =>
      match Inet.store t Generated.LYD_HINT_DATA s with
      | .error e => "err " ++ e.name
      | .ok v =>
        match Inet.unlyb t (Inet.lyb t v) with
        | .error e => "err Unlyb" ++ e.name
        | .ok w =>
          -- whole tree: `lyd_new_term` of the C string, printed as LYB, parsed, compared (value and canonical string)
          let tree := match Inet.store t Generated.LYD_HINT_DATA (cstr s) with
            | .error _ => false
            | .ok v' => match Inet.unlyb t (Inet.lyb t v') with
              | .error _ => false
              | .ok w' => Inet.cmpEq t v' w' && Inet.canon t v' == Inet.canon t w'
          "ok " ++ Hex.enc (Inet.lyb t v) ++ " " ++ Hex.enc (Inet.canon t w) ++ " " ++ (if Inet.cmpEq t v w then "1" else "0") ++ " 1 " ++
            (if tree then "1" else "0")
    | none => "err BadArg"
  | "unlyb", [_, x] =>
    match Hex.dec x with
    | some b =>
      match Inet.unlyb t b with
      | .ok v => "ok " ++ Hex.enc (Inet.canon t v)
      | .error e => "err " ++ e.name
    | none => "err BadArg"
  | _, _ => "err BadOp"

def handle (op : String) (args : List String) : String :=
  match args with
  | d :: _ =>
    match tyOfDesc d with
    | some t => handleTy t op args
    | none => "err BadArg"
  | [] => "err BadArg"

end LyModel.Val.DrvInet
