import LyModel.Val.Union
import LyModel.Generated.ValInet
/-!
# `ipv4-address`, `ipv4-address-no-zone`, `ipv4-prefix`, `ipv6-address`, `ipv6-address-no-zone`, `ipv6-prefix` of ietf-inet-types
(component `Val`, property C03)

Executable model of `plugins_types/ipv4_address.c`, `ipv4_address_no_zone.c`, `ipv4_prefix.c`, `ipv6_address.c`,
`ipv6_address_no_zone.c`, `ipv6_prefix.c`.

## libc (modelled, not verified): glibc 2.36 `resolv/inet_pton.c`, `resolv/inet_ntop.c`

* `inet_pton4`: a loop over the bytes with `saw_digit`, `octets`, the octet under construction: a digit is refused when the octet so
  far is `0` (`saw_digit && *tp == 0`: no leading zero), when the new value exceeds 255; `.` only after a digit and only when fewer than
  four octets were started; at the end exactly four octets.
* `inet_pton6`: leading `:` must be followed by `:`; hexadecimal digits accumulate (at most 4 per group); `:` after digits writes a group
  (and must not be the last byte), `:` without digits is the `::` (once); `.` hands the CURRENT TOKEN up to the end of the string to
  `inet_pton4` when 4 more bytes fit; at the end a pending group is written; `::` is replaced by the missing zero bytes and must stand
  for at least one group; without `::` exactly 16 bytes.
* `inet_ntop4`: `%u.%u.%u.%u`.
* `inet_ntop6`: the longest run of zero groups (leftmost on ties), compressed when it has at least 2 groups; groups in lower-case
  hexadecimal without leading zeros (`%x`); when the run starts at group 0 and has length 6, or length 5 with group 5 = `ffff`, the last
  four bytes are printed by `inet_ntop4` (`::1.2.3.4`, `::ffff:1.2.3.4`).

## the plug-ins

* store, text formats: `lyplg_type_check_hints` (base type `string`); then — `ipv4-address`, `ipv4-prefix`, `ipv6-address`, `ipv6-prefix`
  only — the length restriction and `lyplg_type_validate_patterns` (PCRE2 in UTF mode: the subject is checked first, `PcreUtf8`); the two
  `-no-zone` plug-ins NEVER look at the patterns of their typedef.  Then the conversion: the value is cut at the first `%` (zone types:
  the rest is the zone, a dictionary string) or at the first `/` (prefix types: the rest goes through `ly_strntou8`, whose verdict is
  ignored — the length stays 0 when it fails, unreachable behind the patterns), the address part is copied with `strndup` (ends at the
  first NUL) and given to `inet_pton`; the prefix types then clear the host bits (`ipv4prefix_zero_host` / `ipv6prefix_zero_host`).
  `ipv4-address` and `ipv4-address-no-zone` keep the TEXT as the canonical value (the whole value / the `strndup` copy), the others
  generate it at the first print: `inet_ntop` + `%zone` / `/len`.
* store, LYB: `ipv4-address` / `ipv6-address`: at least 4 / 16 bytes, every further byte `isalnum` ("C" locale), they are the zone;
  `-no-zone`: exactly 4 / 16 bytes; prefixes: exactly 5 / 17 bytes, the last one at most 32 / 128, host bits cleared.
* compare: address bytes and zone (dictionary pointer) / the whole struct of a prefix (address, length; padding is zero);
  sort: `memcmp` of the address, then no zone before a zone, then `strcmp` of the zones / `memcmp` of the whole prefix struct.
* print, LYB: address bytes + zone bytes / + the length byte.

The matcher is the specification matcher of `XsdRe`; patterns and lengths come from `models/ietf-inet-types@2013-07-15.yang`, the shape
of the store callbacks from the C files (`Generated/ValInet.lean`).  Core Lean only (linked into `lydrv`).
-/
namespace LyModel.Val.Inet
open LyModel LyModel.Val

/-! ## libc: `inet_pton` -/

/-- `'0'`–`'9'` -/
def isDigit (c : UInt8) : Bool := 48 ≤ c.toNat && c.toNat ≤ 57

/-- the loop of `inet_pton4`: finished octets, the octet under construction, `saw_digit` (`octets` = finished + 1 when `saw_digit`) -/
def pton4Loop : Bytes → Bytes → Nat → Bool → Option Bytes
  | [], done, cur, saw => if saw && done.length == 3 then some (done ++ [UInt8.ofNat cur]) else none
  | ch :: src, done, cur, saw =>
    if isDigit ch then
      if saw && cur == 0 then none
      else if cur * 10 + (ch.toNat - 48) > 255 then none
      else if !saw && done.length ≥ 4 then none
      else pton4Loop src done (cur * 10 + (ch.toNat - 48)) true
    else if ch == 46 && saw then
      if done.length + 1 == 4 then none else pton4Loop src (done ++ [UInt8.ofNat cur]) 0 false
    else none

/-- `inet_pton(AF_INET, s)`: the four address bytes -/
def pton4 (s : Bytes) : Option Bytes := pton4Loop s [] 0 false

/-- `hex_digit_value` -/
def hexVal (c : UInt8) : Option Nat :=
  if 48 ≤ c.toNat && c.toNat ≤ 57 then some (c.toNat - 48)
  else if 97 ≤ c.toNat && c.toNat ≤ 102 then some (c.toNat - 87)
  else if 65 ≤ c.toNat && c.toNat ≤ 70 then some (c.toNat - 55)
  else none

/-- the two bytes of a group, network order -/
def wordBytes (v : Nat) : Bytes := [UInt8.ofNat (v / 256), UInt8.ofNat (v % 256)]

/-- the loop of `inet_pton6` (after the leading-colon check): rest of the input, the current token (`curtok`), bytes written (`tp`),
    position of the `::` (`colonp`), `xdigits_seen`, `val`; the result is the state the loop is left with -/
def pton6Loop : Bytes → Bytes → Bytes → Option Nat → Nat → Nat → Option (Bytes × Option Nat × Nat × Nat)
  | [], _, out, cp, xd, val => some (out, cp, xd, val)
  | ch :: src, curtok, out, cp, xd, val =>
    match hexVal ch with
    | some d =>
      if xd == 4 then none
      else if val * 16 + d > 0xffff then none
      else pton6Loop src curtok out cp (xd + 1) (val * 16 + d)
    | none =>
      if ch == 58 then
        if xd == 0 then
          if cp.isSome then none else pton6Loop src src out (some out.length) 0 val
        else if src.isEmpty then none
        else if out.length + 2 > 16 then none
        else pton6Loop src src (out ++ wordBytes val) cp 0 0
      else if ch == 46 && out.length + 4 ≤ 16 then
        match pton4 curtok with
        | some q => some (out ++ q, cp, 0, val)
        | none => none
      else none

/-- what follows the loop: the pending group, the expansion of `::`, the size check -/
def pton6Finish (st : Bytes × Option Nat × Nat × Nat) : Option Bytes :=
  let (out, cp, xd, val) := st
  if xd > 0 && out.length + 2 > 16 then none
  else
    let out1 := if xd > 0 then out ++ wordBytes val else out
    match cp with
    | some k => if out1.length == 16 then none else some (out1.take k ++ List.replicate (16 - out1.length) 0 ++ out1.drop k)
    | none => if out1.length == 16 then some out1 else none

/-- `inet_pton(AF_INET6, s)`: the sixteen address bytes -/
def pton6 (s : Bytes) : Option Bytes :=
  match s with
  | [] => none
  | c :: r =>
    if c == 58 && r.head? != some 58 then none
    else
      let src := if c == 58 then r else s
      match pton6Loop src src [] none 0 0 with
      | none => none
      | some st => pton6Finish st

/-! ## libc: `inet_ntop` -/

def digitCh (n : Nat) : UInt8 := UInt8.ofNat (48 + n)

/-- `%u` of a value below 256 -/
def dec8 (n : Nat) : Bytes :=
  if n < 10 then [digitCh n]
  else if n < 100 then [digitCh (n / 10), digitCh (n % 10)]
  else [digitCh (n / 100), digitCh (n / 10 % 10), digitCh (n % 10)]

/-- `inet_ntop(AF_INET)`: `%u.%u.%u.%u` of the first four bytes -/
def ntop4 (a : Bytes) : Bytes :=
  dec8 (a.getD 0 0).toNat ++ [46] ++ dec8 (a.getD 1 0).toNat ++ [46] ++ dec8 (a.getD 2 0).toNat ++ [46] ++ dec8 (a.getD 3 0).toNat

def hexCh (n : Nat) : UInt8 := if n < 10 then UInt8.ofNat (48 + n) else UInt8.ofNat (87 + n)

/-- `%x` of a value below 65536 -/
def hex16 (w : Nat) : Bytes :=
  if w < 16 then [hexCh w]
  else if w < 256 then [hexCh (w / 16), hexCh (w % 16)]
  else if w < 4096 then [hexCh (w / 256), hexCh (w / 16 % 16), hexCh (w % 16)]
  else [hexCh (w / 4096), hexCh (w / 256 % 16), hexCh (w / 16 % 16), hexCh (w % 16)]

/-- `words[i] = (src[2i] << 8) | src[2i+1]`, eight of them -/
def wordsF : Nat → Bytes → List Nat
  | 0, _ => []
  | n + 1, a => ((a.getD 0 0).toNat * 256 + (a.getD 1 0).toNat) :: wordsF n (a.drop 2)

def words (a : Bytes) : List Nat := wordsF 8 a

/-- `if (best.base == -1 || cur.len > best.len) best = cur;` -/
def updBest (cur best : Option (Nat × Nat)) : Option (Nat × Nat) :=
  match cur, best with
  | none, _ => best
  | some c, none => some c
  | some c, some b => if c.2 > b.2 then some c else some b

/-- the scan for the longest run of zero groups: remaining words, index, `cur`, `best` (base, len) -/
def bestLoop : List Nat → Nat → Option (Nat × Nat) → Option (Nat × Nat) → Option (Nat × Nat)
  | [], _, cur, best => updBest cur best
  | w :: ws, i, cur, best =>
    if w == 0 then
      match cur with
      | none => bestLoop ws (i + 1) (some (i, 1)) best
      | some c => bestLoop ws (i + 1) (some (c.1, c.2 + 1)) best
    else bestLoop ws (i + 1) none (updBest cur best)

/-- the run `inet_ntop6` compresses: longest, leftmost, at least two groups -/
def bestRun (ws : List Nat) : Option (Nat × Nat) :=
  match bestLoop ws 0 none none with
  | some b => if b.2 < 2 then none else some b
  | none => none

/-- `best.base == 0 && (best.len == 6 || (best.len == 5 && words[5] == 0xffff))`: the last 32 bits are printed as a dotted quad -/
def v4Tail (ws : List Nat) (best : Option (Nat × Nat)) : Bool :=
  match best with
  | some (0, l) => l == 6 || (l == 5 && ws.getD 5 0 == 0xffff)
  | _ => false

/-- the formatting loop from group `i` on -/
def fmtLoop (a : Bytes) (ws : List Nat) (best : Option (Nat × Nat)) : Nat → List Nat → Bytes
  | _, [] => []
  | i, w :: rest =>
    let inBest := match best with
      | some (b, l) => b ≤ i && i < b + l
      | none => false
    if inBest then
      (if (best.map (·.1)) == some i then [58] else []) ++ fmtLoop a ws best (i + 1) rest
    else
      (if i != 0 then [58] else []) ++
        (if i == 6 && v4Tail ws best then ntop4 (a.drop 12)
         else hex16 w ++ fmtLoop a ws best (i + 1) rest)

/-- `inet_ntop(AF_INET6)` of sixteen bytes -/
def ntop6 (a : Bytes) : Bytes :=
  let ws := words a
  let best := bestRun ws
  fmtLoop a ws best 0 ws ++
    (match best with
     | some (b, l) => if b + l == 8 then [58] else []
     | none => [])

/-! ## pieces of the plug-ins -/

/-- error kinds (the reply enum of `harness/api_types.c`) -/
inductive IErr
  | Hint          -- `lyplg_type_check_hints`
  | Length        -- "Unsatisfied length"
  | PcreUtf8      -- `LY_ESYS`, "UTF-8 error: …" of `pcre2_match`
  | Pattern       -- "Unsatisfied pattern"
  | InetPton      -- "Failed to convert IPv4 / IPv6 address"
  | NoPrefixLen   -- "Invalid IPv4 / IPv6 prefix … without a prefix length"
  | LybSize       -- "Invalid LYB … value size"
  | LybZone       -- "Invalid LYB … zone character"
  | LybPrefixLen  -- "Invalid LYB … prefix length"
  deriving DecidableEq, Repr

def IErr.name : IErr → String
  | .Hint => "Hint" | .Length => "Length" | .PcreUtf8 => "PcreUtf8" | .Pattern => "Pattern" | .InetPton => "InetPton"
  | .NoPrefixLen => "NoPrefixLen" | .LybSize => "LybSize" | .LybZone => "LybZone" | .LybPrefixLen => "LybPrefixLen"

/-- a compiled typedef with its plug-in: the flags are `Generated.inetShape` -/
structure ITy where
  str : PStrTy          -- length parts and pattern array of the typedef chain
  checks : Bool         -- the store callback checks length and patterns
  zone : Bool           -- `%zone`
  pfx : Bool            -- `/len`
  size : Nat            -- 4 or 16 address bytes
  maxp : Nat            -- 32 or 128
  keeps : Bool          -- the text is kept as the canonical value

/-- a stored value: address bytes, zone (dictionary string or NULL), prefix length, `_canonical` when the store callback set it -/
structure IVal where
  addr : Bytes
  zone : Option Bytes
  plen : Nat
  text : Option Bytes
  deriving DecidableEq, Repr

/-- `lyplg_type_validate_patterns` with PCRE2 in UTF mode: the subject is checked before the first match -/
def checkPatterns (pats : List (XsdRe.Regex Char × Bool)) (v : Bytes) : Except IErr Unit :=
  if pats.isEmpty then .ok ()
  else match XsdRe.decodeUtf8 v with
    | none => .error .PcreUtf8
    | some cs => if XsdRe.Regex.validatePatterns pats cs then .ok () else .error .Pattern

/-- `ly_strntou8`: at most three bytes, all decimal digits, value at most 255 (read from the right; an overflow is refused) -/
def strntou8 (s : Bytes) : Option Nat :=
  if s.length > 3 then none
  else if s.all isDigit then
    let v := s.foldl (fun acc c => acc * 10 + (c.toNat - 48)) 0
    if v > 255 then none else some v
  else none

/-- the top `k` bits of a byte -/
def maskByte (k : Nat) : UInt8 := if k ≥ 8 then 255 else UInt8.ofNat (256 - 2 ^ (8 - k))

/-- `ipv4prefix_zero_host` / `ipv6prefix_zero_host`: the first `p` bits of the address are kept -/
def zeroHost : Nat → Bytes → Bytes
  | _, [] => []
  | p, b :: r => (b &&& maskByte p) :: zeroHost (p - 8) r

/-- `ly_strnchr`: the value cut at the first occurrence of `c` (which is dropped) -/
def splitAt (c : UInt8) (s : Bytes) : Option (Bytes × Bytes) :=
  if s.contains c then some (s.takeWhile (· != c), (s.dropWhile (· != c)).drop 1) else none

def pton (t : ITy) (s : Bytes) : Option Bytes := if t.size == 4 then pton4 s else pton6 s
def ntop (t : ITy) (a : Bytes) : Bytes := if t.size == 4 then ntop4 a else ntop6 a

/-- `isalnum` of the "C" locale -/
def isAlnum (c : UInt8) : Bool :=
  (48 ≤ c.toNat && c.toNat ≤ 57) || (65 ≤ c.toNat && c.toNat ≤ 90) || (97 ≤ c.toNat && c.toNat ≤ 122)

/-! ## the callbacks -/

/-- the conversion step (`…_str2ip` + `…_zero_host`) on a value that passed the checks -/
def convert (t : ITy) (s : Bytes) : Except IErr IVal :=
  if t.pfx then
    match splitAt 47 s with
    | none => .error .NoPrefixLen
    | some (a, l) =>
      let plen := (strntou8 l).getD 0
      match pton t (cstr a) with
      | none => .error .InetPton
      | some addr => .ok { addr := zeroHost plen addr, zone := none, plen := plen, text := none }
  else if t.zone then
    let (a, z) := match splitAt 37 s with
      | some (a, z) => (a, some z)
      | none => (s, none)
    match pton t (cstr a) with
    | none => .error .InetPton
    | some addr => .ok { addr := addr, zone := z, plen := 0, text := if t.keeps then some s else none }
  else
    match pton t (cstr s) with
    | none => .error .InetPton
    | some addr => .ok { addr := addr, zone := none, plen := 0, text := if t.keeps then some (cstr s) else none }

/-- the store callback, text formats other than `LY_VALUE_CANON`, no `LYPLG_TYPE_STORE_ONLY` -/
def store (t : ITy) (hints : Nat) (s : Bytes) : Except IErr IVal :=
  match checkHints hints "string" with
  | none => .error .Hint
  | some _ =>
    if t.checks && !validateRange (rangeIsUnsigned "string") t.str.length (utf8Len (s.length + 1) s : Nat) then .error .Length
    else match (if t.checks then checkPatterns t.str.pats s else .ok ()) with
      | .error e => .error e
      | .ok () => convert t s

/-- the store callback, `LY_VALUE_LYB` -/
def unlyb (t : ITy) (b : Bytes) : Except IErr IVal :=
  if t.pfx then
    if b.length != t.size + 1 then .error .LybSize
    else if (b.getD t.size 0).toNat > t.maxp then .error .LybPrefixLen
    else .ok { addr := zeroHost (b.getD t.size 0).toNat (b.take t.size), zone := none, plen := (b.getD t.size 0).toNat, text := none }
  else if t.zone then
    if b.length < t.size then .error .LybSize
    else if !(b.drop t.size).all isAlnum then .error .LybZone
    else .ok { addr := b.take t.size, zone := if b.length > t.size then some (b.drop t.size) else none, plen := 0, text := none }
  else
    if b.length != t.size then .error .LybSize
    else .ok { addr := b, zone := none, plen := 0, text := none }

/-- `%zone` -/
def zoneSuffix : Option Bytes → Bytes
  | some z => 37 :: z
  | none => []

/-- the text `print` generates when `_canonical` is not set: `inet_ntop` + `%zone` / `/len` -/
def genCanon (t : ITy) (v : IVal) : Bytes :=
  ntop t v.addr ++ (if t.pfx then 47 :: dec8 v.plen else zoneSuffix v.zone)

/-- the print callback, `LY_VALUE_CANON` -/
def canon (t : ITy) (v : IVal) : Bytes := v.text.getD (genCanon t v)

/-- the print callback, `LY_VALUE_LYB` -/
def lyb (t : ITy) (v : IVal) : Bytes :=
  if t.pfx then v.addr ++ [UInt8.ofNat v.plen] else v.addr ++ v.zone.getD []

/-- the compare callback: `true` = `LY_SUCCESS` -/
def cmpEq (_t : ITy) (a b : IVal) : Bool := a.addr == b.addr && a.zone == b.zone && a.plen == b.plen

/-- the order of the zones: no zone (NULL) first, then `strcmp` -/
def zoneOrd : Option Bytes → Option Bytes → Int
  | none, some _ => -1
  | some _, none => 1
  | some x, some y => strcmp x y
  | none, none => 0

/-- the sort callback -/
def sort (t : ITy) (a b : IVal) : Int :=
  if t.pfx then memcmp (a.addr ++ [UInt8.ofNat a.plen]) (b.addr ++ [UInt8.ofNat b.plen])
  else
    let c := memcmp a.addr b.addr
    if c != 0 then c else zoneOrd a.zone b.zone

/-! ## the six typedefs -/

def compilePats (ps : List (List UInt8 × Bool)) : Option (List (XsdRe.Regex Char × Bool)) :=
  ps.mapM fun p =>
    match XsdRe.parseXsd p.1 with
    | .ok pat => some (pat.toRegex, p.2)
    | .error _ => none

/-- the compiled type of a typedef with its plug-in -/
def tyOf (name : String) : Option ITy :=
  match Generated.inetTypedefs.lookup name, Generated.inetShape.lookup name with
  | some (len, ps), some (checks, zone, pfx, size, maxp, keeps) =>
    (compilePats ps).map fun pats =>
      { str := { length := len, pats := pats }, checks := checks, zone := zone, pfx := pfx, size := size, maxp := maxp, keeps := keeps }
  | _, _ => none

end LyModel.Val.Inet
