import LyModel.Val.DrvBase
import LyModel.Val.DrvBin
import LyModel.Val.DrvDt
import LyModel.Val.DrvHex
import LyModel.Val.DrvInet
import LyModel.Val.DrvInst
import LyModel.Val.DrvU
/-! driver ops of component `val`: dispatch on the type descriptor (first argument) -/
namespace LyModel.Val.Drv
open LyModel LyModel.Val

/-- derived types with a model of their own, union / pattern strings / identityref, then the built-in types -/
def handle (op : String) (args : List String) : String :=
  match args with
  | d :: _ =>
    if d == "t:ietf-yang-types:date-and-time" then DrvDt.handle op args
    else if DrvInet.isDesc d then DrvInet.handle op args
    else if DrvHex.isDesc d then DrvHex.handle op args
    else if DrvBin.isDesc d then DrvBin.handle op args
    else if DrvInst.isDesc d then DrvInst.handle op args
    else if d.startsWith "U(" || d.startsWith "pstr:" || d.startsWith "idref:" || d.startsWith "lref(" || d.startsWith "lrefr(" then DrvU.handle op args
    else handleBase op args
  | [] => handleBase op args

end LyModel.Val.Drv
