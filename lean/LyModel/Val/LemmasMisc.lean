import LyModel.Val.LemmasIntCanon
import LyModel.Val.LemmasOrder
/-! decimal64 / boolean / enumeration LYB round trips, hints, small facts used by the property file. -/
set_option linter.unusedSimpArgs false
namespace LyModel.Val
open LyModel

theorem unlybDec64_lybDec64 (range : List (Int × Int)) (v : Int) (hlo : -(2 ^ 63) ≤ v) (hhi : v ≤ 2 ^ 63 - 1)
    (hr : validateRange (rangeIsUnsigned "dec64") range v = true) : unlybDec64 range (lybDec64 v) = .ok v := by
  unfold unlybDec64 lybDec64
  rw [leBytes_length]
  simp only [bne_self_eq_false, Bool.false_eq_true, if_false, ofLe_leBytes]
  have hw : ((((v % 2 ^ 64).toNat % 256 ^ 8 : Nat) : Int) + 2 ^ 63) % 2 ^ 64 - 2 ^ 63 = v := by
    simp; omega
  rw [hw, if_pos hr]

theorem unlybBool_lybBool (b : Bool) : unlybBool (lybBool b) = .ok b := by
  cases b <;> rfl

theorem canonBool_injective {a b : Bool} (h : canonBool a = canonBool b) : a = b := by
  cases a <;> cases b <;> first | rfl | (exfalso; revert h; decide)

theorem storeBool_canon (hints : Nat) (b : Bool) (hh : (checkHints hints "bool").isSome = true) :
    storeBool hints (canonBool b) = .ok b := by
  unfold storeBool
  cases hc : checkHints hints "bool" with
  | none => rw [hc] at hh; cases hh
  | some _ => cases b <;> rfl

/-- hints influence a store only through `lyplg_type_check_hints` -/
theorem storeInt_hints_irrelevant (t : IntTy) (range : List (Int × Int)) (h1 h2 : Nat) (s : Bytes)
    (h : checkHints h1 t.name = checkHints h2 t.name) : storeInt t range h1 s = storeInt t range h2 s := by
  unfold storeInt; rw [h]

theorem storeDec64_hints_irrelevant (fd : Nat) (range : List (Int × Int)) (h1 h2 : Nat) (s : Bytes)
    (h : (checkHints h1 "dec64").isSome = (checkHints h2 "dec64").isSome) : storeDec64 fd range h1 s = storeDec64 fd range h2 s := by
  unfold storeDec64 storeDec64With
  cases a : checkHints h1 "dec64" <;> cases b : checkHints h2 "dec64" <;> simp [a, b] at h ⊢

/-- well-formed enumeration: names and values are pairwise distinct and the values are int32 -/
structure EnumWF (items : List EnumItem) : Prop where
  names : items.Pairwise (fun a b => a.name ≠ b.name)
  values : items.Pairwise (fun a b => a.value ≠ b.value)
  int32 : ∀ it ∈ items, -(2 ^ 31) ≤ it.value ∧ it.value ≤ 2 ^ 31 - 1

theorem find?_of_mem_pairwise {α β : Type} {key : α → β} [BEq β] [LawfulBEq β] :
    ∀ {items : List α} {it : α}, items.Pairwise (fun a b => key a ≠ key b) → it ∈ items →
      items.find? (fun x => key x == key it) = some it
  | [], _, _, h => by simp at h
  | a :: r, it, hp, h => by
    rw [List.pairwise_cons] at hp
    rcases List.mem_cons.mp h with rfl | h'
    · simp
    · have hne : key a ≠ key it := hp.1 it h'
      simp only [List.find?_cons]
      have : (key a == key it) = false := by simpa using hne
      rw [this]
      exact find?_of_mem_pairwise hp.2 h'

theorem findEnum_mem {items : List EnumItem} {s : Bytes} {it : EnumItem} (h : findEnum items s = some it) :
    it ∈ items ∧ it.name = s := by
  unfold findEnum at h
  have h1 := List.mem_of_find?_eq_some h
  have h2 := List.find?_some h
  exact ⟨h1, by simpa using h2⟩

theorem storeEnum_accept_iff (items : List EnumItem) (hints : Nat) (s : Bytes) (it : EnumItem)
    (hwf : EnumWF items) (hh : (checkHints hints "enum").isSome = true) :
    storeEnum items hints s = .ok it ↔ it ∈ items ∧ it.name = s := by
  unfold storeEnum
  cases hc : checkHints hints "enum" with
  | none => rw [hc] at hh; cases hh
  | some _ =>
    simp only
    constructor
    · intro h
      split at h
      · rename_i it' hf
        injection h with h; subst h
        exact findEnum_mem hf
      · cases h
    · rintro ⟨hm, hn⟩
      have := find?_of_mem_pairwise (key := EnumItem.name) hwf.names hm
      unfold findEnum
      rw [← hn, this]

theorem unlybEnum_lybEnum (items : List EnumItem) (it : EnumItem) (hwf : EnumWF items) (hm : it ∈ items) :
    unlybEnum items (lybEnum it) = .ok it := by
  unfold unlybEnum lybEnum
  rw [leBytes_length]
  simp only [bne_self_eq_false, Bool.false_eq_true, if_false, ofLe_leBytes]
  obtain ⟨hlo, hhi⟩ := hwf.int32 it hm
  have hw : ((((it.value % 2 ^ 32).toNat % 256 ^ 4 : Nat) : Int) + 2 ^ 31) % 2 ^ 32 - 2 ^ 31 = it.value := by
    simp; omega
  rw [hw, find?_of_mem_pairwise (key := EnumItem.value) hwf.values hm]

end LyModel.Val
