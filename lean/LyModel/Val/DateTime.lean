import LyModel.Base
import LyModel.Val.Model
import LyModel.Generated.ValExt
/-!
# ietf-yang-types:date-and-time (component `Val`, property C03) — model of `src/plugins_types/date_and_time.c`

Executable model of
* `lyplg_type_store_date_and_time` (text formats and LYB), `lyplg_type_compare_date_and_time`,
  `lyplg_type_sort_date_and_time` (+ `lyplg_type_sort_by_fractions`), `lyplg_type_print_date_and_time` (canonical and LYB),
* `ly_time_str2time`, `ly_time_time2str` (`tree_data_common.c`),
* the libc functions they rely on: `atoi` / `strtol` (through `strtoCore` of `Val/Model.lean`), `isdigit`, `timegm`,
  `gmtime_r` / `localtime_r` (proleptic Gregorian calendar, closed-form days-from-civil / civil-from-days arithmetic),
  `printf("%04d")`, `printf("%02d")`,
* the pattern of the typedef (`ietf-yang-types@2013-07-15`), as PCRE2 matches it with `PCRE2_UTF | PCRE2_UCP`: the subject must be
  well-formed UTF-8, `\d` is the Unicode category Nd (Unicode 14.0.0 = PCRE2 10.42).

Order of the checks of a text value (this is what the error kind shows): hints, `strlen(value) > 18`, month, day of month
(1..31 — not the length of the month), hours (only `> 23`), minutes (only `> 59`), seconds (only `> 60`), fraction digits after a
`.`, zone hour (only `> 23`), `:` after the zone hour, zone minutes, and only then the pattern.

The code's quirks are kept:
* fields are read with `atoi` at fixed byte offsets, the pattern counts characters: a 4-byte digit in the year shifts every field;
* `timegm` normalises a day that does not exist (2021-02-29 is stored as 2021-03-01) and the leap second (23:59:60 is 00:00:00 of the
  next minute);
* a zone `-00:mm` is applied as `+00:mm` (the sign is taken from the *value* of the hour), zone hours below -23 pass;
* the canonical form prints the year with `%04d` (5 digits for the year 10000, `-001` for the year before 0000);
* the sort callback returns `(int)difftime(..)`: the conversion is undefined beyond the `int` range (68 years); the model has the
  result of the x86-64 conversion instruction (`INT_MIN`) there.

Signed overflow of C arithmetic (undefined behaviour; `atoi(..) - 1900` for a year below `INT_MIN + 1900`, a zone hour of 2⁶³ / 3600
and more) is *not* modelled: the model computes the mathematical value; these inputs are refused by the later checks on every
platform, they are outside the correspondence (UBSan stops the harness).

Assumption on the environment: the time zone of the process is UTC (`localtime_r = gmtime_r`, `ly_time_tz_offset_at = 0`).
Core Lean only (linked into `lydrv`).
-/
namespace LyModel.Val.DateTime
open LyModel LyModel.Val

/-- error kinds (what `kind_of_msg` of the harness maps the messages to) -/
inductive DErr
  | Hint | Short | Month | Day | Hour | Minute | Second | Fraction | ZoneHour | ZoneMinute | PcreUtf8 | Pattern | LybSize | LybChar
  deriving DecidableEq, Repr

def DErr.name : DErr → String
  | .Hint => "Hint" | .Short => "DtShort" | .Month => "DtMonth" | .Day => "DtDay" | .Hour => "DtHour" | .Minute => "DtMinute"
  | .Second => "DtSecond" | .Fraction => "DtFraction" | .ZoneHour => "DtZoneHour" | .ZoneMinute => "DtZoneMinute"
  | .PcreUtf8 => "PcreUtf8" | .Pattern => "Pattern" | .LybSize => "LybSize" | .LybChar => "DtLybChar"

/-! ## libc: `strtol`, `atoi` -/

/-- `strtol(s, &end, 10)` (64-bit `long`): value clamped to the range of `long`, and `end`; no conversion: `(0, s)` -/
def strtol (s : Bytes) : Int × Bytes :=
  let r := strtoCore 10 s
  if !r.conv then (0, s)
  else if r.neg then ((if r.mag > 2 ^ 63 then -(2 ^ 63 : Int) else -(r.mag : Int)), r.rest)
  else ((if r.mag > 2 ^ 63 - 1 then (2 ^ 63 - 1 : Int) else (r.mag : Int)), r.rest)

/-- `(int)x` of a `long` -/
def toInt32 (n : Int) : Int := (n + 2 ^ 31) % 2 ^ 32 - 2 ^ 31

/-- glibc `atoi(s) = (int)strtol(s, NULL, 10)` -/
def atoi (s : Bytes) : Int := toInt32 (strtol s).1

/-! ## libc: `timegm`, `gmtime_r` (proleptic Gregorian calendar) -/

/-- days from 1970-01-01 to the civil date `y-m-d`, `m` in 1..12; linear in `d` (a day beyond the end of the month runs into the
    next month, as `timegm` normalises it) -/
def daysFromCivil (y m d : Int) : Int :=
  let y := if m ≤ 2 then y - 1 else y
  let era := y / 400
  let yoe := y - era * 400
  let mp := if m > 2 then m - 3 else m + 9
  let doy := (153 * mp + 2) / 5 + d - 1
  let doe := yoe * 365 + yoe / 4 - yoe / 100 + doy
  era * 146097 + doe - 719468

/-- the civil date (year, month 1..12, day 1..31) of a day number -/
def civilFromDays (z : Int) : Int × Int × Int :=
  let z := z + 719468
  let era := z / 146097
  let doe := z - era * 146097
  let yoe := (doe - doe / 1460 + doe / 36524 - doe / 146096) / 365
  let y := yoe + era * 400
  let doy := doe - (365 * yoe + yoe / 4 - yoe / 100)
  let mp := (5 * doy + 2) / 153
  let d := doy - (153 * mp + 2) / 5 + 1
  let m := if mp < 10 then mp + 3 else mp - 9
  (if m ≤ 2 then y + 1 else y, m, d)

/-- broken-down time: full year (`tm_year + 1900`), month 1..12 (`tm_mon + 1`), day, hour, minute, second -/
structure Tm where
  year : Int
  mon : Int
  mday : Int
  hour : Int
  min : Int
  sec : Int
  deriving DecidableEq, Repr

/-- `timegm`: month in 1..12 (the caller has checked it); all other fields are only added up -/
def timegm (tm : Tm) : Int :=
  ((daysFromCivil tm.year tm.mon tm.mday * 24 + tm.hour) * 60 + tm.min) * 60 + tm.sec

/-- `gmtime_r` (also `localtime_r`: the process runs in UTC) -/
def gmtime (t : Int) : Tm :=
  let days := t / 86400
  let rem := t % 86400
  let c := civilFromDays days
  { year := c.1, mon := c.2.1, mday := c.2.2, hour := rem / 3600, min := rem % 3600 / 60, sec := rem % 60 }

/-! ## `ly_time_str2time` -/

/-- the two repairs of the zone part the model is parametrised by (read off the source by `tools/extractors/valx.py`):
    `signChar` — the minutes are negative also when the zone starts with `-` (hours `-00`, F415); `lower` — hours below -23 are refused
    (F416) -/
structure ZoneCfg where
  signChar : Bool
  lower : Bool
  deriving DecidableEq, Repr

/-- the tree the model was generated from -/
def zoneCfg : ZoneCfg := ⟨Generated.dtZoneSignFromChar, Generated.dtZoneHourLowerBound⟩
/-- the pinned tree -/
def zonePinned : ZoneCfg := ⟨false, false⟩
/-- both repairs -/
def zoneRepaired : ZoneCfg := ⟨true, true⟩

/-- the zone part: `Z` / `z`, or `strtol` hours, `:`, `strtol` minutes; result = shift in seconds -/
def zoneShiftWith (c : ZoneCfg) (z : Bytes) : Except DErr Int :=
  if z.head? == some 90 || z.head? == some 122 then .ok 0
  else
    let r := strtol z
    if r.1 > 23 || (c.lower && r.1 < -23) then .error .ZoneHour
    else if r.2.head? != some 58 then .error .ZoneHour
    else
      let shm := (strtol (r.2.drop 1)).1
      if shm < 0 || shm > 59 then .error .ZoneMinute
      else .ok (r.1 * 3600 + (if r.1 < 0 || (c.signChar && z.head? == some 45) then -shm else shm) * 60)

def zoneShift (z : Bytes) : Except DErr Int := zoneShiftWith zoneCfg z

/-- optional fraction at offset 19: `.` and the maximal run of ASCII digits (at least one); result: the digits and what follows -/
def fraction (r : Bytes) : Except DErr (Option Bytes × Bytes) :=
  if r.head? == some 46 then
    let ds := (r.drop 1).takeWhile isDigit
    if ds.isEmpty then .error .Fraction else .ok (some ds, (r.drop 1).dropWhile isDigit)
  else .ok (none, r)

/-- the broken-down time `ly_time_str2time` reads at the fixed offsets 0, 5, 8, 11, 14, 17 -/
def readTm (v : Bytes) : Tm :=
  { year := atoi v, mon := atoi (v.drop 5), mday := atoi (v.drop 8), hour := atoi (v.drop 11), min := atoi (v.drop 14),
    sec := atoi (v.drop 17) }

/-- `ly_time_str2time(value, &time, &fractions_s)` on the C string `v` -/
def str2timeWith (c : ZoneCfg) (v : Bytes) : Except DErr (Int × Option Bytes) :=
  if v.length ≤ 18 then .error .Short
  else
    let tm := readTm v
    if tm.mon - 1 < 0 || tm.mon - 1 > 11 then .error .Month
    else if tm.mday < 1 || tm.mday > 31 then .error .Day
    else if tm.hour > 23 then .error .Hour
    else if tm.min > 59 then .error .Minute
    else if tm.sec > 60 then .error .Second
    else
      match fraction (v.drop 19) with
      | .error e => .error e
      | .ok (fr, z) =>
        match zoneShiftWith c z with
        | .error e => .error e
        | .ok shift => .ok (timegm tm - shift, fr)

def str2time (v : Bytes) : Except DErr (Int × Option Bytes) := str2timeWith zoneCfg v

/-! ## the pattern of the typedef, as PCRE2 (UTF, UCP) matches it -/

/-- continuation byte `10xxxxxx` -/
def isCont (b : UInt8) : Bool := 128 ≤ b.toNat && b.toNat < 192

/-- strict UTF-8 decoding (what PCRE2's `valid_utf` accepts: no overlong forms, no surrogates, nothing above U+10FFFF);
    `none` = PCRE2 reports a "UTF-8 error" -/
def decodeUtf8 : Bytes → Option (List Nat)
  | [] => some []
  | a :: r =>
    if a.toNat < 128 then (decodeUtf8 r).map (a.toNat :: ·)
    else if a.toNat < 0xC2 then none
    else if a.toNat < 0xE0 then
      match r with
      | b :: r1 => if isCont b then (decodeUtf8 r1).map (((a.toNat - 0xC0) * 64 + (b.toNat - 128)) :: ·) else none
      | _ => none
    else if a.toNat < 0xF0 then
      match r with
      | b :: c :: r1 =>
        if isCont b && isCont c && !(a.toNat == 0xE0 && b.toNat < 0xA0) && !(a.toNat == 0xED && b.toNat ≥ 0xA0) then
          (decodeUtf8 r1).map (((a.toNat - 0xE0) * 4096 + (b.toNat - 128) * 64 + (c.toNat - 128)) :: ·)
        else none
      | _ => none
    else if a.toNat < 0xF5 then
      match r with
      | b :: c :: d :: r1 =>
        if isCont b && isCont c && isCont d && !(a.toNat == 0xF0 && b.toNat < 0x90) && !(a.toNat == 0xF4 && b.toNat ≥ 0x90) then
          (decodeUtf8 r1).map (((a.toNat - 0xF0) * 262144 + (b.toNat - 128) * 4096 + (c.toNat - 128) * 64 + (d.toNat - 128)) :: ·)
        else none
      | _ => none
    else none

/-- Unicode 14.0.0 general category Nd: first code point and size of every run -/
def ndRuns : List (Nat × Nat) := [
  (0x30, 10), (0x660, 10), (0x6f0, 10), (0x7c0, 10), (0x966, 10), (0x9e6, 10), (0xa66, 10), (0xae6, 10), (0xb66, 10), (0xbe6, 10),
  (0xc66, 10), (0xce6, 10), (0xd66, 10), (0xde6, 10), (0xe50, 10), (0xed0, 10), (0xf20, 10), (0x1040, 10), (0x1090, 10),
  (0x17e0, 10), (0x1810, 10), (0x1946, 10), (0x19d0, 10), (0x1a80, 10), (0x1a90, 10), (0x1b50, 10), (0x1bb0, 10), (0x1c40, 10),
  (0x1c50, 10), (0xa620, 10), (0xa8d0, 10), (0xa900, 10), (0xa9d0, 10), (0xa9f0, 10), (0xaa50, 10), (0xabf0, 10), (0xff10, 10),
  (0x104a0, 10), (0x10d30, 10), (0x11066, 10), (0x110f0, 10), (0x11136, 10), (0x111d0, 10), (0x112f0, 10), (0x11450, 10),
  (0x114d0, 10), (0x11650, 10), (0x116c0, 10), (0x11730, 10), (0x118e0, 10), (0x11950, 10), (0x11c50, 10), (0x11d50, 10),
  (0x11da0, 10), (0x16a60, 10), (0x16ac0, 10), (0x16b50, 10), (0x1d7ce, 50), (0x1e140, 10), (0x1e2f0, 10), (0x1e950, 10),
  (0x1fbf0, 10)]

/-- `\d` under `PCRE2_UCP` -/
def isNd (c : Nat) : Bool := ndRuns.any fun r => r.1 ≤ c && c < r.1 + r.2

/-- `(Z|[\+\-]\d{2}:\d{2})` and the end of the subject -/
def matchZone : List Nat → Bool
  | [0x5A] => true
  | [sg, a, b, 0x3A, c, d] => (sg == 0x2B || sg == 0x2D) && isNd a && isNd b && isNd c && isNd d
  | _ => false

/-- `(\.\d+)?(Z|[\+\-]\d{2}:\d{2})`: no backtracking is possible, a zone starts with neither `.` nor a digit -/
def matchTail : List Nat → Bool
  | 0x2E :: r => !(r.takeWhile isNd).isEmpty && matchZone (r.dropWhile isNd)
  | r => matchZone r

/-- `\d{4}-\d{2}-\d{2}T\d{2}:\d{2}:\d{2}(\.\d+)?(Z|[\+\-]\d{2}:\d{2})`, anchored at both ends, over code points -/
def matchPattern : List Nat → Bool
  | y1 :: y2 :: y3 :: y4 :: 0x2D :: m1 :: m2 :: 0x2D :: d1 :: d2 :: 0x54 :: h1 :: h2 :: 0x3A :: n1 :: n2 :: 0x3A :: s1 :: s2 :: r =>
    isNd y1 && isNd y2 && isNd y3 && isNd y4 && isNd m1 && isNd m2 && isNd d1 && isNd d2 && isNd h1 && isNd h2 && isNd n1 &&
      isNd n2 && isNd s1 && isNd s2 && matchTail r
  | _ => false

/-- `lyplg_type_validate_patterns` for the one pattern of the typedef -/
def checkPattern (s : Bytes) : Except DErr Unit :=
  match decodeUtf8 s with
  | none => .error .PcreUtf8
  | some cps => if matchPattern cps then .ok () else .error .Pattern

/-! ## the value and the callbacks -/

/-- `struct lyd_value_date_and_time` -/
structure DtVal where
  time : Int                 -- `time_t`
  frac : Option Bytes        -- `fractions_s` (`none` = NULL)
  unknownTz : Bool
  deriving DecidableEq, Repr

/-- the last 6 bytes are `-00:00` -/
def endsUnknownTz (s : Bytes) : Bool := s.drop (s.length - 6) == [45, 48, 48, 58, 48, 48]

/-- `lyplg_type_store_date_and_time`, text formats (`options` without `LYPLG_TYPE_STORE_ONLY`) -/
def storeWith (c : ZoneCfg) (hints : Nat) (s : Bytes) : Except DErr DtVal :=
  match checkHints hints "string" with
  | none => .error .Hint
  | some _ =>
    match str2timeWith c (cstr s) with
    | .error e => .error e
    | .ok (t, fr) =>
      match checkPattern s with
      | .error e => .error e
      | .ok () => .ok { time := t, frac := fr, unknownTz := endsUnknownTz s }

/-- the tree the model was generated from -/
def store (hints : Nat) (s : Bytes) : Except DErr DtVal := storeWith zoneCfg hints s

/-- `lyplg_type_store_date_and_time`, `LY_VALUE_LYB`: 8 bytes `time_t` (little endian, signed), optional flag byte, optional digits -/
def unlyb (b : Bytes) : Except DErr DtVal :=
  if b.length < 8 then .error .LybSize
  else if !(b.drop 9).all isDigit then .error .LybChar
  else
    let u := ofLe (b.take 8)
    .ok { time := if u < 2 ^ 63 then (u : Int) else (u : Int) - 2 ^ 64,
          frac := if b.length > 9 then some (b.drop 9) else none,
          unknownTz := b.length > 8 && b.getD 8 0 != 0 }

/-- `lyplg_type_print_date_and_time`, `LY_VALUE_LYB` -/
def lyb (v : DtVal) : Bytes :=
  let t := leBytes 8 (v.time % 2 ^ 64).toNat
  if v.unknownTz || v.frac.isSome then t ++ [if v.unknownTz then 1 else 0] ++ v.frac.getD [] else t

/-- `lyplg_type_compare_date_and_time`: `true` = `LY_SUCCESS` -/
def cmpEq (a b : DtVal) : Bool :=
  a.time == b.time && a.unknownTz == b.unknownTz &&
    (match a.frac, b.frac with
     | none, none => true
     | some f, some g => strcmp f g == 0
     | _, _ => false)

/-- `lyplg_type_fractions_is_zero` -/
def fracIsZero : Option Bytes → Bool
  | none => true
  | some f => f.all (· == 48)

/-- `lyplg_type_sort_by_fractions` -/
def sortFrac (f g : Option Bytes) : Int :=
  if fracIsZero f && !fracIsZero g then -1
  else if !fracIsZero f && fracIsZero g then 1
  else if fracIsZero f && fracIsZero g then 0
  else
    let df := strcmp (f.getD []) (g.getD [])
    if df > 0 then 1 else if df < 0 then -1 else 0

/-- `lyplg_type_sort_date_and_time`.  Pinned tree (`clamped = false`): `return dt;` converts the `double` difference to `int` — defined
    for a difference inside the `int` range (about 68 years), `INT_MIN` (x86-64 `cvttsd2si`) beyond it.  Repaired (F413): the sign of
    the difference. -/
def sortWith (clamped : Bool) (a b : DtVal) : Int :=
  let dt := a.time - b.time
  if dt != 0 then
    (if clamped then (if dt < 0 then -1 else 1) else if -(2 ^ 31) ≤ dt && dt < 2 ^ 31 then dt else -(2 ^ 31))
  else sortFrac a.frac b.frac

/-- the tree the model was generated from -/
def sort (a b : DtVal) : Int := sortWith Generated.dtSortClamped a b

/-- `%0<w>d` of a non-negative number -/
def padNat (w : Nat) (n : Nat) : Bytes := zeros (w - (natDec n).length) ++ natDec n

/-- `printf("%04d")` / `printf("%02d")`: the sign counts for the width -/
def padInt (w : Nat) (v : Int) : Bytes := if v < 0 then 45 :: padNat (w - 1) v.natAbs else padNat w v.natAbs

/-- `%04d-%02d-%02dT%02d:%02d:%02d` -/
def printTm (tm : Tm) : Bytes :=
  padInt 4 tm.year ++ [45] ++ padInt 2 tm.mon ++ [45] ++ padInt 2 tm.mday ++ [84] ++ padInt 2 tm.hour ++ [58] ++ padInt 2 tm.min ++
    [58] ++ padInt 2 tm.sec

/-- `gmtime_r` / `localtime_r` fail (`EOVERFLOW`) when `tm_year` does not fit an `int` -/
def tmYearFits (year : Int) : Bool := -(2 ^ 31) ≤ year - 1900 && year - 1900 < 2 ^ 31

/-- `lyplg_type_print_date_and_time`, canonical: broken-down UTC time, `.` + fraction digits as stored, zone `-00:00` for the unknown
    zone, else the zone of the process (`+00:00`); the empty string when libc cannot break the time down (the print callback returns
    NULL, the harness prints nothing) -/
def canon (v : DtVal) : Bytes :=
  let tm := gmtime v.time
  if !tmYearFits tm.year then []
  else
    printTm { tm with year := toInt32 tm.year } ++ (match v.frac with | some f => 46 :: f | none => []) ++
      (if v.unknownTz then [45, 48, 48, 58, 48, 48] else [43, 48, 48, 58, 48, 48])

end LyModel.Val.DateTime
