import LyModel.Base
import LyModel.Val.Model
/-!
# ietf-yang-types:date-and-time (component `Val`, property C03) — model of `src/plugins_types/date_and_time.c`

(stub — filled by the date-and-time work item)
-/
namespace LyModel.Val.DateTime
open LyModel

end LyModel.Val.DateTime
