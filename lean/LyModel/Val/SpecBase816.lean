import LyModel.Val.SpecBase0
/-!
# Specification side of C03, integers read with base 8 only or base 16 only

A hint set whose only number bit is `LYD_VALHINT_OCTNUM` makes the integer parsers call `strtoll(…, 8)` / `strtoull(…, 8)`,
one whose only number bit is `LYD_VALHINT_HEXNUM` calls them with base 16.  The lexical spaces below are written from
ISO C 7.22.1.4 (the `strtol` family), not from the model's scanner:

* the subject sequence is "a sequence of letters and digits representing an integer with the radix specified by base,
  optionally preceded by a plus or minus sign"; only letters and digits whose value is below the base are permitted;
* "if the value of base is 16, the characters `0x` or `0X` may optionally precede the sequence of letters and digits,
  following the sign if present";
* base 8 has no prefix of its own: a leading `0` is just an octal digit (`017` and `17` both denote 15).

The subject sequence is the *longest* initial part of the expected form, so in `0x` followed by no hexadecimal digit only
the `0` is converted and the `x` is left over; libyang (`ly_parse_int` / `ly_parse_uint`) refuses everything but white
space after the number, hence `0x`, `0xg`, `0x 1` are not lexical values, and none of these forms is described by the
grammar below either.  libyang tolerates white space before (skipped by `strtoll` itself) and after the number.
The denotation is positional (`valOf`, as in `IntLex` / `IntLex0`).

The last section is the specification of the choice of the base (`type_get_hints_base` in `plugins_types.c`).
-/
namespace LyModel.Val
open LyModel

/-! ## base 8 -/

/-- one or more octal digits and the number `n` they denote -/
def NatLex8 (body : Bytes) (n : Nat) : Prop :=
  body ≠ [] ∧ body.all isOctDigit = true ∧ n = valOf 8 body

/-- optional sign followed by octal digits; `v` is the denotation -/
def IntLex8 (core : Bytes) (v : Int) : Prop :=
  ∃ sg body n, core = sg ++ body ∧ IsSign sg ∧ NatLex8 body n ∧ v = applySign sg n

/-- … with surrounding white space ignored (as `IntLexWs` for base 10, `IntLexWs0` for base 0) -/
def IntLexWs8 (s : Bytes) (v : Int) : Prop :=
  ∃ l core r, s = l ++ core ++ r ∧ l.all isSpace = true ∧ r.all isSpace = true ∧ IntLex8 core v

/-! ## base 16 -/

/-- an optional `0x` / `0X` and one or more hexadecimal digits, and the number `n` they denote -/
def NatLex16 (body : Bytes) (n : Nat) : Prop :=
  -- with the prefix: at least one hexadecimal digit has to follow it
  (∃ x ds, body = 48 :: x :: ds ∧ (x = 120 ∨ x = 88) ∧ ds ≠ [] ∧ ds.all isHexDigit = true ∧ n = valOf 16 ds) ∨
  -- without: hexadecimal digits only (`x` is none, so the two forms exclude each other)
  (body ≠ [] ∧ body.all isHexDigit = true ∧ n = valOf 16 body)

/-- optional sign followed by a hexadecimal number with or without prefix; `v` is the denotation -/
def IntLex16 (core : Bytes) (v : Int) : Prop :=
  ∃ sg body n, core = sg ++ body ∧ IsSign sg ∧ NatLex16 body n ∧ v = applySign sg n

/-- … with surrounding white space ignored -/
def IntLexWs16 (s : Bytes) (v : Int) : Prop :=
  ∃ l core r, s = l ++ core ++ r ∧ l.all isSpace = true ∧ r.all isSpace = true ∧ IntLex16 core v

/-! ## which base a hint set selects

`plugins_types.c`:

    type_get_hints_base(hints):
        switch (hints & (LYD_VALHINT_DECNUM | LYD_VALHINT_OCTNUM | LYD_VALHINT_HEXNUM)) {
        case LYD_VALHINT_DECNUM: return LY_BASE_DEC;   case LYD_VALHINT_OCTNUM: return LY_BASE_OCT;
        case LYD_VALHINT_HEXNUM: return LY_BASE_HEX;   default: return 0;   /* generic base */

    lyplg_type_check_hints: (u)int8/16/32 need one of the three number bits, (u)int64 need LYD_VALHINT_NUM64.

With no number bit at all (possible for the 64-bit types only: a JSON string carrying a 64-bit integer) the pinned tree
falls into `default` (base 0, finding F63) and the repaired tree has a `case 0: return LY_BASE_DEC`; that single entry is the
parameter `b0` below. -/

/-- is the hint bit `bit` (a power of two: one of the `LYD_VALHINT_*` constants) set in `hints` -/
def hintBit (hints bit : Nat) : Bool := hints / bit % 2 == 1

/-- `lyplg_type_check_hints` for an integer type: does the hint set allow the type at all -/
def intHintsAllowed (hints : Nat) (t : IntTy) : Bool :=
  if t.bits == 64 then hintBit hints Generated.LYD_VALHINT_NUM64
  else hintBit hints Generated.LYD_VALHINT_DECNUM || hintBit hints Generated.LYD_VALHINT_OCTNUM || hintBit hints Generated.LYD_VALHINT_HEXNUM

/-- `type_get_hints_base`: exactly one number bit selects that base, two or three select the generic base 0; `b0` is the
    base of the set without any number bit -/
def baseOfHints (b0 : Nat) (hints : Nat) : Nat :=
  match hintBit hints Generated.LYD_VALHINT_DECNUM, hintBit hints Generated.LYD_VALHINT_OCTNUM, hintBit hints Generated.LYD_VALHINT_HEXNUM with
  | true, false, false => Generated.LY_BASE_DEC
  | false, true, false => Generated.LY_BASE_OCT
  | false, false, true => Generated.LY_BASE_HEX
  | false, false, false => b0
  | _, _, _ => 0

end LyModel.Val
