import LyModel.Val.Model
/-! driver ops of component `val` (same request lines as `harness/api_types.c`) -/
namespace LyModel.Val.Drv
open LyModel LyModel.Val

def parseParts (spec : String) : Option (List (Int × Int)) :=
  (spec.splitOn ",").mapM fun p =>
    match p.splitOn ".." with
    | [a, b] => do
      let x ← a.toInt?
      let y ← b.toInt?
      pure (x, y)
    | _ => none

def intTyOf : String → Option IntTy
  | "i8" => some .int8 | "i16" => some .int16 | "i32" => some .int32 | "i64" => some .int64
  | "u8" => some .uint8 | "u16" => some .uint16 | "u32" => some .uint32 | "u64" => some .uint64
  | _ => none

def parseItems (spec : String) : Option (List (Bytes × Int)) :=
  (spec.splitOn ",").mapM fun p =>
    match p.splitOn "=" with
    | [h, v] => do
      let n ← Hex.dec h
      let x ← v.toInt?
      pure (n, x)
    | _ => none

/-- type descriptor token (see harness/api_types.c) -/
def parseTy (d : String) : Option Ty :=
  let (head, spec) := match d.splitOn ":" with
    | [h] => (h, none)
    | [h, s] => (h, some s)
    | _ => ("", none)
  let parts : Option (List (Int × Int)) := match spec with
    | none => some []
    | some s => parseParts s
  match intTyOf head with
  | some t => parts.map (Ty.int t)
  | none =>
    if head == "bool" then some .bool
    else if head == "str" then parts.map Ty.str
    else if head == "enum" then (spec.bind parseItems).map fun l => .enum (l.map fun (n, v) => ⟨n, v⟩)
    else if head == "bits" then (spec.bind parseItems).map fun l => .bits (l.map fun (n, v) => ⟨n, v.toNat⟩)
    else if head.startsWith "d" then
      match (head.drop 1).toString.toNat? with
      | some fd => parts.map (Ty.dec64 fd)
      | none => none
    else none

def sgn (i : Int) : String := if i < 0 then "-1" else if i > 0 then "1" else "0"

def handleBase (op : String) (args : List String) : String :=
  match op, args with
  | "store", [d, h, x] =>
    match parseTy d, h.toNat?, Hex.dec x with
    | some ty, some hints, some s =>
      match store ty hints s with
      | .ok v => "ok " ++ Hex.enc (canon ty v) ++ " " ++ Hex.enc (lyb ty v)
      | .error e => "err " ++ e.name
    | _, _, _ => "err BadArg"
  | "validate", [d, x] =>
    match parseTy d, Hex.dec x with
    | some ty, some s =>
      match store ty Generated.LYD_HINT_DATA s with
      | .ok v => "ok " ++ Hex.enc (canon ty v)
      | .error e => "err " ++ e.name
    | _, _ => "err BadArg"
  | "cmp", [d, x1, x2] =>
    match parseTy d, Hex.dec x1, Hex.dec x2 with
    | some ty, some s1, some s2 =>
      match store ty Generated.LYD_HINT_DATA s1, store ty Generated.LYD_HINT_DATA s2 with
      | .error _, _ => "err Reject1"
      | .ok _, .error _ => "err Reject2"
      | .ok a, .ok b =>
        let so := sort ty a b
        -- a system-ordered leaf-list keeps sort-equal values in insertion order
        "ok " ++ (if cmpEq ty a b then "1" else "0") ++ " " ++ sgn so ++ " " ++
          (if canon ty a == canon ty b then "1" else "0") ++ " " ++ (if so ≤ 0 then "a" else "b") ++ " " ++ (if so < 0 then "a" else "b")
    | _, _, _ => "err BadArg"
  | "lybrt", [d, x] =>
    match parseTy d, Hex.dec x with
    | some ty, some s =>
      match store ty Generated.LYD_HINT_DATA s with
      | .error e => "err " ++ e.name
      | .ok v =>
        match unlyb ty (lyb ty v) with
        | .error e => "err Unlyb" ++ e.name
        | .ok w => "ok " ++ Hex.enc (lyb ty v) ++ " " ++ Hex.enc (canon ty w) ++ " " ++ (if cmpEq ty v w then "1" else "0") ++ " 1 1"
    | _, _ => "err BadArg"
  | "unlyb", [d, x] =>
    match parseTy d, Hex.dec x with
    | some ty, some b =>
      match unlyb ty b with
      | .ok v => "ok " ++ Hex.enc (canon ty v)
      | .error e => "err " ++ e.name
    | _, _ => "err BadArg"
  | _, _ => "err BadOp"

end LyModel.Val.Drv
