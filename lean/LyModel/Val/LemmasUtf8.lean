import LyModel.Text.Utf8
import LyModel.Val.Model
/-! The two UTF-8 validators (`ly_checkutf8` used by the string store, `ly_getutf8` used by the XML/JSON/YANG lexers)
    on 1-, 2- and 3-byte sequences. -/
set_option linter.unusedSimpArgs false
namespace LyModel.Val
open LyModel LyModel.Utf8

set_option maxRecDepth 100000 in
theorem byteFactsFin : ∀ n : Fin 256,
    ((UInt8.ofNat n.val &&& 0x80 == 0) = decide (n.val < 128)) ∧
    ((UInt8.ofNat n.val &&& 0xE0 == 0xC0) = decide (192 ≤ n.val ∧ n.val < 224)) ∧
    ((UInt8.ofNat n.val &&& 0xF0 == 0xE0) = decide (224 ≤ n.val ∧ n.val < 240)) ∧
    ((UInt8.ofNat n.val &&& 0xF8 == 0xF0) = decide (240 ≤ n.val ∧ n.val < 248)) ∧
    (isCont (UInt8.ofNat n.val) = decide (128 ≤ n.val ∧ n.val < 192)) ∧
    ((UInt8.ofNat n.val &&& 0xC0 == 0x80) = decide (128 ≤ n.val ∧ n.val < 192)) ∧
    ((UInt8.ofNat n.val &&& 0x1F).toNat = n.val % 32) ∧ ((UInt8.ofNat n.val &&& 0x0F).toNat = n.val % 16) ∧
    ((UInt8.ofNat n.val &&& 0x3F).toNat = n.val % 64) := by decide

theorem byteFacts (b : UInt8) :
    ((b &&& 0x80 == 0) = decide (b.toNat < 128)) ∧
    ((b &&& 0xE0 == 0xC0) = decide (192 ≤ b.toNat ∧ b.toNat < 224)) ∧
    ((b &&& 0xF0 == 0xE0) = decide (224 ≤ b.toNat ∧ b.toNat < 240)) ∧
    ((b &&& 0xF8 == 0xF0) = decide (240 ≤ b.toNat ∧ b.toNat < 248)) ∧
    (isCont b = decide (128 ≤ b.toNat ∧ b.toNat < 192)) ∧
    ((b &&& 0xC0 == 0x80) = decide (128 ≤ b.toNat ∧ b.toNat < 192)) ∧
    ((b &&& 0x1F).toNat = b.toNat % 32) ∧ ((b &&& 0x0F).toNat = b.toNat % 16) ∧
    ((b &&& 0x3F).toNat = b.toNat % 64) := by
  have := byteFactsFin ⟨b.toNat, UInt8.toNat_lt b⟩
  simp only [UInt8.ofNat_toNat] at this
  exact this

theorem rd_tail (inp : Bytes) (i : Nat) : rd inp.tail i = rd inp (i + 1) := by
  cases inp <;> simp [rd]

theorem lt_lit (b : UInt8) (k : Nat) (hk : k < 256) : (b < UInt8.ofNat k) ↔ b.toNat < k := by
  rw [UInt8.lt_iff_toNat_lt]; simp [UInt8.toNat_ofNat']; omega

theorem shl_or (a b : Nat) (hb : b < 64) : (a <<< 6) ||| b = a * 64 + b := by
  rw [← Nat.shiftLeft_add_eq_or_of_lt (i := 6) (by omega) a, Nat.shiftLeft_eq]

theorem ult (a b : UInt8) : (a < b) ↔ a.toNat < b.toNat := UInt8.lt_iff_toNat_lt
theorem ugt (a b : UInt8) : (a > b) ↔ a.toNat > b.toNat := UInt8.lt_iff_toNat_lt

theorem opt_eq2 {cond : Bool} {Q R : Prop} [Decidable Q] [Decidable R] (n c : Nat) (h : cond = true ↔ (Q ∨ R)) :
    (if cond = true then none else some n) =
      Option.map (fun x : Nat × Nat => x.snd) (if Q then none else if R then none else some (c, n)) := by
  by_cases hq : Q
  · simp [hq, h.mpr (Or.inl hq)]
  · by_cases hr : R
    · simp [hq, hr, h.mpr (Or.inr hr)]
    · have : ¬ cond = true := fun hc => by rcases h.mp hc with h | h <;> contradiction
      simp [hq, hr, this]

theorem opt_eq3 {c1 c2 : Bool} {Q R S : Prop} [Decidable Q] [Decidable R] [Decidable S] (n c : Nat)
    (h : (c1 = true ∨ c2 = true) ↔ (Q ∨ R ∨ S)) :
    (if c1 = true then none else if c2 = true then none else some n) =
      Option.map (fun x : Nat × Nat => x.snd) (if Q then none else if R then none else if S then none else some (c, n)) := by
  by_cases hall : Q ∨ R ∨ S
  · have hl := h.mpr hall
    have hlhs : (if c1 = true then none else if c2 = true then none else some n) = (none : Option Nat) := by
      rcases hl with h1 | h2
      · simp [h1]
      · by_cases h1 : c1 = true <;> simp [h1, h2]
    rw [hlhs]
    rcases hall with hq | hr | hs
    · simp [hq]
    · by_cases hq : Q <;> simp [hq, hr]
    · by_cases hq : Q <;> by_cases hr : R <;> simp [hq, hr, hs]
  · have hq : ¬ Q := fun x => hall (Or.inl x)
    have hr : ¬ R := fun x => hall (Or.inr (Or.inl x))
    have hs : ¬ S := fun x => hall (Or.inr (Or.inr x))
    have h1 : ¬ c1 = true := fun x => hall (h.mp (Or.inl x))
    have h2 : ¬ c2 = true := fun x => hall (h.mp (Or.inr x))
    simp [hq, hr, hs, h1, h2]

/-- The two validators agree — verdict and length — on every sequence whose lead byte is below `0xF0` (1-, 2- and 3-byte
    forms, stray continuation bytes), except on `EF BF BE` / `EF BF BF` (U+FFFE, U+FFFF).  `inLen` is the `in_len` handed to
    `ly_checkutf8`; bytes at and beyond it read as NUL (a C string). -/
theorem validators_agree_upto3 (inp : Bytes) (inLen : Nat) (hz : ∀ i, inLen ≤ i → rd inp i = 0) (hne : 0 < inLen)
    (hlead : (rd inp 0).toNat < 240)
    (hnc : ¬ ((rd inp 0).toNat = 0xEF ∧ (rd inp 1).toNat = 0xBF ∧ 0xBE ≤ (rd inp 2).toNat)) :
    checkUtf8 inp inLen = (getUtf8 inp).map (fun x => x.snd) := by
  unfold checkUtf8 getUtf8
  simp only [lessThan, greaterThan, andEqual, rd_tail, Nat.zero_add]
  obtain ⟨f1, f2, f3, f4, f5, f6, f7, f8, f9⟩ := byteFacts (rd inp 0)
  obtain ⟨g1, g2, g3, g4, g5, g6, g7, g8, g9⟩ := byteFacts (rd inp 1)
  obtain ⟨k1, k2, k3, k4, k5, k6, k7, k8, k9⟩ := byteFacts (rd inp 2)
  have hb0l := UInt8.toNat_lt (rd inp 0)
  have hb1l := UInt8.toNat_lt (rd inp 1)
  have hb2l := UInt8.toNat_lt (rd inp 2)
  have hz1 : inLen ≤ 1 → (rd inp 1).toNat = 0 := fun h => by rw [hz 1 h]; rfl
  have hz2 : inLen ≤ 2 → (rd inp 2).toNat = 0 := fun h => by rw [hz 2 h]; rfl
  have e4 : decide (240 ≤ (rd inp 0).toNat ∧ (rd inp 0).toNat < 248) = false := by simp; omega
  have hne9 : ∀ k : Nat, k < 256 → ((rd inp 0 != UInt8.ofNat k) = decide ((rd inp 0).toNat ≠ k)) := by
    intro k hk
    rw [Bool.eq_iff_iff]; simp only [bne_iff_ne, ne_eq, decide_eq_true_eq]
    rw [← UInt8.toNat_inj]; simp [UInt8.toNat_ofNat']; omega
  have n9 := hne9 9 (by decide); have n10 := hne9 10 (by decide); have n13 := hne9 13 (by decide)
  simp only [UInt8.ofNat] at n9 n10 n13
  simp only [f1, f2, f3, f4, g5, g6, k5, k6, e4, ult, ugt, f7, f8, g9, k9, shl_or _ _ (Nat.mod_lt _ (by decide : 64 > 0)),
    Bool.false_eq_true, if_false, Bool.true_and, Bool.and_true, Bool.false_and]
  have tt : ∀ k : Nat, k < 256 → UInt8.toNat (UInt8.ofNat k) = k := by intro k hk; simp [UInt8.toNat_ofNat']; omega
  have t32 : UInt8.toNat 32 = 32 := rfl
  have t194 : UInt8.toNat 194 = 194 := rfl
  have t128 : UInt8.toNat 128 = 128 := rfl
  have t223 : UInt8.toNat 223 = 223 := rfl
  have t191 : UInt8.toNat 191 = 191 := rfl
  have t237 : UInt8.toNat 237 = 237 := rfl
  have t160 : UInt8.toNat 160 = 160 := rfl
  have t224 : UInt8.toNat 224 = 224 := rfl
  have t239 : UInt8.toNat 239 = 239 := rfl
  simp only [t32, t194, t128, t223, t191, t237, t160, t224, t239]
  by_cases c1 : (rd inp 0).toNat < 128
  · -- one byte
    have e1 : decide ((rd inp 0).toNat < 128) = true := by simpa using c1
    simp only [e1, if_true]
    have hx9 : (rd inp 0 != 9) = decide ((rd inp 0).toNat ≠ 9) := n9
    have hx10 : (rd inp 0 != 10) = decide ((rd inp 0).toNat ≠ 10) := n10
    have hx13 : (rd inp 0 != 13) = decide ((rd inp 0).toNat ≠ 13) := n13
    rw [hx9, hx10, hx13]
    clear f1 f2 f3 f4 f5 f6 f7 f8 f9 g1 g2 g3 g4 g5 g6 g7 g8 g9 k1 k2 k3 k4 k5 k6 k7 k8 k9 n9 n10 n13 hne9 hx9 hx10 hx13
    generalize (rd inp 0).toNat = a at *
    by_cases hlow : a < 32
    · simp only [hlow, if_true, Bool.true_and, Bool.and_eq_true, decide_eq_true_eq]
      by_cases hp : (a ≠ 9 ∧ a ≠ 10) ∧ a ≠ 13 <;> simp [hp]
    · simp [hlow]
  · have e1 : decide ((rd inp 0).toNat < 128) = false := by simpa using c1
    simp only [e1, Bool.false_eq_true, if_false]
    by_cases c2 : (rd inp 0).toNat < 192
    · -- stray continuation byte
      have e2 : decide (192 ≤ (rd inp 0).toNat ∧ (rd inp 0).toNat < 224) = false := by simp; omega
      have e3 : decide (224 ≤ (rd inp 0).toNat ∧ (rd inp 0).toNat < 240) = false := by simp; omega
      simp [e2, e3]
    · by_cases c3 : (rd inp 0).toNat < 224
      · -- two bytes
        have e2 : decide (192 ≤ (rd inp 0).toNat ∧ (rd inp 0).toNat < 224) = true := by simp; omega
        have e3 : decide (224 ≤ (rd inp 0).toNat ∧ (rd inp 0).toNat < 240) = false := by simp; omega
        simp only [e2, e3, Bool.true_and, Bool.false_and, Bool.false_eq_true, if_false, if_true]
        generalize (rd inp 0).toNat = a at *
        generalize (rd inp 1).toNat = b at *
        by_cases hl : inLen > 1
        · simp only [hl, decide_true, if_true]
          apply opt_eq2
          simp
          omega
        · simp only [hl, decide_false, Bool.false_eq_true, if_false]
          have hb : b = 0 := hz1 (by omega)
          subst hb
          simp
      · -- three bytes
        have e2 : decide (192 ≤ (rd inp 0).toNat ∧ (rd inp 0).toNat < 224) = false := by simp; omega
        have e3 : decide (224 ≤ (rd inp 0).toNat ∧ (rd inp 0).toNat < 240) = true := by simp; omega
        simp only [e2, e3, Bool.true_and, Bool.false_and, Bool.false_eq_true, if_false, if_true]
        generalize (rd inp 0).toNat = a at *
        generalize (rd inp 1).toNat = b at *
        generalize (rd inp 2).toNat = c at *
        by_cases hl : inLen > 2
        · simp only [hl, decide_true, if_true]
          apply opt_eq3
          simp
          omega
        · simp only [hl, decide_false, Bool.false_eq_true, if_false]
          have hc : c = 0 := hz2 (by omega)
          subst hc
          simp

end LyModel.Val
