import LyModel.Val.LemmasGeneric
import LyModel.Val.Union
import LyModel.Val.LemmasIdent
/-! Lemmas about the union model (`Val/Union.lean`): the member laws every member type satisfies, `findType`, compare / sort / LYB. -/
namespace LyModel.Val
open LyModel

/-- a compiled member type -/
def MTy.WF : MTy → Prop
  | .base t => t.WF
  | .pstr _ => True

/-- a value some lexical string is stored as by the member plug-in -/
def MStored (m : Plug) (v : Value) : Prop := ∃ hints s, m.store hints s = .ok v

/-- a union value whose member index names a member and whose value is one that member stores (text-stored and LYB-loaded values) -/
def UValid (ms : List Plug) (u : UVal) : Prop := ∃ m, ms[u.idx]? = some m ∧ MStored m u.val

/-- a value some lexical string is stored as by the union -/
def UStored (ms : List Plug) (u : UVal) : Prop := ∃ hints s, storeU ms hints s = .ok u

theorem data_hints_string : (checkHints Generated.LYD_HINT_DATA "string").isSome = true := by decide

/-! ### strings with patterns -/

theorem storePStr_ok {t : PStrTy} {hints : Nat} {s x : Bytes} (h : storePStr t hints s = .ok x) :
    x = s ∧ ∀ hints', (checkHints hints' "string").isSome = true → storePStr t hints' s = .ok s := by
  unfold storePStr at h
  cases hs : storeStr t.length hints s with
  | error e => rw [hs] at h; cases h
  | ok y =>
    rw [hs] at h
    obtain ⟨_, hall⟩ := storeStr_ok hs
    simp only at h
    cases hd : XsdRe.decodeUtf8 s with
    | none => rw [hd] at h; cases h
    | some cs =>
      rw [hd] at h
      simp only at h
      by_cases hv : XsdRe.Regex.validatePatterns t.pats cs = true
      · rw [if_pos hv] at h
        injection h with h
        refine ⟨h.symm, ?_⟩
        intro hints' hh
        unfold storePStr
        rw [hall hints' hh]
        simp only [hd, hv, if_true]
      · rw [if_neg hv] at h; cases h

theorem mstored_base {t : Ty} {v : Value} (h : MStored (MTy.base t).plug v) : Stored t v := by
  obtain ⟨hints, s, h⟩ := h
  refine ⟨hints, s, ?_⟩
  simp only [MTy.plug, MTy.store] at h
  cases hs : Val.store t hints s with
  | ok x => rw [hs] at h; injection h with h; rw [h]
  | error e => rw [hs] at h; cases h

theorem mstored_pstr {t : PStrTy} {v : Value} (h : MStored (MTy.pstr t).plug v) :
    ∃ s, v = .str s ∧ ∀ hints', (checkHints hints' "string").isSome = true → storePStr t hints' s = .ok s := by
  obtain ⟨hints, s, h⟩ := h
  simp only [MTy.plug, MTy.store] at h
  cases hs : storePStr t hints s with
  | error e => rw [hs] at h; cases h
  | ok x =>
    rw [hs] at h
    obtain ⟨hx, hall⟩ := storePStr_ok hs
    injection h with h
    exact ⟨s, by rw [← h, hx], hall⟩

/-! ### the laws of a member type -/

structure MLaws (m : Plug) : Prop where
  canon_idem : ∀ v, MStored m v → m.store Generated.LYD_HINT_DATA (m.canon v) = .ok v
  eq_iff_canon : ∀ a b, MStored m a → MStored m b → (m.cmpEq a b = true ↔ m.canon a = m.canon b)
  sort_zero : ∀ a b, MStored m a → MStored m b → (m.sort a b = 0 ↔ m.cmpEq a b = true)
  sort_antisymm : ∀ a b, MStored m a → MStored m b → m.sort a b = -m.sort b a
  sort_trans : ∀ a b c, MStored m a → MStored m b → MStored m c → m.sort a b ≤ 0 → m.sort b c ≤ 0 → m.sort a c ≤ 0
  lyb_rt : ∀ v, MStored m v → m.unlyb (m.lyb v) = .ok v

theorem mlaws (m : MTy) (hwf : m.WF) : MLaws m.plug := by
  cases m with
  | base t =>
    have hwf' : t.WF := hwf
    refine ⟨?_, ?_, ?_, ?_, ?_, ?_⟩
    · intro v h
      simp only [MTy.plug, MTy.store, MTy.canon, store_canon hwf' (mstored_base h)]
    · intro a b ha hb
      exact cmpEq_iff_canon_eq hwf' (mstored_base ha) (mstored_base hb)
    · intro a b ha hb
      exact (sort_props hwf' (mstored_base ha) (mstored_base hb) (mstored_base hb)).1
    · intro a b ha hb
      exact (sort_props hwf' (mstored_base ha) (mstored_base hb) (mstored_base hb)).2.1
    · intro a b c ha hb hc
      exact (sort_props hwf' (mstored_base ha) (mstored_base hb) (mstored_base hc)).2.2
    · intro v h
      simp only [MTy.plug, MTy.unlyb, MTy.lyb, unlyb_lyb hwf' (mstored_base h)]
  | pstr t =>
    refine ⟨?_, ?_, ?_, ?_, ?_, ?_⟩
    · intro v h
      obtain ⟨s, rfl, hall⟩ := mstored_pstr h
      simp only [MTy.plug, MTy.store, MTy.canon, hall _ data_hints_string, Except.map]
    · intro a b ha hb
      obtain ⟨x, rfl, _⟩ := mstored_pstr ha
      obtain ⟨y, rfl, _⟩ := mstored_pstr hb
      simp only [MTy.plug, MTy.cmpEq, MTy.canon, beq_iff_eq]
    · intro a b ha hb
      obtain ⟨x, rfl, _⟩ := mstored_pstr ha
      obtain ⟨y, rfl, _⟩ := mstored_pstr hb
      simp only [MTy.plug, MTy.cmpEq, MTy.sort, beq_iff_eq]
      exact strcmp_zero x y
    · intro a b ha hb
      obtain ⟨x, rfl, _⟩ := mstored_pstr ha
      obtain ⟨y, rfl, _⟩ := mstored_pstr hb
      simp only [MTy.plug, MTy.sort]
      exact strcmp_antisymm x y
    · intro a b c ha hb hc
      obtain ⟨x, rfl, _⟩ := mstored_pstr ha
      obtain ⟨y, rfl, _⟩ := mstored_pstr hb
      obtain ⟨z, rfl, _⟩ := mstored_pstr hc
      simp only [MTy.plug, MTy.sort]
      exact strcmp_trans x y z
    · intro v h
      obtain ⟨s, rfl, hall⟩ := mstored_pstr h
      simp only [MTy.plug, MTy.unlyb, MTy.lyb, hall _ data_hints_string, Except.map]

/-- equality as the compare callback decides it is equality of the stored values -/
theorem MLaws.eq_iff {m : Plug} (L : MLaws m) {a b : Value} (ha : MStored m a) (hb : MStored m b) : m.cmpEq a b = true ↔ a = b := by
  rw [L.eq_iff_canon a b ha hb]
  constructor
  · intro h
    have h1 := L.canon_idem a ha
    have h2 := L.canon_idem b hb
    rw [h] at h1
    rw [h1] at h2
    injection h2
  · intro h; rw [h]

/-! ### `union_find_type` -/

/-- every member before position `k` refuses the value -/
def AllReject (ms : List Plug) (k hints : Nat) (s : Bytes) : Prop :=
  ∀ j, j < k → ∀ m : Plug, ms[j]? = some m → ∃ e, m.store hints s = .error e

theorem findType_some_iff : ∀ (ms : List Plug) (i hints : Nat) (s : Bytes) (u : UVal),
    findType ms i hints s = some u ↔
      ∃ k m, u.idx = i + k ∧ ms[k]? = some m ∧ m.store hints s = .ok u.val ∧ AllReject ms k hints s
  | [], i, hints, s, u => by
    simp only [findType, List.getElem?_nil]
    constructor
    · intro h; cases h
    · rintro ⟨_, _, _, h, _⟩; cases h
  | m :: r, i, hints, s, u => by
    unfold findType
    cases hm : m.store hints s with
    | ok v =>
      simp only
      constructor
      · intro h
        injection h with h
        subst h
        exact ⟨0, m, rfl, rfl, hm, fun j hj => absurd hj (Nat.not_lt_zero j)⟩
      · rintro ⟨k, m', hk, hget, hst, hrej⟩
        cases k with
        | zero =>
          simp only [List.getElem?_cons_zero, Option.some.injEq] at hget
          subst hget
          rw [hm] at hst
          injection hst with hst
          cases u
          simp only [Nat.add_zero] at hk
          simp only at hst
          subst hk; subst hst
          rfl
        | succ k =>
          obtain ⟨e, he⟩ := hrej 0 (Nat.succ_pos k) m rfl
          rw [hm] at he
          cases he
    | error e =>
      simp only
      rw [findType_some_iff r (i + 1) hints s u]
      constructor
      · rintro ⟨k, m', hk, hget, hst, hrej⟩
        refine ⟨k + 1, m', by omega, by simpa using hget, hst, ?_⟩
        intro j hj mj hmj
        cases j with
        | zero =>
          simp only [List.getElem?_cons_zero, Option.some.injEq] at hmj
          subst hmj
          exact ⟨e, hm⟩
        | succ j =>
          exact hrej j (by omega) mj (by simpa using hmj)
      · rintro ⟨k, m', hk, hget, hst, hrej⟩
        cases k with
        | zero =>
          simp only [List.getElem?_cons_zero, Option.some.injEq] at hget
          subst hget
          rw [hm] at hst
          cases hst
        | succ k =>
          refine ⟨k, m', by omega, by simpa using hget, hst, ?_⟩
          intro j hj mj hmj
          exact hrej (j + 1) (by omega) mj (by simpa using hmj)

theorem findType_none_iff : ∀ (ms : List Plug) (i hints : Nat) (s : Bytes),
    findType ms i hints s = none ↔ ∀ m ∈ ms, ∃ e, m.store hints s = .error e
  | [], i, hints, s => by simp [findType]
  | m :: r, i, hints, s => by
    unfold findType
    cases hm : m.store hints s with
    | ok v =>
      simp only [List.mem_cons, forall_eq_or_imp]
      constructor
      · intro h; cases h
      · rintro ⟨⟨e, he⟩, _⟩; rw [hm] at he; cases he
    | error e =>
      simp only [List.mem_cons, forall_eq_or_imp]
      rw [findType_none_iff r (i + 1) hints s]
      constructor
      · intro h; exact ⟨⟨e, hm⟩, h⟩
      · intro h; exact h.2

theorem storeU_ok_iff (ms : List Plug) (hints : Nat) (s : Bytes) (u : UVal) :
    storeU ms hints s = .ok u ↔ ∃ m, ms[u.idx]? = some m ∧ m.store hints s = .ok u.val ∧ AllReject ms u.idx hints s := by
  unfold storeU
  cases hf : findType ms 0 hints s with
  | none =>
    simp only
    constructor
    · intro h; cases h
    · rintro ⟨m, hget, hst, _⟩
      have := (findType_none_iff ms 0 hints s).mp hf m (List.mem_of_getElem? hget)
      obtain ⟨e, he⟩ := this
      rw [hst] at he; cases he
  | some w =>
    simp only
    constructor
    · intro h
      injection h with h
      subst h
      obtain ⟨k, m, hk, hget, hst, hrej⟩ := (findType_some_iff ms 0 hints s w).mp hf
      have : w.idx = k := by omega
      subst this
      exact ⟨m, hget, hst, hrej⟩
    · rintro ⟨m, hget, hst, hrej⟩
      have h2 : findType ms 0 hints s = some u :=
        (findType_some_iff ms 0 hints s u).mpr ⟨u.idx, m, by omega, hget, hst, hrej⟩
      rw [hf] at h2
      injection h2 with h2
      rw [h2]

theorem storeU_error_iff (ms : List Plug) (hints : Nat) (s : Bytes) (e : MErr) :
    storeU ms hints s = .error e ↔ e = .NoMember ∧ ∀ m ∈ ms, ∃ e', m.store hints s = .error e' := by
  unfold storeU
  cases hf : findType ms 0 hints s with
  | none =>
    simp only
    constructor
    · intro h; injection h with h; exact ⟨h.symm, (findType_none_iff ms 0 hints s).mp hf⟩
    · rintro ⟨h, _⟩; rw [h]
  | some w =>
    simp only
    constructor
    · intro h; cases h
    · rintro ⟨_, h⟩
      have := (findType_none_iff ms 0 hints s).mpr h
      rw [hf] at this; cases this

theorem ustored_valid {ms : List Plug} {u : UVal} (h : UStored ms u) : UValid ms u := by
  obtain ⟨hints, s, h⟩ := h
  obtain ⟨m, hget, hst, _⟩ := (storeU_ok_iff ms hints s u).mp h
  exact ⟨m, hget, hints, s, hst⟩

/-! ### compare / sort -/

theorem cmpEqU_iff {ms : List Plug} (hwf : ∀ m ∈ ms, MLaws m) {a b : UVal} (ha : UValid ms a) (hb : UValid ms b) :
    cmpEqU ms a b = true ↔ a = b := by
  obtain ⟨ma, hga, hsa⟩ := ha
  obtain ⟨mb, hgb, hsb⟩ := hb
  unfold cmpEqU
  by_cases hi : a.idx = b.idx
  · have hne : (a.idx != b.idx) = false := by simp [hi]
    rw [hne]
    simp only [Bool.false_eq_true, if_false, hga]
    rw [hi] at hga
    rw [hga] at hgb
    injection hgb with hgb
    subst hgb
    have L := hwf ma (List.mem_of_getElem? hga)
    rw [L.eq_iff hsa hsb]
    constructor
    · intro h; cases a; cases b; simp only at hi h; subst hi; subst h; rfl
    · intro h; rw [h]
  · have hne : (a.idx != b.idx) = true := by simp [hi]
    rw [hne]
    simp only [if_true, Bool.false_eq_true, false_iff]
    intro h; exact hi (by rw [h])

theorem sortU_zero_iff {ms : List Plug} (hwf : ∀ m ∈ ms, MLaws m) {a b : UVal} (ha : UValid ms a) (hb : UValid ms b) :
    sortU ms a b = 0 ↔ cmpEqU ms a b = true := by
  obtain ⟨ma, hga, hsa⟩ := ha
  obtain ⟨mb, hgb, hsb⟩ := hb
  unfold sortU cmpEqU
  by_cases hi : a.idx = b.idx
  · have hne : (a.idx != b.idx) = false := by simp [hi]
    have heq : (a.idx == b.idx) = true := by simp [hi]
    rw [hne, heq]
    simp only [if_true, Bool.false_eq_true, if_false, hga]
    rw [hi] at hga
    rw [hga] at hgb
    injection hgb with hgb
    subst hgb
    exact (hwf ma (List.mem_of_getElem? hga)).sort_zero _ _ hsa hsb
  · have hne : (a.idx != b.idx) = true := by simp [hi]
    have heq : (a.idx == b.idx) = false := by simp [hi]
    rw [hne, heq]
    simp only [Bool.false_eq_true, if_false, if_true, iff_false]
    split <;> omega

theorem sortU_antisymm {ms : List Plug} (hwf : ∀ m ∈ ms, MLaws m) {a b : UVal} (ha : UValid ms a) (hb : UValid ms b) :
    sortU ms a b = -sortU ms b a := by
  obtain ⟨ma, hga, hsa⟩ := ha
  obtain ⟨mb, hgb, hsb⟩ := hb
  unfold sortU
  by_cases hi : a.idx = b.idx
  · have heq : (a.idx == b.idx) = true := by simp [hi]
    have heq' : (b.idx == a.idx) = true := by simp [hi]
    rw [heq, heq']
    simp only [if_true, hga, hgb]
    rw [hi] at hga
    rw [hga] at hgb
    injection hgb with hgb
    subst hgb
    exact (hwf ma (List.mem_of_getElem? hga)).sort_antisymm _ _ hsa hsb
  · have heq : (a.idx == b.idx) = false := by simp [hi]
    have heq' : (b.idx == a.idx) = false := by simp; omega
    rw [heq, heq']
    simp only [Bool.false_eq_true, if_false]
    split <;> split <;> omega

theorem sortU_le_iff {ms : List Plug} {a b : UVal} :
    sortU ms a b ≤ 0 ↔ (a.idx = b.idx ∧ (match ms[a.idx]? with | some m => m.sort a.val b.val | none => 0) ≤ 0) ∨ b.idx < a.idx := by
  unfold sortU
  by_cases hi : a.idx = b.idx
  · have heq : (a.idx == b.idx) = true := by simp [hi]
    rw [heq]
    simp only [if_true]
    constructor
    · intro h; exact Or.inl ⟨hi, h⟩
    · rintro (⟨_, h⟩ | h)
      · exact h
      · omega
  · have heq : (a.idx == b.idx) = false := by simp [hi]
    rw [heq]
    simp only [Bool.false_eq_true, if_false]
    constructor
    · intro h
      right
      split at h <;> omega
    · rintro (⟨h, _⟩ | h)
      · exact absurd h hi
      · split <;> omega

theorem sortU_trans {ms : List Plug} (hwf : ∀ m ∈ ms, MLaws m) {a b c : UVal} (ha : UValid ms a) (hb : UValid ms b) (hc : UValid ms c)
    (h1 : sortU ms a b ≤ 0) (h2 : sortU ms b c ≤ 0) : sortU ms a c ≤ 0 := by
  rw [sortU_le_iff] at h1 h2 ⊢
  obtain ⟨ma, hga, hsa⟩ := ha
  obtain ⟨mb, hgb, hsb⟩ := hb
  obtain ⟨mc, hgc, hsc⟩ := hc
  rcases h1 with ⟨h1i, h1s⟩ | h1
  · rcases h2 with ⟨h2i, h2s⟩ | h2
    · left
      refine ⟨by omega, ?_⟩
      rw [hga] at h1s ⊢
      rw [← h1i, hga] at h2s
      simp only at h1s h2s ⊢
      have e1 : mb = ma := by rw [← h1i, hga] at hgb; injection hgb with h; exact h.symm
      have e2 : mc = ma := by rw [← h2i, ← h1i, hga] at hgc; injection hgc with h; exact h.symm
      subst e1; subst e2
      exact (hwf mc (List.mem_of_getElem? hga)).sort_trans _ _ _ hsa hsb hsc h1s h2s
    · right; omega
  · rcases h2 with ⟨h2i, _⟩ | h2
    · right; omega
    · right; omega

/-! ### LYB -/

theorem idxSize_eq : Generated.unionIdxSize = 4 := by decide

theorem unlybU_lybU {ms : List Plug} (hwf : ∀ m ∈ ms, MLaws m) (hlen : ms.length ≤ 2 ^ 32) {u : UVal} (hu : UValid ms u) :
    unlybU ms (lybU ms u) = .ok u := by
  obtain ⟨m, hget, hst⟩ := hu
  have hlt : u.idx < ms.length := by
    rcases Nat.lt_or_ge u.idx ms.length with h | h
    · exact h
    · rw [List.getElem?_eq_none h] at hget
      cases hget
  unfold unlybU lybU
  rw [hget, idxSize_eq]
  simp only
  have hl : (leBytes 4 u.idx).length = 4 := leBytes_length _ _
  have h1 : ¬ (leBytes 4 u.idx ++ m.lyb u.val).length < 4 := by
    rw [List.length_append, hl]; omega
  rw [if_neg h1]
  have h2 : (leBytes 4 u.idx ++ m.lyb u.val).take 4 = leBytes 4 u.idx := by
    rw [List.take_append_of_le_length (by omega), List.take_of_length_le (by omega)]
  have h3 : (leBytes 4 u.idx ++ m.lyb u.val).drop 4 = m.lyb u.val := by
    rw [List.drop_append_of_le_length (by omega), List.drop_of_length_le (by omega), List.nil_append]
  rw [h2, h3, ofLe_leBytes 4 u.idx, Nat.mod_eq_of_lt (by omega), hget]
  simp only
  rw [(hwf m (List.mem_of_getElem? hget)).lyb_rt _ hst]

/-! ### identityref as a member -/

open Ident in
/-- a module set whose module names can serve as prefixes of the canonical form: no colon, not empty, and the prefix map of the
    module-name formats maps every module name to itself -/
def JsonLike (c : IdCtx) (pmJ : PrefixMap) : Prop :=
  ∀ df ∈ c.defs, (58 : UInt8) ∉ df.id.mod ∧ df.id.mod ≠ [] ∧ pmJ.table.lookup df.id.mod = some df.id.mod

theorem identMod_canon {i : Ident.Ident} (h : (58 : UInt8) ∉ i.mod) : identMod (Ident.canonId i) = i.mod := by
  unfold identMod Ident.canonId
  exact Ident.takeWhile_no_colon h

theorem identName_canon {i : Ident.Ident} (h : (58 : UInt8) ∉ i.mod) : identName (Ident.canonId i) = i.name := by
  unfold identName Ident.canonId
  have : (i.mod ++ 58 :: i.name).dropWhile (· != 58) = 58 :: i.name := by
    apply dropWhile_append_stop
    · rw [List.all_eq_true]
      intro x hx
      simp only [bne_iff_ne, ne_eq]
      intro he; rw [he] at hx; exact h hx
    · intro c hc
      simp only [List.head?_cons, Option.some.injEq] at hc
      subst hc
      rfl
  rw [this]
  rfl

theorem mstored_idref {ab sm : Bool} {c : Ident.IdCtx} {bases : List Ident.Ident} {pm pmJ : Ident.PrefixMap} {v : Value}
    (h : MStored (idrefPlugWith ab sm c bases pm pmJ) v) :
    ∃ hints s i, Ident.storeIdWith ab c bases pm hints s = .ok i ∧ v = .str (Ident.canonId i) := by
  obtain ⟨hints, s, h⟩ := h
  simp only [idrefPlugWith] at h
  cases hs : Ident.storeIdWith ab c bases pm hints s with
  | error e => rw [hs] at h; cases h
  | ok i =>
    rw [hs] at h
    injection h with h
    exact ⟨hints, s, i, hs, h.symm⟩

/-- the member laws hold for the identityref plug-in in a module-name format when the sort callback also compares the module (the
    repaired variant, `fixes/F411.diff`) — for either variant of the base check -/
theorem idref_mlaws (ab : Bool) (c : Ident.IdCtx) (hwf : c.WF) (bases : List Ident.Ident) (pmJ : Ident.PrefixMap) (hj : JsonLike c pmJ) :
    MLaws (idrefPlugWith ab true c bases pmJ pmJ) := by
  have key : ∀ {hints s i}, Ident.storeIdWith ab c bases pmJ hints s = .ok i →
      (58 : UInt8) ∉ i.mod ∧ Ident.storeIdWith ab c bases pmJ Generated.LYD_HINT_DATA (Ident.canonId i) = .ok i := by
    intro hints s i h
    obtain ⟨_, _, _, _, ⟨df, hdf, hid⟩, _, _⟩ := (Ident.storeIdWith_ok_iff hwf ab bases pmJ hints s i).mp h
    obtain ⟨h1, h2, h3⟩ := hj df hdf
    rw [hid] at h1 h2 h3
    refine ⟨h1, ?_⟩
    rw [Ident.storeIdWith_ok_iff hwf] at h ⊢
    obtain ⟨_, hne, _, hname, hdef, hnd, hder⟩ := h
    rw [Ident.splitPrefix_canon h1]
    refine ⟨by decide, ?_, ?_, rfl, hdef, hnd, hder⟩
    · rw [hname]; exact hne
    · simp only [Ident.resolve]
      have : i.mod.isEmpty = false := by
        cases hm : i.mod with
        | nil => exact absurd hm h2
        | cons _ _ => rfl
      rw [this]
      simpa using h3
  refine ⟨?_, ?_, ?_, ?_, ?_, ?_⟩
  · intro v h
    obtain ⟨hints, s, i, hs, rfl⟩ := mstored_idref h
    simp only [idrefPlugWith, (key hs).2]
  · intro a b ha hb
    obtain ⟨_, _, i, _, rfl⟩ := mstored_idref ha
    obtain ⟨_, _, j, _, rfl⟩ := mstored_idref hb
    simp only [idrefPlugWith, beq_iff_eq]
  · intro a b ha hb
    obtain ⟨_, _, i, hi, rfl⟩ := mstored_idref ha
    obtain ⟨_, _, j, hj', rfl⟩ := mstored_idref hb
    have ci := (key hi).1
    have cj := (key hj').1
    simp only [idrefPlugWith, beq_iff_eq, identMod_canon ci, identName_canon ci, identMod_canon cj, identName_canon cj]
    rw [Ident.sortIdWith_true_zero]
    constructor
    · intro h; cases i; cases j; simp only [Ident.Ident.mk.injEq] at h; rw [h.1, h.2]
    · intro h; have := Ident.canonId_injective ci cj h; rw [this]
  · intro a b ha hb
    obtain ⟨_, _, i, _, rfl⟩ := mstored_idref ha
    obtain ⟨_, _, j, _, rfl⟩ := mstored_idref hb
    simp only [idrefPlugWith]
    exact Ident.sortIdWith_antisymm _ _ _
  · intro a b d ha hb hd
    obtain ⟨_, _, i, _, rfl⟩ := mstored_idref ha
    obtain ⟨_, _, j, _, rfl⟩ := mstored_idref hb
    obtain ⟨_, _, k, _, rfl⟩ := mstored_idref hd
    simp only [idrefPlugWith]
    exact Ident.sortIdWith_trans _ _ _ _
  · intro v h
    obtain ⟨hints, s, i, hs, rfl⟩ := mstored_idref h
    simp only [idrefPlugWith, (key hs).2]

/-! ### the `validate` callback -/

/-- member `m` does not take the value at validation time: its store refuses it, or the stored value does not resolve -/
def NotTaken (m : Plug) (targets : List Bytes) (hints : Nat) (s : Bytes) : Prop :=
  (∃ e, m.store hints s = .error e) ∨ ∃ w, m.store hints s = .ok w ∧ m.resolves targets w = false

theorem findTypeV_some_iff (targets : List Bytes) : ∀ (ms : List Plug) (i hints : Nat) (s : Bytes) (u : UVal),
    findTypeV targets ms i hints s = some u ↔
      ∃ k m, u.idx = i + k ∧ ms[k]? = some m ∧ m.store hints s = .ok u.val ∧ m.resolves targets u.val = true ∧
        ∀ j, j < k → ∀ mj : Plug, ms[j]? = some mj → NotTaken mj targets hints s
  | [], i, hints, s, u => by
    simp only [findTypeV, List.getElem?_nil]
    constructor
    · intro h; cases h
    · rintro ⟨_, _, _, h, _⟩; cases h
  | m :: r, i, hints, s, u => by
    have step : findTypeV targets r (i + 1) hints s = some u ↔
        ∃ k m', u.idx = i + (k + 1) ∧ (m :: r)[k + 1]? = some m' ∧ m'.store hints s = .ok u.val ∧ m'.resolves targets u.val = true ∧
          ∀ j, j < k → ∀ mj : Plug, r[j]? = some mj → NotTaken mj targets hints s := by
      rw [findTypeV_some_iff targets r (i + 1) hints s u]
      constructor
      · rintro ⟨k, m', hk, hg, h1, h2, h3⟩
        exact ⟨k, m', by omega, by simpa using hg, h1, h2, h3⟩
      · rintro ⟨k, m', hk, hg, h1, h2, h3⟩
        exact ⟨k, m', by omega, by simpa using hg, h1, h2, h3⟩
    have finish (hnt : NotTaken m targets hints s) : findTypeV targets r (i + 1) hints s = some u ↔
        ∃ k m', u.idx = i + k ∧ (m :: r)[k]? = some m' ∧ m'.store hints s = .ok u.val ∧ m'.resolves targets u.val = true ∧
          ∀ j, j < k → ∀ mj : Plug, (m :: r)[j]? = some mj → NotTaken mj targets hints s := by
      rw [step]
      constructor
      · rintro ⟨k, m', hk, hg, h1, h2, h3⟩
        refine ⟨k + 1, m', hk, hg, h1, h2, ?_⟩
        intro j hj mj hmj
        cases j with
        | zero => simp only [List.getElem?_cons_zero, Option.some.injEq] at hmj; subst hmj; exact hnt
        | succ j => exact h3 j (by omega) mj (by simpa using hmj)
      · rintro ⟨k, m', hk, hg, h1, h2, h3⟩
        cases k with
        | zero =>
          simp only [List.getElem?_cons_zero, Option.some.injEq] at hg
          subst hg
          rcases hnt with ⟨e, he⟩ | ⟨w, hw, hr⟩
          · rw [h1] at he; cases he
          · rw [h1] at hw; injection hw with hw; subst hw; rw [h2] at hr; cases hr
        | succ k =>
          refine ⟨k, m', hk, hg, h1, h2, ?_⟩
          intro j hj mj hmj
          exact h3 (j + 1) (by omega) mj (by simpa using hmj)
    unfold findTypeV
    cases hm : m.store hints s with
    | error e =>
      simp only
      exact finish (Or.inl ⟨e, hm⟩)
    | ok v =>
      simp only
      by_cases hr : m.resolves targets v = true
      · rw [if_pos hr]
        constructor
        · intro h
          injection h with h
          subst h
          exact ⟨0, m, rfl, rfl, hm, hr, fun j hj => absurd hj (Nat.not_lt_zero j)⟩
        · rintro ⟨k, m', hk, hg, h1, h2, h3⟩
          cases k with
          | zero =>
            simp only [List.getElem?_cons_zero, Option.some.injEq] at hg
            subst hg
            rw [hm] at h1
            injection h1 with h1
            cases u
            simp only [Nat.add_zero] at hk
            simp only at h1
            subst hk; subst h1
            rfl
          | succ k =>
            rcases h3 0 (Nat.succ_pos k) m rfl with ⟨e, he⟩ | ⟨w, hw, hrw⟩
            · rw [hm] at he; cases he
            · rw [hm] at hw; injection hw with hw; subst hw; rw [hr] at hrw; cases hrw
      · rw [if_neg hr]
        have hr' : m.resolves targets v = false := by
          cases h : m.resolves targets v with
          | true => exact absurd h hr
          | false => rfl
        exact finish (Or.inr ⟨v, hm, hr'⟩)

theorem findTypeV_eq_findType (targets : List Bytes) : ∀ (ms : List Plug) (i hints : Nat) (s : Bytes),
    (∀ m ∈ ms, m.reqInst = false) → findTypeV targets ms i hints s = findType ms i hints s
  | [], _, _, _, _ => rfl
  | m :: r, i, hints, s, h => by
    unfold findTypeV findType
    have hm : m.reqInst = false := h m (List.mem_cons_self ..)
    have ih := findTypeV_eq_findType targets r (i + 1) hints s (fun x hx => h x (List.mem_cons_of_mem _ hx))
    cases hs : m.store hints s with
    | error e => simp only [ih]
    | ok v => simp only [Plug.resolves, hm, Bool.not_false, Bool.true_or, if_true]

end LyModel.Val
