import LyModel.Val.LemmasDt
import LyModel.Val.LemmasBasic
/-! the canonical form of date-and-time values whose UTC year has four digits: explicit shape, injectivity -/
namespace LyModel.Val.DateTime
open LyModel LyModel.Val

def dig2 (n : Nat) : Bytes := [digitChar (n / 10), digitChar (n % 10)]
def dig4 (n : Nat) : Bytes := [digitChar (n / 1000), digitChar (n / 100 % 10), digitChar (n / 10 % 10), digitChar (n % 10)]

theorem natDec2 {n : Nat} (h0 : ¬ n < 10) (h1 : n < 100) : natDec n = [digitChar (n / 10), digitChar (n % 10)] := by
  rw [natDec_ge10 h0, natDec_lt10 (by omega)]; rfl

theorem natDec3 {n : Nat} (h0 : ¬ n < 100) (h1 : n < 1000) : natDec n = [digitChar (n / 100), digitChar (n / 10 % 10), digitChar (n % 10)] := by
  rw [natDec_ge10 (by omega), natDec2 (by omega) (by omega)]
  have : n / 10 / 10 = n / 100 := by omega
  rw [this]; rfl

theorem natDec4 {n : Nat} (h0 : ¬ n < 1000) (h1 : n < 10000) :
    natDec n = [digitChar (n / 1000), digitChar (n / 100 % 10), digitChar (n / 10 % 10), digitChar (n % 10)] := by
  rw [natDec_ge10 (by omega), natDec3 (by omega) (by omega)]
  have e1 : n / 10 / 100 = n / 1000 := by omega
  have e2 : n / 10 / 10 % 10 = n / 100 % 10 := by omega
  rw [e1, e2]; rfl

theorem digitChar_zero : digitChar 0 = 48 := by decide

theorem padNat2 {n : Nat} (h : n < 100) : padNat 2 n = dig2 n := by
  by_cases h0 : n < 10
  · have e1 : n / 10 = 0 := by omega
    have e2 : n % 10 = n := by omega
    simp only [padNat, natDec_lt10 h0, dig2, e1, e2, digitChar_zero]; rfl
  · simp only [padNat, natDec2 h0 h, dig2]; rfl

theorem padNat4 {n : Nat} (h : n < 10000) : padNat 4 n = dig4 n := by
  by_cases h0 : n < 10
  · have e1 : n / 1000 = 0 := by omega
    have e2 : n / 100 % 10 = 0 := by omega
    have e3 : n / 10 % 10 = 0 := by omega
    have e4 : n % 10 = n := by omega
    simp only [padNat, natDec_lt10 h0, dig4, e1, e2, e3, e4, digitChar_zero]; rfl
  · by_cases h1 : n < 100
    · have e1 : n / 1000 = 0 := by omega
      have e2 : n / 100 % 10 = 0 := by omega
      have e3 : n / 10 % 10 = n / 10 := by omega
      simp only [padNat, natDec2 h0 h1, dig4, e1, e2, e3, digitChar_zero]; rfl
    · by_cases h2 : n < 1000
      · have e1 : n / 1000 = 0 := by omega
        have e2 : n / 100 % 10 = n / 100 := by omega
        simp only [padNat, natDec3 h1 h2, dig4, e1, e2, digitChar_zero]; rfl
      · simp only [padNat, natDec4 h2 h, dig4]; rfl

theorem digitChar_inj {a b : Nat} (ha : a < 10) (hb : b < 10) (h : digitChar a = digitChar b) : a = b := by
  have h1 := digitChar_toNat ha
  have h2 := digitChar_toNat hb
  rw [h] at h1
  omega

theorem dig2_inj {a b : Nat} (ha : a < 100) (hb : b < 100) (h : dig2 a = dig2 b) : a = b := by
  simp only [dig2, List.cons.injEq, and_true] at h
  have h1 := digitChar_inj (by omega) (by omega) h.1
  have h2 := digitChar_inj (Nat.mod_lt _ (by decide)) (Nat.mod_lt _ (by decide)) h.2
  omega

theorem dig4_inj {a b : Nat} (ha : a < 10000) (hb : b < 10000) (h : dig4 a = dig4 b) : a = b := by
  simp only [dig4, List.cons.injEq, and_true] at h
  have h1 := digitChar_inj (by omega) (by omega) h.1
  have h2 := digitChar_inj (Nat.mod_lt _ (by decide)) (Nat.mod_lt _ (by decide)) h.2.1
  have h3 := digitChar_inj (Nat.mod_lt _ (by decide)) (Nat.mod_lt _ (by decide)) h.2.2.1
  have h4 := digitChar_inj (Nat.mod_lt _ (by decide)) (Nat.mod_lt _ (by decide)) h.2.2.2
  omega

theorem padInt2 {v : Int} (h0 : 0 ≤ v) (h1 : v < 100) : padInt 2 v = dig2 v.toNat := by
  have : ¬ v < 0 := by omega
  have e : v.natAbs = v.toNat := by omega
  simp only [padInt, this, ↓reduceIte, e]
  exact padNat2 (by omega)

theorem padInt4 {v : Int} (h0 : 0 ≤ v) (h1 : v < 10000) : padInt 4 v = dig4 v.toNat := by
  have : ¬ v < 0 := by omega
  have e : v.natAbs = v.toNat := by omega
  simp only [padInt, this, ↓reduceIte, e]
  exact padNat4 (by omega)

/-- the UTC year of the value has four digits: the range in which the canonical form is inside the lexical space of the type -/
def InYearRange (v : DtVal) : Prop := 0 ≤ (gmtime v.time).year ∧ (gmtime v.time).year ≤ 9999

instance (v : DtVal) : Decidable (InYearRange v) := by unfold InYearRange; infer_instance

/-- the part of the canonical form behind the seconds -/
def canonTail (v : DtVal) : Bytes :=
  (match v.frac with | some f => 46 :: f | none => []) ++ (if v.unknownTz then [45, 48, 48, 58, 48, 48] else [43, 48, 48, 58, 48, 48])

/-- the 19 bytes `YYYY-MM-DDThh:mm:ss` -/
def canonHead (tm : Tm) : Bytes :=
  dig4 tm.year.toNat ++ [45] ++ dig2 tm.mon.toNat ++ [45] ++ dig2 tm.mday.toNat ++ [84] ++ dig2 tm.hour.toNat ++ [58] ++ dig2 tm.min.toNat ++
    [58] ++ dig2 tm.sec.toNat

theorem canon_shape (v : DtVal) (hy : InYearRange v) : canon v = canonHead (gmtime v.time) ++ canonTail v := by
  have hr := gmtime_range v.time
  obtain ⟨y0, y1⟩ := hy
  have hfit : tmYearFits (gmtime v.time).year = true := by simp [tmYearFits]; omega
  have h32 : toInt32 (gmtime v.time).year = (gmtime v.time).year := by simp only [toInt32]; omega
  simp only [canon, hfit, Bool.not_true, Bool.false_eq_true, ↓reduceIte, printTm, h32, canonHead, canonTail]
  rw [padInt4 y0 (by omega), padInt2 (v := (gmtime v.time).mon) (by omega) (by omega), padInt2 (v := (gmtime v.time).mday) (by omega) (by omega),
    padInt2 (v := (gmtime v.time).hour) (by omega) (by omega), padInt2 (v := (gmtime v.time).min) (by omega) (by omega),
    padInt2 (v := (gmtime v.time).sec) (by omega) (by omega)]
  simp only [List.append_assoc]
  rfl

theorem canonHead_length (tm : Tm) : (canonHead tm).length = 19 := by simp [canonHead, dig2, dig4]

theorem canonTail_inj {a b : DtVal} (h : canonTail a = canonTail b) : a.frac = b.frac ∧ a.unknownTz = b.unknownTz := by
  obtain ⟨t, f, z⟩ := a
  obtain ⟨u, g, w⟩ := b
  simp only [canonTail] at h
  cases f <;> cases g <;> cases z <;> cases w <;> simp at h ⊢
  all_goals first
    | exact h
    | exact (List.append_inj' h rfl).1
    | (have := (List.append_inj' h rfl).2; simp at this)
    | skip

theorem canon_inj (a b : DtVal) (ha : InYearRange a) (hb : InYearRange b) (h : canon a = canon b) : a = b := by
  rw [canon_shape a ha, canon_shape b hb] at h
  obtain ⟨hh, ht⟩ := List.append_inj h (by rw [canonHead_length, canonHead_length])
  obtain ⟨hf, hz⟩ := canonTail_inj ht
  have ra := gmtime_range a.time
  have rb := gmtime_range b.time
  obtain ⟨a0, a1⟩ := ha
  obtain ⟨b0, b1⟩ := hb
  simp only [canonHead, List.append_assoc] at hh
  have l4 : ∀ n, (dig4 n).length = 4 := fun _ => rfl
  have l2 : ∀ n, (dig2 n).length = 2 := fun _ => rfl
  obtain ⟨e1, hh⟩ := List.append_inj hh (by rw [l4, l4])
  obtain ⟨_, hh⟩ := List.append_inj hh rfl
  obtain ⟨e2, hh⟩ := List.append_inj hh (by rw [l2, l2])
  obtain ⟨_, hh⟩ := List.append_inj hh rfl
  obtain ⟨e3, hh⟩ := List.append_inj hh (by rw [l2, l2])
  obtain ⟨_, hh⟩ := List.append_inj hh rfl
  obtain ⟨e4, hh⟩ := List.append_inj hh (by rw [l2, l2])
  obtain ⟨_, hh⟩ := List.append_inj hh rfl
  obtain ⟨e5, hh⟩ := List.append_inj hh (by rw [l2, l2])
  obtain ⟨_, e6⟩ := List.append_inj hh rfl
  have f1 := dig4_inj (by omega) (by omega) e1
  have f2 := dig2_inj (by omega) (by omega) e2
  have f3 := dig2_inj (by omega) (by omega) e3
  have f4 := dig2_inj (by omega) (by omega) e4
  have f5 := dig2_inj (by omega) (by omega) e5
  have f6 := dig2_inj (by omega) (by omega) e6
  have hg : gmtime a.time = gmtime b.time := by
    cases hga : gmtime a.time; cases hgb : gmtime b.time
    simp only [hga, hgb] at f1 f2 f3 f4 f5 f6 ra rb a0 a1 b0 b1
    simp only [Tm.mk.injEq]
    omega
  have htime := gmtime_inj hg
  obtain ⟨t, f, z⟩ := a
  obtain ⟨u, g, w⟩ := b
  simp only at htime hf hz
  rw [htime, hf, hz]

end LyModel.Val.DateTime
