import LyModel.Val.LemmasBits
/-! The uniform interface `store / canon / cmpEq / sort / lyb / unlyb` over all modelled types. -/
set_option linter.unusedSimpArgs false
namespace LyModel.Val
open LyModel

/-- a compiled type of the modelled family -/
def Ty.WF : Ty → Prop
  | .int t r => PartsWF t.min t.max r
  | .dec64 fd r => 1 ≤ fd ∧ PartsWF (-(2 ^ 63)) (2 ^ 63 - 1) r
  | .bool => True
  | .enum items => EnumWF items
  | .bits items => BitsWF items
  | .str _ => True

/-- a value some lexical string is stored as -/
def Stored (ty : Ty) (v : Value) : Prop := ∃ hints s, store ty hints s = .ok v

theorem map_ok {α β : Type} {f : α → β} {x : Except VErr α} {b : β} (h : x.map f = .ok b) : ∃ a, x = .ok a ∧ f a = b := by
  cases x with
  | error e => cases h
  | ok a => exact ⟨a, rfl, by injection h⟩

theorem pairwise_inj {α β : Type} {key : α → β} : ∀ {l : List α}, l.Pairwise (fun a b => key a ≠ key b) →
    ∀ a ∈ l, ∀ b ∈ l, key a = key b → a = b
  | [], _, a, ha, _, _, _ => by simp at ha
  | x :: r, hp, a, ha, b, hb, hk => by
    rw [List.pairwise_cons] at hp
    rcases List.mem_cons.mp ha with rfl | ha' <;> rcases List.mem_cons.mp hb with rfl | hb'
    · rfl
    · exact absurd hk (hp.1 b hb')
    · exact absurd hk.symm (hp.1 a ha')
    · exact pairwise_inj hp.2 a ha' b hb' hk

/-- what is known about a stored value, per type -/
inductive StoredFacts : Ty → Value → Prop
  | int {t r n} : t.min ≤ n → n ≤ t.max → validateRange (rangeIsUnsigned t.name) r n = true → StoredFacts (.int t r) (.num n)
  | dec {fd r n} : -(2 ^ 63) ≤ n → n ≤ 2 ^ 63 - 1 → validateRange (rangeIsUnsigned "dec64") r n = true → StoredFacts (.dec64 fd r) (.num n)
  | bool {b} : StoredFacts .bool (.bool b)
  | enum {items it} : it ∈ items → StoredFacts (.enum items) (.enum it)
  | bits {items m} : BitsValid items m → StoredFacts (.bits items) (.bits m)
  | str {len s} : (∀ hints, (checkHints hints "string").isSome = true → storeStr len hints s = .ok s) → StoredFacts (.str len) (.str s)

theorem storeStr_ok {len : List (Int × Int)} {hints : Nat} {s x : Bytes} (h : storeStr len hints s = .ok x) :
    x = s ∧ ∀ hints', (checkHints hints' "string").isSome = true → storeStr len hints' s = .ok s := by
  unfold storeStr at h
  split at h
  · cases h
  · rename_i hc
    split at h
    · cases h
    · split at h
      · rename_i hl
        injection h with h
        refine ⟨h.symm, ?_⟩
        intro hints' hh
        unfold storeStr
        rw [if_neg hc]
        cases hc' : checkHints hints' "string" with
        | none => rw [hc'] at hh; cases hh
        | some _ => simp only; rw [if_pos hl]
      · cases h

theorem stored_facts {ty : Ty} {v : Value} (h : Stored ty v) : StoredFacts ty v := by
  obtain ⟨hints, s, hs⟩ := h
  cases ty with
  | int t r =>
    obtain ⟨n, hn, rfl⟩ := map_ok hs
    obtain ⟨h1, h2, h3⟩ := storeInt_ok_bounds hn
    exact .int h1 h2 h3
  | dec64 fd r =>
    obtain ⟨n, hn, rfl⟩ := map_ok hs
    obtain ⟨h1, h2, h3⟩ := storeDec64_ok_bounds hn
    exact .dec h1 h2 h3
  | bool => obtain ⟨b, _, rfl⟩ := map_ok hs; exact .bool
  | «enum» items =>
    obtain ⟨it, hn, rfl⟩ := map_ok hs
    unfold storeEnum at hn
    split at hn
    · cases hn
    · split at hn
      · rename_i it' hf
        injection hn with hn; subst hn
        exact .enum (findEnum_mem hf).1
      · cases hn
  | bits items =>
    obtain ⟨m, hn, rfl⟩ := map_ok hs
    exact .bits (storeBits_valid hn)
  | str len =>
    obtain ⟨x, hn, rfl⟩ := map_ok hs
    obtain ⟨hx, hall⟩ := storeStr_ok hn
    subst hx
    exact .str hall

theorem data_hints_ok : ∀ t : IntTy, checkHints Generated.LYD_HINT_DATA t.name = some 10 := by
  intro t; cases t <;> decide

/-- canonical idempotence, all modelled types: storing the canonical string of a stored value (data hints) returns it -/
theorem store_canon {ty : Ty} (hwf : ty.WF) {v : Value} (h : Stored ty v) :
    store ty Generated.LYD_HINT_DATA (canon ty v) = .ok v := by
  have hf := stored_facts h
  cases hf with
  | int h1 h2 h3 =>
    rename_i t r n
    have hin : InParts r n := by
      have hwf' : PartsWF t.min t.max r := hwf
      have := storeInt_canon t r Generated.LYD_HINT_DATA n (data_hints_ok t) hwf' h1 h2
      -- membership follows from the range check the value already passed
      obtain ⟨hints, s, hs⟩ := h
      obtain ⟨n', hn', hnum⟩ := map_ok hs
      injection hnum with hnum; subst hnum
      rw [rangeIsUnsigned_int] at h3
      cases hsg : t.signed
      · rw [hsg] at h3
        obtain ⟨_, _, hmin0⟩ := IntTy.umax t hsg
        have hmm := IntTy.min_max_values t
        rw [hsg] at hmm
        have hmax64 : t.max < 2 ^ 64 := by
          rw [hmm.2]; cases t <;> first | (exfalso; revert hsg; decide) | decide
        rw [show (!false) = true from rfl, validateRange_unsigned_eq (by omega : (0 : Int) ≤ t.min) hmax64 r n' hwf' (by omega) (by omega)] at h3
        exact (validateRange_signed_iff r n' hwf').mp h3
      · rw [hsg] at h3
        exact (validateRange_signed_iff r n' hwf').mp h3
    show (storeInt t r Generated.LYD_HINT_DATA (canonInt n)).map Value.num = .ok (.num n)
    rw [storeInt_canon t r Generated.LYD_HINT_DATA n (data_hints_ok t) hwf h1 h2 hin]; rfl
  | dec h1 h2 h3 =>
    rename_i fd r n
    obtain ⟨hfd, hwf'⟩ := hwf
    rw [dec64_range_signed] at h3
    have hin := (validateRange_signed_iff r n hwf').mp h3
    show (storeDec64 fd r Generated.LYD_HINT_DATA (num2str fd n)).map Value.num = .ok (.num n)
    unfold storeDec64
    rw [(storeDec64_accept_iff _ fd hfd r Generated.LYD_HINT_DATA _ n (by decide) hwf').mpr
      ⟨(num2str_lex fd hfd n).weaken _, h1, h2, hin⟩]; rfl
  | bool =>
    rename_i b
    show (storeBool Generated.LYD_HINT_DATA (canonBool b)).map Value.bool = .ok (.bool b)
    rw [storeBool_canon _ b (by decide)]; rfl
  | «enum» hm =>
    rename_i items it
    show (storeEnum items Generated.LYD_HINT_DATA it.name).map Value.enum = .ok (.enum it)
    rw [(storeEnum_accept_iff items _ it.name it hwf (by decide)).mpr ⟨hm, rfl⟩]; rfl
  | bits hv =>
    rename_i items m
    show (storeBits items Generated.LYD_HINT_DATA (canonBits items m)).map Value.bits = .ok (.bits m)
    rw [storeBits_canon hwf _ m (by decide) hv]; rfl
  | str hall =>
    rename_i len s
    show (storeStr len Generated.LYD_HINT_DATA s).map Value.str = .ok (.str s)
    rw [hall _ (by decide)]; rfl

/-- equality (the `compare` callback) ⇔ equality of canonical strings, all modelled types -/
theorem cmpEq_iff_canon_eq {ty : Ty} (hwf : ty.WF) {a b : Value} (ha : Stored ty a) (hb : Stored ty b) :
    cmpEq ty a b = true ↔ canon ty a = canon ty b := by
  have e1 := store_canon hwf ha
  have e2 := store_canon hwf hb
  have hfa := stored_facts ha
  have hfb := stored_facts hb
  constructor
  · intro h
    cases hfa <;> cases hfb <;> simp only [cmpEq, beq_iff_eq] at h <;> first | (subst h; rfl) | (simp only [canon]; exact h)
  · intro h
    rw [h, e2] at e1
    injection e1 with e1
    subst e1
    cases hfa <;> simp [cmpEq]

/-- value → LYB → value, all modelled types -/
theorem unlyb_lyb {ty : Ty} (hwf : ty.WF) {v : Value} (h : Stored ty v) : unlyb ty (lyb ty v) = .ok v := by
  have hf := stored_facts h
  cases hf with
  | int h1 h2 h3 =>
    rename_i t r n
    show (unlybInt t r (lybInt t n)).map Value.num = _
    rw [unlybInt_lybInt t r n h1 h2 h3]; rfl
  | dec h1 h2 h3 =>
    rename_i fd r n
    show (unlybDec64 r (lybDec64 n)).map Value.num = _
    rw [unlybDec64_lybDec64 r n h1 h2 h3]; rfl
  | bool => rename_i b; show (unlybBool (lybBool b)).map Value.bool = _; rw [unlybBool_lybBool]; rfl
  | «enum» hm =>
    rename_i items it
    show (unlybEnum items (lybEnum it)).map Value.enum = _
    rw [unlybEnum_lybEnum items it hwf hm]; rfl
  | bits hv =>
    rename_i items m
    show (unlybBits items (lybBits items m)).map Value.bits = _
    rw [unlybBits_lybBits hwf m hv]; rfl
  | str hall =>
    rename_i len s
    show (storeStr len Generated.LYD_HINT_DATA s).map Value.str = _
    rw [hall _ (by decide)]; rfl

theorem leBytes_inj {n a b : Nat} (ha : a < 256 ^ n) (hb : b < 256 ^ n) (h : leBytes n a = leBytes n b) : a = b := by
  have := congrArg ofLe h
  rw [ofLe_leBytes, ofLe_leBytes, Nat.mod_eq_of_lt ha, Nat.mod_eq_of_lt hb] at this
  exact this

theorem bitsValid_lt {items : List BitItem} (hwf : BitsWF items) {m : Nat} (hv : BitsValid items m) : m < 256 ^ bitmapSize items := by
  have h256 : 256 ^ bitmapSize items = 2 ^ (8 * bitmapSize items) := by rw [Nat.pow_mul]
  rw [h256]
  apply Nat.lt_pow_two_of_testBit
  intro i hi
  cases hb : m.testBit i
  · rfl
  · obtain ⟨it, hit, hp⟩ := hv i hb
    have := lastBitPos_bound hwf.sorted it hit
    have := bitmapSize_covers items
    omega

/-- the `sort` callback is 0 exactly on equal values, antisymmetric and transitive — all modelled types -/
theorem sort_props {ty : Ty} (hwf : ty.WF) {a b c : Value} (ha : Stored ty a) (hb : Stored ty b) (hc : Stored ty c) :
    (sort ty a b = 0 ↔ cmpEq ty a b = true) ∧ sort ty a b = -sort ty b a ∧ (sort ty a b ≤ 0 → sort ty b c ≤ 0 → sort ty a c ≤ 0) := by
  have hfa := stored_facts ha
  have hfb := stored_facts hb
  have hfc := stored_facts hc
  cases hfa with
  | int _ _ _ =>
    cases hfb; cases hfc
    simp only [sort, cmpEq, beq_iff_eq]
    exact ⟨cmpInt_zero _ _, cmpInt_antisymm _ _, cmpInt_trans _ _ _⟩
  | dec _ _ _ =>
    cases hfb; cases hfc
    simp only [sort, cmpEq, beq_iff_eq]
    exact ⟨cmpInt_zero _ _, cmpInt_antisymm _ _, cmpInt_trans _ _ _⟩
  | bool =>
    cases hfb; cases hfc
    rename_i x y z
    simp only [sort, cmpEq, beq_iff_eq, sortBool]
    refine ⟨?_, cmpInt_antisymm _ _, cmpInt_trans _ _ _⟩
    rw [cmpInt_zero]; cases x <;> cases y <;> simp
  | «enum» hma =>
    cases hfb with | «enum» hmb =>
    cases hfc with | «enum» hmc =>
    rename_i items x y z
    simp only [sort, cmpEq, beq_iff_eq]
    have hs : ∀ p q : EnumItem, sortEnum p q = cmpInt q.value p.value := by
      intro p q; unfold sortEnum cmpInt
      split <;> (try split) <;> (try split) <;> (try split) <;> omega
    rw [hs, hs, hs, hs]
    refine ⟨?_, cmpInt_antisymm _ _, fun h1 h2 => cmpInt_trans _ _ _ h2 h1⟩
    rw [cmpInt_zero]
    constructor
    · intro hv; rw [pairwise_inj (key := EnumItem.value) hwf.values y hmb x hma hv]
    · intro hn; rw [pairwise_inj (key := EnumItem.name) hwf.names x hma y hmb hn]
  | bits hva =>
    cases hfb with | bits hvb =>
    cases hfc with | bits hvc =>
    rename_i items x y z
    simp only [sort, cmpEq, beq_iff_eq, sortBits, lybBits]
    have hl : ∀ m : Nat, (leBytes (bitmapSize items) m).length = bitmapSize items := fun m => leBytes_length _ _
    refine ⟨?_, memcmp_antisymm _ _, memcmp_trans _ _ _ (by rw [hl, hl]) (by rw [hl, hl])⟩
    rw [memcmp_zero _ _ (by rw [hl, hl])]
    constructor
    · exact leBytes_inj (bitsValid_lt hwf hva) (bitsValid_lt hwf hvb)
    · intro h; rw [h]
  | str _ =>
    cases hfb; cases hfc
    simp only [sort, cmpEq, beq_iff_eq]
    exact ⟨strcmp_zero _ _, strcmp_antisymm _ _, strcmp_trans _ _ _⟩

end LyModel.Val
