import LyModel.Val.LemmasInt
import LyModel.Val.LemmasRange
/-! `ly_parse_int` / `ly_parse_uint` / `lyplg_type_parse_int` / `lyplg_type_parse_uint` in base 10 against `IntLexWs`. -/
set_option linter.unusedSimpArgs false
namespace LyModel.Val
open LyModel

theorem applySign_beq (sg : Bytes) (n : Nat) : applySign sg n = if (sg == [45]) = true then -(n : Int) else (n : Int) := by
  unfold applySign
  by_cases h : sg = [45] <;> simp [h]

theorem allSpace_head_not_digit {r : Bytes} (h : allSpace r = true) : ∀ c, r.head? = some c → isDigit c = false := by
  intro c hc
  cases r with
  | nil => simp at hc
  | cons a t =>
    simp at hc; subst hc
    simp only [allSpace, List.all_cons, Bool.and_eq_true] at h
    exact space_not_digit h.1

/-- `ly_parse_int` succeeds exactly when the scan converted something, did not overflow, the value is inside the bounds
    and only whitespace follows -/
theorem lyParseInt_ok (str : Bytes) (min max : Int) (base : Nat) (v : Int) :
    lyParseInt str min max base = .ok v ↔
      (strtoCore base str).conv = true ∧
      (if (strtoCore base str).neg then (strtoCore base str).mag ≤ 2 ^ 63 else (strtoCore base str).mag ≤ 2 ^ 63 - 1) ∧
      v = (if (strtoCore base str).neg then -((strtoCore base str).mag : Int) else ((strtoCore base str).mag : Int)) ∧
      min ≤ v ∧ v ≤ max ∧ allSpace (strtoCore base str).rest = true := by
  unfold lyParseInt
  generalize strtoCore base str = r
  rcases r with ⟨neg, mag, rest, conv⟩
  cases neg <;> cases conv <;> simp only [Bool.false_eq_true, if_false, if_true, Bool.not_false, Bool.not_true, Bool.or_true,
    Bool.or_false, false_and, reduceCtorEq, false_iff, not_false_eq_true, true_and]
  · by_cases h1 : mag > 2 ^ 63 - 1
    · simp [h1]; omega
    · by_cases h2 : (mag : Int) < min
      · simp [h1, h2]; intro _ h; omega
      · by_cases h3 : (mag : Int) > max
        · simp [h1, h2, h3]; intro _ h; omega
        · cases h4 : allSpace rest <;> simp [h1, h2, h3, h4]
          constructor
          · intro h; subst h; exact ⟨by omega, rfl, by omega, by omega⟩
          · rintro ⟨_, h, _, _⟩; exact h.symm
  · by_cases h1 : mag > 2 ^ 63
    · simp [h1]; omega
    · by_cases h2 : -(mag : Int) < min
      · simp [h1, h2]; intro _ h; omega
      · by_cases h3 : -(mag : Int) > max
        · simp [h1, h2, h3]; intro _ h; omega
        · cases h4 : allSpace rest <;> simp [h1, h2, h3, h4]
          constructor
          · intro h; subst h; exact ⟨by omega, rfl, by omega, by omega⟩
          · rintro ⟨_, h, _, _⟩; exact h.symm

theorem lyParseUint_ok (str : Bytes) (max : Nat) (base : Nat) (v : Int) :
    lyParseUint str max base = .ok v ↔
      (strtoCore base str).conv = true ∧ (strtoCore base str).mag ≤ 2 ^ 64 - 1 ∧
      v = ((if (strtoCore base str).neg then (2 ^ 64 - (strtoCore base str).mag) % 2 ^ 64 else (strtoCore base str).mag : Nat) : Int) ∧
      v ≤ max ∧ ¬ (v ≠ 0 ∧ str.head? = some 45) ∧ allSpace (strtoCore base str).rest = true := by
  unfold lyParseUint
  generalize strtoCore base str = r
  rcases r with ⟨neg, mag, rest, conv⟩
  cases conv <;> simp only [Bool.false_eq_true, if_false, if_true, Bool.not_false, Bool.not_true, Bool.or_true,
    Bool.or_false, false_and, reduceCtorEq, false_iff, not_false_eq_true, true_and]
  by_cases h1 : mag > 2 ^ 64 - 1
  · simp [h1]; omega
  · generalize hu : (if neg = true then (2 ^ 64 - mag) % 2 ^ 64 else mag) = u
    by_cases h2 : u > max
    · simp [h1, h2]; intro _ h; omega
    · by_cases h3 : (u != 0 && str.head? == some 45) = true
      · simp only [h1, h2, h3, decide_false, Bool.false_or, if_true, Bool.false_eq_true, if_false, reduceCtorEq, false_iff]
        simp at h3
        rintro ⟨_, h, _, h5, _⟩
        apply h5
        subst h
        exact ⟨by exact_mod_cast h3.1, h3.2⟩
      · cases h4 : allSpace rest <;> simp [h1, h2, h3, h4]
        simp at h3
        constructor
        · intro h; subst h
          refine ⟨by omega, rfl, by exact_mod_cast (by omega : u ≤ max), ?_⟩
          intro hne
          exact h3 (by intro hu0; apply hne; simp [hu0])
        · rintro ⟨_, h, _, _⟩; exact h.symm

theorem natCast_le_pow63 {n : Nat} : ((n : Int) ≤ 2 ^ 63) ↔ n ≤ 2 ^ 63 := by
  constructor
  · intro h; exact_mod_cast h
  · intro h; exact_mod_cast h

theorem IntLexWs.of_layout {l sg ds r : Bytes} (hl : l.all isSpace = true) (hs : IsSign sg) (hne : ds ≠ [])
    (hd : ds.all isDigit = true) (hr : r.all isSpace = true) :
    IntLexWs (l ++ sg ++ ds ++ r) (applySign sg (valOf 10 ds)) :=
  ⟨l, sg ++ ds, r, by simp, hl, hr, sg, ds, rfl, hs, hne, hd, rfl⟩

theorem lyParseInt10_iff (str : Bytes) (min max v : Int) (hmin : -(2 ^ 63) ≤ min) (hmax : max ≤ 2 ^ 63 - 1) :
    lyParseInt str min max 10 = .ok v ↔ IntLexWs str v ∧ min ≤ v ∧ v ≤ max := by
  rw [lyParseInt_ok]
  constructor
  · rintro ⟨hconv, _, hv, hlo, hhi, hsp⟩
    obtain ⟨l, sg, ds, hstr, hl, hsg, hne, hd, _, hneg, hmag⟩ := layout_of_strtoCore10 str hconv
    have hv' : v = applySign sg (valOf 10 ds) := by rw [applySign_beq, ← hneg, ← hmag]; exact hv
    refine ⟨?_, hlo, hhi⟩
    rw [hstr, hv']
    exact IntLexWs.of_layout hl hsg hne hd hsp
  · rintro ⟨⟨l, core, r, hstr, hl, hr, sg, ds, hcore, hsg, hne, hd, hv⟩, hlo, hhi⟩
    subst hcore
    have hlay := strtoCore10_of_layout (r := r) hl hsg hne hd (allSpace_head_not_digit hr)
    rw [show l ++ sg ++ ds ++ r = str by rw [hstr]; simp] at hlay
    rw [hlay]
    rw [applySign_beq] at hv
    refine ⟨rfl, ?_, hv, hlo, hhi, hr⟩
    by_cases hn : (sg == [45]) = true
    · simp only [hn, if_true] at hv ⊢
      have : ((valOf 10 ds : Nat) : Int) ≤ 2 ^ 63 := by omega
      exact_mod_cast this
    · simp only [hn, if_false, Bool.false_eq_true] at hv ⊢
      have : ((valOf 10 ds : Nat) : Int) ≤ 2 ^ 63 - 1 := by omega
      omega

theorem lyParseUint10_iff (str : Bytes) (max : Nat) (v : Int) (hmax : max ≤ 2 ^ 64 - 1)
    (hstr0 : ∀ c, str.head? = some c → isSpace c = false) :
    lyParseUint str max 10 = .ok v ↔ IntLexWs str v ∧ 0 ≤ v ∧ v ≤ max := by
  rw [lyParseUint_ok]
  constructor
  · rintro ⟨hconv, hmag64, hv, hhi, hminus, hsp⟩
    obtain ⟨l, sg, ds, hstr, hl, hsg, hne, hd, _, hneg, hmag⟩ := layout_of_strtoCore10 str hconv
    -- no leading whitespace: `l = []`
    have hl0 : l = [] := by
      cases l with
      | nil => rfl
      | cons a t =>
        have h1 := hstr0 a (by rw [hstr]; simp)
        simp only [List.all_cons, Bool.and_eq_true] at hl
        rw [hl.1] at h1; cases h1
    subst hl0
    have hv0 : 0 ≤ v := by rw [hv]; exact Int.natCast_nonneg _
    refine ⟨?_, hv0, hhi⟩
    have hv' : v = applySign sg (valOf 10 ds) := by
      rw [applySign_beq, ← hneg, ← hmag]
      by_cases hn : (strtoCore 10 str).neg = true
      · simp only [hn, if_true] at hv ⊢
        -- a '-' sign: the string starts with it, so the value must be 0
        have hsg45 : sg = [45] := by rw [hn] at hneg; simpa using hneg.symm
        have hhead : str.head? = some 45 := by rw [hstr, hsg45]; simp
        have hv00 : v = 0 := by
          cases Decidable.em (v = 0) with
          | inl h => exact h
          | inr h => exact absurd ⟨h, hhead⟩ hminus
        rw [hv00] at hv
        have : (2 ^ 64 - (strtoCore 10 str).mag) % 2 ^ 64 = 0 := by exact_mod_cast hv.symm
        have hm0 : (strtoCore 10 str).mag = 0 := by omega
        rw [hv00, hm0]; rfl
      · simp only [hn, if_false, Bool.false_eq_true] at hv ⊢
        exact hv
    rw [hstr, hv']
    exact IntLexWs.of_layout hl hsg hne hd hsp
  · rintro ⟨⟨l, core, r, hstr, hl, hr, sg, ds, hcore, hsg, hne, hd, hv⟩, hlo, hhi⟩
    subst hcore
    have hlay := strtoCore10_of_layout (r := r) hl hsg hne hd (allSpace_head_not_digit hr)
    rw [show l ++ sg ++ ds ++ r = str by rw [hstr]; simp] at hlay
    rw [hlay]
    rw [applySign_beq] at hv
    by_cases hn : (sg == [45]) = true
    · simp only [hn, if_true] at hv ⊢
      have hm0 : valOf 10 ds = 0 := by omega
      rw [hm0] at hv ⊢
      refine ⟨trivial, by omega, by simp [hv], hhi, ?_, hr⟩
      intro h; exact h.1 (by simp [hv])
    · simp only [hn, if_false, Bool.false_eq_true] at hv ⊢
      refine ⟨trivial, by omega, hv, hhi, ?_, hr⟩
      rintro ⟨_, hh⟩
      -- the string does not start with '-'
      have hl0 : l = [] := by
        cases l with
        | nil => rfl
        | cons a t =>
          have h1 := hstr0 a (by rw [hstr]; simp)
          simp only [List.all_cons, Bool.and_eq_true] at hl
          rw [hl.1] at h1; cases h1
      subst hl0
      rcases hsg with rfl | rfl | rfl
      · have := digits_head (r := r) hne hd 45 (by rw [hstr] at hh; simpa using hh)
        simp [isDigit] at this
      · rw [hstr] at hh; simp at hh
      · simp at hn

end LyModel.Val
