import LyModel.Val.LemmasBase0
import LyModel.Val.SpecBase816
/-! `strtoll`/`strtoull` with base 8 and with base 16 (hint sets whose only number bit is `LYD_VALHINT_OCTNUM` /
    `LYD_VALHINT_HEXNUM`) and the integer store against the lexical spaces `IntLexWs8` / `IntLexWs16`
    (`Val/SpecBase816.lean`).

    The step from "what the scan after white space and sign reads" to the store is the same for every base; it is done
    once (`ScanSpec`, section "generic"), then instantiated with the scans of base 8 and base 16. -/
set_option linter.unusedSimpArgs false
namespace LyModel.Val
open LyModel

/-! ### hexadecimal digits are no signs, no white space, not NUL -/

theorem oct_is_hex {c : UInt8} (h : isOctDigit c = true) : isHexDigit c = true := by
  have := (isOctDigit_iff c).mp h
  rw [isHexDigit_iff]; omega

theorem hex_not_space {c : UInt8} (h : isHexDigit c = true) : isSpace c = false := by
  cases hs : isSpace c
  · rfl
  · rw [space_not_hex hs] at h; cases h

theorem hex_not_special {c : UInt8} (h : isHexDigit c = true) : c ≠ 45 ∧ c ≠ 43 ∧ c ≠ 0 ∧ c ≠ 120 ∧ c ≠ 88 := by
  refine ⟨?_, ?_, ?_, ?_, ?_⟩ <;> (intro h0; subst h0; revert h; decide)

/-! ### generic: from the scan after white space and sign to `lyplg_type_store_int/uint` -/

/-- the lexical space of a base given the one of its unsigned numbers: optional sign, number -/
def IntLexG (NL : Bytes → Nat → Prop) (core : Bytes) (v : Int) : Prop :=
  ∃ sg body n, core = sg ++ body ∧ IsSign sg ∧ NL body n ∧ v = applySign sg n

def IntLexWsG (NL : Bytes → Nat → Prop) (s : Bytes) (v : Int) : Prop :=
  ∃ l core r, s = l ++ core ++ r ∧ l.all isSpace = true ∧ r.all isSpace = true ∧ IntLexG NL core v

/-- `scan` is what `strtoCore base` does after white space and sign (`none` = no conversion, `some (magnitude, rest)`), and
    it reads exactly the numbers described by `NL` when it has to stop before white space or the end. -/
structure ScanSpec (base : Nat) (scan : Bytes → Option (Nat × Bytes)) (NL : Bytes → Nat → Prop) : Prop where
  core_eq : ∀ (s t t1 : Bytes), s.dropWhile isSpace = t →
    (if t.head? == some 45 || t.head? == some 43 then t.tail else t) = t1 →
    strtoCore base s =
      match scan t1 with
      | none => { neg := t.head? == some 45, mag := 0, rest := s, conv := false }
      | some (m, r) => { neg := t.head? == some 45, mag := m, rest := r, conv := true }
  head : ∀ {body : Bytes} {n : Nat}, NL body n → ∃ c t, body = c :: t ∧ isHexDigit c = true
  scan_of_lex : ∀ {body r : Bytes} {n : Nat}, NL body n → r.all isSpace = true → scan (body ++ r) = some (n, r)
  lex_of_scan : ∀ {t1 r : Bytes} {n : Nat}, scan t1 = some (n, r) → r.all isSpace = true → ∃ body, t1 = body ++ r ∧ NL body n

section generic
variable {base : Nat} {scan : Bytes → Option (Nat × Bytes)} {NL : Bytes → Nat → Prop}

theorem ScanSpec.of_layout (S : ScanSpec base scan NL) {l sg body r : Bytes} {n : Nat} (hl : l.all isSpace = true) (hs : IsSign sg)
    (hb : NL body n) (hr : r.all isSpace = true) :
    strtoCore base (l ++ sg ++ body ++ r) = { neg := sg == [45], mag := n, rest := r, conv := true } := by
  obtain ⟨c, tl, hbody, hc⟩ := S.head hb
  have hc45 : c ≠ 45 ∧ c ≠ 43 := ⟨(hex_not_special hc).1, (hex_not_special hc).2.1⟩
  have hcore : ∀ c', (sg ++ (body ++ r)).head? = some c' → isSpace c' = false :=
    sign_head_not_space hs (fun c' hc' => by
      rw [hbody] at hc'; simp at hc'; subst hc'; exact hex_not_space hc)
  have ht : (l ++ sg ++ body ++ r).dropWhile isSpace = sg ++ (body ++ r) := by
    rw [List.append_assoc, List.append_assoc]
    exact dropWhile_append_stop hl hcore
  have ht1 : (if (sg ++ (body ++ r)).head? == some 45 || (sg ++ (body ++ r)).head? == some 43
      then (sg ++ (body ++ r)).tail else sg ++ (body ++ r)) = body ++ r := by
    rcases hs with rfl | rfl | rfl
    · rw [hbody]; simp [hc45.1, hc45.2]
    · simp
    · simp
  have hneg : ((sg ++ (body ++ r)).head? == some 45) = (sg == [45]) := by
    rcases hs with rfl | rfl | rfl
    · rw [hbody]; simp [hc45.1]
    · simp
    · simp
  rw [S.core_eq _ _ _ ht ht1, S.scan_of_lex hb hr]
  simp only [hneg]

theorem ScanSpec.layout_of (S : ScanSpec base scan NL) (s : Bytes) {neg : Bool} {mag : Nat} {rest : Bytes}
    (h : strtoCore base s = { neg := neg, mag := mag, rest := rest, conv := true }) (hsp : rest.all isSpace = true) :
    ∃ l sg body, s = l ++ sg ++ body ++ rest ∧ l.all isSpace = true ∧ IsSign sg ∧ NL body mag ∧ neg = (sg == [45]) := by
  have hs : s = s.takeWhile isSpace ++ s.dropWhile isSpace := List.takeWhile_append_dropWhile.symm
  have hl := all_takeWhile isSpace s
  generalize s.takeWhile isSpace = l at hs hl
  generalize ht : s.dropWhile isSpace = t at hs
  -- split off the sign
  obtain ⟨sg, t1, hsg, htt, hneg, ht1⟩ : ∃ sg t1, IsSign sg ∧ t = sg ++ t1 ∧ (t.head? == some 45) = (sg == [45]) ∧
      (if t.head? == some 45 || t.head? == some 43 then t.tail else t) = t1 := by
    cases t with
    | nil => exact ⟨[], [], Or.inl rfl, rfl, rfl, rfl⟩
    | cons a r =>
      by_cases h45 : a = 45
      · subst h45; exact ⟨[45], r, Or.inr (Or.inr rfl), rfl, by simp, by simp⟩
      · by_cases h43 : a = 43
        · subst h43; exact ⟨[43], r, Or.inr (Or.inl rfl), rfl, by simp, by simp⟩
        · exact ⟨[], a :: r, Or.inl rfl, rfl, by simp [h45], by simp [h45, h43]⟩
  rw [S.core_eq s t t1 ht ht1] at h
  cases hsc : scan t1 with
  | none => rw [hsc] at h; simp only at h; injection h with _ _ _ h; cases h
  | some p =>
    obtain ⟨m, r⟩ := p
    rw [hsc] at h
    simp only at h
    injection h with h1 h2 h3 _
    subst h2; subst h3
    obtain ⟨body, hb, hlex⟩ := S.lex_of_scan hsc hsp
    refine ⟨l, sg, body, ?_, hl, hsg, hlex, ?_⟩
    · rw [List.append_assoc, List.append_assoc, ← hb, ← htt]; exact hs
    · rw [← h1]; exact hneg

theorem IntLexWsG.of_layout {l sg body r : Bytes} {n : Nat} (hl : l.all isSpace = true) (hs : IsSign sg)
    (hb : NL body n) (hr : r.all isSpace = true) :
    IntLexWsG NL (l ++ sg ++ body ++ r) (applySign sg n) :=
  ⟨l, sg ++ body, r, by simp, hl, hr, sg, body, n, rfl, hs, hb, rfl⟩

/-! `ly_parse_int` / `ly_parse_uint` -/

theorem ScanSpec.lyParseInt_iff (S : ScanSpec base scan NL) (str : Bytes) (min max v : Int)
    (hmin : -(2 ^ 63) ≤ min) (hmax : max ≤ 2 ^ 63 - 1) :
    lyParseInt str min max base = .ok v ↔ IntLexWsG NL str v ∧ min ≤ v ∧ v ≤ max := by
  rw [lyParseInt_ok]
  constructor
  · rcases hsc : strtoCore base str with ⟨neg, mag, rest, conv⟩
    rintro ⟨hconv, _, hv, hlo, hhi, hsp⟩
    simp only at hconv hv hsp
    subst hconv
    obtain ⟨l, sg, body, hstr, hl, hsg, hlex, hneg⟩ := S.layout_of str hsc hsp
    have hv' : v = applySign sg mag := by rw [applySign_beq, ← hneg]; exact hv
    refine ⟨?_, hlo, hhi⟩
    rw [hstr, hv']
    exact IntLexWsG.of_layout hl hsg hlex hsp
  · rintro ⟨⟨l, core, r, hstr, hl, hr, sg, body, n, hcore, hsg, hlex, hv⟩, hlo, hhi⟩
    subst hcore
    have hlay := S.of_layout hl hsg hlex hr
    rw [show l ++ sg ++ body ++ r = str by rw [hstr]; simp] at hlay
    rw [hlay]
    rw [applySign_beq] at hv
    refine ⟨rfl, ?_, hv, hlo, hhi, hr⟩
    by_cases hn : (sg == [45]) = true
    · simp only [hn, if_true] at hv ⊢
      have : ((n : Nat) : Int) ≤ 2 ^ 63 := by omega
      exact_mod_cast this
    · simp only [hn, if_false, Bool.false_eq_true] at hv ⊢
      have : ((n : Nat) : Int) ≤ 2 ^ 63 - 1 := by omega
      omega

theorem ScanSpec.lyParseUint_iff (S : ScanSpec base scan NL) (str : Bytes) (max : Nat) (v : Int) (hmax : max ≤ 2 ^ 64 - 1)
    (hstr0 : ∀ c, str.head? = some c → isSpace c = false) :
    lyParseUint str max base = .ok v ↔ IntLexWsG NL str v ∧ 0 ≤ v ∧ v ≤ max := by
  rw [lyParseUint_ok]
  constructor
  · rcases hsc : strtoCore base str with ⟨neg, mag, rest, conv⟩
    rintro ⟨hconv, hmag64, hv, hhi, hminus, hsp⟩
    simp only at hconv hmag64 hv hsp
    subst hconv
    obtain ⟨l, sg, body, hstr, hl, hsg, hlex, hneg⟩ := S.layout_of str hsc hsp
    -- no leading whitespace: `l = []`
    have hl0 : l = [] := by
      cases l with
      | nil => rfl
      | cons a t =>
        have h1 := hstr0 a (by rw [hstr]; simp)
        simp only [List.all_cons, Bool.and_eq_true] at hl
        rw [hl.1] at h1; cases h1
    subst hl0
    have hv0 : 0 ≤ v := by rw [hv]; exact Int.natCast_nonneg _
    refine ⟨?_, hv0, hhi⟩
    have hv' : v = applySign sg mag := by
      rw [applySign_beq, ← hneg]
      by_cases hn : neg = true
      · simp only [hn, if_true] at hv ⊢
        -- a '-' sign: the string starts with it, so the value must be 0
        have hsg45 : sg = [45] := by rw [hn] at hneg; simpa using hneg.symm
        have hhead : str.head? = some 45 := by rw [hstr, hsg45]; simp
        have hv00 : v = 0 := by
          cases Decidable.em (v = 0) with
          | inl h => exact h
          | inr h => exact absurd ⟨h, hhead⟩ hminus
        rw [hv00] at hv
        have : (2 ^ 64 - mag) % 2 ^ 64 = 0 := by exact_mod_cast hv.symm
        have hm0 : mag = 0 := by omega
        rw [hv00, hm0]; rfl
      · simp only [hn, if_false, Bool.false_eq_true] at hv ⊢
        exact hv
    rw [hstr, hv']
    exact IntLexWsG.of_layout hl hsg hlex hsp
  · rintro ⟨⟨l, core, r, hstr, hl, hr, sg, body, n, hcore, hsg, hlex, hv⟩, hlo, hhi⟩
    subst hcore
    have hlay := S.of_layout hl hsg hlex hr
    rw [show l ++ sg ++ body ++ r = str by rw [hstr]; simp] at hlay
    rw [hlay]
    rw [applySign_beq] at hv
    by_cases hn : (sg == [45]) = true
    · simp only [hn, if_true] at hv ⊢
      have hm0 : n = 0 := by omega
      rw [hm0] at hv ⊢
      refine ⟨trivial, by omega, by simp [hv], hhi, ?_, hr⟩
      intro h; exact h.1 (by simp [hv])
    · simp only [hn, if_false, Bool.false_eq_true] at hv ⊢
      refine ⟨trivial, by omega, hv, hhi, ?_, hr⟩
      rintro ⟨_, hh⟩
      -- the string does not start with '-'
      have hl0 : l = [] := by
        cases l with
        | nil => rfl
        | cons a t =>
          have h1 := hstr0 a (by rw [hstr]; simp)
          simp only [List.all_cons, Bool.and_eq_true] at hl
          rw [hl.1] at h1; cases h1
      subst hl0
      obtain ⟨c, tl, hbody, hc⟩ := S.head hlex
      rcases hsg with rfl | rfl | rfl
      · rw [hstr, hbody] at hh; simp at hh; subst hh; exact absurd rfl (hex_not_special hc).1
      · rw [hstr] at hh; simp at hh
      · simp at hn

/-! `lyplg_type_parse_int` / `lyplg_type_parse_uint` -/

/-- the first character of a number with sign is a sign or a digit -/
theorem ScanSpec.lex_head (S : ScanSpec base scan NL) {core : Bytes} {v : Int} (h : IntLexG NL core v) :
    ∃ c t, core = c :: t ∧ isSpace c = false ∧ c ≠ 0 := by
  obtain ⟨sg, body, n, hcore, hsg, hlex, _⟩ := h
  obtain ⟨a, tl, hbody, ha⟩ := S.head hlex
  rcases hsg with rfl | rfl | rfl
  · exact ⟨a, tl, by simpa [hbody] using hcore, hex_not_space ha, (hex_not_special ha).2.2.1⟩
  · exact ⟨43, body, by simpa using hcore, by decide, by decide⟩
  · exact ⟨45, body, by simpa using hcore, by decide, by decide⟩

theorem ScanSpec.lexws_dropWhile (S : ScanSpec base scan NL) (s : Bytes) (v : Int) :
    IntLexWsG NL (s.dropWhile isSpace) v ↔ IntLexWsG NL s v := by
  constructor
  · rintro ⟨l, core, r, hs, hl, hr, hc⟩
    refine ⟨s.takeWhile isSpace ++ l, core, r, ?_, ?_, hr, hc⟩
    · rw [List.append_assoc, List.append_assoc, ← List.append_assoc l, ← hs, List.takeWhile_append_dropWhile]
    · rw [List.all_append, all_takeWhile, hl]; rfl
  · rintro ⟨l, core, r, hs, hl, hr, hc⟩
    obtain ⟨c, t, hcore, hsp, _⟩ := S.lex_head hc
    refine ⟨[], core, r, ?_, rfl, hr, hc⟩
    rw [hs, List.append_assoc]
    rw [dropWhile_append_stop hl]
    · simp
    · intro c' hc'
      rw [hcore] at hc'; simp at hc'; subst hc'; exact hsp

theorem ScanSpec.lexws_dropWhile_head (S : ScanSpec base scan NL) {s : Bytes} {v : Int} (h : IntLexWsG NL s v) :
    ∃ c t, s.dropWhile isSpace = c :: t ∧ isSpace c = false ∧ c ≠ 0 := by
  obtain ⟨l, core, r, hs, hl, hr, hc⟩ := h
  obtain ⟨c, t, hcore, hsp, h0⟩ := S.lex_head hc
  refine ⟨c, t ++ r, ?_, hsp, h0⟩
  rw [hs, List.append_assoc, dropWhile_append_stop hl]
  · rw [hcore]; rfl
  · intro c' hc'
    rw [hcore] at hc'; simp at hc'; subst hc'; exact hsp

theorem ScanSpec.parseInt_iff (S : ScanSpec base scan NL) (value : Bytes) (min max v : Int) (h0 : (0 : UInt8) ∉ value)
    (hmin : -(2 ^ 63) ≤ min) (hmax : max ≤ 2 ^ 63 - 1) :
    parseInt base min max value = .ok v ↔ IntLexWsG NL value v ∧ min ≤ v ∧ v ≤ max := by
  unfold parseInt
  have hc := cstr_of_no_nul (no_nul_dropWhile isSpace h0)
  constructor
  · intro h
    simp only at h
    split at h
    · cases h
    · rw [hc, S.lyParseInt_iff _ _ _ _ hmin hmax, S.lexws_dropWhile] at h
      exact h
  · rintro ⟨hl, hlo, hhi⟩
    obtain ⟨c, t, hd, _, hc0⟩ := S.lexws_dropWhile_head hl
    simp only
    rw [hc, hd]
    have : ((c :: t).isEmpty || (c :: t).head? == some 0) = false := by simp [hc0]
    rw [if_neg (by rw [this]; simp)]
    rw [← hd, S.lyParseInt_iff _ _ _ _ hmin hmax, S.lexws_dropWhile]
    exact ⟨hl, hlo, hhi⟩

theorem ScanSpec.parseUint_iff (S : ScanSpec base scan NL) (value : Bytes) (max : Nat) (v : Int) (h0 : (0 : UInt8) ∉ value)
    (hmax : max ≤ 2 ^ 64 - 1) :
    parseUint base max value = .ok v ↔ IntLexWsG NL value v ∧ 0 ≤ v ∧ v ≤ max := by
  unfold parseUint
  have hc := cstr_of_no_nul (no_nul_dropWhile isSpace h0)
  have hhead : ∀ c, (value.dropWhile isSpace).head? = some c → isSpace c = false := head_dropWhile isSpace value
  constructor
  · intro h
    simp only at h
    split at h
    · cases h
    · rw [hc, S.lyParseUint_iff _ _ _ hmax hhead, S.lexws_dropWhile] at h
      exact h
  · rintro ⟨hl, hlo, hhi⟩
    obtain ⟨c, t, hd, _, hc0⟩ := S.lexws_dropWhile_head hl
    simp only
    rw [hc]
    have : ((value.dropWhile isSpace).isEmpty || (value.dropWhile isSpace).head? == some 0) = false := by rw [hd]; simp [hc0]
    rw [if_neg (by rw [this]; simp)]
    rw [S.lyParseUint_iff _ _ _ hmax hhead, S.lexws_dropWhile]
    exact ⟨hl, hlo, hhi⟩

/-- the store, for any base whose scan is specified -/
theorem ScanSpec.storeInt_accept_iff (S : ScanSpec base scan NL) (t : IntTy) (range : List (Int × Int)) (hints : Nat) (s : Bytes) (v : Int)
    (h0 : (0 : UInt8) ∉ s) (hb : checkHints hints t.name = some base) (hwf : PartsWF t.min t.max range) :
    storeInt t range hints s = .ok v ↔ IntLexWsG NL s v ∧ t.min ≤ v ∧ v ≤ t.max ∧ InParts range v := by
  apply storeInt_accept_iff_of_parse t range hints s v base (IntLexWsG NL) hb hwf
  intro num
  cases hs : t.signed
  · obtain ⟨h1, h2, h3⟩ := IntTy.umax t hs
    simp only [Bool.false_eq_true, if_false]
    rw [S.parseUint_iff s _ num h0 h1, h2, h3]
  · obtain ⟨h1, h2⟩ := IntTy.bounds_in_int64 t hs
    simp only [if_true]
    rw [S.parseInt_iff s _ _ num h0 h1 h2]

end generic

/-! ### base 8 -/

theorem hasHexPrefix8 (t : Bytes) : hasHexPrefix 8 t = false := by
  unfold hasHexPrefix
  split <;> simp

/-- the part of `strtoCore 8` that follows white space and sign -/
def scan8 (t1 : Bytes) : Option (Nat × Bytes) :=
  if (t1.takeWhile isOctDigit).isEmpty then none
  else some (valOf 8 (t1.takeWhile isOctDigit), t1.dropWhile isOctDigit)

theorem strtoCore8_eq (s t t1 : Bytes) (ht : s.dropWhile isSpace = t)
    (ht1 : (if t.head? == some 45 || t.head? == some 43 then t.tail else t) = t1) :
    strtoCore 8 s =
      match scan8 t1 with
      | none => { neg := t.head? == some 45, mag := 0, rest := s, conv := false }
      | some (m, r) => { neg := t.head? == some 45, mag := m, rest := r, conv := true } := by
  subst ht
  unfold strtoCore
  simp only [ht1, hasHexPrefix8, Bool.false_eq_true, if_false]
  unfold scan8
  have e : (if ((8 : Nat) == 0) = true then (if (t1.head? == some 48) = true then 8 else 10) else 8) = 8 := if_neg (by decide)
  simp only [e, isDigitB8_fun]
  split <;> rfl

theorem NatLex8.head {body : Bytes} {n : Nat} (h : NatLex8 body n) : ∃ c t, body = c :: t ∧ isHexDigit c = true := by
  obtain ⟨hne, hd, _⟩ := h
  cases body with
  | nil => exact absurd rfl hne
  | cons a t =>
    simp only [List.all_cons, Bool.and_eq_true] at hd
    exact ⟨a, t, rfl, oct_is_hex hd.1⟩

theorem scan8_of_lex {body r : Bytes} {n : Nat} (hb : NatLex8 body n) (hr : r.all isSpace = true) :
    scan8 (body ++ r) = some (n, r) := by
  have hrs := allSpace_head hr
  obtain ⟨hne, hd, hn⟩ := hb
  have htw : (body ++ r).takeWhile isOctDigit = body := takeWhile_append_stop hd (fun c hc => space_not_oct (hrs c hc))
  have hdw : (body ++ r).dropWhile isOctDigit = r := dropWhile_append_stop hd (fun c hc => space_not_oct (hrs c hc))
  have hne' : body.isEmpty = false := by cases body <;> simp_all
  unfold scan8
  rw [htw, hdw, hne', hn]
  rfl

theorem lex_of_scan8 {t1 r : Bytes} {n : Nat} (h : scan8 t1 = some (n, r)) (_hr : r.all isSpace = true) :
    ∃ body, t1 = body ++ r ∧ NatLex8 body n := by
  unfold scan8 at h
  split at h
  · cases h
  · rename_i hem
    injection h with h; injection h with hn hrest
    refine ⟨t1.takeWhile isOctDigit, ?_, ?_, all_takeWhile _ _, hn.symm⟩
    · rw [← hrest, List.takeWhile_append_dropWhile]
    · intro h0; rw [h0] at hem; simp at hem

theorem scanSpec8 : ScanSpec 8 scan8 NatLex8 :=
  ⟨strtoCore8_eq, NatLex8.head, scan8_of_lex, lex_of_scan8⟩

theorem IntLexWs8_iff (s : Bytes) (v : Int) : IntLexWs8 s v ↔ IntLexWsG NatLex8 s v := Iff.rfl

/-- Acceptance under hints that select base 8 ⇔ optional white space, optional sign, one or more octal digits, optional
    white space; the value — in base 8 — inside the bounds of the type and in the union of the range parts. -/
theorem storeInt_accept_iff_base8 (t : IntTy) (range : List (Int × Int)) (hints : Nat) (s : Bytes) (v : Int)
    (h0 : (0 : UInt8) ∉ s) (hb : checkHints hints t.name = some 8) (hwf : PartsWF t.min t.max range) :
    storeInt t range hints s = .ok v ↔ IntLexWs8 s v ∧ t.min ≤ v ∧ v ≤ t.max ∧ InParts range v :=
  scanSpec8.storeInt_accept_iff t range hints s v h0 hb hwf

/-! ### base 16 -/

/-- the part of `strtoCore 16` that follows white space and sign -/
def scan16 (t1 : Bytes) : Option (Nat × Bytes) :=
  if hasHexPrefix 16 t1 then
    if ((t1.drop 2).takeWhile isHexDigit).isEmpty then some (0, t1.drop 1)
    else some (valOf 16 ((t1.drop 2).takeWhile isHexDigit), (t1.drop 2).dropWhile isHexDigit)
  else
    if (t1.takeWhile isHexDigit).isEmpty then none
    else some (valOf 16 (t1.takeWhile isHexDigit), t1.dropWhile isHexDigit)

theorem strtoCore16_eq (s t t1 : Bytes) (ht : s.dropWhile isSpace = t)
    (ht1 : (if t.head? == some 45 || t.head? == some 43 then t.tail else t) = t1) :
    strtoCore 16 s =
      match scan16 t1 with
      | none => { neg := t.head? == some 45, mag := 0, rest := s, conv := false }
      | some (m, r) => { neg := t.head? == some 45, mag := m, rest := r, conv := true } := by
  subst ht
  unfold strtoCore
  simp only [ht1]
  unfold scan16
  have e : (if ((16 : Nat) == 0) = true then (if (t1.head? == some 48) = true then 8 else 10) else 16) = 16 := if_neg (by decide)
  simp only [e, isDigitB16_fun]
  by_cases hp : hasHexPrefix 16 t1 = true
  · simp only [hp, if_true]; split <;> rfl
  · simp only [hp, if_false, Bool.false_eq_true]; split <;> rfl

theorem NatLex16.head {body : Bytes} {n : Nat} (h : NatLex16 body n) : ∃ c t, body = c :: t ∧ isHexDigit c = true := by
  rcases h with ⟨x, ds, hb, _⟩ | ⟨hne, hd, _⟩
  · exact ⟨48, x :: ds, hb, by decide⟩
  · cases body with
    | nil => exact absurd rfl hne
    | cons a t =>
      simp only [List.all_cons, Bool.and_eq_true] at hd
      exact ⟨a, t, rfl, hd.1⟩

theorem scan16_of_lex {body r : Bytes} {n : Nat} (hb : NatLex16 body n) (hr : r.all isSpace = true) :
    scan16 (body ++ r) = some (n, r) := by
  have hrs := allSpace_head hr
  rcases hb with ⟨x, ds, hb, hx, hne, hd, hn⟩ | ⟨hne, hd, hn⟩
  · subst hb
    have hp : hasHexPrefix 16 (48 :: x :: ds ++ r) = true := by
      rcases hx with rfl | rfl <;> rfl
    have htw : (ds ++ r).takeWhile isHexDigit = ds := takeWhile_append_stop hd (fun c hc => space_not_hex (hrs c hc))
    have hdw : (ds ++ r).dropWhile isHexDigit = r := dropWhile_append_stop hd (fun c hc => space_not_hex (hrs c hc))
    have hne' : ds.isEmpty = false := by cases ds <;> simp_all
    have e2 : List.drop 2 (48 :: x :: ds ++ r) = ds ++ r := rfl
    unfold scan16
    rw [if_pos hp, e2, htw, hdw, hne', hn]
    rfl
  · -- no prefix: the second character, if any, is a hexadecimal digit or white space, not an `x`
    have hp : hasHexPrefix 16 (body ++ r) = false := by
      cases body with
      | nil => exact absurd rfl hne
      | cons a ds =>
        show hasHexPrefix 16 (a :: (ds ++ r)) = false
        apply hasHexPrefix_false_of_second
        intro c hc
        simp only [List.all_cons, Bool.and_eq_true] at hd
        cases ds with
        | nil =>
          have := hrs c (by simpa using hc)
          constructor <;> (intro h; subst h; revert this; decide)
        | cons b t =>
          simp at hc; subst hc
          simp only [List.all_cons, Bool.and_eq_true] at hd
          have := hex_not_special hd.2.1
          exact ⟨this.2.2.2.1, this.2.2.2.2⟩
    have htw : (body ++ r).takeWhile isHexDigit = body := takeWhile_append_stop hd (fun c hc => space_not_hex (hrs c hc))
    have hdw : (body ++ r).dropWhile isHexDigit = r := dropWhile_append_stop hd (fun c hc => space_not_hex (hrs c hc))
    have hne' : body.isEmpty = false := by cases body <;> simp_all
    unfold scan16
    rw [if_neg (by rw [hp]; simp), htw, hdw, hne', hn]
    rfl

theorem lex_of_scan16 {t1 r : Bytes} {n : Nat} (h : scan16 t1 = some (n, r)) (hr : r.all isSpace = true) :
    ∃ body, t1 = body ++ r ∧ NatLex16 body n := by
  unfold scan16 at h
  split at h
  · rename_i hp
    obtain ⟨x, rest, ht, hx⟩ := hasHexPrefix_true hp
    subst ht
    simp only [List.drop_succ_cons, List.drop_zero] at h
    split at h
    · -- `0x` without a digit: the rest starts with the `x`
      injection h with h; injection h with _ h
      subst h
      have := allSpace_head hr x rfl
      rcases hx with rfl | rfl <;> exact absurd this (by decide)
    · rename_i hem
      injection h with h; injection h with hn hrest
      refine ⟨48 :: x :: rest.takeWhile isHexDigit, ?_, Or.inl ⟨x, _, rfl, hx, ?_, all_takeWhile _ _, hn.symm⟩⟩
      · rw [← hrest]; simp [List.takeWhile_append_dropWhile]
      · intro h0; rw [h0] at hem; simp at hem
  · split at h
    · cases h
    · rename_i hem
      injection h with h; injection h with hn hrest
      refine ⟨t1.takeWhile isHexDigit, ?_, Or.inr ⟨?_, all_takeWhile _ _, hn.symm⟩⟩
      · rw [← hrest, List.takeWhile_append_dropWhile]
      · intro h0; rw [h0] at hem; simp at hem

theorem scanSpec16 : ScanSpec 16 scan16 NatLex16 :=
  ⟨strtoCore16_eq, NatLex16.head, scan16_of_lex, lex_of_scan16⟩

theorem IntLexWs16_iff (s : Bytes) (v : Int) : IntLexWs16 s v ↔ IntLexWsG NatLex16 s v := Iff.rfl

/-- Acceptance under hints that select base 16 ⇔ optional white space, optional sign, optional `0x`/`0X`, one or more
    hexadecimal digits, optional white space; the value — in base 16 — inside the bounds of the type and in the union of
    the range parts. -/
theorem storeInt_accept_iff_base16 (t : IntTy) (range : List (Int × Int)) (hints : Nat) (s : Bytes) (v : Int)
    (h0 : (0 : UInt8) ∉ s) (hb : checkHints hints t.name = some 16) (hwf : PartsWF t.min t.max range) :
    storeInt t range hints s = .ok v ↔ IntLexWs16 s v ∧ t.min ≤ v ∧ v ≤ t.max ∧ InParts range v :=
  scanSpec16.storeInt_accept_iff t range hints s v h0 hb hwf

/-! ### the canonical (decimal) form under base 8 / base 16: read back unchanged only when it is a single digit of the base -/

theorem natDec_lex8 {n : Nat} (h : n < 8) : NatLex8 (natDec n) n := by
  rw [natDec_lt10 (by omega : n < 10)]
  refine ⟨by simp, ?_, ?_⟩
  · have := digitChar_toNat (by omega : n < 10)
    simp only [List.all_cons, List.all_nil, Bool.and_true]
    rw [isOctDigit_iff]; omega
  · simp [valOf, digitChar_raw (by omega : n < 10)]

theorem natDec_lex16 {n : Nat} (h : n < 10) : NatLex16 (natDec n) n := by
  rw [natDec_lt10 h]
  refine Or.inr ⟨by simp, ?_, ?_⟩
  · have := digitChar_toNat h
    simp only [List.all_cons, List.all_nil, Bool.and_true]
    rw [isHexDigit_iff]; omega
  · simp [valOf, digitChar_raw h]

/-- `store (canon v) = v` under hints that select base 8, for the values whose canonical string is one octal digit -/
theorem storeInt_canon_base8 (t : IntTy) (range : List (Int × Int)) (hints : Nat) (v : Int)
    (hb : checkHints hints t.name = some 8) (hwf : PartsWF t.min t.max range)
    (hlo : t.min ≤ v) (hhi : v ≤ t.max) (hin : InParts range v) (hsmall : v.natAbs < 8) :
    storeInt t range hints (canonInt v) = .ok v := by
  refine (storeInt_accept_iff_base8 t range hints _ v (intDec_no_nul v) hb hwf).mpr ⟨?_, hlo, hhi, hin⟩
  refine ⟨[], intDec v, [], by simp, rfl, rfl, ?_⟩
  rw [intDec_eq]
  exact ⟨sgnOf v, natDec v.natAbs, v.natAbs, rfl, sgnOf_isSign v, natDec_lex8 hsmall, by rw [applySign_sgnOf]⟩

/-- … and under hints that select base 16, for the values whose canonical string is one decimal digit -/
theorem storeInt_canon_base16 (t : IntTy) (range : List (Int × Int)) (hints : Nat) (v : Int)
    (hb : checkHints hints t.name = some 16) (hwf : PartsWF t.min t.max range)
    (hlo : t.min ≤ v) (hhi : v ≤ t.max) (hin : InParts range v) (hsmall : v.natAbs < 10) :
    storeInt t range hints (canonInt v) = .ok v := by
  refine (storeInt_accept_iff_base16 t range hints _ v (intDec_no_nul v) hb hwf).mpr ⟨?_, hlo, hhi, hin⟩
  refine ⟨[], intDec v, [], by simp, rfl, rfl, ?_⟩
  rw [intDec_eq]
  exact ⟨sgnOf v, natDec v.natAbs, v.natAbs, rfl, sgnOf_isSign v, natDec_lex16 hsmall, by rw [applySign_sgnOf]⟩

/-! ### … and only then: the exact set of values whose canonical string is read back unchanged -/

theorem valOf8_natDec_le (n : Nat) : valOf 8 (natDec n) ≤ n := by
  induction n using Nat.strongRecOn with
  | _ n ih =>
    by_cases h : n < 10
    · rw [natDec_lt10 h]; simp [valOf, digitChar_raw h]
    · rw [natDec_ge10 h, valOf_snoc, digitChar_raw (Nat.mod_lt _ (by decide))]
      have := ih (n / 10) (by omega)
      omega

/-- two or more decimal digits read in base 8 give a smaller number -/
theorem valOf8_natDec_lt {n : Nat} (h : ¬ n < 10) : valOf 8 (natDec n) < n := by
  rw [natDec_ge10 h, valOf_snoc, digitChar_raw (Nat.mod_lt _ (by decide))]
  have := valOf8_natDec_le (n / 10)
  omega

theorem valOf16_natDec_ge (n : Nat) : n ≤ valOf 16 (natDec n) := by
  induction n using Nat.strongRecOn with
  | _ n ih =>
    by_cases h : n < 10
    · rw [natDec_lt10 h]; simp [valOf, digitChar_raw h]
    · rw [natDec_ge10 h, valOf_snoc, digitChar_raw (Nat.mod_lt _ (by decide))]
      have := ih (n / 10) (by omega)
      omega

/-- two or more decimal digits read in base 16 give a greater number -/
theorem valOf16_natDec_gt {n : Nat} (h : ¬ n < 10) : n < valOf 16 (natDec n) := by
  rw [natDec_ge10 h, valOf_snoc, digitChar_raw (Nat.mod_lt _ (by decide))]
  have := valOf16_natDec_ge (n / 10)
  omega

theorem applySign_inj {sg : Bytes} {a b : Nat} (h : applySign sg a = applySign sg b) : a = b := by
  unfold applySign at h
  split at h <;> omega

/-- a canonical string that is a lexical value of the base: it has no white space, its sign is the sign of the value and
    its digits are the number -/
theorem ScanSpec.lexws_intDec {base : Nat} {scan : Bytes → Option (Nat × Bytes)} {NL : Bytes → Nat → Prop}
    (S : ScanSpec base scan NL) {v w : Int} (h : IntLexWsG NL (intDec v) w) :
    ∃ m, NL (natDec v.natAbs) m ∧ w = applySign (sgnOf v) m := by
  obtain ⟨l, core, r, hs, hl, hr, sg, body, m, hcore, hsg, hb, hw⟩ := h
  -- the digits
  obtain ⟨d, ds, hnd⟩ : ∃ d ds, natDec v.natAbs = d :: ds := by
    cases hn : natDec v.natAbs with
    | nil => exact absurd hn (natDec_ne_nil _)
    | cons d ds => exact ⟨d, ds, rfl⟩
  have hdig := natDec_all_digits v.natAbs
  have hd : isDigit d = true := by
    rw [hnd] at hdig; simp only [List.all_cons, Bool.and_eq_true] at hdig; exact hdig.1
  have hd45 : d ≠ 45 ∧ d ≠ 43 := by
    constructor <;> (intro h0; subst h0; revert hd; decide)
  -- no white space anywhere in the canonical string
  have hnsp : ∀ c ∈ intDec v, isSpace c = false := by
    intro c hc
    rw [intDec_eq, List.mem_append] at hc
    rcases hc with hc | hc
    · unfold sgnOf at hc
      split at hc
      · simp at hc; subst hc; decide
      · simp at hc
    · exact digit_not_space ((all_iff.mp hdig) c hc)
  have hl0 : l = [] := by
    cases l with
    | nil => rfl
    | cons a t =>
      have h1 := hnsp a (by rw [hs]; simp)
      simp only [List.all_cons, Bool.and_eq_true] at hl
      rw [hl.1] at h1; cases h1
  have hr0 : r = [] := by
    cases r with
    | nil => rfl
    | cons a t =>
      have h1 := hnsp a (by rw [hs]; simp)
      simp only [List.all_cons, Bool.and_eq_true] at hr
      rw [hr.1] at h1; cases h1
  subst hl0; subst hr0; subst hcore
  simp only [List.nil_append, List.append_nil] at hs
  obtain ⟨c, tl, hbody, hc⟩ := S.head hb
  have hc45 : c ≠ 45 ∧ c ≠ 43 := ⟨(hex_not_special hc).1, (hex_not_special hc).2.1⟩
  rw [intDec_eq, hnd] at hs
  refine ⟨m, ?_, ?_⟩
  · -- the body is the digit string
    rw [hnd]
    unfold sgnOf at hs
    split at hs
    · rcases hsg with rfl | rfl | rfl
      · rw [hbody] at hs; simp at hs; exact absurd hs.1.symm hc45.1
      · simp at hs
      · simp at hs; rw [hs]; exact hb
    · rcases hsg with rfl | rfl | rfl
      · simp at hs; rw [hs]; exact hb
      · simp at hs; exact absurd hs.1 hd45.2
      · simp at hs; exact absurd hs.1 hd45.1
  · -- the sign is the sign of `v`
    rw [hw]
    by_cases hneg : v < 0
    · have e : sgnOf v = [45] := by unfold sgnOf; rw [if_pos hneg]
      rw [e] at hs ⊢
      rcases hsg with rfl | rfl | rfl
      · rw [hbody] at hs; simp at hs; exact absurd hs.1.symm hc45.1
      · simp at hs
      · rfl
    · have e : sgnOf v = [] := by unfold sgnOf; rw [if_neg hneg]
      rw [e] at hs ⊢
      rcases hsg with rfl | rfl | rfl
      · rfl
      · simp at hs; exact absurd hs.1 hd45.2
      · simp at hs; exact absurd hs.1 hd45.1

/-- under hints that select base 8 the canonical string of an admissible value is read back as that value exactly when it
    is a single octal digit with optional `-` -/
theorem storeInt_canon_base8_iff (t : IntTy) (range : List (Int × Int)) (hints : Nat) (v : Int)
    (hb : checkHints hints t.name = some 8) (hwf : PartsWF t.min t.max range)
    (hlo : t.min ≤ v) (hhi : v ≤ t.max) (hin : InParts range v) :
    storeInt t range hints (canonInt v) = .ok v ↔ v.natAbs < 8 := by
  constructor
  · intro h
    have hl := ((storeInt_accept_iff_base8 t range hints _ v (intDec_no_nul v) hb hwf).mp h).1
    obtain ⟨m, ⟨_, hoct, hm⟩, hv⟩ := scanSpec8.lexws_intDec hl
    have hmn : v.natAbs = m := applySign_inj (sg := sgnOf v) (by rw [applySign_sgnOf, ← hv])
    by_cases h10 : v.natAbs < 10
    · rw [natDec_lt10 h10] at hoct
      simp only [List.all_cons, List.all_nil, Bool.and_true] at hoct
      have h1 := (isOctDigit_iff _).mp hoct
      have h2 := digitChar_toNat h10
      omega
    · have := valOf8_natDec_lt h10
      omega
  · exact storeInt_canon_base8 t range hints v hb hwf hlo hhi hin

/-- … under hints that select base 16: exactly when it is a single decimal digit with optional `-` -/
theorem storeInt_canon_base16_iff (t : IntTy) (range : List (Int × Int)) (hints : Nat) (v : Int)
    (hb : checkHints hints t.name = some 16) (hwf : PartsWF t.min t.max range)
    (hlo : t.min ≤ v) (hhi : v ≤ t.max) (hin : InParts range v) :
    storeInt t range hints (canonInt v) = .ok v ↔ v.natAbs < 10 := by
  constructor
  · intro h
    have hl := ((storeInt_accept_iff_base16 t range hints _ v (intDec_no_nul v) hb hwf).mp h).1
    obtain ⟨m, hnl, hv⟩ := scanSpec16.lexws_intDec hl
    have hmn : v.natAbs = m := applySign_inj (sg := sgnOf v) (by rw [applySign_sgnOf, ← hv])
    rcases hnl with ⟨x, ds, hnd, hx, _⟩ | ⟨_, _, hm⟩
    · -- a canonical string has no `x`
      have hdig := natDec_all_digits v.natAbs
      rw [hnd] at hdig
      simp only [List.all_cons, Bool.and_eq_true] at hdig
      rcases hx with rfl | rfl <;> exact absurd hdig.2.1 (by decide)
    · by_cases h10 : v.natAbs < 10
      · exact h10
      · have := valOf16_natDec_gt h10
        omega
  · exact storeInt_canon_base16 t range hints v hb hwf hlo hhi hin

/-! ### which base a hint set selects -/

theorem hintBit_mod128 (hints bit : Nat) (hb : bit = 2 ∨ bit = 4 ∨ bit = 8 ∨ bit = 16) :
    hintBit (hints % 128) bit = hintBit hints bit := by
  unfold hintBit
  rcases hb with rfl | rfl | rfl | rfl
  · rw [show hints % 128 / 2 % 2 = hints / 2 % 2 by omega]
  · rw [show hints % 128 / 4 % 2 = hints / 4 % 2 by omega]
  · rw [show hints % 128 / 8 % 2 = hints / 8 % 2 by omega]
  · rw [show hints % 128 / 16 % 2 = hints / 16 % 2 by omega]

theorem checkHints_mod128 (hints : Nat) (ty : String) : checkHints (hints % 128) ty = checkHints hints ty := by
  unfold checkHints; simp

theorem intHintsAllowed_mod128 (hints : Nat) (t : IntTy) : intHintsAllowed (hints % 128) t = intHintsAllowed hints t := by
  unfold intHintsAllowed
  rw [hintBit_mod128 hints Generated.LYD_VALHINT_NUM64 (by decide), hintBit_mod128 hints Generated.LYD_VALHINT_DECNUM (by decide),
    hintBit_mod128 hints Generated.LYD_VALHINT_OCTNUM (by decide), hintBit_mod128 hints Generated.LYD_VALHINT_HEXNUM (by decide)]

theorem baseOfHints_mod128 (b0 hints : Nat) : baseOfHints b0 (hints % 128) = baseOfHints b0 hints := by
  unfold baseOfHints
  rw [hintBit_mod128 hints Generated.LYD_VALHINT_DECNUM (by decide),
    hintBit_mod128 hints Generated.LYD_VALHINT_OCTNUM (by decide), hintBit_mod128 hints Generated.LYD_VALHINT_HEXNUM (by decide)]

/-- the base of a hint set without any number bit, read from the table of the tree at hand (`LYD_VALHINT_NUM64` alone at int64) -/
def noNumberBitBase : Nat := (checkHints Generated.LYD_VALHINT_NUM64 "int64").getD 10

/-- the eight integer types -/
def allIntTys : List IntTy := [.int8, .int16, .int32, .int64, .uint8, .uint16, .uint32, .uint64]

theorem mem_allIntTys (t : IntTy) : t ∈ allIntTys := by cases t <;> decide

/-- the whole (finite) table: 128 hint values × 8 integer types, decided by evaluation -/
theorem checkHints_table_spec : (noNumberBitBase = 10 ∨ noNumberBitBase = 0) ∧
    ∀ h : Fin 128, ∀ t ∈ allIntTys,
      checkHints h.val t.name = if intHintsAllowed h.val t then some (baseOfHints noNumberBitBase h.val) else none := by
  decide

theorem checkHints_eq_baseOfHints (hints : Nat) (t : IntTy) :
    checkHints hints t.name = if intHintsAllowed hints t then some (baseOfHints noNumberBitBase hints) else none := by
  have hm : hints % 128 < 128 := Nat.mod_lt _ (by decide)
  have := checkHints_table_spec.2 ⟨hints % 128, hm⟩ t (mem_allIntTys t)
  simp only [checkHints_mod128, intHintsAllowed_mod128, baseOfHints_mod128] at this
  exact this

end LyModel.Val
