import LyModel.Val.Model
/-!
# Specification side of C03 (written from RFC 7950 §9, not from the code)

Lexical spaces and denotations against which the `Impl` functions of `Model.lean` are proved.
-/
namespace LyModel.Val
open LyModel

/-- the optional sign of a number: nothing, `+` or `-` -/
def IsSign (sg : Bytes) : Prop := sg = [] ∨ sg = [43] ∨ sg = [45]

/-- apply a sign to a magnitude -/
def applySign (sg : Bytes) (n : Nat) : Int := if sg = [45] then -(n : Int) else (n : Int)

/-- RFC 7950 §9.2.1: "an optional sign ("+" or "-"), followed by a sequence of decimal digits"; `v` is the denotation. -/
def IntLex (core : Bytes) (v : Int) : Prop :=
  ∃ sg ds, core = sg ++ ds ∧ IsSign sg ∧ ds ≠ [] ∧ ds.all isDigit = true ∧ v = applySign sg (valOf 10 ds)

/-- The lexical space as libyang documents it: surrounding whitespace is ignored. -/
def IntLexWs (s : Bytes) (v : Int) : Prop :=
  ∃ l core r, s = l ++ core ++ r ∧ l.all isSpace = true ∧ r.all isSpace = true ∧ IntLex core v

/-- membership in the union of the parts of a `range` statement; no statement = no restriction -/
def InParts (parts : List (Int × Int)) (v : Int) : Prop := parts = [] ∨ ∃ p ∈ parts, p.1 ≤ v ∧ v ≤ p.2

/-- a compiled `range`: every part non-empty, parts ascending and disjoint, all inside `[lo, hi]` -/
def PartsWF (lo hi : Int) : List (Int × Int) → Prop
  | [] => True
  | [(a, b)] => lo ≤ a ∧ a ≤ b ∧ b ≤ hi
  | (a, b) :: (c, d) :: rest => lo ≤ a ∧ a ≤ b ∧ b < c ∧ PartsWF lo hi ((c, d) :: rest)

/-- RFC 7950 §9.3.1: optional sign, digits, optionally a point and digits.  `ip`, `fr` are the two digit strings. -/
def DecLex (core : Bytes) (sg ip fr : Bytes) (point : Bool) : Prop :=
  IsSign sg ∧ ip.all isDigit = true ∧ fr.all isDigit = true ∧
  (core = if point then sg ++ ip ++ [46] ++ fr else sg ++ ip) ∧ (point = true → fr ≠ []) ∧ (point = false → fr = [])

/-- denotation of a decimal64 lexical value as a mantissa with `fd` fraction digits, when it is representable:
    the fraction digits beyond `fd` must all be zero -/
def decDenotes (fd : Nat) (sg ip fr : Bytes) (k : Int) : Prop :=
  ∃ frs : Bytes, frs.length ≤ fd ∧ (∃ z : Nat, fr = frs ++ zeros z) ∧ (frs.getLast? ≠ some 48) ∧
    k = applySign sg (valOf 10 (ip ++ frs ++ zeros (fd - frs.length)))

/-- canonical form of an integer (RFC 7950 §9.2.2): no `+`, no leading zeros, `0` not negative -/
def IsCanonInt (s : Bytes) : Prop :=
  ∃ sg ds, s = sg ++ ds ∧ (sg = [] ∨ sg = [45]) ∧ ds ≠ [] ∧ ds.all isDigit = true ∧
    (ds.head? = some 48 → ds = [48] ∧ sg = [])

/-- canonical form of a decimal64 (RFC 7950 §9.3.2): no `+`, at least one digit on each side of the point, no leading
    zeros before it (other than a single `0`), no trailing zeros after it (other than a single `0`) -/
def IsCanonDec (s : Bytes) : Prop :=
  ∃ sg ip fr, s = sg ++ ip ++ [46] ++ fr ∧ (sg = [] ∨ sg = [45]) ∧ ip ≠ [] ∧ fr ≠ [] ∧ ip.all isDigit = true ∧ fr.all isDigit = true ∧
    (ip.head? = some 48 → ip = [48]) ∧ (fr.getLast? = some 48 → fr = [48])

end LyModel.Val
