import LyModel.Val.Model
/-!
# Specification side of C03 (written from RFC 7950 §9, not from the code)

Lexical spaces and denotations against which the `Impl` functions of `Model.lean` are proved.
-/
namespace LyModel.Val
open LyModel

/-- the optional sign of a number: nothing, `+` or `-` -/
def IsSign (sg : Bytes) : Prop := sg = [] ∨ sg = [43] ∨ sg = [45]

/-- apply a sign to a magnitude -/
def applySign (sg : Bytes) (n : Nat) : Int := if sg = [45] then -(n : Int) else (n : Int)

/-- RFC 7950 §9.2.1: "an optional sign ("+" or "-"), followed by a sequence of decimal digits"; `v` is the denotation. -/
def IntLex (core : Bytes) (v : Int) : Prop :=
  ∃ sg ds, core = sg ++ ds ∧ IsSign sg ∧ ds ≠ [] ∧ ds.all isDigit = true ∧ v = applySign sg (valOf 10 ds)

/-- The lexical space as libyang documents it: surrounding whitespace is ignored. -/
def IntLexWs (s : Bytes) (v : Int) : Prop :=
  ∃ l core r, s = l ++ core ++ r ∧ l.all isSpace = true ∧ r.all isSpace = true ∧ IntLex core v

/-- membership in the union of the parts of a `range` statement; no statement = no restriction -/
def InParts (parts : List (Int × Int)) (v : Int) : Prop := parts = [] ∨ ∃ p ∈ parts, p.1 ≤ v ∧ v ≤ p.2

/-- a compiled `range`: every part non-empty, parts ascending and disjoint, all inside `[lo, hi]` -/
def PartsWF (lo hi : Int) : List (Int × Int) → Prop
  | [] => True
  | [(a, b)] => lo ≤ a ∧ a ≤ b ∧ b ≤ hi
  | (a, b) :: (c, d) :: rest => lo ≤ a ∧ a ≤ b ∧ b < c ∧ PartsWF lo hi ((c, d) :: rest)

/-- RFC 7950 §9.3.1 with libyang's whitespace tolerance: optional sign, one or more digits, optionally a point followed by
    one or more digits.  `k` is the denotation as a mantissa with `fd` fraction digits: the value of the digit string
    `ip.fr` equals `k · 10^-fd`, written without fractions as `k · 10^|fr| = ±(ip fr) · 10^fd` (so more than `fd`
    fraction digits are fine exactly when the surplus ones are zeros).
    `rfc = true` is the RFC grammar; `rfc = false` drops the requirement of a digit between a sign and the point or the
    end — that is what the code of the pinned tree accepts (finding F2). -/
def DecLexWs (rfc : Bool) (fd : Nat) (s : Bytes) (k : Int) : Prop :=
  ∃ l sg ip fr r, ∃ point : Bool,
    s = l ++ (sg ++ ip ++ (if point then 46 :: fr else [])) ++ r ∧ l.all isSpace = true ∧ r.all isSpace = true ∧ IsSign sg ∧
    ip.all isDigit = true ∧ fr.all isDigit = true ∧ (point = true → fr ≠ []) ∧ (point = false → fr = []) ∧
    (if rfc then ip ≠ [] else (ip ≠ [] ∨ sg ≠ [])) ∧
    k * 10 ^ fr.length = applySign sg (valOf 10 (ip ++ fr)) * 10 ^ fd

/-- canonical form of an integer (RFC 7950 §9.2.2): no `+`, no leading zeros, `0` not negative -/
def IsCanonInt (s : Bytes) : Prop :=
  ∃ sg ds, s = sg ++ ds ∧ (sg = [] ∨ sg = [45]) ∧ ds ≠ [] ∧ ds.all isDigit = true ∧
    (ds.head? = some 48 → ds = [48] ∧ sg = [])

/-- canonical form of a decimal64 (RFC 7950 §9.3.2): no `+`, at least one digit on each side of the point, no leading
    zeros before it (other than a single `0`), no trailing zeros after it (other than a single `0`) -/
def IsCanonDec (s : Bytes) : Prop :=
  ∃ sg ip fr, s = sg ++ ip ++ [46] ++ fr ∧ (sg = [] ∨ sg = [45]) ∧ ip ≠ [] ∧ fr ≠ [] ∧ ip.all isDigit = true ∧ fr.all isDigit = true ∧
    (ip.head? = some 48 → ip = [48]) ∧ (fr.getLast? = some 48 → fr = [48])

end LyModel.Val
