import LyModel.Val.Union
import LyModel.Val.Ident
import LyModel.Val.DrvBase
/-! driver ops of the union / pattern-string / identityref models (same request lines as `harness/api_types.c`) -/
namespace LyModel.Val.DrvU
open LyModel LyModel.Val LyModel.Val.Drv

/-! ### descriptors -/

/-- `;`-separated `[!]<hex>` -/
def parsePatterns (lvl : String) : Option (List (XsdRe.Regex Char × Bool)) :=
  ((lvl.splitOn ";").filter (· != "")).mapM fun p =>
    let inv := p.startsWith "!"
    let h := if inv then (p.drop 1).toString else p
    match Hex.dec h with
    | none => none
    | some bs =>
      match XsdRe.parseXsd bs with
      | .ok pat => some (pat.toRegex, inv)
      | .error _ => none

/-- `pstr:<length parts or empty>:<level>/<level>…` — the levels are the typedefs of the chain, base first -/
def parsePStr (d : String) : Option PStrTy :=
  match d.splitOn ":" with
  | ["pstr", len, lv] =>
    let parts : Option (List (Int × Int)) := if len == "" then some [] else parseParts len
    match parts, (lv.splitOn "/").mapM parsePatterns with
    | some l, some pss => some { length := l, pats := pss.flatten }
    | _, _ => none
  | _ => none

/-! ### identityref descriptors: `idref:<leafmod>:<base>+<base>@<ident>,<ident>…`, `<ident>` = `<mod>.<name>[<<base>+<base>]` -/

def bytesOf (s : String) : Bytes := s.toUTF8.toList

/-- `<mod>.<name>`, split at the first `.` (identity names may contain dots, the generated module names do not) -/
def parseIdent (s : String) : Option Ident.Ident :=
  match s.splitOn "." with
  | m :: n :: r => some ⟨bytesOf m, bytesOf (".".intercalate (n :: r))⟩
  | _ => none

def parseIdents (s : String) : Option (List Ident.Ident) :=
  if s == "" then some [] else (s.splitOn "+").mapM parseIdent

/-- `<mod>.<name>[!][<<base>+<base>]`; `!` after the name: the identity is disabled by `if-feature` -/
def parseIdDef (s : String) : Option (Ident.IdDef × Bool) :=
  match s.splitOn "<" with
  | [i] =>
    let dis := i.endsWith "!"
    (parseIdent (if dis then (i.dropEnd 1).toString else i)).map fun x => (⟨x, []⟩, dis)
  | [i, bs] => do
    let dis := i.endsWith "!"
    let x ← parseIdent (if dis then (i.dropEnd 1).toString else i)
    let b ← parseIdents bs
    pure (⟨x, b⟩, dis)
  | _ => none

structure IdTy where
  leafmod : Bytes
  bases : List Ident.Ident
  ctx : Ident.IdCtx

def parseIdTy (d : String) : Option IdTy :=
  match d.splitOn "@" with
  | [hd, graph] =>
    match hd.splitOn ":" with
    | ["idref", lm, bs] => do
      let b ← parseIdents bs
      let defs ← (graph.splitOn ",").mapM parseIdDef
      pure { leafmod := bytesOf lm, bases := b,
             ctx := { defs := defs.map (·.1), disabled := (defs.filter (·.2)).map (·.1.id) } }
    | _ => none
  | _ => none

/-- module names of the set: modules of the identities and of their bases, and the leaf module -/
def IdTy.mods (t : IdTy) : List Bytes :=
  ((t.ctx.defs.flatMap fun d => d.id.mod :: d.bases.map (·.mod)) ++ [t.leafmod]).eraseDups

/-- JSON / LYB / canonical: module names; no prefix: the module of the leaf -/
def IdTy.pmJson (t : IdTy) : Ident.PrefixMap := { table := t.mods.map fun m => (m, m), dflt := some t.leafmod }
/-- XML (harness): `xmlns:x<mod>` for every module of the set, default namespace = the module of the leaf -/
def IdTy.pmXml (t : IdTy) : Ident.PrefixMap := { table := t.mods.map fun m => (120 :: m, m), dflt := some t.leafmod }
/-- schema (harness): a fresh module (prefix `v`, no identities) that imports every module of the set with prefix `p<mod>` -/
def IdTy.pmSchema (t : IdTy) : Ident.PrefixMap :=
  { table := ([118], [35]) :: t.mods.map fun m => (112 :: m, m), dflt := some [35] }

def parseMTy (d : String) : Option MTy :=
  if d.startsWith "pstr:" then (parsePStr d).map .pstr else (parseTy d).map .base

/-- split at the `|` of parenthesis depth 0 -/
def splitTop : List Char → Nat → List Char → List (List Char)
  | [], _, cur => [cur.reverse]
  | c :: r, depth, cur =>
    if c == '|' && depth == 0 then cur.reverse :: splitTop r 0 []
    else if c == '(' then splitTop r (depth + 1) (c :: cur)
    else if c == ')' then splitTop r (depth - 1) (c :: cur)
    else splitTop r depth (c :: cur)

/-- prefix format of a request: the text formats of the value ops use module names -/
inductive Fmt | json | xml | schema
  deriving DecidableEq

def IdTy.pm (t : IdTy) : Fmt → Ident.PrefixMap
  | .json => t.pmJson
  | .xml => t.pmXml
  | .schema => t.pmSchema

/-- a union descriptor; an identityref member resolves prefixes in the format of the request -/
def parseUTy (fmt : Fmt) : Nat → String → Option UTy
  | 0, _ => none
  | f + 1, d =>
    if d.startsWith "U(" && d.endsWith ")" then
      let inner := (d.toList.drop 2).dropLast
      ((splitTop inner 0 []).mapM fun p => parseUTy fmt f (String.ofList p)).map .union
    else if d.startsWith "idref:" then
      (parseIdTy d).map fun t => .ext (idrefPlug t.ctx t.bases (t.pm fmt) t.pmJson)
    else if d.startsWith "lref(" && d.endsWith ")" then
      -- leafref (require-instance false) to a leaf of the member type inside the parentheses
      (parseMTy (String.ofList ((d.toList.drop 5).dropLast))).map fun m => .ext (lrefPlug m.plug)
    else if d.startsWith "lrefr(" && d.endsWith ")" then
      -- leafref (require-instance true) to a leaf-list of the member type inside the parentheses
      (parseMTy (String.ofList ((d.toList.drop 6).dropLast))).map fun m => .ext (lrefrPlug m.plug)
    else (parseMTy d).map .mem

/-! ### ops -/

def cmpFields (eq : Bool) (so : Int) (ceq : Bool) : String :=
  "ok " ++ (if eq then "1" else "0") ++ " " ++ sgn so ++ " " ++ (if ceq then "1" else "0") ++ " " ++
    (if so ≤ 0 then "a" else "b") ++ " " ++ (if so < 0 then "a" else "b")

def handleUnion (ms : List Plug) (op : String) (args : List String) : String :=
  match op, args with
  | "store", [_, h, x] =>
    match h.toNat?, Hex.dec x with
    | some hints, some s =>
      match storeU ms hints s with
      | .ok u => "ok " ++ Hex.enc (canonU ms u) ++ " " ++ Hex.enc (lybU ms u)
      | .error e => "err " ++ e.name
    | _, _ => "err BadArg"
  | "validate", [_, x] =>
    match Hex.dec x with
    | some s =>
      match storeU ms Generated.LYD_HINT_DATA s with
      | .ok u => "ok " ++ Hex.enc (canonU ms u)
      | .error e => "err " ++ e.name
    | none => "err BadArg"
  | "cmp", [_, x1, x2] =>
    match Hex.dec x1, Hex.dec x2 with
    | some s1, some s2 =>
      match storeU ms Generated.LYD_HINT_DATA s1, storeU ms Generated.LYD_HINT_DATA s2 with
      | .error _, _ => "err Reject1"
      | .ok _, .error _ => "err Reject2"
      | .ok a, .ok b => cmpFields (cmpEqU ms a b) (sortUV ms a b) (canonU ms a == canonU ms b)
    | _, _ => "err BadArg"
  | "lybrt", [_, x] =>
    match Hex.dec x with
    | some s =>
      match storeU ms Generated.LYD_HINT_DATA s with
      | .error e => "err " ++ e.name
      | .ok v =>
        match unlybU ms (lybU ms v) with
        | .error e => "err Unlyb" ++ e.name
        | .ok w => "ok " ++ Hex.enc (lybU ms v) ++ " " ++ Hex.enc (canonU ms w) ++ " " ++ (if cmpEqU ms v w then "1" else "0") ++ " 1 1"
    | none => "err BadArg"
  | "unlyb", [_, x] =>
    match Hex.dec x with
    | some b =>
      match unlybU ms b with
      | .ok v => "ok " ++ Hex.enc (canonU ms v)
      | .error e => "err " ++ e.name
    | none => "err BadArg"
  | "uvalid", _ :: x :: ts =>
    -- the value in a tree where every leafref target leaf-list holds the target values its type accepts: `lyd_validate_module`
    match Hex.dec x, ts.mapM Hex.dec with
    | some s, some tvs =>
      match storeU ms Generated.LYD_HINT_DATA s with
      | .error _ => "err Reject"
      | .ok _ =>
        -- canonical values of the instances member `m` can point to: the target values `m`'s own (= the target's) store accepts
        let res (m : Plug) : List Bytes := tvs.filterMap fun tv =>
          match m.store Generated.LYD_HINT_DATA tv with
          | .ok w => some (m.canon w)
          | .error _ => none
        match findTypeVM res ms 0 Generated.LYD_HINT_DATA s with
        | some u => "ok " ++ Hex.enc (canonU ms u) ++ " " ++ toString u.idx
        | none => "err NoMember"
    | _, _ => "err BadArg"
  | "idfmt", [_, fmt, x] =>
    -- `ms` was built for the prefix format `fmt`; `lyb`: a union value in LYB form (member index + member value)
    match Hex.dec x with
    | some s =>
      if fmt == "lyb" then
        match unlybU ms s with
        | .ok v => "ok " ++ Hex.enc (canonU ms v)
        | .error e => "err " ++ e.name
      else
        match storeU ms Generated.LYD_HINT_DATA s with
        | .ok u => "ok " ++ Hex.enc (canonU ms u)
        | .error e => "err " ++ e.name
    | none => "err BadArg"
  | _, _ => "err BadOp"

/-- a string type with patterns on its own -/
def handleMember (m : MTy) (op : String) (args : List String) : String :=
  match op, args with
  | "store", [_, h, x] =>
    match h.toNat?, Hex.dec x with
    | some hints, some s =>
      match m.store hints s with
      | .ok v => "ok " ++ Hex.enc (m.canon v) ++ " " ++ Hex.enc (m.lyb v)
      | .error e => "err " ++ e.name
    | _, _ => "err BadArg"
  | "validate", [_, x] =>
    match Hex.dec x with
    | some s =>
      match m.store Generated.LYD_HINT_DATA s with
      | .ok v => "ok " ++ Hex.enc (m.canon v)
      | .error e => "err " ++ e.name
    | none => "err BadArg"
  | "cmp", [_, x1, x2] =>
    match Hex.dec x1, Hex.dec x2 with
    | some s1, some s2 =>
      match m.store Generated.LYD_HINT_DATA s1, m.store Generated.LYD_HINT_DATA s2 with
      | .error _, _ => "err Reject1"
      | .ok _, .error _ => "err Reject2"
      | .ok a, .ok b => cmpFields (m.cmpEq a b) (m.sort a b) (m.canon a == m.canon b)
    | _, _ => "err BadArg"
  | "lybrt", [_, x] =>
    match Hex.dec x with
    | some s =>
      match m.store Generated.LYD_HINT_DATA s with
      | .error e => "err " ++ e.name
      | .ok v =>
        match m.unlyb (m.lyb v) with
        | .error e => "err Unlyb" ++ e.name
        | .ok w => "ok " ++ Hex.enc (m.lyb v) ++ " " ++ Hex.enc (m.canon w) ++ " " ++ (if m.cmpEq v w then "1" else "0") ++ " 1 1"
    | none => "err BadArg"
  | "unlyb", [_, x] =>
    match Hex.dec x with
    | some b =>
      match m.unlyb b with
      | .ok v => "ok " ++ Hex.enc (m.canon v)
      | .error e => "err " ++ e.name
    | none => "err BadArg"
  | _, _ => "err BadOp"

def handleIdent (t : IdTy) (op : String) (args : List String) : String :=
  let st (pm : Ident.PrefixMap) (hints : Nat) (s : Bytes) := Ident.storeId t.ctx t.bases pm hints s
  match op, args with
  | "store", [_, h, x] =>
    match h.toNat?, Hex.dec x with
    | some hints, some s =>
      match st t.pmJson hints s with
      | .ok i => "ok " ++ Hex.enc (Ident.canonId i) ++ " " ++ Hex.enc (Ident.canonId i)
      | .error e => "err " ++ e.name
    | _, _ => "err BadArg"
  | "validate", [_, x] =>
    match Hex.dec x with
    | some s =>
      match st t.pmJson Generated.LYD_HINT_DATA s with
      | .ok i => "ok " ++ Hex.enc (Ident.canonId i)
      | .error e => "err " ++ e.name
    | none => "err BadArg"
  | "idfmt", [_, fmt, x] =>
    match Hex.dec x with
    | some s =>
      let pm := if fmt == "xml" then some t.pmXml else if fmt == "schema" then some t.pmSchema
        else if fmt == "json" || fmt == "lyb" then some t.pmJson else none
      match pm with
      | none => "err BadArg"
      | some pm =>
        match st pm Generated.LYD_HINT_DATA s with
        | .ok i => "ok " ++ Hex.enc (Ident.canonId i)
        | .error e => "err " ++ e.name
    | none => "err BadArg"
  | "cmp", [_, x1, x2] =>
    match Hex.dec x1, Hex.dec x2 with
    | some s1, some s2 =>
      match st t.pmJson Generated.LYD_HINT_DATA s1, st t.pmJson Generated.LYD_HINT_DATA s2 with
      | .error _, _ => "err Reject1"
      | .ok _, .error _ => "err Reject2"
      | .ok a, .ok b => cmpFields (Ident.cmpEqId a b) (Ident.sortId a b) (Ident.canonId a == Ident.canonId b)
    | _, _ => "err BadArg"
  | "lybrt", [_, x] =>
    match Hex.dec x with
    | some s =>
      match st t.pmJson Generated.LYD_HINT_DATA s with
      | .error e => "err " ++ e.name
      | .ok v =>
        match st t.pmJson Generated.LYD_HINT_DATA (Ident.canonId v) with
        | .error e => "err Unlyb" ++ e.name
        | .ok w => "ok " ++ Hex.enc (Ident.canonId v) ++ " " ++ Hex.enc (Ident.canonId w) ++ " " ++ (if Ident.cmpEqId v w then "1" else "0") ++ " 1 1"
    | none => "err BadArg"
  | "unlyb", [_, x] =>
    match Hex.dec x with
    | some b =>
      match st t.pmJson Generated.LYD_HINT_DATA b with
      | .ok v => "ok " ++ Hex.enc (Ident.canonId v)
      | .error e => "err " ++ e.name
    | none => "err BadArg"
  | _, _ => "err BadOp"

def handle (op : String) (args : List String) : String :=
  match args with
  | d :: _ =>
    if d.startsWith "U(" then
      let fmt : Fmt := match op, args with
        | "idfmt", [_, f, _] => if f == "xml" then .xml else if f == "schema" then .schema else .json
        | _, _ => .json
      match parseUTy fmt (d.length + 1) d with
      | some u => handleUnion u.flatten op args
      | none => "err BadArg"
    else if d.startsWith "lref(" && d.endsWith ")" then
      match parseMTy (String.ofList ((d.toList.drop 5).dropLast)) with
      | some m => handleMember m op args
      | none => "err BadArg"
    else if d.startsWith "lrefr(" && d.endsWith ")" then
      -- a leafref with require-instance alone: the value ops are the target's; `uvalid`: the value must be among the targets
      match parseMTy (String.ofList ((d.toList.drop 6).dropLast)), op, args with
      | some m, "uvalid", _ :: x :: ts =>
        match Hex.dec x, ts.mapM Hex.dec with
        | some s, some tvs =>
          match m.store Generated.LYD_HINT_DATA s with
          | .error _ => "err Reject"
          | .ok v =>
            let cans := tvs.filterMap fun tv => match m.store Generated.LYD_HINT_DATA tv with
              | .ok w => some (m.canon w)
              | .error _ => none
            if cans.contains (m.canon v) then "ok " ++ Hex.enc (m.canon v) ++ " 0" else "err NoTarget"
        | _, _ => "err BadArg"
      | some m, _, _ => handleMember m op args
      | none, _, _ => "err BadArg"
    else if d.startsWith "pstr:" then
      match parseMTy d with
      | some m => handleMember m op args
      | none => "err BadArg"
    else if d.startsWith "idref:" then
      match parseIdTy d with
      | some t => handleIdent t op args
      | none => "err BadArg"
    else "err BadArg"
  | [] => "err BadArg"

end LyModel.Val.DrvU
