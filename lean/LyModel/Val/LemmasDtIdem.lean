import LyModel.Val.LemmasDtCanon
import LyModel.Val.LemmasInt
import LyModel.Val.LemmasDecArith
/-! storing the canonical form of a date-and-time value again: `atoi` on the output of `%04d` / `%02d`, the pattern on the printed
    shape, fraction and zone of the printed tail -/
namespace LyModel.Val.DateTime
open LyModel LyModel.Val

/-! ## `strtol` / `atoi` on a digit run -/

theorem strtol_digits {ds r : Bytes} (hne : ds ≠ []) (hd : ds.all isDigit = true) (hr : ∀ c, r.head? = some c → isDigit c = false)
    (hlt : valOf 10 ds ≤ 2 ^ 63 - 1) : strtol (ds ++ r) = ((valOf 10 ds : Int), r) := by
  have h := strtoCore10_of_layout (l := []) (sg := []) (ds := ds) (r := r) rfl (Or.inl rfl) hne hd hr
  simp only [List.nil_append] at h
  have hgt : ¬ valOf 10 ds > 2 ^ 63 - 1 := by omega
  simp [strtol, h, hgt]

theorem atoi_digits {ds r : Bytes} (hne : ds ≠ []) (hd : ds.all isDigit = true) (hr : ∀ c, r.head? = some c → isDigit c = false)
    (hlt : valOf 10 ds < 2 ^ 31) : atoi (ds ++ r) = (valOf 10 ds : Int) := by
  rw [atoi, strtol_digits hne hd hr (by omega)]
  simp only [toInt32]
  omega

theorem valOf_padNat (w n : Nat) : valOf 10 (padNat w n) = n := by
  rw [padNat, valOf_zeros_append, valOf_natDec]

theorem padNat_digits (w n : Nat) : (padNat w n).all isDigit = true := by
  rw [padNat, List.all_append, zeros_all_digit, natDec_all_digits]; rfl

theorem padNat_ne_nil (w n : Nat) : padNat w n ≠ [] := by
  rw [padNat]; intro h
  exact natDec_ne_nil n (List.append_eq_nil_iff.mp h).2

theorem atoi_padNat (w n : Nat) (r : Bytes) (hr : ∀ c, r.head? = some c → isDigit c = false) (hn : n < 2 ^ 31) :
    atoi (padNat w n ++ r) = (n : Int) := by
  rw [atoi_digits (padNat_ne_nil w n) (padNat_digits w n) hr (by rw [valOf_padNat]; exact hn), valOf_padNat]

theorem atoi_dig2 {n : Nat} (h : n < 100) (r : Bytes) (hr : ∀ c, r.head? = some c → isDigit c = false) :
    atoi (digitChar (n / 10) :: digitChar (n % 10) :: r) = (n : Int) := by
  have := atoi_padNat 2 n r hr (by omega)
  rw [padNat2 h] at this
  exact this

theorem atoi_dig4 {n : Nat} (h : n < 10000) (r : Bytes) (hr : ∀ c, r.head? = some c → isDigit c = false) :
    atoi (digitChar (n / 1000) :: digitChar (n / 100 % 10) :: digitChar (n / 10 % 10) :: digitChar (n % 10) :: r) = (n : Int) := by
  have := atoi_padNat 4 n r hr (by omega)
  rw [padNat4 h] at this
  exact this

theorem head_nondigit (c : UInt8) (r : Bytes) (h : isDigit c = false) : ∀ x, (c :: r).head? = some x → isDigit x = false := by
  intro x hx; simp at hx; subst hx; exact h

/-! ## the printed tail: fraction and zone -/

def zoneB (u : Bool) : Bytes := if u then [45, 48, 48, 58, 48, 48] else [43, 48, 48, 58, 48, 48]
def fracB : Option Bytes → Bytes
  | some f => 46 :: f
  | none => []

theorem canonTail_eq (v : DtVal) : canonTail v = fracB v.frac ++ zoneB v.unknownTz := by
  obtain ⟨t, f, z⟩ := v
  cases f <;> rfl

theorem zoneB_head (u : Bool) : ∀ c, (zoneB u).head? = some c → isDigit c = false ∧ c ≠ 46 := by
  cases u <;> (intro c hc; simp [zoneB] at hc; subst hc; decide)

theorem tail_head (f : Option Bytes) (u : Bool) : ∀ c, (fracB f ++ zoneB u).head? = some c → isDigit c = false := by
  cases f with
  | none => intro c hc; exact (zoneB_head u c (by simpa [fracB] using hc)).1
  | some f => intro c hc; simp [fracB] at hc; subst hc; decide

theorem zoneShift_zoneB (c : ZoneCfg) (u : Bool) : zoneShiftWith c (zoneB u) = .ok 0 := by
  obtain ⟨a, b⟩ := c
  cases a <;> cases b <;> cases u <;> decide

theorem fraction_tail (f : Option Bytes) (u : Bool) (hf : ∀ g, f = some g → g ≠ [] ∧ g.all isDigit = true) :
    fraction (fracB f ++ zoneB u) = .ok (f, zoneB u) := by
  cases f with
  | none =>
    have h : ((fracB none ++ zoneB u).head? == some 46) = false := by cases u <;> decide
    simp only [fraction, h, Bool.false_eq_true, ↓reduceIte]
    rfl
  | some g =>
    obtain ⟨hne, hd⟩ := hf g rfl
    have hz : ∀ c, (zoneB u).head? = some c → isDigit c = false := fun c hc => (zoneB_head u c hc).1
    have e1 : (g ++ zoneB u).takeWhile isDigit = g := takeWhile_append_stop hd hz
    have e2 : (g ++ zoneB u).dropWhile isDigit = zoneB u := dropWhile_append_stop hd hz
    have hne' : g.isEmpty = false := by cases g <;> simp_all
    simp only [fraction, fracB, List.cons_append, List.head?_cons, beq_self_eq_true, ↓reduceIte, List.drop_succ_cons, List.drop_zero, e1, e2, hne',
      Bool.false_eq_true]

theorem endsUnknownTz_canon (pre : Bytes) (u : Bool) : endsUnknownTz (pre ++ zoneB u) = u := by
  have hl : (zoneB u).length = 6 := by cases u <;> rfl
  have : (pre ++ zoneB u).drop ((pre ++ zoneB u).length - 6) = zoneB u := by
    apply List.drop_left'
    rw [List.length_append, hl]; omega
  rw [endsUnknownTz, this]
  cases u <;> decide

/-! ## no NUL byte, ASCII -/

theorem cstr_id {s : Bytes} (h : ∀ b ∈ s, b ≠ 0) : cstr s = s := by
  rw [cstr]
  exact takeWhile_all (List.all_eq_true.mpr (by intro b hb; simpa using h b hb))

theorem decodeUtf8_ascii : ∀ (s : Bytes), (∀ b ∈ s, b.toNat < 128) → decodeUtf8 s = some (s.map (·.toNat))
  | [], _ => rfl
  | a :: r, h => by
    have ha : a.toNat < 128 := h a (by simp)
    have ih := decodeUtf8_ascii r (fun b hb => h b (by simp [hb]))
    unfold decodeUtf8
    simp only [ha, ↓reduceIte, ih, Option.map_some, List.map_cons]

theorem isDigit_facts {b : UInt8} (h : isDigit b = true) : b ≠ 0 ∧ b.toNat < 128 ∧ isNd b.toNat = true := by
  have := (isDigit_iff b).mp h
  refine ⟨?_, by omega, ?_⟩
  · intro e; subst e; simp at this
  · have : ∀ n, n < 58 → 48 ≤ n → isNd n = true := by decide
    exact this _ (by omega) (by omega)

/-! ## the printed value -/

/-- printable ASCII-range byte that is not NUL -/
def okb (b : UInt8) : Bool := b != 0 && decide (b.toNat < 128)

theorem okb_digit {b : UInt8} (h : isDigit b = true) : okb b = true := by
  have := isDigit_facts h
  simp [okb, this.1, this.2.1]

theorem dig2_all {n : Nat} (h : n < 100) : (dig2 n).all isDigit = true := by
  simp [dig2, digitChar_isDigit (show n / 10 < 10 by omega), digitChar_isDigit (Nat.mod_lt n (by decide : 0 < 10))]

theorem dig4_all {n : Nat} (h : n < 10000) : (dig4 n).all isDigit = true := by
  simp [dig4, digitChar_isDigit (show n / 1000 < 10 by omega), digitChar_isDigit (Nat.mod_lt (n / 100) (by decide : 0 < 10)),
    digitChar_isDigit (Nat.mod_lt (n / 10) (by decide : 0 < 10)), digitChar_isDigit (Nat.mod_lt n (by decide : 0 < 10))]

theorem all_okb_of_digits {l : Bytes} (h : l.all isDigit = true) : l.all okb = true := by
  rw [List.all_eq_true] at h ⊢
  intro b hb; exact okb_digit (h b hb)

theorem tail_okb (f : Option Bytes) (u : Bool) (hf : ∀ g, f = some g → g ≠ [] ∧ g.all isDigit = true) :
    (fracB f ++ zoneB u).all okb = true := by
  have hz : (zoneB u).all okb = true := by cases u <;> decide
  cases f with
  | none => simpa [fracB] using hz
  | some g =>
    have hg := all_okb_of_digits (hf g rfl).2
    simp only [fracB, List.cons_append, List.all_cons, List.all_append, hg, hz, Bool.and_true]
    decide

/-- the fields of a broken-down time as natural numbers in the ranges `gmtime` produces, 4-digit year -/
structure TmOk (tm : Tm) : Prop where
  y : 0 ≤ tm.year ∧ tm.year < 10000
  mo : 1 ≤ tm.mon ∧ tm.mon ≤ 12
  d : 1 ≤ tm.mday ∧ tm.mday ≤ 31
  h : 0 ≤ tm.hour ∧ tm.hour ≤ 23
  mi : 0 ≤ tm.min ∧ tm.min ≤ 59
  s : 0 ≤ tm.sec ∧ tm.sec ≤ 59

theorem head_okb (tm : Tm) (ok : TmOk tm) : (canonHead tm).all okb = true := by
  have h1 := all_okb_of_digits (dig4_all (n := tm.year.toNat) (by have := ok.y; omega))
  have h2 := all_okb_of_digits (dig2_all (n := tm.mon.toNat) (by have := ok.mo; omega))
  have h3 := all_okb_of_digits (dig2_all (n := tm.mday.toNat) (by have := ok.d; omega))
  have h4 := all_okb_of_digits (dig2_all (n := tm.hour.toNat) (by have := ok.h; omega))
  have h5 := all_okb_of_digits (dig2_all (n := tm.min.toNat) (by have := ok.mi; omega))
  have h6 := all_okb_of_digits (dig2_all (n := tm.sec.toNat) (by have := ok.s; omega))
  simp only [canonHead, List.all_append, h1, h2, h3, h4, h5, h6, Bool.true_and, Bool.and_true]
  decide

theorem readTm_canon (tm : Tm) (ok : TmOk tm) (f : Option Bytes) (u : Bool) : readTm (canonHead tm ++ (fracB f ++ zoneB u)) = tm := by
  have hy : tm.year.toNat < 10000 := by have := ok.y; omega
  have hmo : tm.mon.toNat < 100 := by have := ok.mo; omega
  have hd : tm.mday.toNat < 100 := by have := ok.d; omega
  have hh : tm.hour.toNat < 100 := by have := ok.h; omega
  have hmi : tm.min.toNat < 100 := by have := ok.mi; omega
  have hs : tm.sec.toNat < 100 := by have := ok.s; omega
  have n45 : isDigit 45 = false := by decide
  have n84 : isDigit 84 = false := by decide
  have n58 : isDigit 58 = false := by decide
  have e1 : (readTm (canonHead tm ++ (fracB f ++ zoneB u))).year = tm.year.toNat := atoi_dig4 hy _ (head_nondigit 45 _ n45)
  have e2 : (readTm (canonHead tm ++ (fracB f ++ zoneB u))).mon = tm.mon.toNat := atoi_dig2 hmo _ (head_nondigit 45 _ n45)
  have e3 : (readTm (canonHead tm ++ (fracB f ++ zoneB u))).mday = tm.mday.toNat := atoi_dig2 hd _ (head_nondigit 84 _ n84)
  have e4 : (readTm (canonHead tm ++ (fracB f ++ zoneB u))).hour = tm.hour.toNat := atoi_dig2 hh _ (head_nondigit 58 _ n58)
  have e5 : (readTm (canonHead tm ++ (fracB f ++ zoneB u))).min = tm.min.toNat := atoi_dig2 hmi _ (head_nondigit 58 _ n58)
  have e6 : (readTm (canonHead tm ++ (fracB f ++ zoneB u))).sec = tm.sec.toNat := atoi_dig2 hs _ (tail_head f u)
  obtain ⟨y, mo, d, h, mi, se⟩ := tm
  cases hr : readTm (canonHead ⟨y, mo, d, h, mi, se⟩ ++ (fracB f ++ zoneB u))
  rw [hr] at e1 e2 e3 e4 e5 e6
  have := ok.y; have := ok.mo; have := ok.d; have := ok.h; have := ok.mi; have := ok.s
  simp only at *
  simp only [Tm.mk.injEq]
  omega

/-! ## the pattern on the printed shape -/

theorem matchPattern_shape (y1 y2 y3 y4 m1 m2 d1 d2 h1 h2 n1 n2 s1 s2 : Nat) (tl : List Nat)
    (hy1 : isNd y1 = true) (hy2 : isNd y2 = true) (hy3 : isNd y3 = true) (hy4 : isNd y4 = true) (hm1 : isNd m1 = true) (hm2 : isNd m2 = true)
    (hd1 : isNd d1 = true) (hd2 : isNd d2 = true) (hh1 : isNd h1 = true) (hh2 : isNd h2 = true) (hn1 : isNd n1 = true) (hn2 : isNd n2 = true)
    (hs1 : isNd s1 = true) (hs2 : isNd s2 = true) (ht : matchTail tl = true) :
    matchPattern (y1 :: y2 :: y3 :: y4 :: 45 :: m1 :: m2 :: 45 :: d1 :: d2 :: 84 :: h1 :: h2 :: 58 :: n1 :: n2 :: 58 :: s1 :: s2 :: tl) = true := by
  simp [matchPattern, *]

theorem nd_digitChar {k : Nat} (h : k < 10) : isNd (digitChar k).toNat = true := (isDigit_facts (digitChar_isDigit h)).2.2

theorem matchTail_tail (f : Option Bytes) (u : Bool) (hf : ∀ g, f = some g → g ≠ [] ∧ g.all isDigit = true) :
    matchTail ((fracB f ++ zoneB u).map (·.toNat)) = true := by
  cases f with
  | none => cases u <;> decide
  | some g =>
    obtain ⟨hne, hd⟩ := hf g rfl
    have hall : ∀ a ∈ g.map (·.toNat), isNd a = true := by
      intro a ha
      obtain ⟨b, hb, rfl⟩ := List.mem_map.mp ha
      exact (isDigit_facts (List.all_eq_true.mp hd b hb)).2.2
    have hz1 : ((zoneB u).map (·.toNat)).takeWhile isNd = [] := by cases u <;> decide
    have hz2 : ((zoneB u).map (·.toNat)).dropWhile isNd = (zoneB u).map (·.toNat) := by cases u <;> decide
    have hz3 : matchZone ((zoneB u).map (·.toNat)) = true := by cases u <;> decide
    have hne' : (g.map (·.toNat)).isEmpty = false := by cases g <;> simp_all
    have e : (fracB (some g) ++ zoneB u).map (·.toNat) = 0x2E :: (g.map (·.toNat) ++ (zoneB u).map (·.toNat)) := by
      simp [fracB]
    rw [e, matchTail, List.takeWhile_append_of_pos hall, List.dropWhile_append_of_pos hall, hz1, hz2, List.append_nil, hne', hz3]
    rfl

theorem checkPattern_canon (tm : Tm) (ok : TmOk tm) (f : Option Bytes) (u : Bool) (hf : ∀ g, f = some g → g ≠ [] ∧ g.all isDigit = true) :
    checkPattern (canonHead tm ++ (fracB f ++ zoneB u)) = .ok () := by
  have hall : (canonHead tm ++ (fracB f ++ zoneB u)).all okb = true := by rw [List.all_append, head_okb tm ok, tail_okb f u hf]; rfl
  have hascii : ∀ b ∈ canonHead tm ++ (fracB f ++ zoneB u), b.toNat < 128 := by
    intro b hb
    have := List.all_eq_true.mp hall b hb
    simp [okb] at this
    exact this.2
  have hm : matchPattern ((canonHead tm ++ (fracB f ++ zoneB u)).map (·.toNat)) = true := by
    rw [List.map_append]
    have hy : tm.year.toNat < 10000 := by have := ok.y; omega
    have hmo : tm.mon.toNat < 100 := by have := ok.mo; omega
    have hd : tm.mday.toNat < 100 := by have := ok.d; omega
    have hh : tm.hour.toNat < 100 := by have := ok.h; omega
    have hmi : tm.min.toNat < 100 := by have := ok.mi; omega
    have hs : tm.sec.toNat < 100 := by have := ok.s; omega
    exact matchPattern_shape _ _ _ _ _ _ _ _ _ _ _ _ _ _ _ (nd_digitChar (by omega)) (nd_digitChar (Nat.mod_lt _ (by decide)))
      (nd_digitChar (Nat.mod_lt _ (by decide))) (nd_digitChar (Nat.mod_lt _ (by decide))) (nd_digitChar (by omega))
      (nd_digitChar (Nat.mod_lt _ (by decide))) (nd_digitChar (by omega)) (nd_digitChar (Nat.mod_lt _ (by decide))) (nd_digitChar (by omega))
      (nd_digitChar (Nat.mod_lt _ (by decide))) (nd_digitChar (by omega)) (nd_digitChar (Nat.mod_lt _ (by decide))) (nd_digitChar (by omega))
      (nd_digitChar (Nat.mod_lt _ (by decide))) (matchTail_tail f u hf)
  rw [checkPattern, decodeUtf8_ascii _ hascii]
  simp only [hm, ↓reduceIte]

/-! ## storing the canonical form -/

theorem hints_data : ∃ b, checkHints Generated.LYD_HINT_DATA "string" = some b := ⟨254, by decide⟩

theorem store_canon (c : ZoneCfg) (v : DtVal) (hy : InYearRange v) (hf : ∀ g, v.frac = some g → g ≠ [] ∧ g.all isDigit = true) :
    storeWith c Generated.LYD_HINT_DATA (canon v) = .ok v := by
  have hr := gmtime_range v.time
  have ok : TmOk (gmtime v.time) := ⟨⟨hy.1, by have := hy.2; omega⟩, ⟨hr.1, hr.2.1⟩, ⟨hr.2.2.1, hr.2.2.2.1⟩, ⟨hr.2.2.2.2.1, hr.2.2.2.2.2.1⟩,
    ⟨hr.2.2.2.2.2.2.1, hr.2.2.2.2.2.2.2.1⟩, ⟨hr.2.2.2.2.2.2.2.2.1, hr.2.2.2.2.2.2.2.2.2⟩⟩
  rw [canon_shape v hy, canonTail_eq]
  generalize hS : canonHead (gmtime v.time) ++ (fracB v.frac ++ zoneB v.unknownTz) = S
  have hall : S.all okb = true := by rw [← hS, List.all_append, head_okb _ ok, tail_okb _ _ hf]; rfl
  have hc : cstr S = S := cstr_id (by
    intro b hb
    have := List.all_eq_true.mp hall b hb
    simp [okb] at this
    exact this.1)
  have hlen : ¬ S.length ≤ 18 := by rw [← hS, List.length_append, canonHead_length]; omega
  have htm : readTm S = gmtime v.time := by rw [← hS]; exact readTm_canon _ ok _ _
  have hdrop : S.drop 19 = fracB v.frac ++ zoneB v.unknownTz := by
    rw [← hS]; exact List.drop_left' (canonHead_length _)
  have hfr := fraction_tail v.frac v.unknownTz hf
  have hz := zoneShift_zoneB c v.unknownTz
  have hpat : checkPattern S = .ok () := by rw [← hS]; exact checkPattern_canon _ ok _ _ hf
  have hend : endsUnknownTz S = v.unknownTz := by
    rw [← hS, ← List.append_assoc]; exact endsUnknownTz_canon _ _
  obtain ⟨b, hb⟩ := hints_data
  have n2 : ((gmtime v.time).mon - 1 < 0 || (gmtime v.time).mon - 1 > 11) = false := by simp; omega
  have n3 : ((gmtime v.time).mday < 1 || (gmtime v.time).mday > 31) = false := by simp; omega
  have n4 : ¬ (gmtime v.time).hour > 23 := by omega
  have n5 : ¬ (gmtime v.time).min > 59 := by omega
  have n6 : ¬ (gmtime v.time).sec > 60 := by omega
  simp only [storeWith, hb, str2timeWith, hc, hlen, ↓reduceIte, htm, n2, n3, n4, n5, n6, Bool.false_eq_true, hdrop, hfr, hz, hpat, hend,
    timegm_gmtime, Int.sub_zero]

/-! ## what an accepted value is made of -/

theorem fraction_wf {r z : Bytes} {fr : Option Bytes} (h : fraction r = .ok (fr, z)) : ∀ g, fr = some g → g ≠ [] ∧ g.all isDigit = true := by
  intro g hg
  subst hg
  simp only [fraction] at h
  split at h
  · split at h
    · cases h
    · rename_i hne
      simp only [Except.ok.injEq, Prod.mk.injEq, Option.some.injEq] at h
      obtain ⟨h1, _⟩ := h
      subst h1
      refine ⟨?_, all_takeWhile isDigit _⟩
      intro e; rw [e] at hne; simp at hne
  · simp at h

/-- the pieces of an accepted value: fraction digits and zone as read at offset 19, instant = `timegm` of the fields minus the shift -/
theorem store_ok_parts {c : ZoneCfg} {hints : Nat} {s : Bytes} {v : DtVal} (h : storeWith c hints s = .ok v) :
    ∃ z sh, fraction ((cstr s).drop 19) = .ok (v.frac, z) ∧ zoneShiftWith c z = .ok sh ∧ v.time = timegm (readTm (cstr s)) - sh ∧
      v.unknownTz = endsUnknownTz s := by
  simp only [storeWith, str2timeWith, checkPattern] at h
  cases hh : checkHints hints "string" with
  | none => simp [hh] at h
  | some b =>
    by_cases n1 : (cstr s).length ≤ 18
    · simp [hh, n1] at h
    by_cases n2 : (readTm (cstr s)).mon - 1 < 0 ∨ (readTm (cstr s)).mon - 1 > 11
    · simp [hh, n1, n2] at h
    by_cases n3 : (readTm (cstr s)).mday < 1 ∨ (readTm (cstr s)).mday > 31
    · simp [hh, n1, n2, n3] at h
    by_cases n4 : (readTm (cstr s)).hour > 23
    · simp [hh, n1, n2, n3, n4] at h
    by_cases n5 : (readTm (cstr s)).min > 59
    · simp [hh, n1, n2, n3, n4, n5] at h
    by_cases n6 : (readTm (cstr s)).sec > 60
    · simp [hh, n1, n2, n3, n4, n5, n6] at h
    cases hf : fraction ((cstr s).drop 19) with
    | error e => simp [hh, n1, n2, n3, n4, n5, n6, hf] at h
    | ok p =>
      obtain ⟨fr, z⟩ := p
      cases hz : zoneShiftWith c z with
      | error e => simp [hh, n1, n2, n3, n4, n5, n6, hf, hz] at h
      | ok sh =>
        cases hc : decodeUtf8 s with
        | none => simp [hh, n1, n2, n3, n4, n5, n6, hf, hz, hc] at h
        | some cps =>
          by_cases hm : matchPattern cps = true
          · simp [hh, n1, n2, n3, n4, n5, n6, hf, hz, hc, hm] at h
            subst h
            exact ⟨z, sh, rfl, hz, rfl, rfl⟩
          · simp [hh, n1, n2, n3, n4, n5, n6, hf, hz, hc, hm] at h

theorem store_frac_wf {c : ZoneCfg} {hints : Nat} {s : Bytes} {v : DtVal} (h : storeWith c hints s = .ok v) :
    ∀ g, v.frac = some g → g ≠ [] ∧ g.all isDigit = true := by
  obtain ⟨z, sh, hf, _⟩ := store_ok_parts h
  exact fraction_wf hf

/-! ## bounds of the stored instant -/

theorem atoi_range (s : Bytes) : -(2 ^ 31 : Int) ≤ atoi s ∧ atoi s < 2 ^ 31 := by
  simp only [atoi, toInt32]; omega

theorem timegm_bound (tm : Tm) (hy : -(2 ^ 31 : Int) ≤ tm.year ∧ tm.year < 2 ^ 31) (hm : 1 ≤ tm.mon ∧ tm.mon ≤ 12) (hd : 1 ≤ tm.mday ∧ tm.mday ≤ 31)
    (hh : -(2 ^ 31 : Int) ≤ tm.hour ∧ tm.hour ≤ 23) (hmi : -(2 ^ 31 : Int) ≤ tm.min ∧ tm.min ≤ 59) (hs : -(2 ^ 31 : Int) ≤ tm.sec ∧ tm.sec ≤ 60) :
    -(2 ^ 62 : Int) < timegm tm ∧ timegm tm < 2 ^ 62 := by
  obtain ⟨y, mo, d, h, mi, se⟩ := tm
  simp only at hy hm hd hh hmi hs
  have hdays : -(800000000000 : Int) < daysFromCivil y mo d ∧ daysFromCivil y mo d < 800000000000 := by
    simp only [daysFromCivil]
    split <;> split <;> omega
  simp only [timegm]
  omega

theorem zoneShift_bound (a : Bool) (z : Bytes) (sh : Int) (h : zoneShiftWith ⟨a, true⟩ z = .ok sh) : -86400 < sh ∧ sh < 86400 := by
  simp only [zoneShiftWith, Bool.true_and] at h
  split at h
  · cases h; omega
  · split at h
    · cases h
    · split at h
      · cases h
      · split at h
        · cases h
        · rename_i h1 _ h2
          simp only [Bool.or_eq_true, decide_eq_true_eq, not_or, Int.not_lt] at h1 h2
          cases h
          constructor <;> split <;> omega

end LyModel.Val.DateTime
