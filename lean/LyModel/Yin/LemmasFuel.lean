import LyModel.Yin.LemmasTree
/-! The fuel `yin_parse_element_generic` needs is bounded by the length of what was printed (helper lemmas). -/
set_option linter.unusedSimpArgs false
set_option linter.unusedVariables false
namespace LyModel.Yin
open LyModel LyModel.Utf8 LyModel.Generated LyModel.XmlText LyModel.XmlLex

theorem endOf_len (fmt : Bool) (level : Nat) (name : Bytes) (kids : List YStmt) :
    (printStmts fmt (incLevel level) kids).length + 2 ≤ (endOf fmt level name kids).length := by
  cases kids with
  | nil => simp [endOf, sEmptyEnd, printStmts]
  | cons s r => simp [endOf, sGtNl, kidsAndClose, closeTag]

theorem afterName_len (ns : List XNs) (parent : YKw) (fmt : Bool) (level : Nat) (name : Bytes) (kw : YKw) (arg : Option Bytes) (fl : Nat)
    (kids : List YStmt) (h : yinOk ns parent (.mk name kw arg fl kids) = true) :
    (printStmts fmt (incLevel level) kids).length + 2 ≤ (afterName fmt level (.mk name kw arg fl kids)).length := by
  have he := endOf_len fmt level name kids
  cases kw with
  | none => simp [yinOk] at h
  | ext => simpa [afterName] using he
  | kw k =>
    obtain ⟨_, ⟨an, ye, hinfo, _⟩, _⟩ := yinOk_kw ns parent name k arg fl kids h
    cases ye with
    | true => simp [afterName, hinfo, sGtNl, kidsAndClose, closeTag]; omega
    | false =>
      cases an with
      | none => simpa [afterName, hinfo] using he
      | some an => simp [afterName, hinfo]; omega

mutual
theorem costG_le (ns : List XNs) (fmt : Bool) : (t : YStmt) → ∀ (parent : YKw) (level : Nat), yinOk ns parent t = true →
    costG t + 1 ≤ (printStmt fmt level t).length
  | .mk name kw arg fl kids, parent, level, h => by
    have hk : yinOkList ns kw kids = true := by
      simp only [yinOk, Bool.and_eq_true] at h; exact h.2
    have ih := costK_le ns fmt kids kw (incLevel level) hk
    have hl := afterName_len ns parent fmt level name kw arg fl kids h
    rw [printStmt_shape ns parent fmt level _ h]
    simp only [costG, List.length_append, List.length_cons, YStmt.name]
    omega
theorem costK_le (ns : List XNs) (fmt : Bool) : (kids : List YStmt) → ∀ (parent : YKw) (level : Nat), yinOkList ns parent kids = true →
    costK kids ≤ (printStmts fmt level kids).length + 1
  | [], _, _, _ => by simp [costK, printStmts]
  | s :: r, parent, level, h => by
    simp only [yinOkList, Bool.and_eq_true] at h
    have h1 := costG_le ns fmt s parent level h.1
    have h2 := costK_le ns fmt r parent level h.2
    simp only [costK, printStmts, List.length_append]
    omega
end

end LyModel.Yin
