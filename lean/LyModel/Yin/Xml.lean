import LyModel.XmlLex.Model
/-! The XML pull lexer (`lyxml_ctx_new` / `lyxml_ctx_next`) is the shared model `LyModel/XmlLex/Model.lean`; its names are re-exported
    into the namespace of the YIN parser model. -/
namespace LyModel.Yin
export LyModel.XmlLex (YErr XStatus XNs XCtx inRanges isWs isNameStart isNameChar ignWs moveInput identRest parseIdent parseQName nextAttrContent sXmlns isNsDecl nsAdd nsRm nsGet skipSection skipToTag nextElement openAttrs openElement closeElement nextAttribute afterTag ctxNew ctxNext)
end LyModel.Yin
