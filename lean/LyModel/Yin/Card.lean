import LyModel.Generated.YinCard
/-!
# Module-level YIN route: the printer's child statements against the parser's `subelems` rules (`yin_parse_content`)

`yin_parse_content` accepts a child element only if its keyword is in the `subelems` table of the parent statement, refuses a second
occurrence of a `YIN_SUBELEM_UNIQUE` one and, at the end, a missing `YIN_SUBELEM_MANDATORY` one (`cardOk`).  The printer's side is an
emission pattern (generated from the yprp_* function): a sequence of child statements, each written always, optionally, or any
number of times; `realise` is what it writes for one choice of multiplicities.  Core Lean only.
-/
namespace LyModel.Yin.Card
open LyModel

/-- what the printer writes for one parsed statement: entry `i` of the pattern `counts[i]` times (an `always` entry once, an
    `optional` one at most once, whatever the count says) -/
def realise : List (Bytes × Nat) → List Nat → List Bytes
  | [], _ => []
  | (k, mode) :: r, cs =>
    let c := cs.headD 0
    let n := if mode = 0 then 1 else if mode = 1 then min c 1 else c
    List.replicate n k ++ realise r cs.tail

/-- the keywords of the repeatable group an entry of mode 2 opens (the following entries of mode 3), and the pattern behind the group -/
def groupRest : List (Bytes × Nat) → List Bytes × List (Bytes × Nat)
  | (k, 3) :: r => let g := groupRest r; (k :: g.1, g.2)
  | r => ([], r)

/-- **is `kids` what the pattern writes for some parsed statement?**  (the membership test the check evaluates on every child sequence
    libyang prints): an `always` entry consumes exactly one child with its keyword, an `optional` one at most one, a repeatable group
    (mode 2 and its mode-3 continuation: the alternatives of one dispatching call such as `yprp_node`) every leading child whose keyword
    is in the group — i.e. `kids` is a realisation of the pattern up to the order inside a repeatable group. -/
def matchesPat : (fuel : Nat) → List (Bytes × Nat) → List Bytes → Bool
  | 0, _, _ => false
  | _, [], kids => kids.isEmpty
  | f + 1, (k, mode) :: r, kids =>
    if mode = 0 then
      (match kids with
       | c :: cs => c == k && matchesPat f r cs
       | [] => false)
    else if mode = 1 then
      (match kids with
       | c :: cs => if c == k then matchesPat f r cs else matchesPat f r kids
       | [] => matchesPat f r [])
    else
      let g := groupRest r
      matchesPat f g.2 (kids.dropWhile fun c => c == k || g.1.contains c)

def isEmission (pat : List (Bytes × Nat)) (kids : List Bytes) : Bool := matchesPat (pat.length + 1) pat kids

/-- the cardinality rules of `yin_parse_content` on a sequence of child keywords -/
def cardOk (table : List (Bytes × Bool × Bool)) (kids : List Bytes) : Bool :=
  kids.all (fun k => table.any (fun r => r.1 == k)) &&
  table.all (fun r => (!r.2.2 || kids.count r.1 ≤ 1) && (!r.2.1 || 1 ≤ kids.count r.1))

/-- the decidable condition on the two generated tables: every emitted keyword is in the parser's table; a UNIQUE keyword is emitted by
    at most one entry, and not by an any-number entry; a MANDATORY keyword is emitted by an `always` entry -/
def patternOk (table : List (Bytes × Bool × Bool)) (pat : List (Bytes × Nat)) : Bool :=
  pat.all (fun e => table.any (fun r => r.1 == e.1)) &&
  table.all (fun r =>
    (!r.2.2 || ((pat.filter (fun e => e.1 == r.1)).length ≤ 1 && pat.all (fun e => !(e.1 == r.1 && decide (2 ≤ e.2))))) &&
    (!r.2.1 || pat.any (fun e => e.1 == r.1 && e.2 == 0)))

end LyModel.Yin.Card

namespace LyModel.Yin.Card
open LyModel LyModel.Generated

theorem mem_realise : ∀ (pat : List (Bytes × Nat)) (cs : List Nat) (k : Bytes), k ∈ realise pat cs → ∃ e ∈ pat, e.1 = k
  | [], _, _, h => by simp [realise] at h
  | (k', mode) :: r, cs, k, h => by
    simp only [realise, List.mem_append, List.mem_replicate] at h
    rcases h with ⟨_, rfl⟩ | h
    · exact ⟨(k, mode), by simp, rfl⟩
    · obtain ⟨e, he, hk⟩ := mem_realise r cs.tail k h
      exact ⟨e, by simp [he], hk⟩

theorem count_realise_zero : ∀ (pat : List (Bytes × Nat)) (cs : List Nat) (k : Bytes),
    (pat.filter (fun e => e.1 == k)).length = 0 → (realise pat cs).count k = 0
  | [], _, _, _ => by simp [realise]
  | (k', mode) :: r, cs, k, h => by
    simp only [List.filter_cons] at h
    by_cases hk : k' = k
    · simp [hk] at h
    · have hk' : (k' == k) = false := by simpa using hk
      simp only [hk', Bool.false_eq_true, if_false] at h
      simp [realise, List.count_append, List.count_replicate, hk', count_realise_zero r cs.tail k h]

theorem count_realise_le_one : ∀ (pat : List (Bytes × Nat)) (cs : List Nat) (k : Bytes),
    (pat.filter (fun e => e.1 == k)).length ≤ 1 → pat.all (fun e => !(e.1 == k && decide (2 ≤ e.2))) = true →
    (realise pat cs).count k ≤ 1
  | [], _, _, _, _ => by simp [realise]
  | (k', mode) :: r, cs, k, h, hm => by
    simp only [List.filter_cons] at h
    simp only [List.all_cons, Bool.and_eq_true] at hm
    by_cases hk : k' = k
    · subst hk
      simp only [beq_self_eq_true, if_true, List.length_cons] at h
      have hz := count_realise_zero r cs.tail k' (by omega)
      have hmode : mode < 2 := by simpa using hm.1
      simp only [realise, List.count_append, List.count_replicate, beq_self_eq_true, if_true, hz, Nat.add_zero]
      split
      · omega
      · split <;> omega
    · have hk' : (k' == k) = false := by simpa using hk
      simp only [hk', Bool.false_eq_true, if_false] at h
      have ih := count_realise_le_one r cs.tail k h hm.2
      simpa [realise, List.count_append, List.count_replicate, hk'] using ih

theorem count_realise_pos : ∀ (pat : List (Bytes × Nat)) (cs : List Nat) (k : Bytes),
    pat.any (fun e => e.1 == k && e.2 == 0) = true → 1 ≤ (realise pat cs).count k
  | [], _, _, h => by simp at h
  | (k', mode) :: r, cs, k, h => by
    simp only [List.any_cons, Bool.or_eq_true, Bool.and_eq_true, beq_iff_eq] at h
    simp only [realise, List.count_append, List.count_replicate]
    rcases h with ⟨rfl, rfl⟩ | h
    · simp
    · have := count_realise_pos r cs.tail k (by simpa using h)
      omega

/-- **the general step**: a pattern that passes `patternOk` never realises a child sequence the cardinality rules reject -/
theorem realise_cardOk (table : List (Bytes × Bool × Bool)) (pat : List (Bytes × Nat)) (h : patternOk table pat = true) (cs : List Nat) :
    cardOk table (realise pat cs) = true := by
  simp only [patternOk, Bool.and_eq_true, List.all_eq_true] at h
  obtain ⟨hmem, hrules⟩ := h
  simp only [cardOk, Bool.and_eq_true, List.all_eq_true]
  refine ⟨?_, ?_⟩
  · intro k hk
    obtain ⟨e, he, rfl⟩ := mem_realise pat cs k hk
    exact hmem e he
  · intro r hr
    have := hrules r hr
    simp only [Bool.and_eq_true, Bool.or_eq_true, Bool.not_eq_true', decide_eq_true_eq] at this ⊢
    refine ⟨?_, ?_⟩
    · rcases this.1 with hu | hu
      · exact Or.inl hu
      · exact Or.inr (count_realise_le_one pat cs r.1 hu.1 (by simpa [List.all_eq_true] using hu.2))
    · rcases this.2 with hm | hm
      · exact Or.inl hm
      · exact Or.inr (count_realise_pos pat cs r.1 hm)

end LyModel.Yin.Card
