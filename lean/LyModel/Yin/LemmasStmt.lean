import LyModel.Yin.LemmasStep
/-! `yin_parse_element_generic` on a printed statement without substatements (helper lemmas). -/
set_option linter.unusedSimpArgs false
set_option linter.unusedVariables false
namespace LyModel.Yin
open LyModel LyModel.Utf8 LyModel.Generated LyModel.XmlText LyModel.XmlLex

/-- what `yin_validate_value` accepts is a string the XML lexer can have produced -/
theorem yangText_of_valid : ∀ (fuel : Nat) (s : Bytes), YangStr.validText fuel s = true → YangText s
  | 0, _, h => by simp [YangStr.validText] at h
  | _ + 1, [], _ => .nil
  | f + 1, c :: cs, h => by
    simp only [YangStr.validText] at h
    split at h
    · rename_i cp n hc
      have hg : getUtf8 (c :: cs) = some (cp, n) := by
        unfold YangStr.charAt at hc
        split at hc
        · rename_i c0 n0 hg0
          split at hc <;> simp_all
        · simp at hc
      exact .cons hg (yangText_of_valid f _ h)
    · simp at h

theorem yangText_of_isYangText (s : Bytes) (h : YangStr.isYangText s = true) : YangText s :=
  yangText_of_valid _ _ h

/-- per-keyword facts the round trip needs, checked on the generated tables: the printer's attribute name is an identifier other
    than `xmlns`, `yin_match_keyword` recognises the keyword text, and the parser's switch expects exactly what the printer writes -/
def entryOk (e : Bytes × Option Bytes × Bool) : Bool :=
  let k := e.1
  let m := YangStr.matchKw k
  !k.isEmpty && isIdent k && m.1 && m.2.1 == k.length &&
  (match e.2.1, e.2.2 with
   | some an, false => isIdent an && an != sXmlns && yinParseArgTable.find? (fun x => x.1 == k) == some (k, some an, false)
   | none, false => yinParseArgTable.find? (fun x => x.1 == k) == some (k, none, false)
   | some an, true => yinParseArgTable.find? (fun x => x.1 == k) == some (k, none, true) &&
       an == (if k == sErrMsg then sValue else sText)
   | none, true => false)

theorem tables_ok : yinStmtTable.all entryOk = true := by decide +kernel

theorem entryOk_of_info (k : Bytes) (an : Option Bytes) (ye : Bool) (h : stmtInfo k = some (an, ye)) :
    entryOk (k, an, ye) = true := by
  unfold stmtInfo at h
  cases hf : yinStmtTable.find? (fun e => e.1 == k) with
  | none => simp [hf] at h
  | some e =>
    simp only [hf, Option.map_some, Option.some.injEq] at h
    have hm := List.mem_of_find?_eq_some hf
    have hk := List.find?_some hf
    have hall := List.all_eq_true.mp tables_ok e hm
    obtain ⟨e1, e2, e3⟩ := e
    simp only [beq_iff_eq] at hk
    simp only [Prod.mk.injEq] at h
    obtain ⟨rfl, rfl⟩ := h
    subst hk
    exact hall

/-- **A printed keyword statement with an attribute argument and no substatement is parsed back exactly.**
    `cx` is the lexer state `yin_parse_element_generic` is entered with (start tag `<k` read, attribute scan done). -/
theorem parseGeneric_leaf_attr (cx : XCtx) (k an s rest : Bytes) (E : List (Option Bytes × Bytes)) (parent : YKw) (f : Nat)
    (hinfo : stmtInfo k = some (some an, false))
    (hst : cx.status = .element) (hpfx : cx.pfx = none) (hname : cx.name = k) (he : cx.elems = (none, k) :: E)
    (hns : nsGet cx.ns none = some yinNsUri) (hrm : nsRm E.length cx.ns = cx.ns)
    (hval : ¬ (k = sValue ∧ parent = .kw sErrMsg)) (hs : YangStr.isYangText s = true)
    (hinp : cx.inp = an ++ 61 :: 34 :: (dumpText true s ++ 34 :: 47 :: 62 :: rest)) :
    ∃ c', parseGeneric (f + 2) parent cx = .ok (c', .mk k (.kw k) (some s) LYS_DOUBLEQUOTED []) ∧
      c'.inp = rest ∧ c'.status = .elemClose ∧ c'.elems = E ∧ c'.ns = cx.ns := by
  have hok := entryOk_of_info k (some an) false hinfo
  simp only [entryOk, Bool.and_eq_true, Bool.not_eq_true', beq_iff_eq, bne_iff_ne, ne_eq] at hok
  obtain ⟨⟨⟨⟨hk0, hkid⟩, hm1⟩, hm2⟩, ⟨han, hx⟩, hfind⟩ := hok
  have hsY := yangText_of_isYangText s hs
  have h47 : isWs 47 = false := by decide
  obtain ⟨a, t, rfl, ha⟩ := isIdent_ne_nil han
  have hwa : isWs a = false := (identB_facts a (identStartB_facts a ha).1).2.2.1
  -- the four lexer steps
  have e1 := next_attrName cx (a :: t) (34 :: (dumpText true s ++ 34 :: 47 :: 62 :: rest)) (Or.inl hst) han hx
    (by rw [hinp]; simp [ignWs_of_not a _ hwa])
  generalize hc1 : ({ cx with inp := 61 :: 34 :: (dumpText true s ++ 34 :: 47 :: 62 :: rest), status := XStatus.attribute, pfx := none, name := a :: t } : XCtx) = c1 at e1
  have e2 := next_attrValue c1 s (47 :: 62 :: rest) (by rw [← hc1]) hsY (by rw [← hc1])
  generalize hc2 : ({ c1 with inp := 47 :: 62 :: rest, status := XStatus.attrContent, value := s, wsOnly := s.all (wsLit true) } : XCtx) = c2 at e2
  have e3 := next_emptyTag c2 (62 :: rest) (Or.inr (by rw [← hc2])) (by rw [← hc2]; simp [ignWs_of_not 47 _ h47])
  generalize hc3 : ({ c2 with inp := 47 :: 62 :: rest, status := XStatus.elemContent, value := [], wsOnly := true } : XCtx) = c3 at e3
  have he3 : c3.elems = (none, k) :: E := by rw [← hc3, ← hc2, ← hc1]; exact he
  have e4 := next_closeEmpty c3 rest (none, k) E (by rw [← hc3]) (by rw [← hc3]) he3
  have hns3 : c3.ns = cx.ns := by rw [← hc3, ← hc2, ← hc1]
  refine ⟨{ c3 with inp := rest, status := .elemClose, elems := E, ns := nsRm E.length c3.ns, pfx := none, name := k }, ?_, rfl, rfl, rfl, by simp [hns3, hrm]⟩
  have hmk : matchKeyword cx.ns k none parent = .kw k := by
    simp only [matchKeyword, hk0, hns, hm2, hm1]
    simp
    intro h1 h2; exact hval ⟨h1, h2⟩
  have hc1s : c1.status = .attribute := by rw [← hc1]
  have hc1p : c1.pfx = none := by rw [← hc1]
  have hc1n : c1.name = a :: t := by rw [← hc1]
  have hc1i : c1.inp.length + 1 = (c1.inp.length - 1) + 2 := by rw [← hc1]; simp
  have hc2v : c2.value = s := by rw [← hc2]
  have hc3s : c3.status = .elemContent := by rw [← hc3]
  have hc3w : c3.wsOnly = true := by rw [← hc3]
  have hpa : parseAttribute (some (a :: t)) (c1.inp.length + 1) none c1 = .ok (c3, some s) := by
    rw [hc1i]
    simp only [parseAttribute, hc1s, hc1p, hc1n, e2, hc2v, hs, e3, hc3s]
    simp
  simp only [parseGeneric, hpfx, hname, hmk, remapArg_kw, parseExtArg, e1, Option.bind_some]
  rw [hfind]
  simp only [hpa, Except.map, hc3s, hc3w, e4, parseKids, mkwToYKw, qualName]
  simp
