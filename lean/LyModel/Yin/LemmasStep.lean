import LyModel.Yin.LemmasLex
/-! `lyxml_ctx_next` on the pieces of a printed YIN element: attribute name, attribute value, end of the start tag, empty element,
    content, start tag of a child, end tag (helper lemmas). -/
set_option linter.unusedSimpArgs false
set_option linter.unusedVariables false
namespace LyModel.Yin
open LyModel LyModel.Utf8 LyModel.Generated LyModel.XmlText LyModel.XmlLex

theorem parse_dump (attr : Bool) (endc : UInt8) (hend : EndOk attr endc) (s rest : Bytes) (hs : YangText s)
    (hrest : stripPrefix sCdata (endc :: rest) = none) :
    XmlText.parse endc (dumpText attr s ++ endc :: rest) = .ok (s, s.all (wsLit attr), endc :: rest) := by
  have := parseValue_dump attr endc hend rest hrest hs ((dumpText attr s ++ endc :: rest).length + 1) true
    (by simp [List.length_append])
  simpa [XmlText.parse] using this

/-- `="…"` as `ypr_open` writes it -/
theorem nextAttrContent_printed (s r : Bytes) (hs : YangText s) :
    nextAttrContent (61 :: 34 :: (dumpText true s ++ 34 :: r)) = .ok (s, s.all (wsLit true), r) := by
  have h61 : isWs 61 = false := by decide
  have h34 : isWs 34 = false := by decide
  have hp := parse_dump true 34 (Or.inr ⟨rfl, rfl⟩) s r hs (by simp [sCdata, stripPrefix])
  simp [nextAttrContent, ignWs, h61, h34, moveInput, hp]

theorem nextAttribute_attr (f : Nat) (inp an r : Bytes) (han : isIdent an = true) (hx : an ≠ sXmlns)
    (h : ignWs inp = an ++ 61 :: r) :
    nextAttribute (f + 1) inp = .ok (some (none, an), 61 :: r) := by
  obtain ⟨a, t, rfl, ha⟩ := isIdent_ne_nil han
  have ⟨hb, hn⟩ := identStartB_facts a ha
  have ⟨h1, _, _, h62, h47, _⟩ := identB_facts a hb
  have hq := parseQName_qual none (a :: t) 61 r ⟨han, by simp⟩ (by decide) (by decide)
  simp only [qualName, List.cons_append] at hq
  have hns : isNsDecl none (a :: t) = false := by simp [isNsDecl, hx]
  simp only [nextAttribute, h, List.cons_append]
  simp [h62, h47, getUtf8_cons1 a _ h1, hn, hq, hns]

theorem nextAttribute_end (f : Nat) (inp r : Bytes) (c : UInt8) (hc : c = 62 ∨ c = 47) (h : ignWs inp = c :: r) :
    nextAttribute (f + 1) inp = .ok (none, c :: r) := by
  simp only [nextAttribute, h]
  rcases hc with rfl | rfl <;> simp

/-- the lexer is in a start tag -/
def InTag (cx : XCtx) : Prop := cx.status = .element ∨ cx.status = .attrContent

theorem next_attrName (cx : XCtx) (an r : Bytes) (ht : InTag cx) (han : isIdent an = true) (hx : an ≠ sXmlns)
    (h : ignWs cx.inp = an ++ 61 :: r) :
    ctxNext cx = .ok { cx with inp := 61 :: r, status := .attribute, pfx := none, name := an } := by
  rcases ht with hs | hs <;> simp [ctxNext, hs, nextAttribute_attr cx.inp.length cx.inp an r han hx h]

theorem next_attrValue (cx : XCtx) (s r : Bytes) (hst : cx.status = .attribute) (hs : YangText s)
    (h : cx.inp = 61 :: 34 :: (dumpText true s ++ 34 :: r)) :
    ctxNext cx = .ok { cx with inp := r, status := .attrContent, value := s, wsOnly := s.all (wsLit true) } := by
  simp [ctxNext, hst, h, nextAttrContent_printed s r hs]

theorem next_emptyTag (cx : XCtx) (r : Bytes) (ht : InTag cx) (h : ignWs cx.inp = 47 :: r) :
    ctxNext cx = .ok { cx with inp := 47 :: r, status := .elemContent, value := [], wsOnly := true } := by
  rcases ht with hs | hs <;> simp [ctxNext, hs, nextAttribute_end cx.inp.length cx.inp r 47 (Or.inr rfl) h]

theorem next_content (cx : XCtx) (s t : Bytes) (ht : InTag cx) (hs : YangText s)
    (hrest : stripPrefix sCdata (60 :: t) = none) (h : ignWs cx.inp = 62 :: (dumpText false s ++ 60 :: t)) :
    ctxNext cx = .ok { cx with inp := 60 :: t, status := .elemContent, value := s, wsOnly := s.all (wsLit false) } := by
  have hp := parse_dump false 60 (Or.inl rfl) s t hs hrest
  rcases ht with hs' | hs' <;>
    simp [ctxNext, hs', nextAttribute_end cx.inp.length cx.inp _ 62 (Or.inl rfl) h, hp]

theorem next_closeEmpty (cx : XCtx) (r : Bytes) (e : Option Bytes × Bytes) (E : List (Option Bytes × Bytes))
    (hst : cx.status = .elemContent) (h : cx.inp = 47 :: 62 :: r) (he : cx.elems = e :: E) :
    ctxNext cx = .ok { cx with inp := r, status := .elemClose, elems := E, ns := nsRm E.length cx.ns, pfx := e.1, name := e.2 } := by
  have h47 : isWs 47 = false := by decide
  simp [ctxNext, hst, h, he, closeElement, ignWs, h47, moveInput]

/-- between two tags: after an end tag, or after content that stopped at a `<` -/
def Between (cx : XCtx) : Prop := cx.status = .elemClose ∨ (cx.status = .elemContent ∧ cx.inp.head? ≠ some 47)

theorem skipToTag_tag (depth f : Nat) (inp cs : Bytes) (c : UInt8) (h33 : c ≠ 33) (h63 : c ≠ 63)
    (h : ignWs inp = 60 :: c :: cs) : skipToTag depth (f + 1) inp = .ok (c :: cs) := by
  simp only [skipToTag, h]
  split <;> simp_all

theorem afterTag_of_between (cx : XCtx) (hb : Between cx) : ctxNext cx = afterTag cx cx.inp := by
  rcases hb with hs | ⟨hs, hh⟩
  · simp [ctxNext, hs]
  · simp [ctxNext, hs, hh]

/-- the attribute pre-scan of `lyxml_open_element` finds no namespace declaration -/
def ScanOk (count : Nat) (ns : List XNs) (i1 : Bytes) : Prop :=
  openAttrs count (i1.length + 1) true i1 ns i1 = .ok (ns, i1)

theorem next_open (cx : XCtx) (pfx : Option Bytes) (n : Bytes) (b : UInt8) (r : Bytes) (hb : Between cx)
    (hq : QualOk pfx n) (hbt : termB b = true) (hb58 : b ≠ 58)
    (hdepth : cx.elems.length + 1 ≤ LY_MAX_BLOCK_DEPTH)
    (hscan : ScanOk (cx.elems.length + 1) cx.ns (ignWs (b :: r)))
    (h : ignWs cx.inp = 60 :: (qualName pfx n ++ b :: r)) :
    ctxNext cx = .ok { cx with inp := ignWs (b :: r), status := .element, elems := (pfx, n) :: cx.elems, pfx := pfx, name := n } := by
  obtain ⟨a, t, hqn, ha⟩ := qualName_head pfx n hq
  have ⟨hbb, hn⟩ := identStartB_facts a ha
  have ⟨h1, _, hws, h62, h47, h33, h63, _⟩ := identB_facts a hbb
  have hq' := parseQName_qual pfx n b r hq hbt hb58
  rw [hqn] at h hq'
  simp only [List.cons_append] at h hq'
  have hsk := skipToTag_tag cx.elems.length cx.inp.length cx.inp _ a h33 h63 h
  rw [afterTag_of_between cx hb]
  unfold ScanOk at hscan
  simp only [afterTag, nextElement, hsk]
  simp [h47, ignWs_of_not a _ hws, hq', Except.map, openElement, hscan, Nat.not_lt.mpr hdepth]

theorem next_close (cx : XCtx) (pfx : Option Bytes) (n r : Bytes) (E : List (Option Bytes × Bytes)) (hb : Between cx)
    (hq : QualOk pfx n) (he : cx.elems = (pfx, n) :: E)
    (h : ignWs cx.inp = 60 :: 47 :: (qualName pfx n ++ 62 :: r)) :
    ctxNext cx = .ok { cx with inp := r, status := .elemClose, elems := E, ns := nsRm E.length cx.ns, pfx := pfx, name := n } := by
  obtain ⟨a, t, hqn, ha⟩ := qualName_head pfx n hq
  have ⟨hbb, hn⟩ := identStartB_facts a ha
  have ⟨h1, _, hws, _⟩ := identB_facts a hbb
  have hq' := parseQName_qual pfx n 62 r hq (by decide) (by decide)
  rw [hqn] at h hq'
  simp only [List.cons_append] at h hq'
  have hsk := skipToTag_tag cx.elems.length cx.inp.length cx.inp _ 47 (by decide) (by decide) h
  have h62 : isWs 62 = false := by decide
  rw [afterTag_of_between cx hb]
  simp only [afterTag, nextElement, hsk]
  simp [moveInput, ignWs_of_not a _ hws, hq', Except.map, closeElement, he, ignWs_of_not 62 r h62]

/-- start tag without attributes: the pre-scan stops at `/` or `>` -/
theorem scanOk_end (count : Nat) (ns : List XNs) (c : UInt8) (r : Bytes) (hc : c = 62 ∨ c = 47) :
    ScanOk count ns (ignWs (c :: r)) := by
  have hw : isWs c = false := by rcases hc with rfl | rfl <;> decide
  have ht : termB c = true := by rcases hc with rfl | rfl <;> decide
  have ⟨h1, _, hns⟩ := termB_facts c ht
  simp [ScanOk, ignWs_of_not c r hw, openAttrs, getUtf8_cons1 c r h1, hns]

/-- start tag with the one attribute `ypr_open` writes -/
theorem scanOk_attr (count : Nat) (ns : List XNs) (an s r : Bytes) (c : UInt8) (han : isIdent an = true) (hx : an ≠ sXmlns)
    (hs : YangText s) (hc : c = 62 ∨ c = 47) :
    ScanOk count ns (ignWs (32 :: (an ++ 61 :: 34 :: (dumpText true s ++ 34 :: c :: r)))) := by
  obtain ⟨a, t, rfl, ha⟩ := isIdent_ne_nil han
  have ⟨hb, hn⟩ := identStartB_facts a ha
  have ⟨h1, _, hws, _⟩ := identB_facts a hb
  have hq := parseQName_qual none (a :: t) 61 (34 :: (dumpText true s ++ 34 :: c :: r)) ⟨han, by simp⟩ (by decide) (by decide)
  simp only [qualName, List.cons_append] at hq
  have hns : isNsDecl none (a :: t) = false := by simp [isNsDecl, hx]
  have hw : isWs c = false := by rcases hc with rfl | rfl <;> decide
  have ht : termB c = true := by rcases hc with rfl | rfl <;> decide
  have ⟨hc1, _, hcns⟩ := termB_facts c ht
  have hac := nextAttrContent_printed s (c :: r) hs
  simp only [ScanOk, ignWs_sp, List.cons_append, ignWs_of_not a _ hws]
  simp only [openAttrs, List.length_cons]
  simp [getUtf8_cons1 a _ h1, hn, hq, hac, hns, ignWs_of_not c r hw, openAttrs, getUtf8_cons1 c r hc1, hcns]

end LyModel.Yin
