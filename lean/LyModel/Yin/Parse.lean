import LyModel.Yin.Xml
import LyModel.Yin.Print
import LyModel.YangStr.Lex
/-!
# YIN schema parser, generic statement layer (`parser_yin.c`)

`yin_match_keyword`, `yin_match_argument_name` (through the generated table), `yin_validate_value` (string arguments),
`yin_parse_attribute`, `yin_parse_extension_instance_arg`, `yin_parse_element_generic`, `yin_parse_extension_instance`,
and `lysp_ext_instance_resolve_argument` (`tree_schema_common.c`, the `LY_VALUE_XML` branch), on top of the pull lexer
`Yin/Xml.lean`.  The keyword trie is `YangStr.matchKw` (`lysp_match_kw`, generated).  Core Lean only.
-/
namespace LyModel.Yin
open LyModel LyModel.Generated LyModel.XmlLex

/-- result of `yin_match_keyword` -/
inductive MKw where
  | none | ext | kw (k : Bytes) | argText | argValue
  deriving Repr, DecidableEq

def sText : Bytes := [116, 101, 120, 116]
def sErrMsg : Bytes := [101, 114, 114, 111, 114, 45, 109, 101, 115, 115, 97, 103, 101]

/-- the test for the argument element `text`: `strncmp(start, "text", name_len) == 0` (a prefix test), or — with the repair of F342,
    `exact` = `Generated.yinTextExact` — the exact name -/
def textMatch (exact : Bool) (name : Bytes) : Bool := if exact then name == sText else name.isPrefixOf sText

theorem textMatch_text (b : Bool) : textMatch b sText = true := by cases b <;> decide

/-- `yin_match_keyword(ctx, name, name_len, prefix, prefix_len, parent)` -/
def matchKeyword (ns : List XNs) (name : Bytes) (pfx : Option Bytes) (parent : YKw) : MKw :=
  if name.isEmpty then .none else
  match nsGet ns pfx with
  | none => .none                        -- elements without namespace are automatically unknown
  | some uri =>
    if uri != yinNsUri then .ext else
    let r := YangStr.matchKw name
    if r.2.1 == name.length then
      if r.1 then (if name == sValue && parent == .kw sErrMsg then .argValue else .kw name) else .none
    else if textMatch yinTextExact name then .argText
    else .none

/-- `yin_parse_attribute(ctx, arg_type, &arg_val, Y_MAYBE_STR_ARG, …)`; `expected` is the spelling of `arg_type`
    (`none` = `YIN_ARG_NONE`).  Any other unprefixed attribute is an error; prefixed ones are skipped. -/
def parseAttribute (expected : Option Bytes) : (fuel : Nat) → (found : Option Bytes) → XCtx → Except YErr (XCtx × Option Bytes)
  | 0, _, _ => .error .invalid
  | f + 1, found, cx =>
    if cx.status != .attribute then .ok (cx, found) else
    if cx.pfx.isNone then
      if expected == some cx.name then
        if found.isSome then .error .invalid else
        match ctxNext cx with
        | .error e => .error e
        | .ok c1 =>
          if !YangStr.isYangText c1.value then .error .invalid else
          match ctxNext c1 with
          | .error e => .error e
          | .ok c2 => parseAttribute expected f (some c1.value) c2
      else .error .invalid
    else
      match ctxNext cx with
      | .error e => .error e
      | .ok c1 =>
        match ctxNext c1 with
        | .error e => .error e
        | .ok c2 => parseAttribute expected f found c2

/-- skip the attributes of the argument element (`while (status == LYXML_ATTRIBUTE) { next; next; }`) -/
def skipAttrs : (fuel : Nat) → XCtx → Except YErr XCtx
  | 0, _ => .error .invalid
  | f + 1, cx =>
    if cx.status != .attribute then .ok cx else
    match ctxNext cx with
    | .error e => .error e
    | .ok c1 =>
      match ctxNext c1 with
      | .error e => .error e
      | .ok c2 => skipAttrs f c2

/-- `yin_parse_extension_instance_arg(ctx, parent_stmt, &arg)`; `k` = the keyword (`none` = a value outside the switch:
    `LOGINT`) -/
def parseExtArg (k : Option Bytes) (cx : XCtx) : Except YErr (XCtx × Option Bytes) :=
  match ctxNext cx with
  | .error e => .error e
  | .ok c1 =>
    match k.bind fun k => yinParseArgTable.find? (fun e => e.1 == k) with
    | none => .error .eint
    | some (_, an, false) => parseAttribute an (c1.inp.length + 1) none c1
    | some (kw, an, true) =>
      match parseAttribute an (c1.inp.length + 1) none c1 with
      | .error e => .error e
      | .ok (c2, _) =>
        let c3r := if c2.wsOnly then ctxNext c2 else .ok c2
        match c3r with
        | .error e => .error e
        | .ok c3 =>
          if (c3.status == .elemContent && !c3.wsOnly) || c3.status != .element then .error .invalid else
          let child := matchKeyword c3.ns c3.name c3.pfx (.kw kw)
          if (kw == sErrMsg && child != .argValue) || (kw != sErrMsg && child != .argText) then .error .invalid else
          match ctxNext c3 with
          | .error e => .error e
          | .ok c4 =>
            match skipAttrs (c4.inp.length + 1) c4 with
            | .error e => .error e
            | .ok c5 =>
              match ctxNext c5 with
              | .error e => .error e
              | .ok c6 =>
                if yinTextStrict && decide (c6.status ≠ .elemClose) then .error .invalid else .ok (c6, some c5.value)

/-- `prefix:name` or `name` -/
def qualName (pfx : Option Bytes) (name : Bytes) : Bytes :=
  match pfx with
  | some p => p ++ 58 :: name
  | none => name

/-- the attribute loop of `yin_parse_element_generic` for an extension-instance element: every attribute becomes a child
    flagged `LYS_YIN_ATTR`; a prefixed one has no argument -/
def genericAttrs : (fuel : Nat) → XCtx → Except YErr (XCtx × List YStmt)
  | 0, _ => .error .invalid
  | f + 1, cx =>
    if cx.status != .attribute then .ok (cx, []) else
    match ctxNext cx with
    | .error e => .error e
    | .ok c1 =>
      let st := YStmt.mk cx.name .none (if cx.pfx.isNone then some c1.value else none) LYS_YIN_ATTR []
      match ctxNext c1 with
      | .error e => .error e
      | .ok c2 => (genericAttrs f c2).map fun (c, l) => (c, st :: l)

/-- the attribute loop of `yin_parse_extension_instance`: prefixed attributes are skipped -/
def extAttrs : (fuel : Nat) → XCtx → Except YErr (XCtx × List YStmt)
  | 0, _ => .error .invalid
  | f + 1, cx =>
    if cx.status != .attribute then .ok (cx, []) else
    match ctxNext cx with
    | .error e => .error e
    | .ok c1 =>
      match ctxNext c1 with
      | .error e => .error e
      | .ok c2 =>
        (extAttrs f c2).map fun (c, l) =>
          (c, if cx.pfx.isNone then YStmt.mk cx.name .none (some c1.value) LYS_YIN_ATTR [] :: l else l)

/-- the repair of F340 in `yin_parse_element_generic` (`fixed` = `Generated.yinArgRemap`, read off the source): the argument element
    was consumed with its parent, so a later `value` under `error-message` is the `value` statement, and a stray `text` is unknown -/
def remapArg (fixed : Bool) : MKw → MKw
  | .argValue => if fixed then .kw sValue else .argValue
  | .argText => if fixed then .none else .argText
  | m => m

@[simp] theorem remapArg_kw (b : Bool) (k : Bytes) : remapArg b (.kw k) = .kw k := rfl
@[simp] theorem remapArg_ext (b : Bool) : remapArg b .ext = .ext := rfl

def mkwToYKw : MKw → YKw
  | .ext => .ext
  | .kw k => .kw k
  | _ => .none

mutual
/-- `yin_parse_element_generic(ctx, parent_stmt, &element)`, entered with `status == LYXML_ELEMENT`, left after the
    closing tag of the element was read (`status == LYXML_ELEM_CLOSE`) -/
def parseGeneric : (fuel : Nat) → (parent : YKw) → XCtx → Except YErr (XCtx × YStmt)
  | 0, _, _ => .error .invalid
  | f + 1, parent, cx =>
    let name := qualName cx.pfx cx.name
    let mk := remapArg yinArgRemap (matchKeyword cx.ns cx.name cx.pfx parent)
    let head : Except YErr (XCtx × Option Bytes × Nat × List YStmt) :=
      match mk with
      | .none => .error .invalid
      | .ext =>
        match ctxNext cx with
        | .error e => .error e
        | .ok c1 => (genericAttrs (c1.inp.length + 1) c1).map fun (c, l) => (c, none, 0, l)
      | .kw k =>
        (parseExtArg (some k) cx).map fun (c, a) => (c, a, if a.isSome then LYS_DOUBLEQUOTED else 0, [])
      | _ => (parseExtArg none cx).map fun (c, a) => (c, a, 0, [])
    match head with
    | .error e => .error e
    | .ok (c1, arg, flags, attrs) =>
      let kw := mkwToYKw mk
      if c1.status != .elemContent || c1.wsOnly then
        match ctxNext c1 with
        | .error e => .error e
        | .ok c2 =>
          (parseKids f kw c2).map fun (c, kids) => (c, YStmt.mk name kw arg flags (attrs ++ kids))
      else
        -- text content: it replaces the argument; with the repair of F341 (`Generated.yinTextStrict`) only an extension-keyword
        -- element may have text content, and no sub-element may follow it
        if yinTextStrict && !c1.value.isEmpty && decide (kw ≠ .ext) then .error .invalid else
        let arg' := if c1.value.isEmpty then arg else some c1.value
        match ctxNext c1 with
        | .error e => .error e
        | .ok c =>
          if yinTextStrict && decide (c.status ≠ .elemClose) then .error .invalid
          else .ok (c, YStmt.mk name kw arg' flags attrs)
/-- `while (status == LYXML_ELEMENT) { parse subelement; next; }` -/
def parseKids : (fuel : Nat) → (parent : YKw) → XCtx → Except YErr (XCtx × List YStmt)
  | 0, _, _ => .error .invalid
  | f + 1, parent, cx =>
    if cx.status != .element then .ok (cx, []) else
    match parseGeneric f parent cx with
    | .error e => .error e
    | .ok (c1, s) =>
      match ctxNext c1 with
      | .error e => .error e
      | .ok c2 => (parseKids f parent c2).map fun (c, l) => (c, s :: l)
end

/-- `yin_parse_extension_instance`, entered with `status == LYXML_ELEMENT`: the stored name and the child list.
    Fuel: the length of the input behind the start-tag name (every element read costs 2 and is at least 4 bytes long). -/
def parseExtInst (cx : XCtx) : Except YErr (XCtx × Bytes × List YStmt) :=
  match cx.pfx with
  | none => .error .invalid                -- "without the mandatory prefix"
  | some p =>
    let name := p ++ 58 :: cx.name
    match ctxNext cx with
    | .error e => .error e
    | .ok c1 =>
      match extAttrs (c1.inp.length + 1) c1 with
      | .error e => .error e
      | .ok (c2, attrs) =>
        if c2.wsOnly then
          match ctxNext c2 with
          | .error e => .error e
          | .ok c3 => (parseKids (cx.inp.length + 2) .ext c3).map fun (c, kids) => (c, name, attrs ++ kids)
        else if !c2.value.isEmpty then .error .invalid      -- "unexpected text content"
        else .ok (c2, name, attrs)

/-- the local part of `prefix:name` (`ly_parse_nodeid`) -/
def localOf (name : Bytes) : Bytes := if name.contains 58 then (name.dropWhile (· != 58)).drop 1 else name

def isAttr (s : YStmt) : Bool := s.flags &&& LYS_YIN_ATTR != 0

def setArgFlag : YStmt → YStmt
  | .mk n k a f c => .mk n k a (f ||| LYS_YIN_ARGUMENT) c

/-- `lysp_ext_instance_resolve_argument` for an instance read from YIN (`ext_p->argument == NULL`, `format == LY_VALUE_XML`):
    the argument and the child list with the argument statement flagged `LYS_YIN_ARGUMENT`.  `sameNs p q`: the verdict of
    `ly_resolve_prefix(ext prefix) == ly_resolve_prefix(arg prefix)` (both resolve in the stored namespace environment). -/
def resolveArgument (sameNs : Bytes → Bytes → Bool) (name : Bytes) (argname : Option Bytes) (yinElem : Bool)
    (children : List YStmt) : Except YErr (Option Bytes × List YStmt) :=
  match argname with
  | none => .ok (none, children)
  | some an =>
    if yinElem then
      -- the argument is looked for only if a child element exists; then the FIRST child is taken
      if (children.dropWhile isAttr).isEmpty then .error .invalid else
      match children with
      | [] => .error .invalid
      | s :: rest =>
        if localOf s.name != an then .error .invalid
        else if !sameNs (prefixOf name) (prefixOf s.name) then .error .invalid
        else match s.arg with
          | none => .error .invalid           -- "missing argument element"
          | some a => .ok (some a, setArgFlag s :: rest)
    else
      let attrs := children.takeWhile isAttr
      match attrs.find? (fun s => s.name == an) with
      | none => .error .invalid
      | some s =>
        match s.arg with
        | none => .error .invalid
        | some a =>
          let rec mark : List YStmt → List YStmt
            | [] => []
            | t :: r => if isAttr t && t.name == an then setArgFlag t :: r else t :: mark r
          .ok (some a, mark children)

/-- the document-level entry used by the driver and the theorems: `lyxml_ctx_new` on the text, then
    `yin_parse_extension_instance` on its first element -/
def parseExtDoc (inp : Bytes) : Except YErr (Bytes × List YStmt) :=
  match ctxNew inp with
  | .error e => .error e
  | .ok cx =>
    if cx.status != .element then .error .invalid else
    (parseExtInst cx).map fun (_, n, l) => (n, l)

end LyModel.Yin
