import LyModel.Yin.Ok
import LyModel.Yin.Strict
import LyModel.Yin.Card
/-! driver ops of component `yin` (same ops as `harness/wb_yin.c`)

Tree syntax (no blanks): statement `S<name>:<N|E|K<keyword>>:<arg|N>:<flags>{<statements>}`, extension instance
`X<name>:<argname|N>:<0|1>:<argument|N>[<instances>]{<statements>}`; names and strings in hex (`-` = empty). -/
namespace LyModel.Yin.Drv
open LyModel LyModel.Yin

def kwSer : YKw → String
  | .none => "N" | .ext => "E" | .kw k => "K" ++ Hex.enc k

mutual
def serStmt : YStmt → String
  | .mk n kw arg flags cs =>
    "S" ++ Hex.enc n ++ ":" ++ kwSer kw ++ ":" ++ (match arg with | some a => Hex.enc a | none => "N") ++ ":" ++
      toString flags ++ "{" ++ serStmts cs ++ "}"
def serStmts : List YStmt → String
  | [] => ""
  | s :: ss => serStmt s ++ serStmts ss
end

def serList (l : List YStmt) : String := if l.isEmpty then "-" else serStmts l

/-- field up to (not including) one of the stop characters -/
def takeField (stop : List Char) : List Char → String × List Char
  | [] => ("", [])
  | c :: r => if stop.contains c then ("", c :: r) else let (a, t) := takeField stop r; (String.singleton c ++ a, t)

def optHex (s : String) : Option (Option Bytes) := if s == "N" then some none else (Hex.dec s).map some

mutual
def rdStmt : (fuel : Nat) → List Char → Option (YStmt × List Char)
  | 0, _ => none
  | f + 1, 'S' :: r =>
    let (n, r1) := takeField [':'] r
    let (k, r2) := takeField [':'] (r1.drop 1)
    let (a, r3) := takeField [':'] (r2.drop 1)
    let (fl, r4) := takeField ['{'] (r3.drop 1)
    let kw : Option YKw :=
      if k == "N" then some .none else if k == "E" then some .ext
      else if k.startsWith "K" then (Hex.dec (String.ofList (k.toList.drop 1))).map .kw else none
    match Hex.dec n, kw, optHex a, fl.toNat?, r4 with
    | some n, some kw, some a, some fl, '{' :: r5 =>
      match rdStmts f r5 with
      | some (cs, '}' :: r6) => some (.mk n kw a fl cs, r6)
      | _ => none
    | _, _, _, _, _ => none
  | _, _ => none
def rdStmts : (fuel : Nat) → List Char → Option (List YStmt × List Char)
  | 0, _ => none
  | f + 1, 'S' :: r =>
    match rdStmt f ('S' :: r) with
    | some (s, r1) => (rdStmts f r1).map fun (l, t) => (s :: l, t)
    | none => none
  | _, r => some ([], r)
end

mutual
def rdExt : (fuel : Nat) → List Char → Option (ExtInst × List Char)
  | 0, _ => none
  | f + 1, 'X' :: r =>
    let (n, r1) := takeField [':'] r
    let (an, r2) := takeField [':'] (r1.drop 1)
    let (ye, r3) := takeField [':'] (r2.drop 1)
    let (a, r4) := takeField ['['] (r3.drop 1)
    match Hex.dec n, optHex an, optHex a, r4 with
    | some n, some an, some a, '[' :: r5 =>
      match rdExts f r5 with
      | some (es, ']' :: '{' :: r6) =>
        match rdStmts (r6.length + 1) r6 with
        | some (cs, '}' :: r7) => some (.mk n an (ye == "1") a es cs, r7)
        | _ => none
      | _ => none
    | _, _, _, _ => none
  | _, _ => none
def rdExts : (fuel : Nat) → List Char → Option (List ExtInst × List Char)
  | 0, _ => none
  | f + 1, 'X' :: r =>
    match rdExt f ('X' :: r) with
    | some (e, r1) => (rdExts f r1).map fun (l, t) => (e :: l, t)
    | none => none
  | _, r => some ([], r)
end

def stmtsOf (s : String) : Option (List YStmt) :=
  if s == "-" then some [] else
  match rdStmts (s.length + 1) s.toList with
  | some (l, []) => some l
  | _ => none

def extsOf (s : String) : Option (List ExtInst) :=
  if s == "-" then some [] else
  match rdExts (s.length + 1) s.toList with
  | some (l, []) => some l
  | _ => none

/-- C string view of a decoded argument: bytes before the first NUL -/
def cstr (b : Bytes) : Bytes := b.takeWhile (· != 0)

/-- `ly_resolve_prefix` verdict in the harness context: the modules `ga` (`urn:ga`) and `gb` (`urn:gb`) are loaded; the
    prefixes are resolved in the namespace environment of the document's first element -/
def sameNsIn (ns : List XNs) (p q : Bytes) : Bool :=
  let known : List Bytes := ["urn:ga".toUTF8.toList, "urn:gb".toUTF8.toList]
  let modOf (x : Bytes) : Option Bytes := (nsGet ns (if x.isEmpty then none else some x)).filter (known.contains ·)
  modOf p == modOf q

/-- the declarations `tools/checks/yincomp.py` puts on the start tag (`NSDECL`) -/
def checkNs : List XNs :=
  [⟨some "u".toUTF8.toList, "urn:unknown".toUTF8.toList, 1⟩, ⟨some "h".toUTF8.toList, "urn:gb".toUTF8.toList, 1⟩,
   ⟨some "g".toUTF8.toList, "urn:ga".toUTF8.toList, 1⟩, ⟨none, Generated.yinNsUri, 1⟩]

def handle (op : String) (args : List String) : String :=
  match op, args with
  | "prstmt", [fmt, lvl, t] =>
    match lvl.toNat?, stmtsOf t with
    | some l, some ss => "ok " ++ Hex.enc (printStmts (fmt == "1") l ss)
    | _, _ => "err BadArg"
  | "prext", [fmt, lvl, po, t] =>
    match lvl.toNat?, extsOf t with
    | some l, some [e] => "ok " ++ Hex.enc (printExt (fmt == "1") l (po == "1") e)
    | _, _ => "err BadArg"
  | "prsub", [fmt, lvl, k, text, t] =>
    match lvl.toNat?, Hex.dec k, optHex text, extsOf t with
    | some l, some k, some text, some es => "ok " ++ Hex.enc (printSubstmt (fmt == "1") l k (text.map cstr) es)
    | _, _, _, _ => "err BadArg"
  | "parse", [h] =>
    match Hex.dec h with
    | some s =>
      match parseExtDoc (cstr s) with
      | .ok (n, l) => "ok " ++ Hex.enc n ++ " " ++ serList l
      | .error e => "err " ++ e.name
    | none => "err BadHex"
  | "resolve", [h, an, ye] =>
    match Hex.dec h, optHex an with
    | some s, some an =>
      match ctxNew (cstr s) with
      | .error e => "err " ++ e.name
      | .ok cx =>
        if cx.status != .element then "err Valid" else
        match parseExtInst cx with
        | .error e => "err " ++ e.name
        | .ok (_, n, l) =>
          match resolveArgument (sameNsIn cx.ns) n an (ye == "1") l with
          | .ok (a, l') => "ok " ++ Hex.enc n ++ " " ++ (match a with | some a => Hex.enc a | none => "N") ++ " " ++ serList l'
          | .error _ => "err Resolve"
    | _, _ => "err BadArg"
  | "parseclosed", [h] =>
    -- model only: does `yin_parse_extension_instance` succeed AND leave the lexer behind the end tag of the instance (the state
    -- the enclosing `yin_parse_content` needs to go on)?
    match Hex.dec h with
    | some s =>
      match ctxNew (cstr s) with
      | .error e => "err " ++ e.name
      | .ok cx =>
        if cx.status != .element then "err Valid" else
        match parseExtInst cx with
        | .error e => "err " ++ e.name
        | .ok (c, _, _) => "ok " ++ (if c.status = .elemClose ∧ c.elems.isEmpty then "1" else "0")
    | none => "err BadHex"
  | "strict", [h] =>
    -- model only: the strict YIN grammar on the element tree the independent XML reader reports
    match Hex.dec h with
    | some s =>
      match strictDoc (cstr s) with
      | none => "err NotXml"
      | some none => "ok in"
      | some (some w) => "ok out " ++ w
    | none => "err BadHex"
  | "card", [kind, seq] =>
    -- model only: is the child-keyword sequence (hex keywords separated by commas, `-` = extension instance, `.` = no child) an emission
    -- of the generated printer pattern of the statement kind, and does it pass the parser's cardinality rules?
    let pt : Option (List (Bytes × Nat) × List (Bytes × Bool × Bool)) :=
      if kind == "leaf" then some (Generated.yinEmit_leaf, Generated.yinSubelems_leaf)
      else if kind == "typedef" then some (Generated.yinEmit_typedef, Generated.yinSubelems_typedef)
      else if kind == "container" then some (Generated.yinEmit_container, Generated.yinSubelems_container)
      else none
    let ks : Option (List Bytes) := if seq == "." then some [] else (seq.splitOn ",").mapM Hex.dec
    match pt, ks with
    | some (pat, table), some ks =>
      "ok " ++ (if Card.isEmission pat ks then "1" else "0") ++ " " ++ (if Card.cardOk table ks then "1" else "0")
    | _, _ => "err BadArg"
  | "yinok", [t] =>
    -- model only: `yinOkList` / `extOk` under the namespaces the check declares on the start tag
    match stmtsOf t with
    | some ss => "ok " ++ (if yinOkList checkNs .ext ss then "1" else "0")
    | none => "err BadArg"
  | "extok", [t] =>
    match extsOf t with
    | some [e] => "ok " ++ (if extOk checkNs e then "1" else "0")
    | _ => "err BadArg"
  | _, _ => "err BadOp"

end LyModel.Yin.Drv
