import LyModel.Yin.LemmasStmt
/-! Shape of what `yprp_stmt` prints for a `yinOk` statement, and facts `yinOk` gives (helper lemmas). -/
set_option linter.unusedSimpArgs false
set_option linter.unusedVariables false
namespace LyModel.Yin
open LyModel LyModel.Utf8 LyModel.Generated LyModel.XmlText LyModel.XmlLex

theorem splitColon_eq : ∀ (name p n : Bytes), splitColon name = some (p, n) → name = p ++ 58 :: n
  | [], p, n, h => by simp [splitColon] at h
  | b :: r, p, n, h => by
    simp only [splitColon] at h
    split at h
    · rename_i hb
      simp only [Option.some.injEq, Prod.mk.injEq] at h
      obtain ⟨rfl, rfl⟩ := h
      simp at hb; simp [hb]
    · cases hr : splitColon r with
      | none => simp [hr] at h
      | some pn =>
        obtain ⟨p', n'⟩ := pn
        simp only [hr, Option.map_some, Option.some.injEq, Prod.mk.injEq] at h
        obtain ⟨rfl, rfl⟩ := h
        have := splitColon_eq r p' n' hr
        simp [this]

def closeTag (fmt : Bool) (level : Nat) (name : Bytes) : Bytes := indentOf fmt level ++ [60, 47] ++ name ++ sGtNl

def kidsAndClose (fmt : Bool) (level : Nat) (name : Bytes) (kids : List YStmt) : Bytes :=
  printStmts fmt (incLevel level) kids ++ closeTag fmt level name

/-- the end of the start tag and what follows: `/>\n`, or `>\n` children `</name>\n` -/
def endOf (fmt : Bool) (level : Nat) (name : Bytes) (kids : List YStmt) : Bytes :=
  if kids.isEmpty then sEmptyEnd else sGtNl ++ kidsAndClose fmt level name kids

/-- what `yprp_stmt` writes behind `<name` -/
def afterName (fmt : Bool) (level : Nat) : YStmt → Bytes
  | .mk name kw arg _ kids =>
    match kw with
    | .kw k =>
      match stmtInfo k with
      | some (an, true) => sGtNl ++ yprYinArg fmt (incLevel level) (an.getD []) arg ++ kidsAndClose fmt level name kids
      | some (some an, false) => 32 :: an ++ 61 :: 34 :: (dumpText true (arg.getD []) ++ 34 :: endOf fmt level name kids)
      | some (none, false) => endOf fmt level name kids
      | none => []
    | .ext => endOf fmt level name kids
    | .none => []

theorem printStmt_shape (ns : List XNs) (parent : YKw) (fmt : Bool) (level : Nat) (t : YStmt) (h : yinOk ns parent t = true) :
    printStmt fmt level t = indentOf fmt level ++ 60 :: (t.name ++ afterName fmt level t) := by
  obtain ⟨name, kw, arg, fl, kids⟩ := t
  cases kw with
  | none => simp [yinOk] at h
  | ext =>
    simp only [yinOk, Bool.and_eq_true, Option.isNone_iff_eq_none] at h
    obtain ⟨⟨rfl, _⟩, _⟩ := h
    cases kids with
    | nil => simp [printStmt, afterName, endOf, yprOpen, openTail, sEmptyEnd, printStmts, YStmt.name]
    | cons s r =>
      simp [printStmt, afterName, endOf, yprOpen, openTail, sEmptyEnd, sGtNl, kidsAndClose, closeTag, yprClose, YStmt.name]
  | kw k =>
    simp only [yinOk, Bool.and_eq_true] at h
    obtain ⟨⟨⟨⟨_, hi⟩, _⟩, _⟩, _⟩ := h
    cases hinfo : stmtInfo k with
    | none => simp [hinfo] at hi
    | some ie =>
      obtain ⟨an, ye⟩ := ie
      cases ye with
      | true =>
        simp [printStmt, afterName, hinfo, yprOpen, openTail, sGtNl, kidsAndClose, closeTag, yprClose, YStmt.name]
      | false =>
        cases an with
        | none =>
          cases kids with
          | nil => simp [printStmt, afterName, hinfo, endOf, yprOpen, openTail, sEmptyEnd, printStmts, YStmt.name]
          | cons s r =>
            simp [printStmt, afterName, hinfo, endOf, yprOpen, openTail, sEmptyEnd, sGtNl, kidsAndClose, closeTag, yprClose, YStmt.name]
        | some an =>
          cases kids with
          | nil => simp [printStmt, afterName, hinfo, endOf, yprOpen, openTail, sEmptyEnd, printStmts, YStmt.name]
          | cons s r =>
            simp [printStmt, afterName, hinfo, endOf, yprOpen, openTail, sEmptyEnd, sGtNl, kidsAndClose, closeTag, yprClose, YStmt.name]

end LyModel.Yin

namespace LyModel.Yin
open LyModel LyModel.Utf8 LyModel.Generated LyModel.XmlText LyModel.XmlLex

/-! ## white-space content between tags -/
theorem yangText_spaces : ∀ m, YangText (spaces m)
  | 0 => .nil
  | m + 1 => by
    have e : spaces (m + 1) = 32 :: spaces m := by simp [spaces, List.replicate_succ]
    rw [e]
    exact .cons (cp := 32) (n := 1) (getUtf8_cons1 32 _ (by decide)) (by simpa using yangText_spaces m)

theorem yangText_nlSpaces (m : Nat) : YangText (10 :: spaces m) :=
  .cons (cp := 10) (n := 1) (getUtf8_cons1 10 _ (by decide)) (by simpa using yangText_spaces m)

theorem dumpText_spaces (m : Nat) : dumpText false (spaces m) = spaces m := by
  induction m with
  | zero => simp [spaces, dumpText]
  | succ k ih =>
    have e : spaces (k + 1) = 32 :: spaces k := by simp [spaces, List.replicate_succ]
    have h32 : escSpec false 32 = [32] := by decide
    rw [e, dumpText_cons, ih, h32]; rfl

theorem dumpText_nlSpaces (m : Nat) : dumpText false (10 :: spaces m) = 10 :: spaces m := by
  have h10 : escSpec false 10 = [10] := by decide
  rw [dumpText_cons, dumpText_spaces, h10]; rfl

theorem wsLit_nlSpaces (m : Nat) : (10 :: spaces m).all (wsLit false) = true := by
  have h10 : wsLit false 10 = true := by decide
  have h32 : wsLit false 32 = true := by decide
  simp [h10, spaces, h32]

theorem next_wsContent (cx : XCtx) (m : Nat) (t : Bytes) (ht : InTag cx) (hne : stripPrefix sCdata (60 :: t) = none)
    (h : ignWs cx.inp = 62 :: 10 :: (spaces m ++ 60 :: t)) :
    ctxNext cx = .ok { cx with inp := 60 :: t, status := .elemContent, value := 10 :: spaces m, wsOnly := true } := by
  have := next_content cx (10 :: spaces m) t ht (yangText_nlSpaces m) hne (by rw [dumpText_nlSpaces]; simpa using h)
  rw [wsLit_nlSpaces] at this
  exact this

/-! ## facts `yinOk` gives -/
theorem extName_parts (ns : List XNs) (name : Bytes) (h : extNameOk ns name = true) :
    ∃ p n, name = qualName (some p) n ∧ QualOk (some p) n ∧ nsBound ns p = true := by
  unfold extNameOk at h
  cases hs : splitColon name with
  | none => simp [hs] at h
  | some pn =>
    obtain ⟨p, n⟩ := pn
    simp only [hs, Bool.and_eq_true] at h
    obtain ⟨⟨hp, hn⟩, hb⟩ := h
    exact ⟨p, n, by simpa [qualName] using splitColon_eq name p n hs, ⟨hn, fun q hq => by cases hq; exact hp⟩, hb⟩

/-- name of a `yinOk` statement: an unprefixed keyword of the table, or `prefix:name` with a bound foreign prefix -/
theorem yinOk_name (ns : List XNs) (parent : YKw) (t : YStmt) (h : yinOk ns parent t = true) :
    ∃ pfx n, t.name = qualName pfx n ∧ QualOk pfx n := by
  obtain ⟨name, kw, arg, fl, kids⟩ := t
  cases kw with
  | none => simp [yinOk] at h
  | ext =>
    simp only [yinOk, Bool.and_eq_true] at h
    obtain ⟨p, n, e, q, _⟩ := extName_parts ns name h.1.2
    exact ⟨some p, n, e, q⟩
  | kw k =>
    simp only [yinOk, Bool.and_eq_true, beq_iff_eq] at h
    obtain ⟨⟨⟨⟨rfl, hi⟩, _⟩, _⟩, _⟩ := h
    cases hinfo : stmtInfo name with
    | none => simp [hinfo] at hi
    | some ie =>
      have hok := entryOk_of_info name ie.1 ie.2 (by simpa using hinfo)
      simp only [entryOk, Bool.and_eq_true] at hok
      exact ⟨none, name, rfl, ⟨hok.1.1.1.2, by simp⟩⟩

theorem stripCdata_of_head (c : UInt8) (t : Bytes) (h : c ≠ 33) : stripPrefix sCdata (60 :: c :: t) = none := by
  simp [sCdata, stripPrefix, Ne.symm h]

/-- children (or the end tag) start on a new line with indentation and `<`, never a CDATA opener -/
theorem kidsAndClose_head (ns : List XNs) (kw : YKw) (fmt : Bool) (level : Nat) (name : Bytes) (kids : List YStmt) (rest : Bytes)
    (hk : yinOkList ns kw kids = true) :
    ∃ m t, kidsAndClose fmt level name kids ++ rest = spaces m ++ 60 :: t ∧ stripPrefix sCdata (60 :: t) = none := by
  cases kids with
  | nil =>
    refine ⟨(if fmt then 2 * level else 0), 47 :: (name ++ sGtNl ++ rest), ?_, by simp [sCdata, stripPrefix]⟩
    simp [kidsAndClose, printStmts, closeTag, indentOf]
  | cons s r =>
    simp only [yinOkList, Bool.and_eq_true] at hk
    obtain ⟨pfx, n, hn, hq⟩ := yinOk_name ns kw s hk.1
    obtain ⟨a, t, hqn, ha⟩ := qualName_head pfx n hq
    have h33 : a ≠ 33 := (identB_facts a (identStartB_facts a ha).1).2.2.2.2.2.1
    refine ⟨(if fmt then 2 * incLevel level else 0), a :: (t ++ afterName fmt (incLevel level) s ++ printStmts fmt (incLevel level) r ++ closeTag fmt level name ++ rest), ?_,
      stripCdata_of_head a _ h33⟩
    simp only [kidsAndClose, printStmts, printStmt_shape ns kw fmt (incLevel level) s hk.1, hn, hqn, indentOf]
    simp

end LyModel.Yin
