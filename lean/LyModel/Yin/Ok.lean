import LyModel.Yin.Parse
/-!
# `YinOk`: the statement trees the YIN round trip is claimed for (one decidable predicate), and what comes back (`norm`)

Core Lean only: the driver evaluates `yinOk` on every generated tree (`yinok` op).
-/
namespace LyModel.Yin
open LyModel LyModel.Generated LyModel.XmlLex

/-- ASCII identifier bytes (what YANG identifiers, prefixes and keywords are made of) -/
def identStartB (b : UInt8) : Bool := (65 ≤ b && b ≤ 90) || (97 ≤ b && b ≤ 122) || b == 95
def identB (b : UInt8) : Bool := identStartB b || (48 ≤ b && b ≤ 57) || b == 45 || b == 46
def isIdent : Bytes → Bool
  | [] => false
  | b :: r => identStartB b && r.all identB

/-- `prefix:name` split at the first colon -/
def splitColon : Bytes → Option (Bytes × Bytes)
  | [] => none
  | b :: r => if b == 58 then some ([], r) else (splitColon r).map fun (p, n) => (b :: p, n)

/-- the prefix is bound, and not to the YIN namespace (`yin_match_keyword` then answers `LY_STMT_EXTENSION_INSTANCE`) -/
def nsBound (ns : List XNs) (p : Bytes) : Bool :=
  match nsGet ns (some p) with
  | some u => u != yinNsUri
  | none => false

/-- `prefix:name` of an extension: two ASCII identifiers, the prefix bound to a foreign namespace -/
def extNameOk (ns : List XNs) (name : Bytes) : Bool :=
  match splitColon name with
  | some (p, n) => isIdent p && isIdent n && nsBound ns p
  | none => false

/-- white space `lyxml_dump_text` writes literally in element content (CR goes out as `&#xD;`) -/
def contentWs (b : UInt8) : Bool := b == 32 || b == 9 || b == 10

def argTextOk (arg : Option Bytes) : Bool :=
  match arg with
  | some a => YangStr.isYangText a
  | none => true

mutual
/-- **`YinOk`** for a substatement of an extension instance, `ns` = the namespaces in scope, `parent` = the enclosing statement:
    1. a keyword statement is named by its keyword (no prefix);
    2. it has an argument iff the keyword takes one (`lys_stmt_arg`);
    3. it is not a `value` directly under `error-message` (F340);
    4. an extension-keyword statement `prefix:name` carries no argument (F86, YIN part);
    5. there is no YIN-attribute child (`LY_STMT_NONE`; only the YIN parser creates those, and `yprp_stmt` prints nothing for them);
    and — true of every tree a parser hands to the printer — arguments are YANG text, extension prefixes are bound. -/
def yinOk (ns : List XNs) (parent : YKw) : YStmt → Bool
  | .mk name kw arg _ kids =>
    (match kw with
     | .kw k =>
       name == k &&
       (match stmtInfo k with
        | some (an, _) => an.isSome == arg.isSome
        | none => false) &&
       !(k == sValue && parent == .kw sErrMsg) && argTextOk arg
     | .ext => arg.isNone && extNameOk ns name
     | .none => false) && yinOkList ns kw kids
def yinOkList (ns : List XNs) (parent : YKw) : List YStmt → Bool
  | [] => true
  | s :: r => yinOk ns parent s && yinOkList ns parent r
end

mutual
/-- what the round trip returns: the same tree, with the quoting flag the YIN parser sets (`LYS_DOUBLEQUOTED` on every keyword
    statement with an argument — YIN cannot carry the quoting style of the source) -/
def norm : YStmt → YStmt
  | .mk name kw arg _ kids =>
    .mk name kw arg (match kw with | .kw _ => if arg.isSome then LYS_DOUBLEQUOTED else 0 | _ => 0) (normList kids)
def normList : List YStmt → List YStmt
  | [] => []
  | s :: r => norm s :: normList r
end

mutual
/-- fuel `yin_parse_element_generic` needs -/
def costG : YStmt → Nat
  | .mk _ _ _ _ kids => 1 + costK kids
def costK : List YStmt → Nat
  | [] => 1
  | s :: r => 1 + costG s + costK r
end

mutual
/-- element levels a statement needs below the stack it is opened on (one is reserved for an argument element) -/
def heightG : YStmt → Nat
  | .mk _ _ _ _ kids => 1 + heightK kids
def heightK : List YStmt → Nat
  | [] => 0
  | s :: r => max (1 + heightG s) (heightK r)
end

/-- **`YinOk` for a whole extension instance** (`argname`/`yinElem` from its definition): no nested instance in `ext->exts` (F86);
    an argument iff the definition has one; a yin-element argument is not white space only (F36); the argument name is an identifier
    other than `xmlns`; no child is flagged as YIN attribute / YIN argument (the printer skips those); every child is `yinOk`. -/
def extOk (ns : List XNs) : ExtInst → Bool
  | .mk name argname yinElem argument exts kids =>
    exts.isEmpty && extNameOk ns name && argname.isSome == argument.isSome && argTextOk argument &&
    (match argname with
     | some an => isIdent an && an != sXmlns
     | none => !yinElem) &&
    (!yinElem || !((argument.getD []).all contentWs)) &&
    kids.all (fun s => !isYinHidden s.flags) && yinOkList ns .ext kids

end LyModel.Yin
