import LyModel.Yin.LemmasFuel
/-! `yin_parse_extension_instance` + `lysp_ext_instance_resolve_argument` on a printed extension instance (helper lemmas). -/
set_option linter.unusedSimpArgs false
set_option linter.unusedVariables false
namespace LyModel.Yin
open LyModel LyModel.Utf8 LyModel.Generated LyModel.XmlText LyModel.XmlLex

theorem wsLit_contentWs_nat : ∀ n < 256, wsLit false (UInt8.ofNat n) = contentWs (UInt8.ofNat n) := by decide +kernel
theorem wsLit_contentWs (b : UInt8) : wsLit false b = contentWs b := by
  have := wsLit_contentWs_nat b.toNat b.toNat_lt
  simpa using this
theorem all_wsLit (v : Bytes) : v.all (wsLit false) = v.all contentWs := by
  induction v with
  | nil => rfl
  | cons b r ih => simp [wsLit_contentWs, ih]

theorem printExtKids_visible (fmt : Bool) (l : Nat) : ∀ (kids : List YStmt) (o : Bool), kids.all (fun s => !isYinHidden s.flags) = true →
    printExtKids fmt l o kids = ((if o && !kids.isEmpty then sGtNl else []) ++ printStmts fmt l kids, o && kids.isEmpty)
  | [], o, _ => by simp [printExtKids, printStmts]
  | s :: r, o, h => by
    simp only [List.all_cons, Bool.and_eq_true, Bool.not_eq_true'] at h
    have ih := printExtKids_visible fmt l r false (by simpa using h.2)
    simp [printExtKids, h.1, ih, printStmts]

theorem normList_visible : ∀ (kids : List YStmt), (normList kids).filter (fun s => !isYinHidden s.flags) = normList kids
  | [] => rfl
  | s :: r => by
    obtain ⟨name, kw, arg, fl, ks⟩ := s
    have h0 : isYinHidden 0 = false := by decide
    have h1 : isYinHidden LYS_DOUBLEQUOTED = false := by decide
    have : isYinHidden (norm (.mk name kw arg fl ks)).flags = false := by
      cases kw <;> simp [norm, YStmt.flags, h0]
      split <;> simp [h0, h1]
    simp [normList, this, normList_visible r]

/-- the argument element `<p:an>v</p:an>` of an instance, read by `yin_parse_element_generic` (text content becomes the argument —
    unless it is white space only: F36) -/
theorem argElem_ok (ns : List XNs) (cx : XCtx) (p an v X : Bytes) (self : Option Bytes × Bytes) (E : List (Option Bytes × Bytes)) (f : Nat)
    (hst : cx.status = .element) (hpfx : cx.pfx = some p) (hname : cx.name = an) (he : cx.elems = (some p, an) :: self :: E)
    (hns : cx.ns = ns) (hrm : nsRm (E.length + 1) ns = ns) (hp : isIdent p = true) (han : isIdent an = true) (hb : nsBound ns p = true)
    (hv : YangText v) (hws : v.all contentWs = false)
    (hinp : cx.inp = 62 :: (dumpText false v ++ 60 :: 47 :: (qualName (some p) an ++ 62 :: 10 :: X))) :
    ∃ c', parseGeneric (f + 1) .ext cx = .ok (c', .mk (qualName (some p) an) .ext (some v) 0 []) ∧ c'.inp = 10 :: X ∧
      c'.status = .elemClose ∧ c'.elems = self :: E ∧ c'.ns = ns := by
  have hq : QualOk (some p) an := ⟨han, fun q hq => by cases hq; exact hp⟩
  have hmk : matchKeyword cx.ns cx.name cx.pfx .ext = .ext := by rw [hns, hname, hpfx]; exact matchKeyword_ext ns .ext p an han hb
  obtain ⟨c4, e1, h4s, h4v, h4w, h4i, h4e, h4n⟩ : ∃ c4, ctxNext cx = .ok c4 ∧ c4.status = .elemContent ∧ c4.value = v ∧ c4.wsOnly = false ∧
      c4.inp = 60 :: 47 :: (qualName (some p) an ++ 62 :: 10 :: X) ∧ c4.elems = (some p, an) :: self :: E ∧ c4.ns = ns :=
    ⟨_, next_content cx v (47 :: (qualName (some p) an ++ 62 :: 10 :: X)) (Or.inl hst) hv (by simp [sCdata, stripPrefix])
      (by rw [hinp, ignWs_of_not 62 _ (by decide)]), rfl, rfl, by simp [all_wsLit, hws], rfl, he, hns⟩
  have e2 := next_close c4 (some p) an (10 :: X) (self :: E) (Or.inr ⟨h4s, by rw [h4i]; simp⟩) hq h4e
    (by rw [h4i, ignWs_of_not 60 _ (by decide)])
  have hne : v.isEmpty = false := by cases v with | nil => simp at hws | cons => rfl
  have hga : genericAttrs (c4.inp.length + 1) c4 = .ok (c4, []) := by simp [genericAttrs, h4s]
  refine ⟨{ c4 with inp := 10 :: X, status := .elemClose, elems := self :: E, ns := nsRm (self :: E).length c4.ns, pfx := some p, name := an },
    ?_, rfl, rfl, rfl, by simp [h4n, hrm]⟩
  simp only [parseGeneric, hmk, remapArg_ext, e1, hga, Except.map, mkwToYKw]
  simp [h4s, h4w, h4v, hne, e2, hpfx, hname]
  done

end LyModel.Yin

namespace LyModel.Yin
open LyModel LyModel.Utf8 LyModel.Generated LyModel.XmlText LyModel.XmlLex

/-- what `yprp_extension_instance` writes behind `<prefix:name` (no nested instance, every child printed) -/
def extAfterName (fmt : Bool) (level : Nat) (name : Bytes) (argname : Option Bytes) (ye : Bool) (argument : Option Bytes)
    (kids : List YStmt) : Bytes :=
  match argname with
  | none => endOf fmt level name kids
  | some an =>
    if ye then
      sGtNl ++ indentOf fmt (incLevel level) ++ 60 :: (prefixOf name ++ 58 :: an) ++ 62 :: dumpText false (argument.getD []) ++
        [60, 47] ++ (prefixOf name ++ 58 :: an) ++ sGtNl ++ kidsAndClose fmt level name kids
    else 32 :: an ++ 61 :: 34 :: (dumpText true (argument.getD []) ++ 34 :: endOf fmt level name kids)

theorem printExt_shape (fmt : Bool) (level : Nat) (name : Bytes) (argname : Option Bytes) (ye : Bool) (argument : Option Bytes)
    (kids : List YStmt) (hvis : kids.all (fun s => !isYinHidden s.flags) = true) (hye : argname = none → ye = false) :
    printExt fmt level false (.mk name argname ye argument [] kids) =
      indentOf fmt level ++ 60 :: (name ++ extAfterName fmt level name argname ye argument kids) := by
  cases argname with
  | none =>
    have := hye rfl; subst this
    cases kids with
    | nil => simp [printExt, printExts, printExtKids, extAfterName, endOf, yprOpen, openTail, yprClose, sEmptyEnd]
    | cons s r =>
      simp [printExt, printExts, printExtKids_visible fmt (incLevel level) (s :: r) true hvis, extAfterName, endOf, yprOpen, openTail,
        yprClose, sGtNl, kidsAndClose, closeTag]
  | some an =>
    cases ye with
    | true =>
      simp [printExt, printExts, printExtKids_visible fmt (incLevel level) kids false hvis, extAfterName, yprOpen, openTail, yprClose,
        sGtNl, kidsAndClose, closeTag]
    | false =>
      cases kids with
      | nil => simp [printExt, printExts, printExtKids, extAfterName, endOf, yprOpen, openTail, yprClose, sEmptyEnd]
      | cons s r =>
        simp [printExt, printExts, printExtKids_visible fmt (incLevel level) (s :: r) true hvis, extAfterName, endOf, yprOpen, openTail,
          yprClose, sGtNl, kidsAndClose, closeTag]

end LyModel.Yin

namespace LyModel.Yin
open LyModel LyModel.Utf8 LyModel.Generated LyModel.XmlText LyModel.XmlLex

theorem ident_no_colon (p : Bytes) (hp : isIdent p = true) : ∀ b ∈ p, b ≠ 58 := by
  obtain ⟨a, t, rfl, ha⟩ := isIdent_ne_nil hp
  simp only [isIdent, Bool.and_eq_true, List.all_eq_true] at hp
  intro b hb
  rcases List.mem_cons.mp hb with rfl | h
  · exact (identB_facts b (identStartB_facts b ha).1).2.2.2.2.2.2.2.2
  · exact (identB_facts b (hp.2 b h)).2.2.2.2.2.2.2.2

theorem takeWhile_colon : ∀ (p x : Bytes), (∀ b ∈ p, b ≠ 58) → (p ++ 58 :: x).takeWhile (· != 58) = p
  | [], x, _ => by simp
  | a :: t, x, h => by
    have ha : a ≠ 58 := h a (by simp)
    simp [ha, takeWhile_colon t x (fun b hb => h b (by simp [hb]))]

theorem dropWhile_colon : ∀ (p x : Bytes), (∀ b ∈ p, b ≠ 58) → (p ++ 58 :: x).dropWhile (· != 58) = 58 :: x
  | [], x, _ => by simp
  | a :: t, x, h => by
    have ha : a ≠ 58 := h a (by simp)
    simp [ha, dropWhile_colon t x (fun b hb => h b (by simp [hb]))]

theorem prefixOf_qual (p x : Bytes) (hp : isIdent p = true) : prefixOf (p ++ 58 :: x) = p := by
  simp [prefixOf, takeWhile_colon p x (ident_no_colon p hp)]
theorem localOf_qual (p x : Bytes) (hp : isIdent p = true) : localOf (p ++ 58 :: x) = x := by
  simp [localOf, dropWhile_colon p x (ident_no_colon p hp)]

theorem extInst_finish (cx c1 c2 c3 c' : XCtx) (p : Bytes) (attrs ks : List YStmt) (hpfx : cx.pfx = some p)
    (e1 : ctxNext cx = .ok c1) (ha : extAttrs (c1.inp.length + 1) c1 = .ok (c2, attrs)) (hw : c2.wsOnly = true)
    (e3 : ctxNext c2 = .ok c3) (ek : parseKids (cx.inp.length + 2) .ext c3 = .ok (c', ks)) :
    parseExtInst cx = .ok (c', p ++ 58 :: cx.name, attrs ++ ks) := by
  simp only [parseExtInst, hpfx, e1, ha, hw, if_true, e3, ek, Except.map]

theorem atEnd_ws (fmt : Bool) (level : Nat) (name : Bytes) (kids : List YStmt) (rest : Bytes) (c1 : XCtx)
    (h : AtEnd fmt level name kids rest c1) (hs : c1.status = .elemContent) : c1.wsOnly = true := by
  rcases h with ⟨_, _, hw, _⟩ | ⟨_, hc, _⟩
  · exact hw
  · rcases hc with hc | hc
    · exact absurd hs hc
    · exact hc

section
variable (ns : List XNs) (hnsY : nsGet ns none = some yinNsUri) (base : Nat) (hstab : NsStable base ns)
include hnsY hstab

/-- **`yin_parse_extension_instance` and the argument resolution on a printed `extOk` instance** -/
theorem extInstOk (sameNs : Bytes → Bytes → Bool) (hsame : ∀ p, sameNs p p = true) (fmt : Bool) (level : Nat)
    (name : Bytes) (argname : Option Bytes) (ye : Bool) (argument : Option Bytes) (kids : List YStmt)
    (hok : extOk ns (.mk name argname ye argument [] kids) = true)
    (cx : XCtx) (p n : Bytes) (E : List (Option Bytes × Bytes)) (rest : Bytes)
    (hnm : name = qualName (some p) n) (hq : QualOk (some p) n) (hbd : nsBound ns p = true)
    (hst : cx.status = .element) (hpfx : cx.pfx = some p) (hname : cx.name = n) (he : cx.elems = (some p, n) :: E) (hns : cx.ns = ns)
    (hb : base ≤ E.length) (hh : cx.elems.length + 1 + heightK kids ≤ LY_MAX_BLOCK_DEPTH)
    (hinp : cx.inp = ignWs (extAfterName fmt level name argname ye argument kids ++ rest)) :
    ∃ c' kids', parseExtInst cx = .ok (c', name, kids') ∧ c'.inp = 10 :: rest ∧ c'.status = .elemClose ∧ c'.elems = E ∧
      ∃ kids'', resolveArgument sameNs name argname ye kids' = .ok (argument, kids'') ∧
        kids''.filter (fun s => !isYinHidden s.flags) = normList kids := by
  simp only [extOk, Bool.and_eq_true, List.isEmpty_nil, true_and, beq_iff_eq] at hok
  obtain ⟨⟨⟨⟨⟨⟨_, hsome⟩, hargT⟩, han⟩, hF36⟩, hvis⟩, hkk⟩ := hok
  have hrm : nsRm E.length ns = ns := hstab _ hb
  have hp : isIdent p = true := hq.2 p rfl
  have hnm' : name = p ++ 58 :: n := by rw [hnm]; rfl
  -- the children from any state between two tags, with fuel `F`
  have hK : ∀ F, costK kids ≤ F → ∀ c : XCtx, Between c → c.elems = (some p, n) :: E → c.ns = ns →
      ignWs c.inp = ignWs (kidsAndClose fmt level (qualName (some p) n) kids ++ rest) →
      ∃ c2 c', ctxNext c = .ok c2 ∧ parseKids F .ext c2 = .ok (c', normList kids) ∧ c'.inp = 10 :: rest ∧ c'.status = .elemClose ∧
        c'.elems = E ∧ c'.ns = ns := by
    intro F hF c hbc hec hnc hic
    obtain ⟨c2, c', a1, a2, a3, a4, a5, a6⟩ := kidsOk ns hnsY base hstab kids F .ext c (some p) n E rest fmt (incLevel level) level hbc hec hnc hq
      (by simpa [kidsAndClose] using hic) hkk hF (by rw [hec, ← he]; omega) (by omega)
    exact ⟨c2, c', a1, a2, a3, a4, a5, by rw [a6, hrm]⟩
  have hcost := costK_le ns fmt kids .ext (incLevel level) hkk
  have hel := endOf_len fmt level name kids
  cases argname with
  | none =>
    -- no argument
    have harg : argument = none := by cases argument <;> simp_all
    subst harg
    have hi : cx.inp = endOf fmt level name kids ++ rest := by rw [hinp]; simp only [extAfterName]; exact ignWs_endOf _ _ _ _ _
    have hF : costK kids ≤ cx.inp.length + 2 := by rw [hi]; simp only [List.length_append]; omega
    obtain ⟨c1, e1, hat, h1s, h1e, h1n⟩ := endOf_step ns .ext fmt level name kids rest cx (Or.inl hst) hkk hi
    have ha : extAttrs (c1.inp.length + 1) c1 = .ok (c1, []) := by simp [extAttrs, h1s]
    obtain ⟨_, c2, c', e2, ek, r1, r2, r3, r4⟩ := body_of_atEnd ns fmt level kids rest c1 (cx.inp.length + 2) .ext (some p) n E
      (by rw [← hnm]; exact hat) (by rw [h1e, he]) (by rw [h1n, hns]) hrm hF (hK _ hF)
    refine ⟨c', [] ++ normList kids, ?_, r1, r2, r3, [] ++ normList kids, ?_, by simpa using normList_visible kids⟩
    · rw [extInst_finish cx c1 c1 c2 c' p [] _ hpfx e1 ha (atEnd_ws _ _ _ _ _ _ hat h1s) e2 ek, hname, hnm']
    · simp [resolveArgument]
  | some an =>
    obtain ⟨v, rfl⟩ : ∃ v, argument = some v := by cases argument with | none => simp at hsome | some v => exact ⟨v, rfl⟩
    have hvY : YangText v := yangText_of_isYangText v (by simpa [argTextOk] using hargT)
    simp only [Bool.and_eq_true, bne_iff_ne, ne_eq] at han
    obtain ⟨hanI, hanX⟩ := han
    cases ye with
    | false =>
      -- attribute argument
      have hi : cx.inp = an ++ 61 :: 34 :: (dumpText true v ++ 34 :: (endOf fmt level name kids ++ rest)) := by
        rw [hinp]; simp only [extAfterName, Option.getD_some, List.cons_append, Bool.false_eq_true, if_false]
        rw [ignWs_sp]
        have := ignWs_ident an (61 :: 34 :: (dumpText true v ++ 34 :: (endOf fmt level name kids ++ rest))) hanI
        simpa using this
      have hF : costK kids ≤ cx.inp.length + 2 := by rw [hi]; simp only [List.length_append, List.length_cons]; omega
      obtain ⟨c1, e1, h1s, h1p, h1n, h1i, h1e, h1ns⟩ : ∃ c1, ctxNext cx = .ok c1 ∧ c1.status = .attribute ∧ c1.pfx = none ∧ c1.name = an ∧
          c1.inp = 61 :: 34 :: (dumpText true v ++ 34 :: (endOf fmt level name kids ++ rest)) ∧ c1.elems = cx.elems ∧ c1.ns = cx.ns :=
        ⟨_, next_attrName cx an _ (Or.inl hst) hanI hanX (by rw [hi]; exact ignWs_ident an _ hanI), rfl, rfl, rfl, rfl, rfl, rfl⟩
      obtain ⟨c2, e2, h2s, h2v, h2i, h2e, h2ns⟩ : ∃ c2, ctxNext c1 = .ok c2 ∧ c2.status = .attrContent ∧ c2.value = v ∧
          c2.inp = endOf fmt level name kids ++ rest ∧ c2.elems = cx.elems ∧ c2.ns = cx.ns :=
        ⟨_, next_attrValue c1 v _ h1s hvY h1i, rfl, rfl, rfl, h1e, h1ns⟩
      obtain ⟨c3, e3, hat, h3s, h3e, h3n⟩ := endOf_step ns .ext fmt level name kids rest c2 (Or.inr h2s) hkk h2i
      have ha : extAttrs (c1.inp.length + 1) c1 = .ok (c3, [YStmt.mk an .none (some v) LYS_YIN_ATTR []]) := by
        have : c1.inp.length + 1 = (c1.inp.length - 1) + 2 := by rw [h1i]; simp
        rw [this]
        simp only [extAttrs, h1s, e2, e3, h3s, h1p, h1n, h2v]
        simp [Except.map]
      obtain ⟨_, c4, c', e4, ek, r1, r2, r3, r4⟩ := body_of_atEnd ns fmt level kids rest c3 (cx.inp.length + 2) .ext (some p) n E
        (by rw [← hnm]; exact hat) (by rw [h3e, h2e, he]) (by rw [h3n, h2ns, hns]) hrm hF (hK _ hF)
      have hA : isAttr (YStmt.mk an .none (some v) LYS_YIN_ATTR []) = true := by
        show (LYS_YIN_ATTR &&& LYS_YIN_ATTR != 0) = true; decide
      have hH : isYinHidden (setArgFlag (YStmt.mk an .none (some v) LYS_YIN_ATTR [])).flags = true := by
        show isYinHidden (LYS_YIN_ATTR ||| LYS_YIN_ARGUMENT) = true; decide
      refine ⟨c', [YStmt.mk an .none (some v) LYS_YIN_ATTR []] ++ normList kids, ?_, r1, r2, r3, setArgFlag (YStmt.mk an .none (some v) LYS_YIN_ATTR []) :: normList kids, ?_, ?_⟩
      · rw [extInst_finish cx c1 c3 c4 c' p _ _ hpfx e1 ha (atEnd_ws _ _ _ _ _ _ hat h3s) e4 ek, hname, hnm']
      · simp [resolveArgument, hA, YStmt.name, YStmt.arg, resolveArgument.mark]
      · simp [hH, normList_visible kids]
    | true =>
      -- argument element
      have hws : v.all contentWs = false := by simpa using hF36
      have hpo : prefixOf name = p := by rw [hnm']; exact prefixOf_qual p n hp
      let X := kidsAndClose fmt level name kids ++ rest
      have hi : cx.inp = 62 :: 10 :: (spaces (if fmt then 2 * incLevel level else 0) ++
          60 :: (qualName (some p) an ++ 62 :: (dumpText false v ++ 60 :: 47 :: (qualName (some p) an ++ 62 :: 10 :: X)))) := by
        rw [hinp]; simp only [extAfterName, if_true, Option.getD_some, hpo, sGtNl, List.cons_append, List.nil_append]
        rw [ignWs_of_not 62 _ (by decide)]
        simp [qualName, indentOf, X]
      have hqa : QualOk (some p) an := ⟨hanI, fun q hq => by cases hq; exact hp⟩
      obtain ⟨a0, t0, hqn, ha0⟩ := qualName_head (some p) an hqa
      have h33 : a0 ≠ 33 := (identB_facts a0 (identStartB_facts a0 ha0).1).2.2.2.2.2.1
      obtain ⟨c1, e1, h1s, h1w, h1e, h1n, h1i⟩ : ∃ c1, ctxNext cx = .ok c1 ∧ c1.status = .elemContent ∧ c1.wsOnly = true ∧
          c1.elems = (some p, n) :: E ∧ c1.ns = ns ∧
          c1.inp = 60 :: (qualName (some p) an ++ 62 :: (dumpText false v ++ 60 :: 47 :: (qualName (some p) an ++ 62 :: 10 :: X))) :=
        ⟨_, next_wsContent cx _ _ (Or.inl hst) (by rw [hqn]; exact stripCdata_of_head a0 _ h33)
          (by rw [hi, ignWs_of_not 62 _ (by decide)]), rfl, rfl, he, hns, rfl⟩
      have ha : extAttrs (c1.inp.length + 1) c1 = .ok (c1, []) := by simp [extAttrs, h1s]
      obtain ⟨c3, e3, h3s, h3p, h3n, h3ns, h3e, h3i⟩ : ∃ c3, ctxNext c1 = .ok c3 ∧ c3.status = .element ∧ c3.pfx = some p ∧
          c3.name = an ∧ c3.ns = ns ∧ c3.elems = (some p, an) :: (some p, n) :: E ∧
          c3.inp = 62 :: (dumpText false v ++ 60 :: 47 :: (qualName (some p) an ++ 62 :: 10 :: X)) := by
        have e := next_open c1 (some p) an 62 (dumpText false v ++ 60 :: 47 :: (qualName (some p) an ++ 62 :: 10 :: X))
          (Or.inr ⟨h1s, by rw [h1i]; simp⟩) hqa (by decide) (by decide) (by rw [h1e, ← he]; omega) (scanOk_end _ _ 62 _ (Or.inl rfl))
          (by rw [h1i, ignWs_of_not 60 _ (by decide)])
        rw [ignWs_of_not 62 _ (by decide)] at e
        exact ⟨_, e, rfl, rfl, rfl, h1n, by simp [h1e], rfl⟩
      have hlen : costK kids + 2 ≤ cx.inp.length + 2 := by
        rw [hi]; simp only [List.length_append, List.length_cons, X, kidsAndClose]; omega
      obtain ⟨F, hF⟩ : ∃ F, cx.inp.length + 2 = F + 2 := ⟨cx.inp.length, rfl⟩
      obtain ⟨c5, g1, g2, g3, g4, g5⟩ := argElem_ok ns c3 p an v X (some p, n) E F h3s h3p h3n h3e h3ns (hstab _ (by omega)) hp hanI hbd hvY hws h3i
      obtain ⟨c6, c', k1, k2, r1, r2, r3, r4⟩ := hK (F + 1) (by omega) c5 (Or.inl g3) g4 g5 (by rw [g2, ignWs_nl]; show ignWs (kidsAndClose fmt level name kids ++ rest) = _; rw [← hnm])
      have ek : parseKids (cx.inp.length + 2) .ext c3 = .ok (c', .mk (qualName (some p) an) .ext (some v) 0 [] :: normList kids) := by
        rw [hF]
        unfold parseKids
        simp [h3s, g1, k1, k2, Except.map]
      have hH : isYinHidden (setArgFlag (YStmt.mk (qualName (some p) an) .ext (some v) 0 [])).flags = true := by
        show isYinHidden (0 ||| LYS_YIN_ARGUMENT) = true; decide
      have hA : isAttr (YStmt.mk (qualName (some p) an) .ext (some v) 0 []) = false := by
        show (0 &&& LYS_YIN_ATTR != 0) = false; decide
      refine ⟨c', [] ++ (.mk (qualName (some p) an) .ext (some v) 0 [] :: normList kids), ?_, r1, r2, r3, setArgFlag (.mk (qualName (some p) an) .ext (some v) 0 []) :: normList kids, ?_, ?_⟩
      · rw [extInst_finish cx c1 c1 c3 c' p [] _ hpfx e1 ha h1w e3 ek, hname, hnm']
      · have hl : localOf (qualName (some p) an) = an := localOf_qual p an hp
        have hpp : prefixOf (qualName (some p) an) = p := prefixOf_qual p an hp
        simp [resolveArgument, hA, YStmt.name, YStmt.arg, hl, hpo, hpp, hsame]
      · simp [hH, normList_visible kids]
end

end LyModel.Yin
