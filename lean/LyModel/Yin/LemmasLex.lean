import LyModel.Yin.Ok
import LyModel.Text.XmlLemmas
import LyModel.Text.Utf8Lemmas
/-! Lexer steps on the shapes the YIN printer writes (helper lemmas; the property theorems are in `Props/C10Yin.lean`). -/
set_option linter.unusedSimpArgs false
set_option linter.unusedVariables false
namespace LyModel.Yin
open LyModel LyModel.Utf8 LyModel.Generated LyModel.XmlText LyModel.XmlLex

/-- what follows a name in printed text: blank, `/`, `>`, `=`, `:` -/
def termB (b : UInt8) : Bool := b == 32 || b == 47 || b == 62 || b == 61 || b == 58

def identFactsB (b : UInt8) : Bool :=
  !identB b || (getUtf8 [b] == some (b.toNat, 1) && isNameChar b.toNat && !isWs b && b != 62 && b != 47 && b != 33 && b != 63 &&
    b != 60 && b != 58)
theorem identFactsB_nat : ∀ n < 256, identFactsB (UInt8.ofNat n) = true := by decide +kernel
theorem identB_facts (b : UInt8) (h : identB b = true) :
    getUtf8 [b] = some (b.toNat, 1) ∧ isNameChar b.toNat = true ∧ isWs b = false ∧ b ≠ 62 ∧ b ≠ 47 ∧ b ≠ 33 ∧ b ≠ 63 ∧ b ≠ 60 ∧ b ≠ 58 := by
  have := identFactsB_nat b.toNat b.toNat_lt
  simp only [UInt8.ofNat_toNat] at this
  simpa [identFactsB, h, and_assoc] using this
def identStartFactsB (b : UInt8) : Bool := !identStartB b || (identB b && isNameStart b.toNat)
theorem identStartFactsB_nat : ∀ n < 256, identStartFactsB (UInt8.ofNat n) = true := by decide +kernel
theorem identStartB_facts (b : UInt8) (h : identStartB b = true) : identB b = true ∧ isNameStart b.toNat = true := by
  have := identStartFactsB_nat b.toNat b.toNat_lt
  simp only [UInt8.ofNat_toNat] at this
  simpa [identStartFactsB, h] using this
def termFactsB (b : UInt8) : Bool :=
  !termB b || (getUtf8 [b] == some (b.toNat, 1) && !isNameChar b.toNat && !isNameStart b.toNat)
theorem termFactsB_nat : ∀ n < 256, termFactsB (UInt8.ofNat n) = true := by decide +kernel
theorem termB_facts (b : UInt8) (h : termB b = true) :
    getUtf8 [b] = some (b.toNat, 1) ∧ isNameChar b.toNat = false ∧ isNameStart b.toNat = false := by
  have := termFactsB_nat b.toNat b.toNat_lt
  simp only [UInt8.ofNat_toNat] at this
  simpa [termFactsB, h, and_assoc] using this

theorem getUtf8_cons1 (b : UInt8) (r : Bytes) (h : getUtf8 [b] = some (b.toNat, 1)) : getUtf8 (b :: r) = some (b.toNat, 1) := by
  have := (getUtf8_append h).2.2 r
  simpa using this

/-! ## white space -/
theorem ignWs_spaces (n : Nat) (r : Bytes) : ignWs (spaces n ++ r) = ignWs r := by
  induction n with
  | zero => simp [spaces]
  | succ k ih =>
    have : spaces (k + 1) ++ r = 32 :: (spaces k ++ r) := by simp [spaces, List.replicate_succ]
    rw [this]; simp only [ignWs]
    have : isWs 32 = true := by decide
    simp [this, ih]
theorem ignWs_nl (r : Bytes) : ignWs (10 :: r) = ignWs r := by
  have : isWs 10 = true := by decide
  simp [ignWs, this]
theorem ignWs_sp (r : Bytes) : ignWs (32 :: r) = ignWs r := by
  have : isWs 32 = true := by decide
  simp [ignWs, this]
theorem ignWs_of_not (b : UInt8) (r : Bytes) (h : isWs b = false) : ignWs (b :: r) = b :: r := by simp [ignWs, h]
theorem ignWs_indent (fmt : Bool) (l : Nat) (r : Bytes) : ignWs (indentOf fmt l ++ r) = ignWs r := ignWs_spaces _ _

/-! ## identifiers -/
theorem identRest_ident : ∀ (s : Bytes) (b : UInt8) (r : Bytes) (fuel : Nat), s.all identB = true → termB b = true →
    s.length + 1 ≤ fuel → identRest fuel (s ++ b :: r) = .ok (s, b :: r)
  | [], b, r, fuel, _, hb, hf => by
    obtain ⟨f, rfl⟩ : ∃ f, fuel = f + 1 := ⟨fuel - 1, by omega⟩
    have ⟨h1, h2, _⟩ := termB_facts b hb
    simp [identRest, getUtf8_cons1 b r h1, h2]
  | a :: s, b, r, fuel, hs, hb, hf => by
    obtain ⟨f, rfl⟩ : ∃ f, fuel = f + 1 := ⟨fuel - 1, by simp at hf; omega⟩
    simp only [List.all_cons, Bool.and_eq_true] at hs
    have ⟨h1, h2, _⟩ := identB_facts a hs.1
    have ih := identRest_ident s b r f hs.2 hb (by simp at hf; omega)
    simp [identRest, getUtf8_cons1 a _ h1, h2, ih, Except.map]

theorem parseIdent_ident (s : Bytes) (b : UInt8) (r : Bytes) (hs : isIdent s = true) (hb : termB b = true) :
    parseIdent (s ++ b :: r) = .ok (s, b :: r) := by
  cases s with
  | nil => simp [isIdent] at hs
  | cons a s =>
    simp only [isIdent, Bool.and_eq_true] at hs
    have ⟨ha, hn⟩ := identStartB_facts a hs.1
    have ⟨h1, _⟩ := identB_facts a ha
    simp only [parseIdent, List.cons_append, getUtf8_cons1 a _ h1, hn, List.drop_succ_cons, List.drop_zero, Bool.not_true,
      Bool.false_eq_true, if_false]
    rw [identRest_ident s b r _ hs.2 hb (by simp; omega)]
    simp [Except.map]

/-- a possibly prefixed name whose parts are ASCII identifiers -/
def QualOk (pfx : Option Bytes) (n : Bytes) : Prop := isIdent n = true ∧ ∀ p, pfx = some p → isIdent p = true

theorem isIdent_ne_nil {s : Bytes} (h : isIdent s = true) : ∃ a t, s = a :: t ∧ identStartB a = true := by
  cases s with
  | nil => simp [isIdent] at h
  | cons a t => simp only [isIdent, Bool.and_eq_true] at h; exact ⟨a, t, rfl, h.1⟩

theorem parseQName_qual (pfx : Option Bytes) (n : Bytes) (b : UInt8) (r : Bytes) (hq : QualOk pfx n)
    (hb : termB b = true) (hb58 : b ≠ 58) :
    parseQName (qualName pfx n ++ b :: r) = .ok (pfx, n, b :: r) := by
  cases pfx with
  | none =>
    simp only [qualName, parseQName, parseIdent_ident n b r hq.1 hb]
    simp [hb58]
  | some p =>
    have hp := hq.2 p rfl
    obtain ⟨a, t, rfl, _⟩ := isIdent_ne_nil hq.1
    have e : qualName (some p) (a :: t) ++ b :: r = p ++ 58 :: ((a :: t) ++ b :: r) := by simp [qualName]
    rw [e]
    simp only [parseQName, parseIdent_ident p 58 _ hp (by decide)]
    have h2 := parseIdent_ident (a :: t) b r hq.1 hb
    simp only [List.cons_append] at h2
    simp [moveInput, h2, Except.map]

/-- the head of a qualified name is an identifier start -/
theorem qualName_head (pfx : Option Bytes) (n : Bytes) (hq : QualOk pfx n) :
    ∃ a t, qualName pfx n = a :: t ∧ identStartB a = true := by
  cases pfx with
  | none => obtain ⟨a, t, e, h⟩ := isIdent_ne_nil hq.1; exact ⟨a, t, by simp [qualName, e], h⟩
  | some p =>
    obtain ⟨a, t, e, h⟩ := isIdent_ne_nil (hq.2 p rfl)
    exact ⟨a, t ++ 58 :: n, by simp [qualName, e], h⟩

end LyModel.Yin
