import LyModel.Yin.LemmasShape
/-! The "head" of `yin_parse_element_generic` on a printed statement: start tag and argument, for each of the four statement classes
    (attribute argument, no argument, argument element, extension keyword) — helper lemmas. -/
set_option linter.unusedSimpArgs false
set_option linter.unusedVariables false
namespace LyModel.Yin
open LyModel LyModel.Utf8 LyModel.Generated LyModel.XmlText LyModel.XmlLex

/-- the lexer state in which the substatements are read: an empty element (`/>` ahead), or between two tags in front of the
    children and the end tag -/
def AtEnd (fmt : Bool) (level : Nat) (name : Bytes) (kids : List YStmt) (rest : Bytes) (c1 : XCtx) : Prop :=
  (kids = [] ∧ c1.status = .elemContent ∧ c1.wsOnly = true ∧ c1.inp = 47 :: 62 :: 10 :: rest) ∨
  (Between c1 ∧ (c1.status ≠ .elemContent ∨ c1.wsOnly = true) ∧ ignWs c1.inp = ignWs (kidsAndClose fmt level name kids ++ rest))

theorem endOf_step (ns : List XNs) (kw : YKw) (fmt : Bool) (level : Nat) (name : Bytes) (kids : List YStmt) (rest : Bytes) (cx : XCtx)
    (ht : InTag cx) (hk : yinOkList ns kw kids = true) (h : cx.inp = endOf fmt level name kids ++ rest) :
    ∃ c1, ctxNext cx = .ok c1 ∧ AtEnd fmt level name kids rest c1 ∧ c1.status = .elemContent ∧ c1.elems = cx.elems ∧ c1.ns = cx.ns := by
  cases kids with
  | nil =>
    have e := next_emptyTag cx (62 :: 10 :: rest) ht (by rw [h]; simp [endOf, sEmptyEnd, ignWs_of_not 47 _ (by decide)])
    exact ⟨_, e, Or.inl ⟨rfl, rfl, rfl, rfl⟩, rfl, rfl, rfl⟩
  | cons s r =>
    obtain ⟨m, t, hmt, hcd⟩ := kidsAndClose_head ns kw fmt level name (s :: r) rest hk
    have hin : ignWs cx.inp = 62 :: 10 :: (spaces m ++ 60 :: t) := by
      have : endOf fmt level name (s :: r) ++ rest = 62 :: 10 :: (kidsAndClose fmt level name (s :: r) ++ rest) := by
        simp [endOf, sGtNl]
      rw [h, this, ignWs_of_not 62 _ (by decide), hmt]
    have e := next_wsContent cx m t ht hcd hin
    refine ⟨_, e, Or.inr ⟨Or.inr ⟨rfl, by simp⟩, Or.inr rfl, ?_⟩, rfl, rfl, rfl⟩
    rw [hmt, ignWs_spaces]

/-- attribute argument -/
theorem head_attr (ns : List XNs) (kw : YKw) (fmt : Bool) (level : Nat) (name : Bytes) (kids : List YStmt) (rest : Bytes) (cx : XCtx)
    (k an s : Bytes) (hst : cx.status = .element) (hinfo : stmtInfo k = some (some an, false)) (hs : YangStr.isYangText s = true)
    (hk : yinOkList ns kw kids = true)
    (hinp : cx.inp = an ++ 61 :: 34 :: (dumpText true s ++ 34 :: (endOf fmt level name kids ++ rest))) :
    ∃ c1, parseExtArg (some k) cx = .ok (c1, some s) ∧ AtEnd fmt level name kids rest c1 ∧ c1.elems = cx.elems ∧ c1.ns = cx.ns := by
  have hok := entryOk_of_info k (some an) false hinfo
  simp only [entryOk, Bool.and_eq_true, Bool.not_eq_true', beq_iff_eq, bne_iff_ne, ne_eq] at hok
  obtain ⟨_, ⟨han, hx⟩, hfind⟩ := hok
  have hsY := yangText_of_isYangText s hs
  obtain ⟨a, t, rfl, ha⟩ := isIdent_ne_nil han
  have hwa : isWs a = false := (identB_facts a (identStartB_facts a ha).1).2.2.1
  have e1 := next_attrName cx (a :: t) (34 :: (dumpText true s ++ 34 :: (endOf fmt level name kids ++ rest))) (Or.inl hst) han hx
    (by rw [hinp]; simp [ignWs_of_not a _ hwa])
  generalize hc1 : ({ cx with inp := 61 :: 34 :: (dumpText true s ++ 34 :: (endOf fmt level name kids ++ rest)), status := XStatus.attribute, pfx := none, name := a :: t } : XCtx) = c1 at e1
  have e2 := next_attrValue c1 s (endOf fmt level name kids ++ rest) (by rw [← hc1]) hsY (by rw [← hc1])
  generalize hc2 : ({ c1 with inp := endOf fmt level name kids ++ rest, status := XStatus.attrContent, value := s, wsOnly := s.all (wsLit true) } : XCtx) = c2 at e2
  obtain ⟨c3, e3, hat, hc3s, he3, hn3⟩ := endOf_step ns kw fmt level name kids rest c2 (Or.inr (by rw [← hc2])) hk (by rw [← hc2])
  refine ⟨c3, ?_, hat, by rw [he3, ← hc2, ← hc1], by rw [hn3, ← hc2, ← hc1]⟩
  have hc1s : c1.status = .attribute := by rw [← hc1]
  have hc1p : c1.pfx = none := by rw [← hc1]
  have hc1n : c1.name = a :: t := by rw [← hc1]
  have hc1i : c1.inp.length + 1 = (c1.inp.length - 1) + 2 := by rw [← hc1]; simp
  have hc2v : c2.value = s := by rw [← hc2]
  have hpa : parseAttribute (some (a :: t)) (c1.inp.length + 1) none c1 = .ok (c3, some s) := by
    rw [hc1i]
    simp only [parseAttribute, hc1s, hc1p, hc1n, e2, hc2v, hs, e3, hc3s]
    simp
  simp only [parseExtArg, e1, Option.bind_some]
  rw [hfind]
  simp only [hpa]

/-- keyword without argument (`input`, `output`) -/
theorem head_noarg (ns : List XNs) (kw : YKw) (fmt : Bool) (level : Nat) (name : Bytes) (kids : List YStmt) (rest : Bytes) (cx : XCtx)
    (k : Bytes) (hst : cx.status = .element) (hinfo : stmtInfo k = some (none, false)) (hk : yinOkList ns kw kids = true)
    (hinp : cx.inp = endOf fmt level name kids ++ rest) :
    ∃ c1, parseExtArg (some k) cx = .ok (c1, none) ∧ AtEnd fmt level name kids rest c1 ∧ c1.elems = cx.elems ∧ c1.ns = cx.ns := by
  have hok := entryOk_of_info k none false hinfo
  simp only [entryOk, Bool.and_eq_true, beq_iff_eq] at hok
  obtain ⟨_, hfind⟩ := hok
  obtain ⟨c1, e1, hat, hc1s, he1, hn1⟩ := endOf_step ns kw fmt level name kids rest cx (Or.inl hst) hk hinp
  refine ⟨c1, ?_, hat, he1, hn1⟩
  simp only [parseExtArg, e1, Option.bind_some]
  rw [hfind]
  simp [parseAttribute, hc1s]

/-- prefixed extension keyword (no argument) -/
theorem head_ext (ns : List XNs) (kw : YKw) (fmt : Bool) (level : Nat) (name : Bytes) (kids : List YStmt) (rest : Bytes) (cx : XCtx)
    (hst : cx.status = .element) (hk : yinOkList ns kw kids = true) (hinp : cx.inp = endOf fmt level name kids ++ rest) :
    ∃ c1, ctxNext cx = .ok c1 ∧ genericAttrs (c1.inp.length + 1) c1 = .ok (c1, []) ∧ AtEnd fmt level name kids rest c1 ∧
      c1.elems = cx.elems ∧ c1.ns = cx.ns := by
  obtain ⟨c1, e1, hat, hc1s, he1, hn1⟩ := endOf_step ns kw fmt level name kids rest cx (Or.inl hst) hk hinp
  exact ⟨c1, e1, by simp [genericAttrs, hc1s], hat, he1, hn1⟩

end LyModel.Yin

namespace LyModel.Yin
open LyModel LyModel.Utf8 LyModel.Generated LyModel.XmlText LyModel.XmlLex

/-- closing an element at or above `base` removes no namespace: all of them were declared further out -/
def NsStable (base : Nat) (ns : List XNs) : Prop := ∀ m, base ≤ m → nsRm m ns = ns

theorem matchKeyword_text (ns : List XNs) (hnsY : nsGet ns none = some yinNsUri) (parent : YKw) :
    matchKeyword ns sText none parent = .argText := by
  have h1 : (YangStr.matchKw sText).2.1 = 0 := by decide
  have h0 : sText.isEmpty = false := rfl
  have hl : sText.length = 4 := rfl
  simp only [matchKeyword, h0, hnsY, h1, hl, textMatch_text]
  simp

theorem matchKeyword_value (ns : List XNs) (hnsY : nsGet ns none = some yinNsUri) :
    matchKeyword ns sValue none (.kw sErrMsg) = .argValue := by
  have h1 : (YangStr.matchKw sValue).2.1 = 5 := by decide
  have h2 : (YangStr.matchKw sValue).1 = true := by decide
  have h0 : sValue.isEmpty = false := rfl
  have hl : sValue.length = 5 := rfl
  simp only [matchKeyword, h0, hnsY, h1, hl, h2]
  simp

/-- argument element (`text`, or `value` under `error-message`) -/
theorem head_yin (ns : List XNs) (hnsY : nsGet ns none = some yinNsUri) (base : Nat) (hstab : NsStable base ns)
    (fmt : Bool) (level : Nat) (name : Bytes) (kids : List YStmt) (rest : Bytes) (cx : XCtx) (k an s : Bytes)
    (self : Option Bytes × Bytes) (E : List (Option Bytes × Bytes))
    (hst : cx.status = .element) (hns : cx.ns = ns) (he : cx.elems = self :: E) (hb : base ≤ E.length + 1)
    (hdepth : cx.elems.length + 1 ≤ LY_MAX_BLOCK_DEPTH)
    (hinfo : stmtInfo k = some (some an, true)) (hs : YangText s)
    (hinp : cx.inp = sGtNl ++ yprYinArg fmt (incLevel level) an (some s) ++ kidsAndClose fmt level name kids ++ rest) :
    ∃ c1, parseExtArg (some k) cx = .ok (c1, some s) ∧ AtEnd fmt level name kids rest c1 ∧ c1.elems = cx.elems ∧ c1.ns = cx.ns := by
  have hok := entryOk_of_info k (some an) true hinfo
  simp only [entryOk, Bool.and_eq_true, beq_iff_eq] at hok
  obtain ⟨_, hfind, han⟩ := hok
  -- the argument element is `value` under `error-message`, `text` otherwise; either way an identifier the parser accepts
  have hanI : isIdent an = true := by rw [han]; split <;> decide
  have hmatch : (k = sErrMsg ∧ matchKeyword ns an none (.kw k) = .argValue) ∨ (k ≠ sErrMsg ∧ matchKeyword ns an none (.kw k) = .argText) := by
    by_cases hk : k = sErrMsg
    · left; refine ⟨hk, ?_⟩; rw [han, hk]; simp; exact matchKeyword_value ns hnsY
    · right; refine ⟨hk, ?_⟩; rw [han]; simp [hk]; exact matchKeyword_text ns hnsY _
  obtain ⟨a, t, rfl, ha⟩ := isIdent_ne_nil hanI
  have hfa := identB_facts a (identStartB_facts a ha).1
  have h33 : a ≠ 33 := hfa.2.2.2.2.2.1
  let X := kidsAndClose fmt level name kids ++ rest
  have hX : X = kidsAndClose fmt level name kids ++ rest := rfl
  -- 1. `>` newline indentation: white-space content
  have hinp' : cx.inp = 62 :: 10 :: (spaces (if fmt then 2 * incLevel level else 0) ++
      60 :: (a :: t ++ 62 :: (dumpText false s ++ 60 :: 47 :: (a :: t ++ 62 :: 10 :: X)))) := by
    rw [hinp, hX]; simp [sGtNl, yprYinArg, indentOf]
  obtain ⟨c1, e1, hc1s, hc1w, hc1e, hc1n, hc1i⟩ : ∃ c1, ctxNext cx = .ok c1 ∧ c1.status = .elemContent ∧ c1.wsOnly = true ∧
      c1.elems = self :: E ∧ c1.ns = ns ∧
      c1.inp = 60 :: (a :: t ++ 62 :: (dumpText false s ++ 60 :: 47 :: (a :: t ++ 62 :: 10 :: X))) :=
    ⟨_, next_wsContent cx _ _ (Or.inl hst) (stripCdata_of_head a _ h33) (by rw [hinp', ignWs_of_not 62 _ (by decide)]; rfl),
      rfl, rfl, he, hns, rfl⟩
  -- 2. start tag of the argument element
  obtain ⟨c3, e2, hc3s, hc3p, hc3n, hc3ns, hc3e, hc3i⟩ : ∃ c3, ctxNext c1 = .ok c3 ∧ c3.status = .element ∧ c3.pfx = none ∧
      c3.name = a :: t ∧ c3.ns = ns ∧ c3.elems = (none, a :: t) :: self :: E ∧
      c3.inp = 62 :: (dumpText false s ++ 60 :: 47 :: (a :: t ++ 62 :: 10 :: X)) := by
    have e2 := next_open c1 none (a :: t) 62 (dumpText false s ++ 60 :: 47 :: (a :: t ++ 62 :: 10 :: X)) (Or.inr ⟨hc1s, by rw [hc1i]; simp⟩)
      ⟨hanI, by simp⟩ (by decide) (by decide) (by rw [hc1e, ← he]; exact hdepth) (scanOk_end _ _ 62 _ (Or.inl rfl))
      (by rw [hc1i, ignWs_of_not 60 _ (by decide)]; rfl)
    rw [ignWs_of_not 62 _ (by decide)] at e2
    exact ⟨_, e2, rfl, rfl, rfl, hc1n, by simp [hc1e], rfl⟩
  -- 3. its content
  obtain ⟨c4, e3, hc4s, hc4v, hc4i, hc4e, hc4n⟩ : ∃ c4, ctxNext c3 = .ok c4 ∧ c4.status = .elemContent ∧ c4.value = s ∧
      c4.inp = 60 :: 47 :: (a :: t ++ 62 :: 10 :: X) ∧ c4.elems = (none, a :: t) :: self :: E ∧ c4.ns = ns :=
    ⟨_, next_content c3 s (47 :: (a :: t ++ 62 :: 10 :: X)) (Or.inl hc3s) hs (by simp [sCdata, stripPrefix])
      (by rw [hc3i, ignWs_of_not 62 _ (by decide)]), rfl, rfl, rfl, hc3e, hc3ns⟩
  -- 4. its end tag
  have e4 := next_close c4 none (a :: t) (10 :: X) (self :: E) (Or.inr ⟨hc4s, by rw [hc4i]; simp⟩) ⟨hanI, by simp⟩ hc4e
    (by rw [hc4i, ignWs_of_not 60 _ (by decide)]; rfl)
  have hrm : nsRm (self :: E).length c4.ns = ns := by rw [hc4n]; exact hstab _ (by simpa using hb)
  rw [hrm] at e4
  refine ⟨{ c4 with inp := 10 :: X, status := .elemClose, elems := self :: E, ns := ns, pfx := none, name := a :: t }, ?_,
    Or.inr ⟨Or.inl rfl, Or.inl (by simp), by simp [ignWs_nl, hX]⟩, he.symm, hns.symm⟩
  have hpa : parseAttribute none (c1.inp.length + 1) none c1 = .ok (c1, none) := by simp [parseAttribute, hc1s]
  have hsk : skipAttrs (c4.inp.length + 1) c4 = .ok c4 := by simp [skipAttrs, hc4s]
  simp only [parseExtArg, e1, Option.bind_some]
  rw [hfind]
  simp only [hpa, hc1w, if_true, e2, hc3s, hc3ns, hc3n, hc3p]
  rcases hmatch with ⟨hk, hm⟩ | ⟨hk, hm⟩
  · subst hk
    simp [hm, e3, hsk, e4, hc4v]
  · simp [hk, hm, e3, hsk, e4, hc4v]

end LyModel.Yin
