import LyModel.Yin.Print
import LyModel.XmlTree.Spec
/-!
# The YIN grammar of extension-instance substatements, strictly (RFC 7950 section 13), on the element tree

An oracle that shares no code with the libyang parser model: the document is read by the independent XML reader
(`XmlDoc.parseDoc`, written from XML 1.0 + Namespaces) and the element tree is checked against the mapping of section 13.1:
a YANG statement is an element in the YIN namespace whose local name is the keyword; its argument is the attribute
`lys_stmt_arg` (no other unprefixed attribute, no text content), or — for `description`, `reference`, `contact`, `organization`,
`error-message` — the first child element `text` / `value` (which has character content only); an extension statement is an
element in another namespace; no element has mixed content.  `none` = inside the grammar.  Core Lean only.
-/
namespace LyModel.Yin
open LyModel LyModel.Generated LyModel.XmlDoc

def sTextB : Bytes := [116, 101, 120, 116]
def sErrMsgB : Bytes := [101, 114, 114, 111, 114, 45, 109, 101, 115, 115, 97, 103, 101]

def xmlWsOnly (t : Bytes) : Bool := t.all XmlText.isXmlWs

mutual
def strictElem : XElem → Option String
  | .mk ns name attrs text kids =>
    if ns == yinNsUri then
      match stmtInfo name with
      | none => some "unknown-element"
      | some (an, false) =>
        if !xmlWsOnly text then some "text-content"
        else if attrs.any (fun a => a.1.isEmpty && some a.2.1 != an) then some "unknown-attribute"
        else strictKids kids
      | some (an, true) =>
        if !xmlWsOnly text then some "text-content"
        else if attrs.any (fun a => a.1.isEmpty) then some "unknown-attribute"
        else
          match kids with
          | .mk ns1 n1 _ _ k1 :: rest =>
            if ns1 == yinNsUri && some n1 == an then
              (if k1.isEmpty then strictKids rest else some "mixed-content")
            else some "argument-element"
          | [] => some "argument-element"
    else if ns.isEmpty then some "no-namespace"
    else if !xmlWsOnly text && !kids.isEmpty then some "mixed-content"
    else strictKids kids
def strictKids : List XElem → Option String
  | [] => none
  | e :: r =>
    match strictElem e with
    | some w => some w
    | none => strictKids r
end

/-- a document whose only top-level element is an extension instance: verdict of the strict grammar (`none` = inside) -/
def strictDoc (inp : Bytes) : Option (Option String) :=
  match parseDoc inp with
  | some [.mk ns _ _ text kids] =>
    some (if ns.isEmpty || ns == yinNsUri then some "not-an-extension"
          else if !xmlWsOnly text then some "text-content" else strictKids kids)
  | _ => none

end LyModel.Yin
