import LyModel.Base
import LyModel.Text.XmlText
import LyModel.Generated.YinArgs
import LyModel.Generated.YangStr
/-!
# YIN schema printer, generic statement layer (`printer_yin.c`)

`ypr_open`, `ypr_close`, `ypr_close_parent`, `ypr_yin_arg`, `yprp_stmt`, `yprp_extension_instance(s)`, `ypr_substmt`.
Per-keyword decisions (`lys_stmt_arg`, `lys_stmt_flags & LY_STMT_FLAG_YIN`) come from the *generated* table
`Generated.yinStmtTable`; character data goes through `XmlText.dumpText` (`lyxml_dump_text`, generated escape table).
`fmt` is `DO_FORMAT`, `level` is `pctx->level` (a `uint16_t`).  Strings are C strings (no NUL).  Core Lean only.
-/
namespace LyModel.Yin
open LyModel LyModel.Generated

/-- `enum ly_stmt` as far as the generic layer distinguishes it: `LY_STMT_NONE` (a YIN attribute kept as a child),
    `LY_STMT_EXTENSION_INSTANCE`, or a YANG keyword (named by its text) -/
inductive YKw where
  | none
  | ext
  | kw (k : Bytes)
  deriving Repr, DecidableEq, Inhabited

/-- `struct lysp_stmt`: `stmt` (element / statement name as written), `kw`, `arg`, `flags`, `child` list -/
inductive YStmt where
  | mk (name : Bytes) (kw : YKw) (arg : Option Bytes) (flags : Nat) (children : List YStmt)
  deriving Repr, BEq, Inhabited

def YStmt.name : YStmt → Bytes | .mk n _ _ _ _ => n
def YStmt.kw : YStmt → YKw | .mk _ k _ _ _ => k
def YStmt.arg : YStmt → Option Bytes | .mk _ _ a _ _ => a
def YStmt.flags : YStmt → Nat | .mk _ _ _ f _ => f
def YStmt.children : YStmt → List YStmt | .mk _ _ _ _ c => c

/-- `struct lysp_ext_instance` with the two facts of its definition the printer reads (`def->argname`,
    `def->flags & LYS_YINELEM_TRUE`) -/
inductive ExtInst where
  | mk (name : Bytes) (argname : Option Bytes) (yinElem : Bool) (argument : Option Bytes)
       (exts : List ExtInst) (children : List YStmt)
  deriving Repr, BEq, Inhabited

/-- `(lys_stmt_arg kw, lys_stmt_flags kw & LY_STMT_FLAG_YIN)` for a keyword `lys_stmt_str` knows -/
def stmtInfo (k : Bytes) : Option (Option Bytes × Bool) :=
  (yinStmtTable.find? (fun e => e.1 == k)).map (·.2)

def spaces (n : Nat) : Bytes := List.replicate n 32
/-- `"%*s", INDENT` -/
def indentOf (fmt : Bool) (level : Nat) : Bytes := spaces (if fmt then 2 * level else 0)
/-- `LEVEL++` on a `uint16_t` (`LEVEL--` afterwards restores the value) -/
def incLevel (l : Nat) : Nat := (l + 1) % 65536

def sEmptyEnd : Bytes := [47, 62, 10]     -- "/>\n"
def sGtNl : Bytes := [62, 10]             -- ">\n"

/-- the tail `ypr_open` writes for `flag`: -1 → "/>\n", 1 → ">\n", 0 → nothing -/
def openTail (flag : Int) : Bytes := if flag == -1 then sEmptyEnd else if flag == 1 then sGtNl else []

/-- `ypr_open(pctx, elem_name, attr_name, attr_value, flag)`; `attr_value = none` is the NULL pointer
    (`lyxml_dump_text` prints nothing for it) -/
def yprOpen (fmt : Bool) (level : Nat) (elem : Bytes) (attr : Option Bytes) (value : Option Bytes) (flag : Int) : Bytes :=
  indentOf fmt level ++ 60 :: elem ++
    (match attr with
     | some a => 32 :: a ++ [61, 34] ++ XmlText.dumpText true (value.getD []) ++ 34 :: openTail flag
     | none => openTail flag)

/-- `ypr_close(pctx, elem_name, flag)` -/
def yprClose (fmt : Bool) (level : Nat) (elem : Bytes) (flag : Bool) : Bytes :=
  if flag then indentOf fmt level ++ [60, 47] ++ elem ++ sGtNl else sEmptyEnd

/-- `ypr_yin_arg(pctx, arg, text)` -/
def yprYinArg (fmt : Bool) (level : Nat) (arg : Bytes) (text : Option Bytes) : Bytes :=
  indentOf fmt level ++ 60 :: arg ++ 62 :: XmlText.dumpText false (text.getD []) ++ [60, 47] ++ arg ++ sGtNl

def sValue : Bytes := [118, 97, 108, 117, 101]   -- lys_stmt_arg(LY_STMT_VALUE)

mutual
/-- `yprp_stmt` -/
def printStmt (fmt : Bool) (level : Nat) : YStmt → Bytes
  | .mk name kw arg _ children =>
    let flag0 : Int := if children.isEmpty then -1 else 1
    let (head, flag) : Bytes × Int :=
      match kw with
      | .kw k =>
        match stmtInfo k with
        | some (an, true) =>
          -- the argument is a nested element, so the statement element cannot be empty
          (yprOpen fmt level name none none 1 ++ yprYinArg fmt (incLevel level) (an.getD []) arg, 1)
        | some (an, false) => (yprOpen fmt level name an arg flag0, flag0)
        | none => ([], flag0)
      | .ext =>
        (yprOpen fmt level name (if (arg.getD []).isEmpty then none else some sValue) arg flag0, flag0)
      | .none => ([], flag0)
    head ++ printStmts fmt (incLevel level) children ++ (if flag == 1 then yprClose fmt level name true else [])
def printStmts (fmt : Bool) (level : Nat) : List YStmt → Bytes
  | [] => []
  | s :: ss => printStmt fmt level s ++ printStmts fmt level ss
end

/-- the prefix part of `prefix:name` (`ly_parse_nodeid`): the bytes before the first colon; empty without a colon -/
def prefixOf (name : Bytes) : Bytes := if name.contains 58 then name.takeWhile (· != 58) else []

def isYinHidden (flags : Nat) : Bool := flags &&& (LYS_YIN_ATTR ||| LYS_YIN_ARGUMENT) != 0

/-- the substatements `yprp_extension_instance` prints; `open_` = the start tag is still open (`inner_flag == 0`);
    returns the bytes and the final `inner_flag` -/
def printExtKids (fmt : Bool) (level : Nat) : (open_ : Bool) → List YStmt → Bytes × Bool
  | o, [] => ([], o)
  | o, s :: ss =>
    if isYinHidden s.flags then printExtKids fmt level o ss
    else
      let r := printExtKids fmt level false ss
      ((if o then sGtNl else []) ++ printStmt fmt level s ++ r.1, r.2)

mutual
/-- `yprp_extension_instance` for an instance that passes the `parent_stmt` filter; `parentOpen` = `flag && !*flag`
    (the caller's start tag is still open and gets its `>\n` from `ypr_close_parent`) -/
def printExt (fmt : Bool) (level : Nat) (parentOpen : Bool) : ExtInst → Bytes
  | .mk name argname yinElem argument exts children =>
    let l1 := incLevel level
    let head := (if parentOpen then sGtNl else []) ++
      yprOpen fmt level name (if yinElem then none else argname) argument 0
    let pfx := prefixOf name
    let an := argname.getD []
    let argEl : Bytes :=
      if yinElem then
        sGtNl ++ indentOf fmt l1 ++ 60 :: pfx ++ 58 :: an ++ 62 :: XmlText.dumpText false (argument.getD []) ++
          [60, 47] ++ pfx ++ 58 :: an ++ sGtNl
      else []
    let nested := printExts fmt l1 (!yinElem) exts
    let open1 := !yinElem && exts.isEmpty
    let kids := printExtKids fmt l1 open1 children
    head ++ argEl ++ nested ++ kids.1 ++ yprClose fmt level name (!kids.2)
/-- `yprp_extension_instances` over instances that all pass the filter -/
def printExts (fmt : Bool) (level : Nat) (parentOpen : Bool) : List ExtInst → Bytes
  | [] => []
  | e :: es => printExt fmt level parentOpen e ++ printExts fmt level false es
end

/-- `ypr_substmt(pctx, substmt, index, text, exts)` for a keyword of the table and the extension instances that belong
    to this substatement: the instance of the generic layer every `ypr_unsigned` / `ypr_status` / `ypr_config` / … call is -/
def printSubstmt (fmt : Bool) (level : Nat) (k : Bytes) (text : Option Bytes) (exts : List ExtInst) : Bytes :=
  match text with
  | none => []
  | some t =>
    match stmtInfo k with
    | some (an, true) =>
      yprOpen fmt level k none none 1 ++ yprYinArg fmt (incLevel level) (an.getD []) (some t) ++
        printExts fmt (incLevel level) false exts ++ yprClose fmt level k true
    | some (an, false) =>
      yprOpen fmt level k an (some t) 0 ++ printExts fmt (incLevel level) true exts ++ yprClose fmt level k (!exts.isEmpty)
    | none => []

end LyModel.Yin
