import LyModel.Yin.LemmasHead
/-! `yin_parse_element_generic` on a printed statement tree of any depth: the mutual induction (helper lemmas; the property theorems are
    in `Props/C10Yin.lean`). -/
set_option linter.unusedSimpArgs false
set_option linter.unusedVariables false
set_option linter.unusedSectionVars false
namespace LyModel.Yin
open LyModel LyModel.Utf8 LyModel.Generated LyModel.XmlText LyModel.XmlLex

theorem endOf_head (fmt : Bool) (level : Nat) (name : Bytes) (kids : List YStmt) (Y : Bytes) :
    ∃ c r, endOf fmt level name kids ++ Y = c :: r ∧ (c = 62 ∨ c = 47) := by
  cases kids with
  | nil => exact ⟨47, 62 :: 10 :: Y, by simp [endOf, sEmptyEnd], Or.inr rfl⟩
  | cons s r => exact ⟨62, 10 :: (kidsAndClose fmt level name (s :: r) ++ Y), by simp [endOf, sGtNl], Or.inl rfl⟩

theorem ignWs_endOf (fmt : Bool) (level : Nat) (name : Bytes) (kids : List YStmt) (Y : Bytes) :
    ignWs (endOf fmt level name kids ++ Y) = endOf fmt level name kids ++ Y := by
  obtain ⟨c, r, e, hc⟩ := endOf_head fmt level name kids Y
  rw [e]; exact ignWs_of_not c r (by rcases hc with rfl | rfl <;> decide)

theorem ignWs_ident (an Z : Bytes) (h : isIdent an = true) : ignWs (an ++ Z) = an ++ Z := by
  obtain ⟨a, t, rfl, ha⟩ := isIdent_ne_nil h
  exact ignWs_of_not a _ (identB_facts a (identStartB_facts a ha).1).2.2.1

/-- facts of a `yinOk` keyword statement -/
theorem yinOk_kw (ns : List XNs) (parent : YKw) (name k : Bytes) (arg : Option Bytes) (fl : Nat) (kids : List YStmt)
    (h : yinOk ns parent (.mk name (.kw k) arg fl kids) = true) :
    name = k ∧ (∃ an ye, stmtInfo k = some (an, ye) ∧ an.isSome = arg.isSome) ∧ ¬ (k = sValue ∧ parent = .kw sErrMsg) ∧
      argTextOk arg = true ∧ yinOkList ns (.kw k) kids = true := by
  simp only [yinOk, Bool.and_eq_true, beq_iff_eq, Bool.not_eq_true', Bool.and_eq_false_iff] at h
  obtain ⟨⟨⟨⟨hn, hi⟩, hv⟩, ha⟩, hk⟩ := h
  refine ⟨hn, ?_, ?_, ha, hk⟩
  · cases hinfo : stmtInfo k with
    | none => simp [hinfo] at hi
    | some ie => exact ⟨ie.1, ie.2, rfl, by simpa [hinfo] using hi⟩
  · rintro ⟨h1, h2⟩
    rcases hv with hv | hv
    · simp [h1] at hv
    · simp [h2] at hv

theorem matchKeyword_kw (ns : List XNs) (hnsY : nsGet ns none = some yinNsUri) (parent : YKw) (k : Bytes) (an : Option Bytes) (ye : Bool)
    (hinfo : stmtInfo k = some (an, ye)) (hval : ¬ (k = sValue ∧ parent = .kw sErrMsg)) :
    matchKeyword ns k none parent = .kw k := by
  have hok := entryOk_of_info k an ye hinfo
  simp only [entryOk, Bool.and_eq_true, Bool.not_eq_true', beq_iff_eq] at hok
  obtain ⟨⟨⟨⟨hk0, _⟩, hm1⟩, hm2⟩, _⟩ := hok
  simp only [matchKeyword, hk0, hnsY, hm2, hm1]
  simp
  intro h1 h2; exact hval ⟨h1, h2⟩

theorem matchKeyword_ext (ns : List XNs) (parent : YKw) (p n : Bytes) (hn : isIdent n = true) (hb : nsBound ns p = true) :
    matchKeyword ns n (some p) parent = .ext := by
  obtain ⟨a, t, rfl, _⟩ := isIdent_ne_nil hn
  unfold nsBound at hb
  cases hg : nsGet ns (some p) with
  | none => simp [hg] at hb
  | some u =>
    simp only [hg, bne_iff_ne, ne_eq] at hb
    simp [matchKeyword, hg, hb]

/-- the start tag of a `yinOk` statement ends in a way the attribute pre-scan of `lyxml_open_element` passes -/
theorem afterName_scan (ns : List XNs) (count : Nat) (nsx : List XNs) (parent : YKw) (fmt : Bool) (lv : Nat) (s : YStmt) (Y : Bytes)
    (h : yinOk ns parent s = true) :
    ∃ b r', afterName fmt lv s ++ Y = b :: r' ∧ termB b = true ∧ b ≠ 58 ∧ ScanOk count nsx (ignWs (b :: r')) := by
  obtain ⟨name, kw, arg, fl, kids⟩ := s
  have hend : ∀ Z, ∃ b r', endOf fmt lv name kids ++ Z = b :: r' ∧ termB b = true ∧ b ≠ 58 ∧ ScanOk count nsx (ignWs (b :: r')) := by
    intro Z
    obtain ⟨c, r, e, hc⟩ := endOf_head fmt lv name kids Z
    exact ⟨c, r, e, by rcases hc with rfl | rfl <;> decide, by rcases hc with rfl | rfl <;> decide, scanOk_end _ _ c r hc⟩
  cases kw with
  | none => simp [yinOk] at h
  | ext => simpa [afterName] using hend Y
  | kw k =>
    obtain ⟨_, ⟨an, ye, hinfo, hsome⟩, _, hat, _⟩ := yinOk_kw ns parent name k arg fl kids h
    cases ye with
    | true =>
      refine ⟨62, _, by simp [afterName, hinfo, sGtNl]; rfl, by decide, by decide, scanOk_end _ _ 62 _ (Or.inl rfl)⟩
    | false =>
      cases an with
      | none => simpa [afterName, hinfo] using hend Y
      | some an =>
        have hok := entryOk_of_info k (some an) false hinfo
        simp only [entryOk, Bool.and_eq_true, Bool.not_eq_true', beq_iff_eq, bne_iff_ne, ne_eq] at hok
        obtain ⟨_, ⟨han, hx⟩, _⟩ := hok
        obtain ⟨c, r, e, hc⟩ := endOf_head fmt lv name kids Y
        have hsY : YangText (arg.getD []) := by
          cases arg with
          | none => exact .nil
          | some a => exact yangText_of_isYangText a (by simpa [argTextOk] using hat)
        refine ⟨32, an ++ 61 :: 34 :: (dumpText true (arg.getD []) ++ 34 :: c :: r), ?_, by decide, by decide,
          scanOk_attr _ _ an _ r c han hx hsY hc⟩
        simp [afterName, hinfo, ← e]

/-- the children are read from a state `AtEnd` (given that they are, from any state between two tags: `hK`) -/
theorem body_of_atEnd (ns : List XNs) (fmt : Bool) (level : Nat) (kids : List YStmt) (rest : Bytes) (c1 : XCtx) (f : Nat) (kw : YKw)
    (pfx : Option Bytes) (n : Bytes) (E : List (Option Bytes × Bytes))
    (hat : AtEnd fmt level (qualName pfx n) kids rest c1) (he : c1.elems = (pfx, n) :: E) (hns : c1.ns = ns)
    (hrm : nsRm E.length ns = ns) (hf : costK kids ≤ f)
    (hK : ∀ c : XCtx, Between c → c.elems = (pfx, n) :: E → c.ns = ns →
      ignWs c.inp = ignWs (kidsAndClose fmt level (qualName pfx n) kids ++ rest) →
      ∃ c2 c', ctxNext c = .ok c2 ∧ parseKids f kw c2 = .ok (c', normList kids) ∧ c'.inp = 10 :: rest ∧ c'.status = .elemClose ∧
        c'.elems = E ∧ c'.ns = ns) :
    (c1.status != .elemContent || c1.wsOnly) = true ∧
    ∃ c2 c', ctxNext c1 = .ok c2 ∧ parseKids f kw c2 = .ok (c', normList kids) ∧ c'.inp = 10 :: rest ∧ c'.status = .elemClose ∧
      c'.elems = E ∧ c'.ns = ns := by
  rcases hat with ⟨rfl, hs, hw, hi⟩ | ⟨hb, hc, hi⟩
  · refine ⟨by simp [hw], ?_⟩
    have e := next_closeEmpty c1 (10 :: rest) (pfx, n) E hs hi he
    obtain ⟨f', rfl⟩ : ∃ f', f = f' + 1 := ⟨f - 1, by simp [costK] at hf; omega⟩
    exact ⟨{ c1 with inp := 10 :: rest, status := .elemClose, elems := E, ns := nsRm E.length c1.ns, pfx := pfx, name := n },
      { c1 with inp := 10 :: rest, status := .elemClose, elems := E, ns := nsRm E.length c1.ns, pfx := pfx, name := n },
      e, by simp [parseKids, normList], rfl, rfl, rfl, by simp [hns, hrm]⟩
  · refine ⟨?_, hK c1 hb he hns hi⟩
    rcases hc with hc | hc
    · cases hs : c1.status <;> simp_all
    · simp [hc]

end LyModel.Yin

namespace LyModel.Yin
open LyModel LyModel.Utf8 LyModel.Generated LyModel.XmlText LyModel.XmlLex

theorem generic_finish_kw (f : Nat) (parent : YKw) (cx c1 c2 c' : XCtx) (k : Bytes) (arg : Option Bytes) (kidsN : List YStmt)
    (hmk : matchKeyword cx.ns cx.name cx.pfx parent = .kw k) (hh : parseExtArg (some k) cx = .ok (c1, arg))
    (hcond : (c1.status != .elemContent || c1.wsOnly) = true) (e2 : ctxNext c1 = .ok c2)
    (ek : parseKids f (.kw k) c2 = .ok (c', kidsN)) :
    parseGeneric (f + 1) parent cx =
      .ok (c', .mk (qualName cx.pfx cx.name) (.kw k) arg (if arg.isSome then LYS_DOUBLEQUOTED else 0) kidsN) := by
  simp only [parseGeneric, hmk, remapArg_kw, hh, Except.map, mkwToYKw]
  simp only [hcond, if_true, e2, ek]
  simp

theorem generic_finish_ext (f : Nat) (parent : YKw) (cx c1 c2 c' : XCtx) (kidsN : List YStmt)
    (hmk : matchKeyword cx.ns cx.name cx.pfx parent = .ext) (e1 : ctxNext cx = .ok c1)
    (hga : genericAttrs (c1.inp.length + 1) c1 = .ok (c1, []))
    (hcond : (c1.status != .elemContent || c1.wsOnly) = true) (e2 : ctxNext c1 = .ok c2)
    (ek : parseKids f .ext c2 = .ok (c', kidsN)) :
    parseGeneric (f + 1) parent cx = .ok (c', .mk (qualName cx.pfx cx.name) .ext none 0 kidsN) := by
  simp only [parseGeneric, hmk, remapArg_ext, e1, hga, Except.map, mkwToYKw]
  simp only [hcond, if_true, e2, ek]
  simp

def kwToM : YKw → MKw
  | .kw k => .kw k
  | .ext => .ext
  | .none => .none

/-- name of a `yinOk` statement as the lexer reports it, and what `yin_match_keyword` says about it -/
theorem yinOk_match (ns : List XNs) (hnsY : nsGet ns none = some yinNsUri) (parent : YKw) (t : YStmt) (h : yinOk ns parent t = true) :
    ∃ pfx n, t.name = qualName pfx n ∧ QualOk pfx n ∧ matchKeyword ns n pfx parent = kwToM t.kw := by
  obtain ⟨name, kw, arg, fl, kids⟩ := t
  cases kw with
  | none => simp [yinOk] at h
  | ext =>
    simp only [yinOk, Bool.and_eq_true] at h
    obtain ⟨p, n, e, q, hb⟩ := extName_parts ns name h.1.2
    exact ⟨some p, n, e, q, matchKeyword_ext ns parent p n q.1 hb⟩
  | kw k =>
    obtain ⟨rfl, ⟨an, ye, hinfo, _⟩, hval, _, _⟩ := yinOk_kw ns parent name k arg fl kids h
    have hok := entryOk_of_info name an ye hinfo
    simp only [entryOk, Bool.and_eq_true] at hok
    exact ⟨none, name, rfl, ⟨hok.1.1.1.2, by simp⟩, matchKeyword_kw ns hnsY parent name an ye hinfo hval⟩

section
variable (ns : List XNs) (hnsY : nsGet ns none = some yinNsUri) (base : Nat) (hstab : NsStable base ns)
include hnsY hstab

mutual
/-- **G**: `yin_parse_element_generic`, entered behind the start-tag name of a printed `yinOk` statement, returns `norm t` -/
theorem genericOk : (t : YStmt) → ∀ (f : Nat) (parent : YKw) (cx : XCtx) (pfx : Option Bytes) (n : Bytes)
    (E : List (Option Bytes × Bytes)) (rest : Bytes) (fmt : Bool) (level : Nat),
    cx.status = .element → cx.pfx = pfx → cx.name = n → t.name = qualName pfx n → QualOk pfx n →
    matchKeyword ns n pfx parent = kwToM t.kw →
    cx.elems = (pfx, n) :: E → cx.ns = ns → cx.inp = ignWs (afterName fmt level t ++ rest) →
    yinOk ns parent t = true → costG t ≤ f → cx.elems.length + heightG t ≤ LY_MAX_BLOCK_DEPTH → base ≤ E.length →
    ∃ c', parseGeneric f parent cx = .ok (c', norm t) ∧ c'.inp = 10 :: rest ∧ c'.status = .elemClose ∧ c'.elems = E ∧ c'.ns = ns
  | .mk name kw arg fl kids, f, parent, cx, pfx, n, E, rest, fmt, level, hst, hpfx, hname, htn, hq, hmk0, he, hns, hinp, hok, hf,
      hh, hb => by
    simp only [YStmt.name] at htn
    subst htn
    obtain ⟨f', rfl⟩ : ∃ f', f = f' + 1 := ⟨f - 1, by simp [costG] at hf; omega⟩
    have hfk : costK kids ≤ f' := by simp [costG] at hf; omega
    have hhk : cx.elems.length + heightK kids ≤ LY_MAX_BLOCK_DEPTH := by simp [heightG] at hh; omega
    have hrm : nsRm E.length ns = ns := hstab _ hb
    have hmk1 : matchKeyword cx.ns cx.name cx.pfx parent = kwToM kw := by rw [hns, hname, hpfx]; exact hmk0
    -- the children, from any state between two tags (induction hypothesis K)
    have hK : ∀ (kw' : YKw), yinOkList ns kw' kids = true → ∀ c : XCtx, Between c → c.elems = (pfx, n) :: E → c.ns = ns →
        ignWs c.inp = ignWs (kidsAndClose fmt level (qualName pfx n) kids ++ rest) →
        ∃ c2 c', ctxNext c = .ok c2 ∧ parseKids f' kw' c2 = .ok (c', normList kids) ∧ c'.inp = 10 :: rest ∧ c'.status = .elemClose ∧
          c'.elems = E ∧ c'.ns = ns := by
      intro kw' hkk c hbc hec hnc hic
      obtain ⟨c2, c', a1, a2, a3, a4, a5, a6⟩ := kidsOk kids f' kw' c pfx n E rest fmt (incLevel level) level hbc hec hnc hq
        (by simpa [kidsAndClose] using hic) hkk hfk (by rw [hec, ← he]; exact hhk) (by omega)
      exact ⟨c2, c', a1, a2, a3, a4, a5, by rw [a6, hrm]⟩
    cases kw with
    | none => simp [yinOk] at hok
    | ext =>
      simp only [yinOk, Bool.and_eq_true, Option.isNone_iff_eq_none] at hok
      obtain ⟨⟨rfl, _⟩, hkk⟩ := hok
      have hi : cx.inp = endOf fmt level (qualName pfx n) kids ++ rest := by rw [hinp]; simp only [afterName]; exact ignWs_endOf _ _ _ _ _
      obtain ⟨c1, e1, hga, hat, he1, hn1⟩ := head_ext ns .ext fmt level (qualName pfx n) kids rest cx hst hkk hi
      obtain ⟨hcond, c2, c', e2, ek, r1, r2, r3, r4⟩ := body_of_atEnd ns fmt level kids rest c1 f' .ext pfx n E hat
        (by rw [he1, he]) (by rw [hn1, hns]) hrm hfk (hK .ext hkk)
      refine ⟨c', ?_, r1, r2, r3, r4⟩
      rw [generic_finish_ext f' parent cx c1 c2 c' _ hmk1 e1 hga hcond e2 ek, hpfx, hname]
      simp [norm]
    | kw k =>
      obtain ⟨_, ⟨an, ye, hinfo, hsome⟩, hval, hat0, hkk⟩ := yinOk_kw ns parent (qualName pfx n) k arg fl kids hok
      -- the head, per class of keyword
      have hhead : ∃ c1, parseExtArg (some k) cx = .ok (c1, arg) ∧ AtEnd fmt level (qualName pfx n) kids rest c1 ∧
          c1.elems = cx.elems ∧ c1.ns = cx.ns := by
        cases ye with
        | true =>
          cases an with
          | none =>
            have := entryOk_of_info k none true hinfo
            simp [entryOk] at this
          | some an =>
            cases arg with
            | none => simp at hsome
            | some s =>
              have hsY := yangText_of_isYangText s (by simpa [argTextOk] using hat0)
              exact head_yin ns hnsY base hstab fmt level (qualName pfx n) kids rest cx k an s (pfx, n) E hst hns he (by omega)
                (by simp [heightG] at hh; omega) hinfo hsY
                (by rw [hinp]; simp only [afterName, hinfo, Option.getD_some, sGtNl, List.cons_append, List.nil_append]
                    rw [ignWs_of_not 62 _ (by decide)])
        | false =>
          cases an with
          | none =>
            cases arg with
            | some s => simp at hsome
            | none =>
              exact head_noarg ns (.kw k) fmt level (qualName pfx n) kids rest cx k hst hinfo hkk
                (by rw [hinp]; simp only [afterName, hinfo]; exact ignWs_endOf _ _ _ _ _)
          | some an =>
            cases arg with
            | none => simp at hsome
            | some s =>
              have hok2 := entryOk_of_info k (some an) false hinfo
              simp only [entryOk, Bool.and_eq_true, Bool.not_eq_true', beq_iff_eq, bne_iff_ne, ne_eq] at hok2
              exact head_attr ns (.kw k) fmt level (qualName pfx n) kids rest cx k an s hst hinfo (by simpa [argTextOk] using hat0) hkk
                (by rw [hinp]; simp only [afterName, hinfo, Option.getD_some, List.cons_append]
                    rw [ignWs_sp]
                    have := ignWs_ident an (61 :: 34 :: (dumpText true s ++ 34 :: (endOf fmt level (qualName pfx n) kids ++ rest))) hok2.2.1.1
                    simpa using this)
      obtain ⟨c1, hh1, hat, he1, hn1⟩ := hhead
      obtain ⟨hcond, c2, c', e2, ek, r1, r2, r3, r4⟩ := body_of_atEnd ns fmt level kids rest c1 f' (.kw k) pfx n E
        hat (by rw [he1, he]) (by rw [hn1, hns]) hrm hfk (hK (.kw k) hkk)
      refine ⟨c', ?_, r1, r2, r3, r4⟩
      rw [generic_finish_kw f' parent cx c1 c2 c' k arg _ hmk1 hh1 hcond e2 ek, hpfx, hname]
      simp [norm]
/-- **K**: from a state between two tags, the printed children and the end tag of the parent are read as `normList kids` -/
theorem kidsOk : (kids : List YStmt) → ∀ (f : Nat) (kw : YKw) (c : XCtx) (pfx : Option Bytes) (n : Bytes)
    (E : List (Option Bytes × Bytes)) (rest : Bytes) (fmt : Bool) (lv lv0 : Nat),
    Between c → c.elems = (pfx, n) :: E → c.ns = ns → QualOk pfx n →
    ignWs c.inp = ignWs (printStmts fmt lv kids ++ closeTag fmt lv0 (qualName pfx n) ++ rest) →
    yinOkList ns kw kids = true → costK kids ≤ f → c.elems.length + heightK kids ≤ LY_MAX_BLOCK_DEPTH → base ≤ E.length + 1 →
    ∃ c2 c', ctxNext c = .ok c2 ∧ parseKids f kw c2 = .ok (c', normList kids) ∧ c'.inp = 10 :: rest ∧ c'.status = .elemClose ∧
      c'.elems = E ∧ c'.ns = nsRm E.length ns
  | [], f, kw, c, pfx, n, E, rest, fmt, lv, lv0, hbc, hec, hnc, hq, hic, hkk, hf, hh, hb => by
    obtain ⟨f', rfl⟩ : ∃ f', f = f' + 1 := ⟨f - 1, by simp [costK] at hf; omega⟩
    have e := next_close c pfx n (10 :: rest) E hbc hq hec (by
      rw [hic]; simp only [printStmts, List.nil_append, closeTag, List.append_assoc]
      rw [ignWs_indent]; simp [sGtNl, ignWs_of_not 60 _ (by decide)])
    exact ⟨{ c with inp := 10 :: rest, status := .elemClose, elems := E, ns := nsRm E.length c.ns, pfx := pfx, name := n },
      { c with inp := 10 :: rest, status := .elemClose, elems := E, ns := nsRm E.length c.ns, pfx := pfx, name := n },
      e, by simp [parseKids, normList], rfl, rfl, rfl, by simp [hnc]⟩
  | s :: r, f, kw, c, pfx, n, E, rest, fmt, lv, lv0, hbc, hec, hnc, hq, hic, hkk, hf, hh, hb => by
    simp only [yinOkList, Bool.and_eq_true] at hkk
    obtain ⟨hs, hr⟩ := hkk
    obtain ⟨f', rfl⟩ : ∃ f', f = f' + 1 := ⟨f - 1, by simp [costK] at hf; omega⟩
    have hfs : costG s ≤ f' := by simp [costK] at hf; omega
    have hfr : costK r ≤ f' := by simp [costK] at hf; omega
    have hh1 : 1 + heightG s ≤ heightK (s :: r) := by simp only [heightK]; exact Nat.le_max_left _ _
    have hh2 : heightK r ≤ heightK (s :: r) := by simp only [heightK]; exact Nat.le_max_right _ _
    have hlen : c.elems.length = E.length + 1 := by rw [hec]; simp
    obtain ⟨pfx', n', hn', hq', hmk'⟩ := yinOk_match ns hnsY kw s hs
    -- the start tag of the first child
    obtain ⟨b, r', hbr, hterm, h58, hscan⟩ := afterName_scan ns (c.elems.length + 1) c.ns kw fmt lv s
      (printStmts fmt lv r ++ closeTag fmt lv0 (qualName pfx n) ++ rest) hs
    have hi2 : ignWs c.inp = 60 :: (qualName pfx' n' ++ b :: r') := by
      rw [hic]; simp only [printStmts, printStmt_shape ns kw fmt lv s hs, hn', List.append_assoc, List.cons_append]
      rw [ignWs_indent, ignWs_of_not 60 _ (by decide), ← hbr]
      simp
    have e1 := next_open c pfx' n' b r' hbc hq' hterm h58 (by omega) hscan hi2
    -- G on the first child, K on the others
    obtain ⟨c3, g1, g2, g3, g4, g5⟩ := genericOk s f' kw
      { c with inp := ignWs (b :: r'), status := .element, elems := (pfx', n') :: c.elems, pfx := pfx', name := n' }
      pfx' n' c.elems (printStmts fmt lv r ++ closeTag fmt lv0 (qualName pfx n) ++ rest) fmt lv rfl rfl rfl hn' hq' hmk' rfl hnc
      (by rw [hbr]) hs hfs (by simp only [List.length_cons]; omega) (by omega)
    obtain ⟨c4, c', k1, k2, k3, k4, k5, k6⟩ := kidsOk r f' kw c3 pfx n E rest fmt lv lv0 (Or.inl g3) (by rw [g4, hec]) g5 hq
      (by rw [g2, ignWs_nl]) hr hfr (by rw [g4]; omega) hb
    refine ⟨_, c', e1, ?_, k3, k4, k5, k6⟩
    simp only [parseKids]
    simp [g1, k1, k2, Except.map, normList]
end
end

end LyModel.Yin
