import LyModel.Generated.FnUtf8
import LyModel.Generated.FnHash
import LyModel.Generated.FnIff
import LyModel.Generated.FnHt
import LyModel.Generated.FnLyb
import LyModel.Generated.FnPrint
import LyModel.Generated.FnJson
/-! Driver ops of component `fn`: the definitions GENERATED from the C source by `tools/c2lean.py`, executed on the
request lines that `harness/wb_fn.c` feeds to the real functions (validation of the translator). -/
namespace LyModel.Fn.Drv
open LyModel LyModel.Generated

private def u64? (s : String) : Option UInt64 := s.toNat?.map UInt64.ofNat
private def u32? (s : String) : Option UInt32 := s.toNat?.map UInt32.ofNat

def handle (op : String) (args : List String) : String :=
  match op, args with
  | "getutf8", [h, c0, br] =>
    match Hex.dec h, u32? c0 with
    | some s, some c =>
      let b : Option UInt64 := if br == "N" then none else u64? br
      let r := Fn.ly_getutf8 s c b
      s!"ok {r.ret} {r.input_pos} {r.utf8_char} " ++ (match r.bytes_read with | some x => toString x | none => "N")
    | _, _ => "err BadArg"
  | "pututf8", [h, v, bw] =>
    match Hex.dec h, u32? v, u64? bw with
    | some d, some v, some bw =>
      let r := Fn.ly_pututf8 d v bw
      s!"ok {r.ret} {Hex.enc r.dst} {r.bytes_written}"
    | _, _, _ => "err BadArg"
  | "checkutf8", [h, l, l0] =>
    match Hex.dec h, u64? l, u64? l0 with
    | some s, some l, some l0 =>
      let r := Fn.ly_checkutf8 s l l0
      s!"ok {r.ret} {r.utf8_len}"
    | _, _, _ => "err BadArg"
  | "utf8len", [h, b] =>
    match Hex.dec h, u64? b with
    | some s, some b => s!"ok {Fn.ly_utf8len s b}"
    | _, _ => "err BadArg"
  | "hashmulti", [h0, k, l] =>
    match u32? h0, (if k == "N" then some none else (Hex.dec k).map some), u64? l with
    | some h0, some k, some l => s!"ok {Fn.lyht_hash_multi h0 k l}"
    | _, _, _ => "err BadArg"
  | "hash", [k, l] =>
    match Hex.dec k, u64? l with
    | some k, some l => s!"ok {Fn.lyht_hash k l}"
    | _, _ => "err BadArg"
  | "getop", [h, p] =>
    match Hex.dec h, u64? p with
    | some s, some p => s!"ok {Fn.lysc_iff_getop s p}"
    | _, _ => "err BadArg"
  | "setop", [h, o, p] =>
    match Hex.dec h, o.toNat?, u64? p with
    | some s, some o, some p => s!"ok {Hex.enc (Fn.iff_setop s (UInt8.ofNat o) p).list}"
    | _, _, _ => "err BadArg"
  | "xmldump", [a, h] =>
    match a.toNat?, (if h == "N" then some none else (Hex.dec h).map some) with
    | some a, some t =>
      let r := Fn.lyxml_dump_text [] t (UInt8.ofNat a)
      s!"ok {r.ret} {Hex.enc r.out}"
    | _, _ => "err BadArg"
  | "jsonprint", [h] =>
    match (if h == "N" then some none else (Hex.dec h).map some) with
    | some t =>
      let r := Fn.json_print_string [] t
      s!"ok {r.ret} {Hex.enc r.out}"
    | none => "err BadArg"
  | "uhex", [h, v0] =>
    match Hex.dec h, u32? v0 with
    | some t, some v0 =>
      let r := Fn.lyjson_string__u t 0 v0
      s!"ok {r.ret} {r.value_out}"
    | _, _ => "err BadArg"
  | "fixedsize", [n] =>
    match u32? n with
    | some n => s!"ok {Fn.lyht_get_fixed_size n}"
    | none => "err BadArg"
  | "grow", [u, z, r] =>
    match u32? u, u32? z, r.toNat? with
    | some u, some z, some r =>
      let x := Fn.lyht_insert__grow u z (UInt16.ofNat r)
      s!"ok {x.ret} {x.resize}"
    | _, _, _ => "err BadArg"
  | "shrink", [u, z] =>
    match u32? u, u32? z with
    | some u, some z => s!"ok {Fn.lyht_remove__shrink u z}"
    | _, _ => "err BadArg"
  | "lybmask", [h, c] =>
    match u32? h, c.toNat? with
    | some h, some c => s!"ok {Fn.lyb_generate_hash__mask h (UInt8.ofNat c)}"
    | _, _ => "err BadArg"
  | "extlen", [c, l] =>
    match c.toNat?, u64? l with
    | some c, some l => s!"ok {Fn.lyb_generate_hash__extlen (UInt8.ofNat c) l}"
    | _, _ => "err BadArg"
  | _, _ => "err BadOp"

end LyModel.Fn.Drv
