import LyModel.XmlTree.OpaqRoundtrip
import LyModel.XmlTree.OpaqCheck
/-! The independent document reader applied to what the model prints for a forest of opaque nodes, second half: the start tag as
    a whole, character data followed by child elements, the induction over the forest (the property theorem
    `opaque_document_faithful` is restated in `Props/C12.lean`). -/
set_option linter.unusedSimpArgs false
set_option linter.unusedVariables false
namespace LyModel.XmlTree
open LyModel LyModel.XmlDoc LyModel.XmlText

mutual
/-- fuel the reader needs for an opaque node -/
def ocost : ONode → Nat
  | .mk _ _ _ _ _ _ kids => 2 + ocosts kids
def ocosts : List ONode → Nat
  | [] => 1
  | n :: r => 1 + ocost n + ocosts r
end

/-- character data in front of markup: the reader takes the text and goes on with the markup -/
theorem parseContent_text_then (env : NsStack) (v : Bytes) (hv : v ≠ []) (hc : NoCtl v) (r : Bytes) (fuel : Nat)
    (t' : Bytes) (ks : List XElem) (rest : Bytes) (h : parseContent env fuel (60 :: r) = some (t', ks, rest)) :
    parseContent env (fuel + 1) (dumpText false v ++ 60 :: r) = some (v ++ t', ks, rest) := by
  obtain ⟨c, t, hd, hne⟩ := dumpText_head_ne_lt v hv
  have hr : ∀ fu, (dumpText false v).length + 1 ≤ fu →
      readUntil false fu (dumpText false v ++ 60 :: r) = some (v, 60 :: r) :=
    fun fu h => readUntil_dump false 60 (Or.inl ⟨rfl, rfl⟩) v hc r fu h
  have hne' : ¬ (some c = some (60 : UInt8)) := by simpa using hne
  have hlen : (dumpText false v).length = t.length + 1 := by rw [hd]; rfl
  rw [hd] at hr ⊢
  simp only [List.cons_append] at hr ⊢
  unfold parseContent
  have h2 := hr (t.length + (r.length + 1) + 1 + 1) (by simp only [List.length_cons]; omega)
  simp [hne, hne', h2, h]
  omega

/-- the reader on the start tag of an opaque node: the expanded name of the element, the attributes with expanded names, and the
    environment it hands to the content resolves like the printer's stack -/
theorem parseElem_otag (fx : Fixes) (hn : fx.numbered = true) (hr : fx.reserved = true) (env st : NsStack)
    (heq : EnvEq env st) (hst : StackOk st) (name : Bytes) (ns : Option Bytes) (value : Bytes) (valPfx : PfxData)
    (attrs : List OAttr) (hname : NameOk name) (hns : ∀ u ∈ ns, NoCtl u) (hpd : PfxDataOk valPfx)
    (hat : ∀ a ∈ attrs, AttrOk a) (hdup : noDupAttrs (attrs.map viewAttr) = true)
    (hcons : consistent (reservedOf valPfx attrs) = true) (hdf : ns = none → fx.undeclare = true ∨ findDefault st = none)
    (items : List Item) (st' : NsStack) (htag : startTagItems fx st ns value valPfx attrs = (items, st')) (fuel : Nat) :
    EnvEq (declared items ++ env) st' ∧ StackOk st' ∧
    (∀ rest, parseElem env (fuel + 1) (60 :: (name ++ (renderItems items ++ 47 :: 62 :: rest))) =
        some (XElem.mk (ns.getD []) name (attrs.map viewAttr) [] [], rest)) ∧
    (∀ body text kids rest,
        parseContent (declared items ++ env) fuel body = some (text, kids, 60 :: 47 :: (name ++ 62 :: rest)) →
        parseElem env (fuel + 1) (60 :: (name ++ (renderItems items ++ 62 :: body))) =
          some (XElem.mk (ns.getD []) name (attrs.map viewAttr) text kids, rest)) := by
  have hok := startTag_ok fx st ns value valPfx attrs hst hns hpd hat
  have hnd := startTag_nodup fx hn hr st ns value valPfx attrs hcons
  have hres := startTag_attrs_resolve fx hn hr st ns value valPfx attrs
  have hfd := startTag_findDefault fx hn hr st ns value valPfx attrs
  rw [htag] at hok hnd hres hfd
  simp only at hok hnd hres hfd
  have heq' : EnvEq (declared items ++ env) st' := by
    rw [hnd.2]; exact envEq_push env st _ heq hnd.1
  have hra := resolveAttrs_items (declared items ++ env) st' heq' items attrs hok.1 hres (fun a ha => (hat a ha).2.2.1)
  have hdecl := declsOf_items items hok.1
  have hndd := noDupDecls_of_nodup _ hnd.1
  have hdflt : (lookup (declared items ++ env) none).getD [] = ns.getD [] := by
    rw [heq' none, lookup_none_eq, hfd]
    cases ns with
    | none =>
      simp only
      have hdis : defaultInScope st = false → (findDefault st).getD [] = [] := by
        intro h
        unfold defaultInScope at h
        cases hfd' : findDefault st with
        | none => rfl
        | some u => rw [hfd'] at h; cases u <;> simp_all
      split
      · rfl
      · rename_i hc
        rcases hdf rfl with hu | hnone
        · have : defaultInScope st = false := by
            cases hd : defaultInScope st with
            | false => rfl
            | true => exact absurd (by simp [hu, hd]) hc
          simpa using hdis this
        · simp [hnone]
    | some u => rfl
  refine ⟨heq', hok.2, ?_, ?_⟩
  · intro rest
    have hq := takeQName_plain name (renderItems items ++ 47 :: 62 :: rest) hname
      (renderItems_head items _ rest (Or.inr rfl))
    have hpa := parseAttrs_items items hok.1 (47 :: 62 :: rest) true rest (Or.inr ⟨rfl, rfl⟩)
      ((renderItems items ++ 47 :: 62 :: rest).length + 1)
      (by have := renderItems_length items; simp only [List.length_append]; omega)
    have := (parseElem_gen env name _ hname (items.map Item.toRaw) true rest (attrs.map viewAttr) fuel hq hpa
      (by rw [hdecl]; exact hndd) (by rw [hdecl]; exact hra) hdup).1 rfl
    rw [hdecl, hdflt] at this
    exact this
  · intro body text kids rest hc
    have hq := takeQName_plain name (renderItems items ++ 62 :: body) hname
      (renderItems_head items _ body (Or.inl rfl))
    have hpa := parseAttrs_items items hok.1 (62 :: body) false body (Or.inl ⟨rfl, rfl⟩)
      ((renderItems items ++ 62 :: body).length + 1)
      (by have := renderItems_length items; simp only [List.length_append]; omega)
    have := (parseElem_gen env name _ hname (items.map Item.toRaw) false body (attrs.map viewAttr) fuel hq hpa
      (by rw [hdecl]; exact hndd) (by rw [hdecl]; exact hra) hdup).2 rfl text kids rest (by rw [hdecl]; exact hc)
    rw [hdecl, hdflt] at this
    exact this

theorem printONode_head2 (fx : Fixes) (st : NsStack) (n : ONode) (strict inD : Bool)
    (hn : ONodeOk strict inD n) : ∃ b t, printONode fx st n = 60 :: b :: t ∧ b ≠ 47 := by
  cases n with
  | mk name pfx ns value valPfx attrs kids =>
    have hnm : NameOk name := by
      unfold ONodeOk at hn; exact hn.1
    obtain ⟨b, t, rfl⟩ : ∃ b t, name = b :: t := by
      cases name with
      | nil => exact absurd rfl hnm.1
      | cons b t => exact ⟨b, t, rfl⟩
    have hb := (nameByte_props b (hnm.2 b (by simp))).2.1
    unfold printONode
    simp only
    split
    · exact ⟨b, _, rfl, hb⟩
    · split
      · exact ⟨b, _, rfl, hb⟩
      · exact ⟨b, _, rfl, hb⟩

theorem printOList_head (fx : Fixes) (st : NsStack) (k : ONode) (ks : List ONode) (tail : Bytes) :
    ∃ r, printOList fx st (k :: ks) ++ tail = 60 :: r := by
  cases k with
  | mk name pfx ns value valPfx attrs kids =>
    unfold printOList printONode
    simp only
    split
    · exact ⟨_, rfl⟩
    · split
      · exact ⟨_, rfl⟩
      · exact ⟨_, rfl⟩

mutual
theorem parseElem_oprint (fx : Fixes) (hn : fx.numbered = true) (hr : fx.reserved = true) (env st : NsStack)
    (heq : EnvEq env st) (hst : StackOk st) (strict : Bool) (hS : strict = false → fx.undeclare = true) (inD : Bool)
    (hD : inD = false → findDefault st = none) (n : ONode) (hok : ONodeOk strict inD n) (rest : Bytes) (fuel : Nat) (hf : ocost n ≤ fuel) :
    parseElem env fuel (printONode fx st n ++ rest) = some (oview n, rest) := by
  cases n with
  | mk name pfx ns value valPfx attrs kids =>
    unfold ONodeOk at hok
    obtain ⟨hname, hnsd, hns, hval, hpd, hat, hdup, hcons, hkids⟩ := hok
    obtain ⟨f, rfl⟩ : ∃ f, fuel = f + 1 := ⟨fuel - 1, by simp [ocost] at hf; omega⟩
    obtain ⟨items, st', htag⟩ : ∃ items st', startTagItems fx st ns value valPfx attrs = (items, st') := ⟨_, _, rfl⟩
    have hdf : ns = none → fx.undeclare = true ∨ findDefault st = none := by
      intro h
      cases hs : strict with
      | false => exact Or.inl (hS hs)
      | true => exact Or.inr (hD (hnsd h hs))
    obtain ⟨heq', hst', hsc, hopen⟩ := parseElem_otag fx hn hr env st heq hst name ns value valPfx attrs hname hns hpd hat hdup
      hcons hdf items st' htag f
    have hD' : (inD || ns.isSome) = false → findDefault st' = none := by
      intro h
      have h1 : inD = false := by cases inD <;> simp_all
      have h2 : ns = none := by cases ns <;> simp_all
      have hfd := startTag_findDefault fx hn hr st ns value valPfx attrs
      rw [htag] at hfd
      subst h2
      have hdis : defaultInScope st = false := by simp [defaultInScope, hD h1]
      simpa [hD h1, hdis] using hfd
    cases kids with
    | nil =>
      by_cases he : value = []
      · subst he
        have := hsc rest
        simpa [printONode, htag, oview, oviewList, sSlashGt, List.append_assoc] using this
      · have hemp : value.isEmpty = false := by cases value <;> simp_all
        have hc := parseContent_text_then (declared items ++ env) value he hval (47 :: (name ++ 62 :: rest)) (f - 1) [] []
          (60 :: 47 :: (name ++ 62 :: rest))
          (by
            obtain ⟨g, hg⟩ : ∃ g, f - 1 = g + 1 := ⟨f - 2, by simp [ocost, ocosts] at hf; omega⟩
            rw [hg]; simp [parseContent])
        have hf1 : f - 1 + 1 = f := by simp [ocost, ocosts] at hf; omega
        rw [hf1] at hc
        have := hopen _ _ _ rest hc
        simpa [printONode, htag, oview, oviewList, sLtSlash, hemp, List.append_assoc] using this
    | cons k ks =>
      have hkc := parseContent_oprint fx hn hr (declared items ++ env) st' heq' hst' strict hS (inD || ns.isSome) hD' (k :: ks) hkids
        (60 :: 47 :: (name ++ 62 :: rest)) (Or.inr ⟨_, rfl⟩)
      by_cases he : value = []
      · subst he
        have hc := hkc f (by simp [ocost] at hf; omega)
        have := hopen _ _ _ rest hc
        simpa [printONode, htag, oview, sLtSlash, List.append_assoc] using this
      · have hemp : value.isEmpty = false := by cases value <;> simp_all
        obtain ⟨r, hrr⟩ := printOList_head fx st' k ks (60 :: 47 :: (name ++ 62 :: rest))
        have hc0 := hkc (f - 1) (by simp [ocost] at hf; omega)
        rw [hrr] at hc0
        have hc := parseContent_text_then (declared items ++ env) value he hval r (f - 1) _ _ _ hc0
        have hf1 : f - 1 + 1 = f := by simp [ocost, ocosts] at hf; omega
        rw [hf1, ← hrr] at hc
        have := hopen _ _ _ rest hc
        simpa [printONode, htag, oview, sLtSlash, hemp, List.append_assoc] using this
theorem parseContent_oprint (fx : Fixes) (hn : fx.numbered = true) (hr : fx.reserved = true) (env st : NsStack)
    (heq : EnvEq env st) (hst : StackOk st) (strict : Bool) (hS : strict = false → fx.undeclare = true) (inD : Bool)
    (hD : inD = false → findDefault st = none) (l : List ONode) (hl : OListOk strict inD l) (tail : Bytes) (htail : tail = [] ∨ ∃ r, tail = 60 :: 47 :: r)
    (fuel : Nat) (hf : ocosts l ≤ fuel) :
    parseContent env fuel (printOList fx st l ++ tail) = some ([], oviewList l, tail) := by
  cases l with
  | nil =>
    obtain ⟨f, rfl⟩ : ∃ f, fuel = f + 1 := ⟨fuel - 1, by simp [ocosts] at hf; omega⟩
    rcases htail with rfl | ⟨r, rfl⟩ <;> simp [printOList, parseContent, oviewList]
  | cons k ks =>
    unfold OListOk at hl
    obtain ⟨hk, hks⟩ := hl
    obtain ⟨f, rfl⟩ : ∃ f, fuel = f + 1 := ⟨fuel - 1, by simp [ocosts] at hf; omega⟩
    have h1 := parseElem_oprint fx hn hr env st heq hst strict hS inD hD k hk (printOList fx st ks ++ tail) f
      (by simp [ocosts] at hf; omega)
    have h2 := parseContent_oprint fx hn hr env st heq hst strict hS inD hD ks hks tail htail f (by simp [ocosts] at hf; omega)
    obtain ⟨b, t, hp, hb⟩ := printONode_head2 fx st k strict inD hk
    have hb' : ¬ (some b = some (47 : UInt8)) := by simpa using hb
    simp only [printOList, List.append_assoc]
    rw [hp] at h1 ⊢
    simp only [List.cons_append] at h1 ⊢
    unfold parseContent
    simp [hb', h1, h2, oviewList]
end

mutual
theorem ocost_le_len (fx : Fixes) (st : NsStack) (strict inD : Bool) (n : ONode) (hok : ONodeOk strict inD n) :
    ocost n + 1 ≤ (printONode fx st n).length := by
  cases n with
  | mk name pfx ns value valPfx attrs kids =>
    unfold ONodeOk at hok
    have := name_len_pos name hok.1
    have ih := ocosts_le_len fx (startTagItems fx st ns value valPfx attrs).2 strict (inD || ns.isSome) kids hok.2.2.2.2.2.2.2.2
    unfold printONode
    simp only [ocost]
    split
    · simp [sLtSlash] at ih ⊢; omega
    · rename_i hke
      have : kids = [] := by cases kids <;> simp_all
      subst this
      split <;> simp [sSlashGt, sLtSlash, ocosts] <;> omega
theorem ocosts_le_len (fx : Fixes) (st : NsStack) (strict inD : Bool) (l : List ONode) (hl : OListOk strict inD l) :
    ocosts l ≤ (printOList fx st l).length + 1 := by
  cases l with
  | nil => simp [ocosts, printOList]
  | cons k ks =>
    unfold OListOk at hl
    have h1 := ocost_le_len fx st strict inD k hl.1
    have h2 := ocosts_le_len fx st strict inD ks hl.2
    simp [ocosts, printOList] at h1 h2 ⊢; omega
end

/-- The document the data printer emits for a forest of opaque nodes (shrink mode) is well-formed XML with namespaces, and a
    namespace-aware reader recovers exactly the elements in order with their expanded names, their attributes with expanded
    names and values, and their character data. -/
theorem parseDoc_printOpaqData (fx : Fixes) (hn : fx.numbered = true) (hr : fx.reserved = true) (strict : Bool)
    (hS : strict = false → fx.undeclare = true) (forest : List ONode)
    (h : OListOk strict false forest) : parseDoc (printOpaqData fx forest) = some (oviewList forest) := by
  have hc := ocosts_le_len fx [] strict false forest h
  have := parseContent_oprint fx hn hr [] [] (fun _ => rfl) (by intro q u hm; simp at hm) strict hS false (fun _ => rfl) forest h []
    (Or.inl rfl) ((printOpaqData fx forest).length + 2) (by simp [printOpaqData] at hc ⊢; omega)
  simp [parseDoc, printOpaqData] at this ⊢
  simp [this]

/-! ### the executable predicate `opaqOk` means `OListOk false` -/

theorem nameOkB_sound (n : Bytes) (h : nameOkB n = true) : NameOk n := by
  simp only [nameOkB, Bool.and_eq_true, Bool.not_eq_true', List.all_eq_true] at h
  exact ⟨by intro e; subst e; simp at h, h.2⟩

theorem noCtlB_sound (s : Bytes) (h : noCtlB s = true) : NoCtl s := by
  intro b hb
  simp only [noCtlB, List.all_eq_true] at h
  have := h b hb
  simp only [Bool.not_eq_true', Bool.and_eq_false_iff, decide_eq_false_iff_not, bne_eq_false_iff_eq] at this
  intro ⟨h1, h2, h3, h4⟩
  rcases this with ((h | h) | h) | h
  · exact h h1
  · exact h2 h
  · exact h3 h
  · exact h4 h

theorem pfxOkB_sound (p : Bytes) (h : pfxOkB p = true) : PfxOk p := by
  simp only [pfxOkB, Bool.and_eq_true, bne_iff_ne] at h
  exact ⟨nameOkB_sound p h.1, h.2⟩

theorem pfxDataOkB_sound (pd : PfxData) (h : pfxDataOkB pd = true) : PfxDataOk pd := by
  intro e he
  simp only [pfxDataOkB, List.all_eq_true, Bool.and_eq_true] at h
  have := h e he
  refine ⟨?_, noCtlB_sound _ this.2⟩
  intro p hp
  cases h1 : e.1 with
  | none => rw [h1] at hp; cases hp
  | some q =>
    rw [h1] at hp this
    have : q = p := by simpa using hp
    subst this
    exact pfxOkB_sound _ this.1

theorem attrOkB_sound (a : OAttr) (h : attrOkB a = true) : AttrOk a := by
  simp only [attrOkB, Bool.and_eq_true, Bool.or_eq_true, bne_iff_ne, beq_iff_eq] at h
  obtain ⟨⟨⟨⟨⟨⟨h1, h2⟩, h3⟩, h4⟩, h5⟩, h6⟩, h7⟩ := h
  refine ⟨nameOkB_sound _ h1, noCtlB_sound _ h2, h3, ?_, ?_, ?_, pfxDataOkB_sound _ h7⟩
  · intro p hp
    cases hq : a.pfx with
    | none => rw [hq] at hp; cases hp
    | some q =>
      rw [hq] at hp h4
      have : q = p := by simpa using hp
      subst this
      exact pfxOkB_sound _ h4
  · intro u hu
    cases hq : a.ns with
    | none => rw [hq] at hu; cases hu
    | some q =>
      rw [hq] at hu h5
      have : q = u := by simpa using hu
      subst this
      exact noCtlB_sound _ h5
  · intro hp
    rcases h6 with h6 | h6
    · rw [hp] at h6; cases h6
    · exact h6

mutual
theorem onodeOkB_sound (strict inD : Bool) (n : ONode) (h : onodeOkB strict inD n = true) : ONodeOk strict inD n := by
  cases n with
  | mk name pfx ns value valPfx attrs kids =>
    unfold onodeOkB at h
    simp only [Bool.and_eq_true, Bool.or_eq_true, Bool.not_eq_true', List.all_eq_true] at h
    obtain ⟨⟨⟨⟨⟨⟨⟨⟨h1, h2⟩, h3⟩, h4⟩, h5⟩, h6⟩, h7⟩, h8⟩, h9⟩ := h
    unfold ONodeOk
    refine ⟨nameOkB_sound _ h1, ?_, ?_, noCtlB_sound _ h4, pfxDataOkB_sound _ h5, fun a ha => attrOkB_sound a (h6 a ha), h7, h8,
      olistOkB_sound strict _ kids h9⟩
    · intro hns hs
      rcases h2 with (h2 | h2) | h2
      · rw [hns] at h2; cases h2
      · exact h2
      · rw [hs] at h2; cases h2
    · intro u hu
      cases hq : ns with
      | none => rw [hq] at hu; cases hu
      | some q =>
        rw [hq] at hu h3
        have : q = u := by simpa using hu
        subst this
        exact noCtlB_sound _ h3
theorem olistOkB_sound (strict inD : Bool) (l : List ONode) (h : olistOkB strict inD l = true) : OListOk strict inD l := by
  cases l with
  | nil => unfold OListOk; trivial
  | cons k ks =>
    unfold olistOkB at h
    simp only [Bool.and_eq_true] at h
    unfold OListOk
    exact ⟨onodeOkB_sound strict inD k h.1, olistOkB_sound strict inD ks h.2⟩
end

theorem opaqOk_sound (forest : List ONode) (h : opaqOk forest = true) : OListOk true false forest := olistOkB_sound true false forest h

theorem opaqOkAnyNs_sound (forest : List ONode) (h : opaqOkAnyNs forest = true) : OListOk false false forest :=
  olistOkB_sound false false forest h

end LyModel.XmlTree
