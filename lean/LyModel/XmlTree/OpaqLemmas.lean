import LyModel.XmlTree.Ns2Lemmas
/-! The start tag of an opaque node as a run of `xml_print_ns` calls: the invariants behind `start_tag_binds_each_prefix_once`
    and `attr_prefix_resolves` (`Props/C12.lean`). -/
set_option linter.unusedSimpArgs false
set_option linter.unusedVariables false
namespace LyModel.XmlTree
open LyModel

/-- the namespace declarations among the items of a start tag, in the order they are written -/
def declared : List Item → NsStack
  | [] => []
  | .decl p ns :: r => (p, ns) :: declared r
  | .attr _ _ _ :: r => declared r

/-- the attributes proper among the items of a start tag, in the order they are written -/
def attrsOf : List Item → List Item
  | [] => []
  | .decl _ _ :: r => attrsOf r
  | .attr p n v :: r => .attr p n v :: attrsOf r

theorem declared_append (a b : List Item) : declared (a ++ b) = declared a ++ declared b := by
  induction a with
  | nil => rfl
  | cons i r ih => cases i <;> simp [declared, ih]

theorem attrsOf_append (a b : List Item) : attrsOf (a ++ b) = attrsOf a ++ attrsOf b := by
  induction a with
  | nil => rfl
  | cons i r ih => cases i <;> simp [attrsOf, ih]

/-- a declaration of `q` may be written: `q` is not at the moment bound to a namespace the values of the start tag agree with -/
def PushOk (R : Reserved) (st : NsStack) (q : Bytes) : Prop := ∀ u', findPrefix q st = some u' → ¬ Compat R q u'

/-- one call of `xml_print_ns` with a prefix, as the start tag sees it: nothing is written and `q` resolves to `ns`, or
    `xmlns:q="ns"` is written -/
def Step (R : Reserved) (st : NsStack) (q ns : Bytes) (items : List Item) (st' : NsStack) : Prop :=
  (items = [] ∧ st' = st ∧ findPrefix q st = some ns) ∨
  (items = [Item.decl (some q) ns] ∧ st' = (some q, ns) :: st ∧ PushOk R st q)

theorem Step.resolves {R : Reserved} {st st' : NsStack} {q ns : Bytes} {items : List Item} (h : Step R st q ns items st') :
    findPrefix q st' = some ns := by
  rcases h with ⟨_, rfl, h⟩ | ⟨_, rfl, _⟩
  · exact h
  · simp [findPrefix]

/-- REQUIRED call for a pair of the start tag's own value prefix data -/
theorem step_required (fx : Fixes) (R R' : Reserved) (st : NsStack) (p u : Bytes) (hm : (p, u) ∈ R) :
    (nsPrefixed fx R' st u p true).1 = p ∧
      Step R st p u (nsPrefixed fx R' st u p true).2.1 (nsPrefixed fx R' st u p true).2.2 := by
  rw [nsPrefixed_required]
  by_cases h : findPrefix p st = some u
  · rw [if_pos h]
    exact ⟨rfl, Or.inl ⟨rfl, rfl, h⟩⟩
  · rw [if_neg h]
    refine ⟨rfl, Or.inr ⟨rfl, rfl, ?_⟩⟩
    intro u' hu' hc
    have := hc u hm
    subst this
    exact h hu'

/-- a suggestion (name of an attribute), with both repairs in the code: the prefix used is not needed by a value of the start
    tag for another namespace, and if it is declared it was bound by no entry of the stack -/
theorem step_suggested (fx : Fixes) (hn : fx.numbered = true) (hr : fx.reserved = true) (R : Reserved) (st : NsStack) (ns pfx : Bytes) :
    Step R st (nsPrefixed fx R st ns pfx false).1 ns (nsPrefixed fx R st ns pfx false).2.1 (nsPrefixed fx R st ns pfx false).2.2 ∧
      Compat R (nsPrefixed fx R st ns pfx false).1 ns := by
  unfold nsPrefixed
  cases hs : searchPrefixed fx R ns pfx false [] st with
  | some q =>
    obtain ⟨h1, _, h3⟩ := searchPrefixed_sound fx R ns pfx false q st [] [] innerOk_nil hs
    simp only [List.nil_append] at h1
    exact ⟨Or.inl ⟨rfl, rfl, h1⟩, h3 rfl hr⟩
  | none =>
    simp only [hn, and_self, if_true]
    have hg := pickPrefix_good fx R st ns pfx
    unfold badPrefix at hg
    rw [Bool.or_eq_false_iff] at hg
    obtain ⟨hb, hres⟩ := hg
    have hres' : isReserved R (pickPrefix fx R st ns pfx (st.length + R.length + 1) 0) ns = false := by
      simpa [hr] using hres
    refine ⟨Or.inr ⟨rfl, rfl, ?_⟩, (isReserved_false_iff _ _ _).1 hres'⟩
    intro u' hu'
    rw [findPrefix_unbound hb] at hu'
    cases hu'

/-- a sequence of calls and attribute writes; `K` = the hypothesis under which the REQUIRED pairs are compatible with the values
    of the start tag (their consistency) -/
inductive Run (R : Reserved) (K : Prop) : NsStack → List Item → NsStack → Prop
  | nil (st : NsStack) : Run R K st [] st
  | step {st st' st'' : NsStack} {q ns : Bytes} {items rest : List Item} :
      Step R st q ns items st' → (K → Compat R q ns) → Run R K st' rest st'' → Run R K st (items ++ rest) st''
  | attr {st st' : NsStack} {rest : List Item} (p : Option Bytes) (name v : Bytes) :
      Run R K st rest st' → Run R K st (Item.attr p name v :: rest) st'

theorem Run.append {R : Reserved} {K : Prop} {st st1 st2 : NsStack} {i1 i2 : List Item}
    (h1 : Run R K st i1 st1) (h2 : Run R K st1 i2 st2) : Run R K st (i1 ++ i2) st2 := by
  induction h1 with
  | nil _ => exact h2
  | step hs hc _ ih => rw [List.append_assoc]; exact Run.step hs hc (ih h2)
  | attr p name v _ ih => exact Run.attr p name v (ih h2)

/-- what resolves to a namespace the values of the start tag agree with keeps resolving to it -/
def Stable (R : Reserved) (st st' : NsStack) : Prop :=
  ∀ q u, findPrefix q st = some u → Compat R q u → findPrefix q st' = some u

theorem Step.stable {R : Reserved} {st st' : NsStack} {q ns : Bytes} {items : List Item} (h : Step R st q ns items st') :
    Stable R st st' := by
  rcases h with ⟨_, rfl, _⟩ | ⟨_, rfl, hp⟩
  · exact fun _ _ h _ => h
  · intro q' u' hq hc
    rw [findPrefix_cons_some]
    by_cases e : q = q'
    · subst e
      exact absurd hc (hp u' hq)
    · simp [e, hq]

theorem Run.stable {R : Reserved} {K : Prop} {st st' : NsStack} {items : List Item} (h : Run R K st items st') :
    Stable R st st' := by
  induction h with
  | nil _ => exact fun _ _ h _ => h
  | step hs _ _ ih => exact fun q u hq hc => ih q u (hs.stable q u hq hc) hc
  | attr _ _ _ _ ih => exact ih

/-- the stack after the run: the declarations written, innermost first, on top of the stack before -/
theorem Run.stack {R : Reserved} {K : Prop} {st st' : NsStack} {items : List Item} (h : Run R K st items st') :
    st' = (declared items).reverse ++ st := by
  induction h with
  | nil _ => rfl
  | step hs _ _ ih =>
    rcases hs with ⟨rfl, rfl, _⟩ | ⟨rfl, rfl, _⟩
    · simpa using ih
    · rw [ih]; simp [declared, declared_append]
  | attr _ _ _ _ ih => simpa [declared] using ih

theorem Run.declared_some {R : Reserved} {K : Prop} {st st' : NsStack} {items : List Item} (h : Run R K st items st') :
    ∀ e ∈ declared items, e.1 ≠ none := by
  induction h with
  | nil _ => simp [declared]
  | step hs _ _ ih =>
    rcases hs with ⟨rfl, rfl, _⟩ | ⟨rfl, rfl, _⟩
    · simpa using ih
    · intro e he
      simp only [List.cons_append, List.nil_append, declared, List.mem_cons] at he
      rcases he with rfl | he
      · simp
      · exact ih e he
  | attr _ _ _ _ ih => simpa [declared] using ih

/-- the declarations of the start tag so far: no prefix twice, each compatible with the values of the start tag -/
def Inv (R : Reserved) (new : NsStack) : Prop :=
  (new.map (·.1)).Nodup ∧ ∀ p u, (some p, u) ∈ new → Compat R p u

theorem findPrefix_mem_nodup (q u : Bytes) (st0 : NsStack) :
    ∀ (new : NsStack), (new.map (·.1)).Nodup → (some q, u) ∈ new → findPrefix q (new ++ st0) = some u
  | [], _, h => by simp at h
  | (none, u') :: t, hnd, h => by
    have hnd' : (t.map (·.1)).Nodup := (List.nodup_cons.mp (by simpa using hnd)).2
    have hm : (some q, u) ∈ t := by simpa using h
    simpa [findPrefix] using findPrefix_mem_nodup q u st0 t hnd' hm
  | (some p', u') :: t, hnd, h => by
    have hnd' := List.nodup_cons.mp (by simpa using hnd : (some p' :: t.map (·.1)).Nodup)
    rw [List.cons_append, findPrefix_cons_some]
    by_cases e : p' = q
    · subst e
      simp only [if_true]
      rcases List.mem_cons.mp h with h | h
      · simp at h; rw [h]
      · exact absurd (List.mem_map.mpr ⟨(some p', u), h, rfl⟩) hnd'.1
    · simp only [e, if_false]
      have hm : (some q, u) ∈ t := by
        rcases List.mem_cons.mp h with h | h
        · simp at h; exact absurd h.1.symm e
        · exact h
      exact findPrefix_mem_nodup q u st0 t hnd'.2 hm

theorem Run.inv {R : Reserved} {K : Prop} (hK : K) {st st' : NsStack} {items : List Item} (h : Run R K st items st') :
    ∀ (new st0 : NsStack), st = new ++ st0 → Inv R new → Inv R ((declared items).reverse ++ new) := by
  induction h with
  | nil _ => intro new st0 _ hi; simpa [declared] using hi
  | step hs hc _ ih =>
    intro new st0 hst hi
    rcases hs with ⟨rfl, rfl, _⟩ | ⟨rfl, rfl, hp⟩
    · simpa using ih new st0 hst hi
    · rename_i q ns _ _
      have hi' : Inv R ((some q, ns) :: new) := by
        refine ⟨?_, ?_⟩
        · rw [List.map_cons, List.nodup_cons]
          refine ⟨?_, hi.1⟩
          intro hm
          obtain ⟨e, he, he1⟩ := List.mem_map.mp hm
          obtain ⟨p', u'⟩ := e
          simp only at he1
          subst he1
          have hf := findPrefix_mem_nodup q u' st0 new hi.1 he
          rw [← hst] at hf
          exact hp u' hf (hi.2 q u' he)
        · intro p u hm
          rcases List.mem_cons.mp hm with hm | hm
          · simp only [Prod.mk.injEq, Option.some.injEq] at hm
            rw [hm.1, hm.2]; exact hc hK
          · exact hi.2 p u hm
      have := ih ((some q, ns) :: new) st0 (by rw [hst]; rfl) hi'
      simpa [declared, declared_append] using this
  | attr _ _ _ _ ih =>
    intro new st0 hst hi
    simpa [declared] using ih new st0 hst hi

end LyModel.XmlTree
