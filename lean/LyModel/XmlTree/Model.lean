import LyModel.Text.XmlText
/-!
# The XML data printer's tree walk (`printer_xml.c`, shrink mode)

`xml_print_data` / `xml_print_node` / `xml_print_inner` / `xml_print_term` / `xml_print_node_open` / `xml_print_ns` /
`xml_print_meta`, on the *view* of a data tree that is handed to them: the nodes `lyd_node_should_print` lets through, each
with the namespace and name of its schema node, its printable metadata (annotation module namespace and prefix, name,
value) and, for terminal nodes, the value string the type plug-in prints.  The namespace stack (`pctx->ns`/`pctx->prefix`)
is explicit; character data goes through `XmlText.dumpText` (the generated escape table).
-/
namespace LyModel.XmlTree
open LyModel

structure MetaA where
  ns : Bytes
  pfx : Bytes
  name : Bytes
  value : Bytes
  deriving Repr, DecidableEq, BEq

inductive XNode where
  | term (ns name : Bytes) (metas : List MetaA) (value : Bytes)
  | inner (ns name : Bytes) (metas : List MetaA) (kids : List XNode)
  deriving Repr

/-- `pctx->prefix` / `pctx->ns`, innermost (last added) first; `none` = default namespace -/
abbrev NsStack := List (Option Bytes × Bytes)

def sXmlns : Bytes := [32, 120, 109, 108, 110, 115]   -- " xmlns"
def sEqQ : Bytes := [61, 34]                           -- "=\""
def sSlashGt : Bytes := [47, 62]                       -- "/>"
def sLtSlash : Bytes := [60, 47]                       -- "</"

/-- the innermost default-namespace entry: the search of `xml_print_ns(…, NULL, 0)` stops at the first entry without prefix -/
def findDefault : NsStack → Option Bytes
  | [] => none
  | (none, ns) :: _ => some ns
  | (some _, _) :: r => findDefault r

/-- the innermost binding of a prefix.  `xml_print_ns(…, prefix, LYXML_PREFIX_REQUIRED)` may reuse an entry `(prefix, ns)` only
    if no entry closer to the top binds the same prefix (since the `fix:` for F48) — i.e. iff this lookup returns `ns`. -/
def findPrefix (p : Bytes) : NsStack → Option Bytes
  | [] => none
  | (some q, ns) :: r => if q = p then some ns else findPrefix p r
  | (none, _) :: r => findPrefix p r

/-- the value of an `xmlns…="…"` attribute is written as an attribute value (since the `fix:` for F62) -/
def nsDecl (pfx : Option Bytes) (ns : Bytes) : Bytes :=
  sXmlns ++ (match pfx with | some p => 58 :: p | none => []) ++ sEqQ ++ XmlText.dumpText true ns ++ [34]

def printDefaultNs (st : NsStack) (ns : Bytes) : Bytes × NsStack :=
  if findDefault st = some ns then ([], st) else (nsDecl none ns, (none, ns) :: st)

def printPrefixNs (st : NsStack) (ns pfx : Bytes) : Bytes × NsStack :=
  if findPrefix pfx st = some ns then ([], st) else (nsDecl (some pfx) ns, (some pfx, ns) :: st)

/-- `xml_print_meta` (annotations; the with-defaults tag is one more annotation of the view) -/
def printMetas : NsStack → List MetaA → Bytes × NsStack
  | st, [] => ([], st)
  | st, m :: ms =>
    let (d, st1) := printPrefixNs st m.ns m.pfx
    let a := d ++ [32] ++ m.pfx ++ [58] ++ m.name ++ sEqQ ++ XmlText.dumpText true m.value ++ [34]
    let (r, st2) := printMetas st1 ms
    (a ++ r, st2)

/-- `xml_print_node_open` -/
def printOpen (st : NsStack) (ns name : Bytes) (metas : List MetaA) : Bytes × NsStack :=
  let (d, st1) := printDefaultNs st ns
  let (m, st2) := printMetas st1 metas
  (60 :: name ++ d ++ m, st2)

mutual
/-- `xml_print_node`: the namespaces a node adds are removed again when it is done, so the result is just the bytes -/
def printNode (st : NsStack) : XNode → Bytes
  | .term ns name metas value =>
    let (o, _) := printOpen st ns name metas
    if value.isEmpty then o ++ sSlashGt else o ++ [62] ++ XmlText.dumpText false value ++ sLtSlash ++ name ++ [62]
  | .inner ns name metas kids =>
    let (o, st') := printOpen st ns name metas
    if kids.isEmpty then o ++ sSlashGt else o ++ [62] ++ printList st' kids ++ sLtSlash ++ name ++ [62]
def printList (st : NsStack) : List XNode → Bytes
  | [] => []
  | n :: r => printNode st n ++ printList st r
end

/-- `xml_print_data` with `LYD_PRINT_WITHSIBLINGS | LYD_PRINT_SHRINK` -/
def printData (forest : List XNode) : Bytes := printList [] forest

end LyModel.XmlTree
