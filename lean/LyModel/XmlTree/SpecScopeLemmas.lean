import LyModel.XmlTree.SpecScope
/-! The scoped reader is the plain reader plus one field: erasing the scopes from its result gives the plain reader's result, for
    EVERY input (well-formed or not) — no printer involved. -/
set_option linter.unusedSimpArgs false
set_option linter.unusedVariables false
namespace LyModel.XmlDoc
open LyModel

theorem parse_erase : ∀ (fuel : Nat),
    (∀ env inp, parseElem env fuel inp = (parseElemS env fuel inp).map fun p => (p.1.erase, p.2)) ∧
    (∀ env inp, parseContent env fuel inp = (parseContentS env fuel inp).map fun p => (p.1, eraseL p.2.1, p.2.2))
  | 0 => by constructor <;> intros <;> simp [parseElem, parseElemS, parseContent, parseContentS]
  | f + 1 => by
    obtain ⟨ihE, ihC⟩ := parse_erase f
    constructor
    · intro env inp
      unfold parseElem parseElemS
      simp only [ihC]
      split
      · rename_i r
        cases h1 : takeQName r with
        | none => simp [h1]
        | some x =>
          obtain ⟨⟨p, n⟩, r1⟩ := x
          simp only [h1]
          cases h2 : parseAttrs (r1.length + 1) r1 with
          | none => simp [h2]
          | some y =>
            obtain ⟨attrs, sc, r2⟩ := y
            simp only [h2]
            by_cases h0 : (!noDupDecls (declsOf attrs)) = true
            · simp [h0]
            · simp only [h0, if_false]
              cases h3 : resolveAttrs (declsOf attrs ++ env) attrs with
              | none => simp [h3]
              | some ras =>
                simp only [h3]
                by_cases h00 : (!noDupAttrs ras) = true
                · simp [h00]
                · simp only [h00, if_false]
                  rcases p with _ | q
                  · simp only []
                    cases sc with
                    | true => simp [XElemS.erase, eraseL]
                    | false =>
                      simp only [Bool.false_eq_true, if_false]
                      cases h4 : parseContentS (declsOf attrs ++ env) f r2 with
                      | none => simp [h4]
                      | some z =>
                        obtain ⟨text, kids, r3⟩ := z
                        simp only [h4, Option.map_some]
                        split
                        · rename_i r4
                          cases h5 : takeQName r4 with
                          | none => simp [h5]
                          | some w =>
                            obtain ⟨⟨p', n'⟩, r5⟩ := w
                            simp only [h5]
                            split
                            · cases h8 : skipSpaces r5 with
                              | nil => simp
                              | cons c t =>
                                by_cases hc : c = 62
                                · subst hc; simp [XElemS.erase]
                                · split <;> split <;> simp_all [XElemS.erase]
                            · simp
                        · simp
                  · cases h6 : lookup (declsOf attrs ++ env) (some q) with
                    | none => simp [h6]
                    | some ns =>
                      simp only [h6]
                      cases sc with
                      | true => simp [XElemS.erase, eraseL]
                      | false =>
                        simp only [Bool.false_eq_true, if_false]
                        cases h4 : parseContentS (declsOf attrs ++ env) f r2 with
                        | none => simp [h4]
                        | some z =>
                          obtain ⟨text, kids, r3⟩ := z
                          simp only [h4, Option.map_some]
                          split
                          · rename_i r4
                            cases h5 : takeQName r4 with
                            | none => simp [h5]
                            | some w =>
                              obtain ⟨⟨p', n'⟩, r5⟩ := w
                              simp only [h5]
                              split
                              · cases h8 : skipSpaces r5 with
                                | nil => simp
                                | cons c t =>
                                  by_cases hc : c = 62
                                  · subst hc; simp [XElemS.erase]
                                  · split <;> split <;> simp_all [XElemS.erase]
                              · simp
                          · simp
      · simp
    · intro env inp
      unfold parseContent parseContentS
      simp only [ihE, ihC]
      split
      · simp [eraseL]
      · split
        · split
          · simp [eraseL]
          · cases h1 : parseElemS env f inp with
            | none => simp
            | some x =>
              obtain ⟨e, r'⟩ := x
              simp only [Option.map_some]
              cases h2 : parseContentS env f r' with
              | none => simp
              | some y => simp [eraseL]
        · cases h1 : readUntil false (inp.length + 1) inp with
          | none => simp
          | some x =>
            obtain ⟨t, r'⟩ := x
            simp only
            split
            · simp
            · cases h2 : parseContentS env f r' with
              | none => simp
              | some y => simp

/-- **erasure**: whatever the scoped reader accepts, the plain reader accepts with the same elements, attributes and character data;
    and it rejects exactly what the plain reader rejects -/
theorem parseDoc_eq_erase (d : Bytes) : parseDoc d = (parseDocS d).map eraseL := by
  unfold parseDoc parseDocS
  rw [(parse_erase (d.length + 2)).2 [] d]
  cases h : parseContentS [] (d.length + 2) d with
  | none => simp
  | some x =>
    obtain ⟨t, ks, r⟩ := x
    cases r with
    | nil =>
      simp only [Option.map_some]
      split <;> simp
    | cons c r => simp

theorem parseDocS_erase (d : Bytes) (es : List XElemS) (h : parseDocS d = some es) : parseDoc d = some (eraseL es) := by
  rw [parseDoc_eq_erase, h]; rfl

end LyModel.XmlDoc
