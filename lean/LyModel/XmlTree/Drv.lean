import LyModel.XmlTree.Model
import LyModel.XmlTree.Spec
/-! driver op of component `xmltree`: `print <rows-hex>` — rows as printed by harness `api_rt` (`view`). -/
namespace LyModel.XmlTree.Drv
open LyModel LyModel.XmlTree

structure Row where
  depth : Nat
  ns : Bytes
  name : Bytes
  isTerm : Bool
  value : Bytes
  metas : List MetaA

def parseMeta (s : String) : Option MetaA :=
  match s.splitOn "," with
  | [n, p, nm, v] => do
    let ns ← Hex.dec n
    let val ← Hex.dec v
    pure { ns := ns, pfx := bytesOfString p, name := bytesOfString nm, value := val }
  | _ => none

def parseRow (line : String) : Option Row :=
  match (line.splitOn " ").filter (· ≠ "") with
  | d :: _mod :: ns :: name :: kind :: _bt :: _dflt :: v :: ms => do
    let depth ← d.toNat?
    let nsb ← Hex.dec ns
    let vb ← Hex.dec v
    let metas ← ms.mapM parseMeta
    if kind == "leaf" || kind == "leaflist" then pure { depth, ns := nsb, name := bytesOfString name, isTerm := true, value := vb, metas }
    else if kind == "cont" || kind == "pcont" || kind == "list" then pure { depth, ns := nsb, name := bytesOfString name, isTerm := false, value := [], metas }
    else none
  | _ => none

/-- rows (pre-order with depths) to a forest -/
def build : (fuel : Nat) → (d : Nat) → List Row → List XNode × List Row
  | 0, _, rs => ([], rs)
  | _, _, [] => ([], [])
  | fuel + 1, d, r :: rs =>
    if r.depth != d then ([], r :: rs)
    else
      if r.isTerm then
        let (sibs, rest) := build fuel d rs
        (XNode.term r.ns r.name r.metas r.value :: sibs, rest)
      else
        let (kids, rest) := build fuel (d + 1) rs
        let (sibs, rest') := build fuel d rest
        (XNode.inner r.ns r.name r.metas kids :: sibs, rest')

mutual
def dumpElem (d : Nat) : XmlDoc.XElem → List String
  | .mk ns name attrs text kids =>
    let a := ",".intercalate (attrs.map fun (n, nm, v) => Hex.enc n ++ ":" ++ Hex.enc nm ++ ":" ++ Hex.enc v)
    (toString d ++ "|" ++ Hex.enc ns ++ "|" ++ Hex.enc name ++ "|" ++ Hex.enc text ++ "|" ++ a) :: dumpElems (d + 1) kids
def dumpElems (d : Nat) : List XmlDoc.XElem → List String
  | [] => []
  | e :: r => dumpElem d e ++ dumpElems d r
end

def handle (op : String) (args : List String) : String :=
  match op, args with
  | "print", [h] =>
    match Hex.dec h with
    | none => "err BadHex"
    | some b =>
      let lines := ((String.fromUTF8? (ByteArray.mk b.toArray)).getD "").splitOn "\n" |>.filter (· ≠ "")
      match lines.mapM parseRow with
      | none => "err Unsupported"
      | some rows =>
        let (forest, rest) := build (2 * rows.length + 2) 0 rows
        if rest.isEmpty then "ok " ++ Hex.enc (printData forest) else "err BadRows"
  | "specparse", [h] =>
    match Hex.dec h with
    | none => "err BadHex"
    | some b =>
      match XmlDoc.parseDoc b with
      | none => "err NotWellFormed"
      | some es => "ok " ++ (if es.isEmpty then "-" else " ".intercalate (dumpElems 0 es))
  | _, _ => "err BadOp"

end LyModel.XmlTree.Drv
