import LyModel.XmlTree.Model
import LyModel.XmlTree.Spec
import LyModel.XmlTree.Opaq
import LyModel.XmlTree.OpaqCheck
import LyModel.XmlTree.DataCheck
import LyModel.XmlTree.SpecScope
/-! driver ops of component `xmltree`: `print <rows-hex>` — rows as printed by harness `api_rt` (`view`);
    `opaqprint <view-hex>` — the opaque-node view of harness op `opaqview`, printed by the v2 model with `Fixes.current`. -/
namespace LyModel.XmlTree.Drv
open LyModel LyModel.XmlTree

structure Row where
  depth : Nat
  ns : Bytes
  name : Bytes
  isTerm : Bool
  value : Bytes
  metas : List MetaA

def parseMeta (s : String) : Option MetaA :=
  match s.splitOn "," with
  | [n, p, nm, v] => do
    let ns ← Hex.dec n
    let val ← Hex.dec v
    pure { ns := ns, pfx := bytesOfString p, name := bytesOfString nm, value := val }
  | _ => none

def parseRow (line : String) : Option Row :=
  match (line.splitOn " ").filter (· ≠ "") with
  | d :: _mod :: ns :: name :: kind :: _bt :: _dflt :: v :: ms => do
    let depth ← d.toNat?
    let nsb ← Hex.dec ns
    let vb ← Hex.dec v
    let metas ← ms.mapM parseMeta
    if kind == "leaf" || kind == "leaflist" then pure { depth, ns := nsb, name := bytesOfString name, isTerm := true, value := vb, metas }
    else if kind == "cont" || kind == "pcont" || kind == "list" then pure { depth, ns := nsb, name := bytesOfString name, isTerm := false, value := [], metas }
    else none
  | _ => none

/-- rows (pre-order with depths) to a forest -/
def build : (fuel : Nat) → (d : Nat) → List Row → List XNode × List Row
  | 0, _, rs => ([], rs)
  | _, _, [] => ([], [])
  | fuel + 1, d, r :: rs =>
    if r.depth != d then ([], r :: rs)
    else
      if r.isTerm then
        let (sibs, rest) := build fuel d rs
        (XNode.term r.ns r.name r.metas r.value :: sibs, rest)
      else
        let (kids, rest) := build fuel (d + 1) rs
        let (sibs, rest') := build fuel d rest
        (XNode.inner r.ns r.name r.metas kids :: sibs, rest')

mutual
def dumpElem (d : Nat) : XmlDoc.XElem → List String
  | .mk ns name attrs text kids =>
    let a := ",".intercalate (attrs.map fun (n, nm, v) => Hex.enc n ++ ":" ++ Hex.enc nm ++ ":" ++ Hex.enc v)
    (toString d ++ "|" ++ Hex.enc ns ++ "|" ++ Hex.enc name ++ "|" ++ Hex.enc text ++ "|" ++ a) :: dumpElems (d + 1) kids
def dumpElems (d : Nat) : List XmlDoc.XElem → List String
  | [] => []
  | e :: r => dumpElem d e ++ dumpElems d r
end

/-! ### the opaque-node view (`ovw_r` in `harness/api_rt.c`) -/

/-- `~` = NULL, otherwise hex (`-` = empty) -/
def decOpt (s : String) : Option (Option Bytes) :=
  if s == "~" then some none else (Hex.dec s).map some

/-- `<k> (<prefix|~> <uri>){k}` and nothing after it -/
def parsePairs : (k : Nat) → List String → Option PfxData
  | 0, [] => some []
  | 0, _ :: _ => none
  | k + 1, p :: u :: r => do
    let pp ← decOpt p
    let uu ← Hex.dec u
    let t ← parsePairs k r
    pure ((pp, uu) :: t)
  | _ + 1, _ => none

structure ORow where
  depth : Nat
  name : Bytes
  pfx : Option Bytes
  ns : Option Bytes
  value : Bytes
  valPfx : PfxData
  attrs : List OAttr

/-- one line of the view; `none` = malformed, `some none` = outside the model's fragment (data node, JSON-format names) -/
def parseOLine (line : String) : Option (Option (Sum ORow OAttr)) :=
  match (line.splitOn " ").filter (· ≠ "") with
  | "N" :: d :: fmt :: name :: pfx :: ns :: v :: k :: rest =>
    if fmt != "x" then some none else do
      let depth ← d.toNat?
      let nm ← Hex.dec name
      let p ← decOpt pfx
      let n ← decOpt ns
      let vb ← Hex.dec v
      let kk ← k.toNat?
      let pd ← parsePairs kk rest
      pure (some (.inl { depth, name := nm, pfx := p, ns := n, value := vb, valPfx := pd, attrs := [] }))
  | "A" :: fmt :: pfx :: ns :: name :: v :: k :: rest =>
    if fmt != "x" then some none else do
      let p ← decOpt pfx
      let n ← decOpt ns
      let nm ← Hex.dec name
      let vb ← Hex.dec v
      let kk ← k.toNat?
      let pd ← parsePairs kk rest
      pure (some (.inr { pfx := p, ns := n, name := nm, value := vb, valPfx := pd }))
  | _ => none

/-- attach the `A` lines to the preceding `N` line -/
def groupRows (l : List (Sum ORow OAttr)) : Option (List ORow) :=
  let step (acc : Option (List ORow)) (x : Sum ORow OAttr) : Option (List ORow) :=
    match acc, x with
    | none, _ => none
    | some rs, .inl r => some (r :: rs)
    | some [], .inr _ => none
    | some (r :: rs), .inr a => some ({ r with attrs := r.attrs ++ [a] } :: rs)
  (l.foldl step (some [])).map List.reverse

def buildO : (fuel : Nat) → (d : Nat) → List ORow → List ONode × List ORow
  | 0, _, rs => ([], rs)
  | _, _, [] => ([], [])
  | fuel + 1, d, r :: rs =>
    if r.depth != d then ([], r :: rs)
    else
      let (kids, rest) := buildO fuel (d + 1) rs
      let (sibs, rest') := buildO fuel d rest
      (ONode.mk r.name r.pfx r.ns r.value r.valPfx r.attrs kids :: sibs, rest')

def opaqForest (b : Bytes) : Except String (List ONode) :=
  let lines := ((String.fromUTF8? (ByteArray.mk b.toArray)).getD "").splitOn "\n" |>.filter (· ≠ "")
  match lines.mapM parseOLine with
  | none => .error "BadRows"
  | some parsed =>
    match parsed.mapM id with
    | none => .error "Unsupported"
    | some rows =>
      match groupRows rows with
      | none => .error "BadRows"
      | some rs =>
        let (forest, rest) := buildO (2 * rs.length + 2) 0 rs
        if rest.isEmpty then .ok forest else .error "BadRows"

/-! ### the view of a data tree under print options (`xvw_r` in `harness/api_rt.c`) -/

/-- `<k> (<prefix> <ns>){k}` and nothing after it -/
def parseMods : (k : Nat) → List String → Option ValMods
  | 0, [] => some []
  | 0, _ :: _ => none
  | k + 1, p :: u :: r => do
    let pp ← Hex.dec p
    let uu ← Hex.dec u
    let t ← parseMods k r
    pure ((pp, uu) :: t)
  | _ + 1, _ => none

inductive URow where
  | t (depth : Nat) (ns name : Bytes) (wd : Option (Bytes × Bytes)) (value : Bytes) (mods : ValMods) (metas : List DMeta)
  | i (depth : Nat) (ns name : Bytes) (metas : List DMeta)
  | o (r : ORow)

def URow.depth : URow → Nat
  | .t d .. => d
  | .i d .. => d
  | .o r => r.depth

inductive ULine where
  | row (r : URow)
  | dmeta (m : DMeta)
  | attr (a : OAttr)

/-- `none` = malformed, `some none` = outside the model's fragment -/
def parseULine (line : String) : Option (Option ULine) :=
  match (line.splitOn " ").filter (· ≠ "") with
  | "T" :: d :: ns :: name :: wdns :: wdp :: v :: k :: rest => do
    let depth ← d.toNat?
    let nsb ← Hex.dec ns
    let nm ← Hex.dec name
    let wn ← decOpt wdns
    let wp ← decOpt wdp
    let vb ← Hex.dec v
    let kk ← k.toNat?
    let mods ← parseMods kk rest
    let wd := match wn, wp with | some u, some p => some (u, p) | _, _ => none
    pure (some (.row (.t depth nsb nm wd vb mods [])))
  | ["I", d, ns, name] => do
    let depth ← d.toNat?
    let nsb ← Hex.dec ns
    let nm ← Hex.dec name
    pure (some (.row (.i depth nsb nm [])))
  | "M" :: ns :: pfx :: name :: v :: k :: rest => do
    let nsb ← Hex.dec ns
    let p ← Hex.dec pfx
    let nm ← Hex.dec name
    let vb ← Hex.dec v
    let kk ← k.toNat?
    let mods ← parseMods kk rest
    pure (some (.dmeta { ns := nsb, pfx := p, name := nm, value := vb, valMods := mods }))
  | "X" :: _ => some none
  | _ =>
    match parseOLine line with
    | none => none
    | some none => some none
    | some (some (.inl r)) => some (some (.row (.o r)))
    | some (some (.inr a)) => some (some (.attr a))

/-- attach `M` / `A` lines to the preceding row -/
def groupU (l : List ULine) : Option (List URow) :=
  let step (acc : Option (List URow)) (x : ULine) : Option (List URow) :=
    match acc, x with
    | none, _ => none
    | some rs, .row r => some (r :: rs)
    | some (.t d ns nm wd v mods ms :: rs), .dmeta m => some (.t d ns nm wd v mods (ms ++ [m]) :: rs)
    | some (.i d ns nm ms :: rs), .dmeta m => some (.i d ns nm (ms ++ [m]) :: rs)
    | some (.o r :: rs), .attr a => some (.o { r with attrs := r.attrs ++ [a] } :: rs)
    | _, _ => none
  (l.foldl step (some [])).map List.reverse

/-- the opaque rows below an opaque row -/
def buildOU : (fuel : Nat) → (d : Nat) → List URow → List ONode × List URow
  | 0, _, rs => ([], rs)
  | _, _, [] => ([], [])
  | fuel + 1, d, .o r :: rs =>
    if r.depth != d then ([], .o r :: rs)
    else
      let (kids, rest) := buildOU fuel (d + 1) rs
      let (sibs, rest') := buildOU fuel d rest
      (ONode.mk r.name r.pfx r.ns r.value r.valPfx r.attrs kids :: sibs, rest')
  | _ + 1, _, rs => ([], rs)

def buildD : (fuel : Nat) → (d : Nat) → List URow → List DNode × List URow
  | 0, _, rs => ([], rs)
  | _, _, [] => ([], [])
  | fuel + 1, d, r :: rs =>
    if r.depth != d then ([], r :: rs)
    else
      match r with
      | .t _ ns nm wd v mods ms =>
        let (sibs, rest) := buildD fuel d rs
        (DNode.term ns nm wd ms v mods :: sibs, rest)
      | .i _ ns nm ms =>
        let (kids, rest) := buildD fuel (d + 1) rs
        let (sibs, rest') := buildD fuel d rest
        (DNode.inner ns nm ms kids :: sibs, rest')
      | .o o =>
        let (kids, rest) := buildOU fuel (d + 1) rs
        let (sibs, rest') := buildD fuel d rest
        (DNode.opaq (ONode.mk o.name o.pfx o.ns o.value o.valPfx o.attrs kids) :: sibs, rest')

def dataForest (b : Bytes) : Except String (List DNode) :=
  let lines := ((String.fromUTF8? (ByteArray.mk b.toArray)).getD "").splitOn "\n" |>.filter (· ≠ "")
  match lines.mapM parseULine with
  | none => .error "BadRows"
  | some parsed =>
    match parsed.mapM id with
    | none => .error "Unsupported"
    | some ls =>
      match groupU ls with
      | none => .error "BadRows"
      | some rs =>
        let (forest, rest) := buildD (2 * rs.length + 2) 0 rs
        if rest.isEmpty then .ok forest else .error "BadRows"

def handle (op : String) (args : List String) : String :=
  match op, args with
  | "print", [h] =>
    match Hex.dec h with
    | none => "err BadHex"
    | some b =>
      let lines := ((String.fromUTF8? (ByteArray.mk b.toArray)).getD "").splitOn "\n" |>.filter (· ≠ "")
      match lines.mapM parseRow with
      | none => "err Unsupported"
      | some rows =>
        let (forest, rest) := build (2 * rows.length + 2) 0 rows
        if rest.isEmpty then "ok " ++ Hex.enc (printData forest) else "err BadRows"
  | "opaqprint", [h] =>
    match Hex.dec h with
    | none => "err BadHex"
    | some b =>
      match opaqForest b with
      | .error e => "err " ++ e
      | .ok forest => "ok " ++ Hex.enc (printOpaqData Fixes.current forest)
  | "opaqcheck", [h, hp] =>
    -- the hypothesis of `opaque_document_faithful` evaluated on the view; the model's output against libyang's bytes; the
    -- independent reader applied to LIBYANG's bytes against what the theorem says it reports (`oviewList`)
    match Hex.dec h, Hex.dec hp with
    | some b, some px =>
      match opaqForest b with
      | .error e => "err " ++ e
      | .ok forest =>
        let why := (olistWhy false forest).eraseDups
        let same := printOpaqData Fixes.current forest == px
        let read := match XmlDoc.parseDoc px with
          | none => "x"
          | some es => if dumpElems 0 es == dumpElems 0 (oviewList forest) then "1" else "0"
        -- <opaqOk> <why> <print = libyang> <reader(libyang) = oviewList> <opaqOkAnyNs> <the source has the repair of F300>
        "ok " ++ (if opaqOk forest then "1" else "0") ++ " " ++ (if why.isEmpty then "-" else ",".intercalate why) ++ " " ++
          (if same then "1" else "0") ++ " " ++ read ++ " " ++ (if opaqOkAnyNs forest then "1" else "0") ++ " " ++
          (if Fixes.current.undeclare then "1" else "0")
    | _, _ => "err BadHex"
  | "dprint", [h] =>
    match Hex.dec h with
    | none => "err BadHex"
    | some b =>
      match dataForest b with
      | .error e => "err " ++ e
      | .ok forest => "ok " ++ Hex.enc (printDData Fixes.current forest)
  | "dcheck", [h, hp] =>
    -- the hypothesis of `xml_document_faithful_meta` evaluated on the view (variant of the source); the model's output against
    -- libyang's bytes; the independent reader applied to LIBYANG's bytes against what the theorem says it reports (`dviewList`)
    match Hex.dec h, Hex.dec hp with
    | some b, some px =>
      match dataForest b with
      | .error e => "err " ++ e
      | .ok forest =>
        let why := (dlistWhy Fixes.current [] forest).eraseDups
        let same := printDData Fixes.current forest == px
        let read := match XmlDoc.parseDoc px with
          | none => "x"
          | some es => if dumpElems 0 es == dumpElems 0 (dviewList forest) then "1" else "0"
        "ok " ++ (if dataOk Fixes.current forest then "1" else "0") ++ " " ++ (if why.isEmpty then "-" else ",".intercalate why) ++ " " ++
          (if same then "1" else "0") ++ " " ++ read
    | _, _ => "err BadHex"
  | "specparse", [h] =>
    match Hex.dec h with
    | none => "err BadHex"
    | some b =>
      -- the scoped reader (`SpecScope.lean`) must agree with the plain one on every document, well-formed or not
      match XmlDoc.parseDoc b, XmlDoc.parseDocS b with
      | none, none => "err NotWellFormed"
      | some es, some ss =>
        if dumpElems 0 es == dumpElems 0 (XmlDoc.eraseL ss) then "ok " ++ (if es.isEmpty then "-" else " ".intercalate (dumpElems 0 es))
        else "err ScopedReaderDiffers"
      | _, _ => "err ScopedReaderDiffers"
  | _, _ => "err BadOp"

end LyModel.XmlTree.Drv
