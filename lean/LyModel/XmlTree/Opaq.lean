import LyModel.XmlTree.Ns2
/-!
# Opaque nodes in the XML tree printer (`xml_print_opaq_open`, `xml_print_attr`, `xml_print_ns_prefix_data`, `xml_print_opaq`)

The *view* of an opaque node in `LY_VALUE_XML` format as the printer reads it: `name.name`, `name.prefix`, `name.module_ns`
(`none` = NULL), `value`, the value prefix data (a set of `lyxml_ns`: prefix or `none` for the default namespace, uri), the
attributes (`lyd_attr`: the same fields) and the children.  Shrink mode (no indentation, no line ends).
-/
namespace LyModel.XmlTree
open LyModel

/-- `struct lyxml_ns` entries of a `val_prefix_data` set (`LY_VALUE_XML`); `[]` also stands for a NULL set -/
abbrev PfxData := List (Option Bytes × Bytes)

structure OAttr where
  pfx : Option Bytes        -- name.prefix
  ns : Option Bytes         -- name.module_ns
  name : Bytes
  value : Bytes
  valPfx : PfxData
  deriving Repr, DecidableEq

inductive ONode where
  | mk (name : Bytes) (pfx ns : Option Bytes) (value : Bytes) (valPfx : PfxData) (attrs : List OAttr) (kids : List ONode)
  deriving Repr

/-- the prefixed pairs of one prefix-data set (entries without prefix are "not for the element") -/
def pairsOf : PfxData → Reserved
  | [] => []
  | (some p, u) :: r => (p, u) :: pairsOf r
  | (none, _) :: r => pairsOf r

/-- what `xml_prefix_is_reserved` walks over: the value prefix data of the node, then of each attribute -/
def reservedOf (valPfx : PfxData) (attrs : List OAttr) : Reserved :=
  pairsOf valPfx ++ attrs.flatMap fun a => pairsOf a.valPfx

/-- `xml_print_ns_prefix_data(…, LYXML_PREFIX_REQUIRED)` -/
def prefixData (fx : Fixes) (R : Reserved) : NsStack → PfxData → List Item × NsStack
  | st, [] => ([], st)
  | st, (none, _) :: r => prefixData fx R st r
  | st, (some p, u) :: r =>
    let r1 := nsPrefixed fx R st u p true
    let r2 := prefixData fx R r1.2.2 r
    (r1.2.1 ++ r2.1, r2.2)

/-- the name of one attribute: `if (attr->name.prefix) pref = xml_print_ns_opaq(pctx, attr->format, &attr->name, 0)`, which
    returns NULL when there is no module_ns -/
def attrName (fx : Fixes) (R : Reserved) (st : NsStack) (a : OAttr) : Option Bytes × List Item × NsStack :=
  match a.pfx, a.ns with
  | some p, some u => let r := nsPrefixed fx R st u p false; (some r.1, r.2.1, r.2.2)
  | _, _ => (none, [], st)

/-- `xml_print_attr` -/
def attrItems (fx : Fixes) (R : Reserved) : NsStack → List OAttr → List Item × NsStack
  | st, [] => ([], st)
  | st, a :: as =>
    let r1 := attrName fx R st a
    let r2 := prefixData fx R r1.2.2 a.valPfx
    let r3 := attrItems fx R r2.2 as
    (r1.2.1 ++ r2.1 ++ Item.attr r1.1 a.name a.value :: r3.1, r3.2)

/-- `xml_default_ns_in_scope(pctx)` (F300): the innermost default-namespace entry is not the empty string -/
def defaultInScope (st : NsStack) : Bool :=
  match findDefault st with
  | some u => !u.isEmpty
  | none => false

/-- the default namespace of the element: `if (node->name.prefix || node->name.module_ns) xml_print_ns_opaq(…,
    LYXML_PREFIX_DEFAULT)`; without module_ns nothing — or, since the repair of F300, `else if (… xml_default_ns_in_scope(pctx))
    xml_print_ns(pctx, "", NULL, 0)` -/
def nodeDefault (fx : Fixes) (st : NsStack) : Option Bytes → List Item × NsStack
  | some u => nsDefault st u
  | none => if fx.undeclare && defaultInScope st then nsDefault st [] else ([], st)

/-- `xml_print_opaq_open` after `<name`: the default namespace of the element, then the attributes -/
def openItems (fx : Fixes) (st : NsStack) (ns : Option Bytes) (valPfx : PfxData) (attrs : List OAttr) : List Item × NsStack :=
  let r0 := nodeDefault fx st ns
  let r1 := attrItems fx (reservedOf valPfx attrs) r0.2 attrs
  (r0.1 ++ r1.1, r1.2)

/-- everything between `<name` and the end of the start tag: `xml_print_opaq_open`, then (in `xml_print_opaq`, with
    `pctx->opaq == NULL` again) the prefixes of a non-empty value -/
def startTagItems (fx : Fixes) (st : NsStack) (ns : Option Bytes) (value : Bytes) (valPfx : PfxData) (attrs : List OAttr) :
    List Item × NsStack :=
  let r1 := openItems fx st ns valPfx attrs
  if value.isEmpty then r1
  else
    let r2 := prefixData fx [] r1.2 valPfx
    (r1.1 ++ r2.1, r2.2)

mutual
/-- `xml_print_opaq` inside `xml_print_node` (the namespaces the node added are removed when it is done) -/
def printONode (fx : Fixes) (st : NsStack) : ONode → Bytes
  | .mk name _ ns value valPfx attrs kids =>
    let tag := startTagItems fx st ns value valPfx attrs
    let st' := tag.2
    let o := 60 :: name ++ renderItems tag.1
    let txt := if value.isEmpty then [] else XmlText.dumpText false value
    if !kids.isEmpty then o ++ [62] ++ txt ++ printOList fx st' kids ++ sLtSlash ++ name ++ [62]
    else if !value.isEmpty then o ++ [62] ++ txt ++ sLtSlash ++ name ++ [62]
    else o ++ sSlashGt
def printOList (fx : Fixes) (st : NsStack) : List ONode → Bytes
  | [] => []
  | n :: r => printONode fx st n ++ printOList fx st r
end

/-- `xml_print_data` with `LYD_PRINT_WITHSIBLINGS | LYD_PRINT_SHRINK` on a forest of opaque nodes -/
def printOpaqData (fx : Fixes) (forest : List ONode) : Bytes := printOList fx [] forest

end LyModel.XmlTree
