import LyModel.XmlTree.Ns2
/-!
# Opaque nodes in the XML tree printer (`xml_print_opaq_open`, `xml_print_attr`, `xml_print_ns_prefix_data`, `xml_print_opaq`)

The *view* of an opaque node in `LY_VALUE_XML` format as the printer reads it: `name.name`, `name.prefix`, `name.module_ns`
(`none` = NULL), `value`, the value prefix data (a set of `lyxml_ns`: prefix or `none` for the default namespace, uri), the
attributes (`lyd_attr`: the same fields) and the children.  Shrink mode (no indentation, no line ends).
-/
namespace LyModel.XmlTree
open LyModel

/-- `struct lyxml_ns` entries of a `val_prefix_data` set (`LY_VALUE_XML`); `[]` also stands for a NULL set -/
abbrev PfxData := List (Option Bytes × Bytes)

structure OAttr where
  pfx : Option Bytes        -- name.prefix
  ns : Option Bytes         -- name.module_ns
  name : Bytes
  value : Bytes
  valPfx : PfxData
  deriving Repr, DecidableEq

inductive ONode where
  | mk (name : Bytes) (pfx ns : Option Bytes) (value : Bytes) (valPfx : PfxData) (attrs : List OAttr) (kids : List ONode)
  deriving Repr

/-- the prefixed pairs of one prefix-data set (entries without prefix are "not for the element") -/
def pairsOf : PfxData → Reserved
  | [] => []
  | (some p, u) :: r => (p, u) :: pairsOf r
  | (none, _) :: r => pairsOf r

/-- what `xml_prefix_is_reserved` walks over: the value prefix data of the node, then of each attribute -/
def reservedOf (valPfx : PfxData) (attrs : List OAttr) : Reserved :=
  pairsOf valPfx ++ attrs.flatMap fun a => pairsOf a.valPfx

/-- `xml_print_ns_prefix_data(…, LYXML_PREFIX_REQUIRED)` -/
def prefixData (fx : Fixes) (R : Reserved) : NsStack → PfxData → List Item × NsStack
  | st, [] => ([], st)
  | st, (none, _) :: r => prefixData fx R st r
  | st, (some p, u) :: r =>
    let (_, i1, st1) := nsPrefixed fx R st u p true
    let (i2, st2) := prefixData fx R st1 r
    (i1 ++ i2, st2)

/-- `xml_print_attr` -/
def attrItems (fx : Fixes) (R : Reserved) : NsStack → List OAttr → List Item × NsStack
  | st, [] => ([], st)
  | st, a :: as =>
    -- `if (attr->name.prefix) pref = xml_print_ns_opaq(pctx, attr->format, &attr->name, 0)` (NULL when there is no module_ns)
    let (pref, i1, st1) : Option Bytes × List Item × NsStack :=
      match a.pfx, a.ns with
      | some p, some u => let (q, i, s) := nsPrefixed fx R st u p false; (some q, i, s)
      | _, _ => (none, [], st)
    let (i2, st2) := prefixData fx R st1 a.valPfx
    let (i3, st3) := attrItems fx R st2 as
    (i1 ++ i2 ++ Item.attr pref a.name a.value :: i3, st3)

/-- `xml_print_opaq_open` after `<name`: the default namespace of the element, then the attributes -/
def openItems (fx : Fixes) (st : NsStack) (ns : Option Bytes) (valPfx : PfxData) (attrs : List OAttr) : List Item × NsStack :=
  let R := reservedOf valPfx attrs
  -- `if (node->name.prefix || node->name.module_ns) xml_print_ns_opaq(…, LYXML_PREFIX_DEFAULT)`: nothing without module_ns
  let (i0, st0) : List Item × NsStack := match ns with | some u => nsDefault st u | none => ([], st)
  let (i1, st1) := attrItems fx R st0 attrs
  (i0 ++ i1, st1)

/-- everything between `<name` and the end of the start tag: `xml_print_opaq_open`, then (in `xml_print_opaq`, with
    `pctx->opaq == NULL` again) the prefixes of a non-empty value -/
def startTagItems (fx : Fixes) (st : NsStack) (ns : Option Bytes) (value : Bytes) (valPfx : PfxData) (attrs : List OAttr) :
    List Item × NsStack :=
  let (i1, st1) := openItems fx st ns valPfx attrs
  if value.isEmpty then (i1, st1)
  else
    let (i2, st2) := prefixData fx [] st1 valPfx
    (i1 ++ i2, st2)

mutual
/-- `xml_print_opaq` inside `xml_print_node` (the namespaces the node added are removed when it is done) -/
def printONode (fx : Fixes) (st : NsStack) : ONode → Bytes
  | .mk name _ ns value valPfx attrs kids =>
    let (items, st') := startTagItems fx st ns value valPfx attrs
    let o := 60 :: name ++ renderItems items
    let txt := if value.isEmpty then [] else XmlText.dumpText false value
    if !kids.isEmpty then o ++ [62] ++ txt ++ printOList fx st' kids ++ sLtSlash ++ name ++ [62]
    else if !value.isEmpty then o ++ [62] ++ txt ++ sLtSlash ++ name ++ [62]
    else o ++ sSlashGt
def printOList (fx : Fixes) (st : NsStack) : List ONode → Bytes
  | [] => []
  | n :: r => printONode fx st n ++ printOList fx st r
end

/-- `xml_print_data` with `LYD_PRINT_WITHSIBLINGS | LYD_PRINT_SHRINK` on a forest of opaque nodes -/
def printOpaqData (fx : Fixes) (forest : List ONode) : Bytes := printOList fx [] forest

end LyModel.XmlTree
