import LyModel.XmlTree.OpaqOk
import LyModel.XmlTree.OpaqCheck
import LyModel.XmlTree.Roundtrip
/-! The independent document reader applied to what the model prints for a forest of opaque nodes (lemmas; the property theorem
    `opaq_document_faithful` is restated in `Props/C12.lean`). -/
set_option linter.unusedSimpArgs false
set_option linter.unusedVariables false
namespace LyModel.XmlTree
open LyModel LyModel.XmlDoc LyModel.XmlText

mutual
/-- well-formedness of the view of an opaque forest (`inDflt`: an ancestor has a namespace, i.e. a default namespace is in
    scope; `strict`: elements in no namespace are restricted): names are XML names; if `strict`, an element without namespace
    has no ancestor with one; attributes are `AttrOk` and pairwise
    different by (namespace, name); value prefix data are consistent and use XML names other than `xmlns` as prefixes; no
    forbidden control characters in values and namespace strings -/
def ONodeOk (strict inDflt : Bool) : ONode → Prop
  | .mk name _ ns value valPfx attrs kids =>
    NameOk name ∧ (ns = none → strict = true → inDflt = false) ∧ (∀ u ∈ ns, NoCtl u) ∧ NoCtl value ∧ PfxDataOk valPfx ∧ (∀ a ∈ attrs, AttrOk a) ∧
      noDupAttrs (attrs.map viewAttr) = true ∧ consistent (reservedOf valPfx attrs) = true ∧ OListOk strict (inDflt || ns.isSome) kids
def OListOk (strict inDflt : Bool) : List ONode → Prop
  | [] => True
  | n :: r => ONodeOk strict inDflt n ∧ OListOk strict inDflt r
end

theorem resolveAttrs_items (env stEnd : NsStack) (heq : EnvEq env stEnd) : ∀ (items : List Item) (attrs : List OAttr),
    (∀ i ∈ items, ItemOk i) → AttrsResolve stEnd attrs (attrsOf items) → (∀ a ∈ attrs, a.pfx.isSome = a.ns.isSome) →
    resolveAttrs env (items.map Item.toRaw) = some (attrs.map viewAttr)
  | [], attrs, _, hres, _ => by
    cases attrs with
    | nil => rfl
    | cons a as => simp [attrsOf, AttrsResolve] at hres
  | .decl p u :: is, attrs, hok, hres, hiso => by
    have ih := resolveAttrs_items env stEnd heq is attrs (fun j hj => hok j (by simp [hj])) (by simpa [attrsOf] using hres) hiso
    cases p <;> simpa [resolveAttrs, Item.toRaw, isDecl, xmlnsB] using ih
  | .attr q n v :: is, attrs, hok, hres, hiso => by
    cases attrs with
    | nil => simp [attrsOf, AttrsResolve] at hres
    | cons a as =>
      simp only [attrsOf, AttrsResolve] at hres
      obtain ⟨hn, hv, hm, hrest⟩ := hres
      have ih := resolveAttrs_items env stEnd heq is as (fun j hj => hok j (by simp [hj])) hrest (fun b hb => hiso b (by simp [hb]))
      have hi := hok (.attr q n v) (by simp)
      have hisoa := hiso a (by simp)
      subst hn; subst hv
      cases hp : a.pfx with
      | none =>
        have hu : a.ns = none := by rw [hp] at hisoa; cases h : a.ns <;> simp [h] at hisoa ⊢
        rw [hp, hu] at hm
        simp only at hm
        subst hm
        have hne : (a.name == xmlnsB) = false := by simpa using hi.2.1
        simp [resolveAttrs, Item.toRaw, isDecl, hne, ih, viewAttr, hu]
      | some p =>
        cases hu : a.ns with
        | none => rw [hp, hu] at hisoa; simp at hisoa
        | some u =>
          rw [hp, hu] at hm
          simp only at hm
          obtain ⟨q', rfl, hl⟩ := hm
          have hne : (q' == xmlnsB) = false := by simpa using hi.1.2
          have hl' : lookup env (some q') = some u := by rw [heq]; exact hl
          simp [resolveAttrs, Item.toRaw, isDecl, hne, ih, viewAttr, hu, hl']

theorem Run.findDefault {R : Reserved} {K : Prop} {st st' : NsStack} {items : List Item} (h : Run R K st items st') :
    findDefault st' = findDefault st := by
  induction h with
  | nil _ => rfl
  | step hs _ _ ih =>
    rcases hs with ⟨_, rfl, _⟩ | ⟨_, rfl, _⟩
    · exact ih
    · rw [ih]; rfl
  | attr _ _ _ _ ih => exact ih

theorem nodeDefault_cases' (fx : Fixes) (st : NsStack) (ns : Option Bytes) :
    (nodeDefault fx st ns = ([], st) ∧ (ns = none ∨ findDefault st = ns)) ∨
      ∃ u, (ns = some u ∨ (ns = none ∧ u = [])) ∧ nodeDefault fx st ns = ([Item.decl none u], (none, u) :: st) := by
  cases ns with
  | none =>
    rw [nodeDefault_none]
    split
    · rcases nsDefault_cases st [] with h | h
      · exact Or.inl ⟨h.1, Or.inl rfl⟩
      · exact Or.inr ⟨[], Or.inr ⟨rfl, rfl⟩, h.1⟩
    · exact Or.inl ⟨rfl, Or.inl rfl⟩
  | some u =>
    rcases nsDefault_cases st u with h | h
    · exact Or.inl ⟨h.1, Or.inr h.2⟩
    · exact Or.inr ⟨u, Or.inl rfl, h.1⟩

/-- the default namespace the content of the element sees: the namespace of the element; for an element in no namespace the
    inherited one, or (repair of F300) none at all -/
theorem startTag_findDefault (fx : Fixes) (hn : fx.numbered = true) (hr : fx.reserved = true) (st : NsStack) (ns : Option Bytes)
    (value : Bytes) (valPfx : PfxData) (attrs : List OAttr) :
    findDefault (startTagItems fx st ns value valPfx attrs).2 = match ns with
      | some u => some u
      | none => if fx.undeclare && defaultInScope st then some [] else findDefault st := by
  rw [startTagItems_eq]
  simp only
  rw [(tagRest_run fx hn hr _ value valPfx attrs).findDefault]
  cases ns with
  | none =>
    rw [nodeDefault_none]
    simp only
    split
    · rename_i hc
      rcases nsDefault_cases st [] with h | h
      · rw [h.1]; exact h.2
      · rw [h.1]; rfl
    · rfl
  | some u =>
    simp only [nodeDefault]
    rcases nsDefault_cases st u with h | h
    · rw [h.1]; exact h.2
    · rw [h.1]; rfl

theorem startTag_ok (fx : Fixes) (st : NsStack) (ns : Option Bytes) (value : Bytes) (valPfx : PfxData) (attrs : List OAttr)
    (hst : StackOk st) (hns : ∀ u ∈ ns, NoCtl u) (hpd : PfxDataOk valPfx) (hat : ∀ a ∈ attrs, AttrOk a) :
    (∀ i ∈ (startTagItems fx st ns value valPfx attrs).1, ItemOk i) ∧ StackOk (startTagItems fx st ns value valPfx attrs).2 := by
  rw [startTagItems_eq]
  have h0 : (∀ i ∈ (nodeDefault fx st ns).1, ItemOk i) ∧ StackOk (nodeDefault fx st ns).2 := by
    rcases nodeDefault_cases' fx st ns with ⟨h, _⟩ | ⟨u, hu, h⟩
    · rw [h]; exact ⟨by simp, hst⟩
    · rw [h]
      refine ⟨?_, ?_⟩
      · intro i hi
        simp only [List.mem_singleton] at hi
        subst hi
        rcases hu with rfl | ⟨_, rfl⟩
        · exact hns u rfl
        · intro b hb; cases hb
      · intro q u' hm
        rcases List.mem_cons.mp hm with hm | hm
        · simp at hm
        · exact hst q u' hm
  have h1 := attrItems_ok fx (reservedOf valPfx attrs) attrs _ h0.2 hat
  have hrest : (∀ i ∈ (tagRest fx (nodeDefault fx st ns).2 value valPfx attrs).1, ItemOk i) ∧
      StackOk (tagRest fx (nodeDefault fx st ns).2 value valPfx attrs).2 := by
    unfold tagRest
    split
    · exact h1
    · have h2 := prefixData_ok fx [] valPfx _ h1.2 hpd
      refine ⟨?_, h2.2⟩
      intro i hi
      rcases List.mem_append.mp hi with hi | hi
      · exact h1.1 i hi
      · exact h2.1 i hi
  refine ⟨?_, hrest.2⟩
  intro i hi
  rcases List.mem_append.mp hi with hi | hi
  · exact h0.1 i hi
  · exact hrest.1 i hi

theorem renderItems_head (items : List Item) (tailc : Bytes) (r : Bytes) (htail : tailc = 62 :: r ∨ tailc = 47 :: 62 :: r) :
    ∀ b t, renderItems items ++ tailc = b :: t → isNameByte b = false ∧ b ≠ 58 := by
  intro b t e
  cases items with
  | nil =>
    rcases htail with rfl | rfl <;> (simp [renderItems] at e; rw [← e.1]; decide)
  | cons i is =>
    rw [renderItems, Item.render_eq] at e
    simp at e
    rw [← e.1]; decide

theorem renderItems_length (items : List Item) : items.length ≤ (renderItems items).length := by
  induction items with
  | nil => simp [renderItems]
  | cons i is ih =>
    rw [renderItems, Item.render_eq]
    simp only [List.length_cons, List.length_append]
    omega

/-- `parseElem` on `<name` + an attribute list the reader takes apart, in general -/
theorem parseElem_gen (env : NsStack) (name r1 : Bytes) (hname : NameOk name) (attrs : List RawAttr) (sc : Bool) (r2 : Bytes)
    (ras : List (Bytes × Bytes × Bytes)) (fuel : Nat)
    (hq : takeQName (name ++ r1) = some ((none, name), r1))
    (hpa : parseAttrs (r1.length + 1) r1 = some (attrs, sc, r2))
    (hnd : noDupDecls (declsOf attrs) = true)
    (hres : resolveAttrs (declsOf attrs ++ env) attrs = some ras)
    (hda : noDupAttrs ras = true) :
    (sc = true → parseElem env (fuel + 1) (60 :: (name ++ r1)) =
        some (XElem.mk ((lookup (declsOf attrs ++ env) none).getD []) name ras [] [], r2)) ∧
    (sc = false → ∀ (text : Bytes) (kids : List XElem) (rest : Bytes),
        parseContent (declsOf attrs ++ env) fuel r2 = some (text, kids, 60 :: 47 :: (name ++ 62 :: rest)) →
        parseElem env (fuel + 1) (60 :: (name ++ r1)) =
          some (XElem.mk ((lookup (declsOf attrs ++ env) none).getD []) name ras text kids, rest)) := by
  refine ⟨?_, ?_⟩
  · intro hsc; subst hsc
    simp [parseElem, hq, hpa, hnd, hres, hda]
  · intro hsc text kids rest hc; subst hsc
    have hqe : takeQName (name ++ 62 :: rest) = some ((none, name), 62 :: rest) :=
      takeQName_plain name _ hname (by intro b t' e; simp at e; rw [← e.1]; decide)
    simp [parseElem, hq, hpa, hnd, hres, hda, hc, hqe, skipSpaces, isSpace]

end LyModel.XmlTree
