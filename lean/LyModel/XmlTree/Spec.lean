import LyModel.Text.Spec
/-!
# An independent reader for XML 1.0 documents with namespaces (the fragment data documents use)

Written from XML 1.0 (productions [39]–[44] elements, [41] attributes, [10] AttValue, [14] CharData, [66]–[68] references,
§2.11, §3.3.3) and Namespaces in XML 1.0 (§3 declaring, §5 scoping, §6.2 defaulting: the default namespace applies to element
names only, unprefixed attributes are in no namespace; a prefix must be declared; no attribute may occur twice).  Not
supported (→ `none`): comments, PIs, CDATA sections, DTDs, single-quoted attribute values — libyang's data printer emits none.
Shares no code with libyang's XML parser model or with the printer model.
-/
namespace LyModel.XmlDoc
open LyModel

/-- NameChar restricted to what is decidable on bytes: ASCII letters, digits, `_ - .` and every byte ≥ 0x80 -/
def isNameByte (b : UInt8) : Bool :=
  (65 ≤ b && b ≤ 90) || (97 ≤ b && b ≤ 122) || (48 ≤ b && b ≤ 57) || b == 95 || b == 45 || b == 46 || 128 ≤ b

def takeName : Bytes → Bytes × Bytes
  | [] => ([], [])
  | b :: r => if isNameByte b then let (n, t) := takeName r; (b :: n, t) else ([], b :: r)

/-- QName: optional prefix and local part -/
def takeQName (inp : Bytes) : Option ((Option Bytes × Bytes) × Bytes) :=
  let (a, r) := takeName inp
  if a.isEmpty then none else
  if r.head? = some 58 then
    let (b, r'') := takeName r.tail
    if b.isEmpty then none else some ((some a, b), r'')
  else some ((none, a), r)

def isSpace (b : UInt8) : Bool := b == 32 || b == 9 || b == 10 || b == 13

def skipSpaces : Bytes → Bytes
  | [] => []
  | b :: r => if isSpace b then skipSpaces r else b :: r

/-- literal text up to (not including) the terminator: `<` in content, `"` in a double-quoted attribute value; references
    resolved, line ends and attribute white space normalised — the rules of `XmlSpec.read` -/
def readUntil (attr : Bool) : (fuel : Nat) → Bytes → Option (Bytes × Bytes)
  | 0, _ => none
  | _, [] => if attr then none else some ([], [])
  | fuel + 1, c :: cs =>
    if c == 60 then (if attr then none else some ([], c :: cs))
    else if attr && c == 34 then some ([], c :: cs)
    else if c < 32 && c != 9 && c != 10 && c != 13 then none
    else if c == 38 then
      match XmlSpec.reference cs with
      | some (ch, r) => (readUntil attr fuel r).map fun (v, t) => (ch ++ v, t)
      | none => none
    else if c == 13 then
      let r := match cs with | 10 :: r => r | _ => cs
      (readUntil attr fuel r).map fun (v, t) => ((if attr then 32 else 10) :: v, t)
    else if attr && (c == 9 || c == 10) then (readUntil attr fuel cs).map fun (v, t) => (32 :: v, t)
    else if !attr && c == 93 && (XmlSpec.stripPrefix [93, 62] cs).isSome then none
    else (readUntil attr fuel cs).map fun (v, t) => (c :: v, t)

structure RawAttr where
  pfx : Option Bytes
  name : Bytes
  value : Bytes
  deriving Repr, DecidableEq

/-- attributes up to `>` or `/>`; returns the attributes, whether the tag is self-closing, and the rest after the tag end -/
def parseAttrs : (fuel : Nat) → Bytes → Option (List RawAttr × Bool × Bytes)
  | 0, _ => none
  | fuel + 1, inp =>
    let inp' := skipSpaces inp
    if inp'.head? = some 62 then some ([], false, inp'.tail)
    else if inp'.head? = some 47 ∧ inp'.tail.head? = some 62 then some ([], true, inp'.tail.tail)
    else if inp'.length = inp.length then none       -- attributes must be separated from what precedes by white space
    else
      match takeQName inp' with
      | none => none
      | some ((p, n), r) =>
        let r1 := skipSpaces r
        if r1.head? ≠ some 61 then none else
        let r2 := skipSpaces r1.tail
        if r2.head? ≠ some 34 then none else
        match readUntil true (r2.tail.length + 1) r2.tail with
        | none => none
        | some (v, r3) =>
          if r3.head? ≠ some 34 then none else
          (parseAttrs fuel r3.tail).map fun (as, sc, t) => ({ pfx := p, name := n, value := v } :: as, sc, t)

/-- in-scope namespace bindings, innermost first; prefix `none` = default namespace -/
abbrev Env := List (Option Bytes × Bytes)

def xmlnsB : Bytes := [120, 109, 108, 110, 115]

def lookup (env : Env) (p : Option Bytes) : Option Bytes :=
  (env.find? (fun e => e.1 == p)).map (·.2)

/-- the namespace declarations among the attributes of one element, pushed onto the environment -/
def declsOf : List RawAttr → Env
  | [] => []
  | a :: r =>
    if a.pfx == some xmlnsB then (some a.name, a.value) :: declsOf r
    else if a.pfx == none && a.name == xmlnsB then (none, a.value) :: declsOf r
    else declsOf r

def isDecl (a : RawAttr) : Bool := a.pfx == some xmlnsB || (a.pfx == none && a.name == xmlnsB)

/-- expanded names of the ordinary attributes; `none` if a prefix is undeclared -/
def resolveAttrs (env : Env) : List RawAttr → Option (List (Bytes × Bytes × Bytes))
  | [] => some []
  | a :: r =>
    if isDecl a then resolveAttrs env r
    else
      match a.pfx with
      | none => (resolveAttrs env r).map fun t => (([] : Bytes), a.name, a.value) :: t
      | some p =>
        match lookup env (some p) with
        | none => none
        | some ns => (resolveAttrs env r).map fun t => (ns, a.name, a.value) :: t

def noDupDecls : Env → Bool
  | [] => true
  | e :: r => !(r.any fun x => x.1 == e.1) && noDupDecls r

def noDupAttrs : List (Bytes × Bytes × Bytes) → Bool
  | [] => true
  | a :: r => !(r.any fun x => x.1 == a.1 && x.2.1 == a.2.1) && noDupAttrs r

/-- what a namespace-aware parser reports for an element -/
inductive XElem where
  | mk (ns name : Bytes) (attrs : List (Bytes × Bytes × Bytes)) (text : Bytes) (kids : List XElem)
  deriving Repr

mutual
/-- element starting at `<`: [39] element ::= EmptyElemTag | STag content ETag -/
def parseElem (env : Env) : (fuel : Nat) → Bytes → Option (XElem × Bytes)
  | 0, _ => none
  | fuel + 1, inp =>
    match inp with
    | 60 :: r =>
      match takeQName r with
      | none => none
      | some ((p, n), r1) =>
        match parseAttrs (r1.length + 1) r1 with
        | none => none
        | some (attrs, selfClosing, r2) =>
          let decls := declsOf attrs
          if !noDupDecls decls then none else
          let env' := decls ++ env
          match resolveAttrs env' attrs with
          | none => none
          | some ras =>
            if !noDupAttrs ras then none else
            let nsOpt : Option Bytes := match p with
              | none => some ((lookup env' none).getD [])
              | some q => lookup env' (some q)
            match nsOpt with
            | none => none
            | some ns =>
              if selfClosing then some (XElem.mk ns n ras [] [], r2)
              else
                match parseContent env' fuel r2 with
                | none => none
                | some (text, kids, r3) =>
                  -- ETag: "</" Name S? ">" and the name must match
                  match r3 with
                  | 60 :: 47 :: r4 =>
                    match takeQName r4 with
                    | some ((p', n'), r5) =>
                      if p' == p && n' == n then
                        match skipSpaces r5 with
                        | 62 :: r6 => some (XElem.mk ns n ras text kids, r6)
                        | _ => none
                      else none
                    | none => none
                  | _ => none
    | _ => none
/-- [43] content: character data and child elements up to the end tag (or the end of input at top level) -/
def parseContent (env : Env) : (fuel : Nat) → Bytes → Option (Bytes × List XElem × Bytes)
  | 0, _ => none
  | fuel + 1, inp =>
    if inp.isEmpty then some ([], [], [])
    else if inp.head? = some 60 then
      if inp.tail.head? = some 47 then some ([], [], inp)
      else
        match parseElem env fuel inp with
        | none => none
        | some (e, r') => (parseContent env fuel r').map fun (t, ks, rest) => (t, e :: ks, rest)
    else
      match readUntil false (inp.length + 1) inp with
      | none => none
      | some (t, r') =>
        if r'.length = inp.length then none else
        (parseContent env fuel r').map fun (t', ks, rest) => (t ++ t', ks, rest)
end

/-- a sequence of top-level elements (the data printer emits siblings without a wrapper) -/
def parseDoc (inp : Bytes) : Option (List XElem) :=
  match parseContent [] (inp.length + 2) inp with
  | some (t, ks, []) => if t.isEmpty then some ks else none
  | _ => none

end LyModel.XmlDoc
