import LyModel.XmlTree.DataFaithful
import LyModel.XmlTree.SpecScope
/-! The scoped reader (`SpecScope.lean`: the independent reader reporting the in-scope namespaces of every element) applied to what the
    model prints for data nodes with metadata and opaque nodes: the same inductions as `OpaqFaithful.lean` / `DataFaithful.lean`, with
    the reader's environments made explicit in the expected result (`dviewS`), and what these environments resolve (`DScopeOk`). -/
set_option linter.unusedSimpArgs false
set_option linter.unusedVariables false
namespace LyModel.XmlTree
open LyModel LyModel.XmlDoc LyModel.XmlText

theorem parseElemS_gen (env : NsStack) (name r1 : Bytes) (hname : NameOk name) (attrs : List RawAttr) (sc : Bool) (r2 : Bytes)
    (ras : List (Bytes × Bytes × Bytes)) (fuel : Nat)
    (hq : takeQName (name ++ r1) = some ((none, name), r1))
    (hpa : parseAttrs (r1.length + 1) r1 = some (attrs, sc, r2))
    (hnd : noDupDecls (declsOf attrs) = true)
    (hres : resolveAttrs (declsOf attrs ++ env) attrs = some ras)
    (hda : noDupAttrs ras = true) :
    (sc = true → parseElemS env (fuel + 1) (60 :: (name ++ r1)) =
        some (XElemS.mk ((lookup (declsOf attrs ++ env) none).getD []) name ras [] [] (declsOf attrs ++ env), r2)) ∧
    (sc = false → ∀ (text : Bytes) (kids : List XElemS) (rest : Bytes),
        parseContentS (declsOf attrs ++ env) fuel r2 = some (text, kids, 60 :: 47 :: (name ++ 62 :: rest)) →
        parseElemS env (fuel + 1) (60 :: (name ++ r1)) =
          some (XElemS.mk ((lookup (declsOf attrs ++ env) none).getD []) name ras text kids (declsOf attrs ++ env), rest)) := by
  refine ⟨?_, ?_⟩
  · intro hsc; subst hsc
    simp [parseElemS, hq, hpa, hnd, hres, hda]
  · intro hsc text kids rest hc; subst hsc
    have hqe : takeQName (name ++ 62 :: rest) = some ((none, name), 62 :: rest) :=
      takeQName_plain name _ hname (by intro b t' e; simp at e; rw [← e.1]; decide)
    simp [parseElemS, hq, hpa, hnd, hres, hda, hc, hqe, skipSpaces, isSpace]

theorem parseContentS_text_then (env : NsStack) (v : Bytes) (hv : v ≠ []) (hc : NoCtl v) (r : Bytes) (fuel : Nat)
    (t' : Bytes) (ks : List XElemS) (rest : Bytes) (h : parseContentS env fuel (60 :: r) = some (t', ks, rest)) :
    parseContentS env (fuel + 1) (dumpText false v ++ 60 :: r) = some (v ++ t', ks, rest) := by
  obtain ⟨c, t, hd, hne⟩ := dumpText_head_ne_lt v hv
  have hr : ∀ fu, (dumpText false v).length + 1 ≤ fu →
      readUntil false fu (dumpText false v ++ 60 :: r) = some (v, 60 :: r) :=
    fun fu h => readUntil_dump false 60 (Or.inl ⟨rfl, rfl⟩) v hc r fu h
  have hne' : ¬ (some c = some (60 : UInt8)) := by simpa using hne
  have hlen : (dumpText false v).length = t.length + 1 := by rw [hd]; rfl
  rw [hd] at hr ⊢
  simp only [List.cons_append] at hr ⊢
  unfold parseContentS
  have h2 := hr (t.length + (r.length + 1) + 1 + 1) (by simp only [List.length_cons]; omega)
  simp [hne, hne', h2, h]
  omega

theorem parseElemS_items (env : NsStack) (name : Bytes) (hname : NameOk name) (items : List Item) (ras : List (Bytes × Bytes × Bytes))
    (nsv : Bytes) (fuel : Nat) (hok : ∀ i ∈ items, ItemOk i) (hnd : ((declared items).map (·.1)).Nodup)
    (hra : resolveAttrs (declared items ++ env) (items.map Item.toRaw) = some ras) (hdup : noDupAttrs ras = true)
    (hdflt : (lookup (declared items ++ env) none).getD [] = nsv) :
    (∀ rest, parseElemS env (fuel + 1) (60 :: (name ++ (renderItems items ++ 47 :: 62 :: rest))) =
        some (XElemS.mk nsv name ras [] [] (declared items ++ env), rest)) ∧
    (∀ body text kids rest,
        parseContentS (declared items ++ env) fuel body = some (text, kids, 60 :: 47 :: (name ++ 62 :: rest)) →
        parseElemS env (fuel + 1) (60 :: (name ++ (renderItems items ++ 62 :: body))) =
          some (XElemS.mk nsv name ras text kids (declared items ++ env), rest)) := by
  have hdecl := declsOf_items items hok
  have hndd := noDupDecls_of_nodup _ hnd
  refine ⟨?_, ?_⟩
  · intro rest
    have hq := takeQName_plain name (renderItems items ++ 47 :: 62 :: rest) hname
      (renderItems_head items _ rest (Or.inr rfl))
    have hpa := parseAttrs_items items hok (47 :: 62 :: rest) true rest (Or.inr ⟨rfl, rfl⟩)
      ((renderItems items ++ 47 :: 62 :: rest).length + 1)
      (by have := renderItems_length items; simp only [List.length_append]; omega)
    have := (parseElemS_gen env name _ hname (items.map Item.toRaw) true rest ras fuel hq hpa
      (by rw [hdecl]; exact hndd) (by rw [hdecl]; exact hra) hdup).1 rfl
    rw [hdecl, hdflt] at this
    exact this
  · intro body text kids rest hc
    have hq := takeQName_plain name (renderItems items ++ 62 :: body) hname
      (renderItems_head items _ body (Or.inl rfl))
    have hpa := parseAttrs_items items hok (62 :: body) false body (Or.inl ⟨rfl, rfl⟩)
      ((renderItems items ++ 62 :: body).length + 1)
      (by have := renderItems_length items; simp only [List.length_append]; omega)
    have := (parseElemS_gen env name _ hname (items.map Item.toRaw) false body ras fuel hq hpa
      (by rw [hdecl]; exact hndd) (by rw [hdecl]; exact hra) hdup).2 rfl text kids rest (by rw [hdecl]; exact hc)
    rw [hdecl, hdflt] at this
    exact this

/-- everything the reader needs about the start tag of an opaque node (the facts inside `parseElem_otag`) -/
theorem otagFacts (fx : Fixes) (hn : fx.numbered = true) (hr : fx.reserved = true) (env st : NsStack)
    (heq : EnvEq env st) (hst : StackOk st) (ns : Option Bytes) (value : Bytes) (valPfx : PfxData)
    (attrs : List OAttr) (hns : ∀ u ∈ ns, NoCtl u) (hpd : PfxDataOk valPfx)
    (hat : ∀ a ∈ attrs, AttrOk a)
    (hcons : consistent (reservedOf valPfx attrs) = true) (hdf : ns = none → fx.undeclare = true ∨ findDefault st = none)
    (items : List Item) (st' : NsStack) (htag : startTagItems fx st ns value valPfx attrs = (items, st')) :
    (∀ i ∈ items, ItemOk i) ∧ ((declared items).map (·.1)).Nodup ∧
      resolveAttrs (declared items ++ env) (items.map Item.toRaw) = some (attrs.map viewAttr) ∧
      (lookup (declared items ++ env) none).getD [] = ns.getD [] ∧ EnvEq (declared items ++ env) st' ∧ StackOk st' := by
  have hok := startTag_ok fx st ns value valPfx attrs hst hns hpd hat
  have hnd := startTag_nodup fx hn hr st ns value valPfx attrs hcons
  have hres := startTag_attrs_resolve fx hn hr st ns value valPfx attrs
  have hfd := startTag_findDefault fx hn hr st ns value valPfx attrs
  rw [htag] at hok hnd hres hfd
  simp only at hok hnd hres hfd
  have heq' : EnvEq (declared items ++ env) st' := by
    rw [hnd.2]; exact envEq_push env st _ heq hnd.1
  have hra := resolveAttrs_items (declared items ++ env) st' heq' items attrs hok.1 hres (fun a ha => (hat a ha).2.2.1)
  have hdflt : (lookup (declared items ++ env) none).getD [] = ns.getD [] := by
    rw [heq' none, lookup_none_eq, hfd]
    cases ns with
    | none =>
      simp only
      have hdis : defaultInScope st = false → (findDefault st).getD [] = [] := by
        intro h
        unfold defaultInScope at h
        cases hfd' : findDefault st with
        | none => rfl
        | some u => rw [hfd'] at h; cases u <;> simp_all
      split
      · rfl
      · rename_i hc
        rcases hdf rfl with hu | hnone
        · have : defaultInScope st = false := by
            cases hd : defaultInScope st with
            | false => rfl
            | true => exact absurd (by simp [hu, hd]) hc
          simpa using hdis this
        · simp [hnone]
    | some u => rfl
  exact ⟨hok.1, hnd.1, hra, hdflt, heq', hok.2⟩

/-! ### the expected result, with the reader's environments -/

mutual
def oviewS (fx : Fixes) (env st : NsStack) : ONode → XElemS
  | .mk name _ ns value valPfx attrs kids =>
    .mk (ns.getD []) name (attrs.map viewAttr) value
      (oviewSList fx (declared (startTagItems fx st ns value valPfx attrs).1 ++ env) (startTagItems fx st ns value valPfx attrs).2 kids)
      (declared (startTagItems fx st ns value valPfx attrs).1 ++ env)
def oviewSList (fx : Fixes) (env st : NsStack) : List ONode → List XElemS
  | [] => []
  | n :: r => oviewS fx env st n :: oviewSList fx env st r
end

mutual
def dviewS (fx : Fixes) (env st : NsStack) : DNode → XElemS
  | .term ns name wd metas value valMods =>
    .mk ns name (viewWd wd ++ metas.map viewMeta) value [] (declared (termTagItems fx st ns wd metas valMods).1 ++ env)
  | .inner ns name metas kids =>
    .mk ns name (metas.map viewMeta) []
      (dviewSList fx (declared (dataOpenItems fx st ns none metas).1 ++ env) (dataOpenItems fx st ns none metas).2 kids)
      (declared (dataOpenItems fx st ns none metas).1 ++ env)
  | .opaq o => oviewS fx env st o
def dviewSList (fx : Fixes) (env st : NsStack) : List DNode → List XElemS
  | [] => []
  | n :: r => dviewS fx env st n :: dviewSList fx env st r
end

mutual
theorem oviewS_erase (fx : Fixes) (env st : NsStack) (n : ONode) : (oviewS fx env st n).erase = oview n := by
  cases n with
  | mk name pfx ns value valPfx attrs kids =>
    simp only [oviewS, XElemS.erase, oview]
    rw [oviewSList_erase]
theorem oviewSList_erase (fx : Fixes) (env st : NsStack) (l : List ONode) : eraseL (oviewSList fx env st l) = oviewList l := by
  cases l with
  | nil => simp [oviewSList, eraseL, oviewList]
  | cons n r => simp only [oviewSList, eraseL, oviewList]; rw [oviewS_erase, oviewSList_erase]
end

mutual
theorem dviewS_erase (fx : Fixes) (env st : NsStack) (n : DNode) : (dviewS fx env st n).erase = dview n := by
  cases n with
  | term ns name wd metas value valMods => simp [dviewS, XElemS.erase, dview, eraseL]
  | inner ns name metas kids =>
    simp only [dviewS, XElemS.erase, dview]
    rw [dviewSList_erase]
  | opaq o => simp only [dviewS, dview]; exact oviewS_erase fx env st o
theorem dviewSList_erase (fx : Fixes) (env st : NsStack) (l : List DNode) : eraseL (dviewSList fx env st l) = dviewList l := by
  cases l with
  | nil => simp [dviewSList, eraseL, dviewList]
  | cons n r => simp only [dviewSList, eraseL, dviewList]; rw [dviewS_erase, dviewSList_erase]
end

/-! ### the inductions, for the scoped reader -/

theorem printOList_head' (fx : Fixes) (st : NsStack) (k : ONode) (ks : List ONode) (tail : Bytes) :
    ∃ r, printOList fx st (k :: ks) ++ tail = 60 :: r := printOList_head fx st k ks tail

mutual
theorem parseElemS_oprint (fx : Fixes) (hn : fx.numbered = true) (hr : fx.reserved = true) (env st : NsStack)
    (heq : EnvEq env st) (hst : StackOk st) (strict : Bool) (hS : strict = false → fx.undeclare = true) (inD : Bool)
    (hD : inD = false → findDefault st = none) (n : ONode) (hok : ONodeOk strict inD n) (rest : Bytes) (fuel : Nat)
    (hf : ocost n ≤ fuel) :
    parseElemS env fuel (printONode fx st n ++ rest) = some (oviewS fx env st n, rest) := by
  cases n with
  | mk name pfx ns value valPfx attrs kids =>
    unfold ONodeOk at hok
    obtain ⟨hname, hnsd, hns, hval, hpd, hat, hdup, hcons, hkids⟩ := hok
    obtain ⟨f, rfl⟩ : ∃ f, fuel = f + 1 := ⟨fuel - 1, by simp [ocost] at hf; omega⟩
    obtain ⟨items, st', htag⟩ : ∃ items st', startTagItems fx st ns value valPfx attrs = (items, st') := ⟨_, _, rfl⟩
    have hdf : ns = none → fx.undeclare = true ∨ findDefault st = none := by
      intro h
      cases hs : strict with
      | false => exact Or.inl (hS hs)
      | true => exact Or.inr (hD (hnsd h hs))
    obtain ⟨hall, hnd, hra, hdflt, heq', hst'⟩ := otagFacts fx hn hr env st heq hst ns value valPfx attrs hns hpd hat hcons hdf items st' htag
    obtain ⟨hsc, hopen⟩ := parseElemS_items env name hname items _ (ns.getD []) f hall hnd hra hdup hdflt
    have hD' : (inD || ns.isSome) = false → findDefault st' = none := by
      intro h
      have h1 : inD = false := by cases inD <;> simp_all
      have h2 : ns = none := by cases ns <;> simp_all
      have hfd := startTag_findDefault fx hn hr st ns value valPfx attrs
      rw [htag] at hfd
      subst h2
      have hdis : defaultInScope st = false := by simp [defaultInScope, hD h1]
      simpa [hD h1, hdis] using hfd
    cases kids with
    | nil =>
      by_cases he : value = []
      · subst he
        have := hsc rest
        simpa [printONode, htag, oviewS, oviewSList, sSlashGt, List.append_assoc] using this
      · have hemp : value.isEmpty = false := by cases value <;> simp_all
        have hc := parseContentS_text_then (declared items ++ env) value he hval (47 :: (name ++ 62 :: rest)) (f - 1) [] []
          (60 :: 47 :: (name ++ 62 :: rest))
          (by
            obtain ⟨g, hg⟩ : ∃ g, f - 1 = g + 1 := ⟨f - 2, by simp [ocost, ocosts] at hf; omega⟩
            rw [hg]; simp [parseContentS])
        have hf1 : f - 1 + 1 = f := by simp [ocost, ocosts] at hf; omega
        rw [hf1] at hc
        have := hopen _ _ _ rest hc
        simpa [printONode, htag, oviewS, oviewSList, sLtSlash, hemp, List.append_assoc] using this
    | cons k ks =>
      have hkc := parseContentS_oprint fx hn hr (declared items ++ env) st' heq' hst' strict hS (inD || ns.isSome) hD' (k :: ks) hkids
        (60 :: 47 :: (name ++ 62 :: rest)) (Or.inr ⟨_, rfl⟩)
      by_cases he : value = []
      · subst he
        have hc := hkc f (by simp [ocost] at hf; omega)
        have := hopen _ _ _ rest hc
        simpa [printONode, htag, oviewS, sLtSlash, List.append_assoc] using this
      · have hemp : value.isEmpty = false := by cases value <;> simp_all
        obtain ⟨r, hrr⟩ := printOList_head' fx st' k ks (60 :: 47 :: (name ++ 62 :: rest))
        have hc0 := hkc (f - 1) (by simp [ocost] at hf; omega)
        rw [hrr] at hc0
        have hc := parseContentS_text_then (declared items ++ env) value he hval r (f - 1) _ _ _ hc0
        have hf1 : f - 1 + 1 = f := by simp [ocost, ocosts] at hf; omega
        rw [hf1, ← hrr] at hc
        have := hopen _ _ _ rest hc
        simpa [printONode, htag, oviewS, sLtSlash, hemp, List.append_assoc] using this
theorem parseContentS_oprint (fx : Fixes) (hn : fx.numbered = true) (hr : fx.reserved = true) (env st : NsStack)
    (heq : EnvEq env st) (hst : StackOk st) (strict : Bool) (hS : strict = false → fx.undeclare = true) (inD : Bool)
    (hD : inD = false → findDefault st = none) (l : List ONode) (hl : OListOk strict inD l) (tail : Bytes)
    (htail : tail = [] ∨ ∃ r, tail = 60 :: 47 :: r) (fuel : Nat) (hf : ocosts l ≤ fuel) :
    parseContentS env fuel (printOList fx st l ++ tail) = some ([], oviewSList fx env st l, tail) := by
  cases l with
  | nil =>
    obtain ⟨f, rfl⟩ : ∃ f, fuel = f + 1 := ⟨fuel - 1, by simp [ocosts] at hf; omega⟩
    rcases htail with rfl | ⟨r, rfl⟩ <;> simp [printOList, parseContentS, oviewSList]
  | cons k ks =>
    unfold OListOk at hl
    obtain ⟨hk, hks⟩ := hl
    obtain ⟨f, rfl⟩ : ∃ f, fuel = f + 1 := ⟨fuel - 1, by simp [ocosts] at hf; omega⟩
    have h1 := parseElemS_oprint fx hn hr env st heq hst strict hS inD hD k hk (printOList fx st ks ++ tail) f
      (by simp [ocosts] at hf; omega)
    have h2 := parseContentS_oprint fx hn hr env st heq hst strict hS inD hD ks hks tail htail f (by simp [ocosts] at hf; omega)
    obtain ⟨b, t, hp, hb⟩ := printONode_head2 fx st k strict inD hk
    have hb' : ¬ (some b = some (47 : UInt8)) := by simpa using hb
    simp only [printOList, List.append_assoc]
    rw [hp] at h1 ⊢
    simp only [List.cons_append] at h1 ⊢
    unfold parseContentS
    simp [hb', h1, h2, oviewSList]
end

mutual
theorem parseElemS_dprint (fx : Fixes) (hn : fx.numbered = true) (hr : fx.reserved = true) (env st : NsStack)
    (heq : EnvEq env st) (hst : StackOk st) (n : DNode) (hok : dnodeOkB fx st n = true) (rest : Bytes) (fuel : Nat)
    (hf : dcost n ≤ fuel) : parseElemS env fuel (printDNode fx st n ++ rest) = some (dviewS fx env st n, rest) := by
  cases n with
  | term ns name wd metas value valMods =>
    obtain ⟨f, rfl⟩ : ∃ f, fuel = f + 1 := ⟨fuel - 1, by simp [dcost] at hf; omega⟩
    obtain ⟨items, st', htag⟩ : ∃ items st', termTagItems fx st ns wd metas valMods = (items, st') := ⟨_, _, rfl⟩
    unfold dnodeOkB at hok
    obtain ⟨hname, hval, hall, hnd, hra, hdup, hdflt, _, _, _, _, _⟩ :=
      dataTag fx hn env st heq hst ns name wd metas value valMods hok items st' htag
    obtain ⟨hsc, hopen⟩ := parseElemS_items env name hname items _ ns f hall hnd hra hdup hdflt
    by_cases he : value = []
    · subst he
      have := hsc rest
      simpa [printDNode, htag, dviewS, sSlashGt, List.append_assoc] using this
    · have hemp : value.isEmpty = false := by cases value <;> simp_all
      have hc := parseContentS_text_then (declared items ++ env) value he hval (47 :: (name ++ 62 :: rest)) (f - 1) [] []
          (60 :: 47 :: (name ++ 62 :: rest))
          (by
            obtain ⟨g, hg⟩ : ∃ g, f - 1 = g + 1 := ⟨f - 2, by simp [dcost] at hf; omega⟩
            rw [hg]; simp [parseContentS])
      have hf1 : f - 1 + 1 = f := by simp [dcost] at hf; omega
      rw [hf1] at hc
      have := hopen _ _ _ rest hc
      simpa [printDNode, htag, dviewS, sLtSlash, hemp, List.append_assoc] using this
  | inner ns name metas kids =>
    obtain ⟨f, rfl⟩ : ∃ f, fuel = f + 1 := ⟨fuel - 1, by simp [dcost] at hf; omega⟩
    obtain ⟨items, st', htag⟩ : ∃ items st', dataOpenItems fx st ns none metas = (items, st') := ⟨_, _, rfl⟩
    unfold dnodeOkB at hok
    simp only [Bool.and_eq_true] at hok
    obtain ⟨hok1, hkids⟩ := hok
    rw [htag] at hkids
    obtain ⟨hname, _, hall, hnd, hra, hdup, hdflt, heq', hst', _, _, _⟩ :=
      dataTag fx hn env st heq hst ns name none metas [] [] hok1 items st' (by rw [← dataOpen_eq]; exact htag)
    simp only [viewWd, List.nil_append] at hra hdup
    obtain ⟨hsc, hopen⟩ := parseElemS_items env name hname items _ ns f hall hnd hra hdup hdflt
    cases kids with
    | nil =>
      have := hsc rest
      simpa [printDNode, htag, dviewS, dviewSList, sSlashGt, List.append_assoc] using this
    | cons k ks =>
      have hc := parseContentS_dprint fx hn hr (declared items ++ env) st' heq' hst' (k :: ks) hkids
        (60 :: 47 :: (name ++ 62 :: rest)) (Or.inr ⟨_, rfl⟩) f (by simp [dcost] at hf; omega)
      have := hopen _ _ _ rest hc
      simpa [printDNode, htag, dviewS, sLtSlash, List.append_assoc] using this
  | opaq o =>
    have ho := opaqHyp fx st o hok
    have := parseElemS_oprint fx hn hr env st heq hst (!fx.undeclare) (by intro h; simpa using h) (findDefault st).isSome
      (by intro h; cases hfd : findDefault st <;> simp_all) o ho rest fuel (by simpa [dcost] using hf)
    simpa [printDNode, dviewS] using this
theorem parseContentS_dprint (fx : Fixes) (hn : fx.numbered = true) (hr : fx.reserved = true) (env st : NsStack)
    (heq : EnvEq env st) (hst : StackOk st) (l : List DNode) (hl : dlistOkB fx st l = true) (tail : Bytes)
    (htail : tail = [] ∨ ∃ r, tail = 60 :: 47 :: r) (fuel : Nat) (hf : dcosts l ≤ fuel) :
    parseContentS env fuel (printDList fx st l ++ tail) = some ([], dviewSList fx env st l, tail) := by
  cases l with
  | nil =>
    obtain ⟨f, rfl⟩ : ∃ f, fuel = f + 1 := ⟨fuel - 1, by simp [dcosts] at hf; omega⟩
    rcases htail with rfl | ⟨r, rfl⟩ <;> simp [printDList, parseContentS, dviewSList]
  | cons k ks =>
    unfold dlistOkB at hl
    simp only [Bool.and_eq_true] at hl
    obtain ⟨hk, hks⟩ := hl
    obtain ⟨f, rfl⟩ : ∃ f, fuel = f + 1 := ⟨fuel - 1, by simp [dcosts] at hf; omega⟩
    have h1 := parseElemS_dprint fx hn hr env st heq hst k hk (printDList fx st ks ++ tail) f (by simp [dcosts] at hf; omega)
    have h2 := parseContentS_dprint fx hn hr env st heq hst ks hks tail htail f (by simp [dcosts] at hf; omega)
    obtain ⟨b, t, hp, hb⟩ := printDNode_head2 fx st k hk
    have hb' : ¬ (some b = some (47 : UInt8)) := by simpa using hb
    simp only [printDList, List.append_assoc]
    rw [hp] at h1 ⊢
    simp only [List.cons_append] at h1 ⊢
    unfold parseContentS
    simp [hb', h1, h2, dviewSList]
end

theorem parseDocS_printDData (fx : Fixes) (hn : fx.numbered = true) (hr : fx.reserved = true) (forest : List DNode)
    (h : dataOk fx forest = true) : parseDocS (printDData fx forest) = some (dviewSList fx [] [] forest) := by
  have hc := dcosts_le_len fx [] forest h
  have := parseContentS_dprint fx hn hr [] [] (fun _ => rfl) (by intro q u hm; simp at hm) forest h []
    (Or.inl rfl) ((printDData fx forest).length + 2) (by simp [printDData] at hc ⊢; omega)
  simp [parseDocS, printDData] at this ⊢
  simp [this]

/-! ### what the reported scopes resolve -/

/-- every (prefix, namespace) of `ps` resolves in `scope` by the innermost-binding rule -/
def pairsResolve (scope : Env) (ps : List (Bytes × Bytes)) : Prop := ∀ e ∈ ps, lookup scope (some e.1) = some e.2

mutual
/-- the in-scope namespaces the reader reports for an opaque element give every prefix inside its attribute values — and inside
    its own value, when it has one — the namespace the tree holds for it; likewise below -/
def OScopeOk : ONode → XElemS → Prop
  | .mk _ _ _ value valPfx attrs kids, e =>
    (∀ a ∈ attrs, pairsResolve e.scope (pairsOf a.valPfx)) ∧ (value.isEmpty = false → pairsResolve e.scope (pairsOf valPfx)) ∧
      OScopeOkL kids (match e with | .mk _ _ _ _ ks _ => ks)
def OScopeOkL : List ONode → List XElemS → Prop
  | [], es => es = []
  | n :: r, es => ∃ e t, es = e :: t ∧ OScopeOk n e ∧ OScopeOkL r t
end

mutual
/-- the in-scope namespaces the reader reports for the element of a data node give every prefix inside its annotation values and
    inside its own value (identityref, instance-identifier) the namespace of the module the value refers to; likewise below -/
def DScopeOk : DNode → XElemS → Prop
  | .term _ _ _ metas _ valMods, e => (∀ m ∈ metas, pairsResolve e.scope m.valMods) ∧ pairsResolve e.scope valMods
  | .inner _ _ metas kids, e =>
    (∀ m ∈ metas, pairsResolve e.scope m.valMods) ∧ DScopeOkL kids (match e with | .mk _ _ _ _ ks _ => ks)
  | .opaq o, e => OScopeOk o e
def DScopeOkL : List DNode → List XElemS → Prop
  | [], es => es = []
  | n :: r, es => ∃ e t, es = e :: t ∧ DScopeOk n e ∧ DScopeOkL r t
end

mutual
theorem oscope_ok (fx : Fixes) (hn : fx.numbered = true) (hr : fx.reserved = true) (env st : NsStack)
    (heq : EnvEq env st) (hst : StackOk st) (strict : Bool) (hS : strict = false → fx.undeclare = true) (inD : Bool)
    (hD : inD = false → findDefault st = none) (n : ONode) (hok : ONodeOk strict inD n) : OScopeOk n (oviewS fx env st n) := by
  cases n with
  | mk name pfx ns value valPfx attrs kids =>
    unfold ONodeOk at hok
    obtain ⟨hname, hnsd, hns, hval, hpd, hat, hdup, hcons, hkids⟩ := hok
    obtain ⟨items, st', htag⟩ : ∃ items st', startTagItems fx st ns value valPfx attrs = (items, st') := ⟨_, _, rfl⟩
    have hdf : ns = none → fx.undeclare = true ∨ findDefault st = none := by
      intro h
      cases hs : strict with
      | false => exact Or.inl (hS hs)
      | true => exact Or.inr (hD (hnsd h hs))
    obtain ⟨_, _, _, _, heq', hst'⟩ := otagFacts fx hn hr env st heq hst ns value valPfx attrs hns hpd hat hcons hdf items st' htag
    have hv := startTag_values_resolve fx hn hr st ns value valPfx attrs hcons
    rw [htag] at hv
    have hD' : (inD || ns.isSome) = false → findDefault st' = none := by
      intro h
      have h1 : inD = false := by cases inD <;> simp_all
      have h2 : ns = none := by cases ns <;> simp_all
      have hfd := startTag_findDefault fx hn hr st ns value valPfx attrs
      rw [htag] at hfd
      subst h2
      have hdis : defaultInScope st = false := by simp [defaultInScope, hD h1]
      simpa [hD h1, hdis] using hfd
    unfold OScopeOk oviewS
    simp only [htag, XElemS.scope]
    refine ⟨?_, ?_, oscopeL_ok fx hn hr (declared items ++ env) st' heq' hst' strict hS (inD || ns.isSome) hD' kids hkids⟩
    · intro a ha e he; rw [heq' (some e.1)]; exact hv.1 a ha e he
    · intro hne e he; rw [heq' (some e.1)]; exact hv.2 hne e he
theorem oscopeL_ok (fx : Fixes) (hn : fx.numbered = true) (hr : fx.reserved = true) (env st : NsStack)
    (heq : EnvEq env st) (hst : StackOk st) (strict : Bool) (hS : strict = false → fx.undeclare = true) (inD : Bool)
    (hD : inD = false → findDefault st = none) (l : List ONode) (hl : OListOk strict inD l) :
    OScopeOkL l (oviewSList fx env st l) := by
  cases l with
  | nil => simp [OScopeOkL, oviewSList]
  | cons k ks =>
    unfold OListOk at hl
    unfold OScopeOkL oviewSList
    exact ⟨_, _, rfl, oscope_ok fx hn hr env st heq hst strict hS inD hD k hl.1,
      oscopeL_ok fx hn hr env st heq hst strict hS inD hD ks hl.2⟩
end

mutual
theorem dscope_ok (fx : Fixes) (hn : fx.numbered = true) (hr : fx.reserved = true) (env st : NsStack)
    (heq : EnvEq env st) (hst : StackOk st) (n : DNode) (hok : dnodeOkB fx st n = true) : DScopeOk n (dviewS fx env st n) := by
  cases n with
  | term ns name wd metas value valMods =>
    obtain ⟨items, st', htag⟩ : ∃ items st', termTagItems fx st ns wd metas valMods = (items, st') := ⟨_, _, rfl⟩
    unfold dnodeOkB at hok
    have hraw : rawOkB fx valMods = true := by
      simp only [tagOkB, Bool.and_eq_true] at hok; exact hok.2
    obtain ⟨_, _, _, _, _, _, _, _, _, _, hm, hv⟩ :=
      dataTag fx hn env st heq hst ns name wd metas value valMods hok items st' htag
    unfold DScopeOk dviewS
    simp only [htag, XElemS.scope]
    refine ⟨hm, ?_⟩
    cases ht : fx.termNs with
    | true => exact hv ht
    | false =>
      have : valMods = [] := by
        simp only [rawOkB, ht, Bool.false_or] at hraw
        cases valMods <;> simp_all
      subst this
      intro e he; cases he
  | inner ns name metas kids =>
    obtain ⟨items, st', htag⟩ : ∃ items st', dataOpenItems fx st ns none metas = (items, st') := ⟨_, _, rfl⟩
    unfold dnodeOkB at hok
    simp only [Bool.and_eq_true] at hok
    obtain ⟨hok1, hkids⟩ := hok
    rw [htag] at hkids
    obtain ⟨_, _, _, _, _, _, _, heq', hst', _, hm, _⟩ :=
      dataTag fx hn env st heq hst ns name none metas [] [] hok1 items st' (by rw [← dataOpen_eq]; exact htag)
    unfold DScopeOk dviewS
    simp only [htag, XElemS.scope]
    exact ⟨hm, dscopeL_ok fx hn hr (declared items ++ env) st' heq' hst' kids hkids⟩
  | opaq o =>
    have ho := opaqHyp fx st o hok
    unfold DScopeOk dviewS
    exact oscope_ok fx hn hr env st heq hst (!fx.undeclare) (by intro h; simpa using h) (findDefault st).isSome
      (by intro h; cases hfd : findDefault st <;> simp_all) o ho
theorem dscopeL_ok (fx : Fixes) (hn : fx.numbered = true) (hr : fx.reserved = true) (env st : NsStack)
    (heq : EnvEq env st) (hst : StackOk st) (l : List DNode) (hl : dlistOkB fx st l = true) :
    DScopeOkL l (dviewSList fx env st l) := by
  cases l with
  | nil => simp [DScopeOkL, dviewSList]
  | cons k ks =>
    unfold dlistOkB at hl
    simp only [Bool.and_eq_true] at hl
    unfold DScopeOkL dviewSList
    exact ⟨_, _, rfl, dscope_ok fx hn hr env st heq hst k hl.1, dscopeL_ok fx hn hr env st heq hst ks hl.2⟩
end

/-- The scoped reader on the printed document: the elements, attributes and character data as in `parseDoc_printDData`, and the
    in-scope namespaces it reports resolve the prefixes inside the values. -/
theorem parseDocS_printDData_scoped (fx : Fixes) (hn : fx.numbered = true) (hr : fx.reserved = true) (forest : List DNode)
    (h : dataOk fx forest = true) :
    ∃ es, parseDocS (printDData fx forest) = some es ∧ eraseL es = dviewList forest ∧ DScopeOkL forest es :=
  ⟨_, parseDocS_printDData fx hn hr forest h, dviewSList_erase fx [] [] forest,
    dscopeL_ok fx hn hr [] [] (fun _ => rfl) (by intro q u hm; simp at hm) forest h⟩

end LyModel.XmlTree
