import LyModel.XmlTree.OpaqFaithful
import LyModel.XmlTree.DataCheck
/-! The independent document reader applied to what the model prints for data nodes with metadata and opaque children (lemmas; the
    property theorem `xml_document_faithful_meta` is restated in `Props/C12.lean`). -/
set_option linter.unusedSimpArgs false
set_option linter.unusedVariables false
namespace LyModel.XmlTree
open LyModel LyModel.XmlDoc LyModel.XmlText

/-- the reader on `<name` + items it can take apart + the end of the start tag (no printer in here) -/
theorem parseElem_items (env : NsStack) (name : Bytes) (hname : NameOk name) (items : List Item) (ras : List (Bytes × Bytes × Bytes))
    (nsv : Bytes) (fuel : Nat) (hok : ∀ i ∈ items, ItemOk i) (hnd : ((declared items).map (·.1)).Nodup)
    (hra : resolveAttrs (declared items ++ env) (items.map Item.toRaw) = some ras) (hdup : noDupAttrs ras = true)
    (hdflt : (lookup (declared items ++ env) none).getD [] = nsv) :
    (∀ rest, parseElem env (fuel + 1) (60 :: (name ++ (renderItems items ++ 47 :: 62 :: rest))) =
        some (XElem.mk nsv name ras [] [], rest)) ∧
    (∀ body text kids rest,
        parseContent (declared items ++ env) fuel body = some (text, kids, 60 :: 47 :: (name ++ 62 :: rest)) →
        parseElem env (fuel + 1) (60 :: (name ++ (renderItems items ++ 62 :: body))) =
          some (XElem.mk nsv name ras text kids, rest)) := by
  have hdecl := declsOf_items items hok
  have hndd := noDupDecls_of_nodup _ hnd
  refine ⟨?_, ?_⟩
  · intro rest
    have hq := takeQName_plain name (renderItems items ++ 47 :: 62 :: rest) hname
      (renderItems_head items _ rest (Or.inr rfl))
    have hpa := parseAttrs_items items hok (47 :: 62 :: rest) true rest (Or.inr ⟨rfl, rfl⟩)
      ((renderItems items ++ 47 :: 62 :: rest).length + 1)
      (by have := renderItems_length items; simp only [List.length_append]; omega)
    have := (parseElem_gen env name _ hname (items.map Item.toRaw) true rest ras fuel hq hpa
      (by rw [hdecl]; exact hndd) (by rw [hdecl]; exact hra) hdup).1 rfl
    rw [hdecl, hdflt] at this
    exact this
  · intro body text kids rest hc
    have hq := takeQName_plain name (renderItems items ++ 62 :: body) hname
      (renderItems_head items _ body (Or.inl rfl))
    have hpa := parseAttrs_items items hok (62 :: body) false body (Or.inl ⟨rfl, rfl⟩)
      ((renderItems items ++ 62 :: body).length + 1)
      (by have := renderItems_length items; simp only [List.length_append]; omega)
    have := (parseElem_gen env name _ hname (items.map Item.toRaw) false body ras fuel hq hpa
      (by rw [hdecl]; exact hndd) (by rw [hdecl]; exact hra) hdup).2 rfl text kids rest (by rw [hdecl]; exact hc)
    rw [hdecl, hdflt] at this
    exact this

/-! ### value modules as prefix data -/

theorem pairsOf_toPfxData : ∀ (m : ValMods), pairsOf (toPfxData m) = m
  | [] => rfl
  | (p, u) :: r => by simp [toPfxData, pairsOf, pairsOf_toPfxData r]

theorem modsOkB_sound (m : ValMods) (h : modsOkB m = true) : PfxDataOk (toPfxData m) := by
  induction m with
  | nil => intro e he; simp [toPfxData] at he
  | cons x r ih =>
    obtain ⟨p, u⟩ := x
    simp only [modsOkB, List.all_cons, Bool.and_eq_true] at h
    intro e he
    simp only [toPfxData, List.mem_cons] at he
    rcases he with rfl | he
    · refine ⟨?_, noCtlB_sound _ h.1.2⟩
      intro q hq
      have : p = q := by simpa using hq
      subst this
      exact pfxOkB_sound _ h.1.1
    · exact ih (by simpa [modsOkB] using h.2) e he

/-! ### the with-defaults attribute -/

/-- a suggestion while no opaque start tag is being printed (nothing is reserved): the prefix used resolves to the namespace, and
    if it is declared it was bound by no entry of the stack -/
theorem step_wd (fx : Fixes) (hn : fx.numbered = true) (R : Reserved) (st : NsStack) (ns pfx : Bytes) :
    Step R st (nsPrefixed fx [] st ns pfx false).1 ns (nsPrefixed fx [] st ns pfx false).2.1 (nsPrefixed fx [] st ns pfx false).2.2 := by
  unfold nsPrefixed
  cases hs : searchPrefixed fx [] ns pfx false [] st with
  | some q =>
    obtain ⟨h1, _, _⟩ := searchPrefixed_sound fx [] ns pfx false q st [] [] innerOk_nil hs
    simp only [List.nil_append] at h1
    exact Or.inl ⟨rfl, rfl, h1⟩
  | none =>
    simp only [hn, and_self, if_true]
    have hg := pickPrefix_good fx [] st ns pfx
    unfold badPrefix at hg
    rw [Bool.or_eq_false_iff] at hg
    refine Or.inr ⟨rfl, rfl, ?_⟩
    intro u' hu'
    rw [findPrefix_unbound hg.1] at hu'
    cases hu'

/-- the attribute of the view the with-defaults attribute stands for -/
def wdO : Option (Bytes × Bytes) → List OAttr
  | none => []
  | some (u, p) => [⟨some p, some u, sDefault, sTrue, []⟩]

def DMeta.toOAttr (m : DMeta) : OAttr := ⟨some m.pfx, some m.ns, m.name, m.value, toPfxData m.valMods⟩

theorem wdItems_run (fx : Fixes) (hn : fx.numbered = true) (R : Reserved) (st : NsStack) (wd : Option (Bytes × Bytes))
    (hm : ∀ e ∈ wdPair fx st wd, e ∈ R) : Run R (KCons R) st (wdItems fx st wd).1 (wdItems fx st wd).2 := by
  cases wd with
  | none => exact Run.nil st
  | some x =>
    obtain ⟨u, p⟩ := x
    have hmem : ((nsPrefixed fx [] st u p false).1, u) ∈ R := hm _ (by simp [wdPair])
    exact Run.step (step_wd fx hn R st u p) (fun hK => consistent_compat hK hmem) (Run.attr _ _ _ (Run.nil _))

theorem wdItems_ok (fx : Fixes) (st : NsStack) (wd : Option (Bytes × Bytes)) (hst : StackOk st) (hw : wdOkB wd = true) :
    (∀ i ∈ (wdItems fx st wd).1, ItemOk i) ∧ StackOk (wdItems fx st wd).2 := by
  cases wd with
  | none => exact ⟨by simp [wdItems], hst⟩
  | some x =>
    obtain ⟨u, p⟩ := x
    simp only [wdOkB, Bool.and_eq_true] at hw
    have h1 := nsPrefixed_ok fx [] st u p false hst (pfxOkB_sound _ hw.1) (noCtlB_sound _ hw.2)
    refine ⟨?_, h1.2.2⟩
    intro i hi
    simp only [wdItems, List.mem_append, List.mem_singleton] at hi
    rcases hi with hi | rfl
    · exact h1.2.1 i hi
    · exact ⟨h1.1, nameOkB_sound _ (by decide), noCtlB_sound _ (by decide)⟩

theorem wdItems_attrsOf (fx : Fixes) (st : NsStack) (wd : Option (Bytes × Bytes)) :
    attrsOf (wdItems fx st wd).1 = match wd with
      | none => []
      | some (u, p) => [Item.attr (some (nsPrefixed fx [] st u p false).1) sDefault sTrue] := by
  cases wd with
  | none => rfl
  | some x =>
    obtain ⟨u, p⟩ := x
    simp [wdItems, attrsOf_append, nsPrefixed_attrsOf, attrsOf]

/-! ### the metadata -/

theorem metaItems_run (fx : Fixes) (R : Reserved) : ∀ (metas : List DMeta) (st : NsStack), (∀ e ∈ metaPairs metas, e ∈ R) →
    Run R (KCons R) st (metaItems fx st metas).1 (metaItems fx st metas).2
  | [], st, _ => Run.nil st
  | m :: ms, st, h => by
    have hv : ∀ e ∈ pairsOf (toPfxData m.valMods), e ∈ R := by
      rw [pairsOf_toPfxData]; intro e he; exact h e (by simp [metaPairs, he])
    have hm : (m.pfx, m.ns) ∈ R := h _ (by simp [metaPairs])
    have hs := (step_required fx R [] (valModItems fx st m.valMods).2 m.pfx m.ns hm).2
    have ih := metaItems_run fx R ms (nsPrefixed fx [] (valModItems fx st m.valMods).2 m.ns m.pfx true).2.2
      (fun e he => h e (by simp [metaPairs, he]))
    simp only [metaItems]
    rw [List.append_assoc]
    refine Run.append (prefixData_run fx R [] _ st hv) ?_
    exact Run.step hs (fun hK => consistent_compat hK hm) (Run.attr _ _ _ ih)

theorem metaItems_ok (fx : Fixes) : ∀ (metas : List DMeta) (st : NsStack), StackOk st → metas.all metaOkB = true →
    (∀ i ∈ (metaItems fx st metas).1, ItemOk i) ∧ StackOk (metaItems fx st metas).2
  | [], st, hst, _ => ⟨by simp [metaItems], hst⟩
  | m :: ms, st, hst, hok => by
    simp only [List.all_cons, Bool.and_eq_true] at hok
    obtain ⟨hm, hms⟩ := hok
    simp only [metaOkB, Bool.and_eq_true] at hm
    obtain ⟨⟨⟨⟨h1, h2⟩, h3⟩, h4⟩, h5⟩ := hm
    have e1 := prefixData_ok fx [] (toPfxData m.valMods) st hst (modsOkB_sound _ h5)
    have e2 := nsPrefixed_ok fx [] (valModItems fx st m.valMods).2 m.ns m.pfx true e1.2 (pfxOkB_sound _ h2) (noCtlB_sound _ h3)
    have e3 := metaItems_ok fx ms _ e2.2.2 hms
    simp only [metaItems]
    refine ⟨?_, e3.2⟩
    intro i hi
    rcases List.mem_append.mp hi with hi | hi
    · rcases List.mem_append.mp hi with hi | hi
      · exact e1.1 i hi
      · exact e2.2.1 i hi
    · rcases List.mem_cons.mp hi with rfl | hi
      · exact ⟨e2.1, nameOkB_sound _ h1, noCtlB_sound _ h4⟩
      · exact e3.1 i hi

theorem metaItems_resolve (fx : Fixes) (R : Reserved) (hK : KCons R) (stEnd : NsStack) :
    ∀ (metas : List DMeta) (st : NsStack), (∀ e ∈ metaPairs metas, e ∈ R) → Stable R (metaItems fx st metas).2 stEnd →
      AttrsResolve stEnd (metas.map DMeta.toOAttr) (attrsOf (metaItems fx st metas).1)
  | [], st, _, _ => by simp [metaItems, attrsOf, AttrsResolve]
  | m :: ms, st, h, hst => by
    have hsub : ∀ e ∈ metaPairs ms, e ∈ R := fun e he => h e (by simp [metaPairs, he])
    have hm : (m.pfx, m.ns) ∈ R := h _ (by simp [metaPairs])
    have hs := step_required fx R [] (valModItems fx st m.valMods).2 m.pfx m.ns hm
    simp only [metaItems] at hst ⊢
    rw [attrsOf_append, attrsOf_append, nsPrefixed_attrsOf]
    have e0 : attrsOf (valModItems fx st m.valMods).1 = [] := prefixData_attrsOf fx [] _ st
    rw [e0]
    simp only [List.nil_append, attrsOf, List.map_cons, AttrsResolve, DMeta.toOAttr]
    refine ⟨trivial, trivial, ⟨_, rfl, ?_⟩, metaItems_resolve fx R hK stEnd ms _ hsub hst⟩
    rw [lookup_some_eq, hs.1]
    have hc := consistent_compat hK hm
    exact hst _ _ ((metaItems_run fx R ms _ hsub).stable _ _ hs.2.resolves hc) hc

/-- every prefix inside an annotation value resolves at the end of the start tag to the namespace of its module -/
theorem metaItems_values (fx : Fixes) (R : Reserved) (hK : KCons R) (stEnd : NsStack) :
    ∀ (metas : List DMeta) (st : NsStack), (∀ e ∈ metaPairs metas, e ∈ R) → Stable R (metaItems fx st metas).2 stEnd →
      ∀ m ∈ metas, ∀ e ∈ m.valMods, findPrefix e.1 stEnd = some e.2
  | [], _, _, _, m, hm, _, _ => by simp at hm
  | b :: ms, st, h, hst, m, hmm, e, he => by
    have hsub : ∀ e ∈ metaPairs ms, e ∈ R := fun e he => h e (by simp [metaPairs, he])
    simp only [metaItems] at hst
    rcases List.mem_cons.mp hmm with rfl | hmm'
    · have hv : ∀ e ∈ pairsOf (toPfxData m.valMods), e ∈ R := by
        rw [pairsOf_toPfxData]; intro e he; exact h e (by simp [metaPairs, he])
      have hme : e ∈ R := h e (by simp [metaPairs, he])
      have h0 := prefixData_resolves fx R [] hK (toPfxData m.valMods) st hv e (by rw [pairsOf_toPfxData]; exact he)
      have hc := consistent_compat hK (p := e.1) (u := e.2) hme
      have hm : (m.pfx, m.ns) ∈ R := h _ (by simp [metaPairs])
      have hs := (step_required fx R [] (valModItems fx st m.valMods).2 m.pfx m.ns hm).2
      exact hst _ _ ((metaItems_run fx R ms _ hsub).stable _ _ (hs.stable _ _ h0 hc) hc) hc
    · exact metaItems_values fx R hK stEnd ms _ hsub hst m hmm' e he

/-! ### the whole start tag of a data node -/

/-- the part of the start tag after the default-namespace declaration; `extra` = the modules of the value's prefixes when they go
    through `xml_print_ns` -/
def tagRestD (fx : Fixes) (st0 : NsStack) (wd : Option (Bytes × Bytes)) (metas : List DMeta) (valMods : ValMods) : List Item × NsStack :=
  let r1 := wdItems fx st0 wd
  let r2 := metaItems fx r1.2 metas
  let r3 := if fx.termNs then valModItems fx r2.2 valMods else ([], r2.2)
  (r1.1 ++ r2.1 ++ r3.1, r3.2)

theorem termTag_eq (fx : Fixes) (st : NsStack) (ns : Bytes) (wd : Option (Bytes × Bytes)) (metas : List DMeta) (valMods : ValMods)
    (h : rawOkB fx valMods = true) :
    termTagItems fx st ns wd metas valMods =
      ((nsDefault st ns).1 ++ (tagRestD fx (nsDefault st ns).2 wd metas valMods).1, (tagRestD fx (nsDefault st ns).2 wd metas valMods).2) := by
  unfold termTagItems tagRestD dataOpenItems
  cases ht : fx.termNs with
  | true => simp [List.append_assoc]
  | false =>
    have : valMods = [] := by
      simp only [rawOkB, ht, Bool.false_or] at h
      cases valMods <;> simp_all
    subst this
    simp [rawDecls, List.append_assoc]

theorem dataOpen_eq (fx : Fixes) (st : NsStack) (ns : Bytes) (metas : List DMeta) :
    dataOpenItems fx st ns none metas = termTagItems fx st ns none metas [] := by
  unfold termTagItems
  cases fx.termNs <;> simp [valModItems, toPfxData, prefixData, rawDecls]

theorem tagRestD_run (fx : Fixes) (hn : fx.numbered = true) (R : Reserved) (st0 : NsStack) (wd : Option (Bytes × Bytes))
    (metas : List DMeta) (valMods : ValMods) (h1 : ∀ e ∈ wdPair fx st0 wd, e ∈ R) (h2 : ∀ e ∈ metaPairs metas, e ∈ R)
    (h3 : ∀ e ∈ valMods, e ∈ R) :
    Run R (KCons R) st0 (tagRestD fx st0 wd metas valMods).1 (tagRestD fx st0 wd metas valMods).2 := by
  unfold tagRestD
  simp only
  refine Run.append (Run.append (wdItems_run fx hn R st0 wd h1) (metaItems_run fx R metas _ h2)) ?_
  split
  · exact prefixData_run fx R [] _ _ (by rw [pairsOf_toPfxData]; exact h3)
  · exact Run.nil _

theorem nsDefault_cases'' (st : NsStack) (u : Bytes) :
    (nsDefault st u = ([], st) ∨ nsDefault st u = ([Item.decl none u], (none, u) :: st)) ∧ findDefault (nsDefault st u).2 = some u := by
  rcases nsDefault_cases st u with h | h
  · exact ⟨Or.inl h.1, by rw [h.1]; exact h.2⟩
  · exact ⟨Or.inr h.1, by rw [h.1]; rfl⟩

theorem viewAttr_oattrs (wd : Option (Bytes × Bytes)) (metas : List DMeta) :
    (wdO wd ++ metas.map DMeta.toOAttr).map viewAttr = viewWd wd ++ metas.map viewMeta := by
  have e : (metas.map DMeta.toOAttr).map viewAttr = metas.map viewMeta := by
    induction metas with
    | nil => rfl
    | cons m ms ih => simp [DMeta.toOAttr, viewAttr, viewMeta, ih] at ih ⊢
  cases wd with
  | none => simpa [wdO, viewWd] using e
  | some x =>
    obtain ⟨u, p⟩ := x
    simp [wdO, viewWd, viewAttr] at e ⊢
    exact e

/-- everything the reader needs about the start tag of a data node -/
theorem dataTag (fx : Fixes) (hn : fx.numbered = true) (env st : NsStack) (heq : EnvEq env st) (hst : StackOk st) (ns name : Bytes)
    (wd : Option (Bytes × Bytes)) (metas : List DMeta) (value : Bytes) (valMods : ValMods)
    (hok : tagOkB fx st ns name wd metas value valMods = true)
    (items : List Item) (st' : NsStack) (htag : termTagItems fx st ns wd metas valMods = (items, st')) :
    NameOk name ∧ NoCtl value ∧ (∀ i ∈ items, ItemOk i) ∧ ((declared items).map (·.1)).Nodup ∧
      resolveAttrs (declared items ++ env) (items.map Item.toRaw) = some (viewWd wd ++ metas.map viewMeta) ∧
      noDupAttrs (viewWd wd ++ metas.map viewMeta) = true ∧ (lookup (declared items ++ env) none).getD [] = ns ∧
      EnvEq (declared items ++ env) st' ∧ StackOk st' ∧ findDefault st' = some ns ∧
      (∀ m ∈ metas, ∀ e ∈ m.valMods, lookup (declared items ++ env) (some e.1) = some e.2) ∧
      (fx.termNs = true → ∀ e ∈ valMods, lookup (declared items ++ env) (some e.1) = some e.2) := by
  simp only [tagOkB, Bool.and_eq_true] at hok
  obtain ⟨⟨⟨⟨⟨⟨⟨⟨h1, h2⟩, h3⟩, h4⟩, h5⟩, h6⟩, h7⟩, h8⟩, h9⟩ := hok
  rw [termTag_eq fx st ns wd metas valMods h9] at htag
  obtain ⟨hd0, hfd0⟩ := nsDefault_cases'' st ns
  -- the run over the required pairs of the start tag
  have hK : KCons (tagPairs fx st ns wd metas valMods) := h7
  have hm1 : ∀ e ∈ wdPair fx (nsDefault st ns).2 wd, e ∈ tagPairs fx st ns wd metas valMods := by
    intro e he; unfold tagPairs; exact List.mem_append_left _ (List.mem_append_left _ he)
  have hm2 : ∀ e ∈ metaPairs metas, e ∈ tagPairs fx st ns wd metas valMods := by
    intro e he; unfold tagPairs; exact List.mem_append_left _ (List.mem_append_right _ he)
  have hm3 : ∀ e ∈ valMods, e ∈ tagPairs fx st ns wd metas valMods := by
    intro e he; unfold tagPairs; exact List.mem_append_right _ he
  have run := tagRestD_run fx hn _ (nsDefault st ns).2 wd metas valMods hm1 hm2 hm3
  have hst0 : StackOk (nsDefault st ns).2 := by
    rcases hd0 with h | h
    · rw [h]; exact hst
    · rw [h]
      intro q u' hm
      rcases List.mem_cons.mp hm with hm | hm
      · simp at hm
      · exact hst q u' hm
  -- items are well-formed
  have hw := wdItems_ok fx (nsDefault st ns).2 wd hst0 h6
  have hmo := metaItems_ok fx metas _ hw.2 h4
  have hrest : (∀ i ∈ (tagRestD fx (nsDefault st ns).2 wd metas valMods).1, ItemOk i) ∧
      StackOk (tagRestD fx (nsDefault st ns).2 wd metas valMods).2 := by
    unfold tagRestD
    simp only
    split
    · have he := prefixData_ok fx [] (toPfxData valMods) _ hmo.2 (modsOkB_sound _ h5)
      refine ⟨?_, he.2⟩
      intro i hi
      rcases List.mem_append.mp hi with hi | hi
      · rcases List.mem_append.mp hi with hi | hi
        · exact hw.1 i hi
        · exact hmo.1 i hi
      · exact he.1 i hi
    · refine ⟨?_, hmo.2⟩
      intro i hi
      simp only [List.append_nil] at hi
      rcases List.mem_append.mp hi with hi | hi
      · exact hw.1 i hi
      · exact hmo.1 i hi
  have hinv := run.inv hK [] _ rfl ⟨by simp, by simp⟩
  have hstack := run.stack
  have hsome := run.declared_some
  have hfd := run.findDefault
  have hndr : ((declared (tagRestD fx (nsDefault st ns).2 wd metas valMods).1).map (·.1)).Nodup := by
    have := hinv.1
    rw [List.append_nil, List.map_reverse, (List.reverse_perm _).nodup_iff] at this
    exact this
  -- attributes resolve at the end of the start tag
  have hres : AttrsResolve (tagRestD fx (nsDefault st ns).2 wd metas valMods).2 (wdO wd ++ metas.map DMeta.toOAttr)
      (attrsOf (tagRestD fx (nsDefault st ns).2 wd metas valMods).1) := by
    have hextra : ∀ (stm : NsStack), Stable (tagPairs fx st ns wd metas valMods) stm
        (if fx.termNs = true then valModItems fx stm valMods else (([] : List Item), stm)).2 := by
      intro stm
      split
      · exact (prefixData_run fx _ [] _ stm (by rw [pairsOf_toPfxData]; exact hm3)).stable
      · exact fun _ _ h _ => h
    have hextraA : ∀ (stm : NsStack), attrsOf (if fx.termNs = true then valModItems fx stm valMods else (([] : List Item), stm)).1 = [] := by
      intro stm
      split
      · exact prefixData_attrsOf fx [] _ stm
      · rfl
    unfold tagRestD
    simp only [attrsOf_append, hextraA, List.append_nil]
    have hmr := metaItems_resolve fx _ hK (if fx.termNs = true then valModItems fx (metaItems fx (wdItems fx (nsDefault st ns).2 wd).2 metas).2 valMods
        else (([] : List Item), (metaItems fx (wdItems fx (nsDefault st ns).2 wd).2 metas).2)).2 metas (wdItems fx (nsDefault st ns).2 wd).2 hm2 (hextra _)
    rw [wdItems_attrsOf]
    cases wd with
    | none => simpa [wdO] using hmr
    | some x =>
      obtain ⟨u, p⟩ := x
      simp only [wdO, List.cons_append, List.nil_append, AttrsResolve]
      refine ⟨trivial, trivial, ⟨_, rfl, ?_⟩, hmr⟩
      rw [lookup_some_eq]
      have hmem : ((nsPrefixed fx [] (nsDefault st ns).2 u p false).1, u) ∈ tagPairs fx st ns (some (u, p)) metas valMods :=
        hm1 _ (by simp [wdPair])
      have hc := consistent_compat hK hmem
      have hs := step_wd fx hn (tagPairs fx st ns (some (u, p)) metas valMods) (nsDefault st ns).2 u p
      have h0 : findPrefix (nsPrefixed fx [] (nsDefault st ns).2 u p false).1 (wdItems fx (nsDefault st ns).2 (some (u, p))).2 = some u := by
        simpa [wdItems] using hs.resolves
      exact hextra _ _ _ ((metaItems_run fx _ metas _ hm2).stable _ _ h0 hc) hc
  -- values of annotations (and of the element, when they go through xml_print_ns) resolve
  have hvals : (∀ m ∈ metas, ∀ e ∈ m.valMods, findPrefix e.1 (tagRestD fx (nsDefault st ns).2 wd metas valMods).2 = some e.2) ∧
      (fx.termNs = true → ∀ e ∈ valMods, findPrefix e.1 (tagRestD fx (nsDefault st ns).2 wd metas valMods).2 = some e.2) := by
    unfold tagRestD
    simp only
    refine ⟨?_, ?_⟩
    · refine metaItems_values fx _ hK _ metas (wdItems fx (nsDefault st ns).2 wd).2 hm2 ?_
      split
      · exact (prefixData_run fx _ [] _ _ (by rw [pairsOf_toPfxData]; exact hm3)).stable
      · exact fun _ _ h _ => h
    · intro ht e he
      rw [if_pos ht]
      exact prefixData_resolves fx _ [] hK (toPfxData valMods) _ (by rw [pairsOf_toPfxData]; exact hm3) e
        (by rw [pairsOf_toPfxData]; exact he)
  -- put the default-namespace declaration in front
  simp only [Prod.mk.injEq] at htag
  obtain ⟨hitems, hst'⟩ := htag
  subst hitems; subst hst'
  have hall : (∀ i ∈ (nsDefault st ns).1 ++ (tagRestD fx (nsDefault st ns).2 wd metas valMods).1, ItemOk i) := by
    intro i hi
    rcases List.mem_append.mp hi with hi | hi
    · rcases hd0 with h | h
      · rw [h] at hi; cases hi
      · rw [h] at hi
        simp only [List.mem_singleton] at hi
        subst hi
        exact noCtlB_sound _ h2
    · exact hrest.1 i hi
  have hnd : ((declared ((nsDefault st ns).1 ++ (tagRestD fx (nsDefault st ns).2 wd metas valMods).1)).map (·.1)).Nodup ∧
      (tagRestD fx (nsDefault st ns).2 wd metas valMods).2 =
        (declared ((nsDefault st ns).1 ++ (tagRestD fx (nsDefault st ns).2 wd metas valMods).1)).reverse ++ st := by
    simp only [declared_append]
    rcases hd0 with h | h
    · rw [h] at hstack hndr hsome ⊢
      simp only [declared, List.nil_append]
      exact ⟨hndr, hstack⟩
    · rw [h] at hstack hndr hsome ⊢
      simp only [declared, List.cons_append, List.nil_append, List.map_cons, List.nodup_cons]
      refine ⟨⟨?_, hndr⟩, ?_⟩
      · intro hm
        obtain ⟨e, he, he1⟩ := List.mem_map.mp hm
        exact hsome e he he1
      · rw [hstack]; simp
  have heq' : EnvEq (declared ((nsDefault st ns).1 ++ (tagRestD fx (nsDefault st ns).2 wd metas valMods).1) ++ env)
      (tagRestD fx (nsDefault st ns).2 wd metas valMods).2 := by
    rw [hnd.2]; exact envEq_push env st _ heq hnd.1
  have hra := resolveAttrs_items _ _ heq' ((nsDefault st ns).1 ++ (tagRestD fx (nsDefault st ns).2 wd metas valMods).1)
    (wdO wd ++ metas.map DMeta.toOAttr) hall
    (by
      rw [attrsOf_append]
      have : attrsOf (nsDefault st ns).1 = [] := by rcases hd0 with h | h <;> simp [h, attrsOf]
      rw [this]; exact hres)
    (by
      intro a ha
      rcases List.mem_append.mp ha with ha | ha
      · cases wd with
        | none => simp [wdO] at ha
        | some x => obtain ⟨u, p⟩ := x; simp [wdO] at ha; subst ha; rfl
      · obtain ⟨m, _, rfl⟩ := List.mem_map.mp ha; rfl)
  rw [viewAttr_oattrs] at hra
  have hfd' : findDefault (tagRestD fx (nsDefault st ns).2 wd metas valMods).2 = some ns := by rw [hfd]; exact hfd0
  refine ⟨nameOkB_sound _ h1, noCtlB_sound _ h3, hall, hnd.1, hra, h8, ?_, heq', hrest.2, hfd', ?_, ?_⟩
  · rw [heq' none, lookup_none_eq, hfd']; rfl
  · intro m hm e he
    rw [heq' (some e.1), lookup_some_eq]; exact hvals.1 m hm e he
  · intro ht e he
    rw [heq' (some e.1), lookup_some_eq]; exact hvals.2 ht e he

/-! ### the induction over the forest -/

mutual
def dcost : DNode → Nat
  | .term _ _ _ _ _ _ => 3
  | .inner _ _ _ kids => 2 + dcosts kids
  | .opaq o => ocost o
def dcosts : List DNode → Nat
  | [] => 1
  | n :: r => 1 + dcost n + dcosts r
end

theorem opaqHyp (fx : Fixes) (st : NsStack) (o : ONode) (h : dnodeOkB fx st (.opaq o) = true) :
    ONodeOk (!fx.undeclare) (findDefault st).isSome o := by
  unfold dnodeOkB at h
  exact onodeOkB_sound _ _ o h

theorem printDNode_head2 (fx : Fixes) (st : NsStack) (n : DNode) (hok : dnodeOkB fx st n = true) :
    ∃ b t, printDNode fx st n = 60 :: b :: t ∧ b ≠ 47 := by
  have key : ∀ (name : Bytes), nameOkB name = true → ∃ b t, name = b :: t ∧ b ≠ 47 := by
    intro name h
    have hnm := nameOkB_sound _ h
    cases name with
    | nil => exact absurd rfl hnm.1
    | cons b t => exact ⟨b, t, rfl, (nameByte_props b (hnm.2 b (by simp))).2.1⟩
  cases n with
  | term ns name wd metas value valMods =>
    unfold dnodeOkB at hok
    simp only [tagOkB, Bool.and_eq_true] at hok
    obtain ⟨b, t, rfl, hb⟩ := key name hok.1.1.1.1.1.1.1.1
    unfold printDNode
    simp only
    split <;> exact ⟨b, _, rfl, hb⟩
  | inner ns name metas kids =>
    unfold dnodeOkB at hok
    simp only [tagOkB, Bool.and_eq_true] at hok
    obtain ⟨b, t, rfl, hb⟩ := key name hok.1.1.1.1.1.1.1.1.1
    unfold printDNode
    simp only
    split <;> exact ⟨b, _, rfl, hb⟩
  | opaq o =>
    unfold printDNode
    exact printONode_head2 fx st o _ _ (opaqHyp fx st o hok)

mutual
theorem parseElem_dprint (fx : Fixes) (hn : fx.numbered = true) (hr : fx.reserved = true) (env st : NsStack)
    (heq : EnvEq env st) (hst : StackOk st) (n : DNode) (hok : dnodeOkB fx st n = true) (rest : Bytes) (fuel : Nat)
    (hf : dcost n ≤ fuel) : parseElem env fuel (printDNode fx st n ++ rest) = some (dview n, rest) := by
  cases n with
  | term ns name wd metas value valMods =>
    obtain ⟨f, rfl⟩ : ∃ f, fuel = f + 1 := ⟨fuel - 1, by simp [dcost] at hf; omega⟩
    obtain ⟨items, st', htag⟩ : ∃ items st', termTagItems fx st ns wd metas valMods = (items, st') := ⟨_, _, rfl⟩
    unfold dnodeOkB at hok
    obtain ⟨hname, hval, hall, hnd, hra, hdup, hdflt, _, _, _, _, _⟩ :=
      dataTag fx hn env st heq hst ns name wd metas value valMods hok items st' htag
    obtain ⟨hsc, hopen⟩ := parseElem_items env name hname items _ ns f hall hnd hra hdup hdflt
    by_cases he : value = []
    · subst he
      have := hsc rest
      simpa [printDNode, htag, dview, sSlashGt, List.append_assoc] using this
    · have hemp : value.isEmpty = false := by cases value <;> simp_all
      have hc := parseContent_text_then (declared items ++ env) value he hval (47 :: (name ++ 62 :: rest)) (f - 1) [] []
          (60 :: 47 :: (name ++ 62 :: rest))
          (by
            obtain ⟨g, hg⟩ : ∃ g, f - 1 = g + 1 := ⟨f - 2, by simp [dcost] at hf; omega⟩
            rw [hg]; simp [parseContent])
      have hf1 : f - 1 + 1 = f := by simp [dcost] at hf; omega
      rw [hf1] at hc
      have := hopen _ _ _ rest hc
      simpa [printDNode, htag, dview, sLtSlash, hemp, List.append_assoc] using this
  | inner ns name metas kids =>
    obtain ⟨f, rfl⟩ : ∃ f, fuel = f + 1 := ⟨fuel - 1, by simp [dcost] at hf; omega⟩
    obtain ⟨items, st', htag⟩ : ∃ items st', dataOpenItems fx st ns none metas = (items, st') := ⟨_, _, rfl⟩
    unfold dnodeOkB at hok
    simp only [Bool.and_eq_true] at hok
    obtain ⟨hok1, hkids⟩ := hok
    rw [htag] at hkids
    obtain ⟨hname, _, hall, hnd, hra, hdup, hdflt, heq', hst', _, _, _⟩ :=
      dataTag fx hn env st heq hst ns name none metas [] [] hok1 items st' (by rw [← dataOpen_eq]; exact htag)
    simp only [viewWd, List.nil_append] at hra hdup
    obtain ⟨hsc, hopen⟩ := parseElem_items env name hname items _ ns f hall hnd hra hdup hdflt
    cases kids with
    | nil =>
      have := hsc rest
      simpa [printDNode, htag, dview, dviewList, sSlashGt, List.append_assoc] using this
    | cons k ks =>
      have hc := parseContent_dprint fx hn hr (declared items ++ env) st' heq' hst' (k :: ks) hkids
        (60 :: 47 :: (name ++ 62 :: rest)) (Or.inr ⟨_, rfl⟩) f (by simp [dcost] at hf; omega)
      have := hopen _ _ _ rest hc
      simpa [printDNode, htag, dview, sLtSlash, List.append_assoc] using this
  | opaq o =>
    have ho := opaqHyp fx st o hok
    have := parseElem_oprint fx hn hr env st heq hst (!fx.undeclare) (by intro h; simpa using h) (findDefault st).isSome
      (by intro h; cases hfd : findDefault st <;> simp_all) o ho rest fuel (by simpa [dcost] using hf)
    simpa [printDNode, dview] using this
theorem parseContent_dprint (fx : Fixes) (hn : fx.numbered = true) (hr : fx.reserved = true) (env st : NsStack)
    (heq : EnvEq env st) (hst : StackOk st) (l : List DNode) (hl : dlistOkB fx st l = true) (tail : Bytes)
    (htail : tail = [] ∨ ∃ r, tail = 60 :: 47 :: r) (fuel : Nat) (hf : dcosts l ≤ fuel) :
    parseContent env fuel (printDList fx st l ++ tail) = some ([], dviewList l, tail) := by
  cases l with
  | nil =>
    obtain ⟨f, rfl⟩ : ∃ f, fuel = f + 1 := ⟨fuel - 1, by simp [dcosts] at hf; omega⟩
    rcases htail with rfl | ⟨r, rfl⟩ <;> simp [printDList, parseContent, dviewList]
  | cons k ks =>
    unfold dlistOkB at hl
    simp only [Bool.and_eq_true] at hl
    obtain ⟨hk, hks⟩ := hl
    obtain ⟨f, rfl⟩ : ∃ f, fuel = f + 1 := ⟨fuel - 1, by simp [dcosts] at hf; omega⟩
    have h1 := parseElem_dprint fx hn hr env st heq hst k hk (printDList fx st ks ++ tail) f (by simp [dcosts] at hf; omega)
    have h2 := parseContent_dprint fx hn hr env st heq hst ks hks tail htail f (by simp [dcosts] at hf; omega)
    obtain ⟨b, t, hp, hb⟩ := printDNode_head2 fx st k hk
    have hb' : ¬ (some b = some (47 : UInt8)) := by simpa using hb
    simp only [printDList, List.append_assoc]
    rw [hp] at h1 ⊢
    simp only [List.cons_append] at h1 ⊢
    unfold parseContent
    simp [hb', h1, h2, dviewList]
end

mutual
theorem dcost_le_len (fx : Fixes) (st : NsStack) (n : DNode) (hok : dnodeOkB fx st n = true) :
    dcost n + 1 ≤ (printDNode fx st n).length := by
  cases n with
  | term ns name wd metas value valMods =>
    unfold dnodeOkB at hok
    simp only [tagOkB, Bool.and_eq_true] at hok
    have := name_len_pos name (nameOkB_sound _ hok.1.1.1.1.1.1.1.1)
    unfold printDNode
    simp only [dcost]
    split <;> simp [sSlashGt, sLtSlash] <;> omega
  | inner ns name metas kids =>
    unfold dnodeOkB at hok
    simp only [tagOkB, Bool.and_eq_true] at hok
    have := name_len_pos name (nameOkB_sound _ hok.1.1.1.1.1.1.1.1.1)
    have ih := dcosts_le_len fx (dataOpenItems fx st ns none metas).2 kids hok.2
    unfold printDNode
    simp only [dcost]
    split
    · rename_i hke
      have : kids = [] := by cases kids <;> simp_all
      subst this
      simp [sSlashGt, dcosts]; omega
    · simp [sLtSlash] at ih ⊢; omega
  | opaq o =>
    have := ocost_le_len fx st _ _ o (opaqHyp fx st o hok)
    simpa [printDNode, dcost] using this
theorem dcosts_le_len (fx : Fixes) (st : NsStack) (l : List DNode) (hl : dlistOkB fx st l = true) :
    dcosts l ≤ (printDList fx st l).length + 1 := by
  cases l with
  | nil => simp [dcosts, printDList]
  | cons k ks =>
    unfold dlistOkB at hl
    simp only [Bool.and_eq_true] at hl
    have h1 := dcost_le_len fx st k hl.1
    have h2 := dcosts_le_len fx st ks hl.2
    simp [dcosts, printDList] at h1 h2 ⊢; omega
end

/-- The document the data printer emits for a forest of data nodes with metadata and opaque children (shrink mode) is well-formed
    XML with namespaces, and a namespace-aware reader recovers exactly the elements with their expanded names, their attributes
    with expanded names and values, and their character data. -/
theorem parseDoc_printDData (fx : Fixes) (hn : fx.numbered = true) (hr : fx.reserved = true) (forest : List DNode)
    (h : dataOk fx forest = true) : parseDoc (printDData fx forest) = some (dviewList forest) := by
  have hc := dcosts_le_len fx [] forest h
  have := parseContent_dprint fx hn hr [] [] (fun _ => rfl) (by intro q u hm; simp at hm) forest h []
    (Or.inl rfl) ((printDData fx forest).length + 2) (by simp [printDData] at hc ⊢; omega)
  simp [parseDoc, printDData] at this ⊢
  simp [this]

end LyModel.XmlTree
