import LyModel.XmlTree.Opaq
import LyModel.XmlTree.Spec
/-!
# `opaqOk`: the decidable well-formedness predicate on the view of an opaque forest (hypothesis of `opaque_document_faithful`)

Executable (driver op `opaqcheck`), so that the check evaluates THE hypothesis of the theorem on every generated forest.  Its
meaning as a proposition is `OListOk false` (`OpaqRoundtrip.lean`); `opaqOk_sound` (`OpaqFaithful.lean`) connects the two.
-/
namespace LyModel.XmlTree
open LyModel LyModel.XmlDoc

/-- an XML name without colon: non-empty, name bytes only -/
def nameOkB (n : Bytes) : Bool := !n.isEmpty && n.all isNameByte
/-- no control character XML 1.0 forbids (everything below U+0020 except TAB, LF, CR) -/
def noCtlB (s : Bytes) : Bool := s.all fun b => !(b < 32 && b != 9 && b != 10 && b != 13)
/-- a prefix: an XML name other than `xmlns` -/
def pfxOkB (p : Bytes) : Bool := nameOkB p && p != xmlnsB
def optAll (f : Bytes → Bool) : Option Bytes → Bool
  | none => true
  | some x => f x
def pfxDataOkB (pd : PfxData) : Bool := pd.all fun e => optAll pfxOkB e.1 && noCtlB e.2
/-- name and prefix are XML names, a prefix exactly when there is a namespace, an unprefixed attribute is not called `xmlns`,
    no forbidden control characters -/
def attrOkB (a : OAttr) : Bool :=
  nameOkB a.name && noCtlB a.value && (a.pfx.isSome == a.ns.isSome) && optAll pfxOkB a.pfx && optAll noCtlB a.ns &&
    (a.pfx.isSome || a.name != xmlnsB) && pfxDataOkB a.valPfx
/-- one uri per prefix among the value prefix data of one start tag -/
def consistentB (R : Reserved) : Bool := R.all fun e => R.all fun e' => e.1 != e'.1 || e.2 == e'.2
/-- what a namespace-aware reader should report for an attribute: (namespace or empty, name, value) -/
def viewAttr (a : OAttr) : Bytes × Bytes × Bytes := (a.ns.getD [], a.name, a.value)

mutual
/-- what a namespace-aware reader should report for an opaque node -/
def oview : ONode → XElem
  | .mk name _ ns value _ attrs kids => .mk (ns.getD []) name (attrs.map viewAttr) value (oviewList kids)
def oviewList : List ONode → List XElem
  | [] => []
  | n :: r => oview n :: oviewList r
end

mutual
/-- `inD`: an ancestor has a namespace (a default namespace is in scope).  Names are XML names; if `strict`, an element without
    namespace has no ancestor with one; attributes are `attrOkB` and pairwise different by expanded name; the value prefix data of the node and
    its attributes use XML names other than `xmlns` and give one uri per prefix; no forbidden control characters -/
def onodeOkB (strict inD : Bool) : ONode → Bool
  | .mk name _ ns value valPfx attrs kids =>
    nameOkB name && (ns.isSome || !inD || !strict) && optAll noCtlB ns && noCtlB value && pfxDataOkB valPfx && attrs.all attrOkB &&
      noDupAttrs (attrs.map viewAttr) && consistentB (reservedOf valPfx attrs) && olistOkB strict (inD || ns.isSome) kids
def olistOkB (strict inD : Bool) : List ONode → Bool
  | [] => true
  | n :: r => onodeOkB strict inD n && olistOkB strict inD r
end

/-- the hypothesis of `opaque_document_faithful` -/
def opaqOk (forest : List ONode) : Bool := olistOkB true false forest

/-- … without the restriction on elements in no namespace (hypothesis of `opaque_document_faithful_any_namespace`) -/
def opaqOkAnyNs (forest : List ONode) : Bool := olistOkB false false forest

mutual
/-- the names of the conjuncts of `onodeOkB` that fail somewhere in the tree (for the distribution the check prints) -/
def onodeWhy (inD : Bool) : ONode → List String
  | .mk name _ ns value valPfx attrs kids =>
    (if nameOkB name then [] else ["name"]) ++ (if ns.isSome || !inD then [] else ["no-namespace-under-default"]) ++
    (if optAll noCtlB ns && noCtlB value then [] else ["control-char"]) ++
    (if pfxDataOkB valPfx && attrs.all attrOkB then [] else ["attr-or-prefix-data"]) ++
    (if noDupAttrs (attrs.map viewAttr) then [] else ["duplicate-attr"]) ++
    (if consistentB (reservedOf valPfx attrs) then [] else ["inconsistent-value-prefixes"]) ++ olistWhy (inD || ns.isSome) kids
def olistWhy (inD : Bool) : List ONode → List String
  | [] => []
  | n :: r => onodeWhy inD n ++ olistWhy inD r
end

end LyModel.XmlTree
