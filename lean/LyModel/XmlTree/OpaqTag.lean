import LyModel.XmlTree.OpaqLemmas
import LyModel.XmlTree.Spec
/-! The start tag the model prints for an opaque node is a `Run`; the two start-tag theorems (restated in `Props/C12.lean`). -/
set_option linter.unusedSimpArgs false
set_option linter.unusedVariables false
namespace LyModel.XmlTree
open LyModel

/-- the consistency hypothesis of a `Run` over the reserved pairs `R` -/
abbrev KCons (R : Reserved) : Prop := consistent R = true

theorem nsPrefixed_attrsOf (fx : Fixes) (R : Reserved) (st : NsStack) (ns pfx : Bytes) (req : Bool) :
    attrsOf (nsPrefixed fx R st ns pfx req).2.1 = [] := by
  unfold nsPrefixed
  split <;> simp [attrsOf]

theorem prefixData_attrsOf (fx : Fixes) (R : Reserved) : ∀ (pd : PfxData) (st : NsStack), attrsOf (prefixData fx R st pd).1 = []
  | [], _ => rfl
  | (none, _) :: r, st => by simpa [prefixData] using prefixData_attrsOf fx R r st
  | (some p, u) :: r, st => by
    simp [prefixData, attrsOf_append, nsPrefixed_attrsOf, prefixData_attrsOf fx R r]

/-- REQUIRED calls do not look at the start tag being printed nor at the variant of the code -/
theorem prefixData_indep (fx fx' : Fixes) (R R' : Reserved) : ∀ (pd : PfxData) (st : NsStack),
    prefixData fx R st pd = prefixData fx' R' st pd
  | [], _ => rfl
  | (none, _) :: r, st => by simpa [prefixData] using prefixData_indep fx fx' R R' r st
  | (some p, u) :: r, st => by
    simp only [prefixData, nsPrefixed_required]
    split <;> simp [prefixData_indep fx fx' R R' r]

theorem prefixData_run (fx : Fixes) (R R' : Reserved) : ∀ (pd : PfxData) (st : NsStack), (∀ e ∈ pairsOf pd, e ∈ R) →
    Run R (KCons R) st (prefixData fx R' st pd).1 (prefixData fx R' st pd).2
  | [], st, _ => Run.nil st
  | (none, _) :: r, st, h => by simpa [prefixData] using prefixData_run fx R R' r st (by simpa [pairsOf] using h)
  | (some p, u) :: r, st, h => by
    have hm : (p, u) ∈ R := h (p, u) (by simp [pairsOf])
    have hs := (step_required fx R R' st p u hm).2
    have ih := prefixData_run fx R R' r (nsPrefixed fx R' st u p true).2.2 (fun e he => h e (by simp [pairsOf, he]))
    simp only [prefixData]
    exact Run.step hs (fun hK => consistent_compat hK hm) ih

/-- every pair of a prefix-data set resolves after the set was printed (consistent values) -/
theorem prefixData_resolves (fx : Fixes) (R R' : Reserved) (hK : KCons R) : ∀ (pd : PfxData) (st : NsStack),
    (∀ e ∈ pairsOf pd, e ∈ R) → ∀ e ∈ pairsOf pd, findPrefix e.1 (prefixData fx R' st pd).2 = some e.2
  | [], _, _, e, he => by simp [pairsOf] at he
  | (none, _) :: r, st, h, e, he => by
    simpa [prefixData] using prefixData_resolves fx R R' hK r st (by simpa [pairsOf] using h) e (by simpa [pairsOf] using he)
  | (some p, u) :: r, st, h, e, he => by
    have hm : (p, u) ∈ R := h (p, u) (by simp [pairsOf])
    have hsub : ∀ e ∈ pairsOf r, e ∈ R := fun e he => h e (by simp [pairsOf, he])
    simp only [prefixData]
    rcases List.mem_cons.mp (by simpa [pairsOf] using he : e ∈ (p, u) :: pairsOf r) with rfl | he'
    · have hs := (step_required fx R R' st p u hm).2
      exact (prefixData_run fx R R' r _ hsub).stable p u hs.resolves (consistent_compat hK hm)
    · exact prefixData_resolves fx R R' hK r _ hsub e he'

theorem attrName_run (fx : Fixes) (hn : fx.numbered = true) (hr : fx.reserved = true) (R : Reserved) (st : NsStack) (a : OAttr) :
    Run R (KCons R) st (attrName fx R st a).2.1 (attrName fx R st a).2.2 := by
  unfold attrName
  split
  · rename_i p u _ _
    have hs := step_suggested fx hn hr R st u p
    have := Run.step (K := KCons R) hs.1 (fun _ => hs.2) (Run.nil _)
    simpa using this
  · exact Run.nil st

theorem attrName_attrsOf (fx : Fixes) (R : Reserved) (st : NsStack) (a : OAttr) : attrsOf (attrName fx R st a).2.1 = [] := by
  unfold attrName
  split
  · exact nsPrefixed_attrsOf ..
  · rfl

theorem attrItems_run (fx : Fixes) (hn : fx.numbered = true) (hr : fx.reserved = true) (R : Reserved) :
    ∀ (as : List OAttr) (st : NsStack), (∀ a ∈ as, ∀ e ∈ pairsOf a.valPfx, e ∈ R) →
      Run R (KCons R) st (attrItems fx R st as).1 (attrItems fx R st as).2
  | [], st, _ => Run.nil st
  | a :: as, st, h => by
    simp only [attrItems]
    rw [List.append_assoc]
    refine Run.append (attrName_run fx hn hr R st a) (Run.append (prefixData_run fx R R _ _ (h a (by simp))) ?_)
    exact Run.attr _ _ _ (attrItems_run fx hn hr R as _ (fun b hb => h b (by simp [hb])))

/-- what is written for the attributes, against the attributes: the names and values in order; a prefix is written exactly for
    an attribute with prefix and module_ns, and it resolves to that module_ns in `stEnd` -/
def AttrsResolve (stEnd : NsStack) : List OAttr → List Item → Prop
  | [], [] => True
  | a :: as, .attr pref name v :: is =>
    name = a.name ∧ v = a.value ∧
      (match a.pfx, a.ns with
       | some _, some u => ∃ q, pref = some q ∧ XmlDoc.lookup stEnd (some q) = some u
       | _, _ => pref = none) ∧
      AttrsResolve stEnd as is
  | _, _ => False

theorem lookup_some_eq (q : Bytes) : ∀ (st : NsStack), XmlDoc.lookup st (some q) = findPrefix q st
  | [] => rfl
  | (none, u) :: r => by
    have := lookup_some_eq q r
    simp [XmlDoc.lookup, findPrefix, List.find?] at this ⊢
    exact this
  | (some p, u) :: r => by
    have ih := lookup_some_eq q r
    unfold XmlDoc.lookup at ih ⊢
    rw [findPrefix_cons_some]
    by_cases e : p = q
    · subst e; simp [List.find?]
    · have hb : ((some p : Option Bytes) == some q) = false := by simp [e]
      simp only [List.find?, hb, e, if_false]; exact ih

theorem attrItems_resolve (fx : Fixes) (hn : fx.numbered = true) (hr : fx.reserved = true) (R : Reserved) (stEnd : NsStack) :
    ∀ (as : List OAttr) (st : NsStack), (∀ a ∈ as, ∀ e ∈ pairsOf a.valPfx, e ∈ R) →
      Stable R (attrItems fx R st as).2 stEnd → AttrsResolve stEnd as (attrsOf (attrItems fx R st as).1)
  | [], st, _, _ => by simp [attrItems, attrsOf, AttrsResolve]
  | a :: as, st, h, hst => by
    have hsub : ∀ b ∈ as, ∀ e ∈ pairsOf b.valPfx, e ∈ R := fun b hb => h b (by simp [hb])
    simp only [attrItems] at hst ⊢
    rw [attrsOf_append, attrsOf_append, attrName_attrsOf, prefixData_attrsOf]
    simp only [List.nil_append, attrsOf, AttrsResolve]
    refine ⟨trivial, trivial, ?_, attrItems_resolve fx hn hr R stEnd as _ hsub hst⟩
    -- the rest of the start tag after the name of this attribute
    have hrest : Stable R (attrName fx R st a).2.2 stEnd := by
      intro q u hq hc
      have h1 := (prefixData_run fx R R a.valPfx (attrName fx R st a).2.2 (h a (by simp))).stable q u hq hc
      have h2 := (attrItems_run fx hn hr R as _ hsub).stable q u h1 hc
      exact hst q u h2 hc
    cases hp : a.pfx with
    | none => simp [attrName, hp]
    | some p =>
      cases hu : a.ns with
      | none => simp [attrName, hp, hu]
      | some u =>
        simp only [attrName, hp, hu] at hrest ⊢
        have hs := step_suggested fx hn hr R st u p
        refine ⟨_, rfl, ?_⟩
        rw [lookup_some_eq]
        exact hrest _ u hs.1.resolves hs.2

/-! ### the whole start tag -/

theorem mem_reservedOf_node (valPfx : PfxData) (attrs : List OAttr) : ∀ e ∈ pairsOf valPfx, e ∈ reservedOf valPfx attrs := by
  intro e he; unfold reservedOf; exact List.mem_append_left _ he

theorem mem_reservedOf_attr (valPfx : PfxData) (attrs : List OAttr) :
    ∀ a ∈ attrs, ∀ e ∈ pairsOf a.valPfx, e ∈ reservedOf valPfx attrs := by
  intro a ha e he; unfold reservedOf
  exact List.mem_append_right _ (List.mem_flatMap.mpr ⟨a, ha, he⟩)

/-- the part of the start tag after the default-namespace declaration -/
def tagRest (fx : Fixes) (st0 : NsStack) (value : Bytes) (valPfx : PfxData) (attrs : List OAttr) : List Item × NsStack :=
  let r1 := attrItems fx (reservedOf valPfx attrs) st0 attrs
  if value.isEmpty then r1 else
    let r2 := prefixData fx [] r1.2 valPfx
    (r1.1 ++ r2.1, r2.2)

theorem startTagItems_eq (fx : Fixes) (st : NsStack) (ns : Option Bytes) (value : Bytes) (valPfx : PfxData) (attrs : List OAttr) :
    startTagItems fx st ns value valPfx attrs =
      ((nodeDefault fx st ns).1 ++ (tagRest fx (nodeDefault fx st ns).2 value valPfx attrs).1,
       (tagRest fx (nodeDefault fx st ns).2 value valPfx attrs).2) := by
  unfold startTagItems openItems tagRest
  split <;> simp [List.append_assoc]

theorem tagRest_run (fx : Fixes) (hn : fx.numbered = true) (hr : fx.reserved = true) (st0 : NsStack) (value : Bytes)
    (valPfx : PfxData) (attrs : List OAttr) :
    Run (reservedOf valPfx attrs) (KCons (reservedOf valPfx attrs)) st0
      (tagRest fx st0 value valPfx attrs).1 (tagRest fx st0 value valPfx attrs).2 := by
  have h1 := attrItems_run fx hn hr (reservedOf valPfx attrs) attrs st0 (mem_reservedOf_attr valPfx attrs)
  unfold tagRest
  split
  · exact h1
  · exact Run.append h1 (prefixData_run fx _ [] valPfx _ (mem_reservedOf_node valPfx attrs))

theorem nsDefault_cases (st : NsStack) (u : Bytes) :
    (nsDefault st u = ([], st) ∧ findDefault st = some u) ∨
      (nsDefault st u = ([Item.decl none u], (none, u) :: st) ∧ findDefault st ≠ some u) := by
  by_cases h : findDefault st = some u
  · exact Or.inl ⟨by simp [nsDefault, h], h⟩
  · exact Or.inr ⟨by simp [nsDefault, h], h⟩

theorem nodeDefault_none (fx : Fixes) (st : NsStack) :
    nodeDefault fx st none = if (fx.undeclare && defaultInScope st) = true then nsDefault st [] else ([], st) := rfl

theorem nodeDefault_cases (fx : Fixes) (st : NsStack) (ns : Option Bytes) :
    nodeDefault fx st ns = ([], st) ∨ ∃ u, nodeDefault fx st ns = ([Item.decl none u], (none, u) :: st) := by
  cases ns with
  | none =>
    rw [nodeDefault_none]
    split
    · rcases nsDefault_cases st [] with h | h
      · exact Or.inl h.1
      · exact Or.inr ⟨[], h.1⟩
    · exact Or.inl rfl
  | some u =>
    rcases nsDefault_cases st u with h | h
    · exact Or.inl h.1
    · exact Or.inr ⟨u, h.1⟩

theorem nodeDefault_attrsOf (fx : Fixes) (st : NsStack) (ns : Option Bytes) : attrsOf (nodeDefault fx st ns).1 = [] := by
  rcases nodeDefault_cases fx st ns with h | ⟨u, h⟩ <;> simp [h, attrsOf]

/-- (a) no prefix is declared twice in the start tag, and the stack handed to the content is the declarations of the start tag
    on top of the inherited stack -/
theorem startTag_nodup (fx : Fixes) (hn : fx.numbered = true) (hr : fx.reserved = true) (st : NsStack) (ns : Option Bytes)
    (value : Bytes) (valPfx : PfxData) (attrs : List OAttr) (hK : consistent (reservedOf valPfx attrs) = true) :
    ((declared (startTagItems fx st ns value valPfx attrs).1).map (·.1)).Nodup ∧
      (startTagItems fx st ns value valPfx attrs).2 = (declared (startTagItems fx st ns value valPfx attrs).1).reverse ++ st := by
  rw [startTagItems_eq]
  have run := tagRest_run fx hn hr (nodeDefault fx st ns).2 value valPfx attrs
  have hinv := run.inv hK [] _ rfl ⟨by simp, by simp⟩
  have hstack := run.stack
  have hsome := run.declared_some
  have hnd : ((declared (tagRest fx (nodeDefault fx st ns).2 value valPfx attrs).1).map (·.1)).Nodup := by
    have := hinv.1
    rw [List.append_nil, List.map_reverse, (List.reverse_perm _).nodup_iff] at this
    exact this
  simp only [declared_append]
  rcases nodeDefault_cases fx st ns with h | ⟨u, h⟩
  · rw [h] at hstack hnd hsome ⊢
    simp only [declared, List.nil_append]
    exact ⟨hnd, hstack⟩
  · rw [h] at hstack hnd hsome ⊢
    simp only [declared, List.cons_append, List.nil_append, List.map_cons, List.nodup_cons]
    refine ⟨⟨?_, hnd⟩, ?_⟩
    · intro hm
      obtain ⟨e, he, he1⟩ := List.mem_map.mp hm
      exact hsome e he he1
    · rw [hstack]; simp

/-- (b), names: the prefix written in front of an attribute name resolves, in the stack at the END of the start tag, to the
    module_ns of the attribute (no hypothesis on the values) -/
theorem startTag_attrs_resolve (fx : Fixes) (hn : fx.numbered = true) (hr : fx.reserved = true) (st : NsStack) (ns : Option Bytes)
    (value : Bytes) (valPfx : PfxData) (attrs : List OAttr) :
    AttrsResolve (startTagItems fx st ns value valPfx attrs).2 attrs (attrsOf (startTagItems fx st ns value valPfx attrs).1) := by
  rw [startTagItems_eq]
  simp only [attrsOf_append, nodeDefault_attrsOf, List.nil_append]
  have hsub := mem_reservedOf_attr valPfx attrs
  unfold tagRest
  split
  · exact attrItems_resolve fx hn hr _ _ attrs _ hsub (fun _ _ h _ => h)
  · simp only [attrsOf_append, prefixData_attrsOf, List.append_nil]
    exact attrItems_resolve fx hn hr _ _ attrs _ hsub
      (prefixData_run fx _ [] valPfx _ (mem_reservedOf_node valPfx attrs)).stable

theorem attrItems_values_resolve (fx : Fixes) (hn : fx.numbered = true) (hr : fx.reserved = true) (R : Reserved) (hK : KCons R)
    (stEnd : NsStack) : ∀ (as : List OAttr) (st : NsStack), (∀ a ∈ as, ∀ e ∈ pairsOf a.valPfx, e ∈ R) →
      Stable R (attrItems fx R st as).2 stEnd → ∀ a ∈ as, ∀ e ∈ pairsOf a.valPfx, findPrefix e.1 stEnd = some e.2
  | [], _, _, _, a, ha, _, _ => by simp at ha
  | b :: as, st, h, hst, a, ha, e, he => by
    have hsub : ∀ c ∈ as, ∀ e ∈ pairsOf c.valPfx, e ∈ R := fun c hc => h c (by simp [hc])
    simp only [attrItems] at hst
    rcases List.mem_cons.mp ha with rfl | ha'
    · have hm := h a (by simp) e he
      have h0 := prefixData_resolves fx R R hK a.valPfx (attrName fx R st a).2.2 (h a (by simp)) e he
      have hc := consistent_compat hK (p := e.1) (u := e.2) hm
      exact hst _ _ ((attrItems_run fx hn hr R as _ hsub).stable _ _ h0 hc) hc
    · exact attrItems_values_resolve fx hn hr R hK stEnd as _ hsub hst a ha' e he

/-- (b), values: every (prefix, uri) of the value prefix data of an attribute — and of the node, when its value is printed —
    resolves to its uri in the stack at the end of the start tag (consistent values) -/
theorem startTag_values_resolve (fx : Fixes) (hn : fx.numbered = true) (hr : fx.reserved = true) (st : NsStack) (ns : Option Bytes)
    (value : Bytes) (valPfx : PfxData) (attrs : List OAttr) (hK : consistent (reservedOf valPfx attrs) = true) :
    (∀ a ∈ attrs, ∀ e ∈ pairsOf a.valPfx,
        XmlDoc.lookup (startTagItems fx st ns value valPfx attrs).2 (some e.1) = some e.2) ∧
      (value.isEmpty = false → ∀ e ∈ pairsOf valPfx,
        XmlDoc.lookup (startTagItems fx st ns value valPfx attrs).2 (some e.1) = some e.2) := by
  rw [startTagItems_eq]
  simp only [lookup_some_eq]
  have hsub := mem_reservedOf_attr valPfx attrs
  have hnode := mem_reservedOf_node valPfx attrs
  unfold tagRest
  split
  · rename_i hv
    refine ⟨attrItems_values_resolve fx hn hr _ hK _ attrs _ hsub (fun _ _ h _ => h), ?_⟩
    intro hv'; rw [hv] at hv'; cases hv'
  · refine ⟨attrItems_values_resolve fx hn hr _ hK _ attrs _ hsub (prefixData_run fx _ [] valPfx _ hnode).stable, ?_⟩
    intro _ e he
    exact prefixData_resolves fx _ [] hK valPfx _ hnode e he

/-- the duplicate-declaration check of the independent reader (`XmlDoc.noDupDecls`) passes on declarations with pairwise
    different prefixes -/
theorem noDupDecls_of_nodup : ∀ (l : NsStack), (l.map (·.1)).Nodup → XmlDoc.noDupDecls l = true
  | [], _ => rfl
  | e :: r, h => by
    have h' := List.nodup_cons.mp (by simpa using h : (e.1 :: r.map (·.1)).Nodup)
    simp only [XmlDoc.noDupDecls, Bool.and_eq_true, Bool.not_eq_true', noDupDecls_of_nodup r h'.2, and_true]
    rw [List.any_eq_false]
    intro x hx hxe
    exact h'.1 (List.mem_map.mpr ⟨x, hx, by simpa using hxe⟩)

end LyModel.XmlTree
