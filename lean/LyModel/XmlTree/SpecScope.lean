import LyModel.XmlTree.Spec
/-!
# The independent XML reader, reporting the [in-scope namespaces] of every element (XML Infoset 2.2)

`parseElemS` / `parseContentS` / `parseDocS` are `parseElem` / `parseContent` / `parseDoc` of `Spec.lean` with ONE more field in the
result: the namespace environment in force for the element (its own declarations on top of the inherited ones), which is what an
application needs to interpret QNames inside attribute values and character data (`lookup scope (some prefix)`).
`XElemS.erase` forgets that field.
-/
namespace LyModel.XmlDoc
open LyModel

/-- what a namespace-aware parser reports for an element, with its in-scope namespaces -/
inductive XElemS where
  | mk (ns name : Bytes) (attrs : List (Bytes × Bytes × Bytes)) (text : Bytes) (kids : List XElemS) (scope : Env)
  deriving Repr

mutual
def XElemS.erase : XElemS → XElem
  | .mk ns name attrs text kids _ => .mk ns name attrs text (eraseL kids)
def eraseL : List XElemS → List XElem
  | [] => []
  | e :: r => e.erase :: eraseL r
end

def XElemS.scope : XElemS → Env
  | .mk _ _ _ _ _ s => s

mutual
def parseElemS (env : Env) : (fuel : Nat) → Bytes → Option (XElemS × Bytes)
  | 0, _ => none
  | fuel + 1, inp =>
    match inp with
    | 60 :: r =>
      match takeQName r with
      | none => none
      | some ((p, n), r1) =>
        match parseAttrs (r1.length + 1) r1 with
        | none => none
        | some (attrs, selfClosing, r2) =>
          let decls := declsOf attrs
          if !noDupDecls decls then none else
          let env' := decls ++ env
          match resolveAttrs env' attrs with
          | none => none
          | some ras =>
            if !noDupAttrs ras then none else
            let nsOpt : Option Bytes := match p with
              | none => some ((lookup env' none).getD [])
              | some q => lookup env' (some q)
            match nsOpt with
            | none => none
            | some ns =>
              if selfClosing then some (XElemS.mk ns n ras [] [] env', r2)
              else
                match parseContentS env' fuel r2 with
                | none => none
                | some (text, kids, r3) =>
                  match r3 with
                  | 60 :: 47 :: r4 =>
                    match takeQName r4 with
                    | some ((p', n'), r5) =>
                      if p' == p && n' == n then
                        match skipSpaces r5 with
                        | 62 :: r6 => some (XElemS.mk ns n ras text kids env', r6)
                        | _ => none
                      else none
                    | none => none
                  | _ => none
    | _ => none
def parseContentS (env : Env) : (fuel : Nat) → Bytes → Option (Bytes × List XElemS × Bytes)
  | 0, _ => none
  | fuel + 1, inp =>
    if inp.isEmpty then some ([], [], [])
    else if inp.head? = some 60 then
      if inp.tail.head? = some 47 then some ([], [], inp)
      else
        match parseElemS env fuel inp with
        | none => none
        | some (e, r') => (parseContentS env fuel r').map fun (t, ks, rest) => (t, e :: ks, rest)
    else
      match readUntil false (inp.length + 1) inp with
      | none => none
      | some (t, r') =>
        if r'.length = inp.length then none else
        (parseContentS env fuel r').map fun (t', ks, rest) => (t ++ t', ks, rest)
end

def parseDocS (inp : Bytes) : Option (List XElemS) :=
  match parseContentS [] (inp.length + 2) inp with
  | some (t, ks, []) => if t.isEmpty then some ks else none
  | _ => none

end LyModel.XmlDoc
