import LyModel.XmlTree.Lemmas
/-! The independent document reader applied to the XML tree printer's output (lemmas; the property theorem is restated in
    `Props/C12.lean`). -/
set_option linter.unusedSimpArgs false
namespace LyModel.XmlTree
open LyModel LyModel.XmlDoc LyModel.XmlText

mutual
/-- what a namespace-aware reader should report for a printed node -/
def viewOf : XNode → XElem
  | .term ns name metas v => .mk ns name (metas.map fun m => (m.ns, m.name, m.value)) v []
  | .inner ns name metas kids => .mk ns name (metas.map fun m => (m.ns, m.name, m.value)) [] (viewList kids)
def viewList : List XNode → List XElem
  | [] => []
  | n :: r => viewOf n :: viewList r
end

mutual
/-- well-formedness of the view handed to the printer (v1: no metadata): names are XML names, namespace and value strings
    contain no forbidden control characters (every `YangText` string qualifies) -/
def NodeOk : XNode → Prop
  | .term ns name metas v => NameOk name ∧ metas = [] ∧ NoCtl ns ∧ NoCtl v
  | .inner ns name metas kids => NameOk name ∧ metas = [] ∧ NoCtl ns ∧ ListOk kids
def ListOk : List XNode → Prop
  | [] => True
  | n :: r => NodeOk n ∧ ListOk r
end

mutual
def cost : XNode → Nat
  | .term _ _ _ _ => 3
  | .inner _ _ _ kids => 1 + costs kids
def costs : List XNode → Nat
  | [] => 1
  | n :: r => 1 + cost n + costs r
end

theorem printNode_head (st : NsStack) (n : XNode) : ∃ t, printNode st n = 60 :: t := by
  cases n with
  | term ns name metas v => simp only [printNode, printOpen]; split <;> exact ⟨_, rfl⟩
  | inner ns name metas kids => simp only [printNode, printOpen]; split <;> exact ⟨_, rfl⟩

theorem dumpText_head_ne_lt (v : Bytes) (hv : v ≠ []) : ∃ c r, dumpText false v = c :: r ∧ c ≠ 60 := by
  cases v with
  | nil => exact absurd rfl hv
  | cons b t =>
    rw [dumpText_cons]
    unfold escSpec
    repeat' split
    all_goals first
      | exact ⟨38, _, rfl, by decide⟩
      | (refine ⟨b, _, rfl, ?_⟩; assumption)

theorem printNode_head2 (st : NsStack) (n : XNode) (hn : NodeOk n) : ∃ b t, printNode st n = 60 :: b :: t ∧ b ≠ 47 := by
  have key : ∀ (name : Bytes) (x : Bytes), NameOk name → ∃ b t, 60 :: name ++ x = 60 :: b :: t ∧ b ≠ 47 := by
    intro name x hname
    cases name with
    | nil => exact absurd rfl hname.1
    | cons b t => exact ⟨b, t ++ x, rfl, (nameByte_props b (hname.2 b (by simp))).2.1⟩
  cases n with
  | term ns name metas v =>
    obtain ⟨hname, _, _, _⟩ := hn
    simp only [printNode, printOpen]
    split
    · simpa [List.append_assoc] using key name _ hname
    · simpa [List.append_assoc] using key name _ hname
  | inner ns name metas kids =>
    obtain ⟨hname, _, _, _⟩ := hn
    simp only [printNode, printOpen]
    split
    · simpa [List.append_assoc] using key name _ hname
    · simpa [List.append_assoc] using key name _ hname

theorem parseContent_text (st : NsStack) (v : Bytes) (hv : v ≠ []) (hc : NoCtl v) (r : Bytes) (fuel : Nat) (hf : 2 ≤ fuel) :
    parseContent st fuel (dumpText false v ++ 60 :: 47 :: r) = some (v, [], 60 :: 47 :: r) := by
  obtain ⟨f, rfl⟩ : ∃ f, fuel = f + 2 := ⟨fuel - 2, by omega⟩
  obtain ⟨c, t, hd, hne⟩ := dumpText_head_ne_lt v hv
  have hr : ∀ fu, (dumpText false v).length + 1 ≤ fu →
      readUntil false fu (dumpText false v ++ 60 :: 47 :: r) = some (v, 60 :: 47 :: r) :=
    fun fu h => readUntil_dump false 60 (Or.inl ⟨rfl, rfl⟩) v hc (47 :: r) fu h
  have hend : parseContent st (f + 1) (60 :: 47 :: r) = some ([], [], 60 :: 47 :: r) := by simp [parseContent]
  have hne' : ¬ (some c = some (60 : UInt8)) := by simpa using hne
  have hlen : (dumpText false v).length = t.length + 1 := by rw [hd]; rfl
  rw [hd] at hr ⊢
  simp only [List.cons_append] at hr ⊢
  unfold parseContent
  have h2 := hr (t.length + (r.length + 1 + 1) + 1 + 1) (by simp only [List.length_cons]; omega)
  simp [hne, hne', h2, hend]
  omega

mutual
theorem parseElem_print (st : NsStack) (n : XNode) (hn : NodeOk n) (rest : Bytes) (fuel : Nat) (hf : cost n ≤ fuel) :
    parseElem st fuel (printNode st n ++ rest) = some (viewOf n, rest) := by
  cases n with
  | term ns name metas v =>
    obtain ⟨hname, rfl, hns, hv⟩ := hn
    obtain ⟨f, rfl⟩ : ∃ f, fuel = f + 1 := ⟨fuel - 1, by simp [cost] at hf; omega⟩
    have ho := parseElem_open st ns name hname hns rest f
    by_cases he : v = []
    · subst he
      simpa [printNode, printOpen, printMetas, viewOf, sSlashGt, List.append_assoc] using ho.1
    · have hc := parseContent_text (printDefaultNs st ns).2 v he hv (name ++ 62 :: rest) f (by simp [cost] at hf; omega)
      have := ho.2 _ _ _ hc
      have hemp : v.isEmpty = false := by cases v <;> simp_all
      simpa [printNode, printOpen, printMetas, viewOf, sLtSlash, hemp, List.append_assoc] using this
  | inner ns name metas kids =>
    obtain ⟨hname, rfl, hns, hk⟩ := hn
    obtain ⟨f, rfl⟩ : ∃ f, fuel = f + 1 := ⟨fuel - 1, by simp [cost] at hf; omega⟩
    have ho := parseElem_open st ns name hname hns rest f
    cases kids with
    | nil =>
      simpa [printNode, printOpen, printMetas, viewOf, viewList, sSlashGt, List.append_assoc] using ho.1
    | cons k ks =>
      have hc := parseContent_print (printDefaultNs st ns).2 (k :: ks) hk (60 :: 47 :: (name ++ 62 :: rest))
        (Or.inr ⟨_, rfl⟩) f (by simp [cost] at hf; omega)
      have := ho.2 _ _ _ hc
      simpa [printNode, printOpen, printMetas, viewOf, sLtSlash, List.append_assoc] using this
theorem parseContent_print (st : NsStack) (l : List XNode) (hl : ListOk l) (tail : Bytes)
    (htail : tail = [] ∨ ∃ r, tail = 60 :: 47 :: r) (fuel : Nat) (hf : costs l ≤ fuel) :
    parseContent st fuel (printList st l ++ tail) = some ([], viewList l, tail) := by
  cases l with
  | nil =>
    obtain ⟨f, rfl⟩ : ∃ f, fuel = f + 1 := ⟨fuel - 1, by simp [costs] at hf; omega⟩
    rcases htail with rfl | ⟨r, rfl⟩ <;> simp [printList, parseContent, viewList]
  | cons k ks =>
    obtain ⟨hk, hks⟩ := hl
    obtain ⟨f, rfl⟩ : ∃ f, fuel = f + 1 := ⟨fuel - 1, by simp [costs] at hf; omega⟩
    have h1 := parseElem_print st k hk (printList st ks ++ tail) f (by simp [costs] at hf; omega)
    have h2 := parseContent_print st ks hks tail htail f (by simp [costs] at hf; omega)
    obtain ⟨b, t, hp, hb⟩ := printNode_head2 st k hk
    have hb' : ¬ (some b = some (47 : UInt8)) := by simpa using hb
    simp only [printList, List.append_assoc]
    rw [hp] at h1 ⊢
    simp only [List.cons_append] at h1 ⊢
    unfold parseContent
    simp [hb', h1, h2, viewList]
end

theorem name_len_pos (name : Bytes) (h : NameOk name) : 1 ≤ name.length := by
  cases name with
  | nil => exact absurd rfl h.1
  | cons _ _ => simp

mutual
theorem cost_le_len (st : NsStack) (n : XNode) (hn : NodeOk n) : cost n + 1 ≤ (printNode st n).length := by
  cases n with
  | term ns name metas v =>
    obtain ⟨hname, rfl, _, _⟩ := hn
    have := name_len_pos name hname
    simp only [printNode, printOpen, printMetas, cost]
    split <;> simp [sSlashGt, sLtSlash] <;> omega
  | inner ns name metas kids =>
    obtain ⟨hname, rfl, _, hk⟩ := hn
    have := name_len_pos name hname
    have ih := costs_le_len (printDefaultNs st ns).2 kids hk
    simp only [printNode, printOpen, printMetas, cost]
    split
    · rename_i he
      have : kids = [] := by cases kids <;> simp_all
      subst this
      simp [sSlashGt, costs]; omega
    · simp [sLtSlash] at ih ⊢; omega
theorem costs_le_len (st : NsStack) (l : List XNode) (hl : ListOk l) : costs l ≤ (printList st l).length + 1 := by
  cases l with
  | nil => simp [costs, printList]
  | cons k ks =>
    obtain ⟨hk, hks⟩ := hl
    have h1 := cost_le_len st k hk
    have h2 := costs_le_len st ks hks
    simp [costs, printList] at h1 h2 ⊢; omega
end

/-- The document the data printer emits (shrink mode, nodes without metadata) is well-formed XML with namespaces, and a
    namespace-aware reader recovers exactly the elements, their namespaces and their character data. -/
theorem parseDoc_printData (forest : List XNode) (h : ListOk forest) :
    parseDoc (printData forest) = some (viewList forest) := by
  have hc := costs_le_len [] forest h
  have := parseContent_print [] forest h [] (Or.inl rfl) ((printData forest).length + 2) (by simp [printData] at hc ⊢; omega)
  simp [parseDoc, printData] at this ⊢
  simp [this]

end LyModel.XmlTree
