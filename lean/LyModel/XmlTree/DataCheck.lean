import LyModel.XmlTree.Data
/-!
# `dataOk`: the decidable hypothesis of `xml_document_faithful_meta` on the printer's view of a data forest

Evaluated along the printer's own namespace stack (the prefix the with-defaults attribute gets, and — before the repair of F301 —
which prefixes the open part of a start tag declares, depend on it).  Executable: driver op `dcheck`.
-/
namespace LyModel.XmlTree
open LyModel LyModel.XmlDoc

def modsOkB (v : ValMods) : Bool := v.all fun e => pfxOkB e.1 && noCtlB e.2

def metaOkB (m : DMeta) : Bool :=
  nameOkB m.name && pfxOkB m.pfx && noCtlB m.ns && noCtlB m.value && modsOkB m.valMods

def wdOkB : Option (Bytes × Bytes) → Bool
  | none => true
  | some (u, p) => pfxOkB p && noCtlB u

/-- (prefix, namespace) of the annotation modules and of the modules inside annotation values of one start tag -/
def metaPairs : List DMeta → Reserved
  | [] => []
  | m :: r => m.valMods ++ (m.pfx, m.ns) :: metaPairs r

/-- the prefix the printer uses for the with-defaults attribute under the stack `st`, with its namespace -/
def wdPair (fx : Fixes) (st : NsStack) : Option (Bytes × Bytes) → Reserved
  | none => []
  | some (u, p) => [((nsPrefixed fx [] st u p false).1, u)]

/-- every (prefix, namespace) one start tag relies on: the with-defaults attribute, the annotations, the prefixes inside the
    annotation values and inside the value of the element -/
def tagPairs (fx : Fixes) (st : NsStack) (ns : Bytes) (wd : Option (Bytes × Bytes)) (metas : List DMeta) (valMods : ValMods) : Reserved :=
  wdPair fx (nsDefault st ns).2 wd ++ metaPairs metas ++ valMods

/-- F301: before the repair `xml_print_term` writes the declarations for the prefixes inside the value itself, whatever the open part
    of the start tag has declared; the theorem then covers the terminal nodes whose value has no prefixes of other modules -/
def rawOkB (fx : Fixes) (valMods : ValMods) : Bool := fx.termNs || valMods.isEmpty

/-- one start tag: names, prefixes and strings are well-formed; F49: the start tag needs ONE namespace per prefix
    (`consistentB (tagPairs …)`); the attributes differ by expanded name; F301 -/
def tagOkB (fx : Fixes) (st : NsStack) (ns name : Bytes) (wd : Option (Bytes × Bytes)) (metas : List DMeta) (value : Bytes)
    (valMods : ValMods) : Bool :=
  nameOkB name && noCtlB ns && noCtlB value && metas.all metaOkB && modsOkB valMods && wdOkB wd &&
    consistentB (tagPairs fx st ns wd metas valMods) && noDupAttrs (viewWd wd ++ metas.map viewMeta) &&
    rawOkB fx valMods

mutual
def dnodeOkB (fx : Fixes) (st : NsStack) : DNode → Bool
  | .term ns name wd metas value valMods => tagOkB fx st ns name wd metas value valMods
  | .inner ns name metas kids =>
    tagOkB fx st ns name none metas [] [] && dlistOkB fx (dataOpenItems fx st ns none metas).2 kids
  | .opaq o => onodeOkB (!fx.undeclare) (findDefault st).isSome o
def dlistOkB (fx : Fixes) (st : NsStack) : List DNode → Bool
  | [] => true
  | n :: r => dnodeOkB fx st n && dlistOkB fx st r
end

/-- the hypothesis of `xml_document_faithful_meta` -/
def dataOk (fx : Fixes) (forest : List DNode) : Bool := dlistOkB fx [] forest

/-- which conjunct of `tagOkB` fails (for the distribution the check prints) -/
def tagWhy (fx : Fixes) (st : NsStack) (ns name : Bytes) (wd : Option (Bytes × Bytes)) (metas : List DMeta) (value : Bytes)
    (valMods : ValMods) : List String :=
  (if nameOkB name && noCtlB ns && noCtlB value && metas.all metaOkB && modsOkB valMods && wdOkB wd then [] else ["names-or-control-chars"]) ++
  (if consistentB (tagPairs fx st ns wd metas valMods) then [] else ["F49:two-namespaces-for-one-prefix-in-a-start-tag"]) ++
  (if noDupAttrs (viewWd wd ++ metas.map viewMeta) then [] else ["duplicate-attr"]) ++
  (if rawOkB fx valMods then [] else ["F301:value-prefixes-written-by-xml_print_term-itself"])

mutual
def dnodeWhy (fx : Fixes) (st : NsStack) : DNode → List String
  | .term ns name wd metas value valMods => tagWhy fx st ns name wd metas value valMods
  | .inner ns name metas kids =>
    tagWhy fx st ns name none metas [] [] ++ dlistWhy fx (dataOpenItems fx st ns none metas).2 kids
  | .opaq o => onodeWhy (findDefault st).isSome o
def dlistWhy (fx : Fixes) (st : NsStack) : List DNode → List String
  | [] => []
  | n :: r => dnodeWhy fx st n ++ dlistWhy fx st r
end

end LyModel.XmlTree
