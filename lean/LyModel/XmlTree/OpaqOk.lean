import LyModel.XmlTree.OpaqDoc
/-! Well-formedness of the view of an opaque forest, and that the items of every start tag the model writes are ones the reader
    can take apart (`ItemOk`): prefixes are XML names other than `xmlns` — those of the tree and the numbered ones. -/
set_option linter.unusedSimpArgs false
set_option linter.unusedVariables false
namespace LyModel.XmlTree
open LyModel LyModel.XmlDoc LyModel.XmlText

/-- every prefix on the stack is an XML name other than `xmlns` -/
def StackOk (st : NsStack) : Prop := ∀ q u, (some q, u) ∈ st → PfxOk q

def PfxDataOk (pd : PfxData) : Prop := ∀ e ∈ pd, (∀ p ∈ e.1, PfxOk p) ∧ NoCtl e.2

/-- an attribute of the view: name and prefix are XML names, it has a prefix exactly when it has a namespace, an unprefixed
    attribute is not called `xmlns`, no forbidden control characters in value and namespace strings -/
def AttrOk (a : OAttr) : Prop :=
  NameOk a.name ∧ NoCtl a.value ∧ a.pfx.isSome = a.ns.isSome ∧ (∀ p ∈ a.pfx, PfxOk p) ∧ (∀ u ∈ a.ns, NoCtl u) ∧
    (a.pfx = none → a.name ≠ xmlnsB) ∧ PfxDataOk a.valPfx

theorem searchPrefixed_mem (fx : Fixes) (R : Reserved) (ns pfx : Bytes) (required : Bool) (q : Bytes) :
    ∀ (post : NsStack) (inner : List Bytes), searchPrefixed fx R ns pfx required inner post = some q → ∃ u, (some q, u) ∈ post
  | [], _, h => by simp [searchPrefixed] at h
  | (none, u) :: r, inner, h => by
    obtain ⟨u', hu'⟩ := searchPrefixed_mem fx R ns pfx required q r inner (by simpa [searchPrefixed] using h)
    exact ⟨u', List.mem_cons_of_mem _ hu'⟩
  | (some q', u) :: r, inner, h => by
    unfold searchPrefixed at h
    split at h
    · have : q' = q := by simpa using h
      subst this
      exact ⟨u, List.mem_cons_self⟩
    · obtain ⟨u', hu'⟩ := searchPrefixed_mem fx R ns pfx required q r (q' :: inner) h
      exact ⟨u', List.mem_cons_of_mem _ hu'⟩

theorem pickPrefix_candidate (fx : Fixes) (R : Reserved) (st : NsStack) (ns pfx : Bytes) :
    ∀ (fuel k : Nat), ∃ j, pickPrefix fx R st ns pfx fuel k = candidate pfx j
  | 0, k => ⟨k, rfl⟩
  | fuel + 1, k => by
    unfold pickPrefix
    simp only
    split
    · exact pickPrefix_candidate fx R st ns pfx fuel (k + 1)
    · exact ⟨k, rfl⟩

theorem decimal_bytes (k : Nat) : ∀ b ∈ decimal k, 48 ≤ b.toNat ∧ b.toNat ≤ 57 := by
  intro b hb
  unfold decimal at hb
  obtain ⟨c, hc, rfl⟩ := List.mem_map.mp hb
  have := digit_bounds c (Nat.isDigit_of_mem_toDigits (by decide) (by decide) hc)
  have e : (c.toNat.toUInt8).toNat = c.toNat % 256 := by simp
  rw [e]; omega

theorem digit_isNameByte (b : UInt8) (h : 48 ≤ b.toNat ∧ b.toNat ≤ 57) : isNameByte b = true := by
  have h1 : (48 : UInt8) ≤ b := by rw [UInt8.le_iff_toNat_le]; exact h.1
  have h2 : b ≤ (57 : UInt8) := by rw [UInt8.le_iff_toNat_le]; exact h.2
  simp [isNameByte, h1, h2]

theorem candidate_pfxOk (pfx : Bytes) (h : PfxOk pfx) (k : Nat) : PfxOk (candidate pfx k) := by
  unfold candidate
  split
  · exact h
  · refine ⟨⟨?_, ?_⟩, ?_⟩
    · intro e
      exact h.1.1 (List.append_eq_nil_iff.mp e).1
    · intro b hb
      rcases List.mem_append.mp hb with hb | hb
      · exact h.1.2 b hb
      · exact digit_isNameByte b (decimal_bytes k b hb)
    · intro e
      have e2 := congrArg List.reverse e
      rw [List.reverse_append] at e2
      cases hd : (decimal k).reverse with
      | nil => exact decimal_ne_nil k (by simpa using hd)
      | cons x t =>
        have hx : x ∈ decimal k := by
          have : x ∈ (decimal k).reverse := by rw [hd]; exact List.mem_cons_self
          simpa using this
        have hb := decimal_bytes k x hx
        rw [hd] at e2
        have : x = 115 := by
          have e3 : (x :: t ++ pfx.reverse).head? = (xmlnsB.reverse).head? := by rw [e2]
          simpa [xmlnsB] using e3
        subst this
        revert hb; decide

theorem nsPrefixed_ok (fx : Fixes) (R : Reserved) (st : NsStack) (ns pfx : Bytes) (required : Bool)
    (hst : StackOk st) (hp : PfxOk pfx) (hns : NoCtl ns) :
    PfxOk (nsPrefixed fx R st ns pfx required).1 ∧ (∀ i ∈ (nsPrefixed fx R st ns pfx required).2.1, ItemOk i) ∧
      StackOk (nsPrefixed fx R st ns pfx required).2.2 := by
  unfold nsPrefixed
  cases hs : searchPrefixed fx R ns pfx required [] st with
  | some q =>
    obtain ⟨u, hu⟩ := searchPrefixed_mem fx R ns pfx required q st [] hs
    exact ⟨hst q u hu, by simp, hst⟩
  | none =>
    have hc : PfxOk (if required = false ∧ fx.numbered = true then pickPrefix fx R st ns pfx (st.length + R.length + 1) 0 else pfx) := by
      split
      · obtain ⟨j, hj⟩ := pickPrefix_candidate fx R st ns pfx (st.length + R.length + 1) 0
        rw [hj]; exact candidate_pfxOk pfx hp j
      · exact hp
    refine ⟨hc, ?_, ?_⟩
    · intro i hi
      simp only [List.mem_singleton] at hi
      subst hi
      exact ⟨hc, hns⟩
    · intro q u hm
      rcases List.mem_cons.mp hm with hm | hm
      · simp only [Prod.mk.injEq, Option.some.injEq] at hm
        rw [hm.1]; exact hc
      · exact hst q u hm

theorem prefixData_ok (fx : Fixes) (R : Reserved) : ∀ (pd : PfxData) (st : NsStack), StackOk st → PfxDataOk pd →
    (∀ i ∈ (prefixData fx R st pd).1, ItemOk i) ∧ StackOk (prefixData fx R st pd).2
  | [], st, hst, _ => ⟨by simp [prefixData], hst⟩
  | (none, _) :: r, st, hst, hpd => by
    simpa [prefixData] using prefixData_ok fx R r st hst (fun e he => hpd e (by simp [he]))
  | (some p, u) :: r, st, hst, hpd => by
    have h0 := hpd (some p, u) (by simp)
    have h1 := nsPrefixed_ok fx R st u p true hst (h0.1 p rfl) h0.2
    have h2 := prefixData_ok fx R r _ h1.2.2 (fun e he => hpd e (by simp [he]))
    simp only [prefixData]
    refine ⟨?_, h2.2⟩
    intro i hi
    rcases List.mem_append.mp hi with hi | hi
    · exact h1.2.1 i hi
    · exact h2.1 i hi

theorem attrName_ok (fx : Fixes) (R : Reserved) (st : NsStack) (a : OAttr) (hst : StackOk st) (ha : AttrOk a) :
    (∀ q ∈ (attrName fx R st a).1, PfxOk q) ∧ ((attrName fx R st a).1 = none → a.pfx = none) ∧
      (∀ i ∈ (attrName fx R st a).2.1, ItemOk i) ∧ StackOk (attrName fx R st a).2.2 := by
  obtain ⟨_, _, hiso, hpfx, hns, _, _⟩ := ha
  cases hp : a.pfx with
  | none => simp [attrName, hp, hst]
  | some p =>
    cases hu : a.ns with
    | none => rw [hp, hu] at hiso; simp at hiso
    | some u =>
      have h1 := nsPrefixed_ok fx R st u p false hst (hpfx p (by simp [hp])) (hns u (by simp [hu]))
      simp only [attrName, hp, hu]
      refine ⟨?_, by simp, h1.2.1, h1.2.2⟩
      intro q hq
      have : (nsPrefixed fx R st u p false).1 = q := by simpa using hq
      rw [← this]; exact h1.1

theorem attrItems_ok (fx : Fixes) (R : Reserved) : ∀ (as : List OAttr) (st : NsStack), StackOk st → (∀ a ∈ as, AttrOk a) →
    (∀ i ∈ (attrItems fx R st as).1, ItemOk i) ∧ StackOk (attrItems fx R st as).2
  | [], st, hst, _ => ⟨by simp [attrItems], hst⟩
  | a :: as, st, hst, hok => by
    have ha := hok a (by simp)
    have h1 := attrName_ok fx R st a hst ha
    have h2 := prefixData_ok fx R a.valPfx _ h1.2.2.2 ha.2.2.2.2.2.2
    have h3 := attrItems_ok fx R as _ h2.2 (fun b hb => hok b (by simp [hb]))
    simp only [attrItems]
    refine ⟨?_, h3.2⟩
    intro i hi
    rcases List.mem_append.mp hi with hi | hi
    · rcases List.mem_append.mp hi with hi | hi
      · exact h1.2.2.1 i hi
      · exact h2.1 i hi
    · rcases List.mem_cons.mp hi with hi | hi
      · subst hi
        cases hq : (attrName fx R st a).1 with
        | none =>
          exact ⟨ha.1, ha.2.2.2.2.2.1 (h1.2.1 hq), ha.2.1⟩
        | some q =>
          exact ⟨h1.1 q (by simp [hq]), ha.1, ha.2.1⟩
      · exact h3.1 i hi

end LyModel.XmlTree
