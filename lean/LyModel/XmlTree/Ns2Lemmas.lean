import LyModel.XmlTree.Opaq
/-! Lemmas about `xml_print_ns` (v2 model, `Ns2.lean`): what the search returns, that the numbered-prefix loop ends on a free
    prefix, and what one call does to the namespace stack. -/
set_option linter.unusedSimpArgs false
set_option linter.unusedVariables false
namespace LyModel.XmlTree
open LyModel

/-- the values of the start tag bind `p` to nothing but `u` (`xml_prefix_is_reserved(p, u)` is false) -/
def Compat (R : Reserved) (p u : Bytes) : Prop := ∀ u', (p, u') ∈ R → u' = u

theorem isReserved_false_iff (R : Reserved) (p u : Bytes) : isReserved R p u = false ↔ Compat R p u := by
  unfold isReserved Compat
  rw [List.any_eq_false]
  constructor
  · intro h u' hm
    have := h (p, u') hm
    simp at this
    exact this
  · intro h e he
    obtain ⟨q, u'⟩ := e
    by_cases hq : q = p
    · subst hq
      have := h u' he
      simp [this]
    · simp [hq]

/-- the value prefix data of one start tag are consistent: one uri per prefix (what a well-formed source element guarantees) -/
def consistent (R : Reserved) : Bool := R.all fun e => R.all fun e' => e.1 != e'.1 || e.2 == e'.2

theorem consistent_compat {R : Reserved} (h : consistent R = true) {p u : Bytes} (hm : (p, u) ∈ R) : Compat R p u := by
  intro u' hm'
  unfold consistent at h
  rw [List.all_eq_true] at h
  have h1 := h (p, u') hm'
  rw [List.all_eq_true] at h1
  have h2 := h1 (p, u) hm
  simpa using h2

/-! ### `findPrefix` -/

theorem findPrefix_cons_some (p q u : Bytes) (r : NsStack) :
    findPrefix p ((some q, u) :: r) = if q = p then some u else findPrefix p r := rfl

theorem findPrefix_cons_none (p u : Bytes) (r : NsStack) : findPrefix p ((none, u) :: r) = findPrefix p r := rfl

theorem findPrefix_unbound {p : Bytes} : ∀ {st : NsStack}, boundAnywhere p st = false → findPrefix p st = none
  | [], _ => rfl
  | (none, u) :: r, h => by
    have : boundAnywhere p r = false := by simpa [boundAnywhere] using h
    simpa [findPrefix] using findPrefix_unbound this
  | (some q, u) :: r, h => by
    have h' : ¬ q = p ∧ boundAnywhere p r = false := by simpa [boundAnywhere] using h
    simp [findPrefix, h'.1, findPrefix_unbound h'.2]

theorem bound_of_findPrefix {p u : Bytes} {st : NsStack} (h : findPrefix p st = some u) : boundAnywhere p st = true := by
  cases hb : boundAnywhere p st with
  | true => rfl
  | false => rw [findPrefix_unbound hb] at h; cases h

/-- bound by one of the entries already passed -/
def InnerOk (inner : List Bytes) (pre : NsStack) : Prop := ∀ q, q ∈ inner ↔ boundAnywhere q pre = true

theorem findPrefix_append_unbound {p : Bytes} : ∀ {pre : NsStack} (post : NsStack), boundAnywhere p pre = false →
    findPrefix p (pre ++ post) = findPrefix p post
  | [], _, _ => rfl
  | (none, u) :: r, post, h => by
    have : boundAnywhere p r = false := by simpa [boundAnywhere] using h
    simpa [findPrefix] using findPrefix_append_unbound post this
  | (some q, u) :: r, post, h => by
    have h' : ¬ q = p ∧ boundAnywhere p r = false := by simpa [boundAnywhere] using h
    simp [findPrefix, h'.1, findPrefix_append_unbound post h'.2]

theorem boundAnywhere_append (p : Bytes) (a b : NsStack) :
    boundAnywhere p (a ++ b) = (boundAnywhere p a || boundAnywhere p b) := by
  simp [boundAnywhere]

/-! ### the search loop -/

/-- what the search returns is an entry with the namespace wanted whose prefix is bound to it by the innermost-binding rule;
    REQUIRED: it is the prefix asked for; a suggestion (with the reserved check): no value of the start tag needs it for
    another namespace -/
theorem searchPrefixed_sound (fx : Fixes) (R : Reserved) (ns pfx : Bytes) (required : Bool) (q : Bytes) :
    ∀ (post pre : NsStack) (inner : List Bytes), InnerOk inner pre →
      searchPrefixed fx R ns pfx required inner post = some q →
      findPrefix q (pre ++ post) = some ns ∧ (required = true → q = pfx) ∧
        (required = false → fx.reserved = true → Compat R q ns)
  | [], _, _, _, h => by simp [searchPrefixed] at h
  | (none, u) :: r, pre, inner, hin, h => by
    have hin' : InnerOk inner (pre ++ [(none, u)]) := by
      intro x; rw [hin x]; simp [boundAnywhere]
    have := searchPrefixed_sound fx R ns pfx required q r (pre ++ [(none, u)]) inner hin' (by simpa [searchPrefixed] using h)
    simpa [List.append_assoc] using this
  | (some q', u) :: r, pre, inner, hin, h => by
    unfold searchPrefixed at h
    split at h
    · rename_i hc
      obtain ⟨hu, hp, hni, hres⟩ := hc
      have hq : q' = q := by simpa using h
      subst hq; subst hu
      have hnb : boundAnywhere q' pre = false := by
        cases hb : boundAnywhere q' pre with
        | false => rfl
        | true => exact absurd ((hin q').2 hb) hni
      refine ⟨?_, ?_, ?_⟩
      · rw [findPrefix_append_unbound _ hnb]; simp [findPrefix]
      · intro hr; subst hr; simpa using hp
      · intro hr hfx; subst hr
        have : isReserved R q' u = false := by simpa [hfx] using hres
        exact (isReserved_false_iff R q' u).1 this
    · have hin' : InnerOk (q' :: inner) (pre ++ [(some q', u)]) := by
        intro x
        rw [boundAnywhere_append, List.mem_cons, hin x]
        have e : boundAnywhere x [(some q', u)] = decide (q' = x) := by
          simp only [boundAnywhere, List.any_cons, List.any_nil, Bool.or_false]
          by_cases hx : q' = x <;> simp [hx]
        rw [e]; simp only [Bool.or_eq_true, decide_eq_true_eq]
        constructor
        · rintro (h | h)
          · exact Or.inr h.symm
          · exact Or.inl h
        · rintro (h | h)
          · exact Or.inr h
          · exact Or.inl h.symm
      have := searchPrefixed_sound fx R ns pfx required q r (pre ++ [(some q', u)]) (q' :: inner) hin' h
      simpa [List.append_assoc] using this

/-- REQUIRED: if the search finds nothing, the prefix is not bound to the namespace (a declaration is needed) -/
theorem searchPrefixed_required_none (fx : Fixes) (R : Reserved) (ns pfx : Bytes) :
    ∀ (post : NsStack) (inner : List Bytes), pfx ∉ inner →
      searchPrefixed fx R ns pfx true inner post = none → findPrefix pfx post ≠ some ns
  | [], _, _, _ => by simp [findPrefix]
  | (none, u) :: r, inner, hni, h => by
    simpa [findPrefix] using searchPrefixed_required_none fx R ns pfx r inner hni (by simpa [searchPrefixed] using h)
  | (some q, u) :: r, inner, hni, h => by
    unfold searchPrefixed at h
    split at h
    · cases h
    · rename_i hc
      rw [findPrefix_cons_some]
      by_cases hq : q = pfx
      · subst hq
        simp only [if_true]
        intro hu
        apply hc
        refine ⟨by simpa using hu, Or.inl rfl, hni, Or.inl rfl⟩
      · simp only [hq, if_false]
        exact searchPrefixed_required_none fx R ns pfx r (q :: inner) (by simp [hni, Ne.symm hq]) h

theorem innerOk_nil : InnerOk [] [] := by intro q; simp [boundAnywhere]

/-- `xml_print_ns(…, prefix, LYXML_PREFIX_REQUIRED)` in closed form: it is `Model.printPrefixNs` (whatever the variant of the
    code and whatever start tag is being printed) -/
theorem nsPrefixed_required (fx : Fixes) (R : Reserved) (st : NsStack) (ns pfx : Bytes) :
    nsPrefixed fx R st ns pfx true =
      if findPrefix pfx st = some ns then (pfx, [], st) else (pfx, [Item.decl (some pfx) ns], (some pfx, ns) :: st) := by
  unfold nsPrefixed
  cases hs : searchPrefixed fx R ns pfx true [] st with
  | some q =>
    have := searchPrefixed_sound fx R ns pfx true q st [] [] innerOk_nil hs
    obtain ⟨h1, h2, _⟩ := this
    have hq := h2 rfl
    subst hq
    simp at h1
    simp [h1]
  | none =>
    have := searchPrefixed_required_none fx R ns pfx st [] (by simp) hs
    simp [this]

/-! ### the numbered-prefix loop ends on a prefix that is free -/

theorem digit_bounds (c : Char) (hc : c.isDigit = true) : 48 ≤ c.toNat ∧ c.toNat ≤ 57 := by
  unfold Char.isDigit at hc
  simp only [Bool.and_eq_true, decide_eq_true_eq, ge_iff_le, UInt32.le_iff_toNat_le] at hc
  have e : c.toNat = c.val.toNat := rfl
  rw [e]
  exact ⟨hc.1, hc.2⟩

theorem digit_byte_inj {c d : Char} (hc : c.isDigit = true) (hd : d.isDigit = true)
    (h : c.toNat.toUInt8 = d.toNat.toUInt8) : c = d := by
  have hc' : 48 ≤ c.toNat ∧ c.toNat ≤ 57 := digit_bounds c hc
  have hd' : 48 ≤ d.toNat ∧ d.toNat ≤ 57 := digit_bounds d hd
  have h2 : c.toNat % 256 = d.toNat % 256 := by
    have := congrArg UInt8.toNat h
    simpa using this
  have h3 : c.toNat = d.toNat := by omega
  exact Char.toNat_inj.mp h3

theorem map_inj_on {α β : Type} (f : α → β) (P : α → Prop) (hf : ∀ a b, P a → P b → f a = f b → a = b) :
    ∀ (l1 l2 : List α), (∀ a ∈ l1, P a) → (∀ a ∈ l2, P a) → l1.map f = l2.map f → l1 = l2
  | [], [], _, _, _ => rfl
  | [], _ :: _, _, _, h => by simp at h
  | _ :: _, [], _, _, h => by simp at h
  | a :: r, b :: t, h1, h2, h => by
    simp only [List.map_cons, List.cons.injEq] at h
    have e := hf a b (h1 a (by simp)) (h2 b (by simp)) h.1
    have := map_inj_on f P hf r t (fun x hx => h1 x (by simp [hx])) (fun x hx => h2 x (by simp [hx])) h.2
    rw [e, this]

theorem decimal_inj {a b : Nat} (h : decimal a = decimal b) : a = b := by
  unfold decimal at h
  have := map_inj_on (fun c : Char => c.toNat.toUInt8) (fun c => c.isDigit = true) (fun _ _ => digit_byte_inj)
    (Nat.toDigits 10 a) (Nat.toDigits 10 b)
    (fun c hc => Nat.isDigit_of_mem_toDigits (by decide) (by decide) hc)
    (fun c hc => Nat.isDigit_of_mem_toDigits (by decide) (by decide) hc) h
  have h2 := congrArg (fun l => Nat.ofDigitChars 10 l 0) this
  simpa [Nat.ofDigitChars_ten_toDigits] using h2

theorem decimal_ne_nil (k : Nat) : decimal k ≠ [] := by
  unfold decimal
  intro h
  exact Nat.toDigits_ne_nil (List.map_eq_nil_iff.mp h)

theorem candidate_inj (pfx : Bytes) {j k : Nat} (h : candidate pfx j = candidate pfx k) : j = k := by
  unfold candidate at h
  by_cases hj : j = 0 <;> by_cases hk : k = 0
  · omega
  · simp only [hj, hk, if_true, if_false] at h
    have : decimal k = [] := by simpa using h.symm
    exact absurd this (decimal_ne_nil k)
  · simp only [hj, hk, if_true, if_false] at h
    have : decimal j = [] := by simpa using h
    exact absurd this (decimal_ne_nil j)
  · simp only [hj, hk, if_false] at h
    exact decimal_inj (List.append_cancel_left h)

/-- the `retry` condition of the loop -/
def badPrefix (fx : Fixes) (R : Reserved) (st : NsStack) (ns c : Bytes) : Bool :=
  boundAnywhere c st || (fx.reserved && isReserved R c ns)

theorem pickPrefix_of_exists (fx : Fixes) (R : Reserved) (st : NsStack) (ns pfx : Bytes) :
    ∀ (fuel k : Nat), (∃ j, j < fuel ∧ badPrefix fx R st ns (candidate pfx (k + j)) = false) →
      badPrefix fx R st ns (pickPrefix fx R st ns pfx fuel k) = false
  | 0, _, ⟨j, hj, _⟩ => by omega
  | fuel + 1, k, ⟨j, hj, hg⟩ => by
    unfold pickPrefix
    simp only
    by_cases hb : badPrefix fx R st ns (candidate pfx k) = true
    · have hb' : (boundAnywhere (candidate pfx k) st || (fx.reserved && isReserved R (candidate pfx k) ns)) = true := hb
      rw [if_pos hb']
      apply pickPrefix_of_exists fx R st ns pfx fuel (k + 1)
      cases j with
      | zero => simp [hb] at hg
      | succ j' => exact ⟨j', by omega, by rwa [show k + 1 + j' = k + (j' + 1) by omega]⟩
    · have hb' : ¬ (boundAnywhere (candidate pfx k) st || (fx.reserved && isReserved R (candidate pfx k) ns)) = true := hb
      rw [if_neg hb']
      simpa using hb

theorem bad_mem (fx : Fixes) (R : Reserved) (st : NsStack) (ns c : Bytes) (h : badPrefix fx R st ns c = true) :
    c ∈ st.filterMap (·.1) ++ R.map (·.1) := by
  unfold badPrefix at h
  rw [Bool.or_eq_true] at h
  rw [List.mem_append]
  rcases h with h | h
  · left
    unfold boundAnywhere at h
    rw [List.any_eq_true] at h
    obtain ⟨e, he, h1⟩ := h
    rw [List.mem_filterMap]
    exact ⟨e, he, by simpa using h1⟩
  · right
    rw [Bool.and_eq_true] at h
    have h2 := h.2
    unfold isReserved at h2
    rw [List.any_eq_true] at h2
    obtain ⟨e, he, h1⟩ := h2
    rw [List.mem_map]
    refine ⟨e, he, ?_⟩
    rw [Bool.and_eq_true] at h1
    simpa using h1.1

/-- pigeonhole: `st.length + R.length + 1` pairwise different candidates cannot all be bound or reserved -/
theorem exists_good_candidate (fx : Fixes) (R : Reserved) (st : NsStack) (ns pfx : Bytes) :
    ∃ j, j < st.length + R.length + 1 ∧ badPrefix fx R st ns (candidate pfx (0 + j)) = false := by
  apply Classical.byContradiction
  intro hno
  have hall : ∀ j, j < st.length + R.length + 1 → badPrefix fx R st ns (candidate pfx j) = true := by
    intro j hj
    cases hb : badPrefix fx R st ns (candidate pfx j) with
    | true => rfl
    | false => exact absurd ⟨j, hj, by simpa using hb⟩ hno
  let L := (List.range (st.length + R.length + 1)).map (candidate pfx)
  have hnd : L.Nodup := by
    show List.Pairwise (· ≠ ·) _
    rw [List.pairwise_map]
    exact List.Pairwise.imp (fun {a b} hab h => hab (candidate_inj pfx h)) List.nodup_range
  have hsub : L ⊆ st.filterMap (·.1) ++ R.map (·.1) := by
    intro c hc
    obtain ⟨j, hj, rfl⟩ := List.mem_map.mp hc
    exact bad_mem fx R st ns _ (hall j (List.mem_range.mp hj))
  have hlen := List.Nodup.length_le_of_subset hnd hsub
  have h2 : (st.filterMap (·.1)).length ≤ st.length := List.length_filterMap_le _ _
  simp only [L, List.length_append, List.length_map, List.length_range] at hlen
  omega

theorem pickPrefix_good (fx : Fixes) (R : Reserved) (st : NsStack) (ns pfx : Bytes) :
    badPrefix fx R st ns (pickPrefix fx R st ns pfx (st.length + R.length + 1) 0) = false :=
  pickPrefix_of_exists fx R st ns pfx _ 0 (exists_good_candidate fx R st ns pfx)

end LyModel.XmlTree
