import LyModel.XmlTree.Model
import LyModel.XmlTree.Spec
import LyModel.Text.SpecLemmas
/-! Helper lemmas: what the independent document reader does on the pieces the XML tree printer emits. -/
set_option linter.unusedSimpArgs false
namespace LyModel.XmlTree
open LyModel LyModel.XmlDoc LyModel.XmlText

/-- an XML name as the data printer needs it: non-empty, name bytes only (no colon: YANG identifiers and prefixes) -/
def NameOk (n : Bytes) : Prop := n ≠ [] ∧ ∀ b ∈ n, isNameByte b = true

theorem takeName_append (n r : Bytes) (hn : ∀ b ∈ n, isNameByte b = true)
    (hr : ∀ b t, r = b :: t → isNameByte b = false) : takeName (n ++ r) = (n, r) := by
  induction n with
  | nil =>
    cases r with
    | nil => simp [takeName]
    | cons b t => simp [takeName, hr b t rfl]
  | cons a n ih =>
    have ha := hn a (by simp)
    have := ih (fun b hb => hn b (by simp [hb]))
    simp [takeName, ha, this]

theorem takeQName_plain (n r : Bytes) (hn : NameOk n)
    (hr : ∀ b t, r = b :: t → isNameByte b = false ∧ b ≠ 58) :
    takeQName (n ++ r) = some ((none, n), r) := by
  have h1 := takeName_append n r hn.2 (fun b t e => (hr b t e).1)
  unfold takeQName
  rw [h1]
  have hne : n.isEmpty = false := by
    cases n with
    | nil => exact absurd rfl hn.1
    | cons _ _ => rfl
  simp only [hne]
  have hh : r.head? ≠ some 58 := by
    cases r with
    | nil => simp
    | cons b t => simp; exact (hr b t rfl).2
  simp [hh]

theorem escSpec_ne_nil (attr : Bool) (b : UInt8) : escSpec attr b ≠ [] := by
  unfold escSpec; repeat' split
  all_goals simp

theorem dumpText_not_close' (attr : Bool) (l : Bytes) (t : UInt8) (ht : t ≠ 93) (ht2 : t ≠ 62) (rest : Bytes) :
    XmlSpec.stripPrefix [93, 62] (dumpText attr l ++ t :: rest) = none := by
  match l with
  | [] => simp [dumpText, XmlSpec.stripPrefix, Ne.symm ht]
  | b :: r =>
    rw [dumpText_cons]
    by_cases h : b = 93
    · subst h
      have e : escSpec attr 93 = [93] := by cases attr <;> decide
      rw [e]
      match r with
      | [] =>
        simp [dumpText, XmlSpec.stripPrefix, Ne.symm ht2]
      | b' :: r' =>
        rw [dumpText_cons]
        have := (escSpec_head_ne_gt attr b' (dumpText attr r' ++ t :: rest)).resolve_right id
        cases hh : escSpec attr b' ++ dumpText attr r' with
        | nil =>
          exact absurd (List.append_eq_nil_iff.mp hh).1 (escSpec_ne_nil attr b')
        | cons x xs =>
          have e2 : escSpec attr b' ++ (dumpText attr r' ++ t :: rest) = x :: (xs ++ t :: rest) := by
            rw [← List.append_assoc, hh]; rfl
          rw [e2] at this
          have hx : x ≠ 62 := by simpa using this
          simp [XmlSpec.stripPrefix, Ne.symm hx]
    · have hne : (escSpec attr b ++ (dumpText attr r ++ t :: rest)).head? ≠ some 93 := by
        unfold escSpec
        repeat' split
        all_goals simp_all
      rw [List.append_assoc]
      cases hh : escSpec attr b ++ (dumpText attr r ++ t :: rest) with
      | nil => simp [XmlSpec.stripPrefix]
      | cons x xs =>
        rw [hh] at hne
        have : x ≠ 93 := by simpa using hne
        simp [XmlSpec.stripPrefix, Ne.symm this]

/-- the terminator of literal text: `<` ends content, `"` ends an attribute value -/
def TermOk (attr : Bool) (t : UInt8) : Prop := (attr = false ∧ t = 60) ∨ (attr = true ∧ t = 34)

theorem readUntil_dump (attr : Bool) (t : UInt8) (ht : TermOk attr t) :
    ∀ (s : Bytes), NoCtl s → ∀ (rest : Bytes) (fuel : Nat), (dumpText attr s).length + 1 ≤ fuel →
      readUntil attr fuel (dumpText attr s ++ t :: rest) = some (s, t :: rest)
  | [], _, rest, fuel, hf => by
    obtain ⟨f, rfl⟩ : ∃ f, fuel = f + 1 := ⟨fuel - 1, by simp [dumpText] at hf; omega⟩
    rcases ht with ⟨rfl, rfl⟩ | ⟨rfl, rfl⟩ <;> simp [dumpText, readUntil]
  | b :: r, hc, rest, fuel, hf => by
    obtain ⟨f, rfl⟩ : ∃ f, fuel = f + 1 := ⟨fuel - 1, by omega⟩
    have hcr : NoCtl r := fun x hx => hc x (by simp [hx])
    have hcb := hc b (by simp)
    rw [dumpText_cons] at hf ⊢
    rw [List.length_append] at hf
    have ih := fun (h : (dumpText attr r).length + 1 ≤ f) => readUntil_dump attr t ht r hcr rest f h
    have ht93 : t ≠ 93 := by rcases ht with ⟨_, rfl⟩ | ⟨_, rfl⟩ <;> decide
    have ht62 : t ≠ 62 := by rcases ht with ⟨_, rfl⟩ | ⟨_, rfl⟩ <;> decide
    have hclose := dumpText_not_close' attr r t ht93 ht62 rest
    by_cases h38 : b = 38
    · subst h38
      have := ih (by simp [escSpec] at hf; omega)
      simp [escSpec, readUntil, XmlSpec.reference, XmlSpec.stripPrefix, this]
    · by_cases h60 : b = 60
      · subst h60
        have := ih (by simp [escSpec] at hf; omega)
        simp [escSpec, readUntil, XmlSpec.reference, XmlSpec.stripPrefix, this]
      · by_cases h62 : b = 62
        · subst h62
          have := ih (by simp [escSpec] at hf; omega)
          simp [escSpec, readUntil, XmlSpec.reference, XmlSpec.stripPrefix, this]
        · by_cases h34 : b = 34 ∧ attr = true
          · obtain ⟨h34, ha⟩ := h34; subst h34; subst ha
            have := ih (by simp [escSpec] at hf; omega)
            simp [escSpec, readUntil, XmlSpec.reference, XmlSpec.stripPrefix, this]
          · by_cases h13 : b = 13
            · subst h13
              have e : escSpec attr 13 = [38, 35, 120, 68, 59] := by cases attr <;> decide
              rw [e] at hf ⊢
              have := ih (by simp at hf; omega)
              simp [readUntil, XmlSpec.reference, XmlSpec.hexRef, XmlSpec.hexVal?, XmlSpec.isChar, XmlSpec.encode, this]
            · by_cases h9 : b = 9 ∧ attr = true
              · obtain ⟨h9, ha⟩ := h9; subst h9; subst ha
                have e : escSpec true 9 = [38, 35, 120, 57, 59] := by decide
                rw [e] at hf ⊢
                have := ih (by simp at hf; omega)
                simp [readUntil, XmlSpec.reference, XmlSpec.hexRef, XmlSpec.hexVal?, XmlSpec.isChar, XmlSpec.encode, this]
              · by_cases h10 : b = 10 ∧ attr = true
                · obtain ⟨h10, ha⟩ := h10; subst h10; subst ha
                  have e : escSpec true 10 = [38, 35, 120, 65, 59] := by decide
                  rw [e] at hf ⊢
                  have := ih (by simp at hf; omega)
                  simp [readUntil, XmlSpec.reference, XmlSpec.hexRef, XmlSpec.hexVal?, XmlSpec.isChar, XmlSpec.encode, this]
                · have hesc : escSpec attr b = [b] := by simp [escSpec, h38, h60, h62, h34, h13, h9, h10]
                  rw [hesc] at hf ⊢
                  have := ih (by simp at hf; omega)
                  have hctl : (decide (b < 32) && b != 9 && b != 10 && b != 13) = false := by
                    simp only [Bool.and_eq_false_iff, decide_eq_false_iff_not, bne_eq_false_iff_eq, Bool.and_eq_true,
                      decide_eq_true_eq, bne_iff_ne] at *
                    by_cases hlt : b < 32
                    · by_cases e9 : b = 9
                      · exact Or.inl (Or.inl (Or.inr e9))
                      · by_cases e10 : b = 10
                        · exact Or.inl (Or.inr e10)
                        · by_cases e13 : b = 13
                          · exact Or.inr e13
                          · exact absurd ⟨hlt, e9, e10, e13⟩ hcb
                    · exact Or.inl (Or.inl (Or.inl hlt))
                  have ha9 : (attr && (b == 9 || b == 10)) = false := by
                    cases attr <;> simp_all
                  have ha34 : (attr && b == 34) = false := by
                    cases attr <;> simp_all
                  simp [readUntil, h60, h38, h13, hctl, ha9, ha34, hclose, this]

theorem lookup_none_eq (st : NsStack) : lookup st none = findDefault st := by
  induction st with
  | nil => rfl
  | cons e r ih =>
    obtain ⟨p, ns⟩ := e
    cases p with
    | none => simp [lookup, findDefault]
    | some q =>
      simp [lookup, findDefault, List.find?] at ih ⊢
      exact ih

theorem skipSpaces_nonspace (b : UInt8) (r : Bytes) (h : isSpace b = false) : skipSpaces (b :: r) = b :: r := by
  simp [skipSpaces, h]

theorem nameByte_props (b : UInt8) (h : isNameByte b = true) :
    b ≠ 32 ∧ b ≠ 47 ∧ b ≠ 62 ∧ b ≠ 58 ∧ b ≠ 61 ∧ b ≠ 60 ∧ b ≠ 34 := by
  refine ⟨?_, ?_, ?_, ?_, ?_, ?_, ?_⟩ <;> (intro e; subst e; simp [isNameByte] at h)

/-- the attribute part of an open tag without metadata, followed by the tag end -/
theorem parseAttrs_decl (ns : Bytes) (hns : NoCtl ns) (tailc : Bytes) (sc : Bool) (r : Bytes)
    (htail : (sc = false ∧ tailc = 62 :: r) ∨ (sc = true ∧ tailc = 47 :: 62 :: r)) (fuel : Nat) (hf : 2 ≤ fuel) :
    parseAttrs fuel (nsDecl none ns ++ tailc) = some ([{ pfx := none, name := xmlnsB, value := ns }], sc, r) := by
  obtain ⟨f, rfl⟩ : ∃ f, fuel = f + 2 := ⟨fuel - 2, by omega⟩
  have hq : takeQName (xmlnsB ++ (61 :: 34 :: (dumpText true ns ++ 34 :: tailc))) =
      some ((none, xmlnsB), 61 :: 34 :: (dumpText true ns ++ 34 :: tailc)) :=
    takeQName_plain xmlnsB _ ⟨by decide, by decide⟩ (by intro b t e; simp at e; obtain ⟨rfl, _⟩ := e; decide)
  have hr := readUntil_dump true 34 (Or.inr ⟨rfl, rfl⟩) ns hns tailc ((dumpText true ns ++ 34 :: tailc).length + 1)
    (by simp [List.length_append])
  have hend : parseAttrs (f + 1) tailc = some ([], sc, r) := by
    rcases htail with ⟨rfl, rfl⟩ | ⟨rfl, rfl⟩
    · simp [parseAttrs, skipSpaces, isSpace]
    · simp [parseAttrs, skipSpaces, isSpace]
  have e : nsDecl none ns ++ tailc = 32 :: (xmlnsB ++ (61 :: 34 :: (dumpText true ns ++ 34 :: tailc))) := by
    simp [nsDecl, sXmlns, sEqQ, xmlnsB, List.append_assoc]
  rw [e]
  have hsk : skipSpaces (32 :: (xmlnsB ++ 61 :: 34 :: (dumpText true ns ++ 34 :: tailc))) =
      xmlnsB ++ 61 :: 34 :: (dumpText true ns ++ 34 :: tailc) := by
    simp [skipSpaces, isSpace, xmlnsB]
  have hr' : readUntil true ((dumpText true ns).length + (tailc.length + 1) + 1) (dumpText true ns ++ 34 :: tailc) =
      some (ns, 34 :: tailc) := readUntil_dump true 34 (Or.inr ⟨rfl, rfl⟩) ns hns tailc _ (by omega)
  unfold parseAttrs
  simp only [hsk, hq]
  simp [xmlnsB, skipSpaces, isSpace, hr', hend]

theorem parseAttrs_end (tailc : Bytes) (sc : Bool) (r : Bytes)
    (htail : (sc = false ∧ tailc = 62 :: r) ∨ (sc = true ∧ tailc = 47 :: 62 :: r)) (fuel : Nat) (hf : 1 ≤ fuel) :
    parseAttrs fuel tailc = some ([], sc, r) := by
  obtain ⟨f, rfl⟩ : ∃ f, fuel = f + 1 := ⟨fuel - 1, by omega⟩
  rcases htail with ⟨rfl, rfl⟩ | ⟨rfl, rfl⟩ <;> simp [parseAttrs, skipSpaces, isSpace]

/-- what `parseElem` makes of an open tag without metadata: the element's namespace is the one the printer meant, and the
    environment handed to the content is the printer's stack -/
theorem parseElem_open (st : NsStack) (ns name : Bytes) (hname : NameOk name) (hns : NoCtl ns) (rest : Bytes) (fuel : Nat) :
    (parseElem st (fuel + 1) (60 :: name ++ (printDefaultNs st ns).1 ++ 47 :: 62 :: rest) =
        some (XElem.mk ns name [] [] [], rest)) ∧
    (∀ (body : Bytes) (text : Bytes) (kids : List XElem),
      parseContent (printDefaultNs st ns).2 fuel body = some (text, kids, 60 :: 47 :: (name ++ 62 :: rest)) →
      parseElem st (fuel + 1) (60 :: name ++ (printDefaultNs st ns).1 ++ 62 :: body) =
        some (XElem.mk ns name [] text kids, rest)) := by
  have hq1 : ∀ t, (∀ b t', t = b :: t' → isNameByte b = false ∧ b ≠ 58) →
      takeQName (name ++ t) = some ((none, name), t) := fun t ht => takeQName_plain name t hname ht
  have hqe : takeQName (name ++ 62 :: rest) = some ((none, name), 62 :: rest) :=
    hq1 _ (by intro b t' e; simp at e; obtain ⟨rfl, _⟩ := e; decide)
  unfold printDefaultNs
  by_cases hd : findDefault st = some ns
  · -- no declaration needed
    simp only [hd, if_true, List.append_nil]
    have hl : lookup st none = some ns := by rw [lookup_none_eq]; exact hd
    have hqa : takeQName (name ++ 47 :: 62 :: rest) = some ((none, name), 47 :: 62 :: rest) :=
      hq1 _ (by intro b t' e; simp at e; obtain ⟨rfl, _⟩ := e; decide)
    refine ⟨?_, ?_⟩
    · simp [parseElem, hqa, parseAttrs_end (47 :: 62 :: rest) true rest (Or.inr ⟨rfl, rfl⟩) _ (Nat.le_add_left 1 _),
        declsOf, noDupDecls, resolveAttrs, noDupAttrs, hl]
    · intro body text kids hc
      have hqb : takeQName (name ++ 62 :: body) = some ((none, name), 62 :: body) :=
        hq1 _ (by intro b t' e; simp at e; obtain ⟨rfl, _⟩ := e; decide)
      simp [parseElem, hqb, parseAttrs_end (62 :: body) false body (Or.inl ⟨rfl, rfl⟩) _ (Nat.le_add_left 1 _),
        declsOf, noDupDecls, resolveAttrs, noDupAttrs, hl, hc, hqe, skipSpaces, isSpace]
  · -- the default namespace is declared on this element
    simp only [hd, if_false]
    have hl : lookup ((none, ns) :: st) none = some ns := by simp [lookup]
    have hsp : ∀ t, ∀ b t', nsDecl none ns ++ t = b :: t' → isNameByte b = false ∧ b ≠ 58 := by
      intro t b t' e
      simp [nsDecl, sXmlns] at e
      obtain ⟨rfl, _⟩ := e; decide
    refine ⟨?_, ?_⟩
    · have hqa : takeQName (name ++ (nsDecl none ns ++ 47 :: 62 :: rest)) = some ((none, name), nsDecl none ns ++ 47 :: 62 :: rest) :=
        hq1 _ (hsp _)
      have hpa := parseAttrs_decl ns hns (47 :: 62 :: rest) true rest (Or.inr ⟨rfl, rfl⟩)
      simp only [List.cons_append, List.append_assoc]
      simp (disch := omega) [parseElem, hqa, hpa, declsOf, noDupDecls, resolveAttrs, noDupAttrs, isDecl, xmlnsB, hl]
    · intro body text kids hc
      have hqb : takeQName (name ++ (nsDecl none ns ++ 62 :: body)) = some ((none, name), nsDecl none ns ++ 62 :: body) :=
        hq1 _ (hsp _)
      have hpa := parseAttrs_decl ns hns (62 :: body) false body (Or.inl ⟨rfl, rfl⟩)
      simp only [List.cons_append, List.append_assoc]
      simp (disch := omega) [parseElem, hqb, hpa, declsOf, noDupDecls, resolveAttrs, noDupAttrs, isDecl, xmlnsB, hl, hc, hqe, skipSpaces, isSpace]

end LyModel.XmlTree
