import LyModel.XmlTree.Model
import LyModel.Generated.XmlNsFixes
/-!
# `xml_print_ns` as it is now (`printer_xml.c`), v2 of the namespace part of the XML tree printer model

`xml_print_ns(pctx, ns, new_prefix, prefix_opts)` in full:

* `new_prefix == NULL`: the default-namespace search from the innermost entry (stops at the first entry without prefix) —
  `Model.printDefaultNs`, reused;
* `new_prefix != NULL`: the search from the innermost entry for an entry with the namespace `ns` whose prefix is `new_prefix`
  (`LYXML_PREFIX_REQUIRED`) or any prefix (a suggestion), which must not be bound to another namespace by an inner element (the
  shadow check) and — for a suggestion — must not be reserved by a value of the opaque node whose start tag is being printed
  (`xml_prefix_is_reserved`, since `fix:` f1b607e);
* nothing found and the prefix is a suggestion: the loop `prefix, prefix1, prefix2, …` until the candidate is bound by no entry
  of the stack and is not reserved (since `fix:` a170b92);
* the declaration is written and the pair pushed.

The two repairs are model parameters (`Fixes`); `Fixes.current` is what `tools/extractors/xmlns.py` found in the source tree the
check runs against, so the model follows the code and the theorems say which variant has the property.
-/
namespace LyModel.XmlTree
open LyModel

/-- which of the repairs of `xml_print_ns` / `xml_print_opaq_open` the modelled source has -/
structure Fixes where
  /-- a170b92: a suggested prefix that some entry of the stack binds is replaced by `prefix<k>` -/
  numbered : Bool
  /-- f1b607e: `xml_prefix_is_reserved` — prefixes the values of the opaque node need are used for nothing else in its start tag -/
  reserved : Bool
  /-- F300: `xml_print_opaq_open` writes `xmlns=""` for an element in no namespace when a non-empty default namespace is in scope
      (`xml_default_ns_in_scope`) -/
  undeclare : Bool
  /-- F301: `xml_print_term` declares the modules of the prefixes inside the value through `xml_print_ns` (REQUIRED) instead of
      writing `xmlns:prefix` attributes itself -/
  termNs : Bool
  deriving Repr, DecidableEq, Inhabited

def Fixes.all : Fixes := { numbered := true, reserved := true, undeclare := true, termNs := true }

/-- the variant `tools/extractors/xmlns.py` found in the source tree the check runs against (what the driver prints with) -/
def Fixes.current : Fixes := { numbered := Generated.xmlNsNumbered, reserved := Generated.xmlNsReserved, undeclare := Generated.xmlNsUndeclare,
                               termNs := Generated.xmlNsTermNs }

/-- the (prefix, uri) pairs of the value prefix data of the opaque node being opened and of all its attributes
    (`pctx->opaq`; `[]` when no opaque start tag is being printed) -/
abbrev Reserved := List (Bytes × Bytes)

/-- `xml_prefix_is_reserved(pctx, prefix, ns)`: some value binds `prefix` to a namespace other than `ns` -/
def isReserved (R : Reserved) (p ns : Bytes) : Bool := R.any fun e => e.1 == p && e.2 != ns

/-- what one call of `xml_print_ns` writes into the start tag -/
inductive Item where
  | decl (pfx : Option Bytes) (ns : Bytes)                 -- ` xmlns[:pfx]="ns"`
  | attr (pfx : Option Bytes) (name value : Bytes)         -- ` [pfx:]name="value"`
  deriving Repr, DecidableEq

def Item.render : Item → Bytes
  | .decl p ns => nsDecl p ns
  | .attr p name v =>
    [32] ++ (match p with | some q => q ++ [58] | none => []) ++ name ++ sEqQ ++ XmlText.dumpText true v ++ [34]

def renderItems : List Item → Bytes
  | [] => []
  | i :: r => i.render ++ renderItems r

/-- the first `for` loop for `new_prefix != NULL`, from the innermost entry outwards; `inner` = the prefixes of the entries already
    passed (those with a greater index `j ≥ i`).  Returns the prefix of the entry that is reused. -/
def searchPrefixed (fx : Fixes) (R : Reserved) (ns pfx : Bytes) (required : Bool) : (inner : List Bytes) → NsStack → Option Bytes
  | _, [] => none
  | inner, (none, _) :: r => searchPrefixed fx R ns pfx required inner r      -- "default namespace is not interesting"
  | inner, (some q, u) :: r =>
    if u = ns ∧ (q = pfx ∨ required = false) ∧ q ∉ inner ∧ (required = true ∨ !(fx.reserved && isReserved R q ns)) then some q
    else searchPrefixed fx R ns pfx required (q :: inner) r

/-- `asprintf("%s%" PRIu32, new_prefix, k)` -/
def decimal (k : Nat) : Bytes := (Nat.toDigits 10 k).map fun c => c.toNat.toUInt8

/-- the k-th candidate of the numbered-prefix loop: the suggestion itself, then `prefix1`, `prefix2`, … -/
def candidate (pfx : Bytes) (k : Nat) : Bytes := if k = 0 then pfx else pfx ++ decimal k

/-- some entry of the stack has this prefix (the inner `for` of the `do … while (retry)` loop) -/
def boundAnywhere (p : Bytes) (st : NsStack) : Bool := st.any fun e => e.1 == some p

/-- the `do … while (retry)` loop; the candidates are pairwise different, at most `st.length + R.length` of them are bound or
    reserved, so `fuel = st.length + R.length + 1` suffices (`pickPrefix_good` in `Ns2Lemmas.lean`) -/
def pickPrefix (fx : Fixes) (R : Reserved) (st : NsStack) (ns pfx : Bytes) : (fuel : Nat) → (k : Nat) → Bytes
  | 0, k => candidate pfx k
  | fuel + 1, k =>
    let c := candidate pfx k
    if boundAnywhere c st || (fx.reserved && isReserved R c ns) then pickPrefix fx R st ns pfx fuel (k + 1) else c

/-- `xml_print_ns(pctx, ns, pfx, required ? LYXML_PREFIX_REQUIRED : 0)` for `pfx != NULL`:
    the prefix to use, what is written, the stack afterwards -/
def nsPrefixed (fx : Fixes) (R : Reserved) (st : NsStack) (ns pfx : Bytes) (required : Bool) : Bytes × List Item × NsStack :=
  match searchPrefixed fx R ns pfx required [] st with
  | some q => (q, [], st)
  | none =>
    let p := if required = false ∧ fx.numbered = true then pickPrefix fx R st ns pfx (st.length + R.length + 1) 0 else pfx
    (p, [Item.decl (some p) ns], (some p, ns) :: st)

/-- `xml_print_ns(pctx, ns, NULL, …)` -/
def nsDefault (st : NsStack) (ns : Bytes) : List Item × NsStack :=
  if findDefault st = some ns then ([], st) else ([Item.decl none ns], (none, ns) :: st)

end LyModel.XmlTree
