import LyModel.XmlTree.OpaqTag
import LyModel.XmlTree.Lemmas
/-! The independent document reader on the start tags the opaque-node printer writes: the attribute list, the declarations,
    the resolution of the attribute names (lemmas for `opaq_document_faithful`). -/
set_option linter.unusedSimpArgs false
set_option linter.unusedVariables false
namespace LyModel.XmlTree
open LyModel LyModel.XmlDoc LyModel.XmlText

/-- a prefix the printer may write: an XML name other than `xmlns` -/
def PfxOk (p : Bytes) : Prop := NameOk p ∧ p ≠ xmlnsB

/-- the items of a start tag the reader can take apart again -/
def ItemOk : Item → Prop
  | .decl none u => NoCtl u
  | .decl (some p) u => PfxOk p ∧ NoCtl u
  | .attr none n v => NameOk n ∧ n ≠ xmlnsB ∧ NoCtl v
  | .attr (some q) n v => PfxOk q ∧ NameOk n ∧ NoCtl v

/-- the attribute as the reader sees it before namespace processing -/
def Item.toRaw : Item → RawAttr
  | .decl none u => ⟨none, xmlnsB, u⟩
  | .decl (some p) u => ⟨some xmlnsB, p, u⟩
  | .attr q n v => ⟨q, n, v⟩

theorem isNameByte_58 : isNameByte 58 = false := by decide

theorem takeQName_prefixed (q n r : Bytes) (hq : NameOk q) (hn : NameOk n)
    (hr : ∀ b t, r = b :: t → isNameByte b = false) :
    takeQName (q ++ 58 :: (n ++ r)) = some ((some q, n), r) := by
  have h1 := takeName_append q (58 :: (n ++ r)) hq.2 (by intro b t e; simp at e; rw [← e.1]; exact isNameByte_58)
  have h2 := takeName_append n r hn.2 hr
  unfold takeQName
  rw [h1]
  have hne : q.isEmpty = false := by
    cases q with
    | nil => exact absurd rfl hq.1
    | cons _ _ => rfl
  have hne2 : n.isEmpty = false := by
    cases n with
    | nil => exact absurd rfl hn.1
    | cons _ _ => rfl
  simp [hne, h2, hne2]

/-- one attribute ` QN="V"` in front of the rest of the attribute list -/
theorem parseAttrs_one (QN : Bytes) (p : Option Bytes) (n V : Bytes) (hV : NoCtl V) (rest' : Bytes)
    (hhead : ∃ b t, QN = b :: t ∧ isNameByte b = true)
    (hq : takeQName (QN ++ 61 :: 34 :: (dumpText true V ++ 34 :: rest')) = some ((p, n), 61 :: 34 :: (dumpText true V ++ 34 :: rest')))
    (as : List RawAttr) (sc : Bool) (r : Bytes) (f : Nat) (hrest : parseAttrs f rest' = some (as, sc, r)) :
    parseAttrs (f + 1) (32 :: (QN ++ 61 :: 34 :: (dumpText true V ++ 34 :: rest'))) =
      some ({ pfx := p, name := n, value := V } :: as, sc, r) := by
  obtain ⟨b, t, rfl, hb⟩ := hhead
  have hbp := nameByte_props b hb
  have hsp : isSpace b = false := by
    have h32 := hbp.1
    cases hs : isSpace b with
    | false => rfl
    | true =>
      simp [isSpace] at hs
      rcases hs with ((rfl | rfl) | rfl) | rfl <;> simp [isNameByte] at hb
  have hsk : skipSpaces (32 :: (b :: t ++ 61 :: 34 :: (dumpText true V ++ 34 :: rest'))) =
      b :: t ++ 61 :: 34 :: (dumpText true V ++ 34 :: rest') := by
    have e1 : skipSpaces (32 :: (b :: t ++ 61 :: 34 :: (dumpText true V ++ 34 :: rest'))) =
        skipSpaces (b :: t ++ 61 :: 34 :: (dumpText true V ++ 34 :: rest')) := by simp [skipSpaces, isSpace]
    rw [e1]; exact skipSpaces_nonspace b _ hsp
  have hr' : readUntil true ((dumpText true V).length + (rest'.length + 1) + 1) (dumpText true V ++ 34 :: rest') =
      some (V, 34 :: rest') := readUntil_dump true 34 (Or.inr ⟨rfl, rfl⟩) V hV rest' _ (by omega)
  unfold parseAttrs
  simp only [hsk]
  have h62 : ¬ (b = 62) := hbp.2.2.1
  have h47 : ¬ (b = 47) := hbp.2.1
  simp only [List.cons_append] at hq hsk ⊢
  simp [h62, h47, hq, skipSpaces, isSpace, hr', hrest]

/-- the bytes of the qualified name an item starts with -/
def Item.qn : Item → Bytes
  | .decl none _ => xmlnsB
  | .decl (some p) _ => xmlnsB ++ 58 :: p
  | .attr none n _ => n
  | .attr (some q) n _ => q ++ 58 :: n

theorem Item.render_eq (i : Item) :
    i.render = 32 :: (i.qn ++ 61 :: 34 :: (dumpText true i.toRaw.value ++ [34])) := by
  cases i with
  | decl p u =>
    cases p <;> simp [Item.render, nsDecl, sXmlns, sEqQ, Item.qn, Item.toRaw, xmlnsB, List.append_assoc]
  | attr q n v =>
    cases q <;> simp [Item.render, sEqQ, Item.qn, Item.toRaw, List.append_assoc]

theorem xmlnsB_nameOk : NameOk xmlnsB := ⟨by decide, by decide⟩

theorem parseAttrs_items : ∀ (items : List Item), (∀ i ∈ items, ItemOk i) → ∀ (tailc : Bytes) (sc : Bool) (r : Bytes),
    ((sc = false ∧ tailc = 62 :: r) ∨ (sc = true ∧ tailc = 47 :: 62 :: r)) → ∀ (fuel : Nat), items.length + 1 ≤ fuel →
    parseAttrs fuel (renderItems items ++ tailc) = some (items.map Item.toRaw, sc, r)
  | [], _, tailc, sc, r, htail, fuel, hf => by
    simpa [renderItems] using parseAttrs_end tailc sc r htail fuel (by simpa using hf)
  | i :: is, hok, tailc, sc, r, htail, fuel, hf => by
    obtain ⟨f, rfl⟩ : ∃ f, fuel = f + 1 := ⟨fuel - 1, by simp at hf; omega⟩
    have ih := parseAttrs_items is (fun j hj => hok j (by simp [hj])) tailc sc r htail f (by simp at hf; omega)
    have hi := hok i (by simp)
    have hne : ∀ X : Bytes, ∀ b t, (61 :: X) = b :: t → isNameByte b = false ∧ b ≠ 58 := by
      intro X b t e; simp at e; rw [← e.1]; decide
    have hne' : ∀ X : Bytes, ∀ b t, (61 :: X) = b :: t → isNameByte b = false := fun X b t e => (hne X b t e).1
    simp only [renderItems, Item.render_eq, List.cons_append, List.append_assoc, List.nil_append, List.map_cons]
    cases i with
    | decl p u =>
      cases p with
      | none =>
        exact parseAttrs_one xmlnsB none xmlnsB u hi _ ⟨120, _, rfl, by decide⟩
          (takeQName_plain xmlnsB _ xmlnsB_nameOk (hne _)) _ sc r f ih
      | some p =>
        obtain ⟨hp, hu⟩ := hi
        have := parseAttrs_one (xmlnsB ++ 58 :: p) (some xmlnsB) p u hu (renderItems is ++ tailc) ⟨120, _, rfl, by decide⟩
          (by simpa [List.append_assoc] using takeQName_prefixed xmlnsB p _ xmlnsB_nameOk hp.1 (hne' _)) _ sc r f ih
        simpa [Item.qn, Item.toRaw, List.append_assoc] using this
    | attr q n v =>
      cases q with
      | none =>
        obtain ⟨hn, _, hv⟩ := hi
        obtain ⟨b, t, rfl⟩ : ∃ b t, n = b :: t := by
          cases n with
          | nil => exact absurd rfl hn.1
          | cons b t => exact ⟨b, t, rfl⟩
        exact parseAttrs_one (b :: t) none (b :: t) v hv _ ⟨b, t, rfl, hn.2 b (by simp)⟩
          (takeQName_plain (b :: t) _ hn (hne _)) _ sc r f ih
      | some q =>
        obtain ⟨hq, hn, hv⟩ := hi
        obtain ⟨b, t, rfl⟩ : ∃ b t, q = b :: t := by
          cases q with
          | nil => exact absurd rfl hq.1.1
          | cons b t => exact ⟨b, t, rfl⟩
        have := parseAttrs_one (b :: t ++ 58 :: n) (some (b :: t)) n v hv (renderItems is ++ tailc)
          ⟨b, _, rfl, hq.1.2 b (by simp)⟩
          (by simpa [List.append_assoc] using takeQName_prefixed (b :: t) n _ hq.1 hn (hne' _)) _ sc r f ih
        simpa [Item.qn, Item.toRaw, List.append_assoc] using this

/-! ### declarations and resolution -/

theorem declsOf_items : ∀ (items : List Item), (∀ i ∈ items, ItemOk i) → declsOf (items.map Item.toRaw) = declared items
  | [], _ => rfl
  | i :: is, hok => by
    have ih := declsOf_items is (fun j hj => hok j (by simp [hj]))
    have hi := hok i (by simp)
    cases i with
    | decl p u =>
      cases p with
      | none => simp [declsOf, Item.toRaw, declared, ih, xmlnsB]
      | some p => simp [declsOf, Item.toRaw, declared, ih]
    | attr q n v =>
      cases q with
      | none =>
        have : (n == xmlnsB) = false := by simpa using hi.2.1
        simp [declsOf, Item.toRaw, declared, ih, this]
      | some q =>
        have : (q == xmlnsB) = false := by simpa using hi.1.2
        simp [declsOf, Item.toRaw, declared, ih, this]

/-- the reader's environment and the printer's stack resolve every prefix (and the default namespace) alike -/
def EnvEq (env st : NsStack) : Prop := ∀ p, lookup env p = lookup st p

theorem lookup_append (a b : NsStack) (p : Option Bytes) :
    lookup (a ++ b) p = match lookup a p with | some x => some x | none => lookup b p := by
  unfold lookup
  rw [List.find?_append]
  cases h : List.find? (fun e => e.1 == p) a <;> simp

theorem lookup_none_iff (a : NsStack) (p : Option Bytes) : lookup a p = none ↔ p ∉ a.map (·.1) := by
  unfold lookup
  simp only [Option.map_eq_none_iff, List.find?_eq_none, List.mem_map, not_exists, not_and]
  constructor
  · intro h e he hp; exact h e he (by simp [hp])
  · intro h e he hp; exact h e he (by simpa using hp)

theorem lookup_of_mem_nodup : ∀ (a : NsStack) (p : Option Bytes) (u : Bytes), (a.map (·.1)).Nodup → (p, u) ∈ a → lookup a p = some u
  | [], _, _, _, h => by simp at h
  | e :: r, p, u, hnd, h => by
    have hnd' := List.nodup_cons.mp (by simpa using hnd : (e.1 :: r.map (·.1)).Nodup)
    by_cases he : e.1 = p
    · rcases List.mem_cons.mp h with h | h
      · subst h; simp [lookup]
      · exact absurd (List.mem_map.mpr ⟨(p, u), h, he.symm ▸ rfl⟩) (he ▸ hnd'.1)
    · have hm : (p, u) ∈ r := by
        rcases List.mem_cons.mp h with h | h
        · subst h; exact absurd rfl he
        · exact h
      have := lookup_of_mem_nodup r p u hnd'.2 hm
      have hb : (e.1 == p) = false := by simpa using he
      simpa [lookup, List.find?, hb] using this

theorem mem_of_lookup : ∀ (a : NsStack) (p : Option Bytes) (u : Bytes), lookup a p = some u → (p, u) ∈ a
  | [], _, _, h => by simp [lookup] at h
  | e :: r, p, u, h => by
    by_cases he : e.1 = p
    · have hb : (e.1 == p) = true := by simpa using he
      simp [lookup, List.find?, hb] at h
      exact List.mem_cons.mpr (Or.inl (by rw [← he, ← h]))
    · have hb : (e.1 == p) = false := by simpa using he
      have : lookup r p = some u := by simpa [lookup, List.find?, hb] using h
      exact List.mem_cons_of_mem _ (mem_of_lookup r p u this)

theorem lookup_reverse_nodup (a : NsStack) (p : Option Bytes) (hnd : (a.map (·.1)).Nodup) : lookup a.reverse p = lookup a p := by
  have hnd' : (a.reverse.map (·.1)).Nodup := by rw [List.map_reverse, (List.reverse_perm _).nodup_iff]; exact hnd
  cases h : lookup a p with
  | none =>
    rw [lookup_none_iff] at h ⊢
    simpa using h
  | some u =>
    exact lookup_of_mem_nodup _ p u hnd' (by simpa using mem_of_lookup a p u h)

/-- the reader pushes the declarations of a start tag in document order, the printer innermost first: the same to `lookup`
    when no prefix is declared twice -/
theorem envEq_push (env st decls : NsStack) (h : EnvEq env st) (hnd : (decls.map (·.1)).Nodup) :
    EnvEq (decls ++ env) (decls.reverse ++ st) := by
  intro p
  rw [lookup_append, lookup_append, lookup_reverse_nodup decls p hnd, h p]

end LyModel.XmlTree
