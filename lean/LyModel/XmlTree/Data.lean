import LyModel.XmlTree.OpaqCheck
/-!
# Data nodes WITH metadata, and opaque nodes below them (`xml_print_node`, `xml_print_inner`, `xml_print_term`, `xml_print_node_open`,
# `xml_print_meta` of `printer_xml.c`, shrink mode)

The *view* of a data tree as the XML printer reads it under given print options: only the nodes `lyd_node_should_print` lets
through; for a terminal node whether the with-defaults attribute is written (the condition at the head of `xml_print_meta`,
evaluated by libyang) with the namespace and prefix of `ietf-netconf-with-defaults`; the printable metadata in order, each with
the namespace and prefix of its annotation module, its name, the value string the type plug-in prints and the modules whose
prefixes occur inside that value (`ns_list[1..]` of the plug-in's print callback: identityref, instance-identifier); for a
terminal node the value string and the modules of the prefixes inside it; opaque nodes (`ONode`) as children of inner nodes.
All namespace work goes through the model of `xml_print_ns` as it is now (`Ns2.lean`: REQUIRED for annotation names and value
modules, a suggestion for the with-defaults attribute; `pctx->opaq` is NULL, so nothing is reserved) — except the prefixes of a
terminal node's value, which `xml_print_term` writes itself, unconditionally and without touching the namespace stack.
Not in the view: anydata / anyxml, the unqualified NETCONF filter attributes (`type`, `select`).
-/
namespace LyModel.XmlTree
open LyModel LyModel.XmlDoc

/-- the modules whose prefixes occur inside a value: (prefix, namespace) of `ns_list[1..]` -/
abbrev ValMods := List (Bytes × Bytes)

structure DMeta where
  ns : Bytes          -- meta->annotation->module->ns
  pfx : Bytes         -- meta->annotation->module->prefix
  name : Bytes
  value : Bytes
  valMods : ValMods
  deriving Repr, DecidableEq

inductive DNode where
  /-- leaf / leaf-list; `wd` = (namespace, prefix) of ietf-netconf-with-defaults when `default="true"` is written -/
  | term (ns name : Bytes) (wd : Option (Bytes × Bytes)) (metas : List DMeta) (value : Bytes) (valMods : ValMods)
  /-- container / list / rpc / action / notification with its printed children -/
  | inner (ns name : Bytes) (metas : List DMeta) (kids : List DNode)
  | opaq (o : ONode)
  deriving Repr

def sDefault : Bytes := [100, 101, 102, 97, 117, 108, 116]   -- "default"
def sTrue : Bytes := [116, 114, 117, 101]                       -- "true"

/-- the modules of a value as a prefix-data set (every entry has a prefix) -/
def toPfxData : ValMods → PfxData
  | [] => []
  | (p, u) :: r => (some p, u) :: toPfxData r

/-- `for (i = 1; i < ns_list.count; ++i) xml_print_ns(pctx, mod->ns, mod->prefix, 1)`: the REQUIRED calls of `prefixData`, nothing
    reserved (`pctx->opaq == NULL`) -/
def valModItems (fx : Fixes) (st : NsStack) (mods : ValMods) : List Item × NsStack := prefixData fx [] st (toPfxData mods)

/-- the loop of `xml_print_meta`: the modules of the value's prefixes, then the annotation's own module, then the attribute -/
def metaItems (fx : Fixes) : NsStack → List DMeta → List Item × NsStack
  | st, [] => ([], st)
  | st, m :: ms =>
    let r1 := valModItems fx st m.valMods
    let r2 := nsPrefixed fx [] r1.2 m.ns m.pfx true
    let r3 := metaItems fx r2.2.2 ms
    (r1.1 ++ r2.2.1 ++ Item.attr (some r2.1) m.name m.value :: r3.1, r3.2)

/-- the head of `xml_print_meta`: `" %s:default=\"true\""` with `xml_print_ns(pctx, mod->ns, mod->prefix, 0)` — a suggestion -/
def wdItems (fx : Fixes) (st : NsStack) : Option (Bytes × Bytes) → List Item × NsStack
  | none => ([], st)
  | some (u, p) =>
    let r := nsPrefixed fx [] st u p false
    (r.2.1 ++ [Item.attr (some r.1) sDefault sTrue], r.2.2)

/-- `xml_print_node_open` after `<name`: the default namespace, the with-defaults attribute, the metadata -/
def dataOpenItems (fx : Fixes) (st : NsStack) (ns : Bytes) (wd : Option (Bytes × Bytes)) (metas : List DMeta) : List Item × NsStack :=
  let r0 := nsDefault st ns
  let r1 := wdItems fx r0.2 wd
  let r2 := metaItems fx r1.2 metas
  (r0.1 ++ r1.1 ++ r2.1, r2.2)

/-- `xml_print_term`: `" xmlns:%s=\"…\""` for every module of the value's prefixes — written directly, whatever is in scope -/
def rawDecls : ValMods → List Item
  | [] => []
  | (p, u) :: r => Item.decl (some p) u :: rawDecls r

/-- the start tag of a terminal node: the open part, then the modules of the value's prefixes — written directly, or (repair of
    F301) through `xml_print_ns(pctx, mod->ns, mod->prefix, LYXML_PREFIX_REQUIRED)` -/
def termTagItems (fx : Fixes) (st : NsStack) (ns : Bytes) (wd : Option (Bytes × Bytes)) (metas : List DMeta) (valMods : ValMods) :
    List Item × NsStack :=
  let r := dataOpenItems fx st ns wd metas
  if fx.termNs then
    let r2 := valModItems fx r.2 valMods
    (r.1 ++ r2.1, r2.2)
  else (r.1 ++ rawDecls valMods, r.2)

mutual
def printDNode (fx : Fixes) (st : NsStack) : DNode → Bytes
  | .term ns name wd metas value valMods =>
    let o := 60 :: name ++ renderItems (termTagItems fx st ns wd metas valMods).1
    if value.isEmpty then o ++ sSlashGt else o ++ [62] ++ XmlText.dumpText false value ++ sLtSlash ++ name ++ [62]
  | .inner ns name metas kids =>
    let tag := dataOpenItems fx st ns none metas
    let o := 60 :: name ++ renderItems tag.1
    if kids.isEmpty then o ++ sSlashGt else o ++ [62] ++ printDList fx tag.2 kids ++ sLtSlash ++ name ++ [62]
  | .opaq o => printONode fx st o
def printDList (fx : Fixes) (st : NsStack) : List DNode → Bytes
  | [] => []
  | n :: r => printDNode fx st n ++ printDList fx st r
end

/-- `xml_print_data` with `LYD_PRINT_WITHSIBLINGS | LYD_PRINT_SHRINK` on the printed part of a data forest -/
def printDData (fx : Fixes) (forest : List DNode) : Bytes := printDList fx [] forest

/-! ### what a namespace-aware reader should report -/

def viewMeta (m : DMeta) : Bytes × Bytes × Bytes := (m.ns, m.name, m.value)

def viewWd : Option (Bytes × Bytes) → List (Bytes × Bytes × Bytes)
  | none => []
  | some (u, _) => [(u, sDefault, sTrue)]

mutual
def dview : DNode → XElem
  | .term ns name wd metas value _ => .mk ns name (viewWd wd ++ metas.map viewMeta) value []
  | .inner ns name metas kids => .mk ns name (metas.map viewMeta) [] (dviewList kids)
  | .opaq o => oview o
def dviewList : List DNode → List XElem
  | [] => []
  | n :: r => dview n :: dviewList r
end

end LyModel.XmlTree
