import LyModel.Text.JsonNum
/-!
# Lemmas about the buffer program of `lyjson_exp_number` (bounds part)
-/
namespace LyModel.JsonNum
open LyModel.Utf8 (rd)

/-! ## slices -/

@[simp] theorem slice_length (inp : Bytes) (a n : Nat) : (slice inp a n).length = n := by
  simp [slice]; omega

theorem rd_eq_getElem (inp : Bytes) (i : Nat) (h : i < inp.length) : rd inp i = inp[i] := by
  simp [rd, List.getD, h]

theorem rd_of_le (inp : Bytes) (i : Nat) (h : inp.length ≤ i) : rd inp i = 0 := by
  simp [rd, List.getD, List.getElem?_eq_none h]

theorem slice_getElem (inp : Bytes) (a n k : Nat) (hk : k < n) :
    (slice inp a n)[k]'(by simp [hk]) = rd inp (a + k) := by
  unfold slice
  simp only []
  by_cases h : a + k < inp.length
  · rw [List.getElem_append_left (by simp; omega)]
    simp [rd_eq_getElem inp (a + k) h]
  · rw [List.getElem_append_right (by simp; omega)]
    simp [rd_of_le inp (a + k) (by omega)]

/-! ## runs of zeros -/

theorem zerosPrefix_le_length : ∀ l : Bytes, zerosPrefix l ≤ l.length
  | [] => by simp [zerosPrefix]
  | c :: cs => by
    have := zerosPrefix_le_length cs
    simp [zerosPrefix]; split <;> omega

theorem zerosPrefix_le_of_ne : ∀ (l : Bytes) (k : Nat) (hk : k < l.length), l[k] ≠ 48 → zerosPrefix l ≤ k
  | [], k, hk, _ => by simp at hk
  | c :: cs, 0, _, h => by
    have : c ≠ 48 := by simpa using h
    simp [zerosPrefix, this]
  | c :: cs, k + 1, hk, h => by
    have := zerosPrefix_le_of_ne cs k (by simpa using hk) (by simpa using h)
    simp [zerosPrefix]; split <;> omega

theorem countFwd_le (inp : Bytes) (a b : Nat) : countFwd inp a b ≤ b - a := by
  unfold countFwd
  split
  · omega
  · have := zerosPrefix_le_length (slice inp a (b - a)); simpa using this

theorem countBack_le (inp : Bytes) (a b : Nat) : countBack inp a b ≤ b - a := by
  unfold countBack
  split
  · omega
  · have := zerosPrefix_le_length (slice inp a (b - a)).reverse; simpa using this

/-- a byte that is not `'0'` at absolute index `j` in `[a, b)` stops the backward count -/
theorem countBack_le_of_ne (inp : Bytes) (a b j : Nat) (ha : a ≤ j) (hb : j < b) (h : rd inp j ≠ 48) :
    countBack inp a b ≤ b - 1 - j := by
  unfold countBack
  split
  · omega
  · have hlen : (slice inp a (b - a)).reverse.length = b - a := by simp
    have hk : b - 1 - j < (slice inp a (b - a)).reverse.length := by omega
    refine zerosPrefix_le_of_ne _ (b - 1 - j) hk ?_
    rw [List.getElem_reverse]
    have : (slice inp a (b - a)).length - 1 - (b - 1 - j) = j - a := by simp; omega
    simp only [this]
    rw [slice_getElem inp a (b - a) (j - a) (by omega)]
    have : a + (j - a) = j := by omega
    rw [this]; exact h

/-! ## `lyjson_exp_number_copy_num_part` -/

/-- number of characters of `src` (at positions `n, n+1, …` of the numeric part) that are copied: all but the old decimal point -/
def nd (decIdx : Option Nat) : Bytes → Nat → Nat
  | [], _ => 0
  | _ :: cs, n => (if decIdx == some n then 0 else 1) + nd decIdx cs (n + 1)

theorem nd_le (decIdx : Option Nat) : ∀ (src : Bytes) (n : Nat), nd decIdx src n ≤ src.length
  | [], _ => by simp [nd]
  | _ :: cs, n => by
    have := nd_le decIdx cs (n + 1)
    simp [nd]; split <;> omega

theorem nd_none : ∀ (src : Bytes) (n : Nat), nd none src n = src.length
  | [], _ => by simp [nd]
  | _ :: cs, n => by simp [nd, nd_none cs (n + 1)]; omega

theorem nd_some_out (i : Nat) : ∀ (src : Bytes) (n : Nat), i < n → nd (some i) src n = src.length
  | [], _, _ => by simp [nd]
  | _ :: cs, n, h => by
    have := nd_some_out i cs (n + 1) (by omega)
    have hne : i ≠ n := by omega
    simp [nd, this, hne]; omega

theorem nd_some_in (i : Nat) : ∀ (src : Bytes) (n : Nat), n ≤ i → i < n + src.length → nd (some i) src n + 1 = src.length
  | [], _, h1, h2 => by simp at h2; omega
  | _ :: cs, n, h1, h2 => by
    by_cases h : i = n
    · subst h
      simp [nd, nd_some_out i cs (i + 1) (by omega)]
    · have := nd_some_in i cs (n + 1) (by omega) (by simp at h2; omega)
      simp [nd, h]; omega

/-- the final `d`: one position per copied character, plus one for the new point when it falls inside -/
theorem copyGo_snd (decIdx : Option Nat) (dp : Int) (base : Nat) : ∀ (src : Bytes) (n d : Nat),
    (copyGo decIdx dp base src n d).2 =
      d + nd decIdx src n + (if (d : Int) ≤ dp ∧ dp < (d : Int) + (nd decIdx src n : Nat) then 1 else 0)
  | [], n, d => by simp [copyGo, nd]
  | c :: cs, n, d => by
    have ih1 := copyGo_snd decIdx dp base cs (n + 1) d
    have ih2 := copyGo_snd decIdx dp base cs (n + 1) (d + 1)
    have ih3 := copyGo_snd decIdx dp base cs (n + 1) (d + 2)
    unfold copyGo
    by_cases h1 : decIdx = some n
    · simp [h1, nd] at ih1 ⊢; rw [ih1]
    · by_cases h2 : (d : Int) = dp
      · simp only [beq_iff_eq, h1, h2, if_true, if_false, nd] at ih3 ⊢
        simp only [h2.symm] at ih3 ⊢
        rw [ih3]
        split <;> split <;> omega
      · simp only [beq_iff_eq, h1, h2, if_false, nd] at ih2 ⊢
        rw [ih2]
        split <;> split <;> omega

theorem copyGo_mono (decIdx : Option Nat) (dp : Int) (base : Nat) (src : Bytes) (n d : Nat) :
    d ≤ (copyGo decIdx dp base src n d).2 := by
  rw [copyGo_snd]; omega

/-- every store of the copy loop goes to `dst[d .. final d)` -/
theorem copyGo_fst_bound (decIdx : Option Nat) (dp : Int) (base : Nat) : ∀ (src : Bytes) (n d : Nat),
    ∀ w ∈ (copyGo decIdx dp base src n d).1, base + d ≤ w.1 ∧ w.1 < base + (copyGo decIdx dp base src n d).2
  | [], n, d => by simp [copyGo]
  | c :: cs, n, d => by
    have ih1 := copyGo_fst_bound decIdx dp base cs (n + 1) d
    have ih2 := copyGo_fst_bound decIdx dp base cs (n + 1) (d + 1)
    have ih3 := copyGo_fst_bound decIdx dp base cs (n + 1) (d + 2)
    have m2 := copyGo_mono decIdx dp base cs (n + 1) (d + 1)
    have m3 := copyGo_mono decIdx dp base cs (n + 1) (d + 2)
    unfold copyGo
    by_cases h1 : decIdx = some n
    · simpa [h1] using ih1
    · by_cases h2 : (d : Int) = dp
      · simp only [beq_iff_eq, h1, h2, if_true, if_false]
        intro w hw
        simp only [List.mem_cons] at hw
        rcases hw with rfl | rfl | hw
        · simp; omega
        · simp; omega
        · have := ih3 w hw; omega
      · simp only [beq_iff_eq, h1, h2, if_false]
        intro w hw
        simp only [List.mem_cons] at hw
        rcases hw with rfl | hw
        · simp; omega
        · have := ih2 w hw; omega

theorem memsetW_bound (base : Nat) (b : UInt8) (n : Nat) : ∀ w ∈ memsetW base b n, base ≤ w.1 ∧ w.1 < base + n := by
  intro w hw
  simp [memsetW] at hw
  obtain ⟨k, hk, rfl⟩ := hw
  simp; omega

theorem minusW_bound (m : Nat) : ∀ w ∈ minusW m, w.1 < m := by
  intro w hw
  unfold minusW at hw
  split at hw
  · rename_i h; simp at hw h; subst hw; simp; omega
  · simp at hw

theorem copyNumPart_snd (num : Bytes) (decIdx : Option Nat) (dp : Int) (base : Nat) :
    (copyNumPart num decIdx dp base).2 =
      nd decIdx num 0 + (if 0 ≤ dp ∧ dp < (nd decIdx num 0 : Nat) then 1 else 0) := by
  have := copyGo_snd decIdx dp base num 0 0
  simpa [copyNumPart] using this

theorem copyNumPart_bound (num : Bytes) (decIdx : Option Nat) (dp : Int) (base : Nat) :
    ∀ w ∈ (copyNumPart num decIdx dp base).1, base ≤ w.1 ∧ w.1 < base + (copyNumPart num decIdx dp base).2 := by
  have := copyGo_fst_bound decIdx dp base num 0 0
  simpa [copyNumPart] using this

/-! ## the five composition branches -/

/-- what the composition needs to know about the prepared quantities -/
structure PrepOk (p : Prep) : Prop where
  m_le : p.m ≤ 1
  numLen_lt : p.numLen < 65536
  dec_lt : ∀ i, p.decIdx = some i → i < p.numLen
  lz_dec : p.leadingZero = true → p.decIdx = some 0
  dot_eq : p.dot = dotOf p.decIdx p.numLen p.dp

theorem nd_slice_none (inp : Bytes) (a n : Nat) : nd none (slice inp a n) 0 = n := by
  simp [nd_none]

theorem nd_slice_some (inp : Bytes) (a n i : Nat) (h : i < n) : nd (some i) (slice inp a n) 0 + 1 = n := by
  have := nd_some_in i (slice inp a n) 0 (Nat.zero_le _) (by simpa using h)
  simpa using this

/-- the bound a branch must meet: stores at indices `≤ buf_len` (inside the `buf_len + 1` allocated bytes), lengths `≥ 0` -/
def Bounded (c : Composed) : Prop := (∀ w ∈ c.2.1, (w.1 : Int) < c.1 + 1) ∧ (∀ l ∈ c.2.2, 0 ≤ l)

theorem composeB1_bounds (inp : Bytes) (p : Prep) (h : PrepOk p) (hdp : p.dp ≤ 0) : Bounded (composeB1 inp p) := by
  obtain ⟨hm, hnl, hdec, hlz, hdot⟩ := h
  unfold dotOf at hdot
  unfold Bounded composeB1
  simp only []
  have hsnd : (copyNumPart (slice inp p.numOff p.numLen) p.decIdx (-1) (p.m + 2 + p.dp.natAbs)).2 =
      nd p.decIdx (slice inp p.numOff p.numLen) 0 := by
    rw [copyNumPart_snd]; simp
  have hb := copyNumPart_bound (slice inp p.numOff p.numLen) p.decIdx (-1) (p.m + 2 + p.dp.natAbs)
  constructor
  · intro w hw
    simp only [List.mem_append, List.mem_cons, List.not_mem_nil, or_false] at hw
    have hnd : (nd p.decIdx (slice inp p.numOff p.numLen) 0 : Int) ≤ p.dot + p.numLen := by
      cases hd : p.decIdx with
      | none => simp [hd] at hdot; rw [nd_slice_none]; omega
      | some i =>
        have hi := hdec i hd
        have := nd_slice_some inp p.numOff p.numLen i hi
        rw [hd] at hdot
        simp only [Option.isSome_some, Bool.true_and, if_true] at hdot
        split at hdot <;> omega
    rcases hw with ((hw | hw | hw) | hw) | hw
    · have := minusW_bound p.m w hw; omega
    · subst hw; simp; omega
    · subst hw; simp; omega
    · have := memsetW_bound _ _ _ w hw; omega
    · have := hb w hw; rw [hsnd] at this; omega
  · intro l hl
    simp at hl
    rcases hl with rfl | rfl <;> omega

/-- the branch of F14 as it is in 3.7.8: the last store reaches index `buf_len` — still inside the allocation -/
theorem composeB2orig_bounds (inp : Bytes) (p : Prep) (h : PrepOk p) (hdp : 0 < p.dp)
    (hl : p.leadingZero = true) (hlt : p.dp < p.numLen) : Bounded (composeB2orig inp p) := by
  obtain ⟨hm, hnl, hdec, hlz, hdot⟩ := h
  unfold Bounded composeB2orig
  simp only []
  have hd0 := hlz hl
  have h1 : 1 ≤ p.numLen := by have := hdec 0 hd0; omega
  have hnl' : (p.numLen + 65535) % 65536 = p.numLen - 1 := by omega
  simp only [hnl']
  have hz := countFwd_le inp (p.numOff + 1) (p.numOff + 1 + (p.dp - 1 + 1).toNat)
  have hz' : (countFwd inp (p.numOff + 1) (p.numOff + 1 + (p.dp - 1 + 1).toNat) : Int) ≤ p.dp := by omega
  generalize countFwd inp (p.numOff + 1) (p.numOff + 1 + (p.dp - 1 + 1).toNat) = z at hz'
  by_cases hall : (z : Int) = p.dp - 1 + 1
  · simp only [hall, beq_self_eq_true, if_true]
    have hsnd := copyNumPart_snd (slice inp (p.numOff + 1 + (p.dp - 1 + 1 - 1).toNat) ((↑(p.numLen - 1) : Int) - (p.dp - 1 + 1 - 1)).toNat) none 1 p.m
    have hb := copyNumPart_bound (slice inp (p.numOff + 1 + (p.dp - 1 + 1 - 1).toNat) ((↑(p.numLen - 1) : Int) - (p.dp - 1 + 1 - 1)).toNat) none 1 p.m
    rw [nd_slice_none] at hsnd
    constructor
    · intro w hw
      simp only [List.mem_append] at hw
      rcases hw with hw | hw
      · have := minusW_bound p.m w hw; omega
      · have := hb w hw; rw [hsnd] at this
        split at this <;> omega
    · intro l hl; simp at hl; omega
  · have hne : ((z : Int) == p.dp - 1 + 1) = false := by simpa using hall
    simp only [hne, if_false, Bool.false_eq_true]
    have hsnd := copyNumPart_snd (slice inp (p.numOff + 1 + (z : Int).toNat) ((↑(p.numLen - 1) : Int) - z).toNat) none (p.dp - 1) p.m
    have hb := copyNumPart_bound (slice inp (p.numOff + 1 + (z : Int).toNat) ((↑(p.numLen - 1) : Int) - z).toNat) none (p.dp - 1) p.m
    rw [nd_slice_none] at hsnd
    constructor
    · intro w hw
      simp only [List.mem_append] at hw
      rcases hw with hw | hw
      · have := minusW_bound p.m w hw; omega
      · have := hb w hw; rw [hsnd] at this
        split at this <;> omega
    · intro l hl; simp at hl; omega

/-- the same branch after `fixes/F14.diff`: every store is below `buf_len` -/
theorem composeB2fixed_bounds (inp : Bytes) (p : Prep) (h : PrepOk p) (hdp : 0 < p.dp)
    (_hl : p.leadingZero = true) (hlt : p.dp < (p.numLen : Int) - 1) : Bounded (composeB2fixed inp p) := by
  obtain ⟨hm, hnl, hdec, hlz, hdot⟩ := h
  unfold Bounded composeB2fixed
  simp only []
  have hnl' : (p.numLen + 65535) % 65536 = p.numLen - 1 := by omega
  simp only [hnl']
  have hz := countFwd_le inp (p.numOff + 1) (p.numOff + 1 + p.dp.toNat)
  have hz' : (countFwd inp (p.numOff + 1) (p.numOff + 1 + p.dp.toNat) : Int) ≤ p.dp := by omega
  generalize countFwd inp (p.numOff + 1) (p.numOff + 1 + p.dp.toNat) = z at hz'
  by_cases hall : (z : Int) = p.dp
  · simp only [hall, beq_self_eq_true, if_true]
    have hsnd := copyNumPart_snd (slice inp (p.numOff + 1 + (p.dp - 1).toNat) ((↑(p.numLen - 1) : Int) - (p.dp - 1)).toNat) none 1 p.m
    have hb := copyNumPart_bound (slice inp (p.numOff + 1 + (p.dp - 1).toNat) ((↑(p.numLen - 1) : Int) - (p.dp - 1)).toNat) none 1 p.m
    rw [nd_slice_none] at hsnd
    constructor
    · intro w hw
      simp only [List.mem_append] at hw
      rcases hw with hw | hw
      · have := minusW_bound p.m w hw; omega
      · have := hb w hw; rw [hsnd] at this
        split at this <;> omega
    · intro l hl; simp at hl; omega
  · have hne : ((z : Int) == p.dp) = false := by simpa using hall
    simp only [hne, if_false, Bool.false_eq_true]
    have hsnd := copyNumPart_snd (slice inp (p.numOff + 1 + (z : Int).toNat) ((↑(p.numLen - 1) : Int) - z).toNat) none (p.dp - z) p.m
    have hb := copyNumPart_bound (slice inp (p.numOff + 1 + (z : Int).toNat) ((↑(p.numLen - 1) : Int) - z).toNat) none (p.dp - z) p.m
    rw [nd_slice_none] at hsnd
    constructor
    · intro w hw
      simp only [List.mem_append] at hw
      rcases hw with hw | hw
      · have := minusW_bound p.m w hw; omega
      · have := hb w hw; rw [hsnd] at this
        split at this <;> omega
    · intro l hl; simp at hl; omega

theorem composeB3_bounds (inp : Bytes) (p : Prep) (h : PrepOk p) (hdp : 0 < p.dp)
    (_hl : p.leadingZero = false) (hlt : p.dp < p.numLen) : Bounded (composeB3 inp p) := by
  obtain ⟨hm, hnl, hdec, hlz, hdot⟩ := h
  unfold dotOf at hdot
  unfold Bounded composeB3
  simp only []
  have hsnd := copyNumPart_snd (slice inp p.numOff p.numLen) p.decIdx p.dp p.m
  have hb := copyNumPart_bound (slice inp p.numOff p.numLen) p.decIdx p.dp p.m
  constructor
  · intro w hw
    simp only [List.mem_append] at hw
    rcases hw with hw | hw
    · have := minusW_bound p.m w hw; omega
    · have := hb w hw; rw [hsnd] at this
      cases hd : p.decIdx with
      | none =>
        rw [hd] at hdot this; simp at hdot; rw [nd_slice_none] at this
        split at this <;> omega
      | some i =>
        have hi := hdec i hd
        have hnd := nd_slice_some inp p.numOff p.numLen i hi
        rw [hd] at hdot this
        simp only [Option.isSome_some, Bool.true_and, if_true] at hdot
        split at hdot
        · rename_i he
          simp only [beq_iff_eq] at he
          split at this <;> omega
        · split at this <;> omega
  · intro l hl'; simp at hl'; omega

theorem composeB4_bounds (inp : Bytes) (p : Prep) (h : PrepOk p) (hdp : 0 < p.dp)
    (hl : p.leadingZero = true) (hge : (p.numLen : Int) - 1 ≤ p.dp) : Bounded (composeB4 inp p) := by
  obtain ⟨hm, hnl, hdec, hlz, hdot⟩ := h
  unfold Bounded composeB4
  simp only []
  have hd0 := hlz hl
  have h1 : 1 ≤ p.numLen := by have := hdec 0 hd0; omega
  have hnl' : (p.numLen + 65535) % 65536 = p.numLen - 1 := by omega
  simp only [hnl']
  have hz := countFwd_le inp (p.numOff + 1) (p.numOff + 1 + (p.numLen - 1))
  generalize countFwd inp (p.numOff + 1) (p.numOff + 1 + (p.numLen - 1)) = z at hz
  have hsnd := copyNumPart_snd (slice inp (p.numOff + 1 + z) ((↑(p.numLen - 1) : Int) - z).toNat) none p.dp p.m
  have hb := copyNumPart_bound (slice inp (p.numOff + 1 + z) ((↑(p.numLen - 1) : Int) - z).toNat) none p.dp p.m
  rw [nd_slice_none] at hsnd
  have hins : ¬ (0 ≤ p.dp ∧ p.dp < ((((↑(p.numLen - 1) : Int) - z).toNat : Nat) : Int)) := by omega
  simp only [hins, if_false, Nat.add_zero] at hsnd
  constructor
  · intro w hw
    simp only [List.mem_append] at hw
    rcases hw with (hw | hw) | hw
    · have := minusW_bound p.m w hw; omega
    · have := hb w hw; rw [hsnd] at this; omega
    · have := memsetW_bound _ _ _ w hw; rw [hsnd] at this; omega
  · intro l hl'
    simp only [List.mem_cons, List.not_mem_nil, or_false] at hl'
    rw [hsnd] at hl'; omega

theorem composeB5_bounds (inp : Bytes) (p : Prep) (h : PrepOk p) (hdp : 0 < p.dp)
    (hge : (p.numLen : Int) ≤ p.dp) : Bounded (composeB5 inp p) := by
  obtain ⟨hm, hnl, hdec, hlz, hdot⟩ := h
  unfold Bounded composeB5
  simp only []
  have hsnd := copyNumPart_snd (slice inp p.numOff p.numLen) p.decIdx p.dp p.m
  have hb := copyNumPart_bound (slice inp p.numOff p.numLen) p.decIdx p.dp p.m
  have hndle := nd_le p.decIdx (slice inp p.numOff p.numLen) 0
  simp only [slice_length] at hndle
  have hins : ¬ (0 ≤ p.dp ∧ p.dp < ((nd p.decIdx (slice inp p.numOff p.numLen) 0 : Nat) : Int)) := by omega
  simp only [hins, if_false, Nat.add_zero] at hsnd
  constructor
  · intro w hw
    simp only [List.mem_append] at hw
    rcases hw with (hw | hw) | hw
    · have := minusW_bound p.m w hw; omega
    · have := hb w hw; rw [hsnd] at this; omega
    · have := memsetW_bound _ _ _ w hw; rw [hsnd] at this; omega
  · intro l hl'
    simp only [List.mem_cons, List.not_mem_nil, or_false] at hl'
    rw [hsnd] at hl'; omega

/-- every store of the composition (before the final NUL) has an index `≤ buf_len`, i.e. inside the `buf_len + 1`
    allocated bytes, and every length handed to `memset` / the copy loop is non-negative — for the source as it is
    (whichever shape of the leading-zero branches the translator found) -/
theorem compose_bounds (inp : Bytes) (p : Prep) (h : PrepOk p) : Bounded (compose inp p) := by
  unfold compose
  by_cases hdp : p.dp ≤ 0
  · simp only [hdp, if_true]; exact composeB1_bounds inp p h hdp
  · simp only [hdp, if_false]
    have hdp' : 0 < p.dp := by omega
    cases hl : p.leadingZero with
    | true =>
      split
      · -- fixed source
        simp only [Bool.true_and, Bool.not_true, Bool.false_and, decide_eq_true_eq, Bool.false_eq_true, if_false, if_true]
        split
        · rename_i hlt; exact composeB2fixed_bounds inp p h hdp' hl hlt
        · rename_i hge; exact composeB4_bounds inp p h hdp' hl (by omega)
      · simp only [Bool.true_and, decide_eq_true_eq, if_true]
        split
        · rename_i hlt; exact composeB2orig_bounds inp p h hdp' hl hlt
        · rename_i hge
          first
            | exact composeB4_bounds inp p h hdp' hl (by omega)
            | (rw [if_neg hge]; exact composeB4_bounds inp p h hdp' hl (by omega))
    | false =>
      split
      · simp only [Bool.false_and, Bool.not_false, Bool.true_and, decide_eq_true_eq, Bool.false_eq_true, if_false]
        split
        · rename_i hlt; exact composeB3_bounds inp p h hdp' hl hlt
        · rename_i hge; exact composeB5_bounds inp p h hdp' (by omega)
      · simp only [Bool.false_and, Bool.false_eq_true, if_false]
        split
        · rename_i hlt; exact composeB3_bounds inp p h hdp' hl hlt
        · rename_i hge; exact composeB5_bounds inp p h hdp' (by omega)

/-! ## the prepared quantities -/

theorem findDot_some {l : Bytes} {i : Nat} (h : findDot l = some i) : ∃ hi : i < l.length, l[i] = 46 := by
  unfold findDot at h
  cases hf : l.findIdx? (· == 46) with
  | none => simp [hf] at h
  | some j =>
    simp [hf] at h
    subst h
    obtain ⟨hj, hp, _⟩ := List.findIdx?_eq_some_iff_getElem.mp hf
    exact ⟨hj, by simpa using hp⟩

theorem findDot_head {l : Bytes} (hl : 0 < l.length) (h : l[0] = 46) : findDot l = some 0 := by
  cases l with
  | nil => simp at hl
  | cons x xs =>
    have : x = 46 := by simpa using h
    subst this
    simp [findDot, List.findIdx?_cons]

theorem trimOf_le (inp : Bytes) (numOff e : Nat) (dp : Int) : trimOf inp numOff e dp ≤ e - numOff := by
  unfold trimOf; split
  · have := countBack_le inp (numOff + (dp - 1).toNat) e; omega
  · exact countBack_le inp numOff e

/-- the backward count of zeros never reaches the old decimal point -/
theorem trimOf_lt (inp : Bytes) (numOff e : Nat) (dp : Int) (i : Nat)
    (hi : findDot (slice inp numOff (e - numOff)) = some i) : trimOf inp numOff e dp + i < e - numOff := by
  obtain ⟨hil, hdot⟩ := findDot_some hi
  simp only [slice_length] at hil
  rw [slice_getElem inp numOff (e - numOff) i hil] at hdot
  have hne : rd inp (numOff + i) ≠ 48 := by rw [hdot]; decide
  unfold trimOf; split
  · by_cases ha : numOff + (dp - 1).toNat ≤ numOff + i
    · have := countBack_le_of_ne inp (numOff + (dp - 1).toNat) e (numOff + i) ha (by omega) hne; omega
    · have := countBack_le inp (numOff + (dp - 1).toNat) e; omega
  · have := countBack_le_of_ne inp numOff e (numOff + i) (by omega) (by omega) hne; omega

/-- `prep` yields quantities the composition is safe on, provided the exponent sits within the first 65535 bytes and a
    leading `0` is followed by `.` (what `lyjson_number` guarantees before it calls `lyjson_exp_number`) -/
theorem prep_ok (inp : Bytes) (e : Nat) (eVal : Int) (he : e ≤ 65535)
    (hlz : rd inp (signOff inp) = 48 → rd inp (signOff inp + 1) = 46 ∧ signOff inp + 2 ≤ e) :
    PrepOk (prep inp e eVal) := by
  have hmle : signOff inp ≤ 1 := by unfold signOff; split <;> omega
  refine ⟨hmle, ?_, ?_, ?_, rfl⟩
  · show (_ % 65536 : Nat) < 65536
    omega
  · intro i hi
    simp only [prep] at hi ⊢
    generalize hno : (if (rd inp (signOff inp) == 48) = true then signOff inp + 1 else signOff inp) = numOff at hi ⊢
    have hn0 : (e - numOff) % 65536 = e - numOff := by omega
    rw [hn0] at hi ⊢
    have h1 := trimOf_le inp numOff e (dpOf (findDot (slice inp numOff (e - numOff))) (e - numOff) eVal)
    have h2 := trimOf_lt inp numOff e (dpOf (findDot (slice inp numOff (e - numOff))) (e - numOff) eVal) i hi
    omega
  · intro hl
    simp only [prep] at hl ⊢
    simp only [beq_iff_eq] at hl
    obtain ⟨h46, h2⟩ := hlz hl
    simp only [hl, beq_self_eq_true, if_true]
    have hn0 : (e - (signOff inp + 1)) % 65536 = e - (signOff inp + 1) := by omega
    rw [hn0]
    refine findDot_head (by simp; omega) ?_
    rw [slice_getElem inp (signOff inp + 1) (e - (signOff inp + 1)) 0 (by omega)]
    simpa using h46

/-! ## from `lyjson_number` to the composition -/

theorem slice_one (inp : Bytes) (a : Nat) : slice inp a 1 = [rd inp a] := by
  apply List.ext_getElem
  · simp
  · intro i h1 h2
    have hi : i = 0 := by simp at h2; omega
    subst hi
    rw [slice_getElem inp a 1 0 (by omega)]
    simp

theorem expNumber_bounds (inp : Bytes) (e : Nat) (x : ExpOut)
    (hlz : rd inp (signOff inp) = 48 → rd inp (signOff inp + 1) = 46 ∧ signOff inp + 2 ≤ e)
    (h : expNumber inp e = .ok x) :
    (∀ w ∈ x.writes, w.1 < x.alloc) ∧ (∀ l ∈ x.lens, 0 ≤ l) := by
  unfold expNumber at h
  by_cases he : e > 65535
  · simp [he] at h
  · by_cases hm : digitsVal (expDigits inp e) > 65535
    · simp [he, hm] at h
    · simp only [he, hm, if_false] at h
      split at h
      · simp at h
      · rename_i hneg
        simp only [Bool.or_eq_true, decide_eq_true_eq, not_or, Int.not_lt] at hneg
        injection h with h
        subst h
        obtain ⟨hw, hl⟩ := compose_bounds inp (prep inp e (expVal inp e)) (prep_ok inp e (expVal inp e) (by omega) hlz)
        unfold Bounded at *
        constructor
        · intro w hw'
          simp only [ExpOut.alloc, List.mem_append, List.mem_cons, List.not_mem_nil, or_false] at hw' ⊢
          rcases hw' with hw' | rfl
          · have := hw w hw'; omega
          · simp
        · exact hl

/-- where the scanner puts the exponent -/
theorem scan_expOff {inp : Bytes} {s : Scan} {e : Nat} (hs : scan inp = .ok s) (he : s.expOff = some e) :
    e = fracEnd inp (intEnd inp (signOff inp)) := by
  unfold scan at hs
  simp only [] at hs
  repeat' split at hs
  all_goals first
    | (simp at hs; done)
    | (injection hs with hs; subst hs; simp at he; omega)
    | (injection hs with hs; subst hs; simp at he)

theorem scan_minus {inp : Bytes} {s : Scan} (hs : scan inp = .ok s) : isDigit (rd inp (signOff inp)) = true := by
  unfold scan at hs
  simp only [] at hs
  split at hs
  · simp at hs
  · rename_i h; simpa using h

/-- a mantissa `0` / `-0` that is not followed by `.` is what `lyjson_number_is_zero` recognises -/
theorem isZero_bare_zero (inp : Bytes) (h48 : rd inp (signOff inp) = 48) (h46 : rd inp (signOff inp + 1) ≠ 46) :
    isZero inp 0 (signOff inp + 1) = true := by
  unfold isZero
  have hne : (rd inp (signOff inp + 1) == 46) = false := by simpa using h46
  have ha : (if rd inp 0 == 45 || rd inp 0 == 43 then 0 + 1 else 0) = signOff inp := by
    by_cases h45 : rd inp 0 = 45
    · simp [signOff, h45]
    · have h0 : signOff inp = 0 := by simp [signOff, h45]
      rw [h0] at h48
      simp [signOff, h48]
  simp only [ha, h48, hne, beq_self_eq_true, Bool.and_false, Bool.false_eq_true, if_false]
  have hc : countFwd inp (signOff inp) (signOff inp + 1) = 1 := by
    unfold countFwd
    have h1 : ¬ (signOff inp ≥ signOff inp + 1) := by omega
    have h2 : signOff inp + 1 - signOff inp = 1 := by omega
    simp only [h1, if_false, h2, slice_one, h48]
    simp [zerosPrefix]
  simp [hc]

/-- what `lyjson_number` has established when it calls `lyjson_exp_number` -/
theorem number_exp (inp : Bytes) (r : NumOut) (x : ExpOut) (h : number inp = .ok r) (hx : r.exp = some x) :
    ∃ e, (rd inp (signOff inp) = 48 → rd inp (signOff inp + 1) = 46 ∧ signOff inp + 2 ≤ e) ∧ expNumber inp e = .ok x := by
  unfold number at h
  split at h
  · simp at h
  · rename_i s hs
    simp only [] at h
    split at h
    · injection h with h; subst h; simp at hx
    · rename_i hz
      split at h
      · rename_i e he
        split at h
        · injection h with h; subst h; simp at hx
        · split at h
          · simp at h
          · rename_i y hy
            injection h with h; subst h
            simp only [Option.some.injEq] at hx
            subst hx
            refine ⟨e, ?_, hy⟩
            simp only [he, Option.getD_some] at hz
            intro h48
            have hE := scan_expOff hs he
            by_cases h46 : rd inp (signOff inp + 1) = 46
            · refine ⟨h46, ?_⟩
              simp only [intEnd, fracEnd, h48, h46, beq_self_eq_true, if_true] at hE
              omega
            · exfalso
              have hne : (rd inp (signOff inp + 1) == 46) = false := by simpa using h46
              simp only [intEnd, fracEnd, h48, hne, beq_self_eq_true, if_true, if_false, Bool.false_eq_true] at hE
              subst hE
              exact hz (isZero_bare_zero inp h48 h46)
      · split at h
        · simp at h
        · injection h with h; subst h; simp at hx

end LyModel.JsonNum
