import LyModel.Text.JsonNum
import LyModel.Lex.JsonStrBuf
import LyModel.Lex.XmlBuf
import LyModel.Lex.Utf8Reads
/-! driver ops of component `lex` (buffer-program models of the lexers, property C05) -/
namespace LyModel.Lex.Drv
open LyModel

def handle (op : String) (args : List String) : String :=
  match op, args with
  | "jsonnum", [h] =>
    match Hex.dec h with
    | some s => JsonNum.numberReply s
    | none => "err BadHex"
  | "jsonnumx", [h] =>      -- model only: buffer program of the dynamic case
    match Hex.dec h with
    | some s =>
      match JsonNum.number s with
      | .error e => "err " ++ e.name
      | .ok r =>
        match r.exp with
        | none => "ok static"
        | some x => "ok " ++ toString x.alloc ++ " " ++ toString (x.writes.foldl (fun a w => max a w.1) 0) ++ " " ++
            toString (x.lens.foldl (fun a l => min a l) 0) ++ " " ++ toString x.writes.length
    | none => "err BadHex"
  -- the instrumented (buffer-explicit) lexers answer the same requests as component `text`
  | "xmlparse", [endc, h] =>
    match Hex.dec endc, Hex.dec h with
    | some [e], some s =>
      match XmlBuf.parseI e s with
      | none => "err AssertionTripped"
      | some (.ok (v, ws, rest)) => "ok " ++ Hex.enc v ++ " " ++ (if ws then "1" else "0") ++ " " ++ toString rest.length
      | some (.error e) => "err " ++ e.name
    | _, _ => "err BadHex"
  | "jsonparse", [h] =>
    match Hex.dec h with
    | some s =>
      match JsonStrBuf.parseI s with
      | none => "err AssertionTripped"
      | some (.ok (v, rest)) => "ok " ++ Hex.enc v ++ " " ++ toString rest.length
      | some (.error e) => "err " ++ e.name
    | none => "err BadHex"
  | "getutf8", [h] =>
    match Hex.dec h with
    | some s =>
      let r := Utf8Reads.getUtf8I s
      -- a read behind the terminator would be a model defect (the theorem says it cannot happen)
      if r.2.any (fun i => i > Utf8Reads.cstrlen s) then "err ReadPastNul"
      else match r.1 with
        | some (c, n) => "ok " ++ toString c ++ " " ++ toString n
        | none => "err Inval"
    | none => "err BadHex"
  | _, _ => "err BadOp"

end LyModel.Lex.Drv
