import LyModel.Text.JsonNum
/-! driver ops of component `lex` (buffer-program models of the lexers, property C05) -/
namespace LyModel.Lex.Drv
open LyModel

def handle (op : String) (args : List String) : String :=
  match op, args with
  | "jsonnum", [h] =>
    match Hex.dec h with
    | some s => JsonNum.numberReply s
    | none => "err BadHex"
  | "jsonnumx", [h] =>      -- model only: buffer program of the dynamic case
    match Hex.dec h with
    | some s =>
      match JsonNum.number s with
      | .error e => "err " ++ e.name
      | .ok r =>
        match r.exp with
        | none => "ok static"
        | some x => "ok " ++ toString x.alloc ++ " " ++ toString (x.writes.foldl (fun a w => max a w.1) 0) ++ " " ++
            toString (x.lens.foldl (fun a l => min a l) 0) ++ " " ++ toString x.writes.length
    | none => "err BadHex"
  | _, _ => "err BadOp"

end LyModel.Lex.Drv
