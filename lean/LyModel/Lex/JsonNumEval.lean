import LyModel.Lex.JsonNumArith
import LyModel.Lex.JsonNumRender
/-!
# `lyjson_number` evaluated on an RFC 8259 number text

The scanner on `t.render ++ rest` (offsets of the parts), the two zero tests, and what `prep` derives.
-/
namespace LyModel.JsonNum
open LyModel.Utf8 (rd)

/-! ## slices of an input whose parts are known -/

theorem slice_of_drop {inp : Bytes} {o : Nat} {l tl : Bytes} (h : inp.drop o = l ++ tl) : slice inp o l.length = l := by
  unfold slice; simp [h]

theorem slice_zero (inp : Bytes) (a : Nat) : slice inp a 0 = [] := by simp [slice]

theorem slice_take (inp : Bytes) (a n k : Nat) (hk : k ≤ n) : slice inp a k = (slice inp a n).take k := by
  apply List.ext_getElem
  · simp [Nat.min_eq_left hk]
  · intro i h1 h2
    simp only [slice_length] at h1
    rw [slice_getElem inp a k i h1, List.getElem_take, slice_getElem inp a n i (by omega)]

theorem slice_drop (inp : Bytes) (a n z : Nat) : slice inp (a + z) (n - z) = (slice inp a n).drop z := by
  apply List.ext_getElem
  · simp
  · intro i h1 h2
    simp only [slice_length] at h1
    rw [slice_getElem inp (a + z) (n - z) i h1, List.getElem_drop, slice_getElem inp a n (z + i) (by omega)]
    congr 1; omega

theorem countFwd_eq (inp : Bytes) (a k : Nat) : countFwd inp a (a + k) = zerosPrefix (slice inp a k) := by
  unfold countFwd
  by_cases h : a ≥ a + k
  · have : k = 0 := by omega
    subst this
    simp [slice_zero, zerosPrefix]
  · have : a + k - a = k := by omega
    simp [h, this]

theorem countBack_eq (inp : Bytes) (a k : Nat) : countBack inp a (a + k) = zerosPrefix (slice inp a k).reverse := by
  unfold countBack
  by_cases h : a ≥ a + k
  · have : k = 0 := by omega
    subst this
    simp [slice_zero, zerosPrefix]
  · have : a + k - a = k := by omega
    simp [h, this]

/-! ## the parts of a well-formed text, once more -/

theorem wf_ip' {t : NumText} (h : t.wf = true) :
    ∃ i0 I', t.ip = i0 :: I' ∧ isDigit i0 = true ∧ allDigits I' = true ∧ (i0 = 48 → I' = []) := by
  rcases wf_ip h with h0 | ⟨i0, I', hI, hd, hne, hI'⟩
  · exact ⟨48, [], h0, by decide, rfl, fun _ => rfl⟩
  · exact ⟨i0, I', hI, hd, hI', fun h => absurd h hne⟩

/-- the byte that follows the number text is none the scanner would go on with -/
theorem rd_rest {inp : Bytes} {o : Nat} {rest : Bytes} (hs : Stops rest = true) (h : inp.drop o = rest) :
    isDigit (rd inp o) = false ∧ rd inp o ≠ 46 ∧ rd inp o ≠ 101 ∧ rd inp o ≠ 69 := by
  cases rest with
  | nil => rw [rd_of_drop_nil h]; decide
  | cons c tl =>
    rw [rd_of_drop h]
    simp only [Stops, Bool.and_eq_true, Bool.not_eq_true', bne_iff_ne, ne_eq] at hs
    exact ⟨hs.1.1.1, hs.1.1.2, hs.1.2, hs.2⟩

/-- sign and integer part -/
theorem scan_int (t : NumText) (hwf : t.wf = true) (inp T1 : Bytes)
    (h0 : inp.drop 0 = signBytes t ++ (t.ip ++ T1)) (hT : NoDigitAhead T1) :
    signOff inp = (signBytes t).length ∧ isDigit (rd inp (signBytes t).length) = true ∧
    intEnd inp (signBytes t).length = (signBytes t).length + t.ip.length ∧
    ((rd inp (signBytes t).length = 48) ↔ t.ip = [48]) := by
  obtain ⟨i0, I', hI, hd0, hI', h48⟩ := wf_ip' hwf
  have h1 := drop_of_drop_append h0
  simp only [Nat.zero_add] at h1
  rw [hI] at h1 h0 ⊢
  have hr : rd inp (signBytes t).length = i0 := rd_of_drop (by simpa using h1)
  have hsign : signOff inp = (signBytes t).length := by
    unfold signOff signBytes at *
    cases hn : t.neg with
    | true =>
      rw [hn] at h0; simp only [if_true, List.cons_append, List.nil_append] at h0
      rw [rd_of_drop h0]; simp
    | false =>
      rw [hn] at h0; simp only [Bool.false_eq_true, if_false, List.cons_append, List.nil_append] at h0
      rw [rd_of_drop h0]
      have := (isDigit_ne hd0).1
      simp [this]
  refine ⟨hsign, by rw [hr]; exact hd0, ?_, ?_⟩
  · unfold intEnd
    rw [hr]
    by_cases h : i0 = 48
    · simp [h, h48 h]
    · have hb : (i0 == 48) = false := by simpa using h
      simp only [hb, Bool.false_eq_true, if_false, List.length_cons]
      have h2 : inp.drop ((signBytes t).length + 1) = I' ++ T1 :=
        drop_of_drop_append (l := [i0]) (by simpa using h1)
      rw [h2, countDigits_prefix I' T1 hI' hT]
      omega
  · rw [hr]
    constructor
    · intro h; rw [h, h48 h]
    · intro h; injection h

/-- the optional fraction -/
theorem scan_frac (t : NumText) (hwf : t.wf = true) (rest : Bytes) (hs : Stops rest = true) (inp : Bytes) (o1 : Nat)
    (h : inp.drop o1 = fracBytes t ++ (expBytes t ++ rest)) :
    (rd inp o1 == 46 && !isDigit (rd inp (o1 + 1))) = false ∧ fracEnd inp o1 = o1 + (fracBytes t).length ∧
    ((rd inp o1 = 46) ↔ t.fp.isSome = true) := by
  unfold fracBytes at *
  cases hf : t.fp with
  | none =>
    rw [hf] at h
    simp only [List.nil_append] at h
    have hne : rd inp o1 ≠ 46 := by
      cases he : t.exp with
      | none =>
        simp only [expBytes, he, List.nil_append] at h
        exact (rd_rest hs h).2.1
      | some e =>
        obtain ⟨up, sg, d⟩ := e
        simp only [expBytes, he, List.cons_append] at h
        rw [rd_of_drop h]
        cases up <;> decide
    have hb : (rd inp o1 == 46) = false := by simpa using hne
    simp [fracEnd, hb, hne]
  | some f =>
    obtain ⟨hfd, f0, f', hff, hf0⟩ := wf_fp hwf f hf
    rw [hf] at h
    simp only [List.cons_append] at h
    have hr : rd inp o1 = 46 := rd_of_drop h
    have h2 : inp.drop (o1 + 1) = f ++ (expBytes t ++ rest) := drop_of_drop_append (l := [46]) (by simpa using h)
    have hr1 : rd inp (o1 + 1) = f0 := rd_of_drop (by rw [h2, hff]; rfl)
    refine ⟨by simp [hr, hr1, hf0], ?_, by simp [hr]⟩
    unfold fracEnd
    simp only [hr, beq_self_eq_true, if_true, h2, List.length_cons]
    rw [countDigits_prefix f _ hfd (noDigit_after_frac t rest hs)]
    omega

/-- the optional exponent -/
theorem scan_exp_none (t : NumText) (rest : Bytes) (hs : Stops rest = true) (inp : Bytes) (o2 : Nat)
    (he : t.exp = none) (h : inp.drop o2 = expBytes t ++ rest) :
    (rd inp o2 == 101 || rd inp o2 == 69) = false := by
  simp only [expBytes, he, List.nil_append] at h
  have := rd_rest hs h
  simp [this.2.2.1, this.2.2.2]

theorem scan_exp_some (t : NumText) (hwf : t.wf = true) (rest : Bytes) (hs : Stops rest = true) (inp : Bytes) (o2 : Nat)
    (up : Bool) (sg : Option Bool) (d : Bytes)
    (he : t.exp = some (up, sg, d)) (h : inp.drop o2 = expBytes t ++ rest) :
    (rd inp o2 == 101 || rd inp o2 == 69) = true ∧
    (if rd inp (o2 + 1) == 43 || rd inp (o2 + 1) == 45 then o2 + 2 else o2 + 1) = o2 + 1 + (expSign sg).length ∧
    ((rd inp (o2 + 1) == 45) = (sg == some true)) ∧
    inp.drop (o2 + 1 + (expSign sg).length) = d ++ rest ∧
    isDigit (rd inp (o2 + 1 + (expSign sg).length)) = true ∧
    countDigits (inp.drop (o2 + 1 + (expSign sg).length)) = d.length ∧
    (expBytes t).length = 1 + (expSign sg).length + d.length := by
  obtain ⟨hdd, d0, d', hdd', hd0⟩ := wf_exp hwf up sg d he
  simp only [expBytes, he, List.cons_append] at h ⊢
  have hr : rd inp o2 = (if up then 69 else 101) := rd_of_drop h
  have h2 : inp.drop (o2 + 1) = expSign sg ++ (d ++ rest) :=
    drop_of_drop_append (l := [if up then 69 else 101]) (by simpa using h)
  have h3 : inp.drop (o2 + 1 + (expSign sg).length) = d ++ rest := drop_of_drop_append h2
  have hr3 : rd inp (o2 + 1 + (expSign sg).length) = d0 := rd_of_drop (by rw [h3, hdd']; rfl)
  have hne := isDigit_ne hd0
  refine ⟨by rw [hr]; cases up <;> decide, ?_, ?_, h3, by rw [hr3]; exact hd0, ?_, by simp; omega⟩
  · cases sg with
    | none =>
      simp only [expSign, List.nil_append, List.length_nil, Nat.add_zero] at h2 hr3 ⊢
      rw [hr3]; simp [hne.1, hne.2.2.2.2.1]
    | some b =>
      cases b with
      | true =>
        simp only [expSign, List.cons_append, List.nil_append] at h2
        rw [rd_of_drop h2]; simp [expSign]
      | false =>
        simp only [expSign, List.cons_append, List.nil_append] at h2
        rw [rd_of_drop h2]; simp [expSign]
  · cases sg with
    | none =>
      simp only [expSign, List.nil_append, List.length_nil, Nat.add_zero] at h2 hr3 ⊢
      rw [hr3]; simp [hne.1]
    | some b =>
      cases b with
      | true =>
        simp only [expSign, List.cons_append, List.nil_append] at h2
        rw [rd_of_drop h2]; simp
      | false =>
        simp only [expSign, List.cons_append, List.nil_append] at h2
        rw [rd_of_drop h2]; simp
  · rw [h3, countDigits_prefix d rest hdd (noDigit_rest rest hs)]

/-- the length of the mantissa text `[-] int [. frac]` -/
def NumText.mantLen (t : NumText) : Nat := (signBytes t).length + t.ip.length + (fracBytes t).length

theorem render_length (t : NumText) : t.render.length = t.mantLen + (expBytes t).length := by
  simp [NumText.render, NumText.mantLen]; omega

/-- **the scanner on a number text**: it accepts, and finds the parts where they are -/
theorem scan_render (t : NumText) (rest : Bytes) (hwf : t.wf = true) (hs : Stops rest = true) :
    scan (t.render ++ rest) =
      .ok { minus := (signBytes t).length, expOff := t.exp.map (fun _ => t.mantLen), off := t.render.length } := by
  generalize hinp : t.render ++ rest = inp
  have h0 : inp.drop 0 = signBytes t ++ (t.ip ++ (fracBytes t ++ (expBytes t ++ rest))) := by
    rw [← hinp, render_eq]; simp
  obtain ⟨hsign, hdig, hint, _⟩ := scan_int t hwf inp _ h0 (noDigit_after_int t rest hwf hs)
  have h1 := drop_of_drop_append h0
  have h2 := drop_of_drop_append h1
  simp only [Nat.zero_add] at h2
  obtain ⟨hfr1, hfr2, _⟩ := scan_frac t hwf rest hs inp _ h2
  have h3 := drop_of_drop_append h2
  unfold scan
  simp only [hsign, hdig, hint, hfr1, hfr2, Bool.not_true, Bool.false_eq_true, if_false]
  cases he : t.exp with
  | none =>
    have := scan_exp_none t rest hs inp _ he h3
    simp only [this, Bool.false_eq_true, if_false, Option.map_none]
    rw [render_length]
    simp [NumText.mantLen, expBytes, he]
  | some e =>
    obtain ⟨up, sg, d⟩ := e
    obtain ⟨hx1, hx2, _, _, hx5, hx6, hx7⟩ := scan_exp_some t hwf rest hs inp _ up sg d he h3
    simp only [hx1, if_true, hx2, hx5, Bool.not_true, Bool.false_eq_true, if_false, hx6, Option.map_some]
    rw [render_length, hx7]
    simp only [NumText.mantLen]
    congr 2
    omega

/-! ## the mantissa text as a decimal string -/

theorem parseDec_mant (t : NumText) (hwf : t.wf = true) :
    parseDec (signBytes t ++ (t.ip ++ fracBytes t)) = some (t.neg, t.mant, t.fracLen) := by
  obtain ⟨i0, I', hI, hd0, hI', _⟩ := wf_ip' hwf
  rw [signBytes_eq]
  unfold NumText.mant NumText.fracLen fracBytes
  cases hf : t.fp with
  | none =>
    simp only [List.append_nil, Option.getD_none, List.length_nil, hI]
    exact parseDec_int t.neg i0 I' hd0 hI'
  | some f =>
    obtain ⟨hfd, f0, f', hff, _⟩ := wf_fp hwf f hf
    subst hff
    simp only [Option.getD_some, hI]
    have := parseDec_frac t.neg i0 I' f0 f' hd0 hI' hfd
    simpa using this

theorem sameValue_exp_zero (t : NumText) (h : t.expVal = 0) : SameValue t (t.neg, t.mant, t.fracLen) := by
  refine sameValue_of t t.mant t.fracLen t.mant 0 (-(t.fracLen : Int)) (by simp) (by rw [h]; omega) (Or.inl ⟨by omega, rfl, by omega⟩)

theorem sameValue_mant_zero (t : NumText) (neg : Bool) (k : Nat) (h : t.mant = 0) : SameValue t (neg, 0, k) := by
  unfold SameValue
  simp [h]

/-! ## the zero tests -/

/-- `lyjson_number_is_zero` on the mantissa of a number text -/
theorem isZero_mant (t : NumText) (rest : Bytes) (hwf : t.wf = true) (hs : Stops rest = true) :
    (isZero (t.render ++ rest) 0 t.mantLen = true → t.ip = [48] ∧ t.mant = 0) ∧
    (isZero (t.render ++ rest) 0 t.mantLen = false →
      t.ip ≠ [48] ∨ ∃ f, t.fp = some f ∧ zerosPrefix f < f.length) := by
  generalize hinp : t.render ++ rest = inp
  have h0 : inp.drop 0 = signBytes t ++ (t.ip ++ (fracBytes t ++ (expBytes t ++ rest))) := by
    rw [← hinp, render_eq]; simp
  obtain ⟨hsign, hdig, _, h48⟩ := scan_int t hwf inp _ h0 (noDigit_after_int t rest hwf hs)
  have h1 := drop_of_drop_append h0
  have h2 := drop_of_drop_append h1
  simp only [Nat.zero_add] at h1 h2
  obtain ⟨_, _, h46⟩ := scan_frac t hwf rest hs inp _ h2
  -- the sign test of `lyjson_number_is_zero`
  have ha : (if rd inp 0 == 45 || rd inp 0 == 43 then 0 + 1 else 0) = (signBytes t).length := by
    by_cases h45 : rd inp 0 = 45
    · have : signOff inp = 1 := by simp [signOff, h45]
      rw [← hsign, this]; simp [h45]
    · have hz : signOff inp = 0 := by simp [signOff, h45]
      have hne := isDigit_ne hdig
      rw [← hsign, hz] at hne
      simp [h45, hne.2.2.2.2.1, ← hsign, hz]
  unfold isZero
  simp only [ha]
  by_cases hI : t.ip = [48]
  · have hr48 : rd inp (signBytes t).length = 48 := h48.mpr hI
    rw [hI] at h2 h46
    simp only [List.length_cons, List.length_nil, Nat.zero_add] at h2 h46
    cases hf : t.fp with
    | none =>
      have hne : rd inp ((signBytes t).length + 1) ≠ 46 := by
        intro h; have := h46.mp h; rw [hf] at this; simp at this
      have hb : (rd inp ((signBytes t).length + 1) == 46) = false := by simpa using hne
      have hml : t.mantLen = (signBytes t).length + 1 := by simp [NumText.mantLen, hI, fracBytes, hf]
      have hc : countFwd inp (signBytes t).length ((signBytes t).length + 1) = 1 := by
        rw [countFwd_eq, slice_one, hr48]; simp [zerosPrefix]
      simp only [hr48, hb, beq_self_eq_true, Bool.and_false, Bool.false_eq_true, if_false, hml, hc]
      refine ⟨fun _ => ⟨hI, ?_⟩, fun h => ?_⟩
      · simp [NumText.mant, hI, hf, digitsVal_zero_cons]
      · simp at h
    | some f =>
      obtain ⟨hfd, f0, f', hff, _⟩ := wf_fp hwf f hf
      have hr46 : rd inp ((signBytes t).length + 1) = 46 := h46.mpr (by rw [hf]; rfl)
      have hml : t.mantLen = (signBytes t).length + 2 + f.length := by
        simp [NumText.mantLen, hI, fracBytes, hf]; omega
      have h3 : inp.drop ((signBytes t).length + 2) = f ++ (expBytes t ++ rest) := by
        simp only [fracBytes, hf, List.cons_append] at h2
        exact drop_of_drop_append (l := [46]) (by simpa using h2)
      have hlt : (signBytes t).length + 2 < (signBytes t).length + 2 + f.length := by rw [hff]; simp
      have hc : countFwd inp ((signBytes t).length + 2) ((signBytes t).length + 2 + f.length) = zerosPrefix f := by
        rw [countFwd_eq, slice_of_drop h3]
      have hsub : (signBytes t).length + 2 + f.length - ((signBytes t).length + 2) = f.length := by omega
      simp only [hr48, hr46, beq_self_eq_true, Bool.and_self, if_true, hml, hlt, hc, hsub]
      refine ⟨fun h => ⟨hI, ?_⟩, fun h => Or.inr ⟨f, rfl, ?_⟩⟩
      · have hz : zerosPrefix f = f.length := by simpa using h
        have := zerosPrefix_eq_length hz
        simp only [NumText.mant, hI, hf, Option.getD_some, List.cons_append, List.nil_append, digitsVal_zero_cons]
        rw [this, digitsVal_replicate_zero]
      · have hz : zerosPrefix f ≠ f.length := by simpa using h
        have := zerosPrefix_le_length f
        omega
  · have hr48 : rd inp (signBytes t).length ≠ 48 := fun h => hI (h48.mp h)
    have hb : (rd inp (signBytes t).length == 48) = false := by simpa using hr48
    have hle : (signBytes t).length ≤ t.mantLen := by simp [NumText.mantLen]; omega
    obtain ⟨i0, I', hI0, _⟩ := wf_ip' hwf
    have hk : t.mantLen = (signBytes t).length + (t.mantLen - (signBytes t).length) := by omega
    have hpos : 0 < t.mantLen - (signBytes t).length := by simp [NumText.mantLen, hI0]; omega
    have hc : countFwd inp (signBytes t).length t.mantLen = 0 := by
      rw [hk, countFwd_eq]
      have := zerosPrefix_le_of_ne (slice inp (signBytes t).length (t.mantLen - (signBytes t).length)) 0 (by simpa using hpos)
        (by rw [slice_getElem _ _ _ 0 hpos]; simpa using hr48)
      omega
    simp only [hb, Bool.false_and, Bool.false_eq_true, if_false, hle, if_true, hc]
    refine ⟨fun h => ?_, fun _ => Or.inl hI⟩
    have : 0 = t.mantLen - (signBytes t).length := by simpa using h
    omega

/-- `lyjson_number_is_zero` on the exponent of a number text -/
theorem isZero_exp (t : NumText) (rest : Bytes) (hwf : t.wf = true) (hs : Stops rest = true)
    (up : Bool) (sg : Option Bool) (d : Bytes) (he : t.exp = some (up, sg, d))
    (h : isZero (t.render ++ rest) (t.mantLen + 1) t.render.length = true) : t.expVal = 0 := by
  generalize hinp : t.render ++ rest = inp at h
  have h0 : inp.drop 0 = signBytes t ++ (t.ip ++ (fracBytes t ++ (expBytes t ++ rest))) := by
    rw [← hinp, render_eq]; simp
  have h1 := drop_of_drop_append h0
  have h2 := drop_of_drop_append h1
  have h3 := drop_of_drop_append h2
  simp only [Nat.zero_add] at h3
  obtain ⟨hdd, d0, d', hdd', hd0⟩ := wf_exp hwf up sg d he
  obtain ⟨_, hx2, _, hx4, _, _, hx7⟩ := scan_exp_some t hwf rest hs inp _ up sg d he h3
  have hml : (signBytes t).length + t.ip.length + (fracBytes t).length = t.mantLen := rfl
  rw [hml] at hx2 hx4
  have ha : (if rd inp (t.mantLen + 1) == 45 || rd inp (t.mantLen + 1) == 43 then t.mantLen + 1 + 1 else t.mantLen + 1)
      = t.mantLen + 1 + (expSign sg).length := by
    rw [Bool.or_comm]; exact hx2
  have hoff : t.render.length = t.mantLen + 1 + (expSign sg).length + d.length := by rw [render_length, hx7]; omega
  have hr : rd inp (t.mantLen + 1 + (expSign sg).length) = d0 := rd_of_drop (by rw [hx4, hdd']; rfl)
  have h5 : inp.drop (t.mantLen + 1 + (expSign sg).length + 1) = d' ++ rest :=
    drop_of_drop_append (l := [d0]) (by rw [hx4, hdd']; rfl)
  have hne : rd inp (t.mantLen + 1 + (expSign sg).length + 1) ≠ 46 := by
    cases d' with
    | nil => exact (rd_rest hs (by simpa using h5)).2.1
    | cons d1 d'' =>
      rw [rd_of_drop h5]
      rw [hdd'] at hdd
      simp only [allDigits_cons, Bool.and_eq_true] at hdd
      exact (isDigit_ne hdd.2.1).2.1
  have hb : (rd inp (t.mantLen + 1 + (expSign sg).length + 1) == 46) = false := by simpa using hne
  unfold isZero at h
  simp only [ha, hb, Bool.and_false, Bool.false_eq_true, if_false, hoff] at h
  have hle : t.mantLen + 1 + (expSign sg).length ≤ t.mantLen + 1 + (expSign sg).length + d.length := by omega
  have hsub : t.mantLen + 1 + (expSign sg).length + d.length - (t.mantLen + 1 + (expSign sg).length) = d.length := by omega
  rw [countFwd_eq, slice_of_drop hx4] at h
  simp only [hle, if_true, hsub] at h
  have hz : zerosPrefix d = d.length := by simpa using h
  have := zerosPrefix_eq_length hz
  have hv : digitsVal d = 0 := by rw [this, digitsVal_replicate_zero]
  unfold NumText.expVal
  rw [he]
  cases sg with
  | none => simp [hv]
  | some b => cases b <;> simp [hv]

end LyModel.JsonNum
