import LyModel.Lex.JsonStrBuf
/-! the instrumented `lyjson_string` never stores outside its allocation and computes `JsonText.parseString` -/
namespace LyModel.Lex.JsonStrBuf
open LyModel LyModel.Utf8 LyModel.JsonText

theorem incLoop_spec (need size : Nat) : ∀ (fuel inc : Nat), need < size + inc + BUF_STEP * fuel →
    need < size + incLoop need size fuel inc
  | 0, inc, h => by simpa [incLoop] using h
  | f + 1, inc, h => by
    unfold incLoop
    split
    · exact incLoop_spec need size f (inc + BUF_STEP) (by simp only [BUF_STEP, Generated.LYJSON_STRING_BUF_STEP] at h ⊢; omega)
    · omega

theorem incLoop_ge (need size : Nat) : ∀ (fuel inc : Nat), inc ≤ incLoop need size fuel inc
  | 0, inc => by simp [incLoop]
  | f + 1, inc => by
    unfold incLoop
    split
    · have := incLoop_ge need size f (inc + BUF_STEP); omega
    · omega

/-- what holds between loop iterations: without a buffer nothing is in it; the recorded size never exceeds the real one -/
structure Inv (s : St) : Prop where
  nobuf : s.hasBuf = false → s.out = []
  rec_le : s.hasBuf = true → s.size ≤ s.alloc

theorem Inv.init : Inv St.init := ⟨fun _ => rfl, fun h => by simp [St.init] at h⟩

theorem prepare_ok {s : St} (h : Inv s) : ∃ s', s.prepare = some s' ∧ s'.out = s.out ++ s.pending ∧ s'.pending = [] ∧
    s'.hasBuf = true ∧ s'.size ≤ s'.alloc ∧ s'.out.length + 4 < s'.alloc := by
  unfold St.prepare
  simp only []
  -- after the optional malloc
  generalize hs1 : (if s.hasBuf = true then s else { s with hasBuf := true, size := BUF_START, alloc := BUF_START }) = s1
  have h1 : s1.hasBuf = true ∧ s1.size ≤ s1.alloc ∧ s1.out = s.out ∧ s1.pending = s.pending ∧ (s.hasBuf = false → s1.out = []) := by
    subst hs1
    by_cases hb : s.hasBuf = true
    · rw [if_pos hb]; exact ⟨hb, h.rec_le hb, rfl, rfl, fun h' => by rw [hb] at h'; cases h'⟩
    · rw [if_neg hb]; exact ⟨rfl, Nat.le_refl _, rfl, rfl, fun _ => h.nobuf (by simpa using hb)⟩
  obtain ⟨hb1, hle1, ho1, hp1, _⟩ := h1
  by_cases hg : s1.out.length + s1.pending.length + 4 ≥ s1.size
  · simp only [hg, if_true]
    have hi := incLoop_spec (s1.out.length + s1.pending.length + 4) s1.size (s1.out.length + s1.pending.length + 4) BUF_STEP
      (by simp only [BUF_STEP, Generated.LYJSON_STRING_BUF_STEP]; omega)
    have hge := incLoop_ge (s1.out.length + s1.pending.length + 4) s1.size (s1.out.length + s1.pending.length + 4) BUF_STEP
    generalize incLoop (s1.out.length + s1.pending.length + 4) s1.size (s1.out.length + s1.pending.length + 4) BUF_STEP = inc at hi hge
    have htake : s1.out.take (s1.size + inc) = s1.out := List.take_of_length_le (by omega)
    simp only [htake]
    have hcond : s1.pending.length = 0 ∨ s1.out.length + s1.pending.length ≤ s1.size + inc := Or.inr (by omega)
    simp only [hcond, if_true]
    refine ⟨_, rfl, ?_, rfl, hb1, ?_, ?_⟩
    · simp [ho1, hp1]
    · simp only; omega
    · simp only [List.length_append]; omega
  · simp only [hg, if_false]
    have hcond : s1.pending.length = 0 ∨ s1.out.length + s1.pending.length ≤ s1.alloc := Or.inr (by omega)
    simp only [hcond, if_true]
    refine ⟨_, rfl, ?_, rfl, hb1, hle1, ?_⟩
    · simp [ho1, hp1]
    · simp only [List.length_append]; omega

theorem put_ok {s : St} {bs : Bytes} (hb : s.hasBuf = true) (hs : s.size ≤ s.alloc) (hl : bs.length ≤ 4)
    (hroom : s.out.length + 4 < s.alloc) :
    ∃ s', s.put bs = some s' ∧ s'.out = s.out ++ bs ∧ s'.pending = s.pending ∧ Inv s' := by
  unfold St.put
  have : s.out.length + bs.length ≤ s.alloc := by omega
  simp only [this, if_true]
  exact ⟨_, rfl, rfl, rfl, ⟨fun h => by simp [hb] at h, fun _ => hs⟩⟩

theorem finish_ok {s : St} (h : Inv s) : s.finish = some (s.out ++ s.pending) := by
  unfold St.finish
  by_cases hb : s.hasBuf = true
  · simp only [hb, if_true]
    have htake : s.out.take (s.out.length + s.pending.length + 1) = s.out := List.take_of_length_le (by omega)
    simp only [htake]
    have : s.out.length + s.pending.length < s.out.length + s.pending.length + 1 := by omega
    simp only [this, if_true]
  · have hb' : s.hasBuf = false := by simpa using hb
    simp [hb', h.nobuf hb']

theorem putUtf8_length {v : Nat} {bs : Bytes} (h : putUtf8 v = some bs) : bs.length ≤ 4 := by
  unfold putUtf8 at h
  repeat' split at h
  all_goals first
    | (simp at h; done)
    | (injection h with h; subst h; simp)

/-- the accumulated bytes in front of a result -/
def pre (st : St) (p : Bytes × Bytes) : Bytes × Bytes := (st.out ++ st.pending ++ p.1, p.2)

theorem map_pre_append (x : Except LexErr (Bytes × Bytes)) (bs : Bytes) (st st' : St)
    (h : st'.out ++ st'.pending = st.out ++ st.pending ++ bs) :
    (x.map (pre st')) = (x.map fun (p : Bytes × Bytes) => (bs ++ p.1, p.2)).map (pre st) := by
  cases x with
  | error e => rfl
  | ok p => simp [Except.map, pre, h, List.append_assoc]

/-- the instrumented run never trips an assertion, and computes `parseString` (with what was accumulated before in front) -/
theorem runI_eq : ∀ (fuel : Nat) (inp : Bytes) (st : St), Inv st →
    runI fuel inp st = some ((parseString fuel inp).map (pre st))
  | 0, _, _, _ => by simp [runI, parseString, Except.map]
  | _ + 1, [], _, _ => by simp [runI, parseString, Except.map]
  | fuel + 1, c :: cs, st, hinv => by
    unfold runI parseString
    by_cases h0 : (c == 0) = true
    · simp [h0, Except.map]
    · simp only [h0, if_false, Bool.false_eq_true]
      by_cases h92 : (c == 92) = true
      · simp only [h92, if_true]
        obtain ⟨st1, hprep, hout, hpend, hb, hle, hroom⟩ := prepare_ok hinv
        simp only [hprep]
        -- one decoded escape: both sides case on `putUtf8 v`
        have simple : ∀ (o : Option Bytes) (r : Bytes), (∀ bs, o = some bs → bs.length ≤ 4) →
            (match o with
              | none => some (Except.error LexErr.badRefValue)
              | some bs => match st1.put bs with
                | none => none
                | some st' => runI fuel r st') =
            some ((match o with
              | none => Except.error LexErr.badRefValue
              | some bs => (parseString fuel r).map fun (p : Bytes × Bytes) => (bs ++ p.1, p.2)).map (pre st)) := by
          intro o r hlen
          cases o with
          | none => simp [Except.map]
          | some bs =>
            obtain ⟨st2, hput, hout2, hpend2, hinv2⟩ := put_ok hb hle (hlen bs rfl) hroom
            simp only [hput]
            rw [runI_eq fuel r st2 hinv2]
            congr 1
            exact map_pre_append _ bs st st2 (by simp [hout2, hpend2, hout, hpend, List.append_assoc])
        have plen : ∀ v bs, putUtf8 v = some bs → bs.length ≤ 4 := fun v bs h => putUtf8_length h
        split
        · rename_i r; exact simple (putUtf8 0x22) r (plen _)
        · rename_i r; exact simple (putUtf8 0x5c) r (plen _)
        · rename_i r; exact simple (putUtf8 0x2f) r (plen _)
        · rename_i r; exact simple (putUtf8 0x08) r (plen _)
        · rename_i r; exact simple (putUtf8 0x0c) r (plen _)
        · rename_i r; exact simple (putUtf8 0x0a) r (plen _)
        · rename_i r; exact simple (putUtf8 0x0d) r (plen _)
        · rename_i r; exact simple (putUtf8 0x09) r (plen _)
        · -- \uXXXX
          rename_i r
          cases hu : uValue 4 r 0 with
          | none => simp [hu, Except.map]
          | some v =>
            simp only [hu]
            exact simple (putUtf8 (v % 4294967296).toNat) (r.drop 4) (plen _)
        · simp [Except.map]
      · simp only [h92, if_false, Bool.false_eq_true]
        by_cases h34 : (c == 34) = true
        · simp only [h34, if_true]
          rw [finish_ok hinv]
          simp [Except.map, pre]
        · simp only [h34, if_false, Bool.false_eq_true]
          cases hg : getUtf8 (c :: cs) with
          | none => simp [Except.map]
          | some vn =>
            obtain ⟨v, n⟩ := vn
            simp only []
            by_cases hj : (!isJsonStrChar v) = true
            · simp [hj, Except.map]
            · simp only [hj, if_false, Bool.false_eq_true]
              have hinv' : Inv { st with pending := st.pending ++ (c :: cs).take n } :=
                ⟨hinv.nobuf, hinv.rec_le⟩
              rw [runI_eq fuel ((c :: cs).drop n) _ hinv']
              congr 1
              exact map_pre_append _ ((c :: cs).take n) st _ (by simp [List.append_assoc])

theorem parseI_eq (inp : Bytes) : parseI inp = some (JsonText.parse inp) := by
  unfold parseI JsonText.parse
  rw [runI_eq _ _ _ Inv.init]
  congr 1
  cases parseString (inp.length + 1) inp with
  | error e => rfl
  | ok p => simp [Except.map, pre, St.init]

end LyModel.Lex.JsonStrBuf
