import LyModel.Lex.XmlBuf
import LyModel.Lex.JsonStrBufLemmas
/-! the instrumented `lyxml_parse_value` never stores outside its allocation and computes `XmlText.parseValue` -/
namespace LyModel.Lex.XmlBuf
open LyModel LyModel.Utf8 LyModel.XmlText

theorem growLoop_spec (need : Nat) : ∀ (fuel size : Nat), need < size + BUFSIZE_STEP * fuel → need < growLoop need fuel size
  | 0, size, h => by simpa [growLoop] using h
  | f + 1, size, h => by
    unfold growLoop
    split
    · exact growLoop_spec need f (size + BUFSIZE_STEP) (by simp only [BUFSIZE_STEP, Generated.LYXML_VALUE_BUFSIZE_STEP] at h ⊢; omega)
    · omega

/-- between loop iterations: without a buffer nothing is in it -/
structure Inv (s : St) : Prop where
  nobuf : s.hasBuf = false → s.out = []

theorem Inv.init : Inv St.init := ⟨fun _ => rfl⟩

theorem useBuf_ok {s : St} (_h : Inv s) (k : Nat) : ∃ s', s.useBuf k = some s' ∧ s'.out = s.out ++ s.pending ∧ s'.pending = [] ∧
    s'.hasBuf = true ∧ s'.out.length + k < s'.size := by
  unfold St.useBuf
  simp only []
  generalize hs1 : (if s.hasBuf = true then s else { s with hasBuf := true, size := BUFSIZE }) = s1
  have h1 : s1.hasBuf = true ∧ s1.out = s.out ∧ s1.pending = s.pending := by
    subst hs1
    by_cases hb : s.hasBuf = true
    · rw [if_pos hb]; exact ⟨hb, rfl, rfl⟩
    · rw [if_neg hb]; exact ⟨rfl, rfl, rfl⟩
  obtain ⟨hb1, ho1, hp1⟩ := h1
  have hg := growLoop_spec (s1.out.length + s1.pending.length + k) (s1.out.length + s1.pending.length + k + 1) s1.size
    (by simp only [BUFSIZE_STEP, Generated.LYXML_VALUE_BUFSIZE_STEP]; omega)
  generalize growLoop (s1.out.length + s1.pending.length + k) (s1.out.length + s1.pending.length + k + 1) s1.size = sz at hg
  have htake : s1.out.take sz = s1.out := List.take_of_length_le (by omega)
  simp only [htake]
  have hcond : s1.pending.length = 0 ∨ s1.out.length + s1.pending.length ≤ sz := Or.inr (by omega)
  simp only [hcond, if_true]
  refine ⟨_, rfl, ?_, rfl, hb1, ?_⟩
  · simp [ho1, hp1]
  · simp only [List.length_append]; omega

theorem put_ok {s : St} {bs : Bytes} {k : Nat} (hb : s.hasBuf = true) (hl : bs.length ≤ k) (hroom : s.out.length + k < s.size) :
    ∃ s', s.put bs = some s' ∧ s'.out = s.out ++ bs ∧ s'.pending = s.pending ∧ Inv s' := by
  unfold St.put
  have : bs.length = 0 ∨ s.out.length + bs.length ≤ s.size := Or.inr (by omega)
  simp only [this, if_true]
  exact ⟨_, rfl, rfl, rfl, ⟨fun h => by simp [hb] at h⟩⟩

theorem finish_ok {s : St} (h : Inv s) : s.finish = some (s.out ++ s.pending) := by
  unfold St.finish
  by_cases hb : s.hasBuf = true
  · simp only [hb, if_true]
    have htake : s.out.take (s.out.length + s.pending.length + 1) = s.out := List.take_of_length_le (by omega)
    simp only [htake]
    have : s.out.length + s.pending.length < s.out.length + s.pending.length + 1 := by omega
    simp only [this, if_true]
  · have hb' : s.hasBuf = false := by simpa using hb
    simp [hb', h.nobuf hb']

/-- the accumulated bytes in front of a result -/
def pre (st : St) (p : Bytes × Bool × Bytes) : Bytes × Bool × Bytes := (st.out ++ st.pending ++ p.1, p.2.1, p.2.2)

theorem map_pre_append (x : Except LexErr (Bytes × Bool × Bytes)) (bs : Bytes) (st st' : St)
    (h : st'.out ++ st'.pending = st.out ++ st.pending ++ bs) :
    (x.map (pre st')) = (x.map fun (p : Bytes × Bool × Bytes) => (bs ++ p.1, p.2.1, p.2.2)).map (pre st) := by
  cases x with
  | error e => rfl
  | ok p => simp [Except.map, pre, h, List.append_assoc]

/-- the instrumented run never trips an assertion, and computes `parseValue` (with what was accumulated before in front) -/
theorem runI_eq (endc : UInt8) : ∀ (fuel : Nat) (inp : Bytes) (ws : Bool) (st : St), Inv st →
    runI endc fuel inp ws st = some ((parseValue endc fuel inp ws).map (pre st))
  | 0, _, _, _, _ => by simp [runI, parseValue, Except.map]
  | _ + 1, [], _, _, _ => by simp [runI, parseValue, Except.map]
  | fuel + 1, c :: cs, ws, st, hinv => by
    unfold runI parseValue
    by_cases h0 : (c == 0) = true
    · simp [h0, Except.map]
    · simp only [h0, if_false, Bool.false_eq_true]
      by_cases h38 : (c == 38) = true
      · simp only [h38, if_true]
        obtain ⟨st1, hprep, hout, hpend, hb, hroom⟩ := useBuf_ok hinv 4
        simp only [hprep]
        -- continue after `bs` was stored
        have cont : ∀ (bs : Bytes) (r : Bytes) (f : Bytes × Bool × Bytes → Bytes × Bool × Bytes),
            (∀ p, f p = (bs ++ p.1, p.2.1, p.2.2)) → bs.length ≤ 4 →
            (match st1.put bs with
              | none => none
              | some st' => runI endc fuel r false st') =
            some (((parseValue endc fuel r false).map f).map (pre st)) := by
          intro bs r f hf hlen
          obtain ⟨st2, hput, hout2, hpend2, hinv2⟩ := put_ok hb hlen hroom
          simp only [hput]
          rw [runI_eq endc fuel r false st2 hinv2]
          congr 1
          have : f = fun (p : Bytes × Bool × Bytes) => (bs ++ p.1, p.2.1, p.2.2) := funext hf
          rw [this]
          exact map_pre_append _ bs st st2 (by simp [hout2, hpend2, hout, hpend, List.append_assoc])
        -- behind the digits of a character reference
        have after : ∀ (n : Nat) (r' : Bytes),
            (match r' with
              | 59 :: r'' =>
                match putUtf8 n with
                | none => some (Except.error LexErr.badRefValue)
                | some bs =>
                  match st1.put bs with
                  | none => none
                  | some st' => runI endc fuel r'' false st'
              | _ => some (Except.error LexErr.expSemicolon)) =
            some ((match r' with
              | 59 :: r'' =>
                match putUtf8 n with
                | none => Except.error LexErr.badRefValue
                | some bs => (parseValue endc fuel r'' false).map fun (p : Bytes × Bool × Bytes) => (bs ++ p.1, p.2.1, p.2.2)
              | _ => Except.error LexErr.expSemicolon).map (pre st)) := by
          intro n r'
          split
          · rename_i r''
            cases hp : putUtf8 n with
            | none => simp [Except.map]
            | some bs => exact cont bs r'' _ (fun _ => rfl) (JsonStrBuf.putUtf8_length hp)
          · simp [Except.map]
        cases cs with
        | nil =>
          simp only []
          cases he : entity [] with
          | none => simp [Except.map]
          | some chr =>
            obtain ⟨ch, r⟩ := chr
            simp only []
            refine cont [ch] r _ ?_ (by simp)
            intro ⟨_, _, _⟩; rfl
        | cons c2 r =>
          by_cases h35 : c2 = 35
          · subst h35
            simp only []
            cases r with
            | nil => simp [Except.map]
            | cons d t =>
              simp only []
              by_cases hd : isDigit d = true
              · simp only [hd, if_true]
                generalize decDigits (d :: t) 0 = nr
                obtain ⟨n, r'⟩ := nr
                exact after n r'
              · simp only [hd, if_false, Bool.false_eq_true]
                by_cases hx : (d == 120 && isXDigit (rd (d :: t) 1)) = true
                · simp only [hx, if_true]
                  generalize hexDigits ((d :: t).drop 1) 0 = nr
                  obtain ⟨n, r'⟩ := nr
                  exact after n r'
                · simp only [hx, if_false, Bool.false_eq_true]
                  simp [Except.map]
          · split
            · rename_i heq; exact absurd (List.cons.inj heq).1 h35
            · cases he : entity (c2 :: r) with
              | none => simp [Except.map]
              | some chr =>
                obtain ⟨ch, r2⟩ := chr
                simp only []
                refine cont [ch] r2 _ ?_ (by simp)
                intro ⟨_, _, _⟩; rfl
      · simp only [h38, if_false, Bool.false_eq_true]
        cases hcd : stripPrefix sCdata (c :: cs) with
        | some r =>
          simp only []
          cases hf : findCdataEnd r with
          | none => simp [Except.map]
          | some dr =>
            obtain ⟨data, r'⟩ := dr
            simp only []
            obtain ⟨st1, hprep, hout, hpend, hb, hroom⟩ := useBuf_ok hinv data.length
            simp only [hprep]
            obtain ⟨st2, hput, hout2, hpend2, hinv2⟩ := put_ok hb (Nat.le_refl _) hroom
            simp only [hput]
            rw [runI_eq endc fuel r' _ st2 hinv2]
            congr 1
            exact map_pre_append _ data st st2 (by simp [hout2, hpend2, hout, hpend, List.append_assoc])
        | none =>
          simp only []
          by_cases hend : (c == endc) = true
          · simp only [hend, if_true]
            rw [finish_ok hinv]
            simp [Except.map, pre]
          · simp only [hend, if_false, Bool.false_eq_true]
            cases hg : getUtf8 (c :: cs) with
            | none => simp [Except.map]
            | some vn =>
              obtain ⟨v, n⟩ := vn
              simp only []
              have hinv' : Inv { st with pending := st.pending ++ (c :: cs).take n } := ⟨hinv.nobuf⟩
              rw [runI_eq endc fuel ((c :: cs).drop n) _ _ hinv']
              congr 1
              exact map_pre_append _ ((c :: cs).take n) st _ (by simp [List.append_assoc])

theorem parseI_eq (endc : UInt8) (inp : Bytes) : parseI endc inp = some (XmlText.parse endc inp) := by
  unfold parseI XmlText.parse
  rw [runI_eq _ _ _ _ _ Inv.init]
  congr 1
  cases parseValue endc (inp.length + 1) inp true with
  | error e => rfl
  | ok p => simp [Except.map, pre, St.init]

end LyModel.Lex.XmlBuf
