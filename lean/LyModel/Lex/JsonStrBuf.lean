import LyModel.Text.JsonText
import LyModel.Generated.LexConsts
/-!
# `lyjson_string` with its output buffer made explicit

`JsonText.parseString` abstracts the output buffer to the accumulated bytes.  Here the buffer arithmetic of the C is
state: `len` (= `out.length`), `offset` (= `pending.length`, bytes accepted but not yet copied), the *recorded*
`size`, and the size the allocator really handed out (`alloc`).  The two differ: on growth the C reallocates to
`size + increment` (increment = the multiple of `LYJSON_STRING_BUF_STEP` that fits) but records only
`size += LYJSON_STRING_BUF_STEP`.  Every store is guarded by an assertion `index < alloc`; a tripped assertion makes
the run return `none`.  `Props/C05.lean` proves it never does and that the value is `parseString`'s.
-/
namespace LyModel.Lex.JsonStrBuf
open LyModel LyModel.Utf8 LyModel.JsonText

def BUF_START : Nat := Generated.LYJSON_STRING_BUF_START      -- read off json.h by the translator (24)
def BUF_STEP : Nat := Generated.LYJSON_STRING_BUF_STEP        -- (128)

structure St where
  /-- `buf != NULL` -/
  hasBuf : Bool
  /-- `buf[0 .. len)` -/
  out : Bytes
  /-- the variable `size` -/
  size : Nat
  /-- bytes really allocated for `buf` -/
  alloc : Nat
  /-- `in[0 .. offset)`: accepted, still only in the input -/
  pending : Bytes
  deriving Repr, DecidableEq

def St.init : St := { hasBuf := false, out := [], size := 0, alloc := 0, pending := [] }

/-- `for (increment = STEP; len + offset + 4 >= size + increment; increment += STEP) {}` -/
def incLoop (need size : Nat) : (fuel : Nat) → (inc : Nat) → Nat
  | 0, inc => inc
  | f + 1, inc => if need ≥ size + inc then incLoop need size f (inc + BUF_STEP) else inc

/-- the head of `case '\\'`: allocate / grow, then flush the pending bytes into the buffer.
    `none` = a store outside the allocation. -/
def St.prepare (s : St) : Option St :=
  -- if (!buf) { buf = malloc(START); size = START; }
  let s1 : St := if s.hasBuf then s else { s with hasBuf := true, size := BUF_START, alloc := BUF_START }
  -- if (len + offset + 4 >= size) { … buf = ly_realloc(buf, size + increment); size += STEP; }
  let need := s1.out.length + s1.pending.length + 4
  let s2 : St :=
    if need ≥ s1.size then
      let inc := incLoop need s1.size need BUF_STEP
      { s1 with alloc := s1.size + inc, out := s1.out.take (s1.size + inc), size := s1.size + BUF_STEP }
    else s1
  -- if (offset) memcpy(&buf[len], in, offset);   stores at len .. len+offset-1
  if s2.pending.length = 0 ∨ s2.out.length + s2.pending.length ≤ s2.alloc then
    some { s2 with out := s2.out ++ s2.pending, pending := [] }
  else none

/-- `ly_pututf8(&buf[len], value, &u)`: stores at len .. len+u-1 -/
def St.put (s : St) (bs : Bytes) : Option St :=
  if s.out.length + bs.length ≤ s.alloc then some { s with out := s.out ++ bs } else none

/-- `case '"'`: shrink to fit, flush, terminate; the value and its length -/
def St.finish (s : St) : Option Bytes :=
  if s.hasBuf then
    -- buf = ly_realloc(buf, len + offset + 1); memcpy(&buf[len], in, offset); buf[len + offset] = '\0';
    let alloc := s.out.length + s.pending.length + 1
    let out := s.out.take alloc
    if out.length + s.pending.length < alloc then some (out ++ s.pending) else none
  else
    -- the value is the input itself: start[0 .. len)
    some s.pending

/-- `lyjson_string` from just after the opening quote, instrumented -/
def runI : (fuel : Nat) → Bytes → St → Option (Except LexErr (Bytes × Bytes))
  | 0, _, _ => some (.error .eof)
  | _, [], _ => some (.error .eof)
  | fuel + 1, c :: cs, st =>
    if c == 0 then some (.error .eof)
    else if c == 92 then
      match st.prepare with
      | none => none
      | some st =>
        let simple (v : Nat) (r : Bytes) : Option (Except LexErr (Bytes × Bytes)) :=
          match putUtf8 v with
          | none => some (.error .badRefValue)
          | some bs =>
            match st.put bs with
            | none => none
            | some st' => runI fuel r st'
        match cs with
        | 34 :: r => simple 0x22 r
        | 92 :: r => simple 0x5c r
        | 47 :: r => simple 0x2f r
        | 98 :: r => simple 0x08 r
        | 102 :: r => simple 0x0c r
        | 110 :: r => simple 0x0a r
        | 114 :: r => simple 0x0d r
        | 116 :: r => simple 0x09 r
        | 117 :: r =>
          match uValue 4 r 0 with
          | none => some (.error .badUnicode)
          | some v => simple (v % 4294967296).toNat (r.drop 4)
        | _ => some (.error .badEscape)
    else if c == 34 then
      match st.finish with
      | none => none
      | some v => some (.ok (v, cs))
    else
      match getUtf8 (c :: cs) with
      | none => some (.error .inChar)
      | some (v, n) =>
        if !isJsonStrChar v then some (.error .notStrChar)
        else runI fuel ((c :: cs).drop n) { st with pending := st.pending ++ (c :: cs).take n }

def parseI (inp : Bytes) : Option (Except LexErr (Bytes × Bytes)) := runI (inp.length + 1) inp St.init

end LyModel.Lex.JsonStrBuf
