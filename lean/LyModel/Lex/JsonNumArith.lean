import LyModel.Lex.JsonNumSpec
import LyModel.Lex.JsonNumScan
/-!
# Arithmetic of digit strings and of the decimal strings `lyjson_number` hands on

`digitsVal` over concatenation / runs of zeros, what `parseDec` reads off a string of the shape `[-] digits [. digits]`,
and the final cross-multiplication `SameValue` in the two shapes the composition produces (a fraction of `nG − dp`
digits, or an integer padded with `dp − nG` zeros).
-/
namespace LyModel.JsonNum
open LyModel.Utf8 (rd)

/-! ## `digitsVal` -/

theorem digitsVal_foldl : ∀ (ds : Bytes) (v : Nat),
    ds.foldl (fun v d => 10 * v + (d.toNat - 48)) v = v * 10 ^ ds.length + digitsVal ds
  | [], v => by simp [digitsVal]
  | d :: ds, v => by
    have h1 := digitsVal_foldl ds (10 * v + (d.toNat - 48))
    have h2 := digitsVal_foldl ds (10 * 0 + (d.toNat - 48))
    unfold digitsVal
    simp only [List.foldl_cons, List.length_cons]
    rw [h1, h2, Nat.pow_succ]
    simp only [Nat.mul_zero, Nat.zero_add, Nat.add_mul]
    rw [Nat.mul_comm 10 v, Nat.mul_assoc v 10, Nat.mul_comm 10 (10 ^ ds.length)]
    omega

@[simp] theorem digitsVal_nil : digitsVal [] = 0 := rfl

theorem digitsVal_cons (d : UInt8) (ds : Bytes) : digitsVal (d :: ds) = (d.toNat - 48) * 10 ^ ds.length + digitsVal ds := by
  have := digitsVal_foldl ds (10 * 0 + (d.toNat - 48))
  unfold digitsVal at this ⊢
  simp only [List.foldl_cons]
  rw [this]; simp

theorem digitsVal_zero_cons (ds : Bytes) : digitsVal (48 :: ds) = digitsVal ds := by
  rw [digitsVal_cons]; simp

theorem digitsVal_append (a b : Bytes) : digitsVal (a ++ b) = digitsVal a * 10 ^ b.length + digitsVal b := by
  unfold digitsVal
  rw [List.foldl_append]
  exact digitsVal_foldl b _

theorem digitsVal_replicate_zero : ∀ k, digitsVal (List.replicate k 48) = 0
  | 0 => rfl
  | k + 1 => by rw [List.replicate_succ, digitsVal_zero_cons]; exact digitsVal_replicate_zero k

theorem digitsVal_zeros_append (k : Nat) (b : Bytes) : digitsVal (List.replicate k 48 ++ b) = digitsVal b := by
  rw [digitsVal_append, digitsVal_replicate_zero]; simp

theorem digitsVal_append_zeros (a : Bytes) (k : Nat) : digitsVal (a ++ List.replicate k 48) = digitsVal a * 10 ^ k := by
  rw [digitsVal_append, digitsVal_replicate_zero]; simp

/-! ## runs of zeros -/

theorem zerosPrefix_take : ∀ l : Bytes, l.take (zerosPrefix l) = List.replicate (zerosPrefix l) 48
  | [] => by simp [zerosPrefix]
  | c :: cs => by
    unfold zerosPrefix
    by_cases h : c = 48
    · subst h
      simp only [beq_self_eq_true, if_true, List.take_succ_cons, List.replicate_succ]
      rw [zerosPrefix_take cs]
    · have : (c == 48) = false := by simpa using h
      simp [this]

/-- a prefix of the run of leading zeros may be dropped without changing the value -/
theorem digitsVal_drop_zeros (l : Bytes) (z : Nat) (hz : z ≤ zerosPrefix l) : digitsVal (l.drop z) = digitsVal l := by
  have h1 : l.take z = List.replicate z 48 := by
    have := zerosPrefix_take l
    have h2 : l.take z = (l.take (zerosPrefix l)).take z := by rw [List.take_take]; simp [Nat.min_eq_left hz]
    rw [h2, this, List.take_replicate, Nat.min_eq_left hz]
  conv => rhs; rw [← List.take_append_drop z l, h1, digitsVal_zeros_append]

theorem zerosPrefix_replicate_append (k : Nat) (l : Bytes) : k ≤ zerosPrefix (List.replicate k 48 ++ l) := by
  induction k with
  | zero => exact Nat.zero_le _
  | succ k ih => simp only [List.replicate_succ, List.cons_append, zerosPrefix, beq_self_eq_true, if_true]; omega

theorem zerosPrefix_eq_length {l : Bytes} (h : zerosPrefix l = l.length) : l = List.replicate l.length 48 := by
  have := zerosPrefix_take l
  rw [h, List.take_length] at this
  exact this

/-- the first byte behind the run of leading zeros is not `'0'` -/
theorem zerosPrefix_lt_getElem : ∀ (l : Bytes) (h : zerosPrefix l < l.length), l[zerosPrefix l] ≠ 48
  | [], h => by simp at h
  | c :: cs, h => by
    unfold zerosPrefix at h ⊢
    by_cases hc : c = 48
    · subst hc
      simp only [beq_self_eq_true, if_true, List.length_cons, Nat.add_lt_add_iff_right] at h
      simp only [beq_self_eq_true, if_true, List.getElem_cons_succ]
      exact zerosPrefix_lt_getElem cs h
    · have : (c == 48) = false := by simpa using hc
      simp [this, hc]

/-- a list that ends in `k` zeros: from the backward count -/
theorem zerosPrefix_reverse_split (l : Bytes) :
    l = l.take (l.length - zerosPrefix l.reverse) ++ List.replicate (zerosPrefix l.reverse) 48 := by
  have h := zerosPrefix_take l.reverse
  have hle := zerosPrefix_le_length l.reverse
  simp only [List.length_reverse] at hle
  have h2 : l.drop (l.length - zerosPrefix l.reverse) = List.replicate (zerosPrefix l.reverse) 48 := by
    have := congrArg List.reverse h
    rw [List.reverse_replicate] at this
    rw [← this, List.reverse_take, List.reverse_reverse]
    simp
  conv => lhs; rw [← List.take_append_drop (l.length - zerosPrefix l.reverse) l, h2]

/-! ## all-digit strings -/

theorem allDigits_append {a b : Bytes} : allDigits (a ++ b) = (allDigits a && allDigits b) := by
  simp [allDigits]

theorem allDigits_take {l : Bytes} (h : allDigits l = true) (k : Nat) : allDigits (l.take k) = true := by
  unfold allDigits at *
  rw [List.all_eq_true] at *
  intro x hx; exact h x (List.mem_of_mem_take hx)

theorem allDigits_drop {l : Bytes} (h : allDigits l = true) (k : Nat) : allDigits (l.drop k) = true := by
  unfold allDigits at *
  rw [List.all_eq_true] at *
  intro x hx; exact h x (List.mem_of_mem_drop hx)

theorem allDigits_replicate_zero (k : Nat) : allDigits (List.replicate k 48) = true := by
  unfold allDigits
  rw [List.all_eq_true]
  intro x hx
  rw [List.eq_of_mem_replicate hx]; decide

theorem allDigits_cons {x : UInt8} {l : Bytes} : allDigits (x :: l) = (isDigit x && allDigits l) := by
  simp [allDigits]

theorem takeWhile_digits : ∀ (ds tl : Bytes), allDigits ds = true → NoDigitAhead tl →
    (ds ++ tl).takeWhile isDigit = ds ∧ (ds ++ tl).dropWhile isDigit = tl
  | [], tl, _, h => by
    cases tl with
    | nil => simp
    | cons x tl' => simp [h x tl' rfl]
  | d :: ds, tl, hd, h => by
    rw [allDigits_cons, Bool.and_eq_true] at hd
    have := takeWhile_digits ds tl hd.2 h
    simp [hd.1, this.1, this.2]

/-! ## `parseDec` on `[-] digits [. digits]` -/

def signB (neg : Bool) : Bytes := if neg then [45] else []

theorem signBytes_eq (t : NumText) : signBytes t = signB t.neg := rfl

theorem parseDec_int (neg : Bool) (i0 : UInt8) (ip : Bytes) (h0 : isDigit i0 = true) (hip : allDigits ip = true) :
    parseDec (signB neg ++ i0 :: ip) = some (neg, digitsVal (i0 :: ip), 0) := by
  have hd : allDigits (i0 :: ip) = true := by rw [allDigits_cons, h0, hip]; rfl
  have htw := takeWhile_digits (i0 :: ip) [] hd (by intro x tl h; cases h)
  simp only [List.append_nil] at htw
  have hne := (isDigit_ne h0).1
  unfold parseDec signB
  cases neg with
  | true =>
    simp only [if_true, List.cons_append, List.nil_append, List.head?_cons, beq_self_eq_true, List.drop_succ_cons,
      List.drop_zero, htw.1, htw.2]
    simp
  | false =>
    have : (some i0 == some (45 : UInt8)) = false := by simpa using hne
    simp only [Bool.false_eq_true, if_false, List.nil_append, List.head?_cons, this, htw.1, htw.2]
    simp

theorem parseDec_frac (neg : Bool) (i0 : UInt8) (ip : Bytes) (f0 : UInt8) (f : Bytes) (h0 : isDigit i0 = true)
    (hip : allDigits ip = true) (hf : allDigits (f0 :: f) = true) :
    parseDec (signB neg ++ (i0 :: ip) ++ 46 :: f0 :: f) = some (neg, digitsVal ((i0 :: ip) ++ f0 :: f), (f0 :: f).length) := by
  have hd : allDigits (i0 :: ip) = true := by rw [allDigits_cons, h0, hip]; rfl
  have htw := takeWhile_digits (i0 :: ip) (46 :: f0 :: f) hd (by intro x tl h; cases h; decide)
  have hne := (isDigit_ne h0).1
  unfold parseDec signB
  cases neg with
  | true =>
    simp only [if_true, List.cons_append, List.nil_append, List.head?_cons, beq_self_eq_true, List.drop_succ_cons,
      List.drop_zero]
    simp only [List.cons_append] at htw
    simp only [htw.1, htw.2, hf]
    simp
  | false =>
    have : (some i0 == some (45 : UInt8)) = false := by simpa using hne
    simp only [Bool.false_eq_true, if_false, List.nil_append, List.cons_append, List.head?_cons, this]
    simp only [List.cons_append] at htw
    simp only [htw.1, htw.2, hf]
    simp

/-! ## the final cross-multiplication -/

/-- the two shapes of the result: `q = dp − nG ≤ 0` — a fraction of `−q` digits with mantissa `dG`; `q ≥ 0` — the
    integer `dG · 10^q`.  `c` trailing zeros of the mantissa were cut. -/
theorem sameValue_of (t : NumText) (Mo k dG c : Nat) (q : Int)
    (hm : t.mant = dG * 10 ^ c) (hE : q = t.expVal - t.fracLen + c)
    (hout : (q ≤ 0 ∧ Mo = dG ∧ (k : Int) = -q) ∨ (0 ≤ q ∧ Mo = dG * 10 ^ q.toNat ∧ k = 0)) :
    SameValue t (t.neg, Mo, k) := by
  unfold SameValue
  refine ⟨Or.inr rfl, ?_⟩
  simp only []
  rw [hm]
  rcases hout with ⟨hq, hMo, hk⟩ | ⟨hq, hMo, hk⟩
  · subst hMo
    rw [Nat.mul_assoc, ← Nat.pow_add]
    congr 2
    omega
  · subst hMo hk
    rw [Nat.mul_assoc, ← Nat.pow_add, Nat.mul_assoc, ← Nat.pow_add]
    congr 2
    omega

end LyModel.JsonNum
