import LyModel.Text.XmlText
import LyModel.Generated.LexConsts
/-!
# `lyxml_parse_value` with its output buffer made explicit

`XmlText.parseValue` abstracts the output buffer to the accumulated bytes.  Here `len` (= `out.length`), `offset`
(= `pending.length`), and `size` are state, `lyxml_parse_value_use_buf` (first allocation `BUFSIZE`, growth in steps of
`BUFSIZE_STEP` until `len + offset + need_space < size`) is a function, and every store is guarded by an assertion
`index < size`; a tripped assertion makes the run return `none`.
-/
namespace LyModel.Lex.XmlBuf
open LyModel LyModel.Utf8 LyModel.XmlText

def BUFSIZE : Nat := Generated.LYXML_VALUE_BUFSIZE             -- read off xml.c by the translator (24)
def BUFSIZE_STEP : Nat := Generated.LYXML_VALUE_BUFSIZE_STEP   -- (128)

structure St where
  /-- `buf != NULL` -/
  hasBuf : Bool
  /-- `buf[0 .. len)` -/
  out : Bytes
  /-- `size`: allocated bytes (here the C records what it allocates) -/
  size : Nat
  /-- `in[0 .. offset)`: accepted, still only in the input -/
  pending : Bytes
  deriving Repr, DecidableEq

def St.init : St := { hasBuf := false, out := [], size := 0, pending := [] }

/-- `while (*len + *offset + need_space >= *size) { realloc(*size + STEP); *size += STEP; }` -/
def growLoop (need : Nat) : (fuel : Nat) → (size : Nat) → Nat
  | 0, size => size
  | f + 1, size => if need ≥ size then growLoop need f (size + BUFSIZE_STEP) else size

/-- `lyxml_parse_value_use_buf(…, need_space, …)`; `none` = a store outside the allocation -/
def St.useBuf (s : St) (needSpace : Nat) : Option St :=
  let s1 : St := if s.hasBuf then s else { s with hasBuf := true, size := BUFSIZE }
  let need := s1.out.length + s1.pending.length + needSpace
  let s2 : St := { s1 with size := growLoop need (need + 1) s1.size, out := s1.out.take (growLoop need (need + 1) s1.size) }
  -- if (*offset) memcpy(&(*buf)[*len], *in, *offset);
  if s2.pending.length = 0 ∨ s2.out.length + s2.pending.length ≤ s2.size then
    some { s2 with out := s2.out ++ s2.pending, pending := [] }
  else none

/-- `buf[len++] = ch`, `ly_pututf8(&buf[len], n, &u)`, `memcpy(buf + len, in, u)`: stores at len .. len+|bs|-1 -/
def St.put (s : St) (bs : Bytes) : Option St :=
  if bs.length = 0 ∨ s.out.length + bs.length ≤ s.size then some { s with out := s.out ++ bs } else none

/-- the end character: shrink to fit, flush, terminate -/
def St.finish (s : St) : Option Bytes :=
  if s.hasBuf then
    let size := s.out.length + s.pending.length + 1
    let out := s.out.take size
    if out.length + s.pending.length < size then some (out ++ s.pending) else none
  else some s.pending

/-- `lyxml_parse_value`, instrumented -/
def runI (endc : UInt8) : (fuel : Nat) → (inp : Bytes) → (ws : Bool) → St → Option (Except LexErr (Bytes × Bool × Bytes))
  | 0, _, _, _ => some (.error .eof)
  | _, [], _, _ => some (.error .eof)
  | fuel + 1, c :: cs, ws, st =>
    if c == 0 then some (.error .eof)
    else if c == 38 then           -- '&'
      match st.useBuf 4 with
      | none => none
      | some st =>
      match cs with
      | 35 :: r =>                  -- "&#"
        let numRes : Option (Nat × Bytes) :=
          match r with
          | d :: _ =>
            if isDigit d then some (decDigits r 0)
            else if d == 120 && isXDigit (rd r 1) then some (hexDigits (r.drop 1) 0)
            else none
          | [] => none
        match numRes with
        | none => some (.error .badCharRef)
        | some (n, r') =>
          match r' with
          | 59 :: r'' =>
            match putUtf8 n with
            | none => some (.error .badRefValue)
            | some bs =>
              match st.put bs with
              | none => none
              | some st' => runI endc fuel r'' false st'
          | _ => some (.error .expSemicolon)
      | _ =>
        match entity cs with
        | some (ch, r) =>
          match st.put [ch] with
          | none => none
          | some st' => runI endc fuel r false st'
        | none => some (.error .badEntity)
    else match stripPrefix sCdata (c :: cs) with
    | some r =>
      match findCdataEnd r with
      | none => some (.error .cdataNterm)
      | some (data, r') =>
        match st.useBuf data.length with
        | none => none
        | some st =>
          match st.put data with
          | none => none
          | some st' => runI endc fuel r' (ws && data.all isXmlWs) st'
    | none =>
      if c == endc then
        match st.finish with
        | none => none
        | some v => some (.ok (v, ws, c :: cs))
      else
        match getUtf8 (c :: cs) with
        | none => some (.error .inChar)
        | some (_, n) =>
          runI endc fuel ((c :: cs).drop n) (ws && isXmlWs c) { st with pending := st.pending ++ (c :: cs).take n }

def parseI (endc : UInt8) (inp : Bytes) : Option (Except LexErr (Bytes × Bool × Bytes)) :=
  runI endc (inp.length + 1) inp true St.init

end LyModel.Lex.XmlBuf
