import LyModel.Text.Utf8
/-!
# `ly_getutf8` as a reader of a NUL-terminated buffer

`getUtf8I` is `Utf8.getUtf8` with every read `(*input)[i]` recorded.  The theorems: it computes the same result, and it
reads index `i` only after it has seen that the bytes `0 .. i-1` are not NUL (a lead byte, or continuation-shaped
bytes) — so no read passes the terminator of the C string, whatever the bytes are.
-/
namespace LyModel.Lex.Utf8Reads
open LyModel LyModel.Utf8

/-- result of `ly_getutf8` and the indices it read, in program order -/
def getUtf8I (inp : Bytes) : Option (Nat × Nat) × List Nat :=
  let b0 := rd inp 0
  if b0 &&& 0x80 == 0 then
    (if b0 < 0x20 && b0 != 0x9 && b0 != 0xa && b0 != 0xd then none else some (b0.toNat, 1), [0])
  else if b0 &&& 0xE0 == 0xC0 then
    let b1 := rd inp 1
    if !isCont b1 then (none, [0, 1]) else
    let c := ((b0 &&& 0x1F).toNat <<< 6) ||| (b1 &&& 0x3F).toNat
    (if c < 0x80 then none else some (c, 2), [0, 1])
  else if b0 &&& 0xF0 == 0xE0 then
    let b1 := rd inp 1
    if !isCont b1 then (none, [0, 1]) else
    let b2 := rd inp 2
    if !isCont b2 then (none, [0, 1, 2]) else
    let c := ((((b0 &&& 0x0F).toNat <<< 6) ||| (b1 &&& 0x3F).toNat) <<< 6) ||| (b2 &&& 0x3F).toNat
    (if c < 0x800 || (c > 0xD7FF && c < 0xE000) || c > 0xFFFD then none else some (c, 3), [0, 1, 2])
  else if b0 &&& 0xF8 == 0xF0 then
    let b1 := rd inp 1
    if !isCont b1 then (none, [0, 1]) else
    let b2 := rd inp 2
    if !isCont b2 then (none, [0, 1, 2]) else
    let b3 := rd inp 3
    if !isCont b3 then (none, [0, 1, 2, 3]) else
    let c := ((((((b0 &&& 0x07).toNat <<< 6) ||| (b1 &&& 0x3F).toNat) <<< 6) ||| (b2 &&& 0x3F).toNat) <<< 6) |||
      (b3 &&& 0x3F).toNat
    (if c < 0x10000 || c > 0x10FFFF then none else some (c, 4), [0, 1, 2, 3])
  else (none, [0])

/-- length of the C string held in the buffer: index of the first NUL -/
def cstrlen : Bytes → Nat
  | [] => 0
  | c :: cs => if c == 0 then 0 else cstrlen cs + 1

theorem getUtf8I_fst (inp : Bytes) : (getUtf8I inp).1 = getUtf8 inp := by
  unfold getUtf8I getUtf8
  simp only []
  repeat' split <;> try rfl

theorem ne_zero_of_and_ne {b m : UInt8} (h : (b &&& m == 0) = false) : b ≠ 0 := by
  intro hb
  subst hb
  simp at h

theorem ne_zero_of_isCont {b : UInt8} (h : isCont b = true) : b ≠ 0 := by
  intro hb
  subst hb
  simp [isCont] at h

theorem lt_cstrlen_of_prefix_ne_zero (inp : Bytes) : ∀ (i : Nat), (∀ j, j < i → rd inp j ≠ 0) → i ≤ cstrlen inp := by
  induction inp with
  | nil =>
    intro i h
    cases i with
    | zero => simp [cstrlen]
    | succ n => exact absurd (by simp [rd]) (h 0 (Nat.succ_pos n))
  | cons c cs ih =>
    intro i h
    cases i with
    | zero => exact Nat.zero_le _
    | succ n =>
      have h0 : c ≠ 0 := by simpa [rd] using h 0 (Nat.succ_pos n)
      have : n ≤ cstrlen cs := ih n (fun j hj => by simpa [rd] using h (j + 1) (Nat.succ_lt_succ hj))
      simp [cstrlen, h0]
      omega

/-- every index read is preceded by non-NUL bytes only -/
theorem getUtf8I_reads (inp : Bytes) : ∀ i ∈ (getUtf8I inp).2, ∀ j, j < i → rd inp j ≠ 0 := by
  unfold getUtf8I
  simp only []
  split
  · intro i hi j hj; simp at hi; omega
  · rename_i h0
    have n0 : rd inp 0 ≠ 0 := ne_zero_of_and_ne (by simpa using h0)
    have c1 : ∀ i ∈ [0, 1], ∀ j, j < i → rd inp j ≠ 0 := by
      intro i hi j hj
      simp at hi
      rcases hi with rfl | rfl
      · omega
      · have : j = 0 := by omega
        subst this; exact n0
    have c2 : isCont (rd inp 1) = true → ∀ i ∈ [0, 1, 2], ∀ j, j < i → rd inp j ≠ 0 := by
      intro h1 i hi j hj
      simp at hi
      rcases hi with rfl | rfl | rfl
      · omega
      · have : j = 0 := by omega
        subst this; exact n0
      · have : j = 0 ∨ j = 1 := by omega
        rcases this with rfl | rfl
        · exact n0
        · exact ne_zero_of_isCont h1
    have c3 : isCont (rd inp 1) = true → isCont (rd inp 2) = true → ∀ i ∈ [0, 1, 2, 3], ∀ j, j < i → rd inp j ≠ 0 := by
      intro h1 h2 i hi j hj
      simp at hi
      rcases hi with rfl | rfl | rfl | rfl
      · omega
      · have : j = 0 := by omega
        subst this; exact n0
      · have : j = 0 ∨ j = 1 := by omega
        rcases this with rfl | rfl
        · exact n0
        · exact ne_zero_of_isCont h1
      · have : j = 0 ∨ j = 1 ∨ j = 2 := by omega
        rcases this with rfl | rfl | rfl
        · exact n0
        · exact ne_zero_of_isCont h1
        · exact ne_zero_of_isCont h2
    split
    · split
      · exact c1
      · exact c1
    · split
      · split
        · exact c1
        · rename_i h1
          split
          · exact c2 (by simpa using h1)
          · exact c2 (by simpa using h1)
      · split
        · split
          · exact c1
          · rename_i h1
            split
            · exact c2 (by simpa using h1)
            · rename_i h2
              split
              · exact c3 (by simpa using h1) (by simpa using h2)
              · exact c3 (by simpa using h1) (by simpa using h2)
        · intro i hi j hj; simp at hi; omega

/-- … hence no read index lies behind the terminating NUL of the C string -/
theorem getUtf8I_reads_le_cstrlen (inp : Bytes) : ∀ i ∈ (getUtf8I inp).2, i ≤ cstrlen inp :=
  fun i hi => lt_cstrlen_of_prefix_ne_zero inp i (getUtf8I_reads inp i hi)

/-- the bytes it consumes are bytes it has read: the last consumed index `n - 1` is a read index -/
theorem getUtf8I_consumed_read (inp : Bytes) (cp n : Nat) :
    (getUtf8I inp).1 = some (cp, n) → n - 1 ∈ (getUtf8I inp).2 ∧ 0 < n := by
  unfold getUtf8I
  simp only []
  repeat' split
  all_goals (intro h; simp at h)
  all_goals (obtain ⟨_, rfl⟩ := h; simp)

end LyModel.Lex.Utf8Reads
