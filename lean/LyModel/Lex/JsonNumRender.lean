import LyModel.Lex.JsonNumLemmas
/-!
# What the stores of `lyjson_exp_number` leave in the buffer

The composition writes its bytes at consecutive indices from 0 (`seqW`), then the NUL at `buf_len`.  So the value read
back from the buffer is the list of bytes written, cut at `buf_len`.
-/
namespace LyModel.JsonNum

/-- stores of the bytes `bs` at `base, base+1, …` -/
def seqW : Nat → Bytes → Writes
  | _, [] => []
  | base, b :: bs => (base, b) :: seqW (base + 1) bs

theorem seqW_append : ∀ (base : Nat) (a b : Bytes), seqW base (a ++ b) = seqW base a ++ seqW (base + a.length) b
  | _, [], b => by simp [seqW]
  | base, x :: a, b => by
    simp only [List.cons_append, seqW, List.length_cons]
    rw [seqW_append (base + 1) a b]
    have : base + 1 + a.length = base + (a.length + 1) := by omega
    rw [this]

theorem memsetW_eq_seqW (base : Nat) (b : UInt8) : ∀ n, memsetW base b n = seqW base (List.replicate n b)
  | 0 => by simp [memsetW, seqW]
  | n + 1 => by
    have ih := memsetW_eq_seqW base b n
    unfold memsetW at ih ⊢
    rw [List.range_succ, List.map_append, ih, List.replicate_succ', seqW_append]
    simp [seqW]

theorem minusW_eq_seqW (m : Nat) : minusW m = seqW 0 (if m = 1 then [45] else []) := by
  unfold minusW
  by_cases h : m = 1
  · simp [h, seqW]
  · have : (m == 1) = false := by simpa using h
    simp [this, h, seqW]

/-- the bytes the copy loop stores, in order -/
def copyBytes (decIdx : Option Nat) (dp : Int) : Bytes → (n d : Nat) → Bytes
  | [], _, _ => []
  | c :: cs, n, d =>
    if decIdx == some n then copyBytes decIdx dp cs (n + 1) d
    else if (d : Int) == dp then 46 :: c :: copyBytes decIdx dp cs (n + 1) (d + 2)
    else c :: copyBytes decIdx dp cs (n + 1) (d + 1)

theorem copyGo_eq_seqW (decIdx : Option Nat) (dp : Int) (base : Nat) : ∀ (src : Bytes) (n d : Nat),
    (copyGo decIdx dp base src n d).1 = seqW (base + d) (copyBytes decIdx dp src n d) ∧
    (copyGo decIdx dp base src n d).2 = d + (copyBytes decIdx dp src n d).length
  | [], n, d => by simp [copyGo, copyBytes, seqW]
  | c :: cs, n, d => by
    have ih1 := copyGo_eq_seqW decIdx dp base cs (n + 1) d
    have ih2 := copyGo_eq_seqW decIdx dp base cs (n + 1) (d + 1)
    have ih3 := copyGo_eq_seqW decIdx dp base cs (n + 1) (d + 2)
    unfold copyGo copyBytes
    by_cases h1 : decIdx = some n
    · simpa [h1] using ih1
    · by_cases h2 : (d : Int) = dp
      · simp only [beq_iff_eq, h1, h2, if_true, if_false, seqW, List.length_cons]
        rw [ih3.1, ih3.2]
        constructor
        · have : base + d + 1 + 1 = base + (d + 2) := by omega
          rw [this]
        · omega
      · simp only [beq_iff_eq, h1, h2, if_false, seqW, List.length_cons]
        rw [ih2.1, ih2.2]
        constructor
        · have : base + d + 1 = base + (d + 1) := by omega
          rw [this]
        · omega

/-- applying consecutive stores behind what is already there -/
theorem applyWrites_seqW : ∀ (bs pre junk : Bytes), bs.length ≤ junk.length →
    applyWrites (pre ++ junk) (seqW pre.length bs) = pre ++ bs ++ junk.drop bs.length
  | [], pre, junk, _ => by simp [applyWrites, seqW]
  | b :: bs, pre, junk, h => by
    cases junk with
    | nil => simp at h
    | cons j js =>
      unfold applyWrites seqW
      simp only [List.foldl_cons]
      have hset : (pre ++ j :: js).set pre.length b = (pre ++ [b]) ++ js := by
        rw [List.set_append_right _ _ (Nat.le_refl _)]
        simp
      rw [hset]
      have ih := applyWrites_seqW bs (pre ++ [b]) js (by simp at h; omega)
      unfold applyWrites at ih
      have hl : (pre ++ [b]).length = pre.length + 1 := by simp
      rw [hl] at ih
      rw [ih]
      simp

/-- the value read back: consecutive stores of `bs` from 0 — all `bufLen` bytes of the value, at most one more —, then the
    NUL at `bufLen`, cut at `bufLen` -/
theorem value_of_seqW (bufLen : Nat) (bs : Bytes) (lens : List Int) (h0 : bufLen ≤ bs.length) (h : bs.length ≤ bufLen + 1) :
    ({ bufLen := bufLen, writes := seqW 0 bs ++ [(bufLen, 0)], lens := lens } : ExpOut).value = bs.take bufLen := by
  unfold ExpOut.value ExpOut.buffer ExpOut.alloc
  simp only []
  have h1 := applyWrites_seqW bs [] (List.replicate (bufLen + 1) poison) (by simpa using h)
  simp only [List.nil_append, List.length_nil] at h1
  unfold applyWrites at h1 ⊢
  rw [List.foldl_append, h1]
  simp only [List.foldl_cons, List.foldl_nil]
  rw [List.take_set_of_le (Nat.le_refl _)]
  rw [List.take_append]
  have : bufLen - bs.length = 0 := by omega
  simp [this]

/-! ## the bytes of the copy loop, described without the loop -/

/-- the numeric part without its old decimal point -/
def eraseDec (decIdx : Option Nat) : Bytes → Nat → Bytes
  | [], _ => []
  | c :: cs, n => if decIdx == some n then eraseDec decIdx cs (n + 1) else c :: eraseDec decIdx cs (n + 1)

/-- a decimal point put in front of position `k`, when `k` is a position of the list -/
def insertDot (k : Int) (l : Bytes) : Bytes :=
  if 0 ≤ k ∧ k < l.length then l.take k.toNat ++ 46 :: l.drop k.toNat else l

theorem insertDot_neg (k : Int) (l : Bytes) (h : k < 0) : insertDot k l = l := by
  unfold insertDot; have : ¬ (0 ≤ k ∧ k < (l.length : Int)) := by omega
  simp [this]

theorem copyBytes_eq (decIdx : Option Nat) (dp : Int) : ∀ (src : Bytes) (n d : Nat),
    copyBytes decIdx dp src n d = insertDot (dp - d) (eraseDec decIdx src n)
  | [], n, d => by simp [copyBytes, eraseDec, insertDot]
  | c :: cs, n, d => by
    unfold copyBytes eraseDec
    by_cases h1 : decIdx = some n
    · have h1' : (decIdx == some n) = true := by simp [h1]
      simp only [h1', if_true]
      exact copyBytes_eq decIdx dp cs (n + 1) d
    · have h1' : (decIdx == some n) = false := by simpa using h1
      simp only [h1', if_false, Bool.false_eq_true]
      by_cases h2 : (d : Int) = dp
      · subst h2
        simp only [beq_self_eq_true, if_true]
        rw [copyBytes_eq decIdx (d : Int) cs (n + 1) (d + 2), insertDot_neg _ _ (by omega)]
        unfold insertDot
        have : (0 : Int) ≤ (d : Int) - d ∧ (d : Int) - d < ((c :: eraseDec decIdx cs (n + 1)).length : Int) := by
          simp only [List.length_cons]; omega
        simp only [this, and_self, if_true]
        have : ((d : Int) - (d : Int)).toNat = 0 := by omega
        rw [this]
        rfl
      · have h2' : ((d : Int) == dp) = false := by simpa using h2
        simp only [h2', if_false, Bool.false_eq_true]
        rw [copyBytes_eq decIdx dp cs (n + 1) (d + 1)]
        unfold insertDot
        by_cases hk : 0 ≤ dp - ((d + 1 : Nat) : Int) ∧ dp - ((d + 1 : Nat) : Int) < ((eraseDec decIdx cs (n + 1)).length : Int)
        · have hk' : (0 : Int) ≤ dp - d ∧ dp - d < ((c :: eraseDec decIdx cs (n + 1)).length : Int) := by
            simp only [List.length_cons]; omega
          simp only [hk, hk', and_self, if_true]
          have : (dp - (d : Int)).toNat = (dp - ((d + 1 : Nat) : Int)).toNat + 1 := by omega
          rw [this]
          simp
        · have hk' : ¬ ((0 : Int) ≤ dp - d ∧ dp - d < ((c :: eraseDec decIdx cs (n + 1)).length : Int)) := by
            simp only [List.length_cons]; omega
          simp only [hk, hk', if_false]

theorem eraseDec_none : ∀ (l : Bytes) (n : Nat), eraseDec none l n = l
  | [], _ => rfl
  | c :: cs, n => by simp [eraseDec, eraseDec_none cs (n + 1)]

theorem eraseDec_out (i : Nat) : ∀ (l : Bytes) (n : Nat), i < n → eraseDec (some i) l n = l
  | [], _, _ => rfl
  | c :: cs, n, h => by
    have hne : i ≠ n := by omega
    simp [eraseDec, hne, eraseDec_out i cs (n + 1) (by omega)]

/-- `A ++ '.' ++ F` without the point at index `|A|` -/
theorem eraseDec_mid : ∀ (a f : Bytes) (n : Nat), eraseDec (some (n + a.length)) (a ++ 46 :: f) n = a ++ f
  | [], f, n => by simp [eraseDec, eraseDec_out n f (n + 1) (by omega)]
  | x :: a, f, n => by
    have hne : n + (a.length + 1) ≠ n := by omega
    have := eraseDec_mid a f (n + 1)
    have h2 : n + 1 + a.length = n + (a.length + 1) := by omega
    rw [h2] at this
    simp [eraseDec, this]

end LyModel.JsonNum
