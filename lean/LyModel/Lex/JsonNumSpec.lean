import LyModel.Text.JsonNum
/-!
# What a JSON number text and a YANG decimal string denote (RFC 8259 §6, RFC 7950 §9.3)

Written from the grammars, not from the code.  A number text is `[-] int [. frac] [(e|E) [+|-] digits]`; the decimal
strings `lyjson_number` must hand on are `[-] digits [. digits]` (no exponent).  Values are compared without
rationals: `m₁ · 10^a = m₂ · 10^b` after cross-multiplying the powers of ten.
-/
namespace LyModel.JsonNum

/-- the parts of an RFC 8259 number text -/
structure NumText where
  neg : Bool
  /-- digits of the integer part -/
  ip : Bytes
  /-- digits of the fraction, when there is one -/
  fp : Option Bytes
  /-- exponent: upper-case `E`?, sign character (`none`, `+`, `-`), digits -/
  exp : Option (Bool × Option Bool × Bytes)
  deriving Repr, DecidableEq

def allDigits (l : Bytes) : Bool := l.all isDigit

/-- `int = zero / ( digit1-9 *DIGIT )`, `frac = "." 1*DIGIT`, `exp = e [ minus / plus ] 1*DIGIT` -/
def NumText.wf (t : NumText) : Bool :=
  (t.ip == [48] || (allDigits t.ip && t.ip.head? != some 48 && !t.ip.isEmpty)) &&
  (match t.fp with | none => true | some f => allDigits f && !f.isEmpty) &&
  (match t.exp with | none => true | some (_, _, d) => allDigits d && !d.isEmpty)

def signBytes (t : NumText) : Bytes := if t.neg then [45] else []
def fracBytes (t : NumText) : Bytes := match t.fp with | none => [] | some f => 46 :: f
def expSign (sg : Option Bool) : Bytes := match sg with | none => [] | some true => [45] | some false => [43]
def expBytes (t : NumText) : Bytes :=
  match t.exp with
  | none => []
  | some (up, sg, d) => (if up then 69 else 101) :: (expSign sg ++ d)

/-- the text: `[-] int [. frac] [e|E [+|-] digits]` -/
def NumText.render (t : NumText) : Bytes := signBytes t ++ (t.ip ++ (fracBytes t ++ expBytes t))

/-- all digits of the mantissa, as a natural number -/
def NumText.mant (t : NumText) : Nat := digitsVal (t.ip ++ t.fp.getD [])

/-- number of fraction digits -/
def NumText.fracLen (t : NumText) : Nat := (t.fp.getD []).length

/-- the exponent as an integer (0 when absent) -/
def NumText.expVal (t : NumText) : Int :=
  match t.exp with
  | none => 0
  | some (_, some true, d) => -(digitsVal d : Int)
  | some (_, _, d) => digitsVal d

/-- the byte behind the number text does not continue it -/
def Stops (rest : Bytes) : Bool :=
  match rest with
  | [] => true
  | c :: _ => !isDigit c && c != 46 && c != 101 && c != 69

/-- what a plain decimal string `[-] digits [. digits]` denotes: sign, all digits as a number, number of fraction digits;
    `none` when the string is not of that form (in particular when it has an exponent, or is `.`, `1.`, `10.20` is fine) -/
def parseDec (s : Bytes) : Option (Bool × Nat × Nat) :=
  let neg := s.head? == some 45
  let r := if neg then s.drop 1 else s
  let ip := r.takeWhile isDigit
  let rest := r.dropWhile isDigit
  if ip.isEmpty then none else
  match rest with
  | [] => some (neg, digitsVal ip, 0)
  | 46 :: f => if allDigits f && !f.isEmpty then some (neg, digitsVal (ip ++ f), f.length) else none
  | _ => none

/-- the decimal `(neg', m, k)` (= ±m / 10^k) is the value of the number text `t` (= ±mant · 10^(exp − fracLen)):
    compared by cross-multiplication; the sign only matters for a non-zero value -/
def SameValue (t : NumText) (d : Bool × Nat × Nat) : Prop :=
  let e : Int := t.expVal - t.fracLen
  (t.mant = 0 ∨ d.1 = t.neg) ∧ t.mant * 10 ^ (d.2.2 + e.toNat) = d.2.1 * 10 ^ (-e).toNat

instance (t : NumText) (d : Bool × Nat × Nat) : Decidable (SameValue t d) := by unfold SameValue; exact inferInstance

end LyModel.JsonNum
