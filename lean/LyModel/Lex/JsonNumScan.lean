import LyModel.Lex.JsonNumSpec
import LyModel.Lex.JsonNumLemmas
/-!
# The scanner of `lyjson_number` on an RFC 8259 number text
-/
namespace LyModel.JsonNum
open LyModel.Utf8 (rd)

theorem rd_of_drop {inp : Bytes} {o : Nat} {x : UInt8} {tl : Bytes} (h : inp.drop o = x :: tl) : rd inp o = x := by
  have hlt : o < inp.length := by
    by_cases hlt : o < inp.length
    · exact hlt
    · rw [List.drop_eq_nil_of_le (by omega)] at h; cases h
  rw [rd_eq_getElem inp o hlt]
  have := List.getElem_cons_drop (as := inp) (i := o) hlt
  rw [h] at this
  injection this

theorem rd_of_drop_nil {inp : Bytes} {o : Nat} (h : inp.drop o = []) : rd inp o = 0 := by
  have : inp.length ≤ o := by
    by_cases hlt : o < inp.length
    · have := List.getElem_cons_drop (as := inp) (i := o) hlt
      rw [h] at this; cases this
    · omega
  exact rd_of_le inp o this

theorem drop_of_drop_append {inp : Bytes} {o : Nat} {l tl : Bytes} (h : inp.drop o = l ++ tl) :
    inp.drop (o + l.length) = tl := by
  have : inp.drop (o + l.length) = (inp.drop o).drop l.length := by rw [List.drop_drop]
  rw [this, h]; simp

/-- the tail starts with a byte that is no digit (or is empty) -/
def NoDigitAhead (tl : Bytes) : Prop := ∀ x tl', tl = x :: tl' → isDigit x = false

theorem countDigits_prefix : ∀ (ds tl : Bytes), allDigits ds = true → NoDigitAhead tl → countDigits (ds ++ tl) = ds.length
  | [], tl, _, h => by
    cases tl with
    | nil => simp [countDigits]
    | cons x tl' => simp [countDigits, h x tl' rfl]
  | d :: ds, tl, hd, h => by
    simp only [allDigits, List.all_cons, Bool.and_eq_true] at hd
    have := countDigits_prefix ds tl (by simpa [allDigits] using hd.2) h
    simp [countDigits, hd.1, this]

/-! ## the parts of a rendered number text -/

theorem render_eq (t : NumText) : t.render = signBytes t ++ (t.ip ++ (fracBytes t ++ expBytes t)) := rfl

/-- the facts `wf` gives, unpacked -/
theorem wf_ip {t : NumText} (h : t.wf = true) :
    (t.ip = [48] ∨ ∃ i0 I', t.ip = i0 :: I' ∧ isDigit i0 = true ∧ i0 ≠ 48 ∧ allDigits I' = true) := by
  unfold NumText.wf at h
  simp only [Bool.and_eq_true, Bool.or_eq_true, beq_iff_eq] at h
  rcases h.1.1 with h0 | h1
  · exact Or.inl h0
  · right
    cases hip : t.ip with
    | nil => simp [hip] at h1
    | cons i0 I' =>
      rw [hip] at h1
      simp only [allDigits, List.all_cons, Bool.and_eq_true, List.head?_cons, bne_iff_ne, ne_eq, Option.some.injEq,
        List.isEmpty_cons, Bool.not_false, and_true] at h1
      exact ⟨i0, I', rfl, h1.1.1, h1.2, by simpa [allDigits] using h1.1.2⟩

theorem wf_fp {t : NumText} (h : t.wf = true) (f : Bytes) (hf : t.fp = some f) :
    allDigits f = true ∧ ∃ f0 f', f = f0 :: f' ∧ isDigit f0 = true := by
  unfold NumText.wf at h
  simp only [Bool.and_eq_true] at h
  have h2 := h.1.2
  rw [hf] at h2
  simp only [Bool.and_eq_true, Bool.not_eq_true'] at h2
  refine ⟨h2.1, ?_⟩
  cases f with
  | nil => simp at h2
  | cons f0 f' =>
    have := h2.1
    simp only [allDigits, List.all_cons, Bool.and_eq_true] at this
    exact ⟨f0, f', rfl, this.1⟩

theorem wf_exp {t : NumText} (h : t.wf = true) (up : Bool) (sg : Option Bool) (d : Bytes) (he : t.exp = some (up, sg, d)) :
    allDigits d = true ∧ ∃ d0 d', d = d0 :: d' ∧ isDigit d0 = true := by
  unfold NumText.wf at h
  simp only [Bool.and_eq_true] at h
  have h2 := h.2
  rw [he] at h2
  simp only [Bool.and_eq_true, Bool.not_eq_true'] at h2
  refine ⟨h2.1, ?_⟩
  cases d with
  | nil => simp at h2
  | cons d0 d' =>
    have := h2.1
    simp only [allDigits, List.all_cons, Bool.and_eq_true] at this
    exact ⟨d0, d', rfl, this.1⟩

theorem isDigit_ne {x : UInt8} (h : isDigit x = true) : x ≠ 45 ∧ x ≠ 46 ∧ x ≠ 101 ∧ x ≠ 69 ∧ x ≠ 43 ∧ x ≠ 0 := by
  unfold isDigit at h
  simp only [Bool.and_eq_true, decide_eq_true_eq] at h
  refine ⟨?_, ?_, ?_, ?_, ?_, ?_⟩ <;> (intro hx; subst hx; revert h; decide)

/-- what is ahead of the scanner once the integer part is consumed: no digit -/
theorem noDigit_after_int (t : NumText) (rest : Bytes) (hwf : t.wf = true) (hs : Stops rest = true) :
    NoDigitAhead (fracBytes t ++ (expBytes t ++ rest)) := by
  intro x tl' h
  unfold fracBytes at h
  cases hf : t.fp with
  | some f => rw [hf] at h; simp at h; rw [← h.1]; decide
  | none =>
    rw [hf] at h
    simp only [List.nil_append] at h
    unfold expBytes at h
    cases he : t.exp with
    | some e =>
      obtain ⟨up, sg, d⟩ := e
      rw [he] at h; simp at h
      rw [← h.1]; cases up <;> decide
    | none =>
      rw [he] at h; simp only [List.nil_append] at h
      subst h
      simp only [Stops, Bool.and_eq_true, Bool.not_eq_true'] at hs
      exact hs.1.1.1

theorem noDigit_after_frac (t : NumText) (rest : Bytes) (hs : Stops rest = true) : NoDigitAhead (expBytes t ++ rest) := by
  intro x tl' h
  unfold expBytes at h
  cases he : t.exp with
  | some e =>
    obtain ⟨up, sg, d⟩ := e
    rw [he] at h; simp at h
    rw [← h.1]; cases up <;> decide
  | none =>
    rw [he] at h; simp only [List.nil_append] at h
    subst h
    simp only [Stops, Bool.and_eq_true, Bool.not_eq_true'] at hs
    exact hs.1.1.1

theorem noDigit_rest (rest : Bytes) (hs : Stops rest = true) : NoDigitAhead rest := by
  intro x tl' h
  subst h
  simp only [Stops, Bool.and_eq_true, Bool.not_eq_true'] at hs
  exact hs.1.1.1

end LyModel.JsonNum
