import LyModel.Lex.JsonNumCompose
/-!
# What `lyjson_exp_number` derives from a number text (`prep`), and the value of `lyjson_number`

`prepSpec_render`: on `t.render ++ rest` the prepared quantities satisfy `PrepSpec` — the trimmed numeric part is the
integer digits, the old point and the fraction digits without `c` trailing zeros (or, without a fraction, the integer
digits without `c` trailing zeros).  `number_value`: the value of every successful `lyjson_number` on a number text.
-/
namespace LyModel.JsonNum
open LyModel.Utf8 (rd)

/-! ## the old decimal point -/

theorem findDot_eq (l : Bytes) : findDot l = l.findIdx? (· == 46) := by
  unfold findDot; cases l.findIdx? (· == 46) <;> rfl

theorem findIdx_digits (A : Bytes) (h : allDigits A = true) : A.findIdx? (· == 46) = none := by
  rw [List.findIdx?_eq_none_iff]
  intro x hx
  unfold allDigits at h; rw [List.all_eq_true] at h
  have := (isDigit_ne (h x hx)).2.1
  simpa using this

theorem findDot_digits (A : Bytes) (h : allDigits A = true) : findDot A = none := by
  rw [findDot_eq]; exact findIdx_digits A h

theorem findDot_digits_dot (A f : Bytes) (h : allDigits A = true) : findDot (A ++ 46 :: f) = some A.length := by
  rw [findDot_eq, List.findIdx?_append, findIdx_digits A h, List.findIdx?_cons]
  simp

/-! ## the trailing zeros that are cut -/

theorem split_zeros_dot : ∀ (k : Nat) (A f Y : Bytes), A ++ 46 :: f = Y ++ List.replicate k 48 →
    ∃ f', f = f' ++ List.replicate k 48 ∧ Y = A ++ 46 :: f'
  | 0, A, f, Y, h => ⟨f, by simp, by simpa using h.symm⟩
  | k + 1, A, f, Y, h => by
    rw [List.replicate_succ', ← List.append_assoc] at h
    rcases List.eq_nil_or_concat f with hf | ⟨f1, x, hf⟩
    · subst hf
      have h' : (A ++ [46]) = (Y ++ List.replicate k 48) ++ [48] := by simpa using h
      have := List.append_inj_right' h' rfl
      exact absurd this (by decide)
    · rw [List.concat_eq_append] at hf
      subst hf
      have h' : (A ++ 46 :: f1) ++ [x] = (Y ++ List.replicate k 48) ++ [48] := by simpa using h
      obtain ⟨h1, h2⟩ := List.append_inj' h' rfl
      obtain ⟨f', hf', hY⟩ := split_zeros_dot k A f1 Y h1
      injection h2 with hx _
      subst hx
      refine ⟨f', ?_, hY⟩
      rw [hf', List.replicate_succ', List.append_assoc]

theorem split_zeros_head (k : Nat) (i0 : UInt8) (I' Y : Bytes) (hne : i0 ≠ 48)
    (h : i0 :: I' = Y ++ List.replicate k 48) : ∃ Y', Y = i0 :: Y' := by
  cases Y with
  | cons y Y' => simp only [List.cons_append] at h; injection h with h1 _; exact ⟨Y', by rw [h1]⟩
  | nil =>
    cases k with
    | zero => simp at h
    | succ k => simp only [List.nil_append, List.replicate_succ] at h; injection h with h1 _; exact absurd h1 hne

theorem countBack_split (inp : Bytes) (numOff e a : Nat) (ha : numOff ≤ a) :
    ∃ Y, slice inp numOff (e - numOff) = Y ++ List.replicate (countBack inp a e) 48 := by
  by_cases hae : a ≥ e
  · refine ⟨slice inp numOff (e - numOff), ?_⟩
    have : countBack inp a e = 0 := by unfold countBack; simp [hae]
    rw [this]; simp
  · have he : e = a + (e - a) := by omega
    have hk : countBack inp a e = zerosPrefix (slice inp a (e - a)).reverse := by
      conv => lhs; rw [he]
      exact countBack_eq inp a (e - a)
    have hsl : slice inp a (e - a) = (slice inp numOff (e - numOff)).drop (a - numOff) := by
      have := slice_drop inp numOff (e - numOff) (a - numOff)
      have h1 : numOff + (a - numOff) = a := by omega
      have h2 : e - numOff - (a - numOff) = e - a := by omega
      rw [h1, h2] at this; exact this
    rw [hk]
    have hsplit := zerosPrefix_reverse_split (slice inp a (e - a))
    refine ⟨(slice inp numOff (e - numOff)).take (a - numOff) ++
      (slice inp a (e - a)).take ((slice inp a (e - a)).length - zerosPrefix (slice inp a (e - a)).reverse), ?_⟩
    rw [List.append_assoc, ← hsplit, hsl, List.take_append_drop]

theorem trimOf_split (inp : Bytes) (numOff e : Nat) (dp : Int) :
    ∃ Y, slice inp numOff (e - numOff) = Y ++ List.replicate (trimOf inp numOff e dp) 48 := by
  unfold trimOf
  split
  · exact countBack_split inp numOff e _ (by omega)
  · exact countBack_split inp numOff e _ (Nat.le_refl _)

theorem zerosPrefix_replicate (k : Nat) : zerosPrefix (List.replicate k 48) = k := by
  have h1 := zerosPrefix_replicate_append k []
  have h2 := zerosPrefix_le_length (List.replicate k 48)
  simp only [List.append_nil] at h1
  simp only [List.length_replicate] at h2
  omega

/-- cutting trailing zeros does not remove the last non-zero digit -/
theorem zerosPrefix_lt_of_append (f' : Bytes) (k : Nat)
    (h : zerosPrefix (f' ++ List.replicate k 48) < (f' ++ List.replicate k 48).length) : zerosPrefix f' < f'.length := by
  have hle := zerosPrefix_le_length f'
  by_cases he : zerosPrefix f' = f'.length
  · have := zerosPrefix_eq_length he
    rw [this, List.replicate_append_replicate, zerosPrefix_replicate] at h
    simp at h
  · omega

/-! ## `PrepSpec`, in the two shapes of the numeric part -/

variable {inp : Bytes} {t : NumText} {p : Prep}

/-- integer digits `A`, the old point, fraction digits `f'` (`k` trailing zeros cut) -/
theorem prepSpec_dot (A f' : Bytes) (k : Nat)
    (hm : p.m = (signBytes t).length) (hA : allDigits A = true) (hf' : allDigits f' = true)
    (hdec : p.decIdx = some A.length) (hdp : p.dp = (A.length : Int) + t.expVal)
    (hnumLen : p.numLen = A.length + 1 + f'.length) (hlt : p.numLen < 65536)
    (hdot : p.dot = dotOf p.decIdx p.numLen p.dp)
    (hslice : slice inp p.numOff p.numLen = A ++ 46 :: f')
    (hnz : zerosPrefix (A ++ f') < (A ++ f').length)
    (hmant : t.mant = digitsVal (A ++ f') * 10 ^ k) (hfrac : t.fracLen = f'.length + k)
    (hlz : p.leadingZero = true → A = [] ∧ t.ip = [48] ∧ t.fp.isSome = true) : PrepSpec inp t p (A ++ f') k := by
  refine ⟨hm, by rw [allDigits_append, hA, hf']; rfl, hnz, hmant, ?_, hdot, hlt, ?_, ?_, ?_⟩
  · rw [hdp, hfrac]; simp only [List.length_append]; omega
  · rw [hslice, hdec]
    have := eraseDec_mid A f' 0
    simpa using this
  · rw [hdec, hnumLen]; simp only [List.length_append, Option.isSome_some, if_true]; omega
  · intro h
    obtain ⟨hA0, hip, hfp⟩ := hlz h
    subst hA0
    refine ⟨by rw [hdec]; rfl, ?_, hip, hfp, by rw [hfrac]; simp⟩
    have := slice_drop inp p.numOff p.numLen 1
    rw [hslice, hnumLen] at this
    simpa using this

/-- integer digits only (`k` trailing zeros cut) -/
theorem prepSpec_nodot (Y : Bytes) (k : Nat)
    (hm : p.m = (signBytes t).length) (hY : allDigits Y = true)
    (hdec : p.decIdx = none) (hdp : p.dp = ((Y.length + k : Nat) : Int) + t.expVal)
    (hnumLen : p.numLen = Y.length) (hlt : p.numLen < 65536)
    (hdot : p.dot = dotOf p.decIdx p.numLen p.dp)
    (hslice : slice inp p.numOff p.numLen = Y)
    (hnz : zerosPrefix Y < Y.length)
    (hmant : t.mant = digitsVal Y * 10 ^ k) (hfrac : t.fracLen = 0)
    (hlz : p.leadingZero = false) : PrepSpec inp t p Y k := by
  refine ⟨hm, hY, hnz, hmant, ?_, hdot, hlt, ?_, ?_, ?_⟩
  · rw [hdp, hfrac]; omega
  · rw [hslice, hdec, eraseDec_none]
  · rw [hdec, hnumLen]; simp
  · intro h; rw [hlz] at h; cases h

/-! ## `prep` on a number text -/

theorem prepSpec_render (t : NumText) (rest : Bytes) (hwf : t.wf = true) (hs : Stops rest = true)
    (hle : t.mantLen ≤ 65535)
    (hnz : t.ip ≠ [48] ∨ ∃ f, t.fp = some f ∧ zerosPrefix f < f.length) :
    ∃ G c, PrepSpec (t.render ++ rest) t (prep (t.render ++ rest) t.mantLen t.expVal) G c := by
  generalize hinp : t.render ++ rest = inp
  have h0 : inp.drop 0 = signBytes t ++ (t.ip ++ (fracBytes t ++ (expBytes t ++ rest))) := by
    rw [← hinp, render_eq]; simp
  obtain ⟨hsign, _, _, h48⟩ := scan_int t hwf inp _ h0 (noDigit_after_int t rest hwf hs)
  have h1 := drop_of_drop_append h0
  simp only [Nat.zero_add] at h1
  obtain ⟨i0, I', hI, hd0, hI', hi48⟩ := wf_ip' hwf
  have hIdig : allDigits t.ip = true := by rw [hI, allDigits_cons, hd0, hI']; rfl
  generalize hp : prep inp t.mantLen t.expVal = p
  have hm : p.m = (signBytes t).length := by rw [← hp, ← hsign]; rfl
  have hlzdef : p.leadingZero = (rd inp (signBytes t).length == 48) := by rw [← hp, ← hsign]; rfl
  have hnodef : p.numOff = if (rd inp (signBytes t).length == 48) = true then (signBytes t).length + 1
      else (signBytes t).length := by rw [← hp, ← hsign]; rfl
  have hdecdef : p.decIdx = findDot (slice inp p.numOff ((t.mantLen - p.numOff) % 65536)) := by rw [← hp]; rfl
  have hdpdef : p.dp = dpOf p.decIdx ((t.mantLen - p.numOff) % 65536) t.expVal := by rw [← hp]; rfl
  have hnldef : p.numLen = ((t.mantLen - p.numOff) % 65536 + 65536
      - trimOf inp p.numOff t.mantLen p.dp % 65536) % 65536 := by rw [← hp]; rfl
  have hdot : p.dot = dotOf p.decIdx p.numLen p.dp := by rw [← hp]; rfl
  have hmod : (t.mantLen - p.numOff) % 65536 = t.mantLen - p.numOff := by omega
  rw [hmod] at hdecdef hdpdef hnldef
  obtain ⟨Y, hY⟩ := trimOf_split inp p.numOff t.mantLen p.dp
  have htrimle := trimOf_le inp p.numOff t.mantLen p.dp
  have hnl : p.numLen = t.mantLen - p.numOff - trimOf inp p.numOff t.mantLen p.dp := by omega
  have hlt : p.numLen < 65536 := by omega
  have hYlen : Y.length = p.numLen := by
    have := congrArg List.length hY
    simp only [slice_length, List.length_append, List.length_replicate] at this
    omega
  have hslice : slice inp p.numOff p.numLen = Y := by
    rw [slice_take inp p.numOff (t.mantLen - p.numOff) p.numLen (by omega), hY, ← hYlen, List.take_left]
  by_cases hip : t.ip = [48]
  · -- mantissa `0.ddd`
    obtain ⟨f, hf, hfnz⟩ : ∃ f, t.fp = some f ∧ zerosPrefix f < f.length := by
      rcases hnz with h | h
      · exact absurd hip h
      · exact h
    obtain ⟨hfd, _⟩ := wf_fp hwf f hf
    have hr48 : rd inp (signBytes t).length = 48 := h48.mpr hip
    have hlz : p.leadingZero = true := by rw [hlzdef, hr48]; rfl
    have hno : p.numOff = (signBytes t).length + 1 := by rw [hnodef, hr48]; rfl
    have h2 : inp.drop ((signBytes t).length + 1) = (46 :: f) ++ (expBytes t ++ rest) := by
      have := drop_of_drop_append h1
      rw [hip] at this
      simpa [fracBytes, hf] using this
    have hml : t.mantLen - p.numOff = (46 :: f).length := by
      rw [hno]; simp [NumText.mantLen, hip, fracBytes, hf]
    have hN : slice inp p.numOff (t.mantLen - p.numOff) = [] ++ 46 :: f := by
      rw [hml, hno]; exact slice_of_drop h2
    rw [hN] at hY hdecdef
    obtain ⟨f', hff', hYf⟩ := split_zeros_dot _ [] f Y hY
    rw [findDot_digits_dot [] f rfl] at hdecdef
    have hdp : p.dp = (([] : Bytes).length : Int) + t.expVal := by
      rw [hdpdef, hdecdef]; simp [dpOf]
    have hf'd : allDigits f' = true := by
      rw [hff', allDigits_append, Bool.and_eq_true] at hfd; exact hfd.1
    refine ⟨[] ++ f', _, prepSpec_dot [] f' (trimOf inp p.numOff t.mantLen p.dp) hm rfl hf'd hdecdef hdp ?_ hlt hdot
      (by rw [hslice, hYf]) ?_ ?_ ?_ (fun _ => ⟨rfl, hip, by rw [hf]; rfl⟩)⟩
    · rw [← hYlen, hYf]; simp; omega
    · simp only [List.nil_append]
      rw [hff'] at hfnz
      exact zerosPrefix_lt_of_append f' _ hfnz
    · simp only [NumText.mant, hip, hf, Option.getD_some, List.cons_append, List.nil_append, digitsVal_zero_cons]
      rw [hff', digitsVal_append_zeros]
    · simp only [NumText.fracLen, hf, Option.getD_some]
      rw [hff']; simp
  · -- no leading zero
    have hne48 : i0 ≠ 48 := by
      intro h; apply hip; rw [hI, h, hi48 h]
    have hr48 : rd inp (signBytes t).length ≠ 48 := fun h => hip (h48.mp h)
    have hb : (rd inp (signBytes t).length == 48) = false := by simpa using hr48
    have hlz : p.leadingZero = false := by rw [hlzdef, hb]
    have hno : p.numOff = (signBytes t).length := by rw [hnodef, hb]; rfl
    have h1' : inp.drop (signBytes t).length = (t.ip ++ fracBytes t) ++ (expBytes t ++ rest) := by
      rw [h1]; simp
    have hml : t.mantLen - p.numOff = (t.ip ++ fracBytes t).length := by
      rw [hno]; simp [NumText.mantLen]; omega
    have hN : slice inp p.numOff (t.mantLen - p.numOff) = t.ip ++ fracBytes t := by
      rw [hml, hno]; exact slice_of_drop h1'
    rw [hN] at hY hdecdef
    cases hf : t.fp with
    | none =>
      simp only [fracBytes, hf, List.append_nil] at hY hdecdef
      rw [findDot_digits t.ip hIdig] at hdecdef
      have hIlen : t.ip.length = Y.length + trimOf inp p.numOff t.mantLen p.dp := by
        have := congrArg List.length hY
        simpa using this
      have hdp : p.dp = ((Y.length + trimOf inp p.numOff t.mantLen p.dp : Nat) : Int) + t.expVal := by
        rw [← hIlen]; rw [hdpdef, hdecdef, hml]; simp [dpOf, fracBytes, hf]
      obtain ⟨Y', hYY'⟩ := split_zeros_head _ i0 I' Y hne48 (by rw [← hI]; exact hY)
      have hYd : allDigits Y = true := by
        rw [hY, allDigits_append, Bool.and_eq_true] at hIdig; exact hIdig.1
      refine ⟨Y, _, prepSpec_nodot Y (trimOf inp p.numOff t.mantLen p.dp) hm hYd hdecdef hdp hYlen.symm hlt hdot hslice ?_ ?_ ?_ hlz⟩
      · have hb0 : (i0 == 48) = false := by simpa using hne48
        rw [hYY']; simp [zerosPrefix, hb0]
      · simp only [NumText.mant, hf, Option.getD_none, List.append_nil]
        rw [hY, digitsVal_append_zeros]
      · simp [NumText.fracLen, hf]
    | some f =>
      obtain ⟨hfd, _⟩ := wf_fp hwf f hf
      simp only [fracBytes, hf] at hY hdecdef
      obtain ⟨f', hff', hYf⟩ := split_zeros_dot _ t.ip f Y hY
      rw [findDot_digits_dot t.ip f hIdig] at hdecdef
      have hdp : p.dp = (t.ip.length : Int) + t.expVal := by
        rw [hdpdef, hdecdef]; simp [dpOf]
      have hf'd : allDigits f' = true := by
        rw [hff', allDigits_append, Bool.and_eq_true] at hfd; exact hfd.1
      refine ⟨t.ip ++ f', _, prepSpec_dot t.ip f' (trimOf inp p.numOff t.mantLen p.dp) hm hIdig hf'd hdecdef hdp ?_ hlt hdot
        (by rw [hslice, hYf]) ?_ ?_ ?_ (fun h => by rw [hlz] at h; cases h)⟩
      · rw [← hYlen, hYf]; simp; omega
      · have hb0 : (i0 == 48) = false := by simpa using hne48
        rw [hI]; simp [zerosPrefix, hb0]
      · simp only [NumText.mant, hf, Option.getD_some]
        rw [hff', ← List.append_assoc, digitsVal_append_zeros]
      · simp only [NumText.fracLen, hf, Option.getD_some]
        rw [hff']; simp

/-! ## the exponent -/

theorem expVal_render (t : NumText) (rest : Bytes) (hwf : t.wf = true) (hs : Stops rest = true)
    (up : Bool) (sg : Option Bool) (d : Bytes) (he : t.exp = some (up, sg, d)) :
    expDigits (t.render ++ rest) t.mantLen = d ∧ expVal (t.render ++ rest) t.mantLen = t.expVal := by
  generalize hinp : t.render ++ rest = inp
  have h0 : inp.drop 0 = signBytes t ++ (t.ip ++ (fracBytes t ++ (expBytes t ++ rest))) := by
    rw [← hinp, render_eq]; simp
  have h1 := drop_of_drop_append h0
  have h2 := drop_of_drop_append h1
  have h3 := drop_of_drop_append h2
  simp only [Nat.zero_add] at h3
  obtain ⟨_, hx2, hx3, hx4, _, hx6, _⟩ := scan_exp_some t hwf rest hs inp _ up sg d he h3
  have hml : (signBytes t).length + t.ip.length + (fracBytes t).length = t.mantLen := rfl
  rw [hml] at hx2 hx3 hx4 hx6
  have hD : expDigits inp t.mantLen = d := by
    unfold expDigits
    simp only [hx2, hx6]
    exact slice_of_drop hx4
  refine ⟨hD, ?_⟩
  unfold expVal NumText.expVal
  rw [hD, hx3, he]
  cases sg with
  | none => simp
  | some b => cases b <;> simp

/-! ## the value -/

theorem expNumber_value_of (inp : Bytes) (e : Nat) (x : ExpOut) (bytes : Bytes) (lens : List Int)
    (he : expNumber inp e = .ok x)
    (hc : compose inp (prep inp e (expVal inp e)) = ((bytes.length : Int), seqW 0 bytes, lens)) :
    x.value = bytes ∧ e ≤ 65535 := by
  unfold expNumber at he
  by_cases h1 : e > 65535
  · simp [h1] at he
  · by_cases h2 : digitsVal (expDigits inp e) > 65535
    · simp [h1, h2] at he
    · simp only [h1, h2, if_false, hc] at he
      split at he
      · cases he
      · injection he with he
        subst he
        simp only [Int.toNat_natCast]
        rw [value_of_seqW _ bytes lens (Nat.le_refl _) (Nat.le_succ _)]
        exact ⟨List.take_length, by omega⟩

/-- **the value of `lyjson_number` on a number text**: for the source as fixed, every successful call consumes exactly
    the text and hands on a plain decimal string that denotes the number written; for the 3.7.8 source, outside the
    branch of F14 -/
theorem number_value (t : NumText) (rest : Bytes) (hwf : t.wf = true) (hs : Stops rest = true)
    (hx : Generated.lyjsonExpLeadingZeroFixed = true ∨
      ¬ (t.ip = [48] ∧ t.fp.isSome = true ∧ 0 < t.expVal ∧ t.expVal ≤ t.fracLen)) :
    ∀ r, number (t.render ++ rest) = .ok r →
      r.consumed = t.render.length ∧ ∃ d, parseDec r.value = some d ∧ SameValue t d := by
  intro r hr
  have h0 : (t.render ++ rest).drop 0 = signBytes t ++ (t.ip ++ (fracBytes t ++ (expBytes t ++ rest))) := by
    rw [render_eq]; simp
  have hzm := isZero_mant t rest hwf hs
  -- the mantissa text is a decimal string
  have hmantText : slice (t.render ++ rest) 0 t.mantLen = signBytes t ++ (t.ip ++ fracBytes t) := by
    have : (t.render ++ rest).drop 0 = (signBytes t ++ (t.ip ++ fracBytes t)) ++ (expBytes t ++ rest) := by
      rw [h0]; simp
    have hl : t.mantLen = (signBytes t ++ (t.ip ++ fracBytes t)).length := by simp [NumText.mantLen]; omega
    rw [hl]; exact slice_of_drop this
  -- a zero mantissa
  have hzero : isZero (t.render ++ rest) 0 t.mantLen = true →
      ∃ d, parseDec (slice (t.render ++ rest) 0 ((signBytes t).length + 1)) = some d ∧ SameValue t d := by
    intro hz
    obtain ⟨hip, hm0⟩ := hzm.1 hz
    have : (t.render ++ rest).drop 0 = (signBytes t ++ [48]) ++ (fracBytes t ++ (expBytes t ++ rest)) := by
      rw [h0, hip]; simp
    have hl : (signBytes t).length + 1 = (signBytes t ++ [48]).length := by simp
    rw [hl, slice_of_drop this, signBytes_eq, parseDec_int t.neg 48 [] (by decide) rfl]
    exact ⟨_, rfl, sameValue_mant_zero t t.neg 0 hm0⟩
  unfold number at hr
  rw [scan_render t rest hwf hs] at hr
  simp only [] at hr
  cases he : t.exp with
  | none =>
    have hoff : t.render.length = t.mantLen := by rw [render_length]; simp [expBytes, he]
    simp only [he, Option.map_none, Option.getD_none, hoff] at hr
    by_cases hz : isZero (t.render ++ rest) 0 t.mantLen = true
    · simp only [hz, if_true] at hr
      injection hr with hr; subst hr
      exact ⟨hoff.symm, hzero hz⟩
    · simp only [hz, Bool.false_eq_true, if_false] at hr
      split at hr
      · cases hr
      · injection hr with hr; subst hr
        refine ⟨hoff.symm, _, ?_, sameValue_exp_zero t (by simp [NumText.expVal, he])⟩
        simp only []
        rw [hmantText, parseDec_mant t hwf]
  | some ex =>
    obtain ⟨up, sg, d⟩ := ex
    simp only [he, Option.map_some, Option.getD_some] at hr
    by_cases hz : isZero (t.render ++ rest) 0 t.mantLen = true
    · simp only [hz, if_true] at hr
      injection hr with hr; subst hr
      exact ⟨rfl, hzero hz⟩
    · simp only [hz, Bool.false_eq_true, if_false] at hr
      by_cases hze : isZero (t.render ++ rest) (t.mantLen + 1) t.render.length = true
      · simp only [hze, if_true] at hr
        injection hr with hr; subst hr
        refine ⟨rfl, _, ?_, sameValue_exp_zero t (isZero_exp t rest hwf hs up sg d he hze)⟩
        simp only []
        rw [hmantText, parseDec_mant t hwf]
      · simp only [hze, Bool.false_eq_true, if_false] at hr
        cases hexp : expNumber (t.render ++ rest) t.mantLen with
        | error x => rw [hexp] at hr; cases hr
        | ok x =>
          rw [hexp] at hr
          injection hr with hr; subst hr
          refine ⟨rfl, ?_⟩
          simp only []
          have hle : t.mantLen ≤ 65535 := by
            unfold expNumber at hexp
            by_cases h1 : t.mantLen > 65535
            · simp [h1] at hexp
            · omega
          have hnz := hzm.2 (by simpa using hz)
          obtain ⟨G, c, hspec⟩ := prepSpec_render t rest hwf hs hle hnz
          have hev := (expVal_render t rest hwf hs up sg d he).2
          rw [← hev] at hspec
          have hx' : Generated.lyjsonExpLeadingZeroFixed = true ∨
              ¬ ((prep (t.render ++ rest) t.mantLen (expVal (t.render ++ rest) t.mantLen)).leadingZero = true ∧
                 0 < (prep (t.render ++ rest) t.mantLen (expVal (t.render ++ rest) t.mantLen)).dp ∧
                 (prep (t.render ++ rest) t.mantLen (expVal (t.render ++ rest) t.mantLen)).dp
                   < (prep (t.render ++ rest) t.mantLen (expVal (t.render ++ rest) t.mantLen)).numLen) := by
            rcases hx with hx | hx
            · exact Or.inl hx
            · right
              rintro ⟨hlz, hpos, hlt⟩
              obtain ⟨hdec, _, hip, hfp, hfl⟩ := hspec.lz hlz
              have hexp' := hspec.exp
              have hlen := hspec.len
              simp only [hdec, Option.isSome_some, if_true] at hlen
              exact hx ⟨hip, hfp, by omega, by omega⟩
          obtain ⟨bytes, lens, hcomp, Mo, k, hparse, hout⟩ := compose_spec hspec hx'
          obtain ⟨hval, _⟩ := expNumber_value_of _ _ x bytes lens hexp hcomp
          rw [hval]
          exact ⟨_, hparse, sameValue_of t Mo k (digitsVal G) c _ hspec.mant hspec.exp hout⟩

/-! ## the errors -/

theorem expNumber_error (inp : Bytes) (e : Nat) (y : NumErr) (h : expNumber inp e = .error y) :
    y = .tooLong ∨ y = .expRange ∨ y = .maxLen := by
  unfold expNumber at h
  by_cases h1 : e > 65535
  · simp only [h1, if_true] at h; injection h with h; subst h; simp
  · by_cases h2 : digitsVal (expDigits inp e) > 65535
    · simp only [h1, h2, if_true, if_false] at h; injection h with h; subst h; simp
    · simp only [h1, h2, if_false] at h
      split at h
      · injection h with h; subst h; simp
      · cases h

/-- a number text is never refused as malformed: the only errors are the limits -/
theorem number_error_kind (t : NumText) (rest : Bytes) (hwf : t.wf = true) (hs : Stops rest = true) (x : NumErr)
    (hx : number (t.render ++ rest) = .error x) : x = .tooLong ∨ x = .expRange ∨ x = .maxLen := by
  unfold number at hx
  rw [scan_render t rest hwf hs] at hx
  simp only [] at hx
  repeat' split at hx
  all_goals first
    | (cases hx; done)
    | (injection hx with hx; subst hx; simp; done)
    | (rename_i y hy; injection hx with hx; subst hx; exact expNumber_error _ _ _ hy)

end LyModel.JsonNum
